import Mastverif.Model.PtrIter
import Mastverif.Lemmas.RefIter
/-!
# `Iter` at the level of node objects yields the in-order entries of the tree the link denotes

`iterEntries_spec`: from a `Good` state in which the link denotes the row `r` (`repLink`), the
walk of `node.iter` over the objects — loading every child through the store / cache, with any
pattern of failing loads — either fails (allocation-only step) or hands to the callback exactly
`r.toList`, in that order; the step is allocation-only.  `iterEntries_erase`: on the state the walk
is the walk `iterAll` of Model/Ptr.lean (the one `Sys.apply` runs).
-/
namespace Mast.Ptr
open Mast.Heap

theorem seqO_map_grow {m : Nat} {s s' : PS} (g : Grow m s s') {f : Nat} {ls : List HLink}
    {cs : List (Bool × T × List Nat)}
    (h : seqO (ls.map (repLink s.heap s.store f)) = some cs) :
    seqO (ls.map (repLink s'.heap s'.store f)) = some cs :=
  seqO_map_congr h (fun _ _ _ hc => g.rep hc)

theorem entryAt_spec {R : PS → PS → Prop} [PreR R] (ks vs : List Nat) (s : PS) (hl : vs.length = ks.length) :
    Spec R (entryAt ks vs) s (fun es s' => s' = s ∧
      es = match ks, vs with
           | k :: _, v :: _ => [(k, v)]
           | _, _ => []) := by
  cases ks with
  | nil => exact Spec.pure ⟨rfl, rfl⟩
  | cons k ks =>
    cases vs with
    | nil => simp at hl
    | cons v vs => exact Spec.pure ⟨rfl, rfl⟩

theorem iterEntriesLinks_spec {m : Nat} (G : HLink → M (List (Nat × Nat))) (f : Nat)
    (hG : ∀ l s, Good s → ∀ x, repLink s.heap s.store f l = some x →
      Spec (Grow m) (G l) s (fun es _ => es = x.2.1.toList)) :
    ∀ (ls : List HLink) (ks vs : List Nat) (cs : List (Bool × T × List Nat)) (s : PS), Good s →
      ls.length = ks.length + 1 → vs.length = ks.length →
      seqO (ls.map (repLink s.heap s.store f)) = some cs →
      Spec (Grow m) (iterEntriesLinks G ls ks vs) s
        (fun es _ => es = (mkRow (cs.map fun c => (c.1, c.2.1)) ks vs).toList) := by
  intro ls
  induction ls with
  | nil => intro ks vs cs s _ hl _ _; simp at hl
  | cons l ls ih =>
    intro ks vs cs s hg hl hv hseq
    obtain ⟨c, cs', hc, hcs', rfl⟩ := seqO_map_cons.mp hseq
    unfold iterEntriesLinks
    -- the child (or nothing, for a nil link)
    have hsub : Spec (Grow m) (match l with | .nil => (pure [] : M (List (Nat × Nat))) | l => G l) s
        (fun es _ => es = c.2.1.toList) := by
      cases l with
      | nil =>
        have : c = (false, T.nil, []) := by
          rw [repLink_nil] at hc; injection hc with hc; exact hc.symm
        subst this
        exact Spec.pure rfl
      | ptr a => exact hG (.ptr a) s hg c hc
      | ref n => exact hG (.ref n) s hg c hc
    refine Spec.bind hsub ?_
    intro sub s1 _ hgr1 hsubeq
    have hg1 := hgr1.good hg
    refine Spec.bind (entryAt_spec (R := Grow m) ks vs s1 hv) ?_
    rintro here s2 _ _ ⟨rfl, hhere⟩
    have hcs1 := seqO_map_grow hgr1 hcs'
    cases ls with
    | nil =>
      -- the last link: no entry follows
      have hks : ks = [] := by
        cases ks with
        | nil => rfl
        | cons _ _ => simp at hl
      subst hks
      have hvs : vs = [] := by
        cases vs with
        | nil => rfl
        | cons _ _ => simp at hv
      subst hvs
      have : cs' = [] := by
        simp only [List.map_nil] at hcs'
        rw [seqO_nil] at hcs'; injection hcs' with hcs'; exact hcs'.symm
      subst this
      unfold iterEntriesLinks
      refine Spec.bind (Spec.pure (Q := fun r s' => r = [] ∧ s' = s2) ⟨rfl, rfl⟩) ?_
      rintro rest s3 _ _ ⟨rfl, rfl⟩
      refine Spec.pure ?_
      subst hsubeq; subst hhere
      simp [mkRow, T.toList]
    | cons l2 ls2 =>
      cases ks with
      | nil => simp at hl
      | cons k ks' =>
        cases vs with
        | nil => simp at hv
        | cons v vs' =>
          have hl' : (l2 :: ls2).length = ks'.length + 1 := by simpa using hl
          have hv' : vs'.length = ks'.length := by simpa using hv
          refine Spec.bind (ih ks' vs' cs' s2 hg1 hl' hv' hcs1) ?_
          intro rest s3 _ _ hrest
          refine Spec.pure ?_
          subst hsubeq; subst hhere; subst hrest
          obtain ⟨c2, cs2, _, _, rfl⟩ := seqO_map_cons.mp hcs1
          simp [mkRow, T.toList]

theorem iterEntries_spec {m : Nat} (E : Env) : ∀ (f g : Nat) (l : HLink) (s : PS), Good s →
    ∀ x, repLink s.heap s.store g l = some x →
    Spec (Grow m) (iterEntries E f l) s (fun es _ => es = x.2.1.toList) := by
  intro f
  induction f with
  | zero => intro g l s _ x _; exact Spec.oof
  | succ f ih =>
    intro g l s hg x hx
    unfold iterEntries
    refine Spec.bind (load_spec (m := m) E l s hg) ?_
    intro a s1 _ hgr1 hq
    have hg1 := hgr1.good hg
    have hrep := hq.2.2 g x hx
    obtain ⟨g', nd, cs, rfl, hnd, hval, hseq, hxeq⟩ := repLink_ptr_some.mp hrep
    refine Spec.bind (read_spec a s1) ?_
    rintro nd' s2 _ _ ⟨rfl, hnd'⟩
    rw [hnd] at hnd'; injection hnd' with hnd'; subst hnd'
    have hrow : x.2.1 = mkRow (cs.map fun c => (c.1, c.2.1)) nd.keys nd.vals := by
      have := congrArg (fun y => y.2.1) hxeq
      simpa [nodeRep] using this
    rw [hrow]
    exact iterEntriesLinks_spec (m := m) _ g' (fun l s hg x hx => ih g' l s hg x hx)
      nd.links nd.keys nd.vals cs s1 hg1 hval.1 hval.2 hseq

end Mast.Ptr

/-! ## on the state, `iterEntries` is `iterAll` -/
namespace Mast.Ptr
open Mast.Heap

/-- same outcome and end state, the value forgotten (a panic of the left side is not constrained:
    `iterEntries` also models the index panic of `node.Value[i]` on a malformed node) -/
def Erases {α : Type} (r : Res α) (r' : Res Unit) : Prop :=
  match r with
  | .ok _ s' => r' = .ok () s'
  | .err s' => r' = .err s'
  | .oof => r' = .oof
  | .stuck => r' = .stuck
  | .panic => True

theorem erases_bind {α β : Type} {x : M α} {x' : M Unit} {f : α → M β} {f' : Unit → M Unit} {s : PS}
    (hx : Erases (x s) (x' s)) (hf : ∀ a s1, Erases (f a s1) (f' () s1)) :
    Erases ((x >>= f) s) ((x' >>= f') s) := by
  show Erases (M.bind x f s) (M.bind x' f' s)
  unfold M.bind
  unfold Erases at hx
  cases hxs : x s with
  | ok a s1 => rw [hxs] at hx; simp only [] at hx; rw [hx]; exact hf a s1
  | err s1 => rw [hxs] at hx; simp only [] at hx; rw [hx]; simp [Erases]
  | oof => rw [hxs] at hx; simp only [] at hx; rw [hx]; simp [Erases]
  | stuck => rw [hxs] at hx; simp only [] at hx; rw [hx]; simp [Erases]
  | panic => simp [Erases]

theorem erases_bind_same {α β : Type} {x : M α} {f : α → M β} {f' : α → M Unit} {s : PS}
    (hf : ∀ a s1, Erases (f a s1) (f' a s1)) :
    Erases ((x >>= f) s) ((x >>= f') s) := by
  show Erases (M.bind x f s) (M.bind x f' s)
  unfold M.bind
  cases x s with
  | ok a s1 => exact hf a s1
  | err s1 => simp [Erases]
  | oof => simp [Erases]
  | stuck => simp [Erases]
  | panic => simp [Erases]

theorem entryAt_bind {β : Type} (ks vs : List Nat) (f : List (Nat × Nat) → M β) (s : PS) :
    (entryAt ks vs >>= f) s = .panic ∨ ∃ here, (entryAt ks vs >>= f) s = f here s := by
  show M.bind (entryAt ks vs) f s = .panic ∨ ∃ here, M.bind (entryAt ks vs) f s = f here s
  unfold M.bind
  cases ks with
  | nil => exact Or.inr ⟨[], rfl⟩
  | cons k ks =>
    cases vs with
    | nil => exact Or.inl rfl
    | cons v vs => exact Or.inr ⟨[(k, v)], rfl⟩

theorem iterEntriesLinks_erase (G : HLink → M (List (Nat × Nat))) (G' : HLink → M Unit)
    (hG : ∀ l s, Erases (G l s) (G' l s)) :
    ∀ (ls : List HLink) (ks vs : List Nat) (s : PS),
      Erases (iterEntriesLinks G ls ks vs s) (iterLinks G' ls s) := by
  intro ls
  induction ls with
  | nil => intro ks vs s; simp [iterEntriesLinks, iterLinks, Erases, pure, M.pure]
  | cons l ls ih =>
    intro ks vs s
    have htail : ∀ (sub : List (Nat × Nat)) (s1 : PS),
        Erases ((do
          let here ← entryAt ks vs
          let rest ← iterEntriesLinks G ls ks.tail vs.tail
          pure (sub ++ here ++ rest) : M (List (Nat × Nat))) s1) (iterLinks G' ls s1) := by
      intro sub s1
      rcases entryAt_bind ks vs (fun here => do
          let rest ← iterEntriesLinks G ls ks.tail vs.tail
          pure (sub ++ here ++ rest)) s1 with h | ⟨here, h⟩
      · rw [h]; simp [Erases]
      · rw [h]
        have := ih ks.tail vs.tail s1
        show Erases (M.bind (iterEntriesLinks G ls ks.tail vs.tail) (fun rest => pure (sub ++ here ++ rest)) s1) _
        unfold M.bind
        unfold Erases at this
        cases hr : iterEntriesLinks G ls ks.tail vs.tail s1 with
        | ok a s2 => rw [hr] at this; simp only [] at this; rw [this]; simp [Erases, pure, M.pure]
        | err s2 => rw [hr] at this; simp only [] at this; rw [this]; simp [Erases]
        | oof => rw [hr] at this; simp only [] at this; rw [this]; simp [Erases]
        | stuck => rw [hr] at this; simp only [] at this; rw [this]; simp [Erases]
        | panic => simp [Erases]
    cases l with
    | nil =>
      unfold iterEntriesLinks iterLinks
      show Erases (M.bind (pure []) _ s) _
      exact htail [] s
    | ptr a =>
      unfold iterEntriesLinks iterLinks
      exact erases_bind (hG (.ptr a) s) (fun sub s1 => htail sub s1)
    | ref n =>
      unfold iterEntriesLinks iterLinks
      exact erases_bind (hG (.ref n) s) (fun sub s1 => htail sub s1)

/-- the walk that yields the entries is, on the state, the walk `Sys.apply` runs for `.iter` -/
theorem iterEntries_erase (E : Env) : ∀ (f : Nat) (l : HLink) (s : PS),
    Erases (iterEntries E f l s) (iterAll E f l s) := by
  intro f
  induction f with
  | zero => intro l s; simp [iterEntries, iterAll, Erases, oofE]
  | succ f ih =>
    intro l s
    unfold iterEntries iterAll
    refine erases_bind_same (fun a s1 => ?_)
    refine erases_bind_same (fun nd s2 => ?_)
    exact iterEntriesLinks_erase _ _ (fun c s => ih c s) nd.links nd.keys nd.vals s2

end Mast.Ptr
