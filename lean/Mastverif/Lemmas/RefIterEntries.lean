import Mastverif.Model.PtrIter
import Mastverif.Lemmas.RefIter
/-!
# `Iter` at the level of node objects yields the in-order entries of the tree the link denotes

`iterEntries_spec`: from a `Good` state in which the link denotes the row `r` (`repLink`), the
walk of `node.iter` over the objects — loading every child through the store / cache, with any
pattern of failing loads — either fails (allocation-only step) or hands to the callback exactly
`r.toList`, in that order; the step is allocation-only.  `iterEntries_erase`: on the state the walk
is the walk `iterAll` of Model/Ptr.lean (the one `Sys.apply` runs).
-/
namespace Mast.Ptr
open Mast.Heap

theorem seqO_map_grow {m : Nat} {s s' : PS} (g : Grow m s s') {f : Nat} {ls : List HLink}
    {cs : List (Bool × T × List Nat)}
    (h : seqO (ls.map (repLink s.heap s.store f)) = some cs) :
    seqO (ls.map (repLink s'.heap s'.store f)) = some cs :=
  seqO_map_congr h (fun _ _ _ hc => g.rep hc)

theorem entryAt_spec {R : PS → PS → Prop} [PreR R] (ks vs : List Nat) (s : PS) (hl : vs.length = ks.length) :
    Spec R (entryAt ks vs) s (fun es s' => s' = s ∧
      es = match ks, vs with
           | k :: _, v :: _ => [(k, v)]
           | _, _ => []) := by
  cases ks with
  | nil => exact Spec.pure ⟨rfl, rfl⟩
  | cons k ks =>
    cases vs with
    | nil => simp at hl
    | cons v vs => exact Spec.pure ⟨rfl, rfl⟩

theorem iterEntriesLinks_spec {m : Nat} (G : HLink → M (List (Nat × Nat))) (f : Nat)
    (hG : ∀ l s, Good s → ∀ x, repLink s.heap s.store f l = some x →
      Spec (Grow m) (G l) s (fun es _ => es = x.2.1.toList)) :
    ∀ (ls : List HLink) (ks vs : List Nat) (cs : List (Bool × T × List Nat)) (s : PS), Good s →
      ls.length = ks.length + 1 → vs.length = ks.length →
      seqO (ls.map (repLink s.heap s.store f)) = some cs →
      Spec (Grow m) (iterEntriesLinks G ls ks vs) s
        (fun es _ => es = (mkRow (cs.map fun c => (c.1, c.2.1)) ks vs).toList) := by
  intro ls
  induction ls with
  | nil => intro ks vs cs s _ hl _ _; simp at hl
  | cons l ls ih =>
    intro ks vs cs s hg hl hv hseq
    obtain ⟨c, cs', hc, hcs', rfl⟩ := seqO_map_cons.mp hseq
    unfold iterEntriesLinks
    -- the child (or nothing, for a nil link)
    have hsub : Spec (Grow m) (match l with | .nil => (pure [] : M (List (Nat × Nat))) | l => G l) s
        (fun es _ => es = c.2.1.toList) := by
      cases l with
      | nil =>
        have : c = (false, T.nil, []) := by
          rw [repLink_nil] at hc; injection hc with hc; exact hc.symm
        subst this
        exact Spec.pure rfl
      | ptr a => exact hG (.ptr a) s hg c hc
      | ref n => exact hG (.ref n) s hg c hc
    refine Spec.bind hsub ?_
    intro sub s1 _ hgr1 hsubeq
    have hg1 := hgr1.good hg
    refine Spec.bind (entryAt_spec (R := Grow m) ks vs s1 hv) ?_
    rintro here s2 _ _ ⟨rfl, hhere⟩
    have hcs1 := seqO_map_grow hgr1 hcs'
    cases ls with
    | nil =>
      -- the last link: no entry follows
      have hks : ks = [] := by
        cases ks with
        | nil => rfl
        | cons _ _ => simp at hl
      subst hks
      have hvs : vs = [] := by
        cases vs with
        | nil => rfl
        | cons _ _ => simp at hv
      subst hvs
      have : cs' = [] := by
        simp only [List.map_nil] at hcs'
        rw [seqO_nil] at hcs'; injection hcs' with hcs'; exact hcs'.symm
      subst this
      unfold iterEntriesLinks
      refine Spec.bind (Spec.pure (Q := fun r s' => r = [] ∧ s' = s2) ⟨rfl, rfl⟩) ?_
      rintro rest s3 _ _ ⟨rfl, rfl⟩
      refine Spec.pure ?_
      subst hsubeq; subst hhere
      simp [mkRow, T.toList]
    | cons l2 ls2 =>
      cases ks with
      | nil => simp at hl
      | cons k ks' =>
        cases vs with
        | nil => simp at hv
        | cons v vs' =>
          have hl' : (l2 :: ls2).length = ks'.length + 1 := by simpa using hl
          have hv' : vs'.length = ks'.length := by simpa using hv
          refine Spec.bind (ih ks' vs' cs' s2 hg1 hl' hv' hcs1) ?_
          intro rest s3 _ _ hrest
          refine Spec.pure ?_
          subst hsubeq; subst hhere; subst hrest
          obtain ⟨c2, cs2, _, _, rfl⟩ := seqO_map_cons.mp hcs1
          simp [mkRow, T.toList]

theorem iterEntries_spec {m : Nat} (E : Env) : ∀ (f g : Nat) (l : HLink) (s : PS), Good s →
    ∀ x, repLink s.heap s.store g l = some x →
    Spec (Grow m) (iterEntries E f l) s (fun es _ => es = x.2.1.toList) := by
  intro f
  induction f with
  | zero => intro g l s _ x _; exact Spec.oof
  | succ f ih =>
    intro g l s hg x hx
    unfold iterEntries
    refine Spec.bind (load_spec (m := m) E l s hg) ?_
    intro a s1 _ hgr1 hq
    have hg1 := hgr1.good hg
    have hrep := hq.2.2 g x hx
    obtain ⟨g', nd, cs, rfl, hnd, hval, hseq, hxeq⟩ := repLink_ptr_some.mp hrep
    refine Spec.bind (read_spec a s1) ?_
    rintro nd' s2 _ _ ⟨rfl, hnd'⟩
    rw [hnd] at hnd'; injection hnd' with hnd'; subst hnd'
    have hrow : x.2.1 = mkRow (cs.map fun c => (c.1, c.2.1)) nd.keys nd.vals := by
      have := congrArg (fun y => y.2.1) hxeq
      simpa [nodeRep] using this
    rw [hrow]
    exact iterEntriesLinks_spec (m := m) _ g' (fun l s hg x hx => ih g' l s hg x hx)
      nd.links nd.keys nd.vals cs s1 hg1 hval.1 hval.2 hseq

end Mast.Ptr
