import Mastverif.Lemmas.PtrBase
/-! The three guarded primitives, `read`, and the loads: what each needs, what each gives. -/
namespace Mast.Ptr
open Mast.Heap

theorem allocOnly_append (h : Heap) (nd : MNode) : AllocOnly h (h ++ [nd]) := by
  intro a x hx
  have hlt : a < h.length := (List.getElem?_eq_some_iff.mp hx).1
  rw [List.getElem?_append_left hlt]; exact hx

theorem vis_of_allocOnly {h h' : Heap} {v : Nat} (ha : AllocOnly h h') {l : HLink} (hv : Vis h v l) : Vis h' v l := by
  cases l with
  | nil => trivial
  | ref n => trivial
  | ptr a => obtain ⟨nd, hnd, hso⟩ := hv; exact ⟨nd, ha a nd hnd, hso⟩

theorem shared_of_allocOnly {h h' : Heap} (ha : AllocOnly h h') {a : Nat} (hv : SharedA h a) : SharedA h' a := by
  obtain ⟨nd, hnd, hs⟩ := hv; exact ⟨nd, ha a nd hnd, hs⟩

theorem own_of_allocOnly {h h' : Heap} {m : Nat} (ha : AllocOnly h h') {a : Nat} (hv : Own h m a) : Own h' m a := by
  obtain ⟨nd, hnd, hs⟩ := hv; exact ⟨nd, ha a nd hnd, hs⟩

theorem getElem?_append_self (h : Heap) (nd : MNode) : (h ++ [nd])[h.length]? = some nd := by
  rw [List.getElem?_append_right (Nat.le_refl _)]; simp

theorem closed_append {h : Heap} {v : Nat} {nd : MNode} (hc : Closed h v)
    (hn : (nd.shared = true ∨ nd.owner = v) → ∀ l ∈ nd.links, Vis h v l) : Closed (h ++ [nd]) v := by
  intro a x hx hso l hl
  rcases getElem?_append_single hx with hx | ⟨_, rfl⟩
  · exact vis_of_allocOnly (allocOnly_append h nd) (hc a x hx hso l hl)
  · exact vis_of_allocOnly (allocOnly_append h x) (hn hso l hl)

theorem du_append {h : Heap} {nd : MNode} (hd : DirtyUnshared h) (hn : nd.dirty = true → nd.shared = false) :
    DirtyUnshared (h ++ [nd]) := by
  intro a x hx
  rcases getElem?_append_single hx with hx | ⟨_, rfl⟩
  · exact hd a x hx
  · exact hn

theorem getElem?_set_cases {h : Heap} {a b : Nat} {nd x : MNode} (hx : (h.set a nd)[b]? = some x) :
    (b = a ∧ x = nd) ∨ (b ≠ a ∧ h[b]? = some x) := by
  by_cases hba : b = a
  · subst hba
    left
    have hlt : b < h.length := by
      have := (List.getElem?_eq_some_iff.mp hx).1; simpa using this
    rw [List.getElem?_set_self hlt] at hx
    injection hx with hx; exact ⟨rfl, hx.symm⟩
  · right
    rw [List.getElem?_set_ne (Ne.symm hba)] at hx
    exact ⟨hba, hx⟩

theorem vis_set_mono {h : Heap} {v a : Nat} {old nd : MNode} (ho : h[a]? = some old)
    (hk : (old.shared = true ∨ old.owner = v) → (nd.shared = true ∨ nd.owner = v))
    {l : HLink} (hv : Vis h v l) : Vis (h.set a nd) v l := by
  cases l with
  | nil => trivial
  | ref n => trivial
  | ptr b =>
    obtain ⟨x, hx, hso⟩ := hv
    by_cases hba : b = a
    · subst hba
      have hlt : b < h.length := (List.getElem?_eq_some_iff.mp ho).1
      rw [ho] at hx; injection hx with hx; subst hx
      exact ⟨nd, List.getElem?_set_self hlt, hk hso⟩
    · exact ⟨x, by rw [List.getElem?_set_ne (Ne.symm hba)]; exact hx, hso⟩

theorem closed_set {h : Heap} {v a : Nat} {old nd : MNode} (hc : Closed h v) (ho : h[a]? = some old)
    (hk : (old.shared = true ∨ old.owner = v) → (nd.shared = true ∨ nd.owner = v))
    (hn : (nd.shared = true ∨ nd.owner = v) → ∀ l ∈ nd.links, Vis h v l) : Closed (h.set a nd) v := by
  intro b x hx hso l hl
  rcases getElem?_set_cases hx with ⟨_, rfl⟩ | ⟨_, hx⟩
  · exact vis_set_mono ho hk (hn hso l hl)
  · exact vis_set_mono ho hk (hc b x hx hso l hl)

theorem du_set {h : Heap} {a : Nat} {nd : MNode} (hd : DirtyUnshared h) (hn : nd.dirty = true → nd.shared = false) :
    DirtyUnshared (h.set a nd) := by
  intro b x hx
  rcases getElem?_set_cases hx with ⟨_, rfl⟩ | ⟨_, hx⟩
  · exact hn
  · exact hd b x hx

theorem shared_set {h : Heap} {a b : Nat} {old nd : MNode} (ho : h[a]? = some old)
    (hk : old.shared = true → nd.shared = true) (hs : SharedA h b) : SharedA (h.set a nd) b := by
  obtain ⟨x, hx, hsx⟩ := hs
  by_cases hba : b = a
  · subst hba
    have hlt : b < h.length := (List.getElem?_eq_some_iff.mp ho).1
    rw [ho] at hx; injection hx with hx; subst hx
    exact ⟨nd, List.getElem?_set_self hlt, hk hsx⟩
  · exact ⟨x, by rw [List.getElem?_set_ne (Ne.symm hba)]; exact hx, hsx⟩

theorem own_set {h : Heap} {m a b : Nat} {old nd : MNode} (ho : h[a]? = some old)
    (hn : nd.shared = false ∧ nd.owner = m) (hs : Own h m b) : Own (h.set a nd) m b := by
  obtain ⟨x, hx, hsx⟩ := hs
  by_cases hba : b = a
  · subst hba
    have hlt : b < h.length := (List.getElem?_eq_some_iff.mp ho).1
    exact ⟨nd, List.getElem?_set_self hlt, hn⟩
  · exact ⟨x, by rw [List.getElem?_set_ne (Ne.symm hba)]; exact hx, hsx⟩

/-! ## read -/

theorem read_sat {m lvl : Nat} {P : PS → Prop} (a : Nat) :
    Sat m lvl P (read a) (fun nd s => s.heap[a]? = some nd) := by
  intro s hinv _
  unfold read
  cases h : s.heap[a]? with
  | none => trivial
  | some nd => exact ⟨Ext.refl _ _ _, hinv, h⟩

/-! ## alloc -/

/-- the extension made by appending an object that `m` allocates for itself (or decodes) -/
theorem ext_append {m lvl : Nat} {s : PS} {nd : MNode} {c : List (Nat × Nat)} {t : Nat}
    (hg : applyAct s.heap (.alloc nd) = some (s.heap ++ [nd])) (ho : nd.owner = m ∨ nd.owner = 0) :
    Ext m lvl s { s with heap := s.heap ++ [nd], cache := c, tick := t } := by
  refine ⟨?_, ?_, ?_, ?_, ?_, ⟨[], by simp⟩⟩
  · intro v hvm hv0 hc
    exact foreign_step hc (by rcases ho with h | h <;> simp [Foreign, h] <;> omega) hg
  · intro l hl; exact vis_of_allocOnly (allocOnly_append _ _) hl
  · intro a ha; exact shared_of_allocOnly (allocOnly_append _ _) ha
  · intro _ a ha; exact own_of_allocOnly (allocOnly_append _ _) ha
  · intro _; exact allocOnly_append _ _

theorem alloc_guard {h : Heap} {nd : MNode} (hl : ∀ l ∈ nd.links, linkOK h nd.owner l = true)
    (hs : nd.shared = true → ∀ l ∈ nd.links, isPtr l = false) :
    applyAct h (.alloc nd) = some (h ++ [nd]) := by
  simp only [applyAct]
  rw [if_pos]
  refine ⟨List.all_eq_true.mpr hl, fun h1 => List.all_eq_true.mpr (fun l hl' => by simp [hs h1 l hl'])⟩

/-- a new unshared object of `m` whose links `m` can see -/
theorem alloc_sat' {m lvl : Nat} {P : PS → Prop} (nd : MNode)
    (hp : ∀ s, Inv m s → P s → nd.owner = m ∧ nd.shared = false ∧ ∀ l ∈ nd.links, Vis s.heap m l) :
    Sat m lvl P (alloc nd) (fun a s' => Own s'.heap m a ∧ s'.heap[a]? = some nd) := by
  intro s hinv hP
  obtain ⟨hown, hsh, hl⟩ := hp s hinv hP
  have hg : applyAct s.heap (.alloc nd) = some (s.heap ++ [nd]) :=
    alloc_guard (fun l hl' => by rw [hown]; exact linkOK_of_vis (hl l hl'))
      (fun h1 => by rw [hsh] at h1; cases h1)
  unfold alloc
  rw [hg]
  have he : Ext m lvl s { s with heap := s.heap ++ [nd] } := ext_append (c := s.cache) (t := s.tick) hg (Or.inl hown)
  refine ⟨he, ⟨?_, ?_, hinv.flat, ?_, hinv.mpos⟩, ⟨nd, getElem?_append_self _ _, hsh, hown⟩, getElem?_append_self _ _⟩
  · exact closed_append hinv.closed (fun _ => hl)
  · exact du_append hinv.du (fun _ => hsh)
  · intro n a hna; exact he.shr a (hinv.cache n a hna)

theorem alloc_sat {m lvl : Nat} {P : PS → Prop} (nd : MNode) (hown : nd.owner = m) (hsh : nd.shared = false)
    (hl : ∀ s, Inv m s → P s → ∀ l ∈ nd.links, Vis s.heap m l) :
    Sat m lvl P (alloc nd) (fun a s' => Own s'.heap m a ∧ s'.heap[a]? = some nd) :=
  alloc_sat' nd (fun s hi hP => ⟨hown, hsh, hl s hi hP⟩)

/-! ## write -/

theorem write_guard {h : Heap} {m a : Nat} {old nd : MNode} (ho : h[a]? = some old)
    (h1 : old.owner = m) (h2 : old.shared = false) (h3 : nd.owner = m) (h4 : nd.shared = false)
    (h5 : ∀ l ∈ nd.links, linkOK h m l = true) (h6 : m ≠ 0) :
    applyAct h (.write m a nd) = some (h.set a nd) := by
  simp only [applyAct, ho]
  rw [if_pos]
  exact ⟨h1, h2, h3, h4, List.all_eq_true.mpr h5, h6⟩

/-- `m` overwrites an object it owns with an unshared object of its own whose links it can see -/
theorem write_sat {m lvl : Nat} (hl1 : lvl ≤ 1) {P : PS → Prop} (a : Nat) (nd : MNode)
    (hp : ∀ s, Inv m s → P s → Own s.heap m a ∧ (∀ l ∈ nd.links, Vis s.heap m l) ∧ nd.owner = m ∧ nd.shared = false) :
    Sat m lvl P (write m a nd) (fun _ s' => s'.heap[a]? = some nd) := by
  intro s hinv hP
  obtain ⟨⟨old, ho, hos, hoo⟩, hl, hown, hsh⟩ := hp s hinv hP
  have hg : applyAct s.heap (.write m a nd) = some (s.heap.set a nd) :=
    write_guard ho hoo hos hown hsh (fun l hl' => linkOK_of_vis (hl l hl')) hinv.mpos
  unfold write
  rw [hg]
  have hlt : a < s.heap.length := (List.getElem?_eq_some_iff.mp ho).1
  have hk : ∀ v, (old.shared = true ∨ old.owner = v) → (nd.shared = true ∨ nd.owner = v) := by
    intro v h; rcases h with h | h
    · rw [hos] at h; cases h
    · right; rw [hown, ← hoo, h]
  refine ⟨⟨?_, ?_, ?_, ?_, ?_, ⟨[], by simp⟩⟩, ⟨?_, ?_, hinv.flat, ?_, hinv.mpos⟩, List.getElem?_set_self hlt⟩
  · intro v hvm hv0 hc
    exact foreign_step hc (by simp [Foreign]; omega) hg
  · intro l hv; exact vis_set_mono ho (hk m) hv
  · intro b hb; exact shared_set ho (fun h => by rw [hos] at h; cases h) hb
  · intro _ b hb; exact own_set ho ⟨hsh, hown⟩ hb
  · intro h2; omega
  · exact closed_set hinv.closed ho (hk m) (fun _ => hl)
  · exact du_set hinv.du (fun _ => hsh)
  · intro n b hnb; exact shared_set ho (fun h => by rw [hos] at h; cases h) (hinv.cache n b hnb)

/-! ## publish -/

theorem publish_sat {m : Nat} {P : PS → Prop} (a : Nat) (links : List HLink)
    (hp : ∀ s, Inv m s → P s → Own s.heap m a ∧ ∀ l ∈ links, isPtr l = false) :
    Sat m 0 P (publish m a links) (fun _ s' => SharedA s'.heap a) := by
  intro s hinv hP
  obtain ⟨⟨old, ho, hos, hoo⟩, hflat⟩ := hp s hinv hP
  have hg : applyAct s.heap (.publish m a links) =
      some (s.heap.set a { old with links := links, dirty := false, shared := true }) := by
    simp only [applyAct, ho]
    rw [if_pos]
    exact ⟨hoo, hos, List.all_eq_true.mpr (fun l hl => by simp [hflat l hl]), hinv.mpos⟩
  unfold publish
  rw [hg]
  have hlt : a < s.heap.length := (List.getElem?_eq_some_iff.mp ho).1
  have hvl : ∀ v l, l ∈ links → Vis s.heap v l := by
    intro v l hl
    have := hflat l hl
    cases l <;> simp_all [isPtr, Vis]
  refine ⟨⟨?_, ?_, ?_, ?_, ?_, ⟨[], by simp⟩⟩, ⟨?_, ?_, hinv.flat, ?_, hinv.mpos⟩, ⟨_, List.getElem?_set_self hlt, rfl⟩⟩
  · intro v hvm hv0 hc
    exact foreign_step hc (by simp [Foreign]; omega) hg
  · intro l hv; exact vis_set_mono ho (fun _ => Or.inl rfl) hv
  · intro b hb; exact shared_set ho (fun _ => rfl) hb
  · intro h2; omega
  · intro h2; omega
  · exact closed_set hinv.closed ho (fun _ => Or.inl rfl) (fun _ l hl => hvl m l hl)
  · exact du_set hinv.du (fun h => by simp at h)
  · intro n b hnb; exact shared_set ho (fun _ => rfl) (hinv.cache n b hnb)

/-! ## loads -/

theorem lookupCache_mem {n a : Nat} : ∀ {c : List (Nat × Nat)}, lookupCache n c = some a → (n, a) ∈ c := by
  intro c
  induction c with
  | nil => intro h; simp [lookupCache] at h
  | cons x xs ih =>
    intro h
    obtain ⟨k, b⟩ := x
    simp only [lookupCache] at h
    split at h
    · next hk => injection h with h; subst h; subst hk; simp
    · exact List.mem_cons_of_mem _ (ih h)

theorem loadRef_sat {m lvl : Nat} {P : PS → Prop} (E : Env) (n : Nat) :
    Sat m lvl P (loadRef E n) (fun a s' => SharedA s'.heap a) := by
  intro s hinv _
  unfold loadRef
  cases hc : (if s.useCache = true then lookupCache n s.cache else none) with
  | some a =>
    simp only []
    refine ⟨Ext.refl _ _ _, hinv, ?_⟩
    split at hc
    · exact hinv.cache n a (lookupCache_mem hc)
    · cases hc
  | none =>
    simp only []
    have hi1 : Inv m { s with tick := s.tick + 1 } := ⟨hinv.closed, hinv.du, hinv.flat, hinv.cache, hinv.mpos⟩
    have he1 : Ext m lvl s { s with tick := s.tick + 1 } := Ext.of_heap_eq rfl ⟨[], by simp⟩
    cases hf : E.failAt s.tick with
    | true => simp only [if_true]; exact ⟨he1, hi1⟩
    | false =>
      simp only [Bool.false_eq_true, if_false]
      cases hsn : (if n = 0 then none else s.store[n - 1]?) with
      | none => simp only []; exact ⟨he1, hi1⟩
      | some sn =>
        simp only []
        have hmem : sn ∈ s.store := by
          split at hsn
          · cases hsn
          · exact List.mem_of_getElem? hsn
        have hfl : ∀ l ∈ (if sn.links.isEmpty then List.replicate (sn.keys.length + 1) HLink.nil else sn.links),
            isPtr l = false := by
          intro l hl
          split at hl
          · rw [List.mem_replicate] at hl; rw [hl.2]; rfl
          · exact hinv.flat sn hmem l hl
        have hg := alloc_guard (h := s.heap)
          (nd := { keys := sn.keys, vals := sn.vals,
                   links := (if sn.links.isEmpty then List.replicate (sn.keys.length + 1) HLink.nil else sn.links),
                   dirty := false, shared := true, owner := 0, source := some n })
          (fun l hl => by have := hfl l hl; cases l <;> simp_all [isPtr, linkOK])
          (fun _ => hfl)
        simp only [hg]
        have he := ext_append (m := m) (lvl := lvl) (s := s)
          (c := if s.useCache then (n, s.heap.length) :: s.cache else s.cache) (t := s.tick + 1) hg (Or.inr rfl)
        refine ⟨he, ⟨?_, ?_, hinv.flat, ?_, hinv.mpos⟩, ⟨_, getElem?_append_self _ _, rfl⟩⟩
        · exact closed_append hinv.closed (fun _ l hl => by have := hfl l hl; cases l <;> simp_all [isPtr, Vis])
        · exact du_append hinv.du (fun h => by simp at h)
        · intro k b hkb
          simp only at hkb
          split at hkb
          · rcases List.mem_cons.mp hkb with h | h
            · injection h with _ h2; subst h2; exact ⟨_, getElem?_append_self _ _, rfl⟩
            · exact he.shr b (hinv.cache k b h)
          · exact he.shr b (hinv.cache k b hkb)

theorem layerM_sat {m lvl : Nat} {P : PS → Prop} (E : Env) (k : Nat) :
    Sat m lvl P (layerM E k) (fun _ _ => True) := by
  intro s hinv _
  unfold layerM
  have hi1 : Inv m { s with ltick := s.ltick + 1 } := ⟨hinv.closed, hinv.du, hinv.flat, hinv.cache, hinv.mpos⟩
  have he1 : Ext m lvl s { s with ltick := s.ltick + 1 } := Ext.of_heap_eq rfl ⟨[], by simp⟩
  cases hf : E.layerFailAt s.ltick with
  | true => simp only [if_true]; exact ⟨he1, hi1⟩
  | false => simp only [Bool.false_eq_true, if_false]; exact ⟨he1, hi1, trivial⟩

theorem load_sat {m lvl : Nat} (E : Env) (l : HLink) :
    Sat m lvl (fun s => Vis s.heap m l) (load E l) (fun a s' => Vis s'.heap m (.ptr a)) := by
  cases l with
  | nil => exact Sat.fail
  | ptr a => exact Sat.pure (fun s _ h => h)
  | ref n => exact (loadRef_sat E n).conseq (Nat.le_refl _) (fun _ _ h => h) (fun a s _ h => shared_vis h)

end Mast.Ptr
