import Mastverif.Model.Cursor
/-!
# A placement that is resumed from a partial descent (functional cursor)

`Min`, `Max` and `Ceil` walk down from the node on top of the path.  When a load fails part-way the
Go code returns with the path it has built so far.  The relations `MinPartial`, `MaxPartial`,
`CeilPartial` describe those intermediate paths; the lemmas say that the same placement called
again on such a path ends exactly where the uninterrupted placement ends — provided the model's
loop fuel covers the descent (`MinDone` / `MaxDone` / `CeilDone`: the Go loops have no fuel).
-/
namespace Mast.Cursor
open Mast.T

/-! ## Min -/

/-- the first-link descent from `node` ends within `f` rounds -/
def MinDone : Nat → T → Prop
  | 0, _ => False
  | f+1, node => (linkAt node 0).isNil = true ∨ MinDone f (linkAt node 0)

theorem MinDone.succ : ∀ {f : Nat} {node : T}, MinDone f node → MinDone (f + 1) node
  | 0, _, h => nomatch h
  | f+1, node, h => by
    rcases h with h | h
    · exact Or.inl h
    · exact Or.inr (MinDone.succ h)

theorem minFrom_succ : ∀ {f : Nat} {node : T} (P : Path), MinDone f node →
    minFrom (f + 1) node P = minFrom f node P
  | 0, _, _, h => nomatch h
  | f+1, node, P, h => by
    rcases h with h | h
    · simp only [minFrom, h, if_true]
    · by_cases hn : (linkAt node 0).isNil = true
      · simp only [minFrom, hn, if_true]
      · rw [minFrom]
        simp only [hn]
        rw [minFrom_succ _ h]
        conv => rhs; rw [minFrom]
        simp only [hn, Bool.false_eq_true, if_false]

/-- paths a failing `Min` can leave: the descent so far -/
inductive MinPartial : Path → Path → Prop
  | here (P : Path) : MinPartial P P
  | down (node : T) (j : Nat) (rest P'' : Path) : (linkAt node 0).isNil = false →
      MinPartial ((linkAt node 0, 0) :: (node, j) :: rest) P'' → MinPartial ((node, j) :: rest) P''

def MinDoneP (f : Nat) : Path → Prop
  | [] => True
  | (node, _) :: _ => MinDone f node

theorem MinPartial.done : ∀ {P P'' : Path}, MinPartial P P'' → ∀ {f : Nat}, MinDoneP f P → MinDoneP f P''
  | _, _, .here _, _, h => h
  | _, _, .down node j rest P'' hn hp, f, h => by
    cases f with
    | zero => exact nomatch h
    | succ f =>
      rcases h with h | h
      · rw [hn] at h; exact nomatch h
      · have := hp.done (f := f) h
        cases P'' with
        | nil => trivial
        | cons x xs => exact MinDone.succ this

/-- **`Min` resumed**: from any path a failing `Min` can leave, `Min` ends where it would have -/
theorem min_resume : ∀ {P P'' : Path}, MinPartial P P'' → ∀ {f : Nat}, MinDoneP f P → min f P'' = min f P
  | _, _, .here _, _, _ => rfl
  | _, _, .down node j rest P'' hn hp, f, h => by
    cases f with
    | zero => exact nomatch h
    | succ f =>
      rcases h with h | h
      · rw [hn] at h; exact nomatch h
      · have ih := min_resume hp (f := f) h
        have hd := hp.done (f := f) h
        have e1 : min (f + 1) ((node, j) :: rest) = min f ((linkAt node 0, 0) :: (node, j) :: rest) := by
          simp only [min]
          rw [minFrom]
          simp only [hn, Bool.false_eq_true, if_false]
        rw [e1, ← ih]
        cases P'' with
        | nil => rfl
        | cons x xs =>
          obtain ⟨n2, j2⟩ := x
          simp only [min]
          exact minFrom_succ _ hd

/-! ## Max -/

def MaxDone : Nat → T → Prop
  | 0, _ => False
  | f+1, node => (linkAt node (rowLen node)).isNil = true ∨ MaxDone f (linkAt node (rowLen node))

theorem MaxDone.succ : ∀ {f : Nat} {node : T}, MaxDone f node → MaxDone (f + 1) node
  | 0, _, h => nomatch h
  | f+1, node, h => by
    rcases h with h | h
    · exact Or.inl h
    · exact Or.inr (MaxDone.succ h)

theorem maxFrom_succ : ∀ {f : Nat} {node : T} (P : Path), MaxDone f node →
    maxFrom (f + 1) node P = maxFrom f node P
  | 0, _, _, h => nomatch h
  | f+1, node, P, h => by
    by_cases hn : (linkAt node (rowLen node)).isNil = true
    · simp only [maxFrom, hn, if_true]
    · rcases h with h | h
      · exact absurd h hn
      · rw [maxFrom]
        simp only [hn]
        rw [maxFrom_succ _ h]
        conv => rhs; rw [maxFrom]
        simp only [hn, Bool.false_eq_true, if_false]

/-- paths a failing `Max` can leave: `(node, P)` is "descend from `node`, with `P` below it" -/
inductive MaxPartial : T → Path → T → Path → Prop
  | here (node : T) (P : Path) : MaxPartial node P node P
  | down (node : T) (P : Path) (node'' : T) (P'' : Path) : (linkAt node (rowLen node)).isNil = false →
      MaxPartial (linkAt node (rowLen node)) ((node, rowLen node) :: P) node'' P'' → MaxPartial node P node'' P''

theorem MaxPartial.done : ∀ {node : T} {P : Path} {node'' : T} {P'' : Path}, MaxPartial node P node'' P'' →
    ∀ {f : Nat}, MaxDone f node → MaxDone f node''
  | _, _, _, _, .here _ _, _, h => h
  | _, _, _, _, .down node P node'' P'' hn hp, f, h => by
    cases f with
    | zero => exact nomatch h
    | succ f =>
      rcases h with h | h
      · rw [hn] at h; exact nomatch h
      · exact MaxDone.succ (hp.done (f := f) h)

/-- **`Max` resumed** -/
theorem max_resume : ∀ {node : T} {P : Path} {node'' : T} {P'' : Path}, MaxPartial node P node'' P'' →
    ∀ {f : Nat}, MaxDone f node → maxFrom f node'' P'' = maxFrom f node P
  | _, _, _, _, .here _ _, _, _ => rfl
  | _, _, _, _, .down node P node'' P'' hn hp, f, h => by
    cases f with
    | zero => exact nomatch h
    | succ f =>
      rcases h with h | h
      · rw [hn] at h; exact nomatch h
      · have ih := max_resume hp (f := f) h
        have hd := hp.done (f := f) h
        have e1 : maxFrom (f + 1) node P = maxFrom f (linkAt node (rowLen node)) ((node, rowLen node) :: P) := by
          rw [maxFrom]
          simp only [hn, Bool.false_eq_true, if_false]
        rw [e1, ← ih]
        exact maxFrom_succ _ hd

/-! ## Ceil -/

/-- where `Ceil` goes from a node: `none` = it ends in this node (key found, or no child to enter) -/
def ceilDown (k : Nat) (node : T) : Option (T × Nat) :=
  match entryAt node (lowerBound k node) with
  | some (k', _) => if k' = k then none else if (linkAt node (lowerBound k node)).isNil then none
      else some (linkAt node (lowerBound k node), lowerBound k node)
  | none => if (linkAt node (lowerBound k node)).isNil then none
      else some (linkAt node (lowerBound k node), lowerBound k node)

theorem ceil_down {k : Nat} {node c : T} {i : Nat} (h : ceilDown k node = some (c, i)) (f j : Nat) (rest : Path) :
    ceil k (f + 1) ((node, j) :: rest) = ceil k f ((c, 0) :: (node, i) :: rest) := by
  unfold ceilDown at h
  rw [ceil]
  cases he : entryAt node (lowerBound k node) with
  | none =>
    rw [he] at h
    simp only [] at h ⊢
    by_cases hn : (linkAt node (lowerBound k node)).isNil = true
    · simp [hn] at h
    · simp only [hn, Bool.false_eq_true, if_false, Option.some.injEq, Prod.mk.injEq] at h ⊢
      obtain ⟨rfl, rfl⟩ := h
      rfl
  | some kv =>
    obtain ⟨k', v'⟩ := kv
    rw [he] at h
    simp only [] at h ⊢
    by_cases hk : k' = k
    · simp [hk] at h
    · by_cases hn : (linkAt node (lowerBound k node)).isNil = true
      · simp [hk, hn] at h
      · simp only [hk, hn, Bool.false_eq_true, if_false, Option.some.injEq, Prod.mk.injEq] at h ⊢
        obtain ⟨rfl, rfl⟩ := h
        rfl

theorem ceil_stop {k : Nat} {node : T} (h : ceilDown k node = none) (f j j' : Nat) (rest : Path) :
    ceil k (f + 2) ((node, j) :: rest) = ceil k (f + 1) ((node, j') :: rest) := by
  unfold ceilDown at h
  rw [ceil, ceil]
  cases he : entryAt node (lowerBound k node) with
  | none =>
    rw [he] at h
    simp only [] at h ⊢
    by_cases hn : (linkAt node (lowerBound k node)).isNil = true
    · simp only [hn, if_true]
    · simp [hn] at h
  | some kv =>
    obtain ⟨k', v'⟩ := kv
    rw [he] at h
    simp only [] at h ⊢
    by_cases hk : k' = k
    · simp only [hk, if_true]
    · by_cases hn : (linkAt node (lowerBound k node)).isNil = true
      · simp only [hk, hn, if_true, if_false]
      · simp [hk, hn] at h

def CeilDone (k : Nat) : Nat → Path → Prop
  | 0, _ => False
  | _+1, [] => True
  | f+1, (node, _) :: rest =>
      match ceilDown k node with
      | none => True
      | some (c, i) => CeilDone k f ((c, 0) :: (node, i) :: rest)

theorem CeilDone.succ {k : Nat} : ∀ {f : Nat} {P : Path}, CeilDone k f P → CeilDone k (f + 1) P
  | 0, _, h => nomatch h
  | _+1, [], _ => trivial
  | f+1, (node, j) :: rest, h => by
    unfold CeilDone at h ⊢
    cases hd : ceilDown k node with
    | none => trivial
    | some ci =>
      obtain ⟨c, i⟩ := ci
      rw [hd] at h
      exact CeilDone.succ h

theorem CeilDone.reindex {k : Nat} {f : Nat} {node : T} {j : Nat} {rest : Path} (j' : Nat) :
    CeilDone k f ((node, j) :: rest) → CeilDone k f ((node, j') :: rest) := by
  cases f with
  | zero => exact id
  | succ f => unfold CeilDone; exact id

theorem ceil_succ {k : Nat} : ∀ {f : Nat} {P : Path}, CeilDone k f P → ceil k (f + 1) P = ceil k f P
  | 0, _, h => nomatch h
  | f+1, [], _ => by simp [ceil]
  | f+1, (node, j) :: rest, h => by
    unfold CeilDone at h
    cases hd : ceilDown k node with
    | none => exact ceil_stop hd f j j rest
    | some ci =>
      obtain ⟨c, i⟩ := ci
      rw [hd] at h
      rw [ceil_down hd, ceil_down hd]
      exact ceil_succ h

/-- paths a failing `Ceil` can leave (the index of the top entry is whatever the search left) -/
inductive CeilPartial (k : Nat) : Path → Path → Prop
  | here (node : T) (j j' : Nat) (rest : Path) : CeilPartial k ((node, j) :: rest) ((node, j') :: rest)
  | down (node c : T) (i j : Nat) (rest P'' : Path) : ceilDown k node = some (c, i) →
      CeilPartial k ((c, 0) :: (node, i) :: rest) P'' → CeilPartial k ((node, j) :: rest) P''

theorem CeilPartial.done {k : Nat} : ∀ {P P'' : Path}, CeilPartial k P P'' → ∀ {f : Nat}, CeilDone k f P → CeilDone k f P''
  | _, _, .here node j j' rest, _, h => CeilDone.reindex j' h
  | _, _, .down node c i j rest P'' hd hp, f, h => by
    cases f with
    | zero => exact nomatch h
    | succ f =>
      unfold CeilDone at h
      rw [hd] at h
      exact CeilDone.succ (hp.done (f := f) h)

theorem ceil_reindex {k : Nat} (f : Nat) (node : T) (j j' : Nat) (rest : Path) :
    ceil k f ((node, j') :: rest) = ceil k f ((node, j) :: rest) ∨ f = 0 := by
  cases f with
  | zero => exact Or.inr rfl
  | succ f => left; rw [ceil, ceil]

/-- **`Ceil` resumed** -/
theorem ceil_resume {k : Nat} : ∀ {P P'' : Path}, CeilPartial k P P'' → ∀ {f : Nat}, CeilDone k f P →
    ceil k f P'' = ceil k f P
  | _, _, .here node j j' rest, f, h => by
    rcases ceil_reindex (k := k) f node j j' rest with e | e
    · exact e
    · subst e; exact nomatch h
  | _, _, .down node c i j rest P'' hd hp, f, h => by
    cases f with
    | zero => exact nomatch h
    | succ f =>
      unfold CeilDone at h
      rw [hd] at h
      have ih := ceil_resume hp (f := f) h
      rw [ceil_down hd, ← ih]
      exact ceil_succ (hp.done (f := f) h)

end Mast.Cursor
