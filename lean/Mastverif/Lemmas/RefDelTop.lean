import Mastverif.Lemmas.RefDelCommit
import Mastverif.Lemmas.RefDelShrinkAll
import Mastverif.Lemmas.RefErr
/-! `Delete` refines `Tree.delete`. -/
namespace Mast.Ptr
open Mast.Heap

/-- the functional tree with the entry removed, before the height reduction -/
def delRec (A : Tree) (r : T) : Tree := { A with root := r, rootP := false, dirty := true, size := A.size - 1 }

theorem tree_delete_ok {layer : Nat → Nat} {m : Tree} {k v : Nat} {r : T} (h : m.lookup layer k = some v)
    (hd : T.del k (m.levels layer k) m.root = some r) :
    Tree.delete layer m k v = .ok (Tree.shrinkLoop (m.height + 1) (delRec m r)) := by
  unfold Tree.delete; rw [h]; simp [hd, delRec]

theorem tree_delete_notpresent {layer : Nat → Nat} {m : Tree} {k v : Nat} (h : m.lookup layer k = none) :
    Tree.delete layer m k v = .err "notpresent" := by
  unfold Tree.delete; rw [h]

theorem tree_delete_mismatch {layer : Nat → Nat} {m : Tree} {k v v' : Nat} (h : m.lookup layer k = some v')
    (hne : v' ≠ v) : Tree.delete layer m k v = .err "valuemismatch" := by
  unfold Tree.delete; rw [h]; simp [hne]

theorem DelPlanRef.get {key val n0 : Nat} {x : Bool × T × List Nat} {height target : Nat} {p : DelPlan} {h : Heap}
    {st : List SNode} (hp : DelPlanRef key val n0 x height target p h st) :
    T.get key (height - target) x.2.1 = some val := by
  obtain ⟨_, _, _, _, _, _, _, _, _, _, _, _, _, _, _, _, _, _, _, hget, _⟩ := hp
  exact hget

/-- the common part of the two refinement theorems: what an `ok` run of `delete` establishes -/
theorem delete_ok_core (E : Env) (fuel g : Nat) (s s' : PS) (t t' : PTree) (k v : Nat) (A : Tree)
    (hg : Good s) (hown : FpOwned s.heap t.id (footprint s g t))
    (hA : repTree s g t = some A) (h : delete E fuel s t k v = (s', t', .ok)) :
    ∃ g' y' r, Tree.lookup E.layer A k = some v ∧ T.del k (A.levels E.layer k) A.root = some r ∧
      repLink s'.heap s'.store g' t'.root = some y' ∧ y'.2.2.Nodup ∧ y'.1 = false ∧
      Good s' ∧ FpOwned s'.heap t'.id y'.2.2 ∧ t'.id = t.id ∧ t'.bf = t.bf ∧ Step t.id s s' ∧
      ((∃ a', t'.root = .ptr a' ∧ rootDirty s'.heap t'.root = true ∧
          treeRec t' y' true = Tree.shrinkLoop (A.height + 1) (delRec A r)) ∨
       (t'.root = .nil ∧ t'.height < t.height ∧ ¬ (t'.height > 0 ∧ t'.size ≤ t'.shrinkBelow) ∧
          ∃ n, treeRec t' y' true = Tree.shrinkLoop n (delRec A r))) := by
  obtain ⟨x, hx, hxnd, hAeq⟩ := repTree_eq_some.mp hA
  rw [footprint_eq hx] at hown
  have hspec := deletePlan_spec E t fuel k v s hg hx hxnd
  unfold delete at h
  cases hpl : deletePlan E t fuel k v s with
  | err s1 => rw [hpl] at h; simp at h
  | panic => rw [hpl] at h; simp at h
  | stuck => rw [hpl] at h; simp at h
  | oof => rw [hpl] at h; simp at h
  | ok p s1 =>
    rw [hpl] at h
    obtain ⟨hgr1, hroot, hplan⟩ := hspec.ok hpl
    have hg1 := hgr1.good hg
    have hxrow : T.unmk x.2.1 = x.2.1 := unmk_of_ne_nil (repLink_row_ne_nil hx hroot)
    have hlook : Tree.lookup E.layer A k = some v := by
      rw [hAeq]
      show T.get k (t.height - min (E.layer k) t.height) (T.unmk x.2.1) = some v
      rw [hxrow]; exact hplan.get
    have hlev : Tree.levels E.layer A k = t.height - min (E.layer k) t.height := by rw [hAeq]; rfl
    have hAroot : A.root = x.2.1 := by rw [hAeq]; exact hxrow
    have hcs := deleteCommit_spec t p k v s s1 x t.height (min (E.layer k) t.height) hg1 hgr1.toStep hown hplan
    simp only at h
    cases hcm : deleteCommit t p s1 with
    | err s2 => rw [hcm] at h; simp at h
    | panic => rw [hcm] at h; simp at h
    | stuck => rw [hcm] at h; simp at h
    | oof => rw [hcm] at h; simp at h
    | ok root s2 =>
      rw [hcm] at h
      obtain ⟨hst2, a0, g1, y, rfl, hy, hdel, hfp, hdirty⟩ := hcs.ok hcm
      have hst02 : Step t.id s s2 := hgr1.toStep.trans hst2
      have hg2 := hst2.good hg1
      have hyf : y.1 = false := repLink_flag_ptr hy
      have hyrow : T.unmk y.2.1 = y.2.1 := unmk_of_ne_nil (repLink_row_ne_nil hy (by simp))
      have hdelA : T.del k (Tree.levels E.layer A k) A.root = some y.2.1 := by rw [hlev, hAroot]; exact hdel
      have hsa := shrinkAll_refines E fuel { t with root := .ptr a0, size := t.size - 1 } s2 g1 a0 y hg2 rfl hy hfp.1
        hdirty
      have hM : treeRec { t with root := .ptr a0, size := t.size - 1 } y true = delRec A y.2.1 := by
        rw [hAeq]; simp only [treeRec, delRec, hyrow, hyf]
      simp only at h
      unfold afterCommit at h
      cases hsh : shrinkAll E fuel { t with root := .ptr a0, size := t.size - 1 } s2 with
      | err s3 => rw [hsh] at h; simp at h
      | panic => rw [hsh] at h; simp at h
      | stuck => rw [hsh] at h; simp at h
      | oof => rw [hsh] at h; simp at h
      | ok t2 s3 =>
        rw [hsh] at h
        simp only [Prod.mk.injEq, and_true] at h
        obtain ⟨rfl, rfl⟩ := h
        obtain ⟨hgr3, g3, y3, hy3, hy3f, hid3, hbf3, hsz3, hfp3, hcase⟩ := hsa.ok hsh
        have hst03 : Step t.id s s3 := hst02.trans hgr3.toStep
        have hfp03 : FpExt s.heap.length x.2.2 y3.2.2 := hfp.trans hfp3 hst02.len
        refine ⟨g3, y3, y.2.1, hlook, hdelA, hy3, hfp03.1, hy3f, hgr3.good hg2, ?_, hid3, hbf3, hst03, ?_⟩
        · rw [hid3]
          exact fpOwned_of_step hst03 hown hfp03 (repLink_fp_unshared _ _ _ hy3)
        · rcases hcase with ⟨a', e1, e2, e3, e4⟩ | ⟨e1, e2, e3, n, e4⟩
          · refine Or.inl ⟨a', e1, by rw [e1]; exact e2, ?_⟩
            rw [hM] at e3
            rw [e3] at e4 ⊢
            exact (shrinkLoop_fuel fuel (delRec A y.2.1) e4).symm
          · refine Or.inr ⟨e1, e2, e3, n, ?_⟩
            rw [e4, hM]

/-- **Delete refines `Tree.delete`** — when the tree did not shrink to the absent root link (see
    `delete_refines_emptied` for that case, in which the two models differ). -/
theorem delete_refines (E : Env) (fuel g : Nat) (s s' : PS) (t t' : PTree) (k v : Nat) (A : Tree)
    (hg : Good s) (hown : FpOwned s.heap t.id (footprint s g t))
    (hA : repTree s g t = some A) (h : delete E fuel s t k v = (s', t', .ok)) (hroot : t'.root ≠ .nil) :
    ∃ g' A', repTree s' g' t' = some A' ∧ Tree.delete E.layer A k v = .ok A' ∧ Good s' ∧
      FpOwned s'.heap t'.id (footprint s' g' t') ∧ t'.id = t.id ∧ t'.bf = t.bf ∧ Step t.id s s' := by
  obtain ⟨g', y', r, hlook, hdel, hy', hnd', hf', hg', hown', hid, hbf, hst, hcase⟩ :=
    delete_ok_core E fuel g s s' t t' k v A hg hown hA h
  rcases hcase with ⟨a', e1, e2, e3⟩ | ⟨e1, _⟩
  · refine ⟨g', _, repTree_eq_some.mpr ⟨y', hy', hnd', rfl⟩, ?_, hg', ?_, hid, hbf, hst⟩
    · rw [tree_delete_ok hlook hdel, ← e3, e2]
    · rw [footprint_eq hy']; exact hown'
  · exact absurd e1 hroot

/-- the case in which the two models differ: the last entry went and a `shrink` replaced the root link by `nil`.
    The object level reports `IsDirty = false` and stops shrinking (the next `shrink` would return an error);
    the functional model keeps `dirty = true` and shrinks down to height 0. -/
theorem delete_refines_emptied (E : Env) (fuel g : Nat) (s s' : PS) (t t' : PTree) (k v : Nat) (A : Tree)
    (hg : Good s) (hown : FpOwned s.heap t.id (footprint s g t))
    (hA : repTree s g t = some A) (h : delete E fuel s t k v = (s', t', .ok)) (hroot : t'.root = .nil) :
    ∃ g' A', repTree s' g' t' = some A' ∧ A'.root = T.last false T.nil ∧ A'.dirty = false ∧ t'.height < t.height ∧
      ¬ (t'.height > 0 ∧ t'.size ≤ t'.shrinkBelow) ∧
      Tree.delete E.layer A k v = .ok (Tree.shrinkLoop (A'.height + 1) { A' with dirty := true }) ∧
      (t'.height = 0 → Tree.delete E.layer A k v = .ok { A' with dirty := true }) ∧ Good s' ∧
      FpOwned s'.heap t'.id (footprint s' g' t') ∧ t'.id = t.id ∧ t'.bf = t.bf ∧ Step t.id s s' := by
  obtain ⟨g', y', r, hlook, hdel, hy', hnd', hf', hg', hown', hid, hbf, hst, hcase⟩ :=
    delete_ok_core E fuel g s s' t t' k v A hg hown hA h
  rcases hcase with ⟨a', e1, _⟩ | ⟨_, e2, e3, n, e4⟩
  · rw [hroot] at e1; cases e1
  · have hy0 : y' = (false, T.nil, []) := by
      rw [hroot] at hy'; simp at hy'; exact hy'.symm
    have hdirty : rootDirty s'.heap t'.root = false := by rw [hroot]; rfl
    have hrec : ({ treeRec t' y' (rootDirty s'.heap t'.root) with dirty := true } : Tree) = treeRec t' y' true := rfl
    have hmain : Tree.delete E.layer A k v =
        .ok (Tree.shrinkLoop ((treeRec t' y' (rootDirty s'.heap t'.root)).height + 1)
          { treeRec t' y' (rootDirty s'.heap t'.root) with dirty := true }) := by
      rw [tree_delete_ok hlook hdel, hrec]
      have hh : (treeRec t' y' (rootDirty s'.heap t'.root)).height = (treeRec t' y' true).height := rfl
      rw [hh, e4, ← shrinkLoop_add]
      have hconv : ¬ shrinkCond (Tree.shrinkLoop ((Tree.shrinkLoop n (delRec A r)).height + 1 + n) (delRec A r)) := by
        rw [shrinkLoop_add]
        exact shrinkLoop_conv _ _ (Nat.lt_succ_self _)
      have := shrinkLoop_fuel _ _ hconv
      have hD : (delRec A r).height = A.height := rfl
      rw [hD] at this
      rw [this]
    refine ⟨g', _, repTree_eq_some.mpr ⟨y', hy', hnd', rfl⟩, ?_, hdirty, e2, e3, hmain, ?_, hg', ?_, hid, hbf, hst⟩
    · rw [hy0]; rfl
    · intro h0
      rw [hmain]
      have hnc : ¬ shrinkCond ({ treeRec t' y' (rootDirty s'.heap t'.root) with dirty := true } : Tree) := by
        intro hc
        have := hc.1
        simp only [treeRec] at this
        omega
      rw [shrinkLoop_of_not_cond hnc]
    · rw [footprint_eq hy']; exact hown'

theorem NoErrR.deleteCommit (t : PTree) (p : DelPlan) : NoErrR (deleteCommit t p) := by
  unfold Ptr.deleteCommit
  refine NoErrR.bind (NoErrR.toMut _ _) (fun a' => NoErrR.bind (NoErrR.read a') (fun nd => ?_))
  exact NoErrR.bind (NoErrR.write _ _ _) (fun _ => NoErrR.savePath _ _)

/-- `Delete` ending in an error: either the tree is untouched (the plan failed: key absent, other value, a failed
    load or layer call, a failed merge), or the entry is gone — root replaced, `size` decremented — and only the
    height reduction failed (the recorded finding C12; the returned record is the one before any shrink). -/
theorem delete_err_refines (E : Env) (fuel g : Nat) (s s' : PS) (t t' : PTree) (k v : Nat) (A : Tree)
    (hg : Good s) (hown : FpOwned s.heap t.id (footprint s g t))
    (hA : repTree s g t = some A) (h : delete E fuel s t k v = (s', t', .err)) :
    Good s' ∧ Step t.id s s' ∧ t'.id = t.id ∧
    ((t' = t ∧ repTree s' g t = some A ∧ FpOwned s'.heap t.id (footprint s' g t)) ∨
     (∃ g' r, Tree.lookup E.layer A k = some v ∧ T.del k (A.levels E.layer k) A.root = some r ∧
        repTree s' g' t' = some (delRec A r) ∧ FpOwned s'.heap t'.id (footprint s' g' t'))) := by
  obtain ⟨x, hx, hxnd, hAeq⟩ := repTree_eq_some.mp hA
  rw [footprint_eq hx] at hown
  have hspec := deletePlan_spec E t fuel k v s hg hx hxnd
  unfold delete at h
  cases hpl : deletePlan E t fuel k v s with
  | panic => rw [hpl] at h; simp at h
  | stuck => rw [hpl] at h; simp at h
  | oof => rw [hpl] at h; simp at h
  | err s1 =>
    rw [hpl] at h
    simp only [Prod.mk.injEq, and_true] at h
    obtain ⟨rfl, rfl⟩ := h
    have hgr1 := hspec.err hpl
    refine ⟨hgr1.good hg, hgr1.toStep, rfl, Or.inl ⟨rfl, hgr1.repTree hA, ?_⟩⟩
    rw [footprint_eq (hgr1.rep hx)]
    exact fpOwned_of_step hgr1.toStep hown (FpExt.refl hxnd) (repLink_fp_unshared _ _ _ (hgr1.rep hx))
  | ok p s1 =>
    rw [hpl] at h
    obtain ⟨hgr1, hroot, hplan⟩ := hspec.ok hpl
    have hg1 := hgr1.good hg
    have hxrow : T.unmk x.2.1 = x.2.1 := unmk_of_ne_nil (repLink_row_ne_nil hx hroot)
    have hlook : Tree.lookup E.layer A k = some v := by
      rw [hAeq]
      show T.get k (t.height - min (E.layer k) t.height) (T.unmk x.2.1) = some v
      rw [hxrow]; exact hplan.get
    have hlev : Tree.levels E.layer A k = t.height - min (E.layer k) t.height := by rw [hAeq]; rfl
    have hAroot : A.root = x.2.1 := by rw [hAeq]; exact hxrow
    have hcs := deleteCommit_spec t p k v s s1 x t.height (min (E.layer k) t.height) hg1 hgr1.toStep hown hplan
    simp only at h
    cases hcm : deleteCommit t p s1 with
    | err s2 => exact absurd hcm (NoErrR.deleteCommit t p s1 s2)
    | panic => rw [hcm] at h; simp at h
    | stuck => rw [hcm] at h; simp at h
    | oof => rw [hcm] at h; simp at h
    | ok root s2 =>
      rw [hcm] at h
      obtain ⟨hst2, a0, g1, y, rfl, hy, hdel, hfp, hdirty⟩ := hcs.ok hcm
      have hst02 : Step t.id s s2 := hgr1.toStep.trans hst2
      have hg2 := hst2.good hg1
      have hyf : y.1 = false := repLink_flag_ptr hy
      have hyrow : T.unmk y.2.1 = y.2.1 := unmk_of_ne_nil (repLink_row_ne_nil hy (by simp))
      have hdelA : T.del k (Tree.levels E.layer A k) A.root = some y.2.1 := by rw [hlev, hAroot]; exact hdel
      have hsa := shrinkAll_refines E fuel { t with root := .ptr a0, size := t.size - 1 } s2 g1 a0 y hg2 rfl hy hfp.1
        hdirty
      simp only at h
      unfold afterCommit at h
      cases hsh : shrinkAll E fuel { t with root := .ptr a0, size := t.size - 1 } s2 with
      | ok t2 s3 => rw [hsh] at h; simp at h
      | panic => rw [hsh] at h; simp at h
      | stuck => rw [hsh] at h; simp at h
      | oof => rw [hsh] at h; simp at h
      | err s3 =>
        rw [hsh] at h
        simp only [Prod.mk.injEq, and_true] at h
        obtain ⟨rfl, rfl⟩ := h
        have hgr3 : Grow t.id s2 s3 := hsa.err hsh
        have hst03 : Step t.id s s3 := hst02.trans hgr3.toStep
        have hy3 : repLink s3.heap s3.store g1 ({ t with root := .ptr a0, size := t.size - 1 } : PTree).root = some y :=
          hgr3.rep hy
        refine ⟨hgr3.good hg2, hst03, rfl, Or.inr ⟨g1, y.2.1, hlook, hdelA, ?_, ?_⟩⟩
        · have h2 : repTree s2 g1 { t with root := .ptr a0, size := t.size - 1 } =
              some (treeRec { t with root := .ptr a0, size := t.size - 1 } y true) :=
            repTree_eq_some.mpr ⟨y, hy, hfp.1, by rw [hdirty]⟩
          rw [hgr3.repTree h2, hAeq]
          simp only [treeRec, delRec, hyrow, hyf]
        · show FpOwned s3.heap t.id (footprint s3 g1 { t with root := .ptr a0, size := t.size - 1 })
          rw [footprint_eq hy3]
          exact fpOwned_of_step hst03 hown hfp (repLink_fp_unshared _ _ _ hy3)

/-- the object level does not succeed unless the functional lookup finds the key with that value, and a failed
    call then leaves the tree as it was, while `Tree.delete` reports "notpresent" / "valuemismatch" -/
theorem delete_absent (E : Env) (fuel g : Nat) (s s' : PS) (t t' : PTree) (k v : Nat) (A : Tree) (o : Outcome)
    (hg : Good s) (hown : FpOwned s.heap t.id (footprint s g t))
    (hA : repTree s g t = some A) (hne : Tree.lookup E.layer A k ≠ some v) (h : delete E fuel s t k v = (s', t', o)) :
    o ≠ .ok ∧
    (Tree.delete E.layer A k v = .err "notpresent" ∨ Tree.delete E.layer A k v = .err "valuemismatch") ∧
    (o = .err → t' = t ∧ repTree s' g t = some A ∧ Good s' ∧ FpOwned s'.heap t.id (footprint s' g t) ∧
      Step t.id s s') := by
  refine ⟨?_, ?_, ?_⟩
  · intro ho
    subst ho
    obtain ⟨_, _, _, hlook, _⟩ := delete_ok_core E fuel g s s' t t' k v A hg hown hA h
    exact hne hlook
  · cases hl : Tree.lookup E.layer A k with
    | none => exact Or.inl (tree_delete_notpresent hl)
    | some v' =>
      refine Or.inr (tree_delete_mismatch hl ?_)
      intro hvv; subst hvv; exact hne hl
  · intro ho
    subst ho
    obtain ⟨hg', hst, _, hcase⟩ := delete_err_refines E fuel g s s' t t' k v A hg hown hA h
    rcases hcase with ⟨e1, e2, e3⟩ | ⟨_, _, hlook, _⟩
    · exact ⟨e1, e2, hg', e3, hst⟩
    · exact absurd hlook hne

end Mast.Ptr
#print axioms Mast.Ptr.delete_refines
#print axioms Mast.Ptr.delete_refines_emptied
#print axioms Mast.Ptr.delete_err_refines
#print axioms Mast.Ptr.delete_absent
