import Mastverif.Lemmas.RefTickGet
/-!
# A depth bound on what hangs below a link, and the descent under it

`DepthLe h st n l`: below the link `l` there are at most `n` levels of nodes (objects of the heap `h`,
stored nodes of `st`).  Nothing else is demanded of the nodes (no validity, no order, no layers); a name
that the store does not resolve counts as a leaf (the load fails after one store load).
-/
namespace Mast.Ptr
open Mast.Heap

def DepthLe (h : Heap) (st : List SNode) : Nat → HLink → Prop
  | _, .nil => True
  | 0, _ => False
  | n+1, .ptr a => ∃ nd, h[a]? = some nd ∧ ∀ l ∈ nd.links, DepthLe h st n l
  | n+1, .ref k => ∀ sn, storeAt st k = some sn → ∀ l ∈ expandLinks sn, DepthLe h st n l

@[simp] theorem depthLe_nil (h : Heap) (st : List SNode) (n : Nat) : DepthLe h st n .nil := by
  cases n <;> simp [DepthLe]

theorem depthLe_ptr_succ {h : Heap} {st : List SNode} {n a : Nat} :
    DepthLe h st (n + 1) (.ptr a) ↔ ∃ nd, h[a]? = some nd ∧ ∀ l ∈ nd.links, DepthLe h st n l := by
  simp only [DepthLe]

theorem depthLe_ref_succ {h : Heap} {st : List SNode} {n k : Nat} :
    DepthLe h st (n + 1) (.ref k) ↔ ∀ sn, storeAt st k = some sn → ∀ l ∈ expandLinks sn, DepthLe h st n l := by
  simp only [DepthLe]

theorem DepthLe.pos {h : Heap} {st : List SNode} {n : Nat} {l : HLink} (hd : DepthLe h st n l) (hl : l ≠ .nil) :
    0 < n := by
  cases n with
  | zero => cases l with
    | nil => exact absurd rfl hl
    | ptr a => simp [DepthLe] at hd
    | ref k => simp [DepthLe] at hd
  | succ n => omega

theorem DepthLe.succ {h : Heap} {st : List SNode} : ∀ (n : Nat) (l : HLink), DepthLe h st n l → DepthLe h st (n + 1) l := by
  intro n
  induction n with
  | zero =>
    intro l hd
    cases l with
    | nil => simp
    | ptr a => simp [DepthLe] at hd
    | ref k => simp [DepthLe] at hd
  | succ n ih =>
    intro l hd
    cases l with
    | nil => simp
    | ptr a =>
      obtain ⟨nd, hnd, hl⟩ := depthLe_ptr_succ.mp hd
      exact depthLe_ptr_succ.mpr ⟨nd, hnd, fun l hl' => ih l (hl l hl')⟩
    | ref k =>
      exact depthLe_ref_succ.mpr (fun sn hsn l hl => ih l (depthLe_ref_succ.mp hd sn hsn l hl))

theorem DepthLe.mono {h : Heap} {st : List SNode} {n n' : Nat} {l : HLink} (hd : DepthLe h st n l) (hn : n ≤ n') :
    DepthLe h st n' l := by
  induction hn with
  | refl => exact hd
  | step _ ih => exact DepthLe.succ _ _ ih

theorem DepthLe.allocOnly {h h' : Heap} {st : List SNode} (ha : AllocOnly h h') :
    ∀ (n : Nat) (l : HLink), DepthLe h st n l → DepthLe h' st n l := by
  intro n
  induction n with
  | zero =>
    intro l hd
    cases l with
    | nil => simp
    | ptr a => simp [DepthLe] at hd
    | ref k => simp [DepthLe] at hd
  | succ n ih =>
    intro l hd
    cases l with
    | nil => simp
    | ptr a =>
      obtain ⟨nd, hnd, hl⟩ := depthLe_ptr_succ.mp hd
      exact depthLe_ptr_succ.mpr ⟨nd, ha a nd hnd, fun l hl' => ih l (hl l hl')⟩
    | ref k =>
      exact depthLe_ref_succ.mpr (fun sn hsn l hl => ih l (depthLe_ref_succ.mp hd sn hsn l hl))

theorem DepthLe.ext {s s' : PS} (e : AExt s s') {n : Nat} {l : HLink} (hd : DepthLe s.heap s.store n l) :
    DepthLe s'.heap s'.store n l := by
  rw [e.store]; exact DepthLe.allocOnly e.alloc n l hd

/-- a load keeps the depth bound: the object that comes back is at most as deep as the link was -/
theorem load_depth (E : Env) (l : HLink) (s : PS) (hc : CacheS s) {k : Nat} (hd : DepthLe s.heap s.store k l) :
    TS AExt (loadCost l) (load E l) s
      (fun a s' => l ≠ .nil ∧ (∀ b, l = .ptr b → a = b ∧ s' = s) ∧ DepthLe s'.heap s'.store k (.ptr a)) := by
  refine (load_ts E l s).conseq (Nat.le_refl _) ?_
  intro a s' _ hext ⟨h1, h2, h3⟩
  refine ⟨h1, h2, ?_⟩
  cases l with
  | nil => exact absurd rfl h1
  | ptr b =>
    obtain ⟨rfl, rfl⟩ := h2 b rfl
    exact hd
  | ref n =>
    obtain ⟨nd, sn, hnd, hsn, hlk⟩ := h3 n rfl hc
    cases k with
    | zero => simp [DepthLe] at hd
    | succ k =>
      refine depthLe_ptr_succ.mpr ⟨nd, hnd, ?_⟩
      intro l' hl'
      rw [hlk] at hl'
      exact DepthLe.ext hext (depthLe_ref_succ.mp hd sn hsn l' hl')

/-- the child of node `a` on the way to `key` is at most `n` levels deep -/
def ChildD (s : PS) (key a n : Nat) : Prop :=
  ∃ nd, s.heap[a]? = some nd ∧ ∀ l, nd.links[keyIdx nd.keys key]? = some l → DepthLe s.heap s.store n l

theorem ChildD.of_depth {s : PS} {key a n : Nat} (hd : DepthLe s.heap s.store (n + 1) (.ptr a)) : ChildD s key a n := by
  obtain ⟨nd, hnd, hl⟩ := depthLe_ptr_succ.mp hd
  exact ⟨nd, hnd, fun l hl' => hl l (List.mem_of_getElem? hl')⟩

/-- `follow` on the way to `key`: one level down (or, at an absent link without `create`, staying put) -/
theorem follow_depth (E : Env) (m key a : Nat) (create : Bool) (s : PS) (hc : CacheS s) {nd : MNode} {k : Nat}
    (hnd : s.heap[a]? = some nd) (hk : 0 < k)
    (hd : ∀ l, nd.links[keyIdx nd.keys key]? = some l → DepthLe s.heap s.store k l) :
    TS AExt 1 (follow E m a (keyIdx nd.keys key) create) s (fun c s' => ChildD s' key c (k - 1)) := by
  unfold follow
  refine TS.bind (a := 0) (b := 1) (read_ts a s) ?_ (by omega)
  rintro nd' s1 _ _ ⟨rfl, hnd'⟩
  rw [hnd] at hnd'; injection hnd' with hnd'; subst hnd'
  split
  · exact TS.panic
  · next hl =>
    split
    · refine (alloc_ts (emptyNode m) s).conseq (by omega) ?_
      rintro c s' _ _ ⟨rfl, rfl⟩
      refine ⟨emptyNode m, getElem?_append_self _ _, ?_⟩
      intro l hl'
      have : l = .nil := by
        have hm := List.mem_of_getElem? hl'
        simpa [emptyNode] using hm
      subst this; simp
    · refine TS.pure ⟨nd, hnd, ?_⟩
      intro l hl'
      rw [hl] at hl'; injection hl' with hl'; subst hl'; simp
  · next l hne hl =>
    refine (load_depth E l s hc (hd l hl)).conseq (loadCost_le l) ?_
    intro c s' _ _ ⟨_, _, h3⟩
    obtain ⟨k', rfl⟩ : ∃ k', k = k' + 1 := ⟨k - 1, by omega⟩
    exact ChildD.of_depth h3

/-- the descent under a depth bound: at most one store load per level, and the child below the place where
    it stops is at most `cur` levels deep -/
theorem findNode_depth (E : Env) (m key target : Nat) (create : Bool) :
    ∀ (f a cur : Nat) (path : List (Nat × Nat)) (s : PS), CacheS s → target ≤ cur → ChildD s key a cur →
      TS AExt (cur - target) (findNode E m key target create f a cur path) s (fun fd s' =>
        target ≤ fd.cur ∧ ∃ nd, s'.heap[fd.node]? = some nd ∧ fd.idx = keyIdx nd.keys key ∧
          ∀ l, nd.links[fd.idx]? = some l → DepthLe s'.heap s'.store fd.cur l) := by
  intro f
  induction f with
  | zero => intro a cur path s _ _ _; exact TS.oof
  | succ f ih =>
    intro a cur path s hc htc ⟨nd0, hnd0, hd0⟩
    unfold findNode
    refine TS.bind (a := 0) (b := cur - target) (read_ts a s) ?_ (by omega)
    rintro nd s1 _ _ ⟨rfl, hnd⟩
    rw [hnd0] at hnd; injection hnd with hnd; subst hnd
    split
    · exact TS.panic
    · dsimp only
      split
      · exact TS.pure ⟨htc, nd0, hnd0, rfl, hd0⟩
      · next hcont =>
        have hct : cur ≠ target := fun h => hcont (Or.inr h)
        refine TS.bind (a := 1) (b := cur - 1 - target)
          (follow_depth E m key a create s hc hnd0 (by omega) hd0) ?_ (by omega)
        intro c s2 _ hext hch
        exact ih c (cur - 1) _ s2 (hext.cache hc) (by omega) hch

end Mast.Ptr
