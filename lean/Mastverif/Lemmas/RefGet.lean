import Mastverif.Lemmas.RefGood
import Mastverif.Lemmas.RefRows
/-! `get` refines `Tree.lookup`. -/
namespace Mast.Ptr
open Mast.Heap

/-- the pair (flag, row) of a child result -/
def pr (c : Bool × T × List Nat) : Bool × T := (c.1, c.2.1)

theorem nodeRep_row (flag : Bool) (own ks vs : List Nat) (cs : List (Bool × T × List Nat)) :
    (nodeRep flag own ks vs cs).2.1 = mkRow (cs.map pr) ks vs := rfl

theorem childAt_map_pr {cs : List (Bool × T × List Nat)} {i : Nat} {c : Bool × T × List Nat} (h : cs[i]? = some c) :
    childAt (cs.map pr) i = c.2.1 := by
  simp [childAt, h, pr]

/-- what a valid node's representation consists of -/
theorem repLink_ptr_inv {h : Heap} {st : List SNode} {g a : Nat} {nd : MNode} {x : Bool × T × List Nat}
    (hx : repLink h st g (.ptr a) = some x) (hnd : h[a]? = some nd) :
    ∃ g' cs, g = g' + 1 ∧ ValidN nd ∧ seqO (nd.links.map (repLink h st g')) = some cs ∧
      cs.length = nd.keys.length + 1 ∧ x = nodeRep false (ownFp nd a) nd.keys nd.vals cs := by
  obtain ⟨g', nd', cs, hg, hnd', hv, h1, h2⟩ := repLink_ptr_some.mp hx
  rw [hnd] at hnd'; injection hnd' with hnd'; subst hnd'
  exact ⟨g', cs, hg, hv, h1, by rw [seqO_map_length h1]; exact hv.1, h2⟩

/-- `follow` without `create` -/
theorem follow_spec {m : Nat} (E : Env) (a i : Nat) (s : PS) (hg : Good s) {nd : MNode} (hnd : s.heap[a]? = some nd) :
    Spec (Grow m) (follow E m a i false) s (fun c s' => ∃ l, nd.links[i]? = some l ∧
      (l = .nil → c = a ∧ s = s') ∧
      (l ≠ .nil → ∀ f x, repLink s.heap s.store f l = some x →
        repLink s'.heap s'.store f (.ptr c) = some (false, x.2.1, x.2.2))) := by
  unfold follow
  refine Spec.bind (read_spec a s) ?_
  rintro nd' s1 _ _ ⟨rfl, hnd'⟩
  rw [hnd] at hnd'; injection hnd' with hnd'; subst hnd'
  split
  · exact Spec.panic
  · next hl =>
    simp only [Bool.false_eq_true, if_false]
    exact Spec.pure ⟨.nil, hl, fun _ => ⟨rfl, rfl⟩, fun h => absurd rfl h⟩
  · next l hne hl =>
    refine (load_spec (m := m) E l s hg).conseq ?_
    intro c s' _ _ h
    exact ⟨l, hl, fun h0 => absurd h0 h.1, fun _ => h.2.2⟩

/-- the answer `get` computes from what `findNode` returned -/
def getAns (nd : MNode) (fd : Found) (target key : Nat) : Option Nat :=
  if fd.idx ≥ nd.keys.length ∨ target ≠ fd.cur then none
  else if nd.keys[fd.idx]? ≠ some key then none
  else nd.vals[fd.idx]?

theorem findNode_get {m : Nat} (E : Env) (key target : Nat) :
    ∀ (f a cur : Nat) (path : List (Nat × Nat)) (s : PS) (g : Nat) (x : Bool × T × List Nat),
    Good s → target ≤ cur → repLink s.heap s.store g (.ptr a) = some x →
    Spec (Grow m) (findNode E m key target false f a cur path) s (fun fd s' =>
      ∃ nd, s'.heap[fd.node]? = some nd ∧ getAns nd fd target key = T.get key (cur - target) x.2.1) := by
  intro f
  induction f with
  | zero => intro a cur path s g x _ _ _; exact Spec.oof
  | succ f ih =>
    intro a cur path s g x hg htc hx
    unfold findNode
    refine Spec.bind (read_spec a s) ?_
    rintro nd s1 _ _ ⟨rfl, hnd⟩
    obtain ⟨g', cs, rfl, hv, h1, hcl, rfl⟩ := repLink_ptr_inv hx hnd
    have hcl' : (cs.map pr).length = nd.keys.length + 1 := by simpa using hcl
    split
    · exact Spec.panic
    · dsimp only
      have hile := keyIdx_le nd.keys key
      split
      · next hstop =>
        refine Spec.pure ⟨nd, hnd, ?_⟩
        rw [nodeRep_row]
        by_cases hct : cur = target
        · subst hct
          rw [Nat.sub_self, get_mkRow_zero nd.keys _ nd.vals key hcl' hv.2]
          unfold getAns
          dsimp only
          by_cases hk : nd.keys[keyIdx nd.keys key]? = some key
          · have hlt : keyIdx nd.keys key < nd.keys.length := (List.getElem?_eq_some_iff.mp hk).1
            simp [hk, Nat.not_le.mpr hlt]
          · simp only [hk, if_false]
            split
            · rfl
            · simp
        · have hgt : cur - target = (cur - target - 1) + 1 := by omega
          have hk : nd.keys[keyIdx nd.keys key]? = some key := by
            rcases hstop with h | h
            · exact h
            · exact absurd h hct
          rw [hgt, get_mkRow_succ nd.keys _ nd.vals key _ hcl' hv.2, if_pos hk]
          unfold getAns
          dsimp only
          rw [if_pos (Or.inr (Ne.symm hct))]
      · next hcont =>
        have hk : nd.keys[keyIdx nd.keys key]? ≠ some key := fun h => hcont (Or.inl h)
        have hct : cur ≠ target := fun h => hcont (Or.inr h)
        have hgt : cur - target = (cur - 1 - target) + 1 := by omega
        refine Spec.bind (follow_spec (m := m) E a _ s hg hnd) ?_
        rintro c s1 _ hgr ⟨l, hl, hnil, hnn⟩
        obtain ⟨cl, hcl1, hcl2⟩ := seqO_map_getElem? h1 hl
        by_cases hl0 : l = .nil
        · obtain ⟨rfl, rfl⟩ := hnil hl0
          subst hl0
          refine (ih c (cur - 1) _ s (g' + 1) _ hg (by omega) hx).conseq ?_
          rintro fd s' _ _ ⟨nd', hnd', hans⟩
          refine ⟨nd', hnd', ?_⟩
          rw [hans, nodeRep_row]
          have hcn : childAt (cs.map pr) (keyIdx nd.keys key) = T.nil := by
            rw [childAt_map_pr hcl2]
            simp at hcl1; rw [← hcl1]
          rw [get_mkRow_absent nd.keys _ nd.vals key _ hcl' hv.2 hk hcn,
            get_mkRow_absent nd.keys _ nd.vals key _ hcl' hv.2 hk hcn]
        · have hc := hnn hl0 g' cl hcl1
          refine (ih c (cur - 1) _ s1 g' _ (hgr.good hg) (by omega) hc).conseq ?_
          rintro fd s' _ _ ⟨nd', hnd', hans⟩
          refine ⟨nd', hnd', ?_⟩
          rw [hans, nodeRep_row, hgt, get_mkRow_succ nd.keys _ nd.vals key _ hcl' hv.2, if_neg hk,
            childAt_map_pr hcl2]

theorem unmk_of_ne_nil {r : T} (h : r ≠ T.nil) : T.unmk r = r := by
  cases r <;> simp_all [T.unmk]

theorem repLink_row_ne_nil {h : Heap} {st : List SNode} {g : Nat} {l : HLink} {x : Bool × T × List Nat}
    (hx : repLink h st g l = some x) (hl : l ≠ .nil) : x.2.1 ≠ T.nil := by
  cases l with
  | nil => exact absurd rfl hl
  | ptr a =>
    obtain ⟨g', nd, cs, _, _, hv, h1, rfl⟩ := repLink_ptr_some.mp hx
    rw [nodeRep_row]
    apply mkRow_ne_nil
    intro h0
    have := seqO_map_length h1
    have h2 : (cs.map pr).length = 0 := by rw [h0]; rfl
    rw [List.length_map, this, hv.1] at h2; omega
  | ref n =>
    obtain ⟨g', sn, cs, _, _, hv, h1, rfl⟩ := repLink_ref_some.mp hx
    rw [nodeRep_row]
    apply mkRow_ne_nil
    intro h0
    have := seqO_map_length h1
    have h2 : (cs.map pr).length = 0 := by rw [h0]; rfl
    rw [List.length_map, this, hv.1] at h2; omega

/-- allocation-only steps preserve what a tree denotes -/
theorem Grow.repTree {m : Nat} {s s' : PS} (gr : Grow m s s') {g : Nat} {t : PTree} {A : Tree}
    (h : repTree s g t = some A) : repTree s' g t = some A := by
  unfold Ptr.repTree at h ⊢
  cases hx : repLink s.heap s.store g t.root with
  | none => rw [hx] at h; cases h
  | some x =>
    obtain ⟨p, r, fp⟩ := x
    rw [hx] at h
    rw [gr.rep hx]
    simp only at h ⊢
    split at h
    · next hnd =>
      rw [if_pos hnd]
      injection h with h
      rw [← h]
      have hd : rootDirty s'.heap t.root = rootDirty s.heap t.root := by
        cases hr : t.root with
        | nil => rfl
        | ref n => rfl
        | ptr a =>
          rw [hr] at hx
          obtain ⟨_, nd, _, _, hnd, _⟩ := repLink_ptr_some.mp hx
          simp only [rootDirty, hnd, gr.alloc a nd hnd]
      rw [hd]
    · cases h

theorem get_refines (E : Env) (t : PTree) (fuel key g : Nat) (s : PS) (A : Tree)
    (hg : Good s) (hA : repTree s g t = some A) :
    match get E t fuel key s with
    | .ok r s' => r = Tree.lookup E.layer A key ∧ repTree s' g t = some A ∧ Good s'
    | .err s' => repTree s' g t = some A ∧ Good s'
    | _ => True := by
  have key_spec : Spec (Grow t.id) (get E t fuel key) s (fun r _ => r = Tree.lookup E.layer A key) := by
    unfold get
    split
    · next hr =>
      refine Spec.pure ?_
      unfold repTree at hA
      rw [hr] at hA
      simp at hA
      rw [← hA]
      simp only [Tree.lookup, T.unmk]
      cases (Tree.levels E.layer _ key) <;> simp [T.get]
    · next hr =>
      -- the row of the root
      unfold repTree at hA
      cases hx : repLink s.heap s.store g t.root with
      | none => rw [hx] at hA; cases hA
      | some x =>
        rw [hx] at hA
        obtain ⟨p, r, fp⟩ := x
        simp only at hA
        split at hA
        · injection hA with hA
          have hrn : T.unmk r = r := unmk_of_ne_nil (repLink_row_ne_nil hx hr)
          refine Spec.bind (load_spec (m := t.id) E t.root s hg) ?_
          rintro a s1 _ hgr1 ⟨_, _, hld⟩
          have hxa := hld g _ hx
          refine Spec.bind (layerM_spec (m := t.id) E key s1) ?_
          rintro lay s2 _ hgr2 rfl
          have hxa2 := hgr2.rep hxa
          have hg2 := hgr2.good (hgr1.good hg)
          refine Spec.bind (findNode_get (m := t.id) E key (min (E.layer key) t.height) fuel a t.height []
            s2 g _ hg2 (Nat.min_le_right _ _) hxa2) ?_
          rintro fd s3 _ hgr3 ⟨nd, hnd, hans⟩
          refine Spec.bind (read_spec fd.node s3) ?_
          rintro nd' s4 _ _ ⟨rfl, hnd'⟩
          rw [hnd] at hnd'; injection hnd' with hnd'; subst hnd'
          have hlook : Tree.lookup E.layer A key = T.get key (t.height - min (E.layer key) t.height) r := by
            rw [← hA]; simp [Tree.lookup, Tree.levels, hrn]
          rw [hlook, ← hans]
          unfold getAns
          split
          · exact Spec.pure rfl
          · split
            · exact Spec.pure rfl
            · exact Spec.pure rfl
        · cases hA
  unfold Spec at key_spec
  cases hr : get E t fuel key s with
  | ok r s' => rw [hr] at key_spec; exact ⟨key_spec.2, key_spec.1.repTree hA, key_spec.1.good hg⟩
  | err s' => rw [hr] at key_spec; exact ⟨key_spec.repTree hA, key_spec.good hg⟩
  | stuck => trivial
  | panic => trivial
  | oof => trivial

end Mast.Ptr
