import Mastverif.Lemmas.RefHistOps
/-!
# The history-level refinement theorem

`RSys` is preserved by every call of `Sys.apply` that ends in `.ok` or `.err`, and the functional contents of the
trees evolve by the functional operations (`FStep`): `Sys.apply_refines`; along a whole history: `Sys.run_refines`.
Every property of the functional model (`Tree.insert`, `Tree.lookup`, …) thereby holds of the object-level
transcription of the code.
-/
namespace Mast.Ptr
open Mast.Heap

theorem den_none {σ : Sys} {As : List Tree} {i : Nat} (hD : Den σ As) (hi : σ.trees[i]? = none) : As[i]? = none := by
  rw [List.getElem?_eq_none_iff] at hi ⊢
  rw [hD.1]; exact hi

theorem den_some {σ : Sys} {As : List Tree} {i : Nat} {t : PTree} (hR : RSys σ) (hD : Den σ As)
    (hi : σ.trees[i]? = some t) :
    ∃ g A, As[i]? = some A ∧ repTree σ.ps g t = some A ∧ FpOwned σ.ps.heap t.id (footprint σ.ps g t) ∧ Thresh t ∧
      t.id < σ.nextId := by
  obtain ⟨⟨⟨g, A, hA, hown⟩, hh⟩, hlt⟩ := hR.trees t (List.mem_of_getElem? hi)
  obtain ⟨A1, hAs, hden⟩ := hD.2 i t hi
  have : A1 = A := hden.unique ⟨g, hA⟩
  subst this
  exact ⟨g, A1, hAs, hA, hown, hh, hlt⟩

/-- what a run of an allocation-only program through `runM` gives -/
theorem runM_grow {α : Type} {m : Nat} {x : M α} {s : PS} {Q : α → PS → Prop} (hx : Spec (Grow m) x s Q)
    (ho : (runM x s).2.2 = .ok ∨ (runM x s).2.2 = .err) :
    Grow m s (runM x s).2.1 ∧ ∀ a, (runM x s).1 = some a → Q a (runM x s).2.1 ∧ x s = .ok a (runM x s).2.1 := by
  unfold runM at ho ⊢
  unfold Spec at hx
  cases hxs : x s with
  | ok a s' =>
    rw [hxs] at hx
    exact ⟨hx.1, fun b hb => by simp at hb; subst hb; exact ⟨hx.2, rfl⟩⟩
  | err s' => rw [hxs] at hx; exact ⟨hx, fun b hb => by simp at hb⟩
  | panic => rw [hxs] at ho; simp at ho
  | stuck => rw [hxs] at ho; simp at ho
  | oof => rw [hxs] at ho; simp at ho

theorem runM_src {α : Type} {x : M α} (hx : SrcP x) {s : PS} (hs : SourceOK s) : SourceOK (runM x s).2.1 := by
  unfold runM
  cases hxs : x s with
  | ok a s' => exact hx.ok hxs hs
  | err s' => exact hx.err hxs hs
  | panic => exact hs
  | stuck => exact hs
  | oof => exact hs

/-- the conclusion of the one-call theorem -/
def ApplyOK (E : Env) (σ : Sys) (As : List Tree) (op : Op) (r : Sys × Outcome) : Prop :=
  RSys r.1 ∧ (∃ ext, r.1.ps.store = σ.ps.store ++ ext) ∧
    ∃ As', Den r.1 As' ∧ FStep E.layer σ.ps.store r.1.ps.store As op r.2 As'

theorem apply_none {E : Env} {σ : Sys} {As : List Tree} {op : Op} (hR : RSys σ) (hD : Den σ As)
    (hf : FStep E.layer σ.ps.store σ.ps.store As op .ok As) : ApplyOK E σ As op (σ, .ok) :=
  ⟨hR, ⟨[], by simp⟩, As, hD, hf⟩

/-- a call that is an allocation-only step for an existing tree id and changes no tree record -/
theorem apply_grow {E : Env} {σ : Sys} {As : List Tree} {op : Op} {o : Outcome} {m : Nat} {s' : PS}
    (hR : RSys σ) (hD : Den σ As) (hgr : Grow m σ.ps s') (hsrc : SourceOK s') (hm : m < σ.nextId)
    (hf : FStep E.layer σ.ps.store s'.store As op o As) : ApplyOK E σ As op ({ σ with ps := s' }, o) := by
  obtain ⟨h1, h2⟩ := rsys_grow hR hD hgr hsrc hm (Nat.le_refl _) none (fun _ _ h => by cases h)
  exact ⟨h1, ⟨[], by simp [hgr.store]⟩, As, h2, hf⟩

theorem apply_ins (E : Env) (fuel : Nat) (σ : Sys) (i k v : Nat) (As : List Tree) (hR : RSys σ) (hD : Den σ As)
    (ho : (σ.apply E fuel (.ins i k v)).2 = .ok ∨ (σ.apply E fuel (.ins i k v)).2 = .err) :
    ApplyOK E σ As (.ins i k v) (σ.apply E fuel (.ins i k v)) := by
  simp only [Sys.apply] at ho ⊢
  cases hi : σ.trees[i]? with
  | none => exact apply_none hR hD (by simp [FStep, den_none hD hi])
  | some t =>
    rw [hi] at ho
    obtain ⟨g, A, hAs, hA, hown, hh, hlt⟩ := den_some hR hD hi
    dsimp only at ho ⊢
    generalize hr : insert E fuel σ.ps t k v = r at ho ⊢
    obtain ⟨s', t', o⟩ := r
    simp only at ho ⊢
    have hsrc' := insert_src E fuel σ.ps s' t t' k v o hR.src hr
    rcases ho with rfl | rfl
    · obtain ⟨g', A', hA', hins, hg', hown', _, hid, hst⟩ :=
        insert_refines E fuel g σ.ps s' t t' k v A hR.good hown hh.healthy hA hr
      have hh' := insert_thresh E fuel g σ.ps s' t t' k v A hR.good hown hh hA hr
      have hsd' : StoreDen s'.store := by rw [hst.store]; exact hR.sden
      obtain ⟨h1, h2⟩ := rsys_update hR hD hi hst.toW hg' hsrc' hsd' ⟨⟨g', A', hA', hown'⟩, hh'⟩ hid ⟨g', hA'⟩
      refine ⟨h1, ⟨[], by simp [hst.store]⟩, As.set i A', h2, ?_⟩
      simp only [FStep, hAs]
      exact ⟨A', hins, rfl⟩
    · obtain ⟨hg', hst, hid, hcase⟩ := insert_err_refines E fuel g σ.ps s' t t' k v A hR.good hown hA hr
      have hsd' : StoreDen s'.store := by rw [hst.store]; exact hR.sden
      rcases hcase with ⟨rfl, hA', hown'⟩ | ⟨g', r, hlk, hins, hA', hown'⟩
      · obtain ⟨h1, h2⟩ := rsys_update hR hD hi hst.toW hg' hsrc' hsd' ⟨⟨g, A, hA', hown'⟩, hh⟩ rfl ⟨g, hA'⟩
        rw [set_self_of_getElem? hAs] at h2
        refine ⟨h1, ⟨[], by simp [hst.store]⟩, As, h2, ?_⟩
        simp only [FStep, hAs]
        exact Or.inl trivial
      · have hf := repTree_fields hA'
        have hf0 := repTree_fields hA
        have hh' : Thresh t' := thresh_of_fields hh (by rw [← hf.1, ← hf0.1]) (by rw [← hf.2.1, ← hf0.2.1])
          (by rw [← hf.2.2, ← hf0.2.2])
        obtain ⟨h1, h2⟩ := rsys_update hR hD hi hst.toW hg' hsrc' hsd' ⟨⟨g', _, hA', hown'⟩, hh'⟩ hid ⟨g', hA'⟩
        refine ⟨h1, ⟨[], by simp [hst.store]⟩, _, h2, ?_⟩
        simp only [FStep, hAs]
        exact Or.inr ⟨r, hlk, hins, rfl⟩

theorem apply_del (E : Env) (fuel : Nat) (σ : Sys) (i k v : Nat) (As : List Tree) (hR : RSys σ) (hD : Den σ As)
    (ho : (σ.apply E fuel (.del i k v)).2 = .ok ∨ (σ.apply E fuel (.del i k v)).2 = .err) :
    ApplyOK E σ As (.del i k v) (σ.apply E fuel (.del i k v)) := by
  simp only [Sys.apply] at ho ⊢
  cases hi : σ.trees[i]? with
  | none => exact apply_none hR hD (by simp [FStep, den_none hD hi])
  | some t =>
    rw [hi] at ho
    obtain ⟨g, A, hAs, hA, hown, hh, hlt⟩ := den_some hR hD hi
    dsimp only at ho ⊢
    generalize hr : delete E fuel σ.ps t k v = r at ho ⊢
    obtain ⟨s', t', o⟩ := r
    simp only at ho ⊢
    have hsrc' := delete_src E fuel σ.ps s' t t' k v o hR.src hr
    rcases ho with rfl | rfl
    · have hh' := delete_thresh E fuel g σ.ps s' t t' k v A hR.good hown hh hA hr
      by_cases hroot : t'.root = .nil
      · obtain ⟨g', A', hA', hr0, hd0, _, _, hdl, _, hg', hown', hid, _, hst⟩ :=
          delete_refines_emptied E fuel g σ.ps s' t t' k v A hR.good hown hA hr hroot
        have hsd' : StoreDen s'.store := by rw [hst.store]; exact hR.sden
        obtain ⟨h1, h2⟩ := rsys_update hR hD hi hst.toW hg' hsrc' hsd' ⟨⟨g', A', hA', hown'⟩, hh'⟩ hid ⟨g', hA'⟩
        refine ⟨h1, ⟨[], by simp [hst.store]⟩, As.set i A', h2, ?_⟩
        simp only [FStep, hAs]
        exact ⟨A', rfl, Or.inr ⟨hr0, hd0, hdl⟩⟩
      · obtain ⟨g', A', hA', hdl, hg', hown', hid, _, hst⟩ :=
          delete_refines E fuel g σ.ps s' t t' k v A hR.good hown hA hr hroot
        have hsd' : StoreDen s'.store := by rw [hst.store]; exact hR.sden
        obtain ⟨h1, h2⟩ := rsys_update hR hD hi hst.toW hg' hsrc' hsd' ⟨⟨g', A', hA', hown'⟩, hh'⟩ hid ⟨g', hA'⟩
        refine ⟨h1, ⟨[], by simp [hst.store]⟩, As.set i A', h2, ?_⟩
        simp only [FStep, hAs]
        exact ⟨A', rfl, Or.inl hdl⟩
    · obtain ⟨hg', hst, hid, hcase⟩ := delete_err_refines E fuel g σ.ps s' t t' k v A hR.good hown hA hr
      have hsd' : StoreDen s'.store := by rw [hst.store]; exact hR.sden
      rcases hcase with ⟨rfl, hA', hown'⟩ | ⟨g', r, hlk, hdl, hA', hown'⟩
      · obtain ⟨h1, h2⟩ := rsys_update hR hD hi hst.toW hg' hsrc' hsd' ⟨⟨g, A, hA', hown'⟩, hh⟩ rfl ⟨g, hA'⟩
        rw [set_self_of_getElem? hAs] at h2
        refine ⟨h1, ⟨[], by simp [hst.store]⟩, As, h2, ?_⟩
        simp only [FStep, hAs]
        exact Or.inl trivial
      · have hf := repTree_fields hA'
        have hf0 := repTree_fields hA
        have hh' : Thresh t' := thresh_of_fields hh (by rw [← hf.1]; exact hf0.1) (by rw [← hf.2.1]; exact hf0.2.1)
          (by rw [← hf.2.2]; exact hf0.2.2)
        obtain ⟨h1, h2⟩ := rsys_update hR hD hi hst.toW hg' hsrc' hsd' ⟨⟨g', _, hA', hown'⟩, hh'⟩ hid ⟨g', hA'⟩
        refine ⟨h1, ⟨[], by simp [hst.store]⟩, _, h2, ?_⟩
        simp only [FStep, hAs]
        exact Or.inr ⟨r, hlk, hdl, rfl⟩

theorem apply_get (E : Env) (fuel : Nat) (σ : Sys) (i k : Nat) (As : List Tree) (hR : RSys σ) (hD : Den σ As)
    (ho : (σ.apply E fuel (.get i k)).2 = .ok ∨ (σ.apply E fuel (.get i k)).2 = .err) :
    ApplyOK E σ As (.get i k) (σ.apply E fuel (.get i k)) := by
  simp only [Sys.apply] at ho ⊢
  cases hi : σ.trees[i]? with
  | none => exact apply_none hR hD (by simp [FStep])
  | some t =>
    rw [hi] at ho
    obtain ⟨g, A, hAs, hA, hown, hh, hlt⟩ := den_some hR hD hi
    simp only at ho ⊢
    obtain ⟨hgr, _⟩ := runM_grow (get_spec E t fuel k g σ.ps A hR.good hA) ho
    exact apply_grow hR hD hgr (runM_src (get_src E t fuel k) hR.src) hlt (by simp [FStep])

theorem apply_iter (E : Env) (fuel : Nat) (σ : Sys) (i : Nat) (As : List Tree) (hR : RSys σ) (hD : Den σ As)
    (ho : (σ.apply E fuel (.iter i)).2 = .ok ∨ (σ.apply E fuel (.iter i)).2 = .err) :
    ApplyOK E σ As (.iter i) (σ.apply E fuel (.iter i)) := by
  simp only [Sys.apply] at ho ⊢
  cases hi : σ.trees[i]? with
  | none => exact apply_none hR hD (by simp [FStep])
  | some t =>
    rw [hi] at ho
    obtain ⟨g, A, hAs, hA, hown, hh, hlt⟩ := den_some hR hD hi
    simp only at ho ⊢
    obtain ⟨hgr, _⟩ := runM_grow (iterAll_spec (m := t.id) E fuel t.root σ.ps hR.good) ho
    exact apply_grow hR hD hgr (runM_src (iterAll_src E fuel t.root) hR.src) hlt (by simp [FStep])

theorem apply_flush (E : Env) (fuel : Nat) (σ : Sys) (i : Nat) (As : List Tree) (hR : RSys σ) (hD : Den σ As)
    (ho : (σ.apply E fuel (.flush i)).2 = .ok ∨ (σ.apply E fuel (.flush i)).2 = .err) :
    ApplyOK E σ As (.flush i) (σ.apply E fuel (.flush i)) := by
  simp only [Sys.apply] at ho ⊢
  cases hi : σ.trees[i]? with
  | none => exact apply_none hR hD (by simp [FStep, den_none hD hi])
  | some t =>
    rw [hi] at ho
    obtain ⟨g, A, hAs, hA, hown, hh, hlt⟩ := den_some hR hD hi
    simp only at ho ⊢
    unfold runM at ho ⊢
    cases hfl : flush E t fuel σ.ps with
    | panic => rw [hfl] at ho; simp at ho
    | stuck => rw [hfl] at ho; simp at ho
    | oof => rw [hfl] at ho; simp at ho
    | err s' =>
      simp only []
      obtain ⟨hgr, hsrc'⟩ := flush_err E t fuel σ.ps s' hR.good hR.src hfl
      exact apply_grow hR hD hgr hsrc' hlt (by simp [FStep, hAs])
    | ok r s' =>
      obtain ⟨t', n⟩ := r
      simp only []
      obtain ⟨hg', hsrc', hsd', hw, hcase⟩ := flush_refines E t t' fuel g n σ.ps s' A hR.good hR.src hR.sden hown hA hfl
      rcases hcase with ⟨_, hemp, rfl, hA', hown'⟩ | ⟨_, hemp, rfl, hA', hfp', hn⟩
      · obtain ⟨h1, h2⟩ := rsys_update hR hD hi hw hg' hsrc' hsd' ⟨⟨g, _, hA', hown'⟩, hh⟩ rfl ⟨g, hA'⟩
        refine ⟨h1, hw.store, _, h2, ?_⟩
        simp only [FStep, hAs]
        exact ⟨by simp only [flushTree, hemp, if_true], fun h => by rw [hemp] at h; cases h⟩
      · obtain ⟨h1, h2⟩ := rsys_update (t' := { t with root := .ref n }) hR hD hi hw hg' hsrc' hsd'
          ⟨⟨g, _, hA', by rw [hfp']; exact fpOwned_nil _ _⟩, hh⟩ rfl ⟨g, hA'⟩
        refine ⟨h1, hw.store, _, h2, ?_⟩
        simp only [FStep, hAs]
        refine ⟨by simp only [flushTree, hemp, Bool.false_eq_true, if_false],
          fun _ => ⟨n, g, _, repLink_flat_heap (h' := []) hg'.flat _ _ _ rfl hn, rfl⟩⟩

theorem apply_clone (E : Env) (fuel : Nat) (σ : Sys) (i : Nat) (As : List Tree) (hR : RSys σ) (hD : Den σ As)
    (ho : (σ.apply E fuel (.clone i)).2 = .ok ∨ (σ.apply E fuel (.clone i)).2 = .err) :
    ApplyOK E σ As (.clone i) (σ.apply E fuel (.clone i)) := by
  simp only [Sys.apply] at ho ⊢
  cases hi : σ.trees[i]? with
  | none => exact apply_none hR hD (by simp [FStep, den_none hD hi])
  | some t =>
    rw [hi] at ho
    obtain ⟨g, A, hAs, hA, hown, hh, hlt⟩ := den_some hR hD hi
    simp only at ho ⊢
    unfold runM at ho ⊢
    cases hcl : clone E t σ.nextId fuel σ.ps with
    | panic => rw [hcl] at ho; simp at ho
    | stuck => rw [hcl] at ho; simp at ho
    | oof => rw [hcl] at ho; simp at ho
    | err s' =>
      simp only []
      have hgr := clone_err E t σ.nextId fuel g σ.ps s' A hR.good hA hcl
      obtain ⟨h1, h2⟩ := rsys_grow hR hD hgr ((clone_src E t σ.nextId fuel).err hcl hR.src) (Nat.lt_succ_self _)
        (Nat.le_succ _) none (fun _ _ h => by cases h)
      exact ⟨h1, ⟨[], by simp [hgr.store]⟩, As, h2, by simp [FStep, hAs]⟩
    | ok t' s' =>
      simp only []
      obtain ⟨hgr, hg', hrec, hA', _, hown', _⟩ := clone_refines E t t' σ.nextId fuel g σ.ps s' A hR.good hA hcl
      have hid : t'.id = σ.nextId := by rw [hrec]
      obtain ⟨h1, h2⟩ := rsys_grow hR hD hgr ((clone_src E t σ.nextId fuel).ok hcl hR.src) (Nat.lt_succ_self _)
        (Nat.le_succ _) (some (t', { A with rootP := false }))
        (fun t1 A1 h => by
          simp only [Option.some.injEq, Prod.mk.injEq] at h
          obtain ⟨rfl, rfl⟩ := h
          exact ⟨⟨⟨g, _, hA', by rw [hid]; exact hown'⟩, thresh_of_fields hh (by rw [hrec]) (by rw [hrec]) (by rw [hrec])⟩,
            hid, Nat.lt_succ_self _, g, hA'⟩)
      exact ⟨h1, ⟨[], by simp [hgr.store]⟩, _, h2, by simp [FStep, hAs]⟩

theorem apply_load (E : Env) (fuel : Nat) (σ : Sys) (link size height bf : Nat) (As : List Tree) (hR : RSys σ)
    (hD : Den σ As) (hbf : 2 ≤ bf)
    (ho : (σ.apply E fuel (.load link size height bf)).2 = .ok ∨ (σ.apply E fuel (.load link size height bf)).2 = .err) :
    ApplyOK E σ As (.load link size height bf) (σ.apply E fuel (.load link size height bf)) := by
  simp only [Sys.apply] at ho ⊢
  unfold runM at ho ⊢
  cases hld : loadMast E σ.nextId link size height bf σ.ps with
  | panic => rw [hld] at ho; simp at ho
  | stuck => rw [hld] at ho; simp at ho
  | oof => rw [hld] at ho; simp at ho
  | err s' =>
    simp only []
    have hgr := loadMast_err E σ.nextId link size height bf σ.ps s' hR.good hld
    obtain ⟨h1, h2⟩ := rsys_grow hR hD hgr ((loadMast_src E σ.nextId link size height bf).err hld hR.src)
      (Nat.lt_succ_self _) (Nat.le_succ _) none (fun _ _ h => by cases h)
    exact ⟨h1, ⟨[], by simp [hgr.store]⟩, As, h2, by simp [FStep]⟩
  | ok t s' =>
    simp only []
    obtain ⟨hgr, hg', hid, _, ⟨hf1, hf2, hf3⟩, h0, h1⟩ := loadMast_refines E σ.nextId link size height bf σ.ps s' t hR.good hld
    have hsrc' := (loadMast_src E σ.nextId link size height bf).ok hld hR.src
    by_cases hl : link = 0
    · obtain ⟨hA', _, hown'⟩ := h0 hl
      obtain ⟨r1, r2⟩ := rsys_grow hR hD hgr hsrc' (Nat.lt_succ_self _) (Nat.le_succ _)
        (some (t, loadedTree false (T.last false T.nil) size height bf))
        (fun t1 A1 h => by
          simp only [Option.some.injEq, Prod.mk.injEq] at h
          obtain ⟨rfl, rfl⟩ := h
          exact ⟨⟨⟨1, _, hA', by rw [hid]; exact hown'⟩, thresh_loaded hf1 hf2 hf3 hbf⟩, hid, Nat.lt_succ_self _, 1, hA'⟩)
      exact ⟨r1, ⟨[], by simp [hgr.store]⟩, _, r2, by simp [FStep, hl]⟩
    · obtain ⟨⟨sn, hsn⟩, hden⟩ := h1 hl
      obtain ⟨g, x, hx⟩ := hR.sden link sn hsn
      obtain ⟨hA', hfp'⟩ := hden g x (nameRow_rep hR.good hx)
      obtain ⟨r1, r2⟩ := rsys_grow hR hD hgr hsrc' (Nat.lt_succ_self _) (Nat.le_succ _)
        (some (t, loadedTree true x.2.1 size height bf))
        (fun t1 A1 h => by
          simp only [Option.some.injEq, Prod.mk.injEq] at h
          obtain ⟨rfl, rfl⟩ := h
          exact ⟨⟨⟨g, _, hA', by rw [hfp']; exact fpOwned_nil _ _⟩, thresh_loaded hf1 hf2 hf3 hbf⟩, hid, Nat.lt_succ_self _, g, hA'⟩)
      refine ⟨r1, ⟨[], by simp [hgr.store]⟩, _, r2, ?_⟩
      simp only [FStep, hl, if_false]
      exact ⟨x.2.1, ⟨g, x, hx, rfl⟩, rfl⟩

/-- **one call**: the invariant is kept, the store only grows, and the functional contents of the trees change as the
    functional model says (`FStep`) -/
theorem Sys.apply_refines (E : Env) (fuel : Nat) (σ : Sys) (op : Op) (As : List Tree) (hR : RSys σ) (hD : Den σ As)
    (hop : OpCovered op) (ho : (σ.apply E fuel op).2 = .ok ∨ (σ.apply E fuel op).2 = .err) :
    ApplyOK E σ As op (σ.apply E fuel op) := by
  cases op with
  | ins i k v => exact apply_ins E fuel σ i k v As hR hD ho
  | del i k v => exact apply_del E fuel σ i k v As hR hD ho
  | get i k => exact apply_get E fuel σ i k As hR hD ho
  | iter i => exact apply_iter E fuel σ i As hR hD ho
  | flush i => exact apply_flush E fuel σ i As hR hD ho
  | clone i => exact apply_clone E fuel σ i As hR hD ho
  | load link size height bf => exact apply_load E fuel σ link size height bf As hR hD hop ho

/-- **every history** that runs to its end: the invariant holds at the end, and the functional contents of the trees
    are those of the functional run `FRun` -/
theorem Sys.run_refines (E : Env) (fuel : Nat) : ∀ (ops : List Op) (σ : Sys) (As : List Tree), RSys σ → Den σ As →
    (∀ op ∈ ops, OpCovered op) → (Sys.run E fuel σ ops).2 = .ok →
    RSys (Sys.run E fuel σ ops).1 ∧ ∃ As', Den (Sys.run E fuel σ ops).1 As' ∧
      FRun E.layer σ.ps.store As ops (Sys.run E fuel σ ops).1.ps.store As' := by
  intro ops
  induction ops with
  | nil => intro σ As hR hD _ _; exact ⟨hR, As, hD, FRun.nil _ _⟩
  | cons op ops ih =>
    intro σ As hR hD hops hrun
    simp only [Sys.run] at hrun ⊢
    have hstep := Sys.apply_refines E fuel σ op As hR hD (hops op (by simp))
    generalize hr : σ.apply E fuel op = r at hrun hstep ⊢
    obtain ⟨σ1, o⟩ := r
    · cases o with
      | ok =>
        obtain ⟨hR1, hst, As1, hD1, hf⟩ := hstep (Or.inl rfl)
        simp only at hrun ⊢
        obtain ⟨hR2, As2, hD2, hf2⟩ := ih σ1 As1 hR1 hD1 (fun o ho => hops o (by simp [ho])) hrun
        exact ⟨hR2, As2, hD2, FRun.cons .ok (Or.inl rfl) hst hf hf2⟩
      | err =>
        obtain ⟨hR1, hst, As1, hD1, hf⟩ := hstep (Or.inr rfl)
        simp only at hrun ⊢
        obtain ⟨hR2, As2, hD2, hf2⟩ := ih σ1 As1 hR1 hD1 (fun o ho => hops o (by simp [ho])) hrun
        exact ⟨hR2, As2, hD2, FRun.cons .err (Or.inr rfl) hst hf hf2⟩
      | panic => simp at hrun
      | stuck => simp at hrun
      | oof => simp at hrun

end Mast.Ptr
