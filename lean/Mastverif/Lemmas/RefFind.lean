import Mastverif.Lemmas.RefCtx
/-! `findNode` with `create`: the path, its context, and what `T.get` / `T.ins` do along it. -/
namespace Mast.Ptr
open Mast.Heap

theorem map_pr_mid (L R : List (Bool × T × List Nat)) (old : Bool × T × List Nat) :
    (L ++ old :: R).map pr = L.map pr ++ (old.1, old.2.1) :: R.map pr := by simp [pr]

theorem take_mid {α : Type} (A B : List α) (x : α) : (A ++ x :: B).take A.length = A := by simp
theorem drop_mid {α : Type} (A B : List α) (x : α) : (A ++ x :: B).drop (A.length + 1) = B := by simp
theorem childAt_mid (A B : List (Bool × T)) (x : Bool × T) : childAt (A ++ x :: B) A.length = x.2 := by
  simp [childAt]

theorem Fr.get_plug {fr : Fr} {key : Nat} (hok : fr.OK key) (old : Bool × T × List Nat) (sl : Nat) :
    T.get key (sl + 1) (nodeRep false fr.own fr.ks fr.vs (fr.L ++ old :: fr.R)).2.1 = T.get key sl old.2.1 := by
  obtain ⟨h1, h2, h3, h4⟩ := hok
  rw [nodeRep_row, map_pr_mid, get_mkRow_succ _ _ _ _ _ (by simp; omega) h2, h3]
  have hl : (fr.L.map pr).length = fr.L.length := by simp
  rw [if_neg h4, ← hl, childAt_mid]

theorem Fr.ins_plug {fr : Fr} {key : Nat} (hok : fr.OK key) (old : Bool × T × List Nat) (v sl : Nat) :
    T.ins key v (sl + 1) (nodeRep false fr.own fr.ks fr.vs (fr.L ++ old :: fr.R)).2.1 =
      (T.ins key v sl old.2.1).map fr.plugRow := by
  obtain ⟨h1, h2, h3, h4⟩ := hok
  rw [nodeRep_row, map_pr_mid, ins_mkRow_succ _ _ _ _ _ _ (by simp; omega) h2, h3]
  have hl : (fr.L.map pr).length = fr.L.length := by simp
  rw [if_neg h4, ← hl, childAt_mid, take_mid, drop_mid]
  rfl

theorem repLink_emptyNode {h : Heap} {st : List SNode} {b m : Nat} (hb : h[b]? = some (emptyNode m)) :
    repLink h st 1 (.ptr b) = some (false, T.last false T.nil, [b]) := by
  refine repLink_ptr_some.mpr ⟨0, emptyNode m, [(false, T.nil, [])], rfl, hb, ⟨rfl, rfl⟩, ?_, ?_⟩
  · simp [emptyNode, seqO]
  · simp [nodeRep, emptyNode, ownFp, mkRow_single]

/-- `follow` with `create` -/
theorem follow_create_spec {m : Nat} (E : Env) (a i : Nat) (s : PS) (hg : Good s) {nd : MNode}
    (hnd : s.heap[a]? = some nd) :
    Spec (Grow m) (follow E m a i true) s (fun c s' => ∃ l, nd.links[i]? = some l ∧
      (l = .nil → c = s.heap.length ∧ s'.heap = s.heap ++ [emptyNode m]) ∧
      (l ≠ .nil → ∀ f x, repLink s.heap s.store f l = some x →
        repLink s'.heap s'.store f (.ptr c) = some (false, x.2.1, x.2.2))) := by
  unfold follow
  refine Spec.bind (read_spec a s) ?_
  rintro nd' s1 _ _ ⟨rfl, hnd'⟩
  rw [hnd] at hnd'; injection hnd' with hnd'; subst hnd'
  split
  · exact Spec.panic
  · next hl =>
    simp only [if_true]
    refine (alloc_spec (m := m) (emptyNode m) s (Or.inr rfl) (fun _ => rfl)).conseq ?_
    rintro c s' _ _ ⟨rfl, rfl⟩
    exact ⟨.nil, hl, fun _ => ⟨rfl, rfl⟩, fun h => absurd rfl h⟩
  · next l hne hl =>
    refine (load_spec (m := m) E l s hg).conseq ?_
    intro c s' _ _ h
    exact ⟨l, hl, fun h0 => absurd h0 h.1, fun _ => h.2.2⟩

/-- what `findNode` (with `create`) establishes -/
def FindOK (key target cur : Nat) (path : List (Nat × Nat)) (n : Nat) (x : Bool × T × List Nat) (fd : Found)
    (h : Heap) (st : List SNode) : Prop :=
  ∃ p frs g' bx nd, fd.path = path ++ p ∧ p.getLast? = some (fd.node, fd.idx) ∧ fd.cur ≤ cur ∧ target ≤ fd.cur ∧
    Ctx h st p frs ∧ (∀ fr ∈ frs, fr.OK key) ∧ repLink h st g' (.ptr fd.node) = some bx ∧ h[fd.node]? = some nd ∧
    fd.idx = keyIdx nd.keys key ∧ (nd.keys[fd.idx]? = some key ∨ fd.cur = target) ∧
    FpExt n x.2.2 (plug frs bx).2.2 ∧
    (∀ sl, T.get key (sl + (cur - fd.cur)) x.2.1 = T.get key sl bx.2.1) ∧
    (∀ v sl, T.ins key v (sl + (cur - fd.cur)) x.2.1 = (T.ins key v sl bx.2.1).map (plugRow frs))

theorem findNode_ins {m : Nat} (E : Env) (key target : Nat) :
    ∀ (f a cur : Nat) (path : List (Nat × Nat)) (s : PS) (g : Nat) (x : Bool × T × List Nat),
    Good s → target ≤ cur → repLink s.heap s.store g (.ptr a) = some x → x.2.2.Nodup →
    Spec (Grow m) (findNode E m key target true f a cur path) s (fun fd s' =>
      FindOK key target cur path s.heap.length x fd s'.heap s'.store) := by
  intro f
  induction f with
  | zero => intro a cur path s g x _ _ _ _; exact Spec.oof
  | succ f ih =>
    intro a cur path s g x hg htc hx hnd
    unfold findNode
    refine Spec.bind (read_spec a s) ?_
    rintro nd s1 _ _ ⟨rfl, hnda⟩
    obtain ⟨g', cs, rfl, hv, h1, hcl, rfl⟩ := repLink_ptr_inv hx hnda
    split
    · exact Spec.panic
    · dsimp only
      generalize hi : keyIdx nd.keys key = i
      have hile : i ≤ nd.keys.length := hi ▸ keyIdx_le _ _
      split
      · next hstop =>
        refine Spec.pure ⟨[(a, i)], [], g' + 1, _, nd, rfl, rfl, Nat.le_refl _, htc, trivial, by simp, hx, hnda,
          hi.symm, hstop, FpExt.refl hnd, ?_, ?_⟩
        · intro sl; simp
        · intro v sl; simp [plugRow]
      · next hcont =>
        have hk : nd.keys[i]? ≠ some key := fun h => hcont (Or.inl h)
        have hct : cur ≠ target := fun h => hcont (Or.inr h)
        refine Spec.bind (follow_create_spec (m := m) E a i s hg hnda) ?_
        rintro b s1 _ hgr1 ⟨l, hl, hnil, hnn⟩
        obtain ⟨c, hc1, hc2⟩ := seqO_map_getElem? h1 hl
        have hilt : i < nd.links.length := (List.getElem?_eq_some_iff.mp hl).1
        have hcs := take_append_getElem_drop hc2
        have hL := seqO_map_take h1 i
        have hR := seqO_map_drop h1 (i + 1)
        have hLlen : (cs.take i).length = i := by rw [List.length_take]; omega
        -- the frame of this node
        let fr : Fr := { own := ownFp nd a, ks := nd.keys, vs := nd.vals, L := cs.take i, R := cs.drop (i + 1) }
        have hfrok : fr.OK key := by
          refine ⟨?_, hv.2, ?_, ?_⟩
          · show (cs.take i).length + (cs.drop (i + 1)).length = nd.keys.length
            rw [hLlen, List.length_drop]; omega
          · show keyIdx nd.keys key = (cs.take i).length
            rw [hLlen]; exact hi
          · show nd.keys[(cs.take i).length]? ≠ some key
            rw [hLlen]; exact hk
        have hxrep : nodeRep false (ownFp nd a) nd.keys nd.vals cs =
            nodeRep false fr.own fr.ks fr.vs (fr.L ++ c :: fr.R) := by
          show _ = nodeRep false (ownFp nd a) nd.keys nd.vals (cs.take i ++ c :: cs.drop (i + 1))
          rw [← hcs]
        have hfp : (nodeRep false (ownFp nd a) nd.keys nd.vals cs).2.2 =
            (ownFp nd a ++ fps (cs.take i)) ++ c.2.2 ++ fps (cs.drop (i + 1)) := by
          rw [nodeRep_fp]; conv => lhs; rw [hcs]
          simp [List.append_assoc]
        have hltn : ∀ y ∈ (nodeRep false (ownFp nd a) nd.keys nd.vals cs).2.2, y < s.heap.length :=
          repLink_fp_lt' hx
        rw [hfp] at hnd hltn
        have hcnd : c.2.2.Nodup := (List.nodup_append.mp (List.nodup_append.mp hnd).1).2.1
        -- what the child object denotes
        have hchild : ∃ gc xc, repLink s1.heap s1.store gc (.ptr b) = some xc ∧ xc.2.2.Nodup ∧
            (∀ sl, T.get key sl xc.2.1 = T.get key sl c.2.1) ∧
            (∀ v sl, T.ins key v sl xc.2.1 = T.ins key v sl c.2.1) ∧
            (∀ new, FpExt s1.heap.length xc.2.2 new → FpExt s.heap.length c.2.2 new) := by
          by_cases hl0 : l = .nil
          · obtain ⟨rfl, hheap⟩ := hnil hl0
            subst hl0
            simp at hc1; subst hc1
            have hb : s1.heap[s.heap.length]? = some (emptyNode m) := by rw [hheap]; exact getElem?_append_self _ _
            refine ⟨1, _, repLink_emptyNode hb, by simp, ?_, ?_, ?_⟩
            · intro sl; exact get_unmk key sl T.nil
            · intro v sl; exact ins_unmk key v sl T.nil
            · intro new hnew
              refine ⟨hnew.1, fun y hy => Or.inr ?_⟩
              have hlen := hgr1.length
              rcases hnew.2 y hy with h | h
              · simp at h; omega
              · omega
          · refine ⟨g', _, hnn hl0 g' c hc1, hcnd, fun _ => rfl, fun _ _ => rfl, ?_⟩
            intro new hnew
            exact hnew.n_mono hgr1.length
        obtain ⟨gc, xc, hxc, hxcnd, hxcget, hxcins, hxcfp⟩ := hchild
        refine (ih b (cur - 1) (path ++ [(a, i)]) s1 gc xc (hgr1.good hg) (by omega) hxc hxcnd).conseq ?_
        rintro fd s' _ hgr' ⟨p', frs', gb, bx, bnd, hpath, hlast, hcur, htgt, hctx, hoks, hbx, hbnd, hidx, hstop, hfpx,
          hget, hins⟩
        have hgr := hgr1.trans hgr'
        refine ⟨(a, i) :: p', fr :: frs', gb, bx, bnd, ?_, ?_, by omega, htgt, ?_, ?_, hbx, hbnd, hidx, hstop, ?_, ?_, ?_⟩
        · rw [hpath]; simp
        · match p', hlast with
          | q :: rest, hlast => rw [List.getLast?_cons_cons]; exact hlast
        · match p', hlast, hctx with
          | (b', j') :: rest, _, hctx =>
            refine ⟨⟨nd, g', hgr.alloc a nd hnda, hv, rfl, rfl, rfl, hLlen.symm, hilt, ?_, ?_⟩, hctx⟩
            · exact seqO_map_congr hL (fun l _ c hc => hgr.rep hc)
            · exact seqO_map_congr hR (fun l _ c hc => hgr.rep hc)
        · intro fr' hfr'
          rcases List.mem_cons.mp hfr' with h | h
          · rw [h]; exact hfrok
          · exact hoks fr' h
        · -- footprint
          rw [hfp]
          show FpExt _ _ (fr.plug (plug frs' bx)).2.2
          rw [Fr.plug_fp]
          exact FpExt.ctx _ _ hnd
            (fun y hy => hltn y (List.mem_append.mpr (Or.inl (List.mem_append.mpr (Or.inl hy)))))
            (fun y hy => hltn y (List.mem_append.mpr (Or.inr hy))) (hxcfp _ hfpx)
        · intro sl
          have hd : sl + (cur - fd.cur) = (sl + (cur - 1 - fd.cur)) + 1 := by omega
          rw [hd, hxrep, Fr.get_plug hfrok, ← hxcget, hget]
        · intro v sl
          have hd : sl + (cur - fd.cur) = (sl + (cur - 1 - fd.cur)) + 1 := by omega
          rw [hd, hxrep, Fr.ins_plug hfrok, ← hxcins, hins, Option.map_map]
          rfl

end Mast.Ptr
