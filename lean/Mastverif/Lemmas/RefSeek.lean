import Mastverif.Model.PtrSeek
import Mastverif.Lemmas.RefCursor
import Mastverif.Lemmas.RefIterEntries
/-!
# The object-level `SeekIter` yields what the functional `SeekIter` yields
-/
namespace Mast.Ptr
open Mast.Heap Mast

variable {w : Nat}

theorem restOf_eq_toList : ∀ (t : T), Cursor.seekRow.restOf t = T.toList t := by
  intro t
  induction t with
  | nil => rfl
  | last p c _ => rfl
  | cons p c k v r _ ih => simp [Cursor.seekRow.restOf, T.toList, ih]

/-- entry `i` and everything after it in a node row -/
theorem seekRow_mkRow : ∀ (ks : List Nat) (cs : List (Bool × T)) (vs : List Nat) (i : Nat),
    cs.length = ks.length + 1 → vs.length = ks.length → i < ks.length →
    ∃ k v, ks[i]? = some k ∧ vs[i]? = some v ∧
      Cursor.seekRow (mkRow cs ks vs) i = (k, v) :: (mkRow (cs.drop (i + 1)) (ks.drop (i + 1)) (vs.drop (i + 1))).toList := by
  intro ks
  induction ks with
  | nil => intro cs vs i _ _ hi; simp at hi
  | cons k ks ih =>
    intro cs vs i hl hv hi
    match cs, vs, hl, hv with
    | (p, c) :: x :: ls, v :: vs, hl, hv =>
      rw [mkRow_cons]
      cases i with
      | zero =>
        refine ⟨k, v, rfl, rfl, ?_⟩
        simp [Cursor.seekRow, restOf_eq_toList]
      | succ i =>
        obtain ⟨k', v', h1, h2, h3⟩ := ih (x :: ls) vs i (by simpa using hl) (by simpa using hv) (by simpa using hi)
        refine ⟨k', v', by simpa using h1, by simpa using h2, ?_⟩
        simp only [Cursor.seekRow, List.drop_succ_cons]
        exact h3

theorem seekRow_mkRow_none : ∀ (ks : List Nat) (cs : List (Bool × T)) (vs : List Nat) (i : Nat),
    cs.length = ks.length + 1 → vs.length = ks.length → ks.length ≤ i →
    Cursor.seekRow (mkRow cs ks vs) i = [] := by
  intro ks
  induction ks with
  | nil =>
    intro cs vs i hl _ _
    match cs, hl with
    | [(p, c)], _ => cases i <;> simp [mkRow, Cursor.seekRow]
  | cons k ks ih =>
    intro cs vs i hl hv hi
    match cs, vs, hl, hv with
    | (p, c) :: x :: ls, v :: vs, hl, hv =>
      rw [mkRow_cons]
      cases i with
      | zero => simp at hi
      | succ i =>
        simp only [Cursor.seekRow]
        exact ih (x :: ls) vs i (by simpa using hl) (by simpa using hv) (by simpa using hi)

theorem seekNode_spec {m : Nat} (E : Env) (g f a i : Nat) (s : PS) (row : T) (hg : Good s)
    (hn : NodeRep w s g a row) :
    Spec (Grow m) (seekNode E f a i) s (fun es _ => es = Cursor.seekRow row i) := by
  obtain ⟨g', nd, cs, rfl, hnd, hval, hseq, _, rfl⟩ := hn.view
  unfold seekNode
  refine Spec.bind (read_spec a s) ?_
  rintro nd' s1 _ _ ⟨rfl, hnd'⟩
  rw [hnd] at hnd'; injection hnd' with hnd'; subst hnd'
  have hcl : (cs.map fun c => (c.1, c.2.1)).length = nd.keys.length + 1 := by
    rw [List.length_map, seqO_map_length hseq]; exact hval.1
  by_cases hi : nd.keys.length ≤ i
  · simp only [hi, if_true]
    refine Spec.pure ?_
    exact (seekRow_mkRow_none nd.keys _ nd.vals i hcl hval.2 hi).symm
  · simp only [hi, if_false]
    have hi' : i < nd.keys.length := by omega
    obtain ⟨k, v, hk, hv, hrow⟩ := seekRow_mkRow nd.keys _ nd.vals i hcl hval.2 hi'
    have hkd : nd.keys.drop i = k :: nd.keys.drop (i + 1) := by
      rw [List.drop_eq_getElem_cons hi']
      congr 1
      have := List.getElem?_eq_getElem hi'
      rw [hk] at this; injection this with this; exact this.symm
    have hv' : i < nd.vals.length := by rw [hval.2]; exact hi'
    have hvd : nd.vals.drop i = v :: nd.vals.drop (i + 1) := by
      rw [List.drop_eq_getElem_cons hv']
      congr 1
      have := List.getElem?_eq_getElem hv'
      rw [hv] at this; injection this with this; exact this.symm
    rw [hkd, hvd]
    refine Spec.bind (Spec.pure (Q := fun r s' => r = [(k, v)] ∧ s' = s) ⟨rfl, rfl⟩) ?_
    rintro here s2 _ _ ⟨rfl, rfl⟩
    have hseq' := seqO_map_drop hseq (i + 1)
    have hl2 : (nd.links.drop (i + 1)).length = (nd.keys.drop (i + 1)).length + 1 := by
      simp only [List.length_drop]; rw [hval.1]; omega
    have hv2 : (nd.vals.drop (i + 1)).length = (nd.keys.drop (i + 1)).length := by
      simp only [List.length_drop]; rw [hval.2]
    refine Spec.bind (iterEntriesLinks_spec (m := m) _ g'
      (fun l s hg x hx => iterEntries_spec (m := m) E f g' l s hg x hx)
      (nd.links.drop (i + 1)) (nd.keys.drop (i + 1)) (nd.vals.drop (i + 1)) (cs.drop (i + 1)) s2 hg hl2 hv2 hseq') ?_
    intro rest s3 _ _ hrest
    refine Spec.pure ?_
    rw [hrow, hrest, List.map_drop]
    rfl

theorem seekPath_spec {m : Nat} (E : Env) (g f : Nat) : ∀ (opath : CPath) (s : PS) (P : Path), Good s →
    PathRep w s g opath P →
    Spec (Grow m) (seekPath E f opath) s (fun es _ => es = (P.map fun x => Cursor.seekRow x.1 x.2).flatten) := by
  intro opath
  induction opath with
  | nil =>
    intro s P _ hp
    match P, hp with
    | [], _ => exact Spec.pure rfl
  | cons x o ih =>
    intro s P hg hp
    obtain ⟨a, i⟩ := x
    match P, hp with
    | (row, j) :: p, hp =>
      obtain ⟨rfl, hn, hrest⟩ := hp
      unfold seekPath
      refine Spec.bind (seekNode_spec (m := m) E g f a i s row hg hn) ?_
      intro xs s1 _ hgr hxs
      refine Spec.bind (ih s1 p (hgr.good hg) (hrest.grow hgr)) ?_
      intro ys s2 _ _ hys
      refine Spec.pure ?_
      rw [hxs, hys]; simp

/-- **`SeekIter`** over the tree's own objects: the entries handed to the callback are those of
    the functional `SeekIter` on the row the root denotes; the call only allocates -/
theorem seekIter_spec (E : Env) (t : PTree) (f k g : Nat) (s : PS) (x : Bool × T × List Nat) (hg : Good s)
    (hx : repLink s.heap s.store g t.root = some x) (hnd : x.2.2.Nodup) (hown : FpOwned s.heap t.id x.2.2)
    (hne : t.root ≠ .nil) :
    Spec (Grow t.id) (seekIter E t f k) s (fun es _ => es = Cursor.seekIter f x.2.1 k) := by
  unfold seekIter
  rw [if_neg hne]
  refine Spec.bind (load_spec (m := t.id) E t.root s hg) ?_
  rintro a s1 _ hgr1 ⟨_, _, hld⟩
  have hxa := hld g x hx
  have hp : PathRep t.id s1 g [(a, 0)] [(x.2.1, 0)] :=
    ⟨rfl, ⟨x.2.2, hxa, hnd, hown.allocOnly hgr1.alloc⟩, trivial⟩
  refine Spec.bind (cCeil_spec (m := t.id) E g k f [(a, 0)] s1 _ (hgr1.good hg) hp) ?_
  intro r s2 _ hgr2 hq
  cases hr : r.2 with
  | true => simp only [if_true]; exact Spec.fail
  | false =>
    simp only [Bool.false_eq_true, if_false]
    refine (seekPath_spec (m := t.id) E g f r.1 s2 _ (hgr2.good (hgr1.good hg)) (hq.1 hr)).conseq ?_
    intro es s3 _ _ hes
    rw [hes]; rfl

end Mast.Ptr
