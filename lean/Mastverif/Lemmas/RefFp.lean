import Mastverif.Lemmas.RefGet
/-! Footprint bookkeeping: `fps`, and `FpExt n old new` — the new footprint has no duplicates and consists
of old elements and of addresses `≥ n` (fresh ones). -/
namespace Mast.Ptr
open Mast.Heap

/-- concatenated footprints of a list of child results -/
def fps (cs : List (Bool × T × List Nat)) : List Nat := (cs.map fun c => c.2.2).flatten

@[simp] theorem fps_nil : fps [] = [] := rfl
@[simp] theorem fps_cons (c : Bool × T × List Nat) (cs : List (Bool × T × List Nat)) : fps (c :: cs) = c.2.2 ++ fps cs := by
  simp [fps]
@[simp] theorem fps_append (a b : List (Bool × T × List Nat)) : fps (a ++ b) = fps a ++ fps b := by
  simp [fps]

theorem nodeRep_fp (flag : Bool) (own ks vs : List Nat) (cs : List (Bool × T × List Nat)) :
    (nodeRep flag own ks vs cs).2.2 = own ++ fps cs := rfl

theorem nodeRep_flag (flag : Bool) (own ks vs : List Nat) (cs : List (Bool × T × List Nat)) :
    (nodeRep flag own ks vs cs).1 = flag := rfl

theorem mem_fps {cs : List (Bool × T × List Nat)} {a : Nat} : a ∈ fps cs ↔ ∃ c ∈ cs, a ∈ c.2.2 := by
  simp only [fps, List.mem_flatten, List.mem_map]
  constructor
  · rintro ⟨l, ⟨c, hc, rfl⟩, ha⟩; exact ⟨c, hc, ha⟩
  · rintro ⟨c, hc, ha⟩; exact ⟨_, ⟨c, hc, rfl⟩, ha⟩

theorem take_append_getElem_drop {α : Type} {l : List α} {i : Nat} {x : α} (h : l[i]? = some x) :
    l = l.take i ++ x :: l.drop (i + 1) := by
  have hlt : i < l.length := (List.getElem?_eq_some_iff.mp h).1
  have hx : l[i] = x := by
    have := List.getElem?_eq_getElem hlt
    rw [h] at this; injection this with this; exact this.symm
  conv => lhs; rw [← List.take_append_drop i l]
  rw [← hx, List.drop_eq_getElem_cons hlt]

def FpExt (n : Nat) (old new : List Nat) : Prop := new.Nodup ∧ ∀ y ∈ new, y ∈ old ∨ n ≤ y

theorem FpExt.refl {n : Nat} {l : List Nat} (h : l.Nodup) : FpExt n l l := ⟨h, fun _ hy => Or.inl hy⟩

theorem FpExt.trans {n n' : Nat} {a b c : List Nat} (h1 : FpExt n a b) (h2 : FpExt n' b c) (hn : n ≤ n') :
    FpExt n a c := by
  refine ⟨h2.1, fun y hy => ?_⟩
  rcases h2.2 y hy with h | h
  · exact h1.2 y h
  · exact Or.inr (by omega)

theorem FpExt.old_mono {n : Nat} {a a' b : List Nat} (h : FpExt n a b) (hs : ∀ y ∈ a, y ∈ a') : FpExt n a' b :=
  ⟨h.1, fun y hy => (h.2 y hy).imp (hs y) id⟩

theorem FpExt.n_mono {n n' : Nat} {a b : List Nat} (h : FpExt n a b) (hn : n' ≤ n) : FpExt n' a b :=
  ⟨h.1, fun y hy => (h.2 y hy).imp id (fun h => by omega)⟩

/-- replace a segment -/
theorem FpExt.ctx {n : Nat} {old new : List Nat} (A B : List Nat) (hnd : (A ++ old ++ B).Nodup)
    (hA : ∀ y ∈ A, y < n) (hB : ∀ y ∈ B, y < n) (h : FpExt n old new) :
    FpExt n (A ++ old ++ B) (A ++ new ++ B) := by
  have hnd' := hnd
  simp only [List.nodup_append, List.mem_append] at hnd'
  obtain ⟨⟨hAn, hOn, hAO⟩, hBn, hAOB⟩ := hnd'
  refine ⟨?_, ?_⟩
  · simp only [List.nodup_append, List.mem_append]
    refine ⟨⟨hAn, h.1, ?_⟩, hBn, ?_⟩
    · intro a ha b hb
      rcases h.2 b hb with h1 | h1
      · exact hAO a ha b h1
      · have := hA a ha; omega
    · intro a ha b hb
      rcases ha with ha | ha
      · exact hAOB a (Or.inl ha) b hb
      · rcases h.2 a ha with h1 | h1
        · exact hAOB a (Or.inr h1) b hb
        · have := hB b hb; omega
  · intro y hy
    simp only [List.mem_append] at hy ⊢
    rcases hy with (hy | hy) | hy
    · exact Or.inl (Or.inl (Or.inl hy))
    · rcases h.2 y hy with h1 | h1
      · exact Or.inl (Or.inl (Or.inr h1))
      · exact Or.inr h1
    · exact Or.inl (Or.inr hy)

/-- a fresh address is put in somewhere -/
theorem FpExt.insert_mid {n z : Nat} {old P Q : List Nat} (h : FpExt n old (P ++ Q)) (hz : n ≤ z)
    (hP : z ∉ P) (hQ : z ∉ Q) : FpExt n old (P ++ z :: Q) := by
  refine ⟨?_, ?_⟩
  · have h1 := h.1
    simp only [List.nodup_append, List.nodup_cons, List.mem_cons] at h1 ⊢
    obtain ⟨hPn, hQn, hPQ⟩ := h1
    refine ⟨hPn, ⟨hQ, hQn⟩, ?_⟩
    intro a ha b hb
    rcases hb with rfl | hb
    · intro h0; subst h0; exact hP ha
    · exact hPQ a ha b hb
  · intro y hy
    simp only [List.mem_append, List.mem_cons] at hy
    rcases hy with hy | rfl | hy
    · exact h.2 y (List.mem_append.mpr (Or.inl hy))
    · exact Or.inr hz
    · exact h.2 y (List.mem_append.mpr (Or.inr hy))

theorem FpExt.cons_fresh {n z : Nat} {old Q : List Nat} (h : FpExt n old Q) (hz : n ≤ z) (hQ : z ∉ Q) :
    FpExt n old (z :: Q) := by
  have := FpExt.insert_mid (P := []) (Q := Q) (by simpa using h) hz (by simp) hQ
  simpa using this

theorem FpExt.nodup {n : Nat} {old new : List Nat} (h : FpExt n old new) : new.Nodup := h.1

/-- every element of the new footprint below `n` is old -/
theorem FpExt.old_of_lt {n y : Nat} {old new : List Nat} (h : FpExt n old new) (hy : y ∈ new) (hlt : y < n) : y ∈ old := by
  rcases h.2 y hy with h1 | h1
  · exact h1
  · omega

theorem repLink_fp_lt' {h : Heap} {st : List SNode} {f : Nat} {l : HLink} {x : Bool × T × List Nat}
    (hx : repLink h st f l = some x) : ∀ a ∈ x.2.2, a < h.length := fun _ ha => repLink_fp_lt hx ha

/-- the flag of a pointer (or absent) link is `false` -/
theorem repLink_flag_ptr {h : Heap} {st : List SNode} {f a : Nat} {x : Bool × T × List Nat}
    (hx : repLink h st f (.ptr a) = some x) : x.1 = false := by
  obtain ⟨_, _, _, _, _, _, _, rfl⟩ := repLink_ptr_some.mp hx; rfl

theorem isEmptyN_iff (nd : MNode) : isEmptyN nd = true ↔ nd.links = [HLink.nil] := by
  unfold isEmptyN; exact beq_iff_eq

end Mast.Ptr
