import Mastverif.Lemmas.RefTickIns
import Mastverif.Lemmas.RefTickDel
import Mastverif.Lemmas.PtrGo
/-!
The same bounds for `insertGo` / `deleteGo` — the calls with the record the Go code leaves when a height loop
fails part-way (what the driver runs); they end in the same state as `insert` / `delete` (`Lemmas/PtrGo.lean`).
-/
namespace Mast.Ptr
open Mast.Heap

theorem insertGo_tick (E : Env) (fuel : Nat) (s s' : PS) (t t' : PTree) (key val : Nat) (o : Outcome) (hc : CacheS s)
    (hd : DepthLe s.heap s.store (t.height + 1) t.root)
    (h : insertGo E fuel s t key val = (s', t', o)) (ho : o = .ok ∨ o = .err) :
    s'.tick ≤ s.tick + t.height + 1 := by
  obtain ⟨h1, h2, _⟩ := insertGo_insert E fuel s t key val
  rw [h] at h1 h2
  simp only at h1 h2
  have hs : s' = (insert E fuel s t key val).1 := h2 (by rw [← h1]; exact ho)
  rw [hs]
  exact insert_tick E fuel s _ t (insert E fuel s t key val).2.1 key val (insert E fuel s t key val).2.2 hc hd rfl

theorem deleteGo_tick (E : Env) (fuel : Nat) (s s' : PS) (t t' : PTree) (key val : Nat) (hc : CacheS s)
    (hd : DepthLe s.heap s.store (t.height + 1) t.root)
    (h : deleteGo E fuel s t key val = (s', t', .ok)) (hh : t'.height = t.height) :
    s'.tick ≤ s.tick + (1 + t.height + min (E.layer key) t.height) := by
  obtain ⟨h1, h2, h3⟩ := deleteGo_delete E fuel s t key val
  rw [h] at h1 h2 h3
  simp only at h1 h2 h3
  have hs : s' = (delete E fuel s t key val).1 := h2 (Or.inl h1.symm)
  have ht : t' = (delete E fuel s t key val).2.1 := h3 h1.symm
  rw [hs]
  refine delete_tick E fuel s _ t (delete E fuel s t key val).2.1 key val hc hd ?_ (ht ▸ hh)
  rw [h1]

end Mast.Ptr
