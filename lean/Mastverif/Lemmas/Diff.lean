import Mastverif.Model.Diff
import Mastverif.Lemmas.Basic
/-!
# The literal `diffOne` refines the sorted-merge diff

`flat` reads a stack as the entry list it still stands for; `mu` is a termination measure.
`step_ok`: one `diffOne` call either emits the head event of the sorted-merge diff `diffL` or
leaves both flats unchanged, strictly decreases `mu`, and keeps both flats sorted.
`run_correct`: hence the entry events of the whole run are exactly `diffL`.
The only assumption on link identity: links with equal names have equal contents.
-/
namespace Mast
namespace Diff
open T

def flat : List Item → List (Nat × Nat)
  | [] => []
  | Item.link _ t :: s => toList t ++ flat s
  | Item.yld k v :: s => (k, v) :: flat s

@[simp] theorem flat_append (a b : List Item) : flat (a ++ b) = flat a ++ flat b := by
  induction a with
  | nil => rfl
  | cons x a ih => cases x <;> simp [flat, ih]

@[simp] theorem flat_linkItem (p : Bool) (c : T) : flat (linkItem p c) = toList c := by
  cases c <;> simp [linkItem, flat, toList]

@[simp] theorem flat_items (t : T) : flat (items t) = toList t := by
  induction t with
  | nil => rfl
  | last p c _ => simp [items, toList]
  | cons p c k v r _ ihr => simp [items, toList, flat, ihr]

def wItem : Item → Nat
  | Item.link _ t => 1 + W t
  | Item.yld _ _ => 1

def mu (s : List Item) : Nat := (s.map wItem).sum

theorem mu_linkItem (p : Bool) (c : T) : mu (linkItem p c) ≤ 1 + W c := by
  cases c <;> simp [linkItem, mu, wItem, W] <;> omega

theorem mu_append (a b : List Item) : mu (a ++ b) = mu a + mu b := by simp [mu]

theorem mu_cons (x : Item) (s : List Item) : mu (x :: s) = wItem x + mu s := by simp [mu]

theorem mu_items (t : T) : mu (items t) ≤ W t := by
  induction t with
  | nil => simp [items, mu, W]
  | last p c _ => simp only [items, W]; have := mu_linkItem p c; omega
  | cons p c k v r _ ihr =>
    simp only [items, W, mu_append]
    have := mu_linkItem p c
    have h : mu (Item.yld k v :: items r) = 1 + mu (items r) := by simp [mu, wItem]
    omega

theorem expand_lt (p : Bool) (t : T) (s : List Item) : mu (items t ++ s) < mu (Item.link p t :: s) := by
  rw [mu_append, mu_cons]; have := mu_items t; simp [wItem]; omega

/-- sorted-merge specification of the entry diff -/
def diffL : List (Nat × Nat) → List (Nat × Nat) → List DEv
  | [], [] => []
  | [], (k, v) :: b => DEv.add k v :: diffL [] b
  | (k, v) :: a, [] => DEv.rem k v :: diffL a []
  | (k, v) :: a, (k', v') :: b =>
      if k < k' then DEv.rem k v :: diffL a ((k', v') :: b)
      else if k = k' then (if v = v' then diffL a b else DEv.chg k v v' :: diffL a b)
      else DEv.add k' v' :: diffL ((k, v) :: a) b
termination_by a b => a.length + b.length

theorem diffL_nil_nil : diffL [] [] = [] := by rw [diffL]
theorem diffL_nil_cons (k v b) : diffL [] ((k, v) :: b) = DEv.add k v :: diffL [] b := by rw [diffL]
theorem diffL_cons_nil (k v a) : diffL ((k, v) :: a) [] = DEv.rem k v :: diffL a [] := by rw [diffL]
theorem diffL_cons_cons (k v a k' v' b) : diffL ((k, v) :: a) ((k', v') :: b) =
    if k < k' then DEv.rem k v :: diffL a ((k', v') :: b)
    else if k = k' then (if v = v' then diffL a b else DEv.chg k v v' :: diffL a b)
    else DEv.add k' v' :: diffL ((k, v) :: a) b := by rw [diffL]

theorem diffL_prefix (p a b : List (Nat × Nat)) : diffL (p ++ a) (p ++ b) = diffL a b := by
  induction p with
  | nil => rfl
  | cons x p ih =>
    obtain ⟨k, v⟩ := x
    simp [diffL_cons_cons, ih]

/-- the entry events among the events of a step -/
def ents (l : List DEv) : List DEv := l.filter isEntryEv

@[simp] theorem ents_add (k v : Nat) : ents [DEv.add k v] = [DEv.add k v] := rfl
@[simp] theorem ents_rem (k v : Nat) : ents [DEv.rem k v] = [DEv.rem k v] := rfl
@[simp] theorem ents_chg (k a b : Nat) : ents [DEv.chg k a b] = [DEv.chg k a b] := rfl
@[simp] theorem ents_nil : ents [] = [] := rfl

variable (layer : Nat → Nat) (nameOf : T → List UInt8)

/-- what one step must establish -/
def StepOK (s : St) (r : Option Out) : Prop :=
  match r with
  | none => flat s.old = [] ∧ flat s.new = []
  | some o =>
      diffL (flat s.old) (flat s.new) = ents o.evs ++ diffL (flat o.st.old) (flat o.st.new) ∧
      mu o.st.old + mu o.st.new < mu s.old + mu s.new ∧ Sorted (flat o.st.old) ∧ Sorted (flat o.st.new)

theorem ents_link_only (a b : List DEv) (ha : ∀ e ∈ a, isEntryEv e = false) (hb : ∀ e ∈ b, isEntryEv e = false) :
    ents (a ++ b) = [] := by
  simp only [ents, List.filter_append]
  rw [List.filter_eq_nil_iff.mpr (by intro e he; simp [ha e he]), List.filter_eq_nil_iff.mpr (by intro e he; simp [hb e he])]
  rfl

theorem ents_ite_rem (c : Bool) (n : List UInt8) : ents (if c = true then [] else [DEv.remLink n]) = [] := by
  cases c <;> simp [ents, isEntryEv]

theorem ents_ite_add (c : Bool) (n : List UInt8) : ents (if c = true then [] else [DEv.addLink n]) = [] := by
  cases c <;> simp [ents, isEntryEv]

theorem ents_both (c1 c2 : Bool) (n1 n2 : List UInt8) :
    ents ((if c1 = true then [] else [DEv.remLink n1]) ++ (if c2 = true then [] else [DEv.addLink n2])) = [] := by
  cases c1 <;> cases c2 <;> simp [ents, isEntryEv]

theorem isPass_some {a : T} {q : Bool} {c : T} (h : isPass a = some (q, c)) : a = last q c := by
  cases a <;> simp [isPass] at h
  obtain ⟨rfl, rfl⟩ := h; rfl

theorem step_ok (hle : ∀ a b, nameOf a = nameOf b → toList a = toList b)
    (s : St) (ho : Sorted (flat s.old)) (hn : Sorted (flat s.new)) :
    StepOK s (step layer nameOf s) := by
  obtain ⟨old, new, mo, mn⟩ := s
  simp only at ho hn
  match old, new, ho, hn with
  | [], [], _, _ => simp [step, StepOK, flat]
  | [], Item.link p t :: ns, ho, hn =>
    simp only [step, StepOK]
    refine ⟨by simp [flat, ents_ite_add], ?_, ho, by simpa [flat] using hn⟩
    have := expand_lt p t ns; simp [mu] at this ⊢; omega
  | [], Item.yld k v :: ns, ho, hn =>
    simp only [step, StepOK]
    refine ⟨by simp [flat, diffL_nil_cons], ?_, ho, sorted_tail (by simpa [flat] using hn)⟩
    simp [mu, wItem]
  | Item.link p t :: os, [], ho, hn =>
    simp only [step, StepOK]
    refine ⟨by simp [flat, ents_ite_rem], ?_, by simpa [flat] using ho, hn⟩
    have := expand_lt p t os; simp [mu] at this ⊢; omega
  | Item.yld k v :: os, [], ho, hn =>
    simp only [step, StepOK]
    refine ⟨by simp [flat, diffL_cons_nil], ?_, sorted_tail (by simpa [flat] using ho), hn⟩
    simp [mu, wItem]
  | Item.link pa a :: os, Item.yld k v :: ns, ho, hn =>
    simp only [step, StepOK]
    refine ⟨by simp [flat, ents_ite_rem], ?_, by simpa [flat] using ho, hn⟩
    have := expand_lt pa a os; simp [mu] at this ⊢; omega
  | Item.yld k v :: os, Item.link pb b :: ns, ho, hn =>
    simp only [step, StepOK]
    refine ⟨by simp [flat, ents_ite_add], ?_, ho, by simpa [flat] using hn⟩
    have := expand_lt pb b ns; simp [mu] at this ⊢; omega
  | Item.yld k v :: os, Item.yld k' v' :: ns, ho, hn =>
    have ho' := sorted_tail (by simpa [flat] using ho)
    have hn' := sorted_tail (by simpa [flat] using hn)
    simp only [step]
    by_cases h1 : k < k'
    · simp only [h1, if_true, StepOK]
      refine ⟨by simp [flat, diffL_cons_cons, h1], by simp [mu, wItem], ho', hn⟩
    · by_cases h2 : k = k'
      · subst h2
        simp only [h1, if_false, if_true, StepOK]
        refine ⟨?_, by simp [mu, wItem]; omega, ho', hn'⟩
        by_cases h3 : v = v' <;> simp [flat, diffL_cons_cons, h3]
      · simp only [h1, h2, if_false, StepOK]
        refine ⟨by simp [flat, diffL_cons_cons, h1, h2], by simp [mu, wItem], ho, hn'⟩
  | Item.link pa a :: os, Item.link pb b :: ns, ho, hn =>
    simp only [step]
    by_cases he : linkEq nameOf pa a pb b = true
    · simp only [he, if_true, StepOK]
      have hnm : nameOf a = nameOf b := by
        simp only [linkEq, Bool.and_eq_true, beq_iff_eq] at he; exact he.2
      have := hle a b hnm
      refine ⟨by simp [flat, this, diffL_prefix], by simp [mu, wItem]; omega, ?_, ?_⟩
      · exact (sorted_append (by simpa [flat] using ho)).2.1
      · exact (sorted_append (by simpa [flat] using hn)).2.1
    · have he' : linkEq nameOf pa a pb b = false := by simpa using he
      simp only [he', Bool.false_eq_true, if_false]
      have soA : Sorted (toList a ++ flat os) := by simpa [flat] using ho
      have soB : Sorted (toList b ++ flat ns) := by simpa [flat] using hn
      have expA := expand_lt pa a os
      have expB := expand_lt pb b ns
      cases hpa : isPass a with
      | some qc =>
        obtain ⟨q, c⟩ := qc
        have ha := isPass_some hpa
        subst ha
        simp only [StepOK]
        refine ⟨by simp [flat, ents_both, toList], ?_, by simpa [flat, toList] using soA, hn⟩
        have := mu_linkItem q c
        simp [mu_append, mu_cons, wItem, W] at this ⊢; omega
      | none =>
        simp only []
        cases hpb : isPass b with
        | some qc =>
          obtain ⟨q, c⟩ := qc
          have hb := isPass_some hpb
          subst hb
          simp only [StepOK]
          refine ⟨by simp [flat, ents_both, toList], ?_, ho, by simpa [flat, toList] using soB⟩
          have := mu_linkItem q c
          simp [mu_append, mu_cons, wItem, W] at this ⊢; omega
        | none =>
          simp only []
          have bothExp : ∀ (mo' mn' : Memo) (evs : List DEv) (lds : List (List UInt8)), ents evs = [] →
              StepOK { old := Item.link pa a :: os, new := Item.link pb b :: ns, memoOld := mo, memoNew := mn }
                (some { st := { old := items a ++ os, new := items b ++ ns, memoOld := mo', memoNew := mn' }, evs := evs, loads := lds }) := by
            intro mo' mn' evs lds hev
            simp only [StepOK]
            exact ⟨by simp [flat, hev], by omega, by simpa [flat] using soA, by simpa [flat] using soB⟩
          have expOld : ∀ (mo' mn' : Memo) (evs : List DEv) (lds : List (List UInt8)), ents evs = [] →
              StepOK { old := Item.link pa a :: os, new := Item.link pb b :: ns, memoOld := mo, memoNew := mn }
                (some { st := { old := items a ++ os, new := Item.link pb b :: ns, memoOld := mo', memoNew := mn' }, evs := evs, loads := lds }) := by
            intro mo' mn' evs lds hev
            simp only [StepOK]
            exact ⟨by simp [flat, hev], by omega, by simpa [flat] using soA, hn⟩
          have expNew : ∀ (mo' mn' : Memo) (evs : List DEv) (lds : List (List UInt8)), ents evs = [] →
              StepOK { old := Item.link pa a :: os, new := Item.link pb b :: ns, memoOld := mo, memoNew := mn }
                (some { st := { old := Item.link pa a :: os, new := items b ++ ns, memoOld := mo', memoNew := mn' }, evs := evs, loads := lds }) := by
            intro mo' mn' evs lds hev
            simp only [StepOK]
            exact ⟨by simp [flat, hev], by omega, ho, by simpa [flat] using soB⟩
          cases hfa : firstKey a with
          | none => simp only []; exact bothExp _ _ _ _ (ents_both _ _ _ _)
          | some ka =>
            cases hfb : firstKey b with
            | none => simp only []; exact bothExp _ _ _ _ (ents_both _ _ _ _)
            | some kb =>
              simp only []
              by_cases h1 : ka < kb
              · simp only [h1, if_true]; exact expOld _ _ _ _ (ents_both _ _ _ _)
              · by_cases h2 : kb < ka
                · simp only [h1, h2, if_false, if_true]; exact expNew _ _ _ _ (ents_both _ _ _ _)
                · simp only [h1, h2, if_false]; exact bothExp _ _ _ _ (ents_both _ _ _ _)

theorem run_correct (hle : ∀ a b, nameOf a = nameOf b → toList a = toList b) :
    ∀ (f : Nat) (s : St), Sorted (flat s.old) → Sorted (flat s.new) →
    mu s.old + mu s.new < f → ents (run layer nameOf f s).1 = diffL (flat s.old) (flat s.new) := by
  intro f
  induction f with
  | zero => intro _ _ _ h; omega
  | succ f ih =>
    intro s ho hn hf
    have hs := step_ok layer nameOf hle s ho hn
    simp only [run]
    cases hst : step layer nameOf s with
    | none =>
      rw [hst] at hs; simp only [StepOK] at hs
      simp [hs.1, hs.2, diffL_nil_nil]
    | some o =>
      rw [hst] at hs; simp only [StepOK] at hs
      obtain ⟨h1, h2, h3, h4⟩ := hs
      rw [h1]
      simp only [ents, List.filter_append]
      have := ih o.st h3 h4 (by omega)
      simp only [ents] at this
      rw [this]

end Diff
end Mast
