import Mastverif.Lemmas.RefRows2
/-! Row lemmas for `T.canGrow`, `T.grow`, and the fuel of `Tree.growLoop`. -/
namespace Mast.Ptr
open Mast.Heap

/-- flags on absent links are `false` (true of every row that `repLink` builds) -/
def FlagOK (cs : List (Bool × T)) : Prop := ∀ c ∈ cs, c.2 = T.nil → c.1 = false

theorem canGrow_mkRow (layer : Nat → Nat) (h : Nat) : ∀ (ks : List Nat) (cs : List (Bool × T)) (vs : List Nat),
    cs.length = ks.length + 1 → vs.length = ks.length →
    T.canGrow layer h (mkRow cs ks vs) = ks.any (fun k => decide (h < layer k)) := by
  intro ks
  induction ks with
  | nil =>
    intro cs vs hl hv
    match cs, hl with
    | [(p, c)], _ => rw [mkRow_single]; rfl
  | cons k ks ih =>
    intro cs vs hl hv
    match cs, vs, hl, hv with
    | (p, c) :: y :: ls, v :: vs, hl, hv =>
      rw [mkRow_cons]
      simp only [T.canGrow, List.any_cons]
      rw [ih (y :: ls) vs (by simpa using hl) (by simpa using hv)]

theorem unmk_mk_mkRow {cs : List (Bool × T)} {ks vs : List Nat} (hl : cs.length = ks.length + 1)
    (hv : vs.length = ks.length) (hf : FlagOK cs) : T.unmk (T.mk (mkRow cs ks vs)) = mkRow cs ks vs := by
  match cs, ks, vs, hl, hv with
  | [(p, c)], [], [], _, _ =>
    rw [mkRow_single]
    cases c with
    | nil =>
      have := hf (p, T.nil) (by simp) rfl
      simp at this; subst this; rfl
    | last p' c' => rfl
    | cons p' c' k' v' r' => rfl
  | (p, c) :: x :: ls, k :: ks, v :: vs, _, _ => rw [mkRow_cons]; rfl

/-- a run of low keys followed by a high key: the run becomes the child left of the high key -/
theorem grow_low_high (layer : Nat → Nat) (h : Nat) (k v : Nat) (hk : h < layer k) (restcs : List (Bool × T))
    (ks' vs' : List Nat) (hrl : restcs.length = ks'.length + 1) :
    ∀ (lowks : List Nat) (segcs : List (Bool × T)) (lowvs : List Nat),
    segcs.length = lowks.length + 1 → lowvs.length = lowks.length → (∀ k0 ∈ lowks, layer k0 ≤ h) → FlagOK segcs →
    T.grow layer h (mkRow (segcs ++ restcs) (lowks ++ k :: ks') (lowvs ++ v :: vs')) =
      T.cons false (T.mk (mkRow segcs lowks lowvs)) k v (T.grow layer h (mkRow restcs ks' vs')) := by
  have hrne : restcs ≠ [] := by intro h0; rw [h0] at hrl; simp at hrl
  intro lowks
  induction lowks with
  | nil =>
    intro segcs lowvs hl hv _ _
    match segcs, lowvs, hl, hv with
    | [(p, c)], [], _, _ =>
      simp only [List.cons_append, List.nil_append]
      rw [mkRow_cons' _ _ _ _ _ _ _ hrne, mkRow_single]
      simp only [T.grow, hk, if_true]
  | cons k0 lowks ih =>
    intro segcs lowvs hl hv hlow hf
    match segcs, lowvs, hl, hv with
    | (p, c) :: y :: ls, v0 :: lowvs, hl, hv =>
      have hk0 : ¬ h < layer k0 := by have := hlow k0 (by simp); omega
      simp only [List.cons_append]
      rw [mkRow_cons' _ _ _ _ _ _ _ (by simp)]
      simp only [T.grow, hk0, if_false]
      have hf' : FlagOK (y :: ls) := fun c hc => hf c (List.mem_cons_of_mem _ hc)
      have := ih (y :: ls) lowvs (by simpa using hl) (by simpa using hv)
        (fun k1 hk1 => hlow k1 (List.mem_cons_of_mem _ hk1)) hf'
      simp only [List.cons_append] at this
      rw [this]
      simp only [T.prepend]
      rw [unmk_mk_mkRow (by simpa using hl) (by simpa using hv) hf', mkRow_cons]
      rfl

/-- a run of low keys up to the end of the node: the run becomes the last child -/
theorem grow_low_end (layer : Nat → Nat) (h : Nat) :
    ∀ (lowks : List Nat) (segcs : List (Bool × T)) (lowvs : List Nat),
    segcs.length = lowks.length + 1 → lowvs.length = lowks.length → (∀ k0 ∈ lowks, layer k0 ≤ h) → FlagOK segcs →
    T.grow layer h (mkRow segcs lowks lowvs) = T.last false (T.mk (mkRow segcs lowks lowvs)) := by
  intro lowks
  induction lowks with
  | nil =>
    intro segcs lowvs hl hv _ _
    match segcs, hl with
    | [(p, c)], _ => rw [mkRow_single]; rfl
  | cons k0 lowks ih =>
    intro segcs lowvs hl hv hlow hf
    match segcs, lowvs, hl, hv with
    | (p, c) :: y :: ls, v0 :: lowvs, hl, hv =>
      have hk0 : ¬ h < layer k0 := by have := hlow k0 (by simp); omega
      rw [mkRow_cons]
      simp only [T.grow, hk0, if_false]
      have hf' : FlagOK (y :: ls) := fun c hc => hf c (List.mem_cons_of_mem _ hc)
      rw [ih (y :: ls) lowvs (by simpa using hl) (by simpa using hv)
        (fun k1 hk1 => hlow k1 (List.mem_cons_of_mem _ hk1)) hf']
      simp only [T.prepend]
      rw [unmk_mk_mkRow (by simpa using hl) (by simpa using hv) hf']
      rfl

/-- entries put in front of a row -/
def appendRow : List (Bool × T) → List Nat → List Nat → T → T
  | (p, c) :: cs, k :: ks, v :: vs, R => T.cons p c k v (appendRow cs ks vs R)
  | _, _, _, R => R

theorem appendRow_nil (R : T) : appendRow [] [] [] R = R := rfl

theorem appendRow_snoc : ∀ (cs : List (Bool × T)) (ks vs : List Nat) (p : Bool) (c : T) (k v : Nat) (R : T),
    cs.length = ks.length → vs.length = ks.length →
    appendRow (cs ++ [(p, c)]) (ks ++ [k]) (vs ++ [v]) R = appendRow cs ks vs (T.cons p c k v R) := by
  intro cs
  induction cs with
  | nil =>
    intro ks vs p c k v R hl hv
    match ks, vs, hl, hv with
    | [], [], _, _ => rfl
  | cons x cs ih =>
    intro ks vs p c k v R hl hv
    match x, ks, vs, hl, hv with
    | (p0, c0), k0 :: ks, v0 :: vs, hl, hv =>
      simp only [List.cons_append, appendRow]
      rw [ih ks vs p c k v R (by simpa using hl) (by simpa using hv)]

theorem appendRow_last : ∀ (cs : List (Bool × T)) (ks vs : List Nat) (p : Bool) (c : T),
    cs.length = ks.length → vs.length = ks.length →
    appendRow cs ks vs (T.last p c) = mkRow (cs ++ [(p, c)]) ks vs := by
  intro cs
  induction cs with
  | nil =>
    intro ks vs p c hl hv
    match ks, vs, hl, hv with
    | [], [], _, _ => simp [appendRow, mkRow_single]
  | cons x cs ih =>
    intro ks vs p c hl hv
    match x, ks, vs, hl, hv with
    | (p0, c0), k0 :: ks, v0 :: vs, hl, hv =>
      simp only [List.cons_append, appendRow]
      rw [ih ks vs p c (by simpa using hl) (by simpa using hv), mkRow_cons' _ _ _ _ _ _ _ (by simp)]

/-! ## the fuel of `Tree.growLoop` -/

def growCond (layer : Nat → Nat) (m : Tree) : Prop := m.size ≥ m.growAfter ∧ T.canGrow layer m.height m.root = true

instance (layer : Nat → Nat) (m : Tree) : Decidable (growCond layer m) := by unfold growCond; infer_instance

theorem growLoop_succ (layer : Nat → Nat) (f : Nat) (m : Tree) :
    Tree.growLoop layer (f + 1) m = if growCond layer m then Tree.growLoop layer f (Tree.growStep layer m) else m := rfl

/-- once the loop has stopped by its condition, more fuel changes nothing -/
theorem growLoop_stable (layer : Nat → Nat) : ∀ (f : Nat) (m : Tree), ¬ growCond layer (Tree.growLoop layer f m) →
    ∀ f', f ≤ f' → Tree.growLoop layer f' m = Tree.growLoop layer f m := by
  intro f
  induction f with
  | zero =>
    intro m hc f' _
    cases f' with
    | zero => rfl
    | succ f' =>
      have hc' : ¬ growCond layer m := hc
      rw [growLoop_succ, if_neg hc']; rfl
  | succ f ih =>
    intro m hc f' hf
    cases f' with
    | zero => omega
    | succ f' =>
      rw [growLoop_succ] at hc
      rw [growLoop_succ, growLoop_succ]
      by_cases hm : growCond layer m
      · rw [if_pos hm] at hc
        rw [if_pos hm, if_pos hm]
        exact ih _ hc f' (by omega)
      · rw [if_neg hm, if_neg hm]

/-- with a branch factor ≥ 2 the loop stops by its condition within the fuel -/
theorem growLoop_conv (layer : Nat → Nat) : ∀ (f : Nat) (m : Tree), 2 ≤ m.bf → m.size < m.growAfter * 2 ^ f →
    ¬ growCond layer (Tree.growLoop layer f m) := by
  intro f
  induction f with
  | zero =>
    intro m _ hs hc
    simp only [Tree.growLoop, growCond] at hc
    have := hc.1
    simp at hs
    omega
  | succ f ih =>
    intro m hbf hs
    rw [growLoop_succ]
    by_cases hm : growCond layer m
    · rw [if_pos hm]
      apply ih
      · exact hbf
      · show m.size < m.growAfter * m.bf * 2 ^ f
        have h1 : m.growAfter * 2 * 2 ^ f ≤ m.growAfter * m.bf * 2 ^ f :=
          Nat.mul_le_mul_right _ (Nat.mul_le_mul_left _ hbf)
        have h2 : m.growAfter * 2 ^ (f + 1) = m.growAfter * 2 * 2 ^ f := by
          rw [Nat.pow_succ, Nat.mul_assoc, Nat.mul_comm (2 ^ f) 2]
        omega
    · rw [if_neg hm]; exact hm

/-- the fuel `size + 1` that `Tree.insert` uses is enough -/
theorem growLoop_fuel (layer : Nat → Nat) (f : Nat) (m : Tree) (hbf : 2 ≤ m.bf) (hga : 1 ≤ m.growAfter)
    (hc : ¬ growCond layer (Tree.growLoop layer f m)) :
    Tree.growLoop layer (m.size + 1) m = Tree.growLoop layer f m := by
  have hconv : ¬ growCond layer (Tree.growLoop layer (m.size + 1) m) := by
    apply growLoop_conv layer _ m hbf
    have h1 : m.size < 2 ^ (m.size + 1) := Nat.lt_of_lt_of_le Nat.lt_two_pow_self (Nat.pow_le_pow_right (by omega) (by omega))
    have h2 : 2 ^ (m.size + 1) ≤ m.growAfter * 2 ^ (m.size + 1) := Nat.le_mul_of_pos_left _ hga
    omega
  have a := growLoop_stable layer f m hc (max f (m.size + 1)) (Nat.le_max_left _ _)
  have b := growLoop_stable layer (m.size + 1) m hconv (max f (m.size + 1)) (Nat.le_max_right _ _)
  rw [← b, a]

end Mast.Ptr
