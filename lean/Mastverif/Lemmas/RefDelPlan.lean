import Mastverif.Lemmas.RefDelFind
import Mastverif.Lemmas.RefDelMerge
import Mastverif.Lemmas.RefPlan
/-! `deletePlan`: what the state looks like when the plan has been made (nothing reachable was written). -/
namespace Mast.Ptr
open Mast.Heap

/-- a list with two neighbouring elements singled out -/
theorem split_two {α : Type} {l : List α} {i : Nat} {a b : α} (h1 : l[i]? = some a) (h2 : l[i + 1]? = some b) :
    l = l.take i ++ a :: b :: l.drop (i + 2) := by
  have e1 := take_append_getElem_drop h1
  have hlt : i + 1 < l.length := (List.getElem?_eq_some_iff.mp h2).1
  have hb : l[i + 1] = b := by
    have := List.getElem?_eq_getElem hlt
    rw [h2] at this; injection this with this; exact this.symm
  have e2 : l.drop (i + 1) = b :: l.drop (i + 2) := by
    rw [List.drop_eq_getElem_cons hlt, hb]
  rw [e2] at e1
  exact e1

/-- what `deletePlan` establishes: `x` is what the root link denoted at the start, `n0` the heap size then -/
def DelPlanRef (key val n0 : Nat) (x : Bool × T × List Nat) (height target : Nat) (p : DelPlan) (h : Heap)
    (st : List SNode) : Prop :=
  ∃ frs gb csb nd n2 cl cr,
    Ctx h st p.found.path frs ∧
    p.found.path.getLast? = some (p.found.node, p.found.idx) ∧
    h[p.found.node]? = some nd ∧ ValidN nd ∧ seqO (nd.links.map (repLink h st gb)) = some csb ∧
    p.found.idx = keyIdx nd.keys key ∧ nd.keys[p.found.idx]? = some key ∧ nd.vals[p.found.idx]? = some val ∧
    n0 ≤ n2 ∧ n2 ≤ h.length ∧ (∀ y ∈ (plug frs (bottomRep nd p.found.node csb)).2.2, y < n2) ∧
    FpExt n0 x.2.2 (plug frs (bottomRep nd p.found.node csb)).2.2 ∧
    T.get key (height - target) x.2.1 = some val ∧
    T.del key (height - target) x.2.1 = (T.del key 0 (bottomRep nd p.found.node csb).2.1).map (plugDel frs) ∧
    csb[p.found.idx]? = some cl ∧ csb[p.found.idx + 1]? = some cr ∧ MergeOK n2 h st cl cr p.merged

theorem deletePlan_spec (E : Env) (t : PTree) (fuel key val : Nat) (s : PS) (hg : Good s) {g : Nat}
    {x : Bool × T × List Nat} (hx : repLink s.heap s.store g t.root = some x) (hnd : x.2.2.Nodup) :
    Spec (Grow t.id) (deletePlan E t fuel key val) s (fun p s' => t.root ≠ .nil ∧
      DelPlanRef key val s.heap.length x t.height (min (E.layer key) t.height) p s'.heap s'.store) := by
  unfold deletePlan
  split
  · exact Spec.fail
  · next hroot =>
    refine Spec.bind (layerM_spec (m := t.id) E key s) ?_
    rintro lay s1 _ hgr1 rfl
    have hg1 := hgr1.good hg
    dsimp only
    refine Spec.bind (load_spec (m := t.id) E t.root s1 hg1) ?_
    rintro a0 s2 _ hgr2 ⟨_, _, hld⟩
    have hx0 := hld g x (hgr1.rep hx)
    have hg2 := hgr2.good hg1
    refine Spec.bind (findNode_del (m := t.id) E key (min (E.layer key) t.height) fuel a0 t.height [] s2 g _ hg2
      (Nat.min_le_right _ _) hx0 hnd) ?_
    rintro fd s3 _ hgr3 ⟨nd, hnd3, hidx, himp⟩
    have hg3 := hgr3.good hg2
    refine Spec.bind (read_spec fd.node s3) ?_
    rintro nd' s4 _ _ ⟨rfl, hnd'⟩
    rw [hnd3] at hnd'; injection hnd' with hnd'; subst hnd'
    split
    · exact Spec.fail
    · next hc1 =>
      split
      · exact Spec.fail
      · next hc2 =>
        split
        · exact Spec.fail
        · next hc3 =>
          have hct : fd.cur = min (E.layer key) t.height := by
            by_cases h : fd.cur = min (E.layer key) t.height
            · exact h
            · exact absurd (Or.inl h) hc1
          have hkey : nd.keys[fd.idx]? = some key := by
            by_cases h : nd.keys[fd.idx]? = some key
            · exact h
            · exact absurd h hc2
          have hval : nd.vals[fd.idx]? = some val := by
            by_cases h : nd.vals[fd.idx]? = some val
            · exact h
            · exact absurd h hc3
          obtain ⟨p, frs, gb, bx, hpath, hlast, hcur, htgt, hctx, hoks, hbx, hfpx, hget, hdel⟩ := himp hkey
          simp only [List.nil_append] at hpath
          obtain ⟨gb', csb, rfl, hv, hkids, hcl, rfl⟩ := repLink_ptr_inv hbx hnd3
          have hlen01 := hgr1.length
          have hlen12 := hgr2.length
          have hlen23 := hgr3.length
          have hlt3 : ∀ y ∈ (plug frs (bottomRep nd fd.node csb)).2.2, y < s3.heap.length := by
            intro y hy
            rw [plug_fp] at hy
            have hAB := hctx.fp_lt y
            simp only [List.mem_append] at hy hAB
            rcases hy with (hy | hy) | hy
            · exact hAB (Or.inl hy)
            · exact repLink_fp_lt hbx hy
            · exact hAB (Or.inr hy)
          have hfp03 : FpExt s.heap.length x.2.2 (plug frs (bottomRep nd fd.node csb)).2.2 :=
            hfpx.n_mono (by omega)
          have hcl' : (csb.map pr).length = nd.keys.length + 1 := by simpa using hcl
          have hget' : T.get key (t.height - min (E.layer key) t.height) x.2.1 = some val := by
            have := hget 0
            rw [hct, Nat.zero_add] at this
            rw [this, nodeRep_row, get_mkRow_zero nd.keys _ nd.vals key hcl' hv.2, ← hidx, if_pos hkey]
            exact hval
          have hdel' : T.del key (t.height - min (E.layer key) t.height) x.2.1 =
              (T.del key 0 (bottomRep nd fd.node csb).2.1).map (plugDel frs) := by
            have := hdel 0
            rw [hct, Nat.zero_add] at this
            exact this
          split
          · next l r hl hr =>
            obtain ⟨cl, hcl1, hcl2⟩ := seqO_map_getElem? hkids hl
            obtain ⟨cr, hcr1, hcr2⟩ := seqO_map_getElem? hkids hr
            have hcc : (cl.2.2 ++ cr.2.2).Nodup := by
              have h1 : (bottomRep nd fd.node csb).2.2.Nodup := by
                have := hfp03.1
                rw [plug_fp] at this
                exact (List.nodup_append.mp (List.nodup_append.mp this).1).2.1
              unfold bottomRep at h1
              rw [nodeRep_fp, split_two hcl2 hcr2] at h1
              simp only [fps_append, fps_cons] at h1
              have h2 := (List.nodup_append.mp (List.nodup_append.mp h1).2.1).2.1
              rw [← List.append_assoc] at h2
              exact (List.nodup_append.mp h2).1
            refine Spec.bind (mergeNodes_spec (m := t.id) E fuel l r s3 gb' cl cr hg3 hcl1 hcr1 hcc) ?_
            rintro mg s5 _ hgr5 hmg
            refine Spec.pure ⟨hroot, frs, gb', csb, nd, s3.heap.length, cl, cr, ?_, by rw [hpath]; exact hlast,
              hgr5.alloc _ _ hnd3, hv, ?_, hidx, hkey, hval, by omega, hgr5.length, hlt3, hfp03, hget', hdel', hcl2, hcr2,
              hmg⟩
            · rw [hpath, hgr5.store]; exact hctx.allocOnly hgr5.alloc
            · exact seqO_map_congr hkids (fun l _ c hc => hgr5.rep hc)
          · exact Spec.panic

end Mast.Ptr
