import Mastverif.Model.Rep
/-! Row lemmas: `mkRow` against `T.get` (pure list reasoning, no heap, no sortedness). -/
namespace Mast.Ptr
open Mast.Heap

theorem mkRow_single (p : Bool) (c : T) (ks vs : List Nat) : mkRow [(p, c)] ks vs = T.last p c := by
  unfold mkRow; rfl

theorem mkRow_cons (p : Bool) (c : T) (x : Bool × T) (ls : List (Bool × T)) (k : Nat) (ks : List Nat) (v : Nat) (vs : List Nat) :
    mkRow ((p, c) :: x :: ls) (k :: ks) (v :: vs) = T.cons p c k v (mkRow (x :: ls) ks vs) := by
  rw [mkRow]; simp

/-- the row of a valid node is never the absent link -/
theorem mkRow_ne_nil {cs : List (Bool × T)} {ks vs : List Nat} (h : cs ≠ []) : mkRow cs ks vs ≠ T.nil := by
  cases cs with
  | nil => exact absurd rfl h
  | cons x ls =>
    obtain ⟨p, c⟩ := x
    cases ls with
    | nil => rw [mkRow_single]; simp
    | cons y ls =>
      cases ks with
      | nil => unfold mkRow; simp
      | cons k ks =>
        cases vs with
        | nil => unfold mkRow; simp
        | cons v vs => rw [mkRow_cons]; simp

/-- the child row at index `i` (absent: `T.nil`) -/
def childAt (cs : List (Bool × T)) (i : Nat) : T := (cs[i]?.map (·.2)).getD T.nil

theorem keyIdx_le (ks : List Nat) (k : Nat) : keyIdx ks k ≤ ks.length := by
  induction ks with
  | nil => simp [keyIdx]
  | cons x xs ih => simp only [keyIdx]; split <;> simp <;> omega

theorem get_mkRow_zero : ∀ (ks : List Nat) (cs : List (Bool × T)) (vs : List Nat) (k : Nat),
    cs.length = ks.length + 1 → vs.length = ks.length →
    T.get k 0 (mkRow cs ks vs) = if ks[keyIdx ks k]? = some k then vs[keyIdx ks k]? else none := by
  intro ks
  induction ks with
  | nil =>
    intro cs vs k hl hv
    match cs, hl with
    | [(p, c)], _ => rw [mkRow_single]; simp [T.get, keyIdx]
  | cons k' ks ih =>
    intro cs vs k hl hv
    match cs, vs, hl, hv with
    | (p, c) :: x :: ls, v :: vs, hl, hv =>
      rw [mkRow_cons]
      simp only [T.get, keyIdx]
      by_cases h1 : k' < k
      · simp only [h1, if_true]
        rw [ih (x :: ls) vs k (by simpa using hl) (by simpa using hv)]
        simp
      · simp only [h1, if_false]
        by_cases h2 : k' = k
        · subst h2; simp
        · simp [h2]

theorem get_mkRow_succ : ∀ (ks : List Nat) (cs : List (Bool × T)) (vs : List Nat) (k s : Nat),
    cs.length = ks.length + 1 → vs.length = ks.length →
    T.get k (s + 1) (mkRow cs ks vs) =
      if ks[keyIdx ks k]? = some k then none else T.get k s (childAt cs (keyIdx ks k)) := by
  intro ks
  induction ks with
  | nil =>
    intro cs vs k s hl hv
    match cs, hl with
    | [(p, c)], _ => rw [mkRow_single]; simp [T.get, keyIdx, childAt]
  | cons k' ks ih =>
    intro cs vs k s hl hv
    match cs, vs, hl, hv with
    | (p, c) :: x :: ls, v :: vs, hl, hv =>
      rw [mkRow_cons]
      simp only [T.get, keyIdx]
      by_cases h1 : k' < k
      · simp only [h1, if_true]
        rw [ih (x :: ls) vs k s (by simpa using hl) (by simpa using hv)]
        simp [childAt]
      · simp only [h1, if_false]
        by_cases h2 : k' = k
        · subst h2; simp
        · simp [h2, childAt]

/-- below an absent link nothing is found, at any depth -/
theorem get_nil (k s : Nat) : T.get k s T.nil = none := by
  cases s <;> rfl

/-- staying in a node whose link at the key's position is absent: nothing is found -/
theorem get_mkRow_absent (ks : List Nat) (cs : List (Bool × T)) (vs : List Nat) (k s : Nat)
    (hl : cs.length = ks.length + 1) (hv : vs.length = ks.length)
    (hk : ks[keyIdx ks k]? ≠ some k) (hc : childAt cs (keyIdx ks k) = T.nil) :
    T.get k s (mkRow cs ks vs) = none := by
  cases s with
  | zero => rw [get_mkRow_zero ks cs vs k hl hv, if_neg hk]
  | succ s => rw [get_mkRow_succ ks cs vs k s hl hv, if_neg hk, hc, get_nil]

end Mast.Ptr
