import Mastverif.Lemmas.CursorFwd
/-!
# Backward navigation, `Max`, and walks with direction changes

`Cursor.pre path` is the list of entries strictly before the cursor (the mirror image of
`Cursor.out`).  For a path that is a chain of child links from the root (`ChainFrom`),
`pre path ++ out path = toList root` (`chain_all`) — so a cursor position is an index into the
sorted entry list.  `Backward` drops the last element of `pre`, `Max` leaves exactly the last
entry ahead; with the forward lemmas this gives index arithmetic for every walk
(`walk_spec`).
-/
namespace Mast
open T

namespace T

/-- entries of the row strictly before entry `i`, with the subtrees of links `0..i-1` -/
def preRow : T → Nat → List (Nat × Nat)
  | cons _ c k v r, i+1 => toList c ++ (k, v) :: preRow r i
  | _, _ => []

theorem preRow_zero (node : T) : preRow node 0 = [] := by
  cases node <;> rfl

theorem linkAt_gt : ∀ (node : T) (i : Nat), rowLen node < i → linkAt node i = nil := by
  intro node
  induction node with
  | nil => intro i _; cases i <;> rfl
  | last p c _ => intro i h; cases i with
    | zero => simp [rowLen] at h
    | succ i => rfl
  | cons p c k v r _ ihr =>
    intro i h
    cases i with
    | zero => simp at h
    | succ i => simp only [linkAt]; exact ihr i (by simp [rowLen] at h; omega)

theorem le_rowLen_of_link {node : T} {i : Nat} (h : (linkAt node i).isNil = false) : i ≤ rowLen node := by
  by_cases hle : i ≤ rowLen node
  · exact hle
  · rw [linkAt_gt node i (by omega)] at h; simp [isNil] at h

/-- a node splits at index `i` into what is before link `i`, the subtree of link `i`, and
    entry `i` with everything after it -/
theorem split_at : ∀ (node : T) (i : Nat), i ≤ rowLen node →
    toList node = preRow node i ++ toList (linkAt node i) ++ Cursor.seekRow node i := by
  intro node
  induction node with
  | nil => intro i _; cases i <;> simp [toList, preRow, linkAt, Cursor.seekRow]
  | last p c _ =>
    intro i h
    have : i = 0 := by simp [rowLen] at h; exact h
    subst this
    simp [toList, preRow, linkAt, Cursor.seekRow]
  | cons p c k v r _ ihr =>
    intro i h
    cases i with
    | zero => simp [toList, preRow, linkAt, Cursor.seekRow, restOf_eq_toList]
    | succ i =>
      have := ihr i (by simp [rowLen] at h; omega)
      simp only [toList, preRow, linkAt, Cursor.seekRow, this]
      simp

theorem preRow_succ : ∀ (node : T) (i : Nat), i < rowLen node →
    ∃ e, entryAt node i = some e ∧ preRow node (i + 1) = preRow node i ++ toList (linkAt node i) ++ [e] := by
  intro node
  induction node with
  | nil => intro i h; simp [rowLen] at h
  | last p c _ => intro i h; simp [rowLen] at h
  | cons p c k v r _ ihr =>
    intro i h
    cases i with
    | zero => exact ⟨(k, v), rfl, by simp [preRow, linkAt, preRow_zero]⟩
    | succ i =>
      obtain ⟨e, he, hp⟩ := ihr i (by simp [rowLen] at h; omega)
      refine ⟨e, by simpa [entryAt] using he, ?_⟩
      simp only [preRow, linkAt] at hp ⊢
      rw [hp]; simp

theorem toList_ne_nil_of_solid : ∀ (t : T), Solid t → isEmptyRow t = false → t.isNil = false → toList t ≠ [] := by
  intro t
  induction t with
  | nil => intro _ _ h; simp [isNil] at h
  | last p c ih =>
    intro hs he _
    have hc : c.isNil = false := by cases c <;> simp_all [isEmptyRow, isNil]
    rcases hs.1 with h | h
    · rw [hc] at h; cases h
    · simpa [toList] using ih hs.2 h hc
  | cons p c k v r _ _ => intro _ _ _; simp [toList]

/-- a non-empty solid node whose last link is nil has an entry -/
theorem rowLen_pos_of_last_nil (node : T) (h0 : (linkAt node (rowLen node)).isNil = true)
    (hne : isEmptyRow node = false) (hn : node.isNil = false) : 0 < rowLen node := by
  cases node with
  | nil => simp [isNil] at hn
  | last p c =>
    simp only [linkAt, rowLen] at h0
    cases c <;> simp_all [isEmptyRow, isNil]
  | cons p c k v r => simp [rowLen]

end T

namespace Cursor

/-- what the ancestors contribute to the entries before the cursor (outermost first) -/
def above : Path → List (Nat × Nat)
  | [] => []
  | (n, i) :: rest => above rest ++ preRow n i

/-- the entries strictly before the cursor -/
def pre : Path → List (Nat × Nat)
  | [] => []
  | (node, i) :: rest => above rest ++ preRow node i ++ toList (linkAt node i)

/-- the path is a chain of non-nil child links starting at `root` -/
def ChainFrom (root : T) : Path → Prop
  | [] => True
  | (c, _) :: rest =>
      (match rest with
       | [] => c = root
       | (n, j) :: _ => c = linkAt n j ∧ c.isNil = false) ∧ ChainFrom root rest

theorem chain_reindex {root : T} {node : T} {i j : Nat} {rest : Path}
    (h : ChainFrom root ((node, i) :: rest)) : ChainFrom root ((node, j) :: rest) := by
  simpa [ChainFrom] using h

theorem chain_tail {root : T} {x} {rest : Path} (h : ChainFrom root (x :: rest)) : ChainFrom root rest := by
  obtain ⟨node, i⟩ := x
  exact h.2

theorem chain_push {root : T} {node : T} {i j : Nat} {rest : Path}
    (h : ChainFrom root ((node, i) :: rest)) (hc : (linkAt node i).isNil = false) :
    ChainFrom root ((linkAt node i, j) :: (node, i) :: rest) :=
  ⟨⟨rfl, hc⟩, h⟩

/-- below every ancestor of a chain lies its whole subtree -/
theorem chain_above (root : T) : ∀ (rest : Path) (node : T) (i : Nat), ChainFrom root ((node, i) :: rest) →
    above rest ++ toList node ++ out rest = toList root := by
  intro rest
  induction rest with
  | nil =>
    intro node i h
    have : node = root := h.1
    simp [above, out, this]
  | cons y rest' ih =>
    intro node i h
    obtain ⟨n, j⟩ := y
    obtain ⟨⟨hn, hnil⟩, ht⟩ := h
    have hj : j ≤ rowLen n := by rw [hn] at hnil; exact le_rowLen_of_link hnil
    have := ih n j ht
    rw [← this, split_at n j hj, out_cons, hn]
    simp [above]

/-- **a chain path splits the entry list**: what is before the cursor, then what is ahead -/
theorem chain_all (root : T) (node : T) (i : Nat) (rest : Path) (h : ChainFrom root ((node, i) :: rest))
    (hi : i ≤ rowLen node) : pre ((node, i) :: rest) ++ out ((node, i) :: rest) = toList root := by
  have := chain_above root rest node i h
  rw [← this, split_at node i hi, out_cons]
  simp [pre]

/-! ## chains are preserved by every move -/

theorem minFrom_chain (root : T) : ∀ (fuel : Nat) (node : T) (i : Nat) (rest : Path),
    ChainFrom root ((node, i) :: rest) → i = 0 → ChainFrom root (minFrom fuel node ((node, i) :: rest)) := by
  intro fuel
  induction fuel with
  | zero => intro node i rest h _; simpa [minFrom] using h
  | succ fuel ih =>
    intro node i rest h hi
    subst hi
    simp only [minFrom]
    split
    · exact h
    · next hc =>
      have hc' : (linkAt node 0).isNil = false := by simpa using hc
      exact ih _ 0 _ (chain_push h hc') rfl

theorem popFwd_chain (root : T) : ∀ (path : Path), ChainFrom root path → ChainFrom root (popFwd path) := by
  intro path
  suffices h : ∀ (n : Nat) (path : Path), path.length = n → ChainFrom root path → ChainFrom root (popFwd path) from
    h path.length path rfl
  intro n
  induction n with
  | zero => intro path hl _; have : path = [] := List.length_eq_zero_iff.mp hl; subst this; simp [popFwd, ChainFrom]
  | succ n ih =>
    intro path hl hc
    cases path with
    | nil => simp at hl
    | cons x rest =>
      cases rest with
      | nil => simp [popFwd, ChainFrom]
      | cons y rest' =>
        obtain ⟨node, i⟩ := y
        rw [popFwd]
        split
        · exact chain_tail hc
        · exact ih ((node, i) :: rest') (by simp at hl ⊢; omega) (chain_tail hc)

theorem forward_chain (root : T) (fuel : Nat) (path : Path) (h : ChainFrom root path) :
    ChainFrom root (forward fuel path) := by
  cases path with
  | nil => simp [forward, ChainFrom]
  | cons x rest =>
    obtain ⟨node, i⟩ := x
    simp only [forward]
    split
    · next hc =>
      have hc' : (linkAt node (i + 1)).isNil = false := by simpa using hc.2
      have h1 : ChainFrom root ((node, i + 1) :: rest) := chain_reindex h
      exact minFrom_chain root fuel _ 0 _ (chain_push h1 hc') rfl
    · split
      · exact chain_reindex h
      · exact popFwd_chain root _ h

theorem popCeil_chain (root : T) : ∀ (path : Path), ChainFrom root path → ChainFrom root (popCeil path) := by
  intro path
  induction path with
  | nil => intro _; simp [popCeil, ChainFrom]
  | cons y rest ih =>
    intro h
    obtain ⟨node, i⟩ := y
    simp only [popCeil]
    split
    · exact ih (chain_tail h)
    · exact h

theorem ceil_chain (root : T) (k : Nat) : ∀ (fuel : Nat) (node : T) (i0 : Nat) (rest : Path),
    ChainFrom root ((node, i0) :: rest) → ChainFrom root (ceil k fuel ((node, i0) :: rest)) := by
  intro fuel
  induction fuel with
  | zero => intro node i0 rest h; simpa [ceil] using h
  | succ fuel ih =>
    intro node i0 rest h
    have h1 : ChainFrom root ((node, lowerBound k node) :: rest) := chain_reindex h
    simp only [ceil]
    cases he : entryAt node (lowerBound k node) with
    | some kv =>
      obtain ⟨k', v'⟩ := kv
      simp only []
      split
      · exact h1
      · split
        · exact popCeil_chain root _ h1
        · next hc =>
          have hc' : (linkAt node (lowerBound k node)).isNil = false := by simpa using hc
          exact ih _ 0 _ (chain_push h1 hc')
    | none =>
      simp only []
      split
      · exact popCeil_chain root _ h1
      · next hc =>
        have hc' : (linkAt node (lowerBound k node)).isNil = false := by simpa using hc
        exact ih _ 0 _ (chain_push h1 hc')

/-! ## `Max` and `Backward` -/

theorem pathSolid_cons {node : T} {i : Nat} {rest : Path} (hs : Solid node) (hr : PathSolid rest) :
    PathSolid ((node, i) :: rest) := by
  intro x hx; simp at hx; rcases hx with rfl | hx
  · exact hs
  · exact hr x hx

/-- `Max`: descending through last links leaves exactly the last entry of the subtree ahead -/
theorem maxFrom_spec (root : T) (B : Nat) : ∀ (fuel : Nat) (node : T) (i : Nat) (rest : Path),
    lvl node < fuel → Solid node → isEmptyRow node = false → node.isNil = false → lvl node ≤ B →
    ChainFrom root ((node, i) :: rest) → PathSolid rest → (∀ x ∈ rest, lvl x.1 ≤ B) →
    pre (maxFrom fuel node rest) = above rest ++ (toList node).dropLast ∧
    maxFrom fuel node rest ≠ [] ∧
    AtEntry (maxFrom fuel node rest) ∧ PathSolid (maxFrom fuel node rest) ∧
    ChainFrom root (maxFrom fuel node rest) ∧ (∀ x ∈ maxFrom fuel node rest, lvl x.1 ≤ B) := by
  intro fuel
  induction fuel with
  | zero => intro node i rest h; omega
  | succ fuel ih =>
    intro node i rest hf hs hne hn hB hch hps hlv
    simp only [maxFrom]
    by_cases hc : (linkAt node (rowLen node)).isNil = true
    · simp only [hc, if_true]
      have hnil : linkAt node (rowLen node) = nil := by cases hl : linkAt node (rowLen node) <;> simp_all [isNil]
      have hpos := rowLen_pos_of_last_nil node hc hne hn
      have hlt : rowLen node - 1 < rowLen node := by omega
      obtain ⟨e, _, hsr⟩ := seekRow_lt node (rowLen node - 1) hlt
      have e1 : rowLen node - 1 + 1 = rowLen node := by omega
      rw [e1, hnil, seekRow_end] at hsr
      have hsplit := split_at node (rowLen node - 1) (by omega)
      rw [hsr] at hsplit
      refine ⟨?_, by simp, hlt, pathSolid_cons hs hps, chain_reindex hch, ?_⟩
      · simp only [pre]
        rw [hsplit]
        simp [toList]
      · intro x hx; simp at hx; rcases hx with rfl | hx
        · exact hB
        · exact hlv x hx
    · have hc' : (linkAt node (rowLen node)).isNil = false := by simpa using hc
      simp only [hc', Bool.false_eq_true, if_false]
      obtain ⟨hsc, hec⟩ := solid_linkAt node (rowLen node) hs
      have hne' : isEmptyRow (linkAt node (rowLen node)) = false := by
        rcases hec with h | h
        · rw [hc'] at h; cases h
        · exact h
      have hl1 := lvl_linkAt_lt node (rowLen node) hc'
      have hch1 : ChainFrom root ((node, rowLen node) :: rest) := chain_reindex hch
      obtain ⟨p1, p2, p3, p4, p5, p6⟩ := ih (linkAt node (rowLen node)) 0 ((node, rowLen node) :: rest)
        (by omega) hsc hne' hc' (by omega) (chain_push hch1 hc') (pathSolid_cons hs hps)
        (by intro x hx; simp at hx; rcases hx with rfl | hx
            · exact hB
            · exact hlv x hx)
      refine ⟨?_, p2, p3, p4, p5, p6⟩
      rw [p1]
      have hsplit := split_at node (rowLen node) (Nat.le_refl _)
      rw [seekRow_end] at hsplit
      have hnn := toList_ne_nil_of_solid _ hsc hne' hc'
      rw [hsplit]
      simp only [above, List.append_nil]
      rw [List.dropLast_append_of_ne_nil hnn]
      simp

/-- the pop loop of `Backward`: the top element (which contributed nothing) is dropped, then every
    ancestor reached through its first link -/
theorem popBwd_spec (root : T) : ∀ (rest : Path) (x : T × Nat), ChainFrom root (x :: rest) →
    pre (popBwd (x :: rest)) = (above rest).dropLast ∧
    (popBwd (x :: rest) = [] ↔ above rest = []) ∧
    AtEntry (popBwd (x :: rest)) ∧ ChainFrom root (popBwd (x :: rest)) ∧
    (∀ y ∈ popBwd (x :: rest), ∃ j, (y.1, j) ∈ rest) := by
  intro rest
  induction rest with
  | nil => intro x _; simp [popBwd, pre, above, AtEntry, ChainFrom]
  | cons y rest' ih =>
    intro x h
    obtain ⟨n, j⟩ := y
    obtain ⟨c, ci⟩ := x
    obtain ⟨⟨hn, hnil⟩, ht⟩ := h
    have hj : j ≤ rowLen n := by rw [hn] at hnil; exact le_rowLen_of_link hnil
    rw [popBwd]
    by_cases hpos : j > 0
    · simp only [hpos, if_true]
      have hlt : j - 1 < rowLen n := by omega
      obtain ⟨e, _, hp⟩ := preRow_succ n (j - 1) hlt
      have e1 : j - 1 + 1 = j := by omega
      rw [e1] at hp
      refine ⟨?_, ?_, hlt, chain_reindex ht, ?_⟩
      · simp only [pre, above]
        rw [hp]
        rw [show above rest' ++ (preRow n (j - 1) ++ toList (linkAt n (j - 1)) ++ [e])
              = (above rest' ++ preRow n (j - 1) ++ toList (linkAt n (j - 1))) ++ [e] by simp]
        rw [List.dropLast_concat]
      · simp only [above]
        rw [hp]; simp
      · intro y hy; simp at hy; rcases hy with rfl | hy
        · exact ⟨j, by simp⟩
        · exact ⟨y.2, by simp [hy]⟩
    · have hz : j = 0 := by omega
      subst hz
      simp only [Nat.lt_irrefl, gt_iff_lt, if_false]
      obtain ⟨i1, i2, i3, i4, i5⟩ := ih (n, 0) ht
      refine ⟨?_, ?_, i3, i4, ?_⟩
      · rw [i1]; simp [above, preRow_zero]
      · rw [i2]; simp [above, preRow_zero]
      · intro y hy
        obtain ⟨j, hj⟩ := i5 y hy
        exact ⟨j, by simp [hj]⟩

/-- **Backward**: the entries before the cursor lose their last element; the cursor leaves the
    path exactly when nothing was before it -/
theorem backward_spec (root : T) (B fuel : Nat) (hB : B < fuel) (path : Path) (g : Good B path)
    (hch : ChainFrom root path) :
    pre (backward fuel path) = (pre path).dropLast ∧ (backward fuel path = [] ↔ pre path = []) ∧
    Good B (backward fuel path) ∧ ChainFrom root (backward fuel path) := by
  cases path with
  | nil => simp [backward, pre, ChainFrom]; exact g
  | cons x rest =>
    obtain ⟨node, i⟩ := x
    have hi : i < rowLen node := g.at_
    have hsn : Solid node := g.solid (node, i) (by simp)
    have hrest : PathSolid rest := pathSolid_tail g.solid
    have hlv : ∀ x ∈ rest, lvl x.1 ≤ B := fun x hx => g.depth x (by simp [hx])
    have hln : lvl node ≤ B := g.depth (node, i) (by simp)
    simp only [backward]
    by_cases hc : (linkAt node i).isNil = true
    · have hnil : linkAt node i = nil := by cases hl : linkAt node i <;> simp_all [isNil]
      simp only [hc, not_true_eq_false, if_false]
      by_cases hpos : i > 0
      · simp only [hpos, if_true]
        have hlt : i - 1 < rowLen node := by omega
        obtain ⟨e, _, hp⟩ := preRow_succ node (i - 1) hlt
        have e1 : i - 1 + 1 = i := by omega
        rw [e1] at hp
        refine ⟨?_, ?_, ⟨hlt, pathSolid_cons hsn hrest, ?_⟩, chain_reindex hch⟩
        · simp only [pre]
          rw [hnil, hp]
          rw [show above rest ++ (preRow node (i - 1) ++ toList (linkAt node (i - 1)) ++ [e]) ++ toList nil
                = (above rest ++ preRow node (i - 1) ++ toList (linkAt node (i - 1))) ++ [e] by simp [toList]]
          rw [List.dropLast_concat]
        · simp only [pre]; rw [hp]; simp
        · intro y hy; simp at hy; rcases hy with rfl | hy
          · exact hln
          · exact hlv y hy
      · have hz : i = 0 := by omega
        subst hz
        simp only [Nat.lt_irrefl, gt_iff_lt, if_false]
        obtain ⟨i1, i2, i3, i4, i5⟩ := popBwd_spec root rest (node, 0) hch
        have hpre : pre ((node, 0) :: rest) = above rest := by simp [pre, hnil, toList, preRow_zero]
        refine ⟨by rw [i1, hpre], by rw [i2, hpre], ⟨i3, ?_, ?_⟩, i4⟩
        · intro y hy
          obtain ⟨j, hj⟩ := i5 y hy
          exact hrest (y.1, j) hj
        · intro y hy
          obtain ⟨j, hj⟩ := i5 y hy
          exact hlv (y.1, j) hj
    · have hc' : (linkAt node i).isNil = false := by simpa using hc
      simp only [hc', Bool.false_eq_true, not_false_eq_true, if_true]
      obtain ⟨hsc, hec⟩ := solid_linkAt node i hsn
      have hne' : isEmptyRow (linkAt node i) = false := by
        rcases hec with h | h
        · rw [hc'] at h; cases h
        · exact h
      have hl1 := lvl_linkAt_lt node i hc'
      obtain ⟨p1, p2, p3, p4, p5, p6⟩ := maxFrom_spec root B fuel (linkAt node i) 0 ((node, i) :: rest)
        (by omega) hsc hne' hc' (by omega) (chain_push hch hc') g.solid g.depth
      have hnn := toList_ne_nil_of_solid _ hsc hne' hc'
      refine ⟨?_, ?_, ⟨p3, p4, p6⟩, p5⟩
      · rw [p1]
        simp only [pre, above]
        rw [List.dropLast_append_of_ne_nil hnn]
      · constructor
        · intro h; exact absurd h p2
        · intro h; simp only [pre] at h
          simp at h; exact absurd h.2.2 hnn

/-- `Max` on a fresh cursor: everything but the last entry is behind -/
theorem max_spec (fuel : Nat) (root : T) (hs : Solid root) (hf : lvl root < fuel) (hn : root.isNil = false)
    (hne : isEmptyRow root = false) :
    pre (max fuel [(root, 0)]) = (toList root).dropLast ∧ max fuel [(root, 0)] ≠ [] ∧
    Good (lvl root) (max fuel [(root, 0)]) ∧ ChainFrom root (max fuel [(root, 0)]) := by
  simp only [max]
  obtain ⟨p1, p2, p3, p4, p5, p6⟩ := maxFrom_spec root (lvl root) fuel root 0 [] hf hs hne hn (Nat.le_refl _)
    (by simp [ChainFrom]) (by intro x hx; cases hx) (by intro x hx; cases hx)
  exact ⟨by simpa [above] using p1, p2, ⟨p3, p4, p6⟩, p5⟩

end Cursor
end Mast
