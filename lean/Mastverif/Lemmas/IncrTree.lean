import Mastverif.Lemmas.IncrCount
/-!
# Incremental persistence at the level of the API

From a version that has nothing to write (`DR [] none none root`: just persisted, just loaded, or
the empty tree), along any history of calls without a persist and without a change of height,
the tree satisfies `DR` for the keys the calls modified; hence the next `MakeRoot` writes at most
`2 · height` nodes per modified key below the top node, plus the top node.
-/
set_option linter.unusedSimpArgs false
namespace Mast
namespace Tree
open T
variable (layer : Nat → Nat)

theorem growLoop_height_ge : ∀ (fuel : Nat) (m : Tree), m.height ≤ (growLoop layer fuel m).height := by
  intro fuel
  induction fuel with
  | zero => intro m; exact Nat.le_refl _
  | succ fuel ih =>
    intro m
    simp only [growLoop]
    split
    · have := ih (growStep layer m); simp only [growStep] at this ⊢; omega
    · exact Nat.le_refl _

theorem growLoop_same (fuel : Nat) (m : Tree) (h : (growLoop layer fuel m).height = m.height) :
    growLoop layer fuel m = m := by
  cases fuel with
  | zero => rfl
  | succ fuel =>
    by_cases hc : m.size ≥ m.growAfter ∧ canGrow layer m.height m.root
    · have e : growLoop layer (fuel + 1) m = growLoop layer fuel (growStep layer m) := by
        simp only [growLoop, hc, and_self, if_true]
      rw [e] at h
      have := growLoop_height_ge layer fuel (growStep layer m)
      have hs : (growStep layer m).height = m.height + 1 := rfl
      omega
    · simp only [growLoop, hc, if_false]

theorem shrinkLoop_height_le : ∀ (fuel : Nat) (m : Tree), (shrinkLoop fuel m).height ≤ m.height := by
  intro fuel
  induction fuel with
  | zero => intro m; exact Nat.le_refl _
  | succ fuel ih =>
    intro m
    simp only [shrinkLoop]
    split
    · have := ih (shrinkStep m); simp only [shrinkStep] at this ⊢; omega
    · exact Nat.le_refl _

theorem shrinkLoop_same (fuel : Nat) (m : Tree) (h : (shrinkLoop fuel m).height = m.height) :
    shrinkLoop fuel m = m := by
  cases fuel with
  | zero => rfl
  | succ fuel =>
    by_cases hc : m.height > 0 ∧ (m.size ≤ m.shrinkBelow ∨ topEntryless m.root)
    · have e : shrinkLoop (fuel + 1) m = shrinkLoop fuel (shrinkStep m) := by
        simp only [shrinkLoop, hc, and_self, if_true]
      rw [e] at h
      have := shrinkLoop_height_le fuel (shrinkStep m)
      have hs : (shrinkStep m).height = m.height - 1 := rfl
      omega
    · simp only [shrinkLoop, hc, if_false]

/-- what a successful Insert does to the top row when the height stays the same -/
theorem insert_root (m m' : Tree) (k v : Nat) (h : insert layer m k v = .ok m') (hh : m'.height = m.height) :
    m'.root = m.root ∨ ∃ s, ins k v s m.root = some m'.root := by
  unfold insert at h
  split at h
  · split at h
    · injection h with h; subst h; exact Or.inl rfl
    · split at h
      · next r hr => injection h with h; subst h; exact Or.inr ⟨m.levels layer k, hr⟩
      · cases h
  · split at h
    · cases h
    · next r hr =>
      injection h with h; subst h
      simp only at hh
      have := growLoop_same layer (m.size + 1) _ hh
      right
      refine ⟨m.levels layer k, ?_⟩
      rw [hr]; simp only [this]

theorem delete_root (m m' : Tree) (k v : Nat) (h : delete layer m k v = .ok m') (hh : m'.height = m.height) :
    ∃ s, del k s m.root = some m'.root := by
  unfold delete at h
  split at h
  · cases h
  · split at h
    · cases h
    · split at h
      · cases h
      · next r hr =>
        injection h with h; subst h
        have := shrinkLoop_same (m.height + 1) _ hh
        refine ⟨m.levels layer k, ?_⟩
        rw [hr]; simp only [this]

def keysOf : Op → List Nat
  | .ins k _ => [k]
  | .del k _ => [k]
  | _ => []

/-- one call without a change of height keeps `DR`, with the call's key added -/
theorem step_DR (e : Enc) (m : Tree) (op : Op) (M : List Nat) (hi : Inv layer m)
    (hd : DR M none none m.root) (hp : isPersist op = false)
    (hh : (stepT layer e m op).1.height = m.height) :
    DR (keysOf op ++ M) none none (stepT layer e m op).1.root := by
  cases op with
  | ins k v =>
    simp only [stepT] at hh ⊢
    cases h : insert layer m k v with
    | ok m' =>
      simp only [h] at hh ⊢
      rcases insert_root layer m m' k v h hh with h1 | ⟨s, h1⟩
      · rw [h1]; exact DR_mono (fun x hx => by simp [keysOf, hx]) _ _ _ hd
      · exact ins_DR M k v m.root s none none m'.root hd (by simp) (by simp) h1
    | err _ => simp only [h]; exact DR_mono (fun x hx => by simp [keysOf, hx]) _ _ _ hd
    | panic _ => simp only [h]; exact DR_mono (fun x hx => by simp [keysOf, hx]) _ _ _ hd
  | del k v =>
    simp only [stepT] at hh ⊢
    cases h : delete layer m k v with
    | ok m' =>
      simp only [h] at hh ⊢
      obtain ⟨s, h1⟩ := delete_root layer m m' k v h hh
      exact del_DR M k m.root s none none m'.root hd hi.sorted (by simp) (by simp) h1
    | err _ => simp only [h]; exact DR_mono (fun x hx => by simp [keysOf, hx]) _ _ _ hd
    | panic _ => simp only [h]; exact DR_mono (fun x hx => by simp [keysOf, hx]) _ _ _ hd
  | get k => exact hd
  | iter => exact hd
  | size => exact hd
  | persist => simp [isPersist] at hp

/-- the heights along a history -/
def heightsSame (e : Enc) : Tree → List Op → Prop
  | _, [] => True
  | m, op :: ops => (stepT layer e m op).1.height = m.height ∧ heightsSame e (stepT layer e m op).1 ops

/-- the keys a history modifies (latest first) -/
def modKeys : List Op → List Nat
  | [] => []
  | op :: ops => modKeys ops ++ keysOf op

theorem exec_DR (e : Enc) : ∀ (ops : List Op) (m : Tree) (M : List Nat), Inv layer m → DR M none none m.root →
    (∀ op ∈ ops, isPersist op = false) → heightsSame layer e m ops →
    DR (modKeys ops ++ M) none none (execT layer e m ops).root := by
  intro ops
  induction ops with
  | nil => intro m M _ hd _ _; simpa [modKeys, execT] using hd
  | cons op ops ih =>
    intro m M hi hd hp hh
    have h1 := step_DR layer e m op M hi hd (hp op (by simp)) hh.1
    have h2 := ih _ _ (step_refines layer e m op hi).2.1 h1 (fun o ho => hp o (by simp [ho])) hh.2
    simpa [modKeys, execT, List.append_assoc] using h2

/-- **what the next MakeRoot writes**: at most `2 · height` nodes per modified key, plus the top -/
theorem makeRoot_count (e : Enc) (m : Tree) (M : List Nat) (hi : Inv layer m) (hd : DR M none none m.root) :
    (makeRoot e m).1.length ≤ M.length * (2 * m.height) + 1 := by
  have hl := lvl_le_of_WF layer m.root m.height hi.wf
  have hc := cntD_le M m.root hd hi.sorted
  have hmul : M.length * (2 * lvl m.root) ≤ M.length * (2 * m.height) :=
    Nat.mul_le_mul_left _ (by omega)
  unfold makeRoot
  split
  · simp
  · split
    · simp
    · simp only [List.length_append, List.length_singleton, storesBelow_length]
      omega

end Tree
end Mast
