import Mastverif.Lemmas.PtrGrow
/-! `shrink`, `Clone`/`ToShared`, `flush`, `LoadMast`, `Get`, `Iter`: never stuck. -/
namespace Mast.Ptr
open Mast.Heap

def AccOK (h : Heap) (m : Nat) (acc : MNode) : Prop :=
  acc.owner = m ∧ acc.shared = false ∧ LinksVis h m acc.links

theorem Was.accOK {m lvl : Nat} {acc : MNode} {s : PS}
    (h : Was m lvl (fun s => AccOK s.heap m acc) s) : AccOK s.heap m acc := by
  obtain ⟨s0, ⟨h1, h2, h3⟩, e⟩ := h
  exact ⟨h1, h2, fun l hl => e.vis _ (h3 l hl)⟩

theorem shrinkLoop_sat {m lvl : Nat} (E : Env) : ∀ (ls : List HLink) (es : List (Nat × Nat)) (acc : MNode),
    Sat m lvl (fun s => LinksVis s.heap m ls ∧ AccOK s.heap m acc) (shrinkLoop E ls es acc)
      (fun r s' => AccOK s'.heap m r) := by
  intro ls
  induction ls with
  | nil => intro es acc; unfold shrinkLoop; exact Sat.pure (fun _ _ h => h.2)
  | cons l ls ih =>
    intro es acc
    unfold shrinkLoop
    apply Sat.bind (Q1 := fun acc1 s' => AccOK s'.heap m acc1)
    · split
      · apply Sat.pure
        intro s _ ⟨_, h1, h2, h3⟩
        refine ⟨h1, h2, ?_⟩
        intro x hx
        rcases List.mem_append.mp hx with h | h
        · exact h3 x h
        · simp at h; subst h; trivial
      · apply Sat.bind ((load_sat E l).conseq (Nat.le_refl _) (fun s _ h => h.1 l (by simp)) (fun _ _ _ h => h))
        intro c
        apply Sat.bind ((readV_sat c).conseq (Nat.le_refl _) (fun s _ h => h.1) (fun _ _ _ h => h))
        intro cn
        dsimp only
        split
        · exact Sat.panic
        · apply Sat.pure
          intro s _ ⟨hq, hw⟩
          obtain ⟨h1, h2, h3⟩ := hw.and_right.was.and_right.accOK
          refine ⟨h1, h2, ?_⟩
          intro x hx
          rcases List.mem_append.mp hx with h | h
          · exact h3 x h
          · exact hq.2 x h
    · intro acc1
      have hrest : ∀ s, Inv m s →
          (AccOK s.heap m acc1 ∧ Was m lvl (fun s => LinksVis s.heap m (l :: ls) ∧ AccOK s.heap m acc) s) →
          LinksVis s.heap m ls := by
        intro s _ ⟨_, hw⟩ x hx
        exact hw.and_left.linksVis x (List.mem_cons_of_mem _ hx)
      split
      · exact (ih [] acc1).conseq (Nat.le_refl _) (fun s hinv h => ⟨hrest s hinv h, h.1⟩) (fun _ _ _ h => h)
      · exact (ih _ _).conseq (Nat.le_refl _) (fun s hinv h => ⟨hrest s hinv h, h.1⟩) (fun _ _ _ h => h)

theorem shrink_sat {lvl : Nat} (E : Env) (t : PTree) :
    Sat t.id lvl (fun s => Vis s.heap t.id t.root) (shrink E t)
      (fun t' s' => Vis s'.heap t.id t'.root ∧ t'.id = t.id) := by
  unfold shrink
  split
  · exact Sat.fail
  · split
    · exact Sat.fail
    · apply Sat.bind (load_sat E t.root)
      intro a
      apply Sat.bind ((readV_sat a).conseq (Nat.le_refl _) (fun s _ h => h.1) (fun _ _ _ h => h))
      intro nd
      apply Sat.bind ((shrinkLoop_sat (m := t.id) E nd.links _ _).conseq (Nat.le_refl _)
        (fun s _ h => ⟨h.1.2, rfl, rfl, fun l hl => by simp at hl⟩) (fun _ _ _ h => h))
      intro top
      split
      · exact Sat.panic
      · apply Sat.bind (linkNew_sat' top (fun s _ h => h.1))
        intro r
        exact Sat.pure (fun _ _ h => ⟨h.1, rfl⟩)

theorem topEntryless_sat {m lvl : Nat} (t : PTree) :
    Sat m lvl (fun _ => True) (topEntryless t) (fun _ _ => True) := by
  unfold topEntryless
  split
  · apply Sat.bind (read_sat _)
    intro nd
    exact Sat.pure (fun _ _ _ => trivial)
  · exact Sat.pure (fun _ _ _ => trivial)

theorem shrinkAll_sat {m lvl : Nat} (E : Env) : ∀ (f : Nat) (t : PTree), t.id = m →
    Sat m lvl (fun s => Vis s.heap m t.root) (shrinkAll E f t)
      (fun t' s' => Vis s'.heap m t'.root ∧ t'.id = m) := by
  intro f
  induction f with
  | zero => intro t _; exact Sat.oof
  | succ f ih =>
    intro t ht
    subst ht
    unfold shrinkAll
    apply Sat.bind ((topEntryless_sat t).conseq (Nat.le_refl _) (fun _ _ _ => trivial) (fun _ _ _ h => h))
    intro el
    split
    · apply Sat.bind ((shrink_sat E t).conseq (Nat.le_refl _) (fun s _ h => h.2.vis) (fun _ _ _ h => h))
      intro t'
      intro s hinv hp
      exact (ih t' hp.1.2) s hinv hp.1.1
    · exact Sat.pure (fun _ _ h => ⟨h.2.vis, rfl⟩)

/-! ## Clone -/

/-- what the clone `m` may read of the tree `old` it is taken from -/
def SrcOK (h : Heap) (old : Nat) (ls : List HLink) : Prop := Closed h old ∧ ∀ l ∈ ls, Vis h old l

theorem Was.srcOK {m lvl old : Nat} (h1 : old ≠ m) (h0 : old ≠ 0) {ls : List HLink} {s : PS}
    (h : Was m lvl (fun s => SrcOK s.heap old ls) s) : SrcOK s.heap old ls := by
  obtain ⟨s0, ⟨hc, hv⟩, e⟩ := h
  obtain ⟨ag, hc'⟩ := e.others old h1 h0 hc
  exact ⟨hc', fun l hl => vis_mono ag (hv l hl)⟩

theorem Was.shared {m lvl a : Nat} {s : PS} (h : Was m lvl (fun s => SharedA s.heap a) s) : SharedA s.heap a := by
  obtain ⟨s0, h0, e⟩ := h; exact e.shr a h0

theorem mapLinks_sat {m lvl old : Nat} (h1 : old ≠ m) (h0 : old ≠ 0) (g : Nat → M Nat)
    (hg : ∀ c, Sat m lvl (fun s => SrcOK s.heap old [.ptr c]) (g c) (fun c' s' => Vis s'.heap m (.ptr c'))) :
    ∀ (ls : List HLink), Sat m lvl (fun s => SrcOK s.heap old ls) (mapLinks g ls)
      (fun ls' s' => LinksVis s'.heap m ls') := by
  intro ls
  induction ls with
  | nil => unfold mapLinks; exact Sat.pure (fun _ _ _ l hl => by simp at hl)
  | cons l ls ih =>
    have htail : ∀ {Q : PS → Prop} (s : PS), (Q s ∧ Was m lvl (fun s => SrcOK s.heap old (l :: ls)) s) → SrcOK s.heap old ls := by
      intro Q s ⟨_, hw⟩
      obtain ⟨hc, hv⟩ := hw.srcOK h1 h0
      exact ⟨hc, fun x hx => hv x (List.mem_cons_of_mem _ hx)⟩
    cases l with
    | ptr c =>
      unfold mapLinks
      apply Sat.bind (read_sat c)
      intro cn
      apply Sat.bind (Q1 := fun l' s' => Vis s'.heap m l')
      · split
        · next hsh =>
          apply Sat.pure
          intro s _ ⟨hcn, _⟩
          exact ⟨cn, hcn, Or.inl hsh⟩
        · apply Sat.bind ((hg c).conseq (Nat.le_refl _) ?_ (fun _ _ _ h => h))
          · intro c'
            exact Sat.pure (fun _ _ h => h.1)
          · intro s _ ⟨_, hw⟩
            obtain ⟨hc, hv⟩ := hw.srcOK h1 h0
            exact ⟨hc, fun x hx => by simp at hx; subst hx; exact hv _ (by simp)⟩
      · intro l'
        apply Sat.bind (ih.conseq (Nat.le_refl _) (fun s _ h => htail (Q := fun _ => True) s ⟨trivial, h.2.and_right.was⟩) (fun _ _ _ h => h))
        intro ls'
        apply Sat.pure
        intro s _ ⟨hq, hw⟩ x hx
        rcases List.mem_cons.mp hx with h | h
        · subst h; exact hw.and_left.vis
        · exact hq x h
    | nil =>
      unfold mapLinks
      apply Sat.bind (ih.conseq (Nat.le_refl _) (fun s _ h => ⟨h.1, fun x hx => h.2 x (List.mem_cons_of_mem _ hx)⟩) (fun _ _ _ h => h))
      intro ls'
      apply Sat.pure
      intro s _ ⟨hq, _⟩ x hx
      rcases List.mem_cons.mp hx with h | h
      · subst h; trivial
      · exact hq x h
    | ref n =>
      unfold mapLinks
      apply Sat.bind (ih.conseq (Nat.le_refl _) (fun s _ h => ⟨h.1, fun x hx => h.2 x (List.mem_cons_of_mem _ hx)⟩) (fun _ _ _ h => h))
      intro ls'
      apply Sat.pure
      intro s _ ⟨hq, _⟩ x hx
      rcases List.mem_cons.mp hx with h | h
      · subst h; trivial
      · exact hq x h

theorem toShared_sat {m lvl old : Nat} (h1 : old ≠ m) (h0 : old ≠ 0) : ∀ (f a : Nat),
    Sat m lvl (fun s => SrcOK s.heap old [.ptr a]) (toShared m f a) (fun a' s' => Vis s'.heap m (.ptr a')) := by
  intro f
  induction f with
  | zero => intro a; exact Sat.oof
  | succ f ih =>
    intro a
    unfold toShared
    apply Sat.bind (read_sat a)
    intro nd
    split
    · next hsh =>
      apply Sat.pure
      intro s _ ⟨hnd, _⟩
      exact ⟨nd, hnd, Or.inl hsh⟩
    · next hsh =>
      apply Sat.bind ((mapLinks_sat h1 h0 _ ih nd.links).conseq (Nat.le_refl _) ?_ (fun _ _ _ h => h))
      · intro links'
        apply (alloc_sat' (m := m) { nd with links := links', owner := m, source := none } ?_).conseq (Nat.le_refl _)
          (fun _ _ h => h) (fun _ _ _ h => own_vis h.1)
        intro s _ ⟨hq, _⟩
        exact ⟨rfl, by simpa using hsh, hq⟩
      · intro s _ ⟨hnd, hw⟩
        obtain ⟨hc, hv⟩ := hw.srcOK h1 h0
        refine ⟨hc, ?_⟩
        obtain ⟨nd', hnd', hso⟩ := hv (.ptr a) (by simp)
        rw [hnd] at hnd'; injection hnd' with hnd'; subst hnd'
        exact hc a nd hnd hso

theorem load_src_sat {m lvl old : Nat} (h1 : old ≠ m) (h0 : old ≠ 0) (E : Env) (l : HLink) :
    Sat m lvl (fun s => SrcOK s.heap old [l]) (load E l) (fun a s' => SrcOK s'.heap old [.ptr a]) := by
  cases l with
  | nil => exact Sat.fail
  | ptr a => exact Sat.pure (fun s _ h => h)
  | ref n =>
    apply ((loadRef_sat E n).frame).conseq (Nat.le_refl _) (fun _ _ h => h)
    intro a s _ ⟨hq, hw⟩
    obtain ⟨hc, _⟩ := hw.srcOK h1 h0
    exact ⟨hc, fun x hx => by simp at hx; subst hx; exact shared_vis hq⟩

theorem clone_sat {lvl : Nat} (E : Env) (t : PTree) (newId fuel : Nat) (h1 : t.id ≠ newId) (h0 : t.id ≠ 0) :
    Sat newId lvl (fun s => SrcOK s.heap t.id [t.root]) (clone E t newId fuel)
      (fun t' s' => Vis s'.heap newId t'.root ∧ t'.id = newId) := by
  unfold clone
  split
  · next hr => exact Sat.pure (fun _ _ _ => ⟨by simp [hr]; trivial, rfl⟩)
  · apply Sat.bind (load_src_sat h1 h0 E t.root)
    intro a
    apply Sat.bind ((toShared_sat h1 h0 fuel a).conseq (Nat.le_refl _) (fun _ _ h => h.1) (fun _ _ _ h => h))
    intro a'
    exact Sat.pure (fun _ _ h => ⟨h.1, rfl⟩)

end Mast.Ptr
