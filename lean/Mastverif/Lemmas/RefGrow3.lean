import Mastverif.Lemmas.RefGrow2
/-! `growLoop` and `grow` refine `T.grow`. -/
namespace Mast.Ptr
open Mast.Heap

theorem growLoop_spec {m : Nat} (E : Env) (h : Nat) (nd : MNode) (cs : List (Bool × T × List Nat)) (n0 g0 : Nat)
    (hv : ValidN nd) (hcl : cs.length = nd.keys.length + 1) (hflag : FlagOK (cs.map pr))
    (hnd : (fps cs).Nodup) (hlt0 : ∀ y ∈ fps cs, y < n0) :
    ∀ (rest : List (Nat × Nat)) (i start : Nat) (ks vs : List Nat) (ls : List HLink) (s : PS),
    n0 ≤ s.heap.length → seqO (nd.links.map (repLink s.heap s.store g0)) = some cs →
    rest = (nd.keys.zip nd.vals).drop i → start ≤ i → i ≤ nd.keys.length →
    (∀ k0 ∈ (nd.keys.take i).drop start, E.layer k0 ≤ h) → GrowInv E h nd cs n0 s start ks vs ls →
    Spec (Grow m) (growLoop E m h nd rest i start ks vs ls) s (fun r s' =>
      GrowInv E h nd cs n0 s' r.1 r.2.1 r.2.2.1 r.2.2.2 ∧ r.1 ≤ nd.keys.length ∧
      (∀ k0 ∈ nd.keys.drop r.1, E.layer k0 ≤ h)) := by
  intro rest
  induction rest with
  | nil =>
    intro i start ks vs ls s hn0s hkids hrest hsi hin hlow hinv
    unfold growLoop
    have hge := zip_drop_nil hrest.symm hv.2
    have hi : i = nd.keys.length := by omega
    subst hi
    refine Spec.pure ⟨hinv, hsi, ?_⟩
    rw [List.take_length] at hlow
    exact hlow
  | cons kv rest' ih =>
    intro i start ks vs ls s hn0s hkids hrest hsi hin hlow hinv
    obtain ⟨k, v⟩ := kv
    obtain ⟨hki, hvi, hrest'⟩ := zip_drop_cons hrest.symm
    have hilt : i < nd.keys.length := (List.getElem?_eq_some_iff.mp hki).1
    unfold growLoop
    refine Spec.bind (layerM_spec (m := m) E k s) ?_
    rintro lay s1 _ hgr1 rfl
    have hkids1 : seqO (nd.links.map (repLink s1.heap s1.store g0)) = some cs :=
      seqO_map_congr hkids (fun l _ c hc => hgr1.rep hc)
    have hn0s1 : n0 ≤ s1.heap.length := by have := hgr1.length; omega
    split
    · next hlo =>
      refine ih (i + 1) start ks vs ls s1 hn0s1 hkids1 hrest' (by omega) (by omega) ?_ (hinv.grow hgr1)
      intro k0 hk0
      have ht : nd.keys.take (i + 1) = nd.keys.take i ++ [k] := by
        rw [← List.take_append_getElem hilt]
        have := List.getElem?_eq_getElem hilt
        rw [hki] at this; injection this with this; rw [← this]
      rw [ht, List.drop_append] at hk0
      rcases List.mem_append.mp hk0 with h1 | h1
      · exact hlow k0 h1
      · have := List.mem_of_mem_drop h1
        simp at this; subst this; exact hlo
    · next hhi =>
      refine Spec.bind (extractLink_spec (m := m) nd start i s1 g0 cs hv hkids1 hsi (by omega)) ?_
      rintro l s2 _ hgr2 ⟨x, hx1, hx2, hx3, hx4⟩
      have hinv2 := growInv_step (E := E) (h := h) (g := g0) hv hcl hflag hnd hlt0 hn0s1 (hinv.grow hgr1) hsi hki hvi hlow
        (by omega) hgr2.store hgr2.alloc ⟨hx1, hx2, hx3, hx4⟩
      have hkids2 : seqO (nd.links.map (repLink s2.heap s2.store g0)) = some cs :=
        seqO_map_congr hkids1 (fun l _ c hc => hgr2.rep hc)
      refine ih (i + 1) (i + 1) _ _ _ s2 (by have := hgr2.length; omega) hkids2 hrest' (Nat.le_refl _) (by omega) ?_ hinv2
      intro k0 hk0
      rw [List.drop_take] at hk0
      simp at hk0

/-- the tree record after one `grow()` -/
def grownTree (t : PTree) (na : Nat) : PTree :=
  { t with root := .ptr na, height := t.height + 1, shrinkBelow := t.growAfter, growAfter := t.growAfter * t.bf }

theorem grow_spec (E : Env) (t : PTree) (s : PS) (hg : Good s) {g a : Nat} {y : Bool × T × List Nat}
    (hroot : t.root = .ptr a) (hy : repLink s.heap s.store g (.ptr a) = some y) (hynd : y.2.2.Nodup) :
    Spec (Grow t.id) (grow E t) s (fun t' s' => ∃ na g' y', t' = grownTree t na ∧
      repLink s'.heap s'.store g' (.ptr na) = some y' ∧ y'.2.1 = T.grow E.layer t.height y.2.1 ∧
      FpExt s.heap.length y.2.2 y'.2.2 ∧ rootDirty s'.heap (.ptr na) = true) := by
  unfold grow
  rw [hroot]
  refine Spec.bind (load_spec (m := t.id) E (.ptr a) s hg) ?_
  rintro a' s0 _ _ ⟨_, hptr, _⟩
  obtain ⟨rfl, rfl⟩ := hptr a rfl
  refine Spec.bind (read_spec a' s0) ?_
  rintro nd s0' _ _ ⟨rfl, hnda⟩
  obtain ⟨g0, cs, rfl, hv, hkids, hcl, rfl⟩ := repLink_ptr_inv hy hnda
  have hflag : FlagOK (cs.map pr) := flagOK_of_seqO hkids
  rw [nodeRep_fp] at hynd
  have hnd : (fps cs).Nodup := (List.nodup_append.mp hynd).2.1
  have hlt0 : ∀ y ∈ fps cs, y < s0.heap.length := fun y hy' =>
    repLink_fp_lt hy (by rw [nodeRep_fp]; exact List.mem_append.mpr (Or.inr hy'))
  have hinv0 : GrowInv E t.height nd cs s0.heap.length s0 0 [] [] [] := by
    refine ⟨[], 0, rfl, by simp, rfl, rfl, ?_, by simpa using FpExt.refl (n := s0.heap.length) (l := []) (by simp), by simp⟩
    simp [rowFrom, appendRow]
  refine Spec.bind (growLoop_spec (m := t.id) E t.height nd cs s0.heap.length g0 hv hcl hflag hnd hlt0
    (nd.keys.zip nd.vals) 0 0 [] [] [] s0 (Nat.le_refl _) hkids rfl (Nat.le_refl _) (Nat.zero_le _) (by simp) hinv0) ?_
  rintro ⟨start, ks, vs, ls⟩ s1 _ hgr1 ⟨hinv1, hstart, hlow1⟩
  dsimp only at hinv1 hstart hlow1 ⊢
  have hkids1 : seqO (nd.links.map (repLink s1.heap s1.store g0)) = some cs :=
    seqO_map_congr hkids (fun l _ c hc => hgr1.rep hc)
  have hlen1 := hgr1.length
  refine Spec.bind (extractLink_spec (m := t.id) nd start nd.keys.length s1 g0 cs hv hkids1 hstart (Nat.le_refl _)) ?_
  rintro r s2 _ hgr2 ⟨x, hx1, hx2, hx3, hx4⟩
  have hlen2 := hgr2.length
  obtain ⟨lcs, G, h1, h2, h3, h4, h5, h6, h7⟩ := hinv1
  obtain ⟨hfp1, hfp2⟩ := growFp_step (to := nd.keys.length) hnd hlt0 hlen1 (by omega) h6 h7 ⟨hx1, hx2, hx3, hx4⟩
  have htake : cs.take (nd.keys.length + 1) = cs := List.take_of_length_le (by omega)
  rw [htake] at hfp1 hx3
  rw [List.take_length, show nd.vals.take nd.keys.length = nd.vals from List.take_of_length_le (by rw [hv.2]; exact Nat.le_refl _)] at hx3
  -- the new top node
  split
  · exact Spec.fail
  · refine Spec.bind (alloc_spec (m := t.id) _ s2 (Or.inr rfl) (fun _ => rfl)) ?_
    rintro na s3 _ hgr3 ⟨rfl, rfl⟩
    refine Spec.pure ⟨s2.heap.length, max G (g0 + 1) + 1, nodeRep false [s2.heap.length] ks vs (lcs ++ [x]), rfl, ?_, ?_, ?_, ?_⟩
    · refine repLink_ptr_some.mpr ⟨_, _, lcs ++ [x], rfl, getElem?_append_self _ _, ?_, ?_, by simp [ownFp]⟩
      · show (ls ++ [r]).length = ks.length + 1 ∧ vs.length = ks.length
        have := seqO_map_length h1
        simp only [List.length_append, List.length_cons, List.length_nil]
        omega
      · show seqO ((ls ++ [r]).map _) = some _
        refine seqO_map_append.mpr ⟨lcs, [x], ?_, ?_, rfl⟩
        · refine seqO_map_congr h1 (fun l' _ c hc => ?_)
          exact repLink_mono_le (repLink_allocOnly (allocOnly_append _ _) (hgr2.rep hc)) (Nat.le_max_left _ _)
        · exact seqO_map_cons.mpr ⟨x, [], repLink_mono_le (repLink_allocOnly (allocOnly_append _ _) hx1)
            (Nat.le_max_right _ _), rfl, rfl⟩
    · rw [nodeRep_row, nodeRep_row, h5]
      have hle : T.grow E.layer t.height (rowFrom nd cs start) = T.last false (T.mk (rowFrom nd cs start)) := by
        unfold rowFrom
        have hv2 := hv.2
        exact grow_low_end E.layer t.height (nd.keys.drop start) ((cs.map pr).drop start) (nd.vals.drop start)
          (by simp only [List.length_drop, List.length_map]; omega) (by simp only [List.length_drop]; omega) hlow1
          (fun c hc => hflag c (List.mem_of_mem_drop hc))
      rw [hle, appendRow_last _ _ _ _ _ (by simp [h3]) h4, map_pr_snoc _ _ hx2, hx3]
      unfold rowFrom
      rw [List.map_drop]
    · rw [nodeRep_fp, nodeRep_fp]
      refine FpExt.old_mono ?_ (fun y hy' => List.mem_append.mpr (Or.inr hy'))
      simp only [List.singleton_append]
      refine hfp1.cons_fresh (by omega) ?_
      intro hmem
      have := hfp2 _ hmem
      omega
    · simp [rootDirty]

end Mast.Ptr
