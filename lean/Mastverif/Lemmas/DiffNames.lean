import Mastverif.Lemmas.Names
import Mastverif.Lemmas.DiffLinks
/-!
# The identity assumptions of the diff theorems, discharged for content names

With `nameOf := nodeName e` (the hash of the node's bytes) and the collision-freeness hypothesis
`NoCollision e`, equal names give equal node descriptions, hence equal entries (`name_eq_toList`)
and equal names below (`sameBelow_of_noCollision`).
-/
namespace Mast
namespace T

theorem link_eq_below (e : Enc) (hnc : NoCollision e) {c c2 : T}
    (ih : ∀ t2, rowB e c = rowB e t2 → (nodesBelow c).map (nodeName e) = (nodesBelow t2).map (nodeName e))
    (h : (if c.isNil then none else some (e.hash (e.node (rowB e c)))) =
      (if c2.isNil then none else some (e.hash (e.node (rowB e c2))))) :
    (if c.isNil then [] else c :: nodesBelow c).map (nodeName e) =
      (if c2.isNil then [] else c2 :: nodesBelow c2).map (nodeName e) := by
  by_cases hc : c.isNil = true
  · by_cases hc2 : c2.isNil = true
    · simp [hc, hc2]
    · simp [hc, hc2] at h
  · by_cases hc2 : c2.isNil = true
    · simp [hc, hc2] at h
    · simp only [hc, hc2, Bool.false_eq_true, if_false, Option.some.injEq] at h
      simp only [hc, hc2, Bool.false_eq_true, if_false, List.map_cons]
      have hn : nodeName e c = nodeName e c2 := h
      rw [hn, ih c2 (hnc c c2 h)]

/-- equal node descriptions ⇒ the same names below -/
theorem rowB_eq_below (e : Enc) (hnc : NoCollision e) :
    ∀ t1 t2 : T, rowB e t1 = rowB e t2 → (nodesBelow t1).map (nodeName e) = (nodesBelow t2).map (nodeName e) := by
  intro t1
  induction t1 with
  | nil =>
    intro t2 h
    cases t2 with
    | nil => rfl
    | last p c => simp [rowB] at h
    | cons p c k v r => simp [rowB] at h
  | last p c ih =>
    intro t2 h
    cases t2 with
    | nil => simp [rowB] at h
    | last p2 c2 =>
      simp only [rowB, NodeB.mk.injEq, List.cons.injEq, and_true, true_and] at h
      simp only [nodesBelow]
      exact link_eq_below e hnc ih h
    | cons p2 c2 k v r => simp [rowB] at h
  | cons p c k v r ihc ihr =>
    intro t2 h
    cases t2 with
    | nil => simp [rowB] at h
    | last p2 c2 => simp [rowB] at h
    | cons p2 c2 k2 v2 r2 =>
      obtain ⟨_, _, h3, h4⟩ := rowB_cons_inj e h
      simp only [nodesBelow, List.map_append]
      rw [link_eq_below e hnc ihc h3, ihr r2 h4]

end T

namespace Diff
open T

theorem sameBelow_of_noCollision (e : Enc) (hnc : NoCollision e) : SameBelow (nodeName e) := by
  intro a b hn x hx
  have := rowB_eq_below e hnc a b (hnc a b hn)
  have hx' : nodeName e x ∈ (nodesBelow b).map (nodeName e) := List.mem_map.mpr ⟨x, hx, rfl⟩
  rw [← this] at hx'
  obtain ⟨y, hy, hyn⟩ := List.mem_map.mp hx'
  exact ⟨y, hy, hyn⟩

end Diff
end Mast
