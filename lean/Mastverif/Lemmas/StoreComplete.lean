import Mastverif.Lemmas.TrueLinks
/-!
# After every history, a successful MakeRoot leaves the whole version in the store

The store `S` is the list of names written so far.  Invariant `J S m`: below every persisted link
of `m` hangs a completely persisted subtree all of whose names are in `S`; and a clean tree is in
`S` entirely.  Insert / Delete (with growth and shrinking) keep it; `makeRoot` re-establishes it
for `S` extended by what it writes, and then every name the returned version reaches is in the
store.  (Which writes have *completed* when `MakeRoot` returns is the worker-pool model's business:
`Props/C03.lean`.)
-/
set_option linter.unusedSimpArgs false
namespace Mast
namespace T

/-- the subtree is entirely persisted and entirely in the store -/
def InS (e : Enc) (S : List Bytes) (c : T) : Prop :=
  AllP c ∧ nodeName e c ∈ S ∧ ∀ n ∈ reachBelow e c, n ∈ S

theorem TL_mono {P Q : T → Prop} (hpq : ∀ c, P c → Q c) : ∀ t : T, TL P t → TL Q t := by
  intro t
  induction t with
  | nil => intro _; trivial
  | last p c ih =>
    intro h
    rcases h with h | h | h
    · exact Or.inl h
    · exact Or.inr (Or.inl ⟨h.1, hpq c h.2⟩)
    · exact Or.inr (Or.inr ⟨h.1, ih h.2⟩)
  | cons p c k v r ihc ihr =>
    intro h
    refine ⟨?_, ihr h.2⟩
    rcases h.1 with h1 | h1 | h1
    · exact Or.inl h1
    · exact Or.inr (Or.inl ⟨h1.1, hpq c h1.2⟩)
    · exact Or.inr (Or.inr ⟨h1.1, ihc h1.2⟩)

theorem inS_mono (e : Enc) {S S' : List Bytes} (hs : ∀ n ∈ S, n ∈ S') (c : T) (h : InS e S c) : InS e S' c :=
  ⟨h.1, hs _ h.2.1, fun n hn => hs n (h.2.2 n hn)⟩

/-- an entirely persisted row all of whose reachable names are in the store -/
theorem TL_of_allP (e : Enc) (S : List Bytes) : ∀ t : T, AllP t → (∀ n ∈ reachBelow e t, n ∈ S) → TL (InS e S) t := by
  intro t
  induction t with
  | nil => intro _ _; trivial
  | last p c _ =>
    intro ha hr
    by_cases hc : c.isNil = true
    · exact Or.inl hc
    · have hc' : c.isNil = false := by simpa using hc
      simp only [reachBelow, hc', Bool.false_eq_true, if_false] at hr
      exact Or.inr (Or.inl ⟨ha.1, ha.2, hr _ (by simp), fun n hn => hr n (by simp [hn])⟩)
  | cons p c k v r _ ihr =>
    intro ha hr
    simp only [reachBelow, List.mem_append] at hr
    refine ⟨?_, ihr ha.2.2 (fun n hn => hr n (Or.inr hn))⟩
    by_cases hc : c.isNil = true
    · exact Or.inl hc
    · have hc' : c.isNil = false := by simpa using hc
      simp only [hc', Bool.false_eq_true, if_false] at hr
      exact Or.inr (Or.inl ⟨ha.1, ha.2.1, hr _ (Or.inl (by simp)), fun n hn => hr n (Or.inl (by simp [hn]))⟩)

theorem inS_her (e : Enc) (S : List Bytes) : ∀ c, InS e S c → TL (InS e S) c :=
  fun c h => TL_of_allP e S c h.1 h.2.2

/-- **everything below is in the store once the pending writes are added** -/
theorem reach_covered (e : Enc) (S : List Bytes) : ∀ t : T, TL (InS e S) t →
    ∀ n ∈ reachBelow e t, n ∈ S ∨ n ∈ (storesBelow e t).map (·.1) := by
  intro t
  induction t with
  | nil => intro _ n hn; simp [reachBelow] at hn
  | last p c ih =>
    intro h n hn
    by_cases hc : c.isNil = true
    · simp [reachBelow, hc] at hn
    · have hc' : c.isNil = false := by simpa using hc
      simp only [reachBelow, hc', Bool.false_eq_true, if_false, List.mem_cons] at hn
      rcases h with h | h | h
      · rw [hc'] at h; cases h
      · rcases hn with rfl | hn
        · exact Or.inl h.2.2.1
        · exact Or.inl (h.2.2.2 n hn)
      · have hp : p = false := h.1
        subst hp
        simp only [storesBelow, hc', Bool.false_eq_true, Bool.or_self, if_false, List.map_append, List.map_cons,
          List.map_nil, List.mem_append, List.mem_singleton]
        rcases hn with rfl | hn
        · exact Or.inr (Or.inr rfl)
        · rcases ih h.2 n hn with h1 | h1
          · exact Or.inl h1
          · exact Or.inr (Or.inl h1)
  | cons p c k v r ihc ihr =>
    intro h n hn
    simp only [reachBelow, List.mem_append] at hn
    simp only [storesBelow, List.map_append, List.mem_append]
    rcases hn with hn | hn
    · by_cases hc : c.isNil = true
      · simp [hc] at hn
      · have hc' : c.isNil = false := by simpa using hc
        simp only [hc', Bool.false_eq_true, if_false, List.mem_cons] at hn
        rcases h.1 with h1 | h1 | h1
        · rw [hc'] at h1; cases h1
        · rcases hn with rfl | hn
          · exact Or.inl h1.2.2.1
          · exact Or.inl (h1.2.2.2 n hn)
        · have hp : p = false := h1.1
          subst hp
          simp only [hc', Bool.false_eq_true, Bool.or_self, if_false, List.map_append, List.map_cons,
            List.map_nil, List.mem_append, List.mem_singleton]
          rcases hn with rfl | hn
          · exact Or.inr (Or.inl (Or.inr rfl))
          · rcases ihc h1.2 n hn with h2 | h2
            · exact Or.inl h2
            · exact Or.inr (Or.inl (Or.inl h2))
    · rcases ihr h.2 n hn with h2 | h2
      · exact Or.inl h2
      · exact Or.inr (Or.inr h2)

theorem reachBelow_persistAll (e : Enc) : ∀ t : T, reachBelow e (persistAll t) = reachBelow e t := by
  intro t
  induction t with
  | nil => rfl
  | last p c ih => simp only [persistAll, reachBelow, isNil_persistAll, nodeName_persistAll, ih]
  | cons p c k v r ihc ihr =>
    simp only [persistAll, reachBelow, isNil_persistAll, nodeName_persistAll, ihc, ihr]

end T

namespace Tree
open T
variable (layer : Nat → Nat)

/-- the store invariant of a tree -/
structure J (e : Enc) (S : List Bytes) (m : Tree) : Prop where
  links : TL (InS e S) m.root
  clean : m.dirty = false → isEmptyTop m.root = false →
    nodeName e m.root ∈ S ∧ ∀ n ∈ reachBelow e m.root, n ∈ S

theorem growLoop_TL {P : T → Prop} (her : ∀ c, P c → TL P c) : ∀ (fuel : Nat) (m : Tree), TL P m.root →
    TL P (growLoop layer fuel m).root := by
  intro fuel
  induction fuel with
  | zero => intro m h; exact h
  | succ fuel ih =>
    intro m h
    simp only [growLoop]
    split
    · exact ih _ (grow_TL her layer m.height m.root h)
    · exact h

theorem shrinkLoop_TL {P : T → Prop} (her : ∀ c, P c → TL P c) : ∀ (fuel : Nat) (m : Tree), TL P m.root →
    TL P (shrinkLoop fuel m).root := by
  intro fuel
  induction fuel with
  | zero => intro m h; exact h
  | succ fuel ih =>
    intro m h
    simp only [shrinkLoop]
    split
    · exact ih _ (shrink_TL her m.root h)
    · exact h

theorem insert_TL {P : T → Prop} (her : ∀ c, P c → TL P c) (m m' : Tree) (k v : Nat)
    (h : insert layer m k v = .ok m') (ht : TL P m.root) : TL P m'.root := by
  unfold insert at h
  split at h
  · split at h
    · injection h with h; subst h; exact ht
    · split at h
      · next r hr => injection h with h; subst h; exact ins_TL her k v m.root _ r ht hr
      · cases h
  · split at h
    · cases h
    · next r hr =>
      injection h with h; subst h
      exact growLoop_TL layer her _ _ (ins_TL her k v m.root _ r ht hr)

theorem delete_TL {P : T → Prop} (her : ∀ c, P c → TL P c) (m m' : Tree) (k v : Nat)
    (h : delete layer m k v = .ok m') (ht : TL P m.root) : TL P m'.root := by
  unfold delete at h
  split at h
  · cases h
  · split at h
    · cases h
    · split at h
      · cases h
      · next r hr =>
        injection h with h; subst h
        exact shrinkLoop_TL her _ _ (del_TL her k m.root _ r ht hr)

/-- a call other than a persist keeps the store invariant -/
theorem J_step (e : Enc) (S : List Bytes) (m : Tree) (op : Op) (hp : isPersist op = false) (hj : J e S m) :
    J e S (stepT layer e m op).1 := by
  have her := inS_her e S
  rcases step_dirty layer e m op hp with h1 | h1
  · rw [h1]; exact hj
  · refine ⟨?_, fun hc => by rw [h1] at hc; cases hc⟩
    cases op with
    | ins k v =>
      simp only [stepT]
      cases h : insert layer m k v with
      | ok m' => exact insert_TL layer her m m' k v h hj.links
      | err _ => exact hj.links
      | panic _ => exact hj.links
    | del k v =>
      simp only [stepT]
      cases h : delete layer m k v with
      | ok m' => exact delete_TL layer her m m' k v h hj.links
      | err _ => exact hj.links
      | panic _ => exact hj.links
    | get k => exact hj.links
    | iter => exact hj.links
    | size => exact hj.links
    | persist => simp [isPersist] at hp

/-- the names `makeRoot` writes -/
def written (e : Enc) (m : Tree) : List Bytes := (makeRoot e m).1.map (·.1)

theorem makeRoot_empty (e : Enc) (m : Tree) (he : isEmptyTop m.root = true) :
    makeRoot e m = ([], { link := none, size := m.size, height := m.height, bf := m.bf }, { m with dirty := false }) := by
  unfold makeRoot; simp [he]

theorem makeRoot_clean (e : Enc) (m : Tree) (he : isEmptyTop m.root = false) (hd : m.dirty = false) :
    makeRoot e m = ([], { link := some (nodeName e m.root), size := m.size, height := m.height, bf := m.bf },
      { m with rootP := true }) := by
  unfold makeRoot; simp [he, hd]

theorem makeRoot_dirty (e : Enc) (m : Tree) (he : isEmptyTop m.root = false) (hd : m.dirty = true) :
    makeRoot e m = (storesBelow e m.root ++ [(nodeName e m.root, nodeBytes e m.root)],
      { link := some (nodeName e m.root), size := m.size, height := m.height, bf := m.bf },
      { m with root := persistAll m.root, rootP := true, dirty := false }) := by
  unfold makeRoot; simp [he, hd]

/-- **a successful MakeRoot leaves the whole version in the store** (and the invariant holds for the
    extended store) -/
theorem makeRoot_complete (e : Enc) (S : List Bytes) (m : Tree) (hj : J e S m) :
    (∀ n ∈ reach e m, n ∈ S ++ written e m) ∧ J e (S ++ written e m) (makeRoot e m).2.2 := by
  have mono : ∀ n ∈ S, n ∈ S ++ written e m := fun n hn => by simp [hn]
  have linksMono : TL (InS e (S ++ written e m)) m.root :=
    TL_mono (fun c hc => inS_mono e mono c hc) _ hj.links
  by_cases he : isEmptyTop m.root = true
  · have hr : reach e m = [] := by unfold reach; simp [he]
    rw [hr]
    refine ⟨by simp, ?_⟩
    rw [makeRoot_empty e m he]
    exact ⟨linksMono, fun _ h => by simp [he] at h⟩
  · have he' : isEmptyTop m.root = false := by simpa using he
    have hr : reach e m = nodeName e m.root :: reachBelow e m.root := by unfold reach; simp [he']
    rw [hr]
    by_cases hd : m.dirty = true
    · have hw : written e m = (storesBelow e m.root).map (·.1) ++ [nodeName e m.root] := by
        unfold written; rw [makeRoot_dirty e m he' hd]; simp
      have cov := reach_covered e S m.root hj.links
      have all : ∀ n ∈ nodeName e m.root :: reachBelow e m.root, n ∈ S ++ written e m := by
        intro n hn
        simp only [List.mem_cons] at hn
        rw [hw]
        simp only [List.mem_append, List.mem_singleton]
        rcases hn with rfl | hn
        · exact Or.inr (Or.inr rfl)
        · rcases cov n hn with h | h
          · exact Or.inl h
          · exact Or.inr (Or.inl h)
      refine ⟨all, ?_⟩
      rw [makeRoot_dirty e m he' hd]
      refine ⟨?_, ?_⟩
      · apply TL_of_allP e _ _ (allP_persistAll m.root)
        intro n hn
        rw [reachBelow_persistAll] at hn
        exact all n (by simp [hn])
      · intro _ _
        simp only [nodeName_persistAll, reachBelow_persistAll]
        exact ⟨all _ (by simp), fun n hn => all n (by simp [hn])⟩
    · have hd' : m.dirty = false := by simpa using hd
      obtain ⟨c1, c2⟩ := hj.clean hd' he'
      have all : ∀ n ∈ nodeName e m.root :: reachBelow e m.root, n ∈ S ++ written e m := by
        intro n hn
        simp only [List.mem_cons] at hn
        rcases hn with rfl | hn
        · exact mono _ c1
        · exact mono _ (c2 n hn)
      refine ⟨all, ?_⟩
      rw [makeRoot_clean e m he' hd']
      exact ⟨linksMono, fun _ _ => ⟨all _ (by simp), fun n hn => all n (by simp [hn])⟩⟩

theorem J_empty (e : Enc) (bf : Nat) : J e [] (Tree.empty bf) :=
  ⟨Or.inl rfl, fun _ h => by simp [Tree.empty, isEmptyTop] at h⟩

/-- histories with the store: a persist adds what it writes -/
def execS (e : Enc) : Tree × List Bytes → List Op → Tree × List Bytes
  | ms, [] => ms
  | (m, S), op :: ops =>
      execS e ((stepT layer e m op).1, if isPersist op then S ++ written e m else S) ops

theorem J_execS (e : Enc) : ∀ (ops : List Op) (m : Tree) (S : List Bytes), J e S m →
    J e (execS layer e (m, S) ops).2 (execS layer e (m, S) ops).1 := by
  intro ops
  induction ops with
  | nil => intro m S h; exact h
  | cons op ops ih =>
    intro m S h
    simp only [execS]
    by_cases hp : isPersist op = true
    · simp only [hp, if_true]
      have : (stepT layer e m op).1 = (makeRoot e m).2.2 := by
        cases op <;> simp [isPersist] at hp
        rfl
      rw [this]
      exact ih _ _ (makeRoot_complete e S m h).2
    · have hp' : isPersist op = false := by simpa using hp
      simp only [hp', Bool.false_eq_true, if_false]
      exact ih _ _ (J_step layer e S m op hp' h)

/-! ## failed persists

A `MakeRoot` that fails has issued some of its writes: an arbitrary sub-list of them has reached
the store (which ones is up to the worker pool and the store).  The tree is left as it was —
nothing is committed before every write has succeeded (pub.go, `flush`: the commit closures run
only when no write failed). -/

theorem J_mono (e : Enc) {S S' : List Bytes} (hs : ∀ n ∈ S, n ∈ S') (m : Tree) (hj : J e S m) : J e S' m :=
  ⟨TL_mono (fun c hc => inS_mono e hs c hc) _ hj.links,
   fun hd he => ⟨hs _ (hj.clean hd he).1, fun n hn => hs n ((hj.clean hd he).2 n hn)⟩⟩

/-- keep the elements of `l` whose position is marked in `mask` (missing marks = dropped) -/
def keep {α} : List Bool → List α → List α
  | true :: ms, x :: xs => x :: keep ms xs
  | false :: ms, _ :: xs => keep ms xs
  | _, _ => []

/-- a step of a history with faults: an ordinary operation (a `persist` here is a MakeRoot that
    succeeds), or a MakeRoot that fails after the marked writes have reached the store -/
inductive OpF where
  | op (o : Op)
  | failedPersist (landed : List Bool)

def execF (e : Enc) : Tree × List Bytes → List OpF → Tree × List Bytes
  | ms, [] => ms
  | (m, S), .op o :: ops =>
      execF e ((stepT layer e m o).1, if isPersist o then S ++ written e m else S) ops
  | (m, S), .failedPersist landed :: ops =>
      execF e (m, S ++ keep landed (written e m)) ops

theorem J_execF (e : Enc) : ∀ (ops : List OpF) (m : Tree) (S : List Bytes), J e S m →
    J e (execF layer e (m, S) ops).2 (execF layer e (m, S) ops).1 := by
  intro ops
  induction ops with
  | nil => intro m S h; exact h
  | cons op ops ih =>
    intro m S h
    cases op with
    | op o =>
      simp only [execF]
      by_cases hp : isPersist o = true
      · simp only [hp, if_true]
        have : (stepT layer e m o).1 = (makeRoot e m).2.2 := by
          cases o <;> simp [isPersist] at hp
          rfl
        rw [this]
        exact ih _ _ (makeRoot_complete e S m h).2
      · have hp' : isPersist o = false := by simpa using hp
        simp only [hp', Bool.false_eq_true, if_false]
        exact ih _ _ (J_step layer e S m o hp' h)
    | failedPersist landed =>
      simp only [execF]
      exact ih _ _ (J_mono e (fun n hn => by simp [hn]) m h)

end Tree
end Mast
