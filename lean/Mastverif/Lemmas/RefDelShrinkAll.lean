import Mastverif.Lemmas.RefDelShrink
import Mastverif.Lemmas.RefDelRows
import Mastverif.Lemmas.RefGrowAll
/-! The shrink loop of `Delete` against `Tree.shrinkLoop`. -/
namespace Mast.Ptr
open Mast.Heap

/-- `shrink` on an absent root link returns an error (lib.go: "tree with empty root but height …") -/
theorem shrink_nil_fail (E : Env) (t : PTree) (h : t.root = .nil) : shrink E t = failE := by
  unfold shrink
  split <;> first | rfl | (rw [if_pos h])

/-- what `shrinkAll` establishes.  Either the tree still has a top node and the record is what `Tree.shrinkLoop`
    computes (with the same fuel), or a shrink made the tree empty (root link `nil`): then the object level stops
    — or fails — where the functional loop goes on (see the finding in REPORT_B.md). -/
def ShrinkAllOK (f : Nat) (t : PTree) (y : Bool × T × List Nat) (n0 : Nat) (t' : PTree) (s' : PS) : Prop :=
  ∃ g' y', repLink s'.heap s'.store g' t'.root = some y' ∧ y'.1 = false ∧ t'.id = t.id ∧ t'.bf = t.bf ∧
    t'.size = t.size ∧ FpExt n0 y.2.2 y'.2.2 ∧
    ((∃ a', t'.root = .ptr a' ∧ rootDirty s'.heap (.ptr a') = true ∧
        treeRec t' y' true = Tree.shrinkLoop f (treeRec t y true) ∧ ¬ shrinkCond (treeRec t' y' true)) ∨
     (t'.root = .nil ∧ t'.height < t.height ∧ ¬ (t'.height > 0 ∧ t'.size ≤ t'.shrinkBelow) ∧
        ∃ n, treeRec t' y' true = Tree.shrinkLoop n (treeRec t y true)))

theorem treeRec_shrunk {t : PTree} {r : HLink} {y y1 : Bool × T × List Nat} (hyf : y.1 = false) (hy1f : y1.1 = false)
    (hrow : T.unmk y1.2.1 = T.shrink (T.unmk y.2.1)) :
    treeRec (shrunkTree t r) y1 true = Tree.shrinkStep (treeRec t y true) := by
  simp only [treeRec, shrunkTree, Tree.shrinkStep, hrow, hyf, hy1f]

theorem shrinkAll_refines (E : Env) : ∀ (f : Nat) (t : PTree) (s : PS) (g a : Nat) (y : Bool × T × List Nat),
    Good s → t.root = .ptr a → repLink s.heap s.store g (.ptr a) = some y → y.2.2.Nodup →
    rootDirty s.heap (.ptr a) = true →
    Spec (Grow t.id) (shrinkAll E f t) s (fun t' s' => ShrinkAllOK f t y s.heap.length t' s') := by
  intro f
  induction f with
  | zero => intro t s g a y _ _ _ _ _; exact Spec.oof
  | succ f ih =>
    intro t s g a y hg hroot hy hynd hdirty
    have hyrow : T.unmk y.2.1 = y.2.1 := unmk_of_ne_nil (repLink_row_ne_nil hy (by simp))
    have hyf : y.1 = false := repLink_flag_ptr hy
    unfold shrinkAll
    refine Spec.bind (topEntryless_spec (m := t.id) t s hroot hy) ?_
    rintro el s0 _ _ ⟨rfl, rfl⟩
    have hcondiff : (t.height > 0 ∧ (t.size ≤ t.shrinkBelow ∨ Tree.topEntryless y.2.1 = true)) ↔
        shrinkCond (treeRec t y true) := by
      unfold shrinkCond
      simp only [treeRec, hyrow]
    split
    · next hc =>
      have hcond : shrinkCond (treeRec t y true) := hcondiff.mp hc
      refine Spec.bind (shrink_spec E t s0 hg hroot hy hynd) ?_
      rintro t1 s1 _ hgr1 ⟨r, g1, y1, rfl, hh0, hy1, hy1f, hy1row, hfp1, hr⟩
      have hg1 := hgr1.good hg
      have hlen1 := hgr1.length
      have hrec1 : treeRec (shrunkTree t r) y1 true = Tree.shrinkStep (treeRec t y true) :=
        treeRec_shrunk hyf hy1f (by rw [hyrow]; exact hy1row)
      rcases hr with rfl | ⟨na, rfl, hd1⟩
      · -- the tree became empty
        cases f with
        | zero => exact Spec.oof
        | succ f' =>
          unfold shrinkAll
          refine Spec.bind (topEntryless_nil_spec (m := t.id) (shrunkTree t .nil) s1 rfl) ?_
          rintro el1 s1' _ _ ⟨rfl, rfl⟩
          split
          · rw [shrink_nil_fail E _ rfl]
            exact Spec.bind (Q1 := fun _ _ => True) Spec.fail (fun _ _ h => by cases h)
          · next hc1 =>
            refine Spec.pure ⟨g1, y1, hy1, hy1f, rfl, rfl, rfl, hfp1, Or.inr ⟨rfl, ?_, ?_, 1, ?_⟩⟩
            · show t.height - 1 < t.height
              omega
            · intro h
              exact hc1 ⟨h.1, Or.inl h.2⟩
            · rw [hrec1, shrinkLoop_succ, if_pos hcond]; rfl
      · -- the tree still has a top node
        refine (ih (shrunkTree t (.ptr na)) s1 g1 na y1 hg1 rfl hy1 hfp1.1 hd1).conseq ?_
        rintro t' s' _ hgr' ⟨g', y', h1, h2, h3, h4, h5, h6, h7⟩
        refine ⟨g', y', h1, h2, h3, h4, h5, hfp1.trans h6 hlen1, ?_⟩
        rcases h7 with ⟨a', e1, e2, e3, e4⟩ | ⟨e1, e2, e3, n, e4⟩
        · refine Or.inl ⟨a', e1, e2, ?_, e4⟩
          rw [e3, hrec1, shrinkLoop_succ, if_pos hcond]
        · refine Or.inr ⟨e1, ?_, e3, n + 1, ?_⟩
          · have : (shrunkTree t (.ptr na)).height = t.height - 1 := rfl
            omega
          · rw [e4, hrec1, shrinkLoop_succ, if_pos hcond]
    · next hc =>
      have hncond : ¬ shrinkCond (treeRec t y true) := fun h => hc (hcondiff.mpr h)
      refine Spec.pure ⟨g, y, by rw [hroot]; exact hy, hyf, rfl, rfl, rfl, FpExt.refl hynd,
        Or.inl ⟨a, hroot, hdirty, ?_, hncond⟩⟩
      rw [shrinkLoop_succ, if_neg hncond]

end Mast.Ptr
