import Mastverif.Lemmas.PtrSys
/-! What an error leaves behind: the fallible part of `Insert` / `Delete` only allocates, the
    part that writes cannot fail. -/
namespace Mast.Ptr
open Mast.Heap

/-- the operation never returns an error -/
def NoErr {α : Type} (x : M α) : Prop := ∀ s s', x s ≠ .err s'

theorem NoErr.bind {α β : Type} {x : M α} {f : α → M β} (hx : NoErr x) (hf : ∀ a, NoErr (f a)) : NoErr (x >>= f) := by
  intro s s' h
  change M.bind x f s = _ at h
  unfold M.bind at h
  cases hxs : x s with
  | ok a s1 => rw [hxs] at h; exact hf a s1 s' h
  | err s1 => exact hx s s1 hxs
  | panic => rw [hxs] at h; cases h
  | stuck => rw [hxs] at h; cases h
  | oof => rw [hxs] at h; cases h

theorem NoErr.pure {α : Type} (a : α) : NoErr (Pure.pure a : M α) := by intro s s' h; cases h
theorem NoErr.panic {α : Type} : NoErr (panicE : M α) := by intro s s' h; cases h
theorem NoErr.oof {α : Type} : NoErr (oofE : M α) := by intro s s' h; cases h

theorem read_noErr (a : Nat) : NoErr (read a) := by
  intro s s' h; unfold read at h; split at h <;> cases h
theorem alloc_noErr (nd : MNode) : NoErr (alloc nd) := by
  intro s s' h; unfold alloc at h; split at h <;> cases h
theorem write_noErr (m a : Nat) (nd : MNode) : NoErr (write m a nd) := by
  intro s s' h; unfold write at h; split at h <;> cases h

theorem toMut_noErr (m a : Nat) : NoErr (toMut m a) := by
  unfold toMut
  apply NoErr.bind (read_noErr a)
  intro nd
  split
  · exact NoErr.panic
  · split
    · exact NoErr.pure _
    · exact alloc_noErr _

theorem mutPath_noErr (m : Nat) : ∀ path, NoErr (mutPath m path) := by
  intro path
  induction path with
  | nil => unfold mutPath; exact NoErr.pure _
  | cons x rest ih =>
    obtain ⟨a, i⟩ := x
    unfold mutPath
    apply NoErr.bind (read_noErr a)
    intro nd
    apply NoErr.bind
    · split
      · exact NoErr.pure _
      · apply NoErr.bind (toMut_noErr m a); intro a'
        apply NoErr.bind (read_noErr a'); intro nd'
        apply NoErr.bind (write_noErr _ _ _); intro _
        exact NoErr.pure _
    · intro a'
      apply NoErr.bind ih
      intro rest'
      exact NoErr.pure _

theorem relink_noErr (m : Nat) : ∀ path, NoErr (relink m path) := by
  intro path
  induction path with
  | nil => unfold relink; exact NoErr.pure _
  | cons x rest ih =>
    obtain ⟨a, i⟩ := x
    cases rest with
    | nil => unfold relink; exact NoErr.pure _
    | cons y rest =>
      obtain ⟨b, j⟩ := y
      unfold relink
      apply NoErr.bind ih; intro _
      apply NoErr.bind (read_noErr b); intro cnd
      apply NoErr.bind (read_noErr a); intro nd
      split
      · exact NoErr.panic
      · exact write_noErr _ _ _

theorem savePath_noErr (m : Nat) (path : List (Nat × Nat)) : NoErr (savePath m path) := by
  unfold savePath
  apply NoErr.bind (mutPath_noErr m path); intro p
  apply NoErr.bind (relink_noErr m p); intro _
  split
  · exact NoErr.panic
  · exact NoErr.pure _

/-- the writing part of `Insert` cannot fail -/
theorem insertCommit_noErr (t : PTree) (p : InsPlan) (key val : Nat) : NoErr (insertCommit t p key val) := by
  unfold insertCommit
  apply NoErr.bind (toMut_noErr _ _); intro a'
  apply NoErr.bind (read_noErr a'); intro nd
  dsimp only
  split
  · apply NoErr.bind (write_noErr _ _ _); intro _; exact savePath_noErr _ _
  · apply NoErr.bind (write_noErr _ _ _); intro _; exact savePath_noErr _ _

/-- the writing part of `Delete` cannot fail -/
theorem deleteCommit_noErr (t : PTree) (p : DelPlan) : NoErr (deleteCommit t p) := by
  unfold deleteCommit
  apply NoErr.bind (toMut_noErr _ _); intro a'
  apply NoErr.bind (read_noErr a'); intro nd
  dsimp only
  apply NoErr.bind (write_noErr _ _ _); intro _
  exact savePath_noErr _ _

/-- **Insert**: an error either left the heap as it was up to new, unreachable objects and the tree
    record untouched — or it comes from the growth step that follows the (complete) insertion -/
theorem insert_err (E : Env) (fuel : Nat) (s : PS) (t : PTree) (key val : Nat)
    (hinv : Inv t.id s) (hroot : Vis s.heap t.id t.root)
    (he : (insert E fuel s t key val).2.2 = .err) :
    (AllocOnly s.heap (insert E fuel s t key val).1.heap ∧ (insert E fuel s t key val).2.1 = t) ∨
    (∃ p s1 root s2, insertPlan E t fuel key val s = .ok p s1 ∧ insertCommit t p key val s1 = .ok root s2) := by
  obtain ⟨hok, herr, _⟩ := (insertPlan_sat (lvl := 2) E t fuel key val).run hinv hroot
  unfold insert at he ⊢
  cases hp : insertPlan E t fuel key val s with
  | err s1 => left; exact ⟨(herr s1 hp).1.pre (Nat.le_refl _), rfl⟩
  | panic => rw [hp] at he; cases he
  | stuck => rw [hp] at he; cases he
  | oof => rw [hp] at he; cases he
  | ok p s1 =>
    rw [hp] at he
    dsimp only at he ⊢
    split at he
    · cases he
    · next hps =>
      rw [if_neg hps]
      cases hc : insertCommit t p key val s1 with
      | err s2 => exact absurd hc (insertCommit_noErr t p key val s1 s2)
      | panic => rw [hc] at he; cases he
      | stuck => rw [hc] at he; cases he
      | oof => rw [hc] at he; cases he
      | ok root s2 => right; exact ⟨p, s1, root, s2, rfl, hc⟩

/-- **Delete**: an error either left the heap as it was up to new, unreachable objects and the tree
    record untouched — or it comes from the height reduction that follows the (complete) removal -/
theorem delete_err (E : Env) (fuel : Nat) (s : PS) (t : PTree) (key val : Nat)
    (hinv : Inv t.id s) (hroot : Vis s.heap t.id t.root)
    (he : (delete E fuel s t key val).2.2 = .err) :
    (AllocOnly s.heap (delete E fuel s t key val).1.heap ∧ (delete E fuel s t key val).2.1 = t) ∨
    (∃ p s1 root s2, deletePlan E t fuel key val s = .ok p s1 ∧ deleteCommit t p s1 = .ok root s2) := by
  obtain ⟨hok, herr, _⟩ := (deletePlan_sat (lvl := 2) E t fuel key val).run hinv hroot
  unfold delete at he ⊢
  cases hp : deletePlan E t fuel key val s with
  | err s1 => left; exact ⟨(herr s1 hp).1.pre (Nat.le_refl _), rfl⟩
  | panic => rw [hp] at he; cases he
  | stuck => rw [hp] at he; cases he
  | oof => rw [hp] at he; cases he
  | ok p s1 =>
    rw [hp] at he
    dsimp only at he ⊢
    cases hc : deleteCommit t p s1 with
    | err s2 => exact absurd hc (deleteCommit_noErr t p s1 s2)
    | panic => rw [hc] at he; cases he
    | stuck => rw [hc] at he; cases he
    | oof => rw [hc] at he; cases he
    | ok root s2 => right; exact ⟨p, s1, root, s2, rfl, hc⟩

end Mast.Ptr
