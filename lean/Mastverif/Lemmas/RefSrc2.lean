import Mastverif.Lemmas.RefSrc
/-! `SourceOK` is preserved by `Insert` and `Delete` (every outcome). -/
namespace Mast.Ptr
open Mast.Heap

theorem mutPath_src (m : Nat) : ∀ q, SrcP (mutPath m q) := by
  intro q
  induction q with
  | nil => unfold mutPath; exact SrcP.pure _
  | cons x rest ih =>
    obtain ⟨a, i⟩ := x
    unfold mutPath
    refine SrcP.bind (read_src a) (fun nd => ?_)
    refine SrcP.bind ?_ (fun a' => SrcP.bind ih (fun _ => SrcP.pure _))
    split
    · exact SrcP.pure _
    · exact SrcP.bind (toMut_src m a) (fun a' => SrcP.bind (read_src a')
        (fun nd' => SrcP.bind (write_src _ _ _ rfl) (fun _ => SrcP.pure _)))

theorem relink_src (m : Nat) : ∀ q, SrcP (relink m q) := by
  intro q
  induction q with
  | nil => unfold relink; exact SrcP.pure _
  | cons x rest ih =>
    obtain ⟨a, i⟩ := x
    cases rest with
    | nil => unfold relink; exact SrcP.pure _
    | cons y rest' =>
      obtain ⟨b, j⟩ := y
      unfold relink
      refine SrcP.bind ih (fun _ => SrcP.bind (read_src b) (fun cnd => ?_))
      intro s
      refine Spec.bind (read_spec a s) ?_
      rintro nd s1 _ _ ⟨rfl, hnd⟩
      split
      · exact Spec.panic
      · refine write_src_at _ _ _ _ (fun old ho => Or.inr ?_)
        rw [hnd] at ho; injection ho with ho; subst ho; rfl

theorem savePath_src (m : Nat) (q : List (Nat × Nat)) : SrcP (savePath m q) := by
  unfold savePath
  refine SrcP.bind (mutPath_src m q) (fun p => SrcP.bind (relink_src m p) (fun _ => ?_))
  split
  · exact SrcP.panic
  · exact SrcP.pure _

theorem insertPlan_src (E : Env) (t : PTree) (fuel key val : Nat) : SrcP (insertPlan E t fuel key val) := by
  unfold insertPlan
  refine SrcP.bind (layerM_src E key) (fun lay => ?_)
  dsimp only
  refine SrcP.bind ?_ (fun a0 => ?_)
  · split
    · exact emptyNode_src _
    · exact load_src E _
  · refine SrcP.bind (findNode_src E _ _ _ _ _ _ _ _) (fun fd => ?_)
    split
    · exact SrcP.panic
    · refine SrcP.bind (read_src _) (fun nd => ?_)
      split
      · exact SrcP.pure _
      · split
        · exact SrcP.panic
        · exact SrcP.pure _
        · refine SrcP.bind (load_src E _) (fun c => SrcP.bind (split_src E _ _ _ _) (fun r => ?_))
          obtain ⟨lf, rt⟩ := r
          exact SrcP.pure _

theorem insertCommit_src (t : PTree) (p : InsPlan) (key val : Nat) : SrcP (insertCommit t p key val) := by
  unfold insertCommit
  refine SrcP.bind (toMut_src _ _) (fun a' => SrcP.bind (read_src a') (fun nd => ?_))
  dsimp only
  split
  · exact SrcP.bind (write_src _ _ _ rfl) (fun _ => savePath_src _ _)
  · exact SrcP.bind (write_src _ _ _ rfl) (fun _ => savePath_src _ _)

theorem extractLink_src (m : Nat) (nd : MNode) (frm to : Nat) : SrcP (extractLink m nd frm to) := by
  unfold extractLink
  exact linkNew_src _ rfl rfl

theorem growLoop_src (E : Env) (m height : Nat) (nd : MNode) :
    ∀ (es : List (Nat × Nat)) (i start : Nat) (ks vs : List Nat) (ls : List HLink),
      SrcP (growLoop E m height nd es i start ks vs ls) := by
  intro es
  induction es with
  | nil => intro i start ks vs ls; unfold growLoop; exact SrcP.pure _
  | cons e rest ih =>
    intro i start ks vs ls
    obtain ⟨k, v⟩ := e
    unfold growLoop
    refine SrcP.bind (layerM_src E k) (fun lay => ?_)
    split
    · exact ih _ _ _ _ _
    · exact SrcP.bind (extractLink_src _ _ _ _) (fun l => ih _ _ _ _ _)

theorem grow_src (E : Env) (t : PTree) : SrcP (grow E t) := by
  unfold grow
  refine SrcP.bind (load_src E _) (fun a => SrcP.bind (read_src a) (fun nd => ?_))
  refine SrcP.bind (growLoop_src E _ _ _ _ _ _ _ _ _) (fun r => ?_)
  obtain ⟨start, ks, vs, ls⟩ := r
  dsimp only
  refine SrcP.bind (extractLink_src _ _ _ _) (fun r => ?_)
  split
  · exact SrcP.fail
  · exact SrcP.bind (alloc_src _ rfl rfl) (fun na => SrcP.pure _)

theorem canGrowM_src (E : Env) (h : Nat) : ∀ ks, SrcP (canGrowM E h ks) := by
  intro ks
  induction ks with
  | nil => unfold canGrowM; exact SrcP.pure _
  | cons k ks ih =>
    unfold canGrowM
    refine SrcP.bind (layerM_src E k) (fun lay => ?_)
    split
    · exact SrcP.pure _
    · exact ih

theorem growAll_src (E : Env) : ∀ (f : Nat) (t : PTree), SrcP (growAll E f t) := by
  intro f
  induction f with
  | zero => intro t; exact SrcP.oof
  | succ f ih =>
    intro t
    unfold growAll
    split
    · exact SrcP.pure _
    · refine SrcP.bind (load_src E _) (fun a => SrcP.bind (read_src a) (fun nd =>
        SrcP.bind (canGrowM_src E _ _) (fun cg => ?_)))
      split
      · exact SrcP.bind (grow_src E t) (fun t' => ih t')
      · exact SrcP.pure _

/-- **Insert** keeps the `source` discipline, whatever the outcome -/
theorem insert_src (E : Env) (fuel : Nat) (s s' : PS) (t t' : PTree) (k v : Nat) (o : Outcome)
    (hs : SourceOK s) (h : insert E fuel s t k v = (s', t', o)) : SourceOK s' := by
  unfold insert at h
  cases hpl : insertPlan E t fuel k v s with
  | err s1 => rw [hpl] at h; simp only [Prod.mk.injEq] at h; rw [← h.1]; exact (insertPlan_src E t fuel k v).err hpl hs
  | panic => rw [hpl] at h; simp only [Prod.mk.injEq] at h; rw [← h.1]; exact hs
  | stuck => rw [hpl] at h; simp only [Prod.mk.injEq] at h; rw [← h.1]; exact hs
  | oof => rw [hpl] at h; simp only [Prod.mk.injEq] at h; rw [← h.1]; exact hs
  | ok p s1 =>
    rw [hpl] at h
    have hs1 := (insertPlan_src E t fuel k v).ok hpl hs
    simp only at h
    split at h
    · simp only [Prod.mk.injEq] at h; rw [← h.1]; exact hs1
    · cases hcm : insertCommit t p k v s1 with
      | err s2 =>
        rw [hcm] at h; simp only [Prod.mk.injEq] at h; rw [← h.1]
        exact (insertCommit_src t p k v).err hcm hs1
      | panic => rw [hcm] at h; simp only [Prod.mk.injEq] at h; rw [← h.1]; exact hs1
      | stuck => rw [hcm] at h; simp only [Prod.mk.injEq] at h; rw [← h.1]; exact hs1
      | oof => rw [hcm] at h; simp only [Prod.mk.injEq] at h; rw [← h.1]; exact hs1
      | ok root s2 =>
        rw [hcm] at h
        have hs2 := (insertCommit_src t p k v).ok hcm hs1
        simp only at h
        split at h
        · simp only [Prod.mk.injEq] at h; rw [← h.1]; exact hs2
        · unfold afterCommit at h
          cases hgr : growAll E fuel { t with root := root } s2 with
          | ok t2 s3 =>
            rw [hgr] at h; simp only [Prod.mk.injEq] at h; rw [← h.1]
            exact (growAll_src E fuel _).ok hgr hs2
          | err s3 =>
            rw [hgr] at h; simp only [Prod.mk.injEq] at h; rw [← h.1]
            exact (growAll_src E fuel _).err hgr hs2
          | panic => rw [hgr] at h; simp only [Prod.mk.injEq] at h; rw [← h.1]; exact hs2
          | stuck => rw [hgr] at h; simp only [Prod.mk.injEq] at h; rw [← h.1]; exact hs2
          | oof => rw [hgr] at h; simp only [Prod.mk.injEq] at h; rw [← h.1]; exact hs2

/-! ## Delete -/

theorem mergeNodes_src (E : Env) (m : Nat) : ∀ (f : Nat) (l r : HLink), SrcP (mergeNodes E m f l r) := by
  intro f
  induction f with
  | zero => intro l r; exact SrcP.oof
  | succ f ih =>
    intro l r
    unfold mergeNodes
    split
    · exact SrcP.pure _
    · split
      · exact SrcP.pure _
      · refine SrcP.bind (load_src E l) (fun la => SrcP.bind (load_src E r) (fun ra =>
          SrcP.bind (read_src la) (fun ln => SrcP.bind (read_src ra) (fun rn => ?_))))
        split
        · refine SrcP.bind (ih _ _) (fun merged => ?_)
          dsimp only
          split
          · exact SrcP.fail
          · exact SrcP.bind (alloc_src _ rfl rfl) (fun a => SrcP.pure _)
        · exact SrcP.panic

theorem deletePlan_src (E : Env) (t : PTree) (fuel key val : Nat) : SrcP (deletePlan E t fuel key val) := by
  unfold deletePlan
  split
  · exact SrcP.fail
  · refine SrcP.bind (layerM_src E key) (fun lay => ?_)
    dsimp only
    refine SrcP.bind (load_src E _) (fun a0 => SrcP.bind (findNode_src E _ _ _ _ _ _ _ _) (fun fd =>
      SrcP.bind (read_src _) (fun nd => ?_)))
    split
    · exact SrcP.fail
    · split
      · exact SrcP.fail
      · split
        · exact SrcP.fail
        · split
          · exact SrcP.bind (mergeNodes_src E _ _ _ _) (fun mg => SrcP.pure _)
          · exact SrcP.panic

theorem deleteCommit_src (t : PTree) (p : DelPlan) : SrcP (deleteCommit t p) := by
  unfold deleteCommit
  refine SrcP.bind (toMut_src _ _) (fun a' => SrcP.bind (read_src a') (fun nd => ?_))
  dsimp only
  exact SrcP.bind (write_src _ _ _ rfl) (fun _ => savePath_src _ _)

theorem shrinkLoop_src (E : Env) : ∀ (ls : List HLink) (es : List (Nat × Nat)) (acc : MNode),
    acc.shared = false → acc.source = none →
    ∀ s, Spec SrcR (shrinkLoop E ls es acc) s (fun r _ => r.shared = false ∧ r.source = none) := by
  intro ls
  induction ls with
  | nil => intro es acc h1 h2 s; unfold shrinkLoop; exact Spec.pure ⟨h1, h2⟩
  | cons l ls ih =>
    intro es acc h1 h2 s
    unfold shrinkLoop
    refine Spec.bind (Q1 := fun r _ => r.shared = false ∧ r.source = none) ?_ ?_
    · split
      · exact Spec.pure ⟨h1, h2⟩
      · refine Spec.bind (load_src E l s) (fun c s1 _ _ _ => Spec.bind (read_src c s1) (fun cn s2 _ _ _ => ?_))
        dsimp only
        split
        · exact Spec.panic
        · exact Spec.pure ⟨h1, h2⟩
    · rintro acc1 s1 _ _ ⟨h3, h4⟩
      split
      · exact ih _ _ h3 h4 s1
      · refine ih _ _ ?_ ?_ s1
        · exact h3
        · exact h4

theorem shrink_src (E : Env) (t : PTree) : SrcP (shrink E t) := by
  unfold shrink
  split
  · exact SrcP.fail
  · split
    · exact SrcP.fail
    · refine SrcP.bind (load_src E _) (fun a => SrcP.bind (read_src a) (fun nd => ?_))
      intro s
      refine Spec.bind (shrinkLoop_src E _ _ _ rfl rfl s) ?_
      rintro top s1 _ _ ⟨h1, h2⟩
      split
      · exact Spec.panic
      · exact Spec.bind (linkNew_src top h1 h2 s1) (fun r s2 _ _ _ => Spec.pure trivial)

theorem topEntryless_src (t : PTree) : SrcP (topEntryless t) := by
  unfold topEntryless
  split
  · exact SrcP.bind (read_src _) (fun nd => SrcP.pure _)
  · exact SrcP.pure _

theorem shrinkAll_src (E : Env) : ∀ (f : Nat) (t : PTree), SrcP (shrinkAll E f t) := by
  intro f
  induction f with
  | zero => intro t; exact SrcP.oof
  | succ f ih =>
    intro t
    unfold shrinkAll
    refine SrcP.bind (topEntryless_src t) (fun el => ?_)
    split
    · exact SrcP.bind (shrink_src E t) (fun t' => ih t')
    · exact SrcP.pure _

/-- **Delete** keeps the `source` discipline, whatever the outcome -/
theorem delete_src (E : Env) (fuel : Nat) (s s' : PS) (t t' : PTree) (k v : Nat) (o : Outcome)
    (hs : SourceOK s) (h : delete E fuel s t k v = (s', t', o)) : SourceOK s' := by
  unfold delete at h
  cases hpl : deletePlan E t fuel k v s with
  | err s1 => rw [hpl] at h; simp only [Prod.mk.injEq] at h; rw [← h.1]; exact (deletePlan_src E t fuel k v).err hpl hs
  | panic => rw [hpl] at h; simp only [Prod.mk.injEq] at h; rw [← h.1]; exact hs
  | stuck => rw [hpl] at h; simp only [Prod.mk.injEq] at h; rw [← h.1]; exact hs
  | oof => rw [hpl] at h; simp only [Prod.mk.injEq] at h; rw [← h.1]; exact hs
  | ok p s1 =>
    rw [hpl] at h
    have hs1 := (deletePlan_src E t fuel k v).ok hpl hs
    simp only at h
    cases hcm : deleteCommit t p s1 with
    | err s2 =>
      rw [hcm] at h; simp only [Prod.mk.injEq] at h; rw [← h.1]
      exact (deleteCommit_src t p).err hcm hs1
    | panic => rw [hcm] at h; simp only [Prod.mk.injEq] at h; rw [← h.1]; exact hs1
    | stuck => rw [hcm] at h; simp only [Prod.mk.injEq] at h; rw [← h.1]; exact hs1
    | oof => rw [hcm] at h; simp only [Prod.mk.injEq] at h; rw [← h.1]; exact hs1
    | ok root s2 =>
      rw [hcm] at h
      have hs2 := (deleteCommit_src t p).ok hcm hs1
      simp only at h
      unfold afterCommit at h
      cases hgr : shrinkAll E fuel { t with root := root, size := t.size - 1 } s2 with
      | ok t2 s3 =>
        rw [hgr] at h; simp only [Prod.mk.injEq] at h; rw [← h.1]
        exact (shrinkAll_src E fuel _).ok hgr hs2
      | err s3 =>
        rw [hgr] at h; simp only [Prod.mk.injEq] at h; rw [← h.1]
        exact (shrinkAll_src E fuel _).err hgr hs2
      | panic => rw [hgr] at h; simp only [Prod.mk.injEq] at h; rw [← h.1]; exact hs2
      | stuck => rw [hgr] at h; simp only [Prod.mk.injEq] at h; rw [← h.1]; exact hs2
      | oof => rw [hgr] at h; simp only [Prod.mk.injEq] at h; rw [← h.1]; exact hs2

end Mast.Ptr
