import Mastverif.Lemmas.RefRowsGrow
/-! Row lemmas for Delete: `mkRow` against `T.mergeRow`, `T.joinAt`, `T.del`; the fuel of `Tree.shrinkLoop`. -/
namespace Mast.Ptr
open Mast.Heap

/-- the link that `mergeNodes` returns for two neighbouring links, as (flag, row) -/
def mergeLink (a b : Bool × T) : Bool × T :=
  if a.2.isNil then b else if b.2.isNil then a else (false, T.mergeRow a.2 b.2)

theorem isNil_eq_true {t : T} : t.isNil = true ↔ t = T.nil := by cases t <;> simp [T.isNil]

theorem mergeLink_nil_left (b : Bool × T) (p : Bool) : mergeLink (p, T.nil) b = b := by
  simp [mergeLink, T.isNil]

theorem mergeLink_nil_right {a : Bool × T} (p : Bool) (ha : a.2 ≠ T.nil) : mergeLink a (p, T.nil) = a := by
  unfold mergeLink
  have : a.2.isNil = false := by
    cases h : a.2.isNil with
    | false => rfl
    | true => exact absurd (isNil_eq_true.mp h) ha
  simp [T.isNil]

theorem mergeLink_both {a b : Bool × T} (ha : a.2 ≠ T.nil) (hb : b.2 ≠ T.nil) :
    mergeLink a b = (false, T.mergeRow a.2 b.2) := by
  unfold mergeLink
  have h1 : a.2.isNil = false := by
    cases h : a.2.isNil with
    | false => rfl
    | true => exact absurd (isNil_eq_true.mp h) ha
  have h2 : b.2.isNil = false := by
    cases h : b.2.isNil with
    | false => rfl
    | true => exact absurd (isNil_eq_true.mp h) hb
  simp [h1, h2]

/-- the last link of the left row meets the first link of the right row -/
theorem mergeRow_last_mkRow (a b : Bool × T) (rrest : List (Bool × T)) (rk rv : List Nat)
    (hr : rrest.length = rk.length) (hrv : rv.length = rk.length) :
    T.mergeRow (T.last a.1 a.2) (mkRow (b :: rrest) rk rv) = mkRow (mergeLink a b :: rrest) rk rv := by
  obtain ⟨p, c⟩ := a
  obtain ⟨p2, c2⟩ := b
  match rrest, rk, rv, hr, hrv with
  | [], [], [], _, _ =>
    rw [mkRow_single, mkRow_single]
    simp only [T.mergeRow, mergeLink]
    cases hc : c.isNil <;> cases hc2 : c2.isNil <;> simp
  | y :: rrest, k :: rk, v :: rv, _, _ =>
    rw [mkRow_cons, mkRow_cons' _ _ _ _ _ _ _ (by simp)]
    simp only [T.mergeRow, mergeLink]
    cases hc : c.isNil <;> cases hc2 : c2.isNil <;> simp

theorem mergeRow_mkRow : ∀ (lk : List Nat) (linit : List (Bool × T)) (lv : List Nat) (a b : Bool × T)
    (rrest : List (Bool × T)) (rk rv : List Nat),
    linit.length = lk.length → lv.length = lk.length → rrest.length = rk.length → rv.length = rk.length →
    T.mergeRow (mkRow (linit ++ [a]) lk lv) (mkRow (b :: rrest) rk rv) =
      mkRow (linit ++ mergeLink a b :: rrest) (lk ++ rk) (lv ++ rv) := by
  intro lk
  induction lk with
  | nil =>
    intro linit lv a b rrest rk rv hl hv hr hrv
    match linit, lv, hl, hv with
    | [], [], _, _ =>
      simp only [List.nil_append]
      rw [mkRow_single]
      exact mergeRow_last_mkRow a b rrest rk rv hr hrv
  | cons k lk ih =>
    intro linit lv a b rrest rk rv hl hv hr hrv
    match linit, lv, hl, hv with
    | (p, c) :: linit, v :: lv, hl, hv =>
      simp only [List.cons_append]
      rw [mkRow_cons' _ _ _ _ _ _ _ (by simp), mkRow_cons' _ _ _ _ _ _ _ (by simp)]
      simp only [T.mergeRow]
      rw [ih linit lv a b rrest rk rv (by simpa using hl) (by simpa using hv) hr hrv]

/-- `deleteEntry`: the link left of the removed entry meets the first link of the rest of the row -/
theorem joinAt_mkRow (a b : Bool × T) (rest : List (Bool × T)) (ks vs : List Nat)
    (hl : rest.length = ks.length) (hv : vs.length = ks.length) :
    T.joinAt a.1 a.2 (mkRow (b :: rest) ks vs) = mkRow (mergeLink a b :: rest) ks vs := by
  obtain ⟨p, c⟩ := a
  obtain ⟨p2, c2⟩ := b
  match rest, ks, vs, hl, hv with
  | [], [], [], _, _ =>
    rw [mkRow_single, mkRow_single]
    simp only [T.joinAt, mergeLink]
    cases hc : c.isNil <;> cases hc2 : c2.isNil <;> simp
  | y :: rest, k :: ks, v :: vs, _, _ =>
    rw [mkRow_cons, mkRow_cons' _ _ _ _ _ _ _ (by simp)]
    simp only [T.joinAt, mergeLink]
    cases hc : c.isNil <;> cases hc2 : c2.isNil <;> simp

/-- the (flag, row) at index `i` (absent: the nil link) -/
def linkAt (cs : List (Bool × T)) (i : Nat) : Bool × T := cs[i]?.getD (false, T.nil)

theorem del_mkRow_zero : ∀ (ks : List Nat) (cs : List (Bool × T)) (vs : List Nat) (k : Nat),
    cs.length = ks.length + 1 → vs.length = ks.length →
    T.del k 0 (mkRow cs ks vs) =
      if ks[keyIdx ks k]? = some k then
        some (mkRow (cs.take (keyIdx ks k) ++ mergeLink (linkAt cs (keyIdx ks k)) (linkAt cs (keyIdx ks k + 1)) ::
                cs.drop (keyIdx ks k + 2)) (ks.eraseIdx (keyIdx ks k)) (vs.eraseIdx (keyIdx ks k)))
      else none := by
  intro ks
  induction ks with
  | nil =>
    intro cs vs k hl hv
    match cs, hl with
    | [(p, c)], _ => rw [mkRow_single]; simp [T.del, keyIdx]
  | cons k' ks ih =>
    intro cs vs k hl hv
    match cs, vs, hl, hv with
    | (p, c) :: y :: ls, v :: vs, hl, hv =>
      rw [mkRow_cons]
      simp only [T.del, keyIdx]
      by_cases h1 : k' < k
      · simp only [h1, if_true]
        rw [ih (y :: ls) vs k (by simpa using hl) (by simpa using hv)]
        simp only [List.getElem?_cons_succ]
        split
        · simp only [Option.map_some, List.take_succ_cons, List.drop_succ_cons, List.cons_append,
            List.eraseIdx_cons_succ, linkAt, List.getElem?_cons_succ]
          rw [mkRow_cons' _ _ _ _ _ _ _ (by simp)]
        · rfl
      · simp only [h1, if_false]
        by_cases h2 : k' = k
        · subst h2
          simp only [if_true, List.getElem?_cons_zero, List.take_zero, List.nil_append, List.eraseIdx_cons_zero,
            linkAt, List.getElem?_cons_succ, Option.getD_some, List.drop_succ_cons, List.drop_zero]
          obtain ⟨p2, c2⟩ := y
          exact congrArg some (joinAt_mkRow (p, c) (p2, c2) ls ks vs (by simpa using hl) (by simpa using hv))
        · simp [h2]

theorem del_mkRow_succ : ∀ (ks : List Nat) (cs : List (Bool × T)) (vs : List Nat) (k s : Nat),
    cs.length = ks.length + 1 → vs.length = ks.length →
    T.del k (s + 1) (mkRow cs ks vs) =
      if ks[keyIdx ks k]? = some k then none
      else (T.del k s (childAt cs (keyIdx ks k))).map
        (fun c' => mkRow (cs.take (keyIdx ks k) ++ (false, T.mk c') :: cs.drop (keyIdx ks k + 1)) ks vs) := by
  intro ks
  induction ks with
  | nil =>
    intro cs vs k s hl hv
    match cs, hl with
    | [(p, c)], _ =>
      simp only [mkRow_single, keyIdx, T.del, childAt, List.take_zero, List.nil_append, List.drop_nil,
        List.getElem?_cons_zero, Option.map_some, Option.getD_some, List.drop_succ_cons, List.getElem?_nil]
      rw [if_neg (by simp)]
  | cons k' ks ih =>
    intro cs vs k s hl hv
    match cs, vs, hl, hv with
    | (p, c) :: y :: ls, v' :: vs, hl, hv =>
      rw [mkRow_cons]
      simp only [T.del, keyIdx]
      by_cases h1 : k' < k
      · simp only [h1, if_true]
        rw [ih (y :: ls) vs k s (by simpa using hl) (by simpa using hv)]
        have hc : childAt ((p, c) :: y :: ls) (keyIdx ks k + 1) = childAt (y :: ls) (keyIdx ks k) := by
          simp [childAt]
        rw [hc]
        simp only [List.getElem?_cons_succ]
        split
        · rfl
        · simp only [Option.map_map, List.take_succ_cons, List.drop_succ_cons, List.cons_append]
          congr 1
          funext c'
          simp only [Function.comp]
          rw [mkRow_cons' _ _ _ _ _ _ _ (by simp)]
      · simp only [h1, if_false]
        by_cases h2 : k' = k
        · subst h2
          simp only [if_true, List.getElem?_cons_zero]
        · simp only [h2, if_false, List.getElem?_cons_zero, Option.some.injEq]
          simp only [childAt, List.take_zero, List.nil_append, List.getElem?_cons_zero, Option.map_some,
            Option.getD_some, List.drop_succ_cons, List.drop_zero, mkRow_cons]

/-- `(l.eraseIdx i).set i x` is `l` with the two elements at `i`, `i+1` replaced by `x` -/
theorem eraseIdx_set {α : Type} (l : List α) (i : Nat) (x : α) (h : i + 1 < l.length) :
    (l.eraseIdx i).set i x = l.take i ++ x :: l.drop (i + 2) := by
  induction l generalizing i with
  | nil => simp at h
  | cons y l ih =>
    cases i with
    | zero =>
      match l, h with
      | z :: l, _ => simp
    | succ i =>
      simp only [List.eraseIdx_cons_succ, List.set_cons_succ, List.take_succ_cons, List.drop_succ_cons,
        List.cons_append]
      rw [ih i (by simpa using h)]

/-! ## the fuel of `Tree.shrinkLoop` -/

def shrinkCond (m : Tree) : Prop := m.height > 0 ∧ (m.size ≤ m.shrinkBelow ∨ Tree.topEntryless m.root = true)

instance (m : Tree) : Decidable (shrinkCond m) := by unfold shrinkCond; infer_instance

theorem shrinkLoop_succ (f : Nat) (m : Tree) :
    Tree.shrinkLoop (f + 1) m = if shrinkCond m then Tree.shrinkLoop f (Tree.shrinkStep m) else m := rfl

theorem shrinkLoop_of_not_cond {m : Tree} (h : ¬ shrinkCond m) : ∀ f, Tree.shrinkLoop f m = m := by
  intro f
  cases f with
  | zero => rfl
  | succ f => rw [shrinkLoop_succ, if_neg h]

/-- once the loop has stopped by its condition, more fuel changes nothing -/
theorem shrinkLoop_stable : ∀ (f : Nat) (m : Tree), ¬ shrinkCond (Tree.shrinkLoop f m) →
    ∀ f', f ≤ f' → Tree.shrinkLoop f' m = Tree.shrinkLoop f m := by
  intro f
  induction f with
  | zero =>
    intro m hc f' _
    exact shrinkLoop_of_not_cond hc f'
  | succ f ih =>
    intro m hc f' hf
    cases f' with
    | zero => omega
    | succ f' =>
      rw [shrinkLoop_succ] at hc
      rw [shrinkLoop_succ, shrinkLoop_succ]
      by_cases hm : shrinkCond m
      · rw [if_pos hm] at hc
        rw [if_pos hm, if_pos hm]
        exact ih _ hc f' (by omega)
      · rw [if_neg hm, if_neg hm]

/-- every step lowers the height: `height + 1` iterations always reach the end -/
theorem shrinkLoop_conv : ∀ (f : Nat) (m : Tree), m.height < f → ¬ shrinkCond (Tree.shrinkLoop f m) := by
  intro f
  induction f with
  | zero => intro m h; omega
  | succ f ih =>
    intro m h
    rw [shrinkLoop_succ]
    by_cases hm : shrinkCond m
    · rw [if_pos hm]
      apply ih
      have := hm.1
      show m.height - 1 < f
      omega
    · rw [if_neg hm]; exact hm

/-- the fuel `height + 1` that `Tree.delete` uses is enough -/
theorem shrinkLoop_fuel (f : Nat) (m : Tree) (hc : ¬ shrinkCond (Tree.shrinkLoop f m)) :
    Tree.shrinkLoop (m.height + 1) m = Tree.shrinkLoop f m := by
  have hconv := shrinkLoop_conv (m.height + 1) m (Nat.lt_succ_self _)
  have a := shrinkLoop_stable f m hc (max f (m.height + 1)) (Nat.le_max_left _ _)
  have b := shrinkLoop_stable (m.height + 1) m hconv (max f (m.height + 1)) (Nat.le_max_right _ _)
  rw [← b, a]

theorem shrinkLoop_add : ∀ (b a : Nat) (m : Tree),
    Tree.shrinkLoop (a + b) m = Tree.shrinkLoop a (Tree.shrinkLoop b m) := by
  intro b
  induction b with
  | zero => intro a m; rfl
  | succ b ih =>
    intro a m
    rw [← Nat.add_assoc, shrinkLoop_succ, shrinkLoop_succ]
    by_cases hm : shrinkCond m
    · rw [if_pos hm, if_pos hm]; exact ih a _
    · rw [if_neg hm, if_neg hm, shrinkLoop_of_not_cond hm]

end Mast.Ptr
