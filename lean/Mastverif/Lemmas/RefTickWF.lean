import Mastverif.Lemmas.RefTickIns
import Mastverif.Lemmas.RefTickDel
import Mastverif.Lemmas.RefGet
import Mastverif.Lemmas.TreeInv
/-!
# The depth bound follows from well-formedness

A tree that denotes (`repTree s g t = some A`) a functional tree whose root row is well-formed at level
`A.height` (`T.WF`, part of `Tree.Inv`) is at most `height + 1` levels deep: `DepthLe … (t.height + 1) t.root`.
So the bounds of `RefTickIns` / `RefTickDel` hold for every tree of a system that satisfies the refinement
invariant and `Tree.Inv`.
-/
namespace Mast.Ptr
open Mast.Heap

theorem wf_mkRow_child (layer : Nat → Nat) (d : Nat) : ∀ (ks : List Nat) (cs : List (Bool × T)) (vs : List Nat),
    cs.length = ks.length + 1 → vs.length = ks.length → T.WF layer d (mkRow cs ks vs) →
    ∀ c ∈ cs, T.ChildOK layer d c.2 := by
  intro ks
  induction ks with
  | nil =>
    intro cs vs hl hv hw c hc
    match cs, hl with
    | [(p, c0)], _ =>
      rw [mkRow_single] at hw
      simp only [List.mem_singleton] at hc
      subst hc
      exact (T.WF_last_iff layer).mp hw
  | cons k ks ih =>
    intro cs vs hl hv hw c hc
    match cs, vs, hl, hv with
    | (p, c0) :: x :: ls, v :: vs, hl, hv =>
      rw [mkRow_cons] at hw
      obtain ⟨_, hwr, hc0⟩ := (T.WF_cons_iff layer).mp hw
      rcases List.mem_cons.mp hc with rfl | hc'
      · exact hc0
      · exact ih (x :: ls) vs (by simpa using hl) (by simpa using hv) hwr c hc'

theorem depthLe_of_wf (layer : Nat → Nat) {h : Heap} {st : List SNode} : ∀ (g : Nat) (l : HLink)
    (x : Bool × T × List Nat) (d : Nat), repLink h st g l = some x → (x.2.1 = T.nil ∨ T.WF layer d x.2.1) →
    DepthLe h st (d + 1) l := by
  intro g
  induction g with
  | zero =>
    intro l x d hx _
    cases l with
    | nil => simp
    | ptr a => cases hx
    | ref n => cases hx
  | succ g ih =>
    intro l x d hx hw
    -- the common step: a child link whose row satisfies the child clause is at most `d` deep
    have child : ∀ (l' : HLink) (c : Bool × T × List Nat), repLink h st g l' = some c →
        T.ChildOK layer d c.2.1 → DepthLe h st d l' := by
      intro l' c hc hok
      rcases hok with h0 | ⟨d', rfl, _, hw', _⟩
      · by_cases hl' : l' = .nil
        · subst hl'; simp
        · exact absurd h0 (repLink_row_ne_nil hc hl')
      · exact ih l' c d' hc (Or.inr hw')
    cases l with
    | nil => simp
    | ptr a =>
      obtain ⟨g', nd, cs, hg, hnd, hv, h1, rfl⟩ := repLink_ptr_some.mp hx
      injection hg with hg; subst hg
      have hcl : (cs.map pr).length = nd.keys.length + 1 := by
        rw [List.length_map, seqO_map_length h1]; exact hv.1
      rw [nodeRep_row] at hw
      have hw' : T.WF layer d (mkRow (cs.map pr) nd.keys nd.vals) := by
        rcases hw with h0 | hw
        · exact absurd h0 (mkRow_ne_nil (by intro h; rw [h] at hcl; simp at hcl))
        · exact hw
      refine depthLe_ptr_succ.mpr ⟨nd, hnd, ?_⟩
      intro l' hl'
      obtain ⟨c, hc1, hc2⟩ := seqO_map_mem h1 hl'
      exact child l' c hc1 (wf_mkRow_child layer d nd.keys (cs.map pr) nd.vals hcl hv.2 hw' (pr c)
        (List.mem_map_of_mem hc2))
    | ref n =>
      obtain ⟨g', sn, cs, hg, hsn, hv, h1, rfl⟩ := repLink_ref_some.mp hx
      injection hg with hg; subst hg
      have hcl : (cs.map pr).length = sn.keys.length + 1 := by
        rw [List.length_map, seqO_map_length h1]; exact hv.1
      rw [nodeRep_row] at hw
      have hw' : T.WF layer d (mkRow (cs.map pr) sn.keys sn.vals) := by
        rcases hw with h0 | hw
        · exact absurd h0 (mkRow_ne_nil (by intro h; rw [h] at hcl; simp at hcl))
        · exact hw
      refine depthLe_ref_succ.mpr ?_
      intro sn' hsn' l' hl'
      rw [hsn] at hsn'; injection hsn' with hsn'; subst hsn'
      obtain ⟨c, hc1, hc2⟩ := seqO_map_mem h1 hl'
      exact child l' c hc1 (wf_mkRow_child layer d sn.keys (cs.map pr) sn.vals hcl hv.2 hw' (pr c)
        (List.mem_map_of_mem hc2))

/-- a tree that denotes a well-formed functional tree is at most `height + 1` levels deep -/
theorem depthLe_of_repTree (layer : Nat → Nat) {s : PS} {g : Nat} {t : PTree} {A : Tree}
    (hA : repTree s g t = some A) (hw : T.WF layer A.height A.root) :
    DepthLe s.heap s.store (t.height + 1) t.root := by
  unfold repTree at hA
  cases hx : repLink s.heap s.store g t.root with
  | none => rw [hx] at hA; cases hA
  | some x =>
    obtain ⟨p, r, fp⟩ := x
    rw [hx] at hA
    simp only at hA
    split at hA
    · injection hA with hA
      subst hA
      simp only at hw
      refine depthLe_of_wf layer g t.root _ t.height hx ?_
      by_cases hr : r = T.nil
      · exact Or.inl hr
      · right
        have : T.unmk r = r := unmk_of_ne_nil hr
        rw [this] at hw
        exact hw
    · cases hA

/-! ## the bounds in terms of the refinement invariant -/

/-- **C16, insert**, for a tree that denotes a functional tree with `Tree.Inv` -/
theorem insert_tick_inv (E : Env) (fuel g : Nat) (s s' : PS) (t t' : PTree) (key val : Nat) (o : Outcome) (A : Tree)
    (hg : Good s) (hA : repTree s g t = some A) (hi : Tree.Inv E.layer A)
    (h : insert E fuel s t key val = (s', t', o)) :
    s'.tick ≤ s.tick + t.height + 1 :=
  insert_tick E fuel s s' t t' key val o hg.cacheS (depthLe_of_repTree E.layer hA hi.wf) h

/-- **C16, delete**, for a tree that denotes a functional tree with `Tree.Inv` -/
theorem delete_tick_inv (E : Env) (fuel g : Nat) (s s' : PS) (t t' : PTree) (key val : Nat) (A : Tree)
    (hg : Good s) (hA : repTree s g t = some A) (hi : Tree.Inv E.layer A)
    (h : delete E fuel s t key val = (s', t', .ok)) (hh : t'.height = t.height) :
    s'.tick ≤ s.tick + 2 * (t.height + 1) :=
  delete_tick' E fuel s s' t t' key val hg.cacheS (depthLe_of_repTree E.layer hA hi.wf) h hh

end Mast.Ptr
