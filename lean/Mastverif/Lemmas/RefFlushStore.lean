import Mastverif.Lemmas.RefFlushRows
/-!
`node.store` (`storeNode` / `storeLinks` / `intern`): the heap is not touched, the store grows, the returned name
denotes the persisted row of the node, and every commit of the returned list is justified (`CmOK`).
-/
namespace Mast.Ptr
open Mast.Heap

/-- a step that only extends the store -/
structure StoreR (s s' : PS) : Prop where
  heap : s'.heap = s.heap
  cache : s'.cache = s.cache
  useCache : s'.useCache = s.useCache
  store : ∃ ext, s'.store = s.store ++ ext
  flat : StoreFlat s.store → StoreFlat s'.store
  den : StoreFlat s.store → StoreDen s.store → StoreDen s'.store

instance : PreR StoreR where
  refl := fun s => ⟨rfl, rfl, rfl, ⟨[], by simp⟩, fun h => h, fun _ h => h⟩
  trans := fun {a b c} x y => ⟨by rw [y.heap, x.heap], by rw [y.cache, x.cache], by rw [y.useCache, x.useCache], by
    obtain ⟨e1, h1⟩ := x.store
    obtain ⟨e2, h2⟩ := y.store
    exact ⟨e1 ++ e2, by rw [h2, h1, List.append_assoc]⟩, fun h => y.flat (x.flat h), fun h1 h2 => y.den (x.flat h1) (x.den h1 h2)⟩

theorem repLink_store_append {h : Heap} {st : List SNode} (ext : List SNode) {f : Nat} {l : HLink}
    {x : Bool × T × List Nat} (hx : repLink h st f l = some x) : repLink h (st ++ ext) f l = some x :=
  repLink_frame (h := h) (h' := h) (st := st) ext (fun _ => False) (fun _ _ hnd _ => hnd) (fun _ _ _ hw => hw.elim)
    f l x hx (fun _ _ hw => hw)

theorem StoreR.rep {s s' : PS} (r : StoreR s s') {f : Nat} {l : HLink} {x : Bool × T × List Nat}
    (hx : repLink s.heap s.store f l = some x) : repLink s'.heap s'.store f l = some x := by
  obtain ⟨ext, he⟩ := r.store
  rw [r.heap, he]; exact repLink_store_append ext hx

theorem StoreR.good {s s' : PS} (r : StoreR s s') (hg : Good s) : Good s' := by
  obtain ⟨ext, he⟩ := r.store
  exact hg.step (fun a nd h _ => by rw [r.heap]; exact h) (by rw [r.heap]; exact hg.sflat) (by rw [r.heap]; exact hg.du)
    ext he (r.flat hg.flat) r.cache

theorem StoreR.source {s s' : PS} (r : StoreR s s') (h : SourceOK s) : SourceOK s' := by
  obtain ⟨ext, he⟩ := r.store
  refine ⟨fun a nd hnd => h.unsh a nd (by rw [← r.heap]; exact hnd), fun a nd n hnd hs hso => ?_⟩
  obtain ⟨sn, h1, h2⟩ := h.sh a nd n (by rw [← r.heap]; exact hnd) hs hso
  exact ⟨sn, by rw [he]; exact storeAt_append h1 ext, h2⟩

/-! ## intern -/

theorem getElem?_append_one {α : Type} {l : List α} {x y : α} {i : Nat} (h : (l ++ [x])[i]? = some y) :
    l[i]? = some y ∨ (i = l.length ∧ y = x) := by
  by_cases hlt : i < l.length
  · rw [List.getElem?_append_left hlt] at h; exact Or.inl h
  · rw [List.getElem?_append_right (by omega)] at h
    cases hk : i - l.length with
    | zero => rw [hk] at h; simp at h; exact Or.inr ⟨by omega, h.symm⟩
    | succ k => rw [hk] at h; simp at h

theorem internIdx_some {sn : SNode} : ∀ {st : List SNode} {i j : Nat}, internIdx sn st i = some j →
    i ≤ j ∧ st[j - i]? = some sn := by
  intro st
  induction st with
  | nil => intro i j h; simp [internIdx] at h
  | cons x xs ih =>
    intro i j h
    simp only [internIdx] at h
    split at h
    · next hx => injection h with h; subst h; subst hx; simp
    · obtain ⟨h1, h2⟩ := ih h
      refine ⟨by omega, ?_⟩
      have : j - i = (j - (i + 1)) + 1 := by omega
      rw [this]; simpa using h2

/-- children that denote separately denote together (with one fuel) -/
theorem seqO_uniform {h : Heap} {st : List SNode} : ∀ (ls : List HLink),
    (∀ l ∈ ls, ∃ g x, repLink h st g l = some x) → ∃ g cs, seqO (ls.map (repLink h st g)) = some cs := by
  intro ls
  induction ls with
  | nil => intro _; exact ⟨0, [], rfl⟩
  | cons l ls ih =>
    intro hh
    obtain ⟨g1, x, hx⟩ := hh l (by simp)
    obtain ⟨g2, cs, hcs⟩ := ih (fun l' hl' => hh l' (List.mem_cons_of_mem _ hl'))
    refine ⟨max g1 g2, x :: cs, seqO_map_cons.mpr ⟨x, cs, repLink_mono_le hx (Nat.le_max_left _ _), ?_, rfl⟩⟩
    exact seqO_map_congr hcs (fun l' _ c hc => repLink_mono_le hc (Nat.le_max_right _ _))

theorem intern_spec (sn : SNode) (s : PS) (hflat : FlatL sn.links) (hv : ValidS sn)
    (hch : ∃ g cs, seqO ((expandLinks sn).map (repLink [] s.store g)) = some cs) :
    Spec StoreR (intern sn) s (fun n s' => storeAt s'.store n = some sn) := by
  unfold Spec intern
  cases hi : internIdx sn s.store 0 with
  | some i =>
    simp only []
    obtain ⟨_, h2⟩ := internIdx_some hi
    refine ⟨PreR.refl s, ?_⟩
    simp only [storeAt, Nat.add_sub_cancel]
    simpa using h2
  | none =>
    simp only []
    refine ⟨⟨rfl, rfl, rfl, ⟨[sn], rfl⟩, ?_, ?_⟩, ?_⟩
    · intro hf x hx
      rcases List.mem_append.mp hx with h | h
      · exact hf x h
      · simp at h; subst h; exact hflat
    · intro hf hd n' sn' hsn'
      have hn0 : n' ≠ 0 := by
        intro h0; subst h0; simp [storeAt] at hsn'
      have hget : (s.store ++ [sn])[n' - 1]? = some sn' := by
        simpa [storeAt, hn0] using hsn'
      rcases getElem?_append_one hget with h | ⟨h1, h2⟩
      · have hold : storeAt s.store n' = some sn' := by simp [storeAt, hn0, h]
        obtain ⟨g, x, hx⟩ := hd n' sn' hold
        exact ⟨g, x, repLink_store_append [sn] hx⟩
      · subst h2
        obtain ⟨g, cs, hcs⟩ := hch
        refine ⟨g + 1, _, repLink_ref_some.mpr ⟨g, sn', cs, rfl, hsn', hv, ?_, rfl⟩⟩
        exact seqO_map_congr hcs (fun l _ c hc => repLink_store_append [sn'] hc)
    · simp [storeAt]

/-! ## commits -/

/-- a commit `(object, links, name)` is justified: the stored node of that name has the entries of the object, and the
    links are its (expanded) links -/
def CmOK (h : Heap) (st : List SNode) (c : Nat × List HLink × Nat) : Prop :=
  ∃ nd sn, h[c.1]? = some nd ∧ storeAt st c.2.2 = some sn ∧ nd.keys = sn.keys ∧ nd.vals = sn.vals ∧
    c.2.1 = expandLinks sn ∧ (nd.shared = true → nd.links = c.2.1)

/-- two commits of the same object: only if it is shared already (then the commit writes nothing) -/
def CmsDistinct (h : Heap) (cms : List (Nat × List HLink × Nat)) : Prop :=
  cms.Pairwise (fun c d => c.1 = d.1 → SharedA h c.1)

def CmsOK (h : Heap) (st : List SNode) (fp : List Nat) (cms : List (Nat × List HLink × Nat)) : Prop :=
  (∀ c ∈ cms, CmOK h st c ∧ (¬ SharedA h c.1 → c.1 ∈ fp)) ∧ CmsDistinct h cms

theorem CmOK.mono {h : Heap} {st : List SNode} {c : Nat × List HLink × Nat} (hc : CmOK h st c)
    (ext : List SNode) : CmOK h (st ++ ext) c := by
  obtain ⟨nd, sn, h1, h2, h3⟩ := hc
  exact ⟨nd, sn, h1, storeAt_append h2 ext, h3⟩

theorem CmsOK.nil (h : Heap) (st : List SNode) (fp : List Nat) : CmsOK h st fp [] :=
  ⟨fun c hc => by simp at hc, List.Pairwise.nil⟩

theorem CmsOK.mono {h : Heap} {st : List SNode} {fp fp' : List Nat} {cms : List (Nat × List HLink × Nat)}
    (hc : CmsOK h st fp cms) (ext : List SNode) (hfp : ∀ a ∈ fp, a ∈ fp') : CmsOK h (st ++ ext) fp' cms :=
  ⟨fun c hcm => ⟨(hc.1 c hcm).1.mono ext, fun hs => hfp _ ((hc.1 c hcm).2 hs)⟩, hc.2⟩

theorem CmsOK.append {h : Heap} {st : List SNode} {fp1 fp2 : List Nat} {cm1 cm2 : List (Nat × List HLink × Nat)}
    (h1 : CmsOK h st fp1 cm1) (h2 : CmsOK h st fp2 cm2) (hdisj : ∀ a, a ∈ fp1 → a ∈ fp2 → False) :
    CmsOK h st (fp1 ++ fp2) (cm1 ++ cm2) := by
  refine ⟨?_, ?_⟩
  · intro c hc
    rcases List.mem_append.mp hc with hc | hc
    · exact ⟨(h1.1 c hc).1, fun hs => List.mem_append.mpr (Or.inl ((h1.1 c hc).2 hs))⟩
    · exact ⟨(h2.1 c hc).1, fun hs => List.mem_append.mpr (Or.inr ((h2.1 c hc).2 hs))⟩
  · unfold CmsDistinct
    rw [List.pairwise_append]
    refine ⟨h1.2, h2.2, ?_⟩
    intro c hc d hd hcd
    by_cases hs : SharedA h c.1
    · exact hs
    · exfalso
      have m1 := (h1.1 c hc).2 hs
      have m2 := (h2.1 d hd).2 (by rw [← hcd]; exact hs)
      rw [← hcd] at m2
      exact hdisj _ m1 m2

/-! ## storeLinks / storeNode -/

/-- the name returned for a node that denotes `x` denotes the persisted `x`; the commits are justified -/
def StoreNodeOK (h : Heap) (st : List SNode) (g : Nat) (x : Bool × T × List Nat)
    (r : Nat × List (Nat × List HLink × Nat)) : Prop :=
  repLink h st g (.ref r.1) = some (pchild x) ∧ CmsOK h st x.2.2 r.2

def StoreLinksOK (h : Heap) (st : List SNode) (g : Nat) (cs : List (Bool × T × List Nat)) (ls : List HLink)
    (r : List HLink × List (Nat × List HLink × Nat)) : Prop :=
  seqO (r.1.map (repLink h st g)) = some (cs.map pchild) ∧ FlatL r.1 ∧ (FlatL ls → r.1 = ls) ∧
    CmsOK h st (fps cs) r.2

theorem storeLinks_spec {g : Nat} (G : Nat → M (Nat × List (Nat × List HLink × Nat)))
    (hG : ∀ c s x, Good s → SourceOK s → repLink s.heap s.store g (.ptr c) = some x → x.2.2.Nodup →
      Spec StoreR (G c) s (fun r s' => StoreNodeOK s.heap s'.store g x r)) :
    ∀ (ls : List HLink) (s : PS) (cs : List (Bool × T × List Nat)), Good s → SourceOK s →
      seqO (ls.map (repLink s.heap s.store g)) = some cs → (fps cs).Nodup →
      Spec StoreR (storeLinks G ls) s (fun r s' => StoreLinksOK s.heap s'.store g cs ls r) := by
  intro ls
  induction ls with
  | nil =>
    intro s cs _ _ hcs _
    unfold storeLinks
    simp [seqO] at hcs; subst hcs
    exact Spec.pure ⟨rfl, fun l hl => by simp at hl, fun _ => rfl, CmsOK.nil _ _ _⟩
  | cons l ls ih =>
    intro s cs hg hsrc hcs hnd
    obtain ⟨c0, cs0, hc0, hcs0, rfl⟩ := seqO_map_cons.mp hcs
    rw [fps_cons, List.nodup_append] at hnd
    obtain ⟨hnd0, hnds, hdisj⟩ := hnd
    -- a head that is not a pointer stays
    have flatHead : isPtr l = false →
        Spec StoreR (do let (ls', cm') ← storeLinks G ls; pure (l :: ls', cm')) s
          (fun r s' => StoreLinksOK s.heap s'.store g (c0 :: cs0) (l :: ls) r) := by
      intro hl
      have hp : pchild c0 = c0 := repLink_flat_isP hg.flat _ _ _ hl hc0
      have hfp0 : c0.2.2 = [] := repLink_flat_fp hg.flat _ _ _ hl hc0
      refine Spec.bind (ih s cs0 hg hsrc hcs0 hnds) ?_
      rintro ⟨ls', cm'⟩ s1 _ hr1 ⟨h1, h2, h3, h4⟩
      dsimp only at h1 h2 h3 h4
      refine Spec.pure ⟨?_, ?_, ?_, ?_⟩
      · refine seqO_map_cons.mpr ⟨c0, cs0.map pchild, ?_, h1, by rw [List.map_cons, hp]⟩
        have := hr1.rep hc0
        rw [hr1.heap] at this; exact this
      · intro x hx
        rcases List.mem_cons.mp hx with h | h
        · rw [h]; exact hl
        · exact h2 x h
      · intro hf
        show l :: ls' = l :: ls
        rw [h3 (fun x hx => hf x (List.mem_cons_of_mem _ hx))]
      · rw [fps_cons, hfp0, List.nil_append]; exact h4
    cases l with
    | nil => unfold storeLinks; exact flatHead rfl
    | ref k => unfold storeLinks; exact flatHead rfl
    | ptr c =>
      unfold storeLinks
      refine Spec.bind (hG c s c0 hg hsrc hc0 hnd0) ?_
      rintro ⟨n, cm⟩ s1 _ hr1 ⟨hn, hcm⟩
      have hcs1 : seqO (ls.map (repLink s1.heap s1.store g)) = some cs0 :=
        seqO_map_congr hcs0 (fun l _ c hc => hr1.rep hc)
      refine Spec.bind (ih s1 cs0 (hr1.good hg) (hr1.source hsrc) hcs1 hnds) ?_
      rintro ⟨ls', cm'⟩ s2 _ hr2 ⟨h1, h2, _, h4⟩
      dsimp only at hn hcm h1 h2 h4
      rw [hr1.heap] at h1 h4
      obtain ⟨ext2, he2⟩ := hr2.store
      refine Spec.pure ⟨?_, ?_, ?_, ?_⟩
      · refine seqO_map_cons.mpr ⟨pchild c0, cs0.map pchild, ?_, h1, by rw [List.map_cons]⟩
        rw [he2]; exact repLink_store_append ext2 hn
      · intro x hx
        rcases List.mem_cons.mp hx with h | h
        · rw [h]; rfl
        · exact h2 x h
      · intro hf
        have := hf (.ptr c) (by simp)
        cases this
      · rw [fps_cons]
        refine CmsOK.append ?_ h4 (fun a h1 h2 => hdisj a h1 a h2 rfl)
        rw [he2]
        exact hcm.mono ext2 (fun _ h => h)

/-- `expandLinks` undoes the trimming of an all-nil link list of the right length -/
theorem expandLinks_trim {ks vs : List Nat} {links : List HLink} (hl : links.length = ks.length + 1) :
    expandLinks { keys := ks, vals := vs, links := if links.all (· == .nil) then [] else links } = links := by
  unfold expandLinks
  by_cases hall : links.all (· == .nil) = true
  · simp only [hall, if_true, List.isEmpty_nil]
    apply List.ext_getElem
    · simp [hl]
    · intro i h1 h2
      simp only [List.getElem_replicate]
      have := List.all_eq_true.mp hall links[i] (List.getElem_mem h2)
      have h3 : links[i] = HLink.nil := by simpa using this
      exact h3.symm
  · simp only [hall, if_false, Bool.false_eq_true]
    have : links.isEmpty = false := by
      cases links with
      | nil => simp at hall
      | cons _ _ => rfl
    simp [this]

theorem storeNode_spec : ∀ (f a : Nat) (s : PS) (g : Nat) (x : Bool × T × List Nat), Good s → SourceOK s →
    repLink s.heap s.store g (.ptr a) = some x → x.2.2.Nodup →
    Spec StoreR (storeNode f a) s (fun r s' => StoreNodeOK s.heap s'.store g x r) := by
  intro f
  induction f with
  | zero => intro a s g x _ _ _ _; exact Spec.oof
  | succ f ih =>
    intro a s g x hg hsrc hx hxnd
    unfold storeNode
    refine Spec.bind (read_spec a s) ?_
    rintro nd s0 _ _ ⟨rfl, hnd⟩
    obtain ⟨g', cs, rfl, hv, h1, hcl, rfl⟩ := repLink_ptr_inv hx hnd
    split
    · next n hd hso =>
      -- a clean node with a source name: it is a shared decoding of that stored node
      have hsh : nd.shared = true := by
        cases hs : nd.shared with
        | true => rfl
        | false => have := hsrc.unsh a nd hnd hs; rw [hso] at this; cases this
      obtain ⟨sn, hsn, hk, hvl, hln⟩ := hsrc.sh a nd n hnd hsh hso
      have hfp0 := repLink_shared_fp hg.sflat hg.flat hnd hsh hx
      have href : repLink s.heap s.store (g' + 1) (.ref n) = some (nodeRep true [] nd.keys nd.vals cs) := by
        refine repLink_ref_some.mpr ⟨g', sn, cs, rfl, hsn, ?_, by rw [← hln]; exact h1, by rw [hk, hvl]⟩
        unfold ValidS; rw [← hln, ← hk, ← hvl]; exact hv
      have hisp : IsP (nodeRep true [] nd.keys nd.vals cs) := repLink_flat_isP hg.flat _ _ _ rfl href
      refine Spec.pure ⟨?_, CmsOK.nil _ _ _⟩
      show repLink s.heap s.store (g' + 1) (.ref n) = some (pchild (nodeRep false (ownFp nd a) nd.keys nd.vals cs))
      rw [href, ← hisp]; rfl
    · next hno =>
      rw [nodeRep_fp, List.nodup_append] at hxnd
      obtain ⟨_, hnds, hdisj⟩ := hxnd
      refine Spec.bind (storeLinks_spec (g := g') _ (fun c s x hg hs hx hn => ih c s g' x hg hs hx hn) nd.links s cs
        hg hsrc h1 hnds) ?_
      rintro ⟨links', cms⟩ s1 _ hr1 ⟨hl1, hl2, hl3, hl4⟩
      dsimp only at hl1 hl2 hl3 hl4 ⊢
      have hlen : links'.length = nd.keys.length + 1 := by
        have := seqO_map_length hl1
        simp only [List.length_map] at this
        omega
      have hexp := expandLinks_trim (ks := nd.keys) (vs := nd.vals) hlen
      have hflat : FlatL (if links'.all (· == .nil) then [] else links') := by
        intro l hl
        split at hl
        · simp at hl
        · exact hl2 l hl
      refine Spec.bind (intern_spec _ s1 hflat ⟨by rw [hexp]; exact hlen, hv.2⟩ ⟨g', cs.map pchild, ?_⟩) ?_
      · rw [hexp]
        exact seqO_map_congr hl1 (fun l hl c hc => repLink_flat_heap (hr1.flat hg.flat) _ _ _ (hl2 l hl) hc)
      · rintro n s2 _ hr2 hn
        obtain ⟨ext2, he2⟩ := hr2.store
        refine Spec.pure ⟨?_, ?_⟩
        · show repLink s.heap s2.store (g' + 1) (.ref n) = some (pchild (nodeRep false (ownFp nd a) nd.keys nd.vals cs))
          refine repLink_ref_some.mpr ⟨g', _, cs.map pchild, rfl, hn, ⟨by rw [hexp]; exact hlen, hv.2⟩, ?_, ?_⟩
          · rw [hexp, he2]
            exact seqO_map_congr hl1 (fun l _ c hc => repLink_store_append ext2 hc)
          · have hne : mkRow (cs.map pr) nd.keys nd.vals ≠ T.nil := by
              apply mkRow_ne_nil
              intro h0
              have h2 : (cs.map pr).length = 0 := by rw [h0]; rfl
              rw [List.length_map] at h2; omega
            have hflag : (!(mkRow (cs.map pr) nd.keys nd.vals).isNil) = true := by
              cases hm : mkRow (cs.map pr) nd.keys nd.vals with
              | nil => exact absurd hm hne
              | last _ _ => rfl
              | cons _ _ _ _ _ => rfl
            simp only [pchild, nodeRep_row, hflag, persistT_mkRow nd.keys cs nd.vals hcl hv.2]
            simp only [nodeRep, List.nil_append]
            congr 2
            exact (fps_map_pchild cs).symm
        · show CmsOK s.heap s2.store (nodeRep false (ownFp nd a) nd.keys nd.vals cs).2.2 (cms ++ [(a, links', n)])
          rw [nodeRep_fp]
          have hlast : CmsOK s.heap s2.store (ownFp nd a) [(a, links', n)] := by
            refine ⟨?_, List.pairwise_singleton _ _⟩
            intro c hc
            simp at hc; subst hc
            refine ⟨⟨nd, _, hnd, hn, rfl, rfl, hexp.symm, ?_⟩, ?_⟩
            · intro hsh
              exact (hl3 (hg.sflat a nd hnd hsh)).symm
            · intro hns
              refine mem_ownFp.mpr ⟨?_, rfl⟩
              cases hs : nd.shared with
              | false => rfl
              | true => exact absurd ⟨nd, hnd, hs⟩ hns
          have hall := CmsOK.append (by rw [he2]; exact hl4.mono ext2 (fun _ h => h)) hlast
            (fun b h1 h2 => hdisj b h2 b h1 rfl)
          exact ⟨fun c hc => ⟨(hall.1 c hc).1, fun hs => by
            rcases List.mem_append.mp ((hall.1 c hc).2 hs) with h | h
            · exact List.mem_append.mpr (Or.inr h)
            · exact List.mem_append.mpr (Or.inl h)⟩, hall.2⟩

end Mast.Ptr
