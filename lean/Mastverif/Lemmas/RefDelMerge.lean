import Mastverif.Lemmas.RefDelRows
import Mastverif.Lemmas.RefSplit
import Mastverif.Lemmas.RefStep
/-! `mergeNodes` refines `T.mergeRow` (allocation only; induction on the fuel). -/
namespace Mast.Ptr
open Mast.Heap

/-- the postcondition of `mergeNodes`: the returned link denotes the merge of the two links -/
def MergeOK (n : Nat) (h : Heap) (st : List SNode) (xl xr : Bool × T × List Nat) (mg : HLink) : Prop :=
  ∃ g x, repLink h st g mg = some x ∧ (x.1, x.2.1) = mergeLink (xl.1, xl.2.1) (xr.1, xr.2.1) ∧
    FpExt n (xl.2.2 ++ xr.2.2) x.2.2

theorem dropLast_append_of_getLast? {α : Type} {l : List α} {a : α} (h : l.getLast? = some a) :
    l = l.dropLast ++ [a] := by
  induction l with
  | nil => simp at h
  | cons x l ih =>
    cases l with
    | nil => simp at h; subst h; rfl
    | cons y l =>
      rw [List.getLast?_cons_cons] at h
      rw [List.dropLast_cons_cons, List.cons_append, ← ih h]

theorem mergeNodes_spec {m : Nat} (E : Env) : ∀ (f : Nat) (l r : HLink) (s : PS) (g : Nat)
    (xl xr : Bool × T × List Nat), Good s →
    repLink s.heap s.store g l = some xl → repLink s.heap s.store g r = some xr → (xl.2.2 ++ xr.2.2).Nodup →
    Spec (Grow m) (mergeNodes E m f l r) s (fun mg s' => MergeOK s.heap.length s'.heap s'.store xl xr mg) := by
  intro f
  induction f with
  | zero => intro l r s g xl xr _ _ _ _; exact Spec.oof
  | succ f ih =>
    intro l r s g xl xr hg hxl hxr hnd
    unfold mergeNodes
    split
    · next hl0 =>
      subst hl0
      simp at hxl; subst hxl
      refine Spec.pure ⟨g, xr, hxr, (mergeLink_nil_left _ _).symm, ?_⟩
      simp only [List.nil_append] at hnd ⊢
      exact FpExt.refl hnd
    · next hl0 =>
      split
      · next hr0 =>
        subst hr0
        simp at hxr; subst hxr
        refine Spec.pure ⟨g, xl, hxl, (mergeLink_nil_right _ (repLink_row_ne_nil hxl hl0)).symm, ?_⟩
        simp only [List.append_nil] at hnd ⊢
        exact FpExt.refl hnd
      · next hr0 =>
        have hlrow : xl.2.1 ≠ T.nil := repLink_row_ne_nil hxl hl0
        have hrrow : xr.2.1 ≠ T.nil := repLink_row_ne_nil hxr hr0
        have hltl : ∀ y ∈ xl.2.2, y < s.heap.length := repLink_fp_lt' hxl
        have hltr : ∀ y ∈ xr.2.2, y < s.heap.length := repLink_fp_lt' hxr
        refine Spec.bind (load_spec (m := m) E l s hg) ?_
        rintro la s1 _ hgr1 ⟨_, _, hldl⟩
        have hla1 := hldl g xl hxl
        have hg1 := hgr1.good hg
        refine Spec.bind (load_spec (m := m) E r s1 hg1) ?_
        rintro ra s2 _ hgr2 ⟨_, _, hldr⟩
        have hra := hldr g xr (hgr1.rep hxr)
        have hla := hgr2.rep hla1
        have hg2 := hgr2.good hg1
        have hlen1 := hgr1.length
        have hlen2 := hgr2.length
        refine Spec.bind (read_spec la s2) ?_
        rintro ln s2' _ _ ⟨rfl, hln⟩
        refine Spec.bind (read_spec ra s2) ?_
        rintro rn s2' _ _ ⟨rfl, hrn⟩
        obtain ⟨g', lcs, rfl, hvl, hkl, hcll, hxle⟩ := repLink_ptr_inv hla hln
        obtain ⟨g'', rcs, hgeq, hvr, hkr, hclr, hxre⟩ := repLink_ptr_inv hra hrn
        have hgg : g' = g'' := by omega
        subst hgg
        split
        · next ll rl rrest hgl hrl =>
          -- the children lists
          have hlinks := dropLast_append_of_getLast? hgl
          rw [hlinks] at hkl
          obtain ⟨linit, c2, hkinit, hk2, rfl⟩ := seqO_map_append.mp hkl
          obtain ⟨cl, hcl, rfl⟩ := seqO_map_single hk2
          rw [hrl] at hkr
          obtain ⟨cr, rcs', hcr, hkrest, rfl⟩ := seqO_map_cons.mp hkr
          have hinitlen : linit.length = ln.keys.length := by
            have := hcll; simp only [List.length_append, List.length_cons, List.length_nil] at this; omega
          have hrestlen : rcs'.length = rn.keys.length := by
            have := hclr; simp only [List.length_cons] at this; omega
          -- footprints
          have hfl : xl.2.2 = ownFp ln la ++ (fps linit ++ cl.2.2) := by
            have := congrArg (fun z => z.2.2) hxle
            simp only [nodeRep_fp, fps_append, fps_cons, fps_nil, List.append_nil] at this
            exact this
          have hfr : xr.2.2 = ownFp rn ra ++ (cr.2.2 ++ fps rcs') := by
            have := congrArg (fun z => z.2.2) hxre
            simp only [nodeRep_fp, fps_cons] at this
            exact this
          have hsub : (fps linit ++ (cl.2.2 ++ cr.2.2) ++ fps rcs').Sublist (xl.2.2 ++ xr.2.2) := by
            rw [hfl, hfr]
            have e : fps linit ++ (cl.2.2 ++ cr.2.2) ++ fps rcs' = (fps linit ++ cl.2.2) ++ (cr.2.2 ++ fps rcs') := by
              simp [List.append_assoc]
            rw [e]
            exact List.Sublist.append (List.sublist_append_right _ _) (List.sublist_append_right _ _)
          have hcore : (fps linit ++ (cl.2.2 ++ cr.2.2) ++ fps rcs').Nodup := hsub.nodup hnd
          have hlt : ∀ y ∈ xl.2.2 ++ xr.2.2, y < s.heap.length := by
            intro y hy
            rcases List.mem_append.mp hy with h | h
            · exact hltl y h
            · exact hltr y h
          have hcc : (cl.2.2 ++ cr.2.2).Nodup := (List.nodup_append.mp (List.nodup_append.mp hcore).1).2.1
          refine Spec.bind (ih ll rl s2 g' cl cr hg2 hcl hcr hcc) ?_
          rintro mg s3 _ hgr3 ⟨gm, xm, hxm, hxmrow, hfm⟩
          have hlen3 := hgr3.length
          dsimp only
          split
          · exact Spec.fail
          · refine Spec.bind (alloc_spec (m := m) _ s3 (Or.inr rfl) (fun _ => rfl)) ?_
            rintro a s4 _ hgr4 ⟨rfl, rfl⟩
            refine Spec.pure ⟨max g' gm + 1,
              nodeRep false [s3.heap.length] (ln.keys ++ rn.keys) (ln.vals ++ rn.vals) (linit ++ xm :: rcs'), ?_, ?_, ?_⟩
            · refine repLink_ptr_some.mpr ⟨_, _, linit ++ xm :: rcs', rfl, getElem?_append_self _ _, ?_, ?_,
                by simp [ownFp]⟩
              · show (ln.links.dropLast ++ mg :: rrest).length = (ln.keys ++ rn.keys).length + 1 ∧
                  (ln.vals ++ rn.vals).length = (ln.keys ++ rn.keys).length
                have h1 := hvl.1; have h2 := hvl.2; have h3 := hvr.1; have h4 := hvr.2
                rw [hrl] at h3
                simp only [List.length_append, List.length_cons, List.length_dropLast] at h3 ⊢
                omega
              · show seqO ((ln.links.dropLast ++ mg :: rrest).map _) = some _
                refine seqO_map_append.mpr ⟨linit, xm :: rcs', ?_, ?_, rfl⟩
                · refine seqO_map_congr hkinit (fun l' _ c hc => ?_)
                  exact repLink_mono_le (repLink_allocOnly (allocOnly_append _ _) (hgr3.rep hc)) (Nat.le_max_left _ _)
                · refine seqO_map_cons.mpr ⟨xm, rcs', ?_, ?_, rfl⟩
                  · exact repLink_mono_le (repLink_allocOnly (allocOnly_append _ _) hxm) (Nat.le_max_right _ _)
                  · refine seqO_map_congr hkrest (fun l' _ c hc => ?_)
                    exact repLink_mono_le (repLink_allocOnly (allocOnly_append _ _) (hgr3.rep hc))
                      (Nat.le_max_left _ _)
            · -- the row
              have hxlrow : xl.2.1 = mkRow (linit.map pr ++ [pr cl]) ln.keys ln.vals := by
                have := congrArg (fun z => z.2.1) hxle
                simp only [nodeRep_row, List.map_append, List.map_cons, List.map_nil] at this
                exact this
              have hxrrow : xr.2.1 = mkRow (pr cr :: rcs'.map pr) rn.keys rn.vals := by
                have := congrArg (fun z => z.2.1) hxre
                simp only [nodeRep_row, List.map_cons] at this
                exact this
              rw [mergeLink_both hlrow hrrow]
              show (false, mkRow ((linit ++ xm :: rcs').map pr) (ln.keys ++ rn.keys) (ln.vals ++ rn.vals)) = _
              simp only at hxlrow hxrrow ⊢
              rw [hxlrow, hxrrow, mergeRow_mkRow ln.keys (linit.map pr) ln.vals (pr cl) (pr cr) (rcs'.map pr) rn.keys rn.vals
                (by simpa using hinitlen) hvl.2 (by simpa using hrestlen) hvr.2]
              simp only [List.map_append, List.map_cons]
              have : pr xm = mergeLink (pr cl) (pr cr) := hxmrow
              rw [this]
            · -- the footprint
              have hA : ∀ y ∈ fps linit, y < s2.heap.length := fun y hy => by
                have := hlt y (hsub.subset (by simp only [List.mem_append]; exact Or.inl (Or.inl hy)))
                omega
              have hB : ∀ y ∈ fps rcs', y < s2.heap.length := fun y hy => by
                have := hlt y (hsub.subset (by simp only [List.mem_append]; exact Or.inr hy))
                omega
              have step1 := FpExt.ctx (fps linit) (fps rcs') hcore hA hB hfm
              have step2 := step1.n_mono (Nat.le_trans hlen1 hlen2)
              have step3 := step2.old_mono (fun y hy => hsub.subset hy)
              have hxmlt : ∀ y ∈ xm.2.2, y < s3.heap.length := repLink_fp_lt' hxm
              have hfin := step3.cons_fresh (z := s3.heap.length) (by omega) (by
                intro hmem
                simp only [List.mem_append] at hmem
                rcases hmem with (h | h) | h
                · have := hA _ h; omega
                · have := hxmlt _ h; omega
                · have := hB _ h; omega)
              show FpExt _ _ (nodeRep false [s3.heap.length] _ _ (linit ++ xm :: rcs')).2.2
              rw [nodeRep_fp]
              simpa [List.append_assoc] using hfin
        · exact Spec.panic

end Mast.Ptr
