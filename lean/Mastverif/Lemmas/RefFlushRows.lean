import Mastverif.Lemmas.RefSysInv
import Mastverif.Model.Store
/-!
Row side of `flush`: `persistT` (every present link becomes a name), its relation to `T.persistAll` / `normFlags`,
`mkRow`, and the fact that rows denoted by names (or by shared objects) are fixed points.
-/
namespace Mast.Ptr
open Mast.Heap

/-- the row after a flush: a link is a name iff it is present -/
def persistT : T → T
  | .nil => .nil
  | .last _ c => .last (!c.isNil) (persistT c)
  | .cons _ c k v r => .cons (!c.isNil) (persistT c) k v (persistT r)

theorem isNil_persistT (t : T) : (persistT t).isNil = t.isNil := by cases t <;> rfl

theorem isNil_normFlags (t : T) : (normFlags t).isNil = t.isNil := by cases t <;> rfl

/-- `persistT` is `T.persistAll` of the functional model up to the flags on absent links -/
theorem persistT_eq_normFlags : ∀ t : T, persistT t = normFlags (T.persistAll t)
  | .nil => rfl
  | .last p c => by
    simp only [persistT, T.persistAll, normFlags, Bool.true_and, persistT_eq_normFlags c]
    congr 1
    cases c <;> rfl
  | .cons p c k v r => by
    simp only [persistT, T.persistAll, normFlags, Bool.true_and, persistT_eq_normFlags c, persistT_eq_normFlags r]
    congr 1
    cases c <;> rfl

theorem persistT_toList : ∀ t : T, (persistT t).toList = t.toList
  | .nil => rfl
  | .last p c => by simp only [persistT, T.toList, persistT_toList c]
  | .cons p c k v r => by simp only [persistT, T.toList, persistT_toList c, persistT_toList r]

theorem persistT_idem : ∀ t : T, persistT (persistT t) = persistT t
  | .nil => rfl
  | .last p c => by simp only [persistT, isNil_persistT, persistT_idem c]
  | .cons p c k v r => by simp only [persistT, isNil_persistT, persistT_idem c, persistT_idem r]

/-- the child result after a flush -/
def pchild (c : Bool × T × List Nat) : Bool × T × List Nat := (!c.2.1.isNil, persistT c.2.1, [])

theorem persistT_mkRow : ∀ (ks : List Nat) (cs : List (Bool × T × List Nat)) (vs : List Nat),
    cs.length = ks.length + 1 → vs.length = ks.length →
    persistT (mkRow (cs.map pr) ks vs) = mkRow ((cs.map pchild).map pr) ks vs := by
  intro ks
  induction ks with
  | nil =>
    intro cs vs hl hv
    match cs, hl with
    | [c], _ =>
      simp only [List.map_cons, List.map_nil, pr, pchild]
      rw [mkRow_single, mkRow_single]; rfl
  | cons k ks ih =>
    intro cs vs hl hv
    match cs, vs, hl, hv with
    | c :: x :: ls, v :: vs, hl, hv =>
      simp only [List.map_cons, pr, pchild]
      rw [mkRow_cons, mkRow_cons]
      simp only [persistT]
      have := ih (x :: ls) vs (by simpa using hl) (by simpa using hv)
      simp only [List.map_cons, pr, pchild] at this
      rw [this]

theorem fps_map_pchild (cs : List (Bool × T × List Nat)) : fps (cs.map pchild) = [] :=
  fps_eq_nil (fun c hc => by
    obtain ⟨c0, _, rfl⟩ := List.mem_map.mp hc
    rfl)

/-- a child result that is already "persisted" -/
def IsP (c : Bool × T × List Nat) : Prop := pchild c = c

theorem map_pchild_of_isP {cs : List (Bool × T × List Nat)} (h : ∀ c ∈ cs, IsP c) : cs.map pchild = cs := by
  induction cs with
  | nil => rfl
  | cons c cs ih =>
    rw [List.map_cons, h c (by simp), ih (fun c' hc' => h c' (List.mem_cons_of_mem _ hc'))]

/-- the result of a valid node all of whose children are persisted, read as a name -/
theorem isP_nodeRep {ks vs : List Nat} {cs : List (Bool × T × List Nat)} (hl : cs.length = ks.length + 1)
    (hv : vs.length = ks.length) (h : ∀ c ∈ cs, IsP c) : IsP (nodeRep true [] ks vs cs) := by
  unfold IsP pchild
  have hrow : (nodeRep true [] ks vs cs).2.1 = mkRow (cs.map pr) ks vs := rfl
  have hne : mkRow (cs.map pr) ks vs ≠ T.nil := by
    apply mkRow_ne_nil
    intro h0
    have h2 : (cs.map pr).length = 0 := by rw [h0]; rfl
    rw [List.length_map] at h2; omega
  have hfp : (nodeRep true [] ks vs cs).2.2 = [] := by
    rw [nodeRep_fp, List.nil_append, ← map_pchild_of_isP h, fps_map_pchild]
  have hp : persistT (mkRow (cs.map pr) ks vs) = mkRow (cs.map pr) ks vs := by
    rw [persistT_mkRow ks cs vs hl hv, map_pchild_of_isP h]
  have hflag : (!(mkRow (cs.map pr) ks vs).isNil) = true := by
    cases hm : mkRow (cs.map pr) ks vs with
    | nil => exact absurd hm hne
    | last _ _ => rfl
    | cons _ _ _ _ _ => rfl
  rw [hrow, hp, hflag]
  show (true, mkRow (cs.map pr) ks vs, []) = nodeRep true [] ks vs cs
  have : nodeRep true [] ks vs cs = (true, mkRow (cs.map pr) ks vs, (nodeRep true [] ks vs cs).2.2) := rfl
  rw [this, hfp]

/-- what a link without pointers denotes is already persisted -/
theorem repLink_flat_isP {h : Heap} {st : List SNode} (hf : StoreFlat st) :
    ∀ (f : Nat) (l : HLink) (x : Bool × T × List Nat), isPtr l = false → repLink h st f l = some x → IsP x := by
  intro f
  induction f with
  | zero =>
    intro l x hl hx
    cases l with
    | nil => simp at hx; subst hx; rfl
    | ptr a => cases hx
    | ref n => cases hx
  | succ f ih =>
    intro l x hl hx
    cases l with
    | nil => simp at hx; subst hx; rfl
    | ptr a => cases hl
    | ref n =>
      obtain ⟨f', sn, cs, hf', hsn, hv, h1, rfl⟩ := repLink_ref_some.mp hx
      injection hf' with hf'; subst hf'
      have hlen := seqO_map_length h1
      refine isP_nodeRep (by rw [hlen]; exact hv.1) hv.2 ?_
      intro c hc
      obtain ⟨i, hi⟩ := List.getElem?_of_mem hc
      have hlt : i < (expandLinks sn).length := by rw [← hlen]; exact (List.getElem?_eq_some_iff.mp hi).1
      obtain ⟨c', hc1, hc2⟩ := seqO_map_getElem? h1 (List.getElem?_eq_getElem hlt)
      rw [hi] at hc2; injection hc2 with hc2; subst hc2
      exact ih _ _ (expandLinks_flat (hf sn (storeAt_mem hsn)) _ (List.getElem_mem hlt)) hc1

/-! ## empty top node -/

theorem isEmptyTop_of_isEmptyN {h : Heap} {st : List SNode} {g a : Nat} {nd : MNode} {x : Bool × T × List Nat}
    (hx : repLink h st g (.ptr a) = some x) (hnd : h[a]? = some nd) :
    Tree.isEmptyTop x.2.1 = isEmptyN nd := by
  obtain ⟨g', cs, rfl, hv, h1, hcl, rfl⟩ := repLink_ptr_inv hx hnd
  rw [nodeRep_row]
  cases hks : nd.keys with
  | nil =>
    rw [hks] at hcl
    have hll : nd.links.length = 1 := by rw [hv.1, hks]; rfl
    match hlinks : nd.links, hll with
    | [l], _ =>
      rw [hlinks] at h1
      obtain ⟨c, cs', hc, hcs', rfl⟩ := seqO_map_cons.mp h1
      simp [seqO] at hcs'; subst hcs'
      simp only [List.map_cons, List.map_nil, pr]
      rw [mkRow_single]
      unfold isEmptyN
      rw [hlinks]
      cases l with
      | nil => simp at hc; subst hc; rfl
      | ptr b =>
        have := repLink_row_ne_nil hc (by simp)
        cases hr : c.2.1 with
        | nil => exact absurd hr this
        | last _ _ => simp [Tree.isEmptyTop]
        | cons _ _ _ _ _ => simp [Tree.isEmptyTop]
      | ref n =>
        have := repLink_row_ne_nil hc (by simp)
        cases hr : c.2.1 with
        | nil => exact absurd hr this
        | last _ _ => simp [Tree.isEmptyTop]
        | cons _ _ _ _ _ => simp [Tree.isEmptyTop]
  | cons k ks =>
    have hvl : nd.vals.length = ks.length + 1 := by rw [hv.2, hks]; rfl
    rw [hks] at hcl
    match cs, nd.vals, hcl, hvl with
    | c :: c2 :: cs', v :: vs, _, _ =>
      simp only [List.map_cons, pr]
      rw [mkRow_cons]
      have hll : nd.links.length = ks.length + 2 := by rw [hv.1, hks]; rfl
      unfold isEmptyN
      match hlinks : nd.links, hll with
      | l1 :: l2 :: ls, _ => simp [Tree.isEmptyTop]

end Mast.Ptr
