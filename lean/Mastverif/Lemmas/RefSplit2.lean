import Mastverif.Lemmas.RefSplit
/-! `split` refines `T.split`. -/
namespace Mast.Ptr
open Mast.Heap

theorem setLast_take {l : List HLink} {i : Nat} (h : i < l.length) (x : HLink) :
    setLast (l.take (i + 1)) x = l.take i ++ [x] := by
  rw [← List.take_append_getElem h]; simp only [setLast, List.dropLast_concat]

theorem getLast?_take_succ {l : List HLink} {i : Nat} (h : i < l.length) : (l.take (i + 1)).getLast? = l[i]? := by
  rw [← List.take_append_getElem h, List.getLast?_concat]; simp

theorem map_pr_append_single (L : List (Bool × T × List Nat)) (x : Bool × T × List Nat) :
    (L ++ [x]).map pr = L.map pr ++ [(x.1, x.2.1)] := by simp [pr]

def splitLeft (m : Nat) (nd : MNode) (si : Nat) (lm : HLink) : MNode :=
  { keys := nd.keys.take si, vals := nd.vals.take si, links := setLast (nd.links.take (si + 1)) lm,
    dirty := true, shared := false, owner := m, source := none }

def splitRight (m : Nat) (nd : MNode) (si : Nat) (rm : HLink) (rest : List HLink) : MNode :=
  { keys := nd.keys.drop si, vals := nd.vals.drop si, links := rm :: rest,
    dirty := true, shared := false, owner := m, source := none }

theorem split_refines {m : Nat} (E : Env) (key : Nat) : ∀ f, SplitSpec E m key f := by
  intro f
  induction f with
  | zero => intro a s g x _ _ _; exact Spec.oof
  | succ f ih =>
    intro a s g x hg hx hnd
    unfold split
    refine Spec.bind (read_spec a s) ?_
    rintro nd s0 _ _ ⟨rfl, hnda⟩
    obtain ⟨g', cs, rfl, hv, h1, hcl, rfl⟩ := repLink_ptr_inv hx hnda
    split
    · exact Spec.panic
    · dsimp only
      generalize hsi : keyIdx nd.keys key = si
      have hsile : si ≤ nd.keys.length := hsi ▸ keyIdx_le _ _
      split
      · exact Spec.panic
      · next leftMax hlm =>
        have hsilt : si < nd.links.length := by rw [hv.1]; omega
        have hlk : nd.links[si]? = some leftMax := by rw [← getLast?_take_succ hsilt]; exact hlm
        obtain ⟨c, hc1, hc2⟩ := seqO_map_getElem? h1 hlk
        have hcs := take_append_getElem_drop hc2
        have hL := seqO_map_take h1 si
        have hR := seqO_map_drop h1 (si + 1)
        -- the footprint of the node, in pieces
        have hfp : (nodeRep false (ownFp nd a) nd.keys nd.vals cs).2.2 =
            ownFp nd a ++ (fps (cs.take si) ++ c.2.2 ++ fps (cs.drop (si + 1))) := by
          rw [nodeRep_fp]; conv => lhs; rw [hcs]
          simp
        rw [hfp] at hnd
        have hnd2 : (fps (cs.take si) ++ c.2.2 ++ fps (cs.drop (si + 1))).Nodup := (List.nodup_append.mp hnd).2.1
        have hcnd : c.2.2.Nodup := (List.nodup_append.mp (List.nodup_append.mp hnd2).1).2.1
        have hltn : ∀ y ∈ (nodeRep false (ownFp nd a) nd.keys nd.vals cs).2.2, y < s.heap.length :=
          repLink_fp_lt' hx
        rw [hfp] at hltn
        -- first recursive call
        refine Spec.bind (subsplit_spec E key f ih leftMax s g' c hg hc1 hcnd) ?_
        rintro ⟨lm, tooBig⟩ s2 _ hgr2 ⟨g2, xl, xr, hl1, hr1, hlf, hrf, hlrow, hrrow, hE1⟩
        dsimp only at hl1 hr1 ⊢
        have hg2 := hgr2.good hg
        -- the left node
        have hG1 : g' ≤ max g' g2 := Nat.le_max_left _ _
        have hG2 : g2 ≤ max g' g2 := Nat.le_max_right _ _
        have hLeftKids : seqO ((setLast (nd.links.take (si + 1)) lm).map (repLink s2.heap s2.store (max g' g2))) =
            some (cs.take si ++ [xl]) := by
          rw [setLast_take hsilt]
          refine seqO_map_append.mpr ⟨cs.take si, [xl], ?_, ?_, rfl⟩
          · exact seqO_map_congr hL (fun l _ c hc => repLink_mono_le (hgr2.rep hc) hG1)
          · exact seqO_map_cons.mpr ⟨xl, [], repLink_mono_le hl1 hG2, rfl, rfl⟩
        have hLeftValid : ValidN (splitLeft m nd si lm) := by
          unfold ValidN splitLeft
          simp only [setLast_take hsilt, List.length_append, List.length_take, List.length_cons, List.length_nil]
          have := hv.2
          omega
        refine Spec.bind (linkNew_spec (splitLeft m nd si lm) s2 _ _ rfl rfl hLeftValid hLeftKids) ?_
        rintro leftLink s3 _ hgr3 ⟨xL, hxL, hxLf, hxLrow, hxLcase⟩
        have hg3 := hgr3.good hg2
        have hdrop : nd.links.drop si = leftMax :: nd.links.drop (si + 1) := by
          have := List.drop_eq_getElem_cons hsilt
          rw [this]; congr 1
          have h2 := List.getElem?_eq_getElem hsilt
          rw [hlk] at h2; injection h2 with h2; exact h2.symm
        rw [hdrop]
        dsimp only
        -- second recursive call, on the part that was too big
        have hr3 : repLink s3.heap s3.store g2 tooBig = some xr := hgr3.rep hr1
        have hxrnd : xr.2.2.Nodup := (List.nodup_append.mp hE1.1).2.1
        refine Spec.bind (subsplit_spec E key f ih tooBig s3 g2 xr hg3 hr3 hxrnd) ?_
        rintro ⟨tooSmall, rm⟩ s5 _ hgr5 ⟨g5, xts, xrm, hts1, hrm1, _, hrmf, htsrow, hrmrow, hE2⟩
        dsimp only at hts1 hrm1 ⊢
        have hg5 := hgr5.good hg3
        split
        · exact Spec.panic
        · next hts =>
          have hts0 : tooSmall = .nil := by
            by_cases h : tooSmall = .nil
            · exact h
            · exact absurd h hts
          subst hts0
          simp at hts1; subst hts1
          have hE2' : FpExt s3.heap.length xr.2.2 xrm.2.2 := by simpa using hE2
          have hgr25 : Grow m s2 s5 := hgr3.trans hgr5
          have hgr05 : Grow m s s5 := hgr2.trans hgr25
          -- the right node
          have hRightKids : seqO ((rm :: nd.links.drop (si + 1)).map (repLink s5.heap s5.store (max g' g5))) =
              some (xrm :: cs.drop (si + 1)) :=
            seqO_map_cons.mpr ⟨xrm, _, repLink_mono_le hrm1 (Nat.le_max_right _ _),
              seqO_map_congr hR (fun l _ c hc => repLink_mono_le (hgr05.rep hc) (Nat.le_max_left _ _)), rfl⟩
          have hRightValid : ValidN (splitRight m nd si rm (nd.links.drop (si + 1))) := by
            unfold ValidN splitRight
            simp only [List.length_cons, List.length_drop]
            have := hv.1; have := hv.2
            omega
          refine Spec.bind (linkNew_spec (splitRight m nd si rm (nd.links.drop (si + 1))) s5 _ _ rfl rfl
            hRightValid hRightKids) ?_
          rintro rightLink s6 _ hgr6 ⟨xR, hxR, hxRf, hxRrow, hxRcase⟩
          refine Spec.pure ?_
          have hcl' : (cs.map pr).length = nd.keys.length + 1 := by simpa using hcl
          refine ⟨max (max g' g2 + 1) (max g' g5 + 1), xL, xR,
            repLink_mono_le ((hgr5.trans hgr6).rep hxL) (Nat.le_max_left _ _),
            repLink_mono_le hxR (Nat.le_max_right _ _), hxLf, hxRf, ?_, ?_, ?_⟩
          · -- left row
            rw [nodeRep_row, split_mkRow nd.keys (cs.map pr) nd.vals key hcl' hv.2, hsi, hxLrow]
            dsimp only [splitLeft]
            rw [map_pr_append_single, List.map_take, hlf, hlrow, childAt_map_pr hc2]
          · -- right row
            rw [nodeRep_row, split_mkRow nd.keys (cs.map pr) nd.vals key hcl' hv.2, hsi, hxRrow]
            dsimp only [splitRight]
            have hq : xrm.2.1 = T.mk (T.split c.2.1 key).2 := by
              rw [hrmrow, hrrow, (mk_split_mk _ key).2, (split_split c.2.1 key).1]
            rw [List.map_cons, List.map_drop, childAt_map_pr hc2]
            simp only [pr, hrmf, hq]
          · -- footprint
            rw [hfp]
            have hlen2 := hgr2.length
            have hlen3 := hgr3.length
            have hlen5 := hgr5.length
            have ha1 : ∀ y ∈ xl.2.2, y < s2.heap.length := repLink_fp_lt' hl1
            have hb1 : ∀ y ∈ xr.2.2, y < s2.heap.length := repLink_fp_lt' hr1
            have hb2 : ∀ y ∈ xrm.2.2, y < s5.heap.length := repLink_fp_lt' hrm1
            have hLf : ∀ y ∈ fps (cs.take si), y < s.heap.length := fun y hy =>
              hltn y (by simp only [List.mem_append]; exact Or.inr (Or.inl (Or.inl hy)))
            have hRf : ∀ y ∈ fps (cs.drop (si + 1)), y < s.heap.length := fun y hy =>
              hltn y (by simp only [List.mem_append]; exact Or.inr (Or.inr hy))
            have stepA : FpExt s3.heap.length (xl.2.2 ++ xr.2.2) (xl.2.2 ++ xrm.2.2) := by
              have := FpExt.ctx (n := s3.heap.length) xl.2.2 [] (by simpa using hE1.1)
                (fun y hy => by have := ha1 y hy; omega) (by simp) hE2'
              simpa using this
            have stepB : FpExt s.heap.length c.2.2 (xl.2.2 ++ xrm.2.2) := hE1.trans stepA (by omega)
            have stepC := FpExt.ctx (fps (cs.take si)) (fps (cs.drop (si + 1))) hnd2 hLf hRf stepB
            have stepC' : FpExt s.heap.length (fps (cs.take si) ++ c.2.2 ++ fps (cs.drop (si + 1)))
                ((fps (cs.take si) ++ xl.2.2) ++ (xrm.2.2 ++ fps (cs.drop (si + 1)))) := by
              simpa [List.append_assoc] using stepC
            have hLcase : xL.2.2 = fps (cs.take si) ++ xl.2.2 ∨
                (xL.2.2 = s2.heap.length :: (fps (cs.take si) ++ xl.2.2) ∧ s3.heap.length = s2.heap.length + 1) := by
              rcases hxLcase with ⟨_, _, h3, h4⟩ | ⟨_, h2, h3⟩
              · left; rw [h4]; simpa using h3.symm
              · right; exact ⟨by simpa using h3, h2⟩
            have hRcase : xR.2.2 = xrm.2.2 ++ fps (cs.drop (si + 1)) ∨
                xR.2.2 = s5.heap.length :: (xrm.2.2 ++ fps (cs.drop (si + 1))) := by
              rcases hxRcase with ⟨_, _, h3, h4⟩ | ⟨_, _, h3⟩
              · left; rw [h4]; simpa using h3.symm
              · right; simpa using h3
            have bP : ∀ y ∈ fps (cs.take si) ++ xl.2.2, y < s2.heap.length := by
              intro y hy
              rcases List.mem_append.mp hy with h | h
              · have := hLf y h; omega
              · exact ha1 y h
            have bQ : ∀ y ∈ xrm.2.2 ++ fps (cs.drop (si + 1)), y < s5.heap.length := by
              intro y hy
              rcases List.mem_append.mp hy with h | h
              · exact hb2 y h
              · have := hRf y h; omega
            have bQla : s3.heap.length = s2.heap.length + 1 →
                ∀ y ∈ xrm.2.2 ++ fps (cs.drop (si + 1)), y ≠ s2.heap.length := by
              intro h3 y hy
              rcases List.mem_append.mp hy with h | h
              · rcases hE2'.2 y h with h' | h'
                · have := hb1 y h'; omega
                · omega
              · have := hRf y h; omega
            refine FpExt.old_mono ?_ (fun y hy => List.mem_append.mpr (Or.inr hy))
            rcases hLcase with hL' | ⟨hL', h3⟩ <;> rcases hRcase with hR' | hR' <;> rw [hL', hR']
            · exact stepC'
            · exact stepC'.insert_mid (by omega) (fun h => by have := bP _ h; omega)
                (fun h => by have := bQ _ h; omega)
            · rw [List.cons_append]
              refine stepC'.cons_fresh (by omega) ?_
              intro h
              rcases List.mem_append.mp h with h | h
              · have := bP _ h; omega
              · exact bQla h3 _ h rfl
            · rw [List.cons_append]
              refine (stepC'.insert_mid (z := s5.heap.length) (by omega) (fun h => by have := bP _ h; omega)
                (fun h => by have := bQ _ h; omega)).cons_fresh (by omega) ?_
              intro h
              rcases List.mem_append.mp h with h | h
              · have := bP _ h; omega
              · rcases List.mem_cons.mp h with h | h
                · omega
                · exact bQla h3 _ h rfl

end Mast.Ptr
