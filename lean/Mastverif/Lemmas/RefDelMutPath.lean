import Mastverif.Lemmas.RefDelBase
/-! The first loop of `savePathForRoot` without any assumption on the bottom node (Delete: it may be empty). -/
namespace Mast.Ptr
open Mast.Heap

/-- what `mutPath` establishes (no assumption on the bottom node) -/
def MutPathOK' (m : Nat) (frs : List Fr) (bx : Bool × T × List Nat) (q q' : List (Nat × Nat)) (s s' : PS) : Prop :=
  q'.map Prod.snd = q.map Prod.snd ∧ Shape s.heap s'.heap ∧ DirtyMono s.heap s'.heap ∧
  (∀ p ∈ q', OwnDirty s'.heap m p.1) ∧
  ∃ frs' bx' g' b' j, Ctx s'.heap s'.store q' frs' ∧ q'.getLast? = some (b', j) ∧
    repLink s'.heap s'.store g' (.ptr b') = some bx' ∧
    bx'.2.1 = bx.2.1 ∧ (∀ r, plugRow frs' r = plugRow frs r) ∧ (∀ r, plugDel frs' r = plugDel frs r) ∧
    FpExt s.heap.length (plug frs bx).2.2 (plug frs' bx').2.2

theorem mutPath_spec' {m : Nat} : ∀ (q : List (Nat × Nat)) (frs : List Fr) (s : PS) (bx : Bool × T × List Nat)
    (g b j : Nat), Good s → Ctx s.heap s.store q frs → q.getLast? = some (b, j) →
    repLink s.heap s.store g (.ptr b) = some bx →
    (plug frs bx).2.2.Nodup → FpOwned s.heap m (plug frs bx).2.2 →
    Spec (Step m) (mutPath m q) s (fun q' s' => MutPathOK' m frs bx q q' s s') := by
  intro q
  induction q with
  | nil => intro frs s bx g b j _ hc; cases frs <;> exact hc.elim
  | cons x rest ih =>
    intro frs s bx g b j hg hctx hlast hbx hnodup howned
    obtain ⟨a, i⟩ := x
    unfold mutPath
    refine Spec.bind (read_spec a s) ?_
    rintro nd s0 _ _ ⟨rfl, hnd⟩
    cases rest with
    | nil =>
      -- the bottom node
      cases frs with
      | cons _ _ => exact hctx.elim
      | nil =>
        simp at hlast
        obtain ⟨rfl, rfl⟩ := hlast
        obtain ⟨g', cs, rfl, hv, hkids, hcl, rfl⟩ := repLink_ptr_inv hbx hnd
        have hown : nd.shared = false → nd.owner = m := by
          intro hs
          obtain ⟨nd2, h2, ho2⟩ := howned a (by
            show a ∈ (nodeRep false (ownFp nd a) nd.keys nd.vals cs).2.2
            rw [nodeRep_fp]; exact List.mem_append.mpr (Or.inl (mem_ownFp.mpr ⟨hs, rfl⟩)))
          rw [hnd] at h2; injection h2 with h2; subst h2; exact ho2
        refine Spec.bind (mutNode_spec (m := m) a nd s hg hnd hown) ?_
        rintro a' s1 _ hst1 ⟨hsh, hdm, ⟨nd', hnd', e1, e2, e3, e4, e5, e6⟩, hcase⟩
        simp only [mutPath]
        refine Spec.pure ?_
        have hrep : repLink s1.heap s1.store (g' + 1) (.ptr a') = some (nodeRep false [a'] nd.keys nd.vals cs) := by
          refine repLink_ptr_some.mpr ⟨g', nd', cs, rfl, hnd', ?_, ?_, ?_⟩
          · unfold ValidN; rw [e1, e2, e3]; exact hv
          · rw [e3, hst1.store]; exact seqO_map_congr hkids (fun l _ c hc => repLink_shape hsh g' l c hc)
          · simp only [ownFp, e1, e2, e4]; rfl
        refine ⟨rfl, hsh, hdm, ?_, [], _, g' + 1, a', i, trivial, rfl, hrep, rfl, fun _ => rfl, fun _ => rfl, ?_⟩
        · intro p hp; simp at hp; subst hp; exact ⟨nd', hnd', e4, e5, e6⟩
        · show FpExt _ (nodeRep false (ownFp nd a) nd.keys nd.vals cs).2.2 (nodeRep false [a'] nd.keys nd.vals cs).2.2
          simp only [nodeRep_fp]
          have hnodup' : (nodeRep false (ownFp nd a) nd.keys nd.vals cs).2.2.Nodup := hnodup
          rw [nodeRep_fp] at hnodup'
          rcases hcase with ⟨hs, rfl, _⟩ | ⟨hs, rfl, _⟩
          · have : ownFp nd a' = [a'] := by simp [ownFp, hs]
            rw [this] at hnodup' ⊢
            exact FpExt.refl hnodup'
          · have : ownFp nd a = [] := by simp [ownFp, hs]
            rw [this] at hnodup' ⊢
            simp only [List.nil_append, List.singleton_append] at hnodup' ⊢
            refine (FpExt.refl hnodup').cons_fresh (Nat.le_refl _) ?_
            intro hmem
            have := repLink_fp_lt hbx (a := s.heap.length) (by
              show _ ∈ (nodeRep false (ownFp nd a) nd.keys nd.vals cs).2.2
              rw [nodeRep_fp]; exact List.mem_append.mpr (Or.inr hmem))
            omega
    | cons y rest' =>
      obtain ⟨b1, j1⟩ := y
      cases frs with
      | nil => exact hctx.elim
      | cons fr frs1 =>
        have hlt0 := hctx.fp_lt
        obtain ⟨⟨nd0, gk, hnd0, hv, hown0, hks, hvs, hi, hilt, hL, hR⟩, hrest⟩ := hctx
        rw [hnd] at hnd0; injection hnd0 with hnd0; subst hnd0
        have hlast' : ((b1, j1) :: rest').getLast? = some (b, j) := by
          rw [List.getLast?_cons_cons] at hlast; exact hlast
        have hfp : (plug (fr :: frs1) bx).2.2 = (fr.own ++ fps fr.L) ++ (plug frs1 bx).2.2 ++ fps fr.R := by
          show (fr.plug (plug frs1 bx)).2.2 = _
          rw [Fr.plug_fp]
        rw [hfp] at hnodup howned
        have hnodup1 : (plug frs1 bx).2.2.Nodup := (List.nodup_append.mp (List.nodup_append.mp hnodup).1).2.1
        have hown : nd.shared = false → nd.owner = m := by
          intro hs
          obtain ⟨nd2, h2, ho2⟩ := howned a (by
            rw [hown0]; simp only [List.mem_append]
            exact Or.inl (Or.inl (Or.inl (mem_ownFp.mpr ⟨hs, rfl⟩))))
          rw [hnd] at h2; injection h2 with h2; subst h2; exact ho2
        have hltA : ∀ y ∈ fr.own ++ fps fr.L, y < s.heap.length := by
          intro y hy
          apply hlt0 y
          simp only [plugA, plugB, List.mem_append] at hy ⊢
          rcases hy with hy | hy
          · exact Or.inl (Or.inl (Or.inl hy))
          · exact Or.inl (Or.inl (Or.inr hy))
        have hltB : ∀ y ∈ fps fr.R, y < s.heap.length := by
          intro y hy
          apply hlt0 y
          simp only [plugA, plugB, List.mem_append]
          exact Or.inr (Or.inr hy)
        have hltM : ∀ y ∈ (plug frs1 bx).2.2, y < s.heap.length := by
          intro y hy
          rw [plug_fp] at hy
          have hAB := hrest.fp_lt y
          simp only [List.mem_append] at hy hAB
          rcases hy with (hy | hy) | hy
          · exact hAB (Or.inl hy)
          · exact repLink_fp_lt hbx hy
          · exact hAB (Or.inr hy)
        refine Spec.bind (mutNode_spec (m := m) a nd s hg hnd hown) ?_
        rintro a' s1 _ hst1 ⟨hsh, hdm, ⟨nd', hnd', e1, e2, e3, e4, e5, e6⟩, hcase⟩
        have hg1 := hst1.good hg
        have hctx1 : Ctx s1.heap s1.store ((b1, j1) :: rest') frs1 := by rw [hst1.store]; exact hrest.shape hsh
        have hbx1 : repLink s1.heap s1.store g (.ptr b) = some bx := by
          rw [hst1.store]; exact repLink_shape hsh _ _ _ hbx
        have howned1 : FpOwned s1.heap m (plug frs1 bx).2.2 :=
          FpOwned.shape (fun y hy => howned y (by simp only [List.mem_append]; exact Or.inl (Or.inr hy))) hsh
        refine Spec.bind (ih frs1 s1 bx g b j hg1 hctx1 hlast' hbx1 hnodup1 howned1) ?_
        rintro q1 s2 _ hst2 ⟨hsnd, hsh2, hdm2, hod2, frs1', bx', g2, b', j', hctx2, hlast2, hbx2,
          hrow2, hplug2, hdel2, hfp2⟩
        refine Spec.pure ?_
        obtain ⟨nd2, hnd2, f1, f2, f3, f4, f5⟩ := hsh2 a' nd' hnd'
        have hd2 : nd2.dirty = true := by
          obtain ⟨nd2d, hnd2d, hd⟩ := hdm2 a' nd' hnd' e6
          rw [hnd2] at hnd2d; injection hnd2d with hnd2d; subst hnd2d; exact hd
        have hlen1 := hsh.length
        refine ⟨?_, hsh.trans hsh2, hdm.trans hdm2, ?_, { fr with own := [a'] } :: frs1', bx', g2, b', j', ?_, ?_,
          hbx2, hrow2, ?_, ?_, ?_⟩
        · simp only [List.map_cons, hsnd]
        · intro p hp
          rcases List.mem_cons.mp hp with h | h
          · subst h; exact ⟨nd2, hnd2, f4.trans e4, f5.trans e5, hd2⟩
          · exact hod2 p h
        · match q1, hlast2, hctx2 with
          | (c, k) :: rest'', _, hctx2 =>
            refine ⟨⟨nd2, gk, hnd2, ?_, ?_, ?_, ?_, hi, ?_, ?_, ?_⟩, hctx2⟩
            · unfold ValidN; rw [f1, f2, f3, e1, e2, e3]; exact hv
            · simp only [ownFp, f4, e4]; rfl
            · show fr.ks = nd2.keys; rw [f1, e1]; exact hks
            · show fr.vs = nd2.vals; rw [f2, e2]; exact hvs
            · rw [f3, e3]; exact hilt
            · rw [f3, e3, hst2.store, hst1.store]
              exact seqO_map_congr hL (fun l _ c hc => repLink_shape (hsh.trans hsh2) gk l c hc)
            · rw [f3, e3, hst2.store, hst1.store]
              exact seqO_map_congr hR (fun l _ c hc => repLink_shape (hsh.trans hsh2) gk l c hc)
        · match q1, hlast2 with
          | (c, k) :: rest'', hlast2 => rw [List.getLast?_cons_cons]; exact hlast2
        · intro r
          show Fr.plugRow _ (plugRow frs1' r) = fr.plugRow (plugRow frs1 r)
          rw [hplug2 r]; rfl
        · intro r
          show Fr.plugRow _ (T.mk (plugDel frs1' r)) = fr.plugRow (T.mk (plugDel frs1 r))
          rw [hdel2 r]; rfl
        · rw [hfp]
          show FpExt _ _ (Fr.plug { fr with own := [a'] } (plug frs1' bx')).2.2
          rw [Fr.plug_fp]
          show FpExt _ _ ([a'] ++ fps fr.L ++ (plug frs1' bx').2.2 ++ fps fr.R)
          have stepI : FpExt s.heap.length (fr.own ++ fps fr.L ++ (plug frs1 bx).2.2 ++ fps fr.R)
              (fr.own ++ fps fr.L ++ (plug frs1' bx').2.2 ++ fps fr.R) :=
            (FpExt.ctx (n := s1.heap.length) _ _ hnodup (fun y hy => by have := hltA y hy; omega)
              (fun y hy => by have := hltB y hy; omega) hfp2).n_mono hlen1
          rcases hcase with ⟨hs, rfl, _⟩ | ⟨hs, rfl, hl1⟩
          · have : fr.own = [a'] := by rw [hown0]; simp [ownFp, hs]
            rw [this] at stepI ⊢; exact stepI
          · have : fr.own = [] := by rw [hown0]; simp [ownFp, hs]
            rw [this] at stepI hltA ⊢
            simp only [List.nil_append] at stepI hltA ⊢
            have hre : [s.heap.length] ++ fps fr.L ++ (plug frs1' bx').2.2 ++ fps fr.R =
                s.heap.length :: (fps fr.L ++ (plug frs1' bx').2.2 ++ fps fr.R) := by simp
            rw [hre]
            refine stepI.cons_fresh (Nat.le_refl _) ?_
            intro hmem
            simp only [List.mem_append] at hmem
            rcases hmem with (hmem | hmem) | hmem
            · have := hltA _ hmem; omega
            · rcases hfp2.2 _ hmem with h | h
              · have := hltM _ h; omega
              · omega
            · have := hltB _ hmem; omega

end Mast.Ptr
