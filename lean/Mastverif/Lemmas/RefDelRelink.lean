import Mastverif.Lemmas.RefDelMutPath
import Mastverif.Lemmas.RefCommit
/-!
The second loop of `savePathForRoot` with pruning (Delete): a node that became empty is written into its
parent as the absent link, possibly cascading upward; `savePath` with pruning.
-/
namespace Mast.Ptr
open Mast.Heap

/-! ## `T.mk` on the row of a node object -/

theorem mk_eq_nil_or (r : T) : T.mk r = T.nil ∨ T.mk r = r := by
  unfold T.mk
  split
  · exact Or.inl rfl
  · exact Or.inr rfl

/-- `T.mk` leaves the row of a valid non-empty node alone -/
theorem repLink_mk_of_nonempty {h : Heap} {st : List SNode} {g b : Nat} {nd : MNode} {z : Bool × T × List Nat}
    (hz : repLink h st g (.ptr b) = some z) (hb : h[b]? = some nd) (hne : isEmptyN nd = false) :
    T.mk z.2.1 = z.2.1 := by
  obtain ⟨g', cs, rfl, hv, h1, hcl, rfl⟩ := repLink_ptr_inv hz hb
  have hcl' : (cs.map pr).length = nd.keys.length + 1 := by rw [List.length_map]; exact hcl
  rw [nodeRep_row]
  by_cases hk : nd.keys = []
  · have hlen : nd.links.length = 1 := by rw [hv.1, hk]; rfl
    match hl : nd.links, hlen with
    | [l], _ =>
      rw [hl] at h1
      obtain ⟨c, hc, rfl⟩ := seqO_map_single h1
      have hne' : l ≠ .nil := by
        intro h0; subst h0
        have := (isEmptyN_iff nd).mpr hl
        rw [hne] at this; cases this
      have := repLink_row_ne_nil hc hne'
      simp only [List.map_cons, List.map_nil, pr, mkRow_single]
      exact mk_last_of_ne _ this
  · exact mk_mkRow_entries hcl' hv.2 hk

/-- a valid node object denotes a row that `T.mk` turns into the absent link iff the node is empty -/
theorem repLink_mk_nil_iff {h : Heap} {st : List SNode} {g b : Nat} {nd : MNode} {z : Bool × T × List Nat}
    (hz : repLink h st g (.ptr b) = some z) (hb : h[b]? = some nd) : T.mk z.2.1 = T.nil ↔ isEmptyN nd = true := by
  constructor
  · intro hmk
    cases he : isEmptyN nd with
    | true => rfl
    | false =>
      rw [repLink_mk_of_nonempty hz hb he] at hmk
      exact absurd hmk (repLink_row_ne_nil hz (by simp))
  · intro he
    obtain ⟨g', cs, rfl, hv, h1, hcl, rfl⟩ := repLink_ptr_inv hz hb
    have hl := (isEmptyN_iff nd).mp he
    rw [hl] at h1
    obtain ⟨c, hc, rfl⟩ := seqO_map_single h1
    simp at hc; subst hc
    rw [nodeRep_row]
    simp [pr, mkRow_single, T.mk]

/-! ## `pruneRep`, `topRep` -/

theorem pruneRep_row (z : Bool × T × List Nat) : (pruneRep z).2.1 = T.mk z.2.1 := by
  unfold pruneRep
  split
  · next h => exact h.symm
  · next h =>
    rcases mk_eq_nil_or z.2.1 with h1 | h1
    · exact absurd h1 h
    · exact h1.symm

theorem pruneRep_fp_sublist (z : Bool × T × List Nat) : (pruneRep z).2.2.Sublist z.2.2 := by
  unfold pruneRep
  split
  · exact List.nil_sublist _
  · exact List.Sublist.refl _

theorem pruneRep_flag {z : Bool × T × List Nat} (hz : z.1 = false) : (pruneRep z).1 = false := by
  unfold pruneRep
  split
  · rfl
  · exact hz

/-- the row on top after pruning is `plugDel` of the bottom row -/
theorem topRep_row (frs : List Fr) (bx : Bool × T × List Nat) : (topRep frs bx).2.1 = plugDel frs bx.2.1 := by
  induction frs with
  | nil => rfl
  | cons fr frs ih =>
    show (fr.plug (pruneRep (topRep frs bx))).2.1 = fr.plugRow (T.mk (plugDel frs bx.2.1))
    rw [Fr.plug_row, pruneRep_row, ih]

/-- pruning only drops addresses -/
theorem topRep_fp_sublist (frs : List Fr) (bx : Bool × T × List Nat) :
    (topRep frs bx).2.2.Sublist (plug frs bx).2.2 := by
  induction frs with
  | nil => exact List.Sublist.refl _
  | cons fr frs ih =>
    show (fr.plug (pruneRep (topRep frs bx))).2.2.Sublist (fr.plug (plug frs bx)).2.2
    rw [Fr.plug_fp, Fr.plug_fp]
    exact List.Sublist.append (List.Sublist.append (List.Sublist.refl _) ((pruneRep_fp_sublist _).trans ih))
      (List.Sublist.refl _)

/-! ## `relink` with pruning -/

/-- what `relink` establishes -/
def RelinkOK' (frs : List Fr) (bx : Bool × T × List Nat) (q : List (Nat × Nat)) (s s' : PS) : Prop :=
  s'.heap.length = s.heap.length ∧ DirtyMono s.heap s'.heap ∧
  (∀ (a : Nat) (nd : MNode), s.heap[a]? = some nd → (∀ p ∈ q, p.1 ≠ a) → s'.heap[a]? = some nd) ∧
  ∃ a0 i0 rest g', q = (a0, i0) :: rest ∧ repLink s'.heap s'.store g' (.ptr a0) = some (topRep frs bx)

theorem relink_spec' {m : Nat} : ∀ (q : List (Nat × Nat)) (frs : List Fr) (s : PS) (bx : Bool × T × List Nat)
    (g b j : Nat), Good s → Ctx s.heap s.store q frs → q.getLast? = some (b, j) →
    repLink s.heap s.store g (.ptr b) = some bx →
    (plug frs bx).2.2.Nodup → (∀ p ∈ q, ∃ nd, s.heap[p.1]? = some nd ∧ nd.shared = false) →
    Spec (Step m) (relink m q) s (fun _ s' => RelinkOK' frs bx q s s') := by
  intro q
  induction q with
  | nil => intro frs s bx g b j _ hc; cases frs <;> exact hc.elim
  | cons x rest ih =>
    intro frs s bx g b j hg hctx hlast hbx hnodup hun
    obtain ⟨a, i⟩ := x
    cases rest with
    | nil =>
      cases frs with
      | cons _ _ => exact hctx.elim
      | nil =>
        simp at hlast
        obtain ⟨rfl, rfl⟩ := hlast
        unfold relink
        exact Spec.pure ⟨rfl, DirtyMono.refl _, fun _ _ h _ => h, a, i, [], g, rfl, hbx⟩
    | cons y rest' =>
      obtain ⟨b1, j1⟩ := y
      cases frs with
      | nil => exact hctx.elim
      | cons fr frs1 =>
        have hmem := Ctx.path_mem_fp hctx hlast hbx hun
        obtain ⟨⟨nd, gk, hnd, hv, hown0, hks, hvs, hi, hilt, hL, hR⟩, hrest⟩ := hctx
        have hlast' : ((b1, j1) :: rest').getLast? = some (b, j) := by
          rw [List.getLast?_cons_cons] at hlast; exact hlast
        have hun' : ∀ p ∈ (b1, j1) :: rest', ∃ nd, s.heap[p.1]? = some nd ∧ nd.shared = false :=
          fun p hp => hun p (List.mem_cons_of_mem _ hp)
        have hmem' := Ctx.path_mem_fp hrest hlast' hbx hun'
        have hfp : (plug (fr :: frs1) bx).2.2 = (fr.own ++ fps fr.L) ++ (plug frs1 bx).2.2 ++ fps fr.R := by
          show (fr.plug (plug frs1 bx)).2.2 = _
          rw [Fr.plug_fp]
        rw [hfp] at hnodup hmem
        have hsa : nd.shared = false := by
          obtain ⟨nd', hnd', hs⟩ := hun (a, i) (by simp)
          rw [hnd] at hnd'; injection hnd' with hnd'; subst hnd'; exact hs
        have hownA : fr.own = [a] := by rw [hown0]; simp [ownFp, hsa]
        have hnodup' := hnodup
        simp only [List.nodup_append, List.mem_append] at hnodup'
        obtain ⟨⟨⟨hnO, hnL, hOL⟩, hnM, hOLM⟩, hnR, hAMR⟩ := hnodup'
        have hnodup1 : (plug frs1 bx).2.2.Nodup := hnM
        -- the node `a` is not on the rest of the path, nor in any sibling footprint
        have haM : a ∉ (plug frs1 bx).2.2 := by
          intro h
          exact hOLM a (Or.inl (by rw [hownA]; simp)) a h rfl
        have haT : a ∉ (topRep frs1 bx).2.2 := fun h => haM ((topRep_fp_sublist frs1 bx).subset h)
        have hatail : ∀ p ∈ (b1, j1) :: rest', p.1 ≠ a := by
          intro p hp h
          exact haM (h ▸ hmem' p hp)
        have hpathL : ∀ p ∈ (a, i) :: (b1, j1) :: rest', p.1 ∉ fps fr.L := by
          intro p hp hL'
          rcases List.mem_cons.mp hp with h | h
          · subst h
            exact hOL a (by rw [hownA]; simp) a hL' rfl
          · exact hOLM p.1 (Or.inr hL') p.1 (hmem' p h) rfl
        have hpathR : ∀ p ∈ (a, i) :: (b1, j1) :: rest', p.1 ∉ fps fr.R := by
          intro p hp hR'
          rcases List.mem_cons.mp hp with h | h
          · subst h
            exact hAMR a (Or.inl (Or.inl (by rw [hownA]; simp))) a hR' rfl
          · exact hAMR p.1 (Or.inr (hmem' p h)) p.1 hR' rfl
        unfold relink
        refine Spec.bind (ih frs1 s bx g b j hg hrest hlast' hbx hnodup1 hun') ?_
        rintro _ sa _ hsta ⟨hlena, hdma, hfra, a0, i0, rest0, g1, hq0, hxb⟩
        injection hq0 with hq0 _
        injection hq0 with hq0 _
        subst hq0
        refine Spec.bind (read_spec b1 sa) ?_
        rintro cnd s1 _ _ ⟨rfl, hcnd⟩
        refine Spec.bind (read_spec a sa) ?_
        rintro nda s1 _ _ ⟨rfl, hnda⟩
        have hnda' : sa.heap[a]? = some nd := hfra a nd hnd hatail
        rw [hnda'] at hnda; injection hnda with hnda; subst hnda
        split
        · exact Spec.panic
        · refine (write_spec (m := m) a _ sa).conseq ?_
          rintro _ s' _ hst' ⟨old, hold, ho1, ho2, _, _, _, rfl⟩
          have hlt : a < sa.heap.length := (List.getElem?_eq_some_iff.mp hnda').1
          obtain ⟨lk, hlk⟩ : ∃ lk : HLink, lk = (if isEmptyN cnd then HLink.nil else HLink.ptr b1) := ⟨_, rfl⟩
          rw [← hlk]
          obtain ⟨nd1, hnd1⟩ : ∃ nd1 : MNode, nd1 = { nd with links := nd.links.set i lk } := ⟨_, rfl⟩
          obtain ⟨H, hH⟩ : ∃ H : Heap, H = sa.heap.set a nd1 := ⟨_, rfl⟩
          rw [← hnd1]
          show RelinkOK' (fr :: frs1) bx ((a, i) :: (b1, j1) :: rest') s { sa with heap := sa.heap.set a nd1 }
          rw [← hH]
          have hHa : H[a]? = some nd1 := by rw [hH]; exact List.getElem?_set_self hlt
          have hHne : ∀ a', a' ≠ a → H[a']? = sa.heap[a']? := by
            intro a' hne'; rw [hH, List.getElem?_set_ne (Ne.symm hne')]
          refine ⟨by show H.length = _; rw [hH]; simp [hlena], ?_, ?_, a, i, _, max gk g1 + 1, rfl, ?_⟩
          · show DirtyMono s.heap H
            rw [hH]
            exact hdma.trans (dirtyMono_set hnda' (fun h => by rw [hnd1]; exact h))
          · intro a' x hx hnp
            have h1 := hfra a' x hx (fun p hp => hnp p (List.mem_cons_of_mem _ hp))
            have hne' : a' ≠ a := fun h => hnp (a, i) (by simp) h.symm
            show H[a']? = some x
            rw [hHne a' hne']; exact h1
          · -- the re-linked node denotes the frame plugged with the pruned child
            show repLink H sa.store (max gk g1 + 1) (.ptr a) = some (topRep (fr :: frs1) bx)
            have hzf : (topRep frs1 bx).1 = false := repLink_flag_ptr hxb
            -- objects off the path are the same in `s` and in the final heap
            have hfr2 : ∀ (a' : Nat) (x : MNode), s.heap[a']? = some x →
                ¬ (∃ p ∈ (a, i) :: (b1, j1) :: rest', p.1 = a') → H[a']? = some x := by
              intro a' x hx hnp
              have hne' : a' ≠ a := fun h => hnp ⟨(a, i), by simp, h.symm⟩
              rw [hHne a' hne']
              exact hfra a' x hx (fun p hp h => hnp ⟨p, List.mem_cons_of_mem _ hp, h⟩)
            have hW2 : ∀ (a' : Nat) (x : MNode), s.heap[a']? = some x →
                (∃ p ∈ (a, i) :: (b1, j1) :: rest', p.1 = a') → x.shared = false := by
              rintro a' x hx ⟨p, hp, rfl⟩
              obtain ⟨x', hx', hs⟩ := hun p hp
              rw [hx] at hx'; injection hx' with hx'; subst hx'; exact hs
            have hsib : ∀ (cs : List (Bool × T × List Nat)) (ls : List HLink),
                seqO (ls.map (repLink s.heap s.store gk)) = some cs →
                (∀ p ∈ (a, i) :: (b1, j1) :: rest', p.1 ∉ fps cs) →
                seqO (ls.map (repLink H sa.store (max gk g1))) = some cs := by
              intro cs ls hcs hdis
              refine seqO_map_congr hcs (fun l hl c hc => ?_)
              have := repLink_frame (h := s.heap) (st := s.store) [] _ hfr2 hW2 gk l c hc (by
                rintro y hy ⟨p, hp, rfl⟩
                obtain ⟨c', hc1, hc2⟩ := seqO_map_mem hcs hl
                rw [hc] at hc1; injection hc1 with hc1; subst hc1
                exact hdis p hp (mem_fps.mpr ⟨c, hc2, hy⟩))
              rw [List.append_nil, ← hsta.store] at this
              exact repLink_mono_le this (Nat.le_max_left _ _)
            -- the new link denotes the pruned child
            have hchild : repLink H sa.store (max gk g1) lk =
                some (false, (pruneRep (topRep frs1 bx)).2.1, (pruneRep (topRep frs1 bx)).2.2) := by
              cases he : isEmptyN cnd with
              | true =>
                have hl0 : lk = .nil := by rw [hlk, he]; rfl
                have hp0 : pruneRep (topRep frs1 bx) = (false, T.nil, []) := by
                  unfold pruneRep; rw [if_pos ((repLink_mk_nil_iff hxb hcnd).mpr he)]
                rw [hl0, hp0]; exact repLink_nil _ _ _
              | false =>
                have hl0 : lk = .ptr b1 := by rw [hlk, he]; rfl
                have hmk : ¬ T.mk (topRep frs1 bx).2.1 = T.nil := by
                  intro h0
                  have := (repLink_mk_nil_iff hxb hcnd).mp h0
                  rw [he] at this; cases this
                have hp0 : pruneRep (topRep frs1 bx) = topRep frs1 bx := by
                  unfold pruneRep; rw [if_neg hmk]
                have hzz : topRep frs1 bx = (false, (topRep frs1 bx).2.1, (topRep frs1 bx).2.2) := by
                  rcases hp : topRep frs1 bx with ⟨f1, r1, p1⟩
                  rw [hp] at hzf; simp at hzf; subst hzf; rfl
                rw [hl0, hp0, ← hzz]
                have := repLink_frame (h := sa.heap) (st := sa.store) [] (fun y => y = a) (h' := H)
                  (fun a' x hx hne' => by rw [hHne a' hne']; exact hx)
                  (fun a' x hx h => by subst h; rw [hnda'] at hx; injection hx with hx; subst hx; exact hsa)
                  g1 (.ptr b1) _ hxb (fun y hy h => by subst h; exact haT hy)
                rw [List.append_nil] at this
                exact repLink_mono_le this (Nat.le_max_right _ _)
            have hset : nd.links.set i lk = nd.links.take i ++ lk :: nd.links.drop (i + 1) := by
              rw [List.set_eq_take_append_cons_drop, if_pos hilt]
            refine repLink_ptr_some.mpr ⟨max gk g1, nd1,
              fr.L ++ (false, (pruneRep (topRep frs1 bx)).2.1, (pruneRep (topRep frs1 bx)).2.2) :: fr.R,
              rfl, hHa, ?_, ?_, ?_⟩
            · unfold ValidN; rw [hnd1]; simp only [List.length_set]; exact hv
            · rw [hnd1]
              show seqO ((nd.links.set i lk).map _) = some _
              rw [hset]
              refine seqO_map_append.mpr ⟨fr.L, _, hsib fr.L _ hL hpathL, ?_, rfl⟩
              exact seqO_map_cons.mpr ⟨_, fr.R, hchild, hsib fr.R _ hR hpathR, rfl⟩
            · show fr.plug (pruneRep (topRep frs1 bx)) = _
              unfold Fr.plug
              rw [hnd1]
              simp only [ownFp, hsa, hownA, hks, hvs]
              rfl

/-! ## `savePath` with pruning -/

/-- `savePathForRoot` with pruning -/
theorem savePath_spec' {m : Nat} (q : List (Nat × Nat)) (frs : List Fr) (s : PS) (bx : Bool × T × List Nat)
    (g b j : Nat) (hg : Good s) (hctx : Ctx s.heap s.store q frs) (hlast : q.getLast? = some (b, j))
    (hbx : repLink s.heap s.store g (.ptr b) = some bx)
    (hnodup : (plug frs bx).2.2.Nodup) (howned : FpOwned s.heap m (plug frs bx).2.2) :
    Spec (Step m) (savePath m q) s (fun root s' => ∃ a0 g' y, root = .ptr a0 ∧
      repLink s'.heap s'.store g' (.ptr a0) = some y ∧ y.2.1 = plugDel frs bx.2.1 ∧
      FpExt s.heap.length (plug frs bx).2.2 y.2.2 ∧ rootDirty s'.heap root = true) := by
  unfold savePath
  refine Spec.bind (mutPath_spec' (m := m) q frs s bx g b j hg hctx hlast hbx hnodup howned) ?_
  rintro q' s1 _ hst1 ⟨hsnd, hsh, hdm, hod, frs', bx', g1, b', j', hctx1, hlast1, hbx1, hrow1, hplug1, hdel1, hfp1⟩
  have hg1 := hst1.good hg
  refine Spec.bind (relink_spec' (m := m) q' frs' s1 bx' g1 b' j' hg1 hctx1 hlast1 hbx1 hfp1.1
    (fun p hp => by obtain ⟨nd, h1, h2, _⟩ := hod p hp; exact ⟨nd, h1, h2⟩)) ?_
  rintro _ s2 _ hst2 ⟨hlen2, hdm2, hfr2, a0, i0, rest0, g2, rfl, hrep2⟩
  dsimp only
  have hsub := topRep_fp_sublist frs' bx'
  refine Spec.pure ⟨a0, g2, _, rfl, hrep2, ?_, ⟨hsub.nodup hfp1.1, fun y hy => hfp1.2 y (hsub.subset hy)⟩, ?_⟩
  · rw [topRep_row, hdel1, hrow1]
  · obtain ⟨nd, h1, _, _, hd⟩ := hod (a0, i0) (by simp)
    obtain ⟨nd2, h2, hd2⟩ := hdm2 a0 nd h1 hd
    simp [rootDirty, h2, hd2]

end Mast.Ptr

#print axioms Mast.Ptr.savePath_spec'
