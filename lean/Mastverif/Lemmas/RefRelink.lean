import Mastverif.Lemmas.RefMutPath
/-! The second loop of `savePathForRoot`: re-linking bottom-up (no pruning happens on an insert path). -/
namespace Mast.Ptr
open Mast.Heap

/-- unshared path nodes are in the footprint of the plugged context -/
theorem Ctx.path_mem_fp {h : Heap} {st : List SNode} : ∀ {q : List (Nat × Nat)} {frs : List Fr}
    {bx : Bool × T × List Nat} {g b j : Nat}, Ctx h st q frs → q.getLast? = some (b, j) →
    repLink h st g (.ptr b) = some bx → (∀ p ∈ q, ∃ nd, h[p.1]? = some nd ∧ nd.shared = false) →
    ∀ p ∈ q, p.1 ∈ (plug frs bx).2.2 := by
  intro q
  induction q with
  | nil => intro frs _ _ _ _ hc; cases frs <;> exact hc.elim
  | cons x rest ih =>
    intro frs bx g b j hctx hlast hbx hun
    obtain ⟨a, i⟩ := x
    cases rest with
    | nil =>
      cases frs with
      | cons _ _ => exact hctx.elim
      | nil =>
        simp at hlast
        obtain ⟨rfl, rfl⟩ := hlast
        intro p hp
        simp at hp; subst hp
        obtain ⟨nd, hnd, hs⟩ := hun (a, i) (by simp)
        obtain ⟨g', cs, _, _, _, _, rfl⟩ := repLink_ptr_inv hbx hnd
        show a ∈ (nodeRep false (ownFp nd a) nd.keys nd.vals cs).2.2
        rw [nodeRep_fp]
        exact List.mem_append.mpr (Or.inl (mem_ownFp.mpr ⟨hs, rfl⟩))
    | cons y rest' =>
      obtain ⟨b1, j1⟩ := y
      cases frs with
      | nil => exact hctx.elim
      | cons fr frs1 =>
        obtain ⟨⟨nd, gk, hnd, hv, hown0, _⟩, hrest⟩ := hctx
        have hlast' : ((b1, j1) :: rest').getLast? = some (b, j) := by
          rw [List.getLast?_cons_cons] at hlast; exact hlast
        intro p hp
        show p.1 ∈ (fr.plug (plug frs1 bx)).2.2
        rw [Fr.plug_fp]
        simp only [List.mem_append]
        rcases List.mem_cons.mp hp with h | h
        · subst h
          obtain ⟨nd', hnd', hs⟩ := hun (a, i) (by simp)
          rw [hnd] at hnd'; injection hnd' with hnd'; subst hnd'
          left; left; left
          rw [hown0]; exact mem_ownFp.mpr ⟨hs, rfl⟩
        · left; right
          exact ih hrest hlast' hbx (fun p hp => hun p (List.mem_cons_of_mem _ hp)) p h

/-- what `relink` establishes -/
def RelinkOK (frs : List Fr) (bx : Bool × T × List Nat) (q : List (Nat × Nat)) (s s' : PS) : Prop :=
  s'.heap.length = s.heap.length ∧ DirtyMono s.heap s'.heap ∧
  (∀ (a : Nat) (nd : MNode), s.heap[a]? = some nd → (∀ p ∈ q, p.1 ≠ a) → s'.heap[a]? = some nd) ∧
  ∃ a0 i0 rest g' nd0, q = (a0, i0) :: rest ∧ repLink s'.heap s'.store g' (.ptr a0) = some (plug frs bx) ∧
    s'.heap[a0]? = some nd0 ∧ isEmptyN nd0 = false

theorem set_ptr_ne_nil {ls : List HLink} {i b : Nat} (hi : i < ls.length) : ls.set i (.ptr b) ≠ [HLink.nil] := by
  intro h
  have h1 : (ls.set i (.ptr b))[i]? = some (.ptr b) := List.getElem?_set_self hi
  rw [h] at h1
  cases i with
  | zero => simp at h1
  | succ i => simp at h1

theorem relink_spec {m : Nat} : ∀ (q : List (Nat × Nat)) (frs : List Fr) (s : PS) (bx : Bool × T × List Nat)
    (g b j : Nat) (ndb : MNode), Good s → Ctx s.heap s.store q frs → q.getLast? = some (b, j) →
    repLink s.heap s.store g (.ptr b) = some bx → s.heap[b]? = some ndb → isEmptyN ndb = false →
    (plug frs bx).2.2.Nodup → (∀ p ∈ q, ∃ nd, s.heap[p.1]? = some nd ∧ nd.shared = false) →
    Spec (Step m) (relink m q) s (fun _ s' => RelinkOK frs bx q s s') := by
  intro q
  induction q with
  | nil => intro frs s bx g b j ndb _ hc; cases frs <;> exact hc.elim
  | cons x rest ih =>
    intro frs s bx g b j ndb hg hctx hlast hbx hndb hne hnodup hun
    obtain ⟨a, i⟩ := x
    cases rest with
    | nil =>
      cases frs with
      | cons _ _ => exact hctx.elim
      | nil =>
        simp at hlast
        obtain ⟨rfl, rfl⟩ := hlast
        unfold relink
        exact Spec.pure ⟨rfl, DirtyMono.refl _, fun _ _ h _ => h, a, i, [], g, ndb, rfl, hbx, hndb, hne⟩
    | cons y rest' =>
      obtain ⟨b1, j1⟩ := y
      cases frs with
      | nil => exact hctx.elim
      | cons fr frs1 =>
        have hmem := Ctx.path_mem_fp hctx hlast hbx hun
        obtain ⟨⟨nd, gk, hnd, hv, hown0, hks, hvs, hi, hilt, hL, hR⟩, hrest⟩ := hctx
        have hlast' : ((b1, j1) :: rest').getLast? = some (b, j) := by
          rw [List.getLast?_cons_cons] at hlast; exact hlast
        have hun' : ∀ p ∈ (b1, j1) :: rest', ∃ nd, s.heap[p.1]? = some nd ∧ nd.shared = false :=
          fun p hp => hun p (List.mem_cons_of_mem _ hp)
        have hmem' := Ctx.path_mem_fp hrest hlast' hbx hun'
        have hfp : (plug (fr :: frs1) bx).2.2 = (fr.own ++ fps fr.L) ++ (plug frs1 bx).2.2 ++ fps fr.R := by
          show (fr.plug (plug frs1 bx)).2.2 = _
          rw [Fr.plug_fp]
        rw [hfp] at hnodup hmem
        have hsa : nd.shared = false := by
          obtain ⟨nd', hnd', hs⟩ := hun (a, i) (by simp)
          rw [hnd] at hnd'; injection hnd' with hnd'; subst hnd'; exact hs
        have hownA : fr.own = [a] := by rw [hown0]; simp [ownFp, hsa]
        have hnodup' := hnodup
        simp only [List.nodup_append, List.mem_append] at hnodup'
        obtain ⟨⟨⟨hnO, hnL, hOL⟩, hnM, hOLM⟩, hnR, hAMR⟩ := hnodup'
        have hnodup1 : (plug frs1 bx).2.2.Nodup := hnM
        -- the node `a` is not on the rest of the path, nor in any sibling footprint
        have haM : a ∉ (plug frs1 bx).2.2 := by
          intro h
          exact hOLM a (Or.inl (by rw [hownA]; simp)) a h rfl
        have hatail : ∀ p ∈ (b1, j1) :: rest', p.1 ≠ a := by
          intro p hp h
          exact haM (h ▸ hmem' p hp)
        have hpathL : ∀ p ∈ (a, i) :: (b1, j1) :: rest', p.1 ∉ fps fr.L := by
          intro p hp hL'
          rcases List.mem_cons.mp hp with h | h
          · subst h
            exact hOL a (by rw [hownA]; simp) a hL' rfl
          · exact hOLM p.1 (Or.inr hL') p.1 (hmem' p h) rfl
        have hpathR : ∀ p ∈ (a, i) :: (b1, j1) :: rest', p.1 ∉ fps fr.R := by
          intro p hp hR'
          rcases List.mem_cons.mp hp with h | h
          · subst h
            exact hAMR a (Or.inl (Or.inl (by rw [hownA]; simp))) a hR' rfl
          · exact hAMR p.1 (Or.inr (hmem' p h)) p.1 hR' rfl
        unfold relink
        refine Spec.bind (ih frs1 s bx g b j ndb hg hrest hlast' hbx hndb hne hnodup1 hun') ?_
        rintro _ sa _ hsta ⟨hlena, hdma, hfra, a0, i0, rest0, g1, nd0, hq0, hxb, hnd0, hne0⟩
        injection hq0 with hq0 _
        injection hq0 with hq0 _
        subst hq0
        refine Spec.bind (read_spec b1 sa) ?_
        rintro cnd s1 _ _ ⟨rfl, hcnd⟩
        rw [hnd0] at hcnd; injection hcnd with hcnd; subst hcnd
        refine Spec.bind (read_spec a sa) ?_
        rintro nda s1 _ _ ⟨rfl, hnda⟩
        have hnda' : sa.heap[a]? = some nd := hfra a nd hnd hatail
        rw [hnda'] at hnda; injection hnda with hnda; subst hnda
        split
        · exact Spec.panic
        · refine (write_spec (m := m) a _ sa).conseq ?_
          rintro _ s' _ hst' ⟨old, hold, ho1, ho2, _, _, _, rfl⟩
          simp only [hne0, Bool.false_eq_true, if_false]
          have hlt : a < sa.heap.length := (List.getElem?_eq_some_iff.mp hnda').1
          obtain ⟨nd1, hnd1⟩ : ∃ nd1 : MNode, nd1 = { nd with links := nd.links.set i (.ptr b1) } := ⟨_, rfl⟩
          obtain ⟨H, hH⟩ : ∃ H : Heap, H = sa.heap.set a nd1 := ⟨_, rfl⟩
          rw [← hnd1]
          show RelinkOK (fr :: frs1) bx ((a, i) :: (b1, j1) :: rest') s { sa with heap := sa.heap.set a nd1 }
          rw [← hH]
          have hHa : H[a]? = some nd1 := by rw [hH]; exact List.getElem?_set_self hlt
          have hHne : ∀ a', a' ≠ a → H[a']? = sa.heap[a']? := by
            intro a' hne'; rw [hH, List.getElem?_set_ne (Ne.symm hne')]
          refine ⟨by show H.length = _; rw [hH]; simp [hlena], ?_, ?_, a, i, _, max gk g1 + 1, nd1, rfl, ?_, hHa, ?_⟩
          · show DirtyMono s.heap H
            rw [hH]
            exact hdma.trans (dirtyMono_set hnda' (fun h => by rw [hnd1]; exact h))
          · intro a' x hx hnp
            have h1 := hfra a' x hx (fun p hp => hnp p (List.mem_cons_of_mem _ hp))
            have hne' : a' ≠ a := fun h => hnp (a, i) (by simp) h.symm
            show H[a']? = some x
            rw [hHne a' hne']; exact h1
          · -- the re-linked node denotes the plugged frame
            show repLink H sa.store (max gk g1 + 1) (.ptr a) = some (plug (fr :: frs1) bx)
            have hxbf : plug frs1 bx = (false, (plug frs1 bx).2.1, (plug frs1 bx).2.2) := by
              have := repLink_flag_ptr hxb
              rcases hp : plug frs1 bx with ⟨f1, r1, p1⟩
              rw [hp] at this; simp at this; subst this; rfl
            -- objects off the path are the same in `s` and in the final heap
            have hfr2 : ∀ (a' : Nat) (x : MNode), s.heap[a']? = some x →
                ¬ (∃ p ∈ (a, i) :: (b1, j1) :: rest', p.1 = a') → H[a']? = some x := by
              intro a' x hx hnp
              have hne' : a' ≠ a := fun h => hnp ⟨(a, i), by simp, h.symm⟩
              rw [hHne a' hne']
              exact hfra a' x hx (fun p hp h => hnp ⟨p, List.mem_cons_of_mem _ hp, h⟩)
            have hW2 : ∀ (a' : Nat) (x : MNode), s.heap[a']? = some x →
                (∃ p ∈ (a, i) :: (b1, j1) :: rest', p.1 = a') → x.shared = false := by
              rintro a' x hx ⟨p, hp, rfl⟩
              obtain ⟨x', hx', hs⟩ := hun p hp
              rw [hx] at hx'; injection hx' with hx'; subst hx'; exact hs
            have hsib : ∀ (cs : List (Bool × T × List Nat)) (ls : List HLink),
                seqO (ls.map (repLink s.heap s.store gk)) = some cs →
                (∀ p ∈ (a, i) :: (b1, j1) :: rest', p.1 ∉ fps cs) →
                seqO (ls.map (repLink H sa.store (max gk g1))) = some cs := by
              intro cs ls hcs hdis
              refine seqO_map_congr hcs (fun l hl c hc => ?_)
              have := repLink_frame (h := s.heap) (st := s.store) [] _ hfr2 hW2 gk l c hc (by
                rintro y hy ⟨p, hp, rfl⟩
                obtain ⟨c', hc1, hc2⟩ := seqO_map_mem hcs hl
                rw [hc] at hc1; injection hc1 with hc1; subst hc1
                exact hdis p hp (mem_fps.mpr ⟨c, hc2, hy⟩))
              rw [List.append_nil, ← hsta.store] at this
              exact repLink_mono_le this (Nat.le_max_left _ _)
            have hchild : repLink H sa.store (max gk g1) (.ptr b1) = some (plug frs1 bx) := by
              have := repLink_frame (h := sa.heap) (st := sa.store) [] (fun y => y = a) (h' := H)
                (fun a' x hx hne' => by rw [hHne a' hne']; exact hx)
                (fun a' x hx h => by subst h; rw [hnda'] at hx; injection hx with hx; subst hx; exact hsa)
                g1 (.ptr b1) _ hxb (fun y hy h => by subst h; exact haM hy)
              rw [List.append_nil] at this
              exact repLink_mono_le this (Nat.le_max_right _ _)
            have hset : nd.links.set i (.ptr b1) = nd.links.take i ++ HLink.ptr b1 :: nd.links.drop (i + 1) := by
              rw [List.set_eq_take_append_cons_drop, if_pos hilt]
            refine repLink_ptr_some.mpr ⟨max gk g1, nd1, fr.L ++ plug frs1 bx :: fr.R, rfl, hHa, ?_, ?_, ?_⟩
            · unfold ValidN; rw [hnd1]; simp only [List.length_set]; exact hv
            · rw [hnd1]
              show seqO ((nd.links.set i (.ptr b1)).map _) = some _
              rw [hset]
              refine seqO_map_append.mpr ⟨fr.L, _, hsib fr.L _ hL hpathL, ?_, rfl⟩
              exact seqO_map_cons.mpr ⟨_, fr.R, hchild, hsib fr.R _ hR hpathR, rfl⟩
            · show fr.plug (plug frs1 bx) = _
              unfold Fr.plug
              rw [← hxbf, hnd1]
              simp only [ownFp, hsa, hownA, hks, hvs]
              rfl
          · have : ¬ (isEmptyN nd1 = true) := by
              rw [isEmptyN_iff, hnd1]
              exact set_ptr_ne_nil hilt
            simpa using this

end Mast.Ptr
