import Mastverif.Lemmas.Incr
/-!
# What hangs below a persisted link is never touched

`TL P t`: every child link of the row `t` is nil, or a *name* whose subtree satisfies `P`, or an
in-memory node for which the same holds below.  Insert, Delete, grow and shrink only carry
persisted links around (new nodes get in-memory links), so `TL P` is an invariant for every
hereditary `P` (`P c → TL P c`).  With `P c := c is entirely persisted, and its name and every
name below are in the store` this gives the sequential half of C03: after every history, what a
successful `MakeRoot` returns is completely in the store.
-/
set_option linter.unusedSimpArgs false
namespace Mast
namespace T

def TL (P : T → Prop) : T → Prop
  | nil => True
  | last p c => c.isNil = true ∨ (p = true ∧ P c) ∨ (p = false ∧ TL P c)
  | cons p c _ _ r => (c.isNil = true ∨ (p = true ∧ P c) ∨ (p = false ∧ TL P c)) ∧ TL P r

variable {P : T → Prop} (her : ∀ c, P c → TL P c)
include her

theorem TL_child {p : Bool} {c : T} (h : c.isNil = true ∨ (p = true ∧ P c) ∨ (p = false ∧ TL P c)) : TL P c := by
  rcases h with h | h | h
  · have : c = nil := by cases c <;> simp_all [isNil]
    subst this; trivial
  · exact her c h.2
  · exact h.2

omit her in
theorem TL_mk {t : T} (h : TL P t) : TL P (mk t) := by
  unfold mk; split
  · trivial
  · exact h

omit her in
theorem TL_unmk {t : T} (h : TL P t) : TL P (unmk t) := by
  unfold unmk; split
  · exact Or.inl rfl
  · exact h

omit her in
/-- a new in-memory link -/
theorem TL_new {c : T} (h : TL P c) :
    c.isNil = true ∨ (false = true ∧ P c) ∨ (false = false ∧ TL P c) := Or.inr (Or.inr ⟨rfl, h⟩)

theorem split_TL (x : Nat) : ∀ t : T, TL P t → TL P (split t x).1 ∧ TL P (split t x).2 := by
  intro t
  induction t with
  | nil => intro _; exact ⟨trivial, trivial⟩
  | last p c ih =>
    intro h
    obtain ⟨i1, i2⟩ := ih (TL_child her h)
    simp only [split]
    exact ⟨TL_new (TL_mk i1), TL_new (TL_mk i2)⟩
  | cons p c k v r ihc ihr =>
    intro h
    simp only [split]
    by_cases hk : k < x
    · simp only [hk, if_true]
      obtain ⟨i1, i2⟩ := ihr h.2
      exact ⟨⟨h.1, i1⟩, i2⟩
    · simp only [hk, if_false]
      obtain ⟨i1, i2⟩ := ihc (TL_child her h.1)
      exact ⟨TL_new (TL_mk i1), ⟨TL_new (TL_mk i2), h.2⟩⟩

omit her in
theorem fresh_TL (k v : Nat) : ∀ s, TL P (freshPath s k v) := by
  intro s
  induction s with
  | zero => exact ⟨Or.inl rfl, Or.inl rfl⟩
  | succ s ih => exact TL_new ih

theorem ins_TL (k v : Nat) : ∀ (t : T) (s : Nat) (t' : T), TL P t → ins k v s t = some t' → TL P t' := by
  intro t
  induction t with
  | nil =>
    intro s t' _ he
    cases s <;> (simp only [ins, Option.some.injEq] at he; subst he; exact fresh_TL k v _)
  | last p c ih =>
    intro s t' h he
    cases s with
    | zero =>
      simp only [ins, Option.some.injEq] at he
      subst he
      obtain ⟨i1, i2⟩ := split_TL her k c (TL_child her h)
      exact ⟨TL_new (TL_mk i1), TL_new (TL_mk i2)⟩
    | succ s =>
      simp only [ins] at he
      cases hc : ins k v s c with
      | none => simp [hc] at he
      | some c' =>
        simp only [hc, Option.map_some, Option.some.injEq] at he
        subst he
        exact TL_new (ih s c' (TL_child her h) hc)
  | cons p c k' v' r ihc ihr =>
    intro s t' h he
    cases s with
    | zero =>
      simp only [ins] at he
      by_cases h1 : k' < k
      · simp only [h1, if_true] at he
        cases hr : ins k v 0 r with
        | none => simp [hr] at he
        | some r' =>
          simp only [hr, Option.map_some, Option.some.injEq] at he
          subst he
          exact ⟨h.1, ihr 0 r' h.2 hr⟩
      · by_cases h2 : k' = k
        · subst h2
          simp only [Nat.lt_irrefl, if_false, if_true, Option.some.injEq] at he
          subst he
          exact h
        · simp only [h1, h2, if_false, Option.some.injEq] at he
          subst he
          obtain ⟨i1, i2⟩ := split_TL her k c (TL_child her h.1)
          exact ⟨TL_new (TL_mk i1), ⟨TL_new (TL_mk i2), h.2⟩⟩
    | succ s =>
      simp only [ins] at he
      by_cases h1 : k' < k
      · simp only [h1, if_true] at he
        cases hr : ins k v (s + 1) r with
        | none => simp [hr] at he
        | some r' =>
          simp only [hr, Option.map_some, Option.some.injEq] at he
          subst he
          exact ⟨h.1, ihr (s + 1) r' h.2 hr⟩
      · by_cases h2 : k' = k
        · simp [h1, h2] at he
        · simp only [h1, h2, if_false] at he
          cases hc : ins k v s c with
          | none => simp [hc] at he
          | some c' =>
            simp only [hc, Option.map_some, Option.some.injEq] at he
            subst he
            exact ⟨TL_new (ihc s c' (TL_child her h.1) hc), h.2⟩

theorem mergeRow_TL : ∀ (a b : T), TL P a → TL P b → TL P (mergeRow a b) := by
  intro a
  induction a with
  | nil => intro b _ hb; simpa [mergeRow] using hb
  | cons p c k1 v rest _ ihr =>
    intro b ha hb
    simp only [mergeRow]
    exact ⟨ha.1, ihr b ha.2 hb⟩
  | last p c ih =>
    intro b ha hb
    cases b with
    | nil => simpa [mergeRow] using ha
    | last p2 c2 =>
      simp only [mergeRow]
      by_cases h1 : c.isNil = true
      · simp only [h1, if_true]; exact hb
      · by_cases h2 : c2.isNil = true
        · simp only [h1, h2, if_false, if_true]; exact ha
        · simp only [h1, h2, if_false]
          exact TL_new (ih c2 (TL_child her ha) (TL_child her hb))
    | cons p2 c2 k2 v2 r2 =>
      simp only [mergeRow]
      by_cases h1 : c.isNil = true
      · simp only [h1, if_true]; exact hb
      · by_cases h2 : c2.isNil = true
        · simp only [h1, h2, if_false, if_true]; exact ⟨ha, hb.2⟩
        · simp only [h1, h2, if_false]
          exact ⟨TL_new (ih c2 (TL_child her ha) (TL_child her hb.1)), hb.2⟩

theorem joinAt_TL (p : Bool) (c : T) : ∀ (r : T), TL P (last p c) → TL P r → TL P (joinAt p c r) := by
  intro r ha hb
  cases r with
  | nil => trivial
  | last p2 c2 =>
    simp only [joinAt]
    by_cases h1 : c.isNil = true
    · simp only [h1, if_true]; exact hb
    · by_cases h2 : c2.isNil = true
      · simp only [h1, h2, if_false, if_true]; exact ha
      · simp only [h1, h2, if_false]
        exact TL_new (mergeRow_TL her c c2 (TL_child her ha) (TL_child her hb))
  | cons p2 c2 k2 v2 r2 =>
    simp only [joinAt]
    by_cases h1 : c.isNil = true
    · simp only [h1, if_true]; exact hb
    · by_cases h2 : c2.isNil = true
      · simp only [h1, h2, if_false, if_true]; exact ⟨ha, hb.2⟩
      · simp only [h1, h2, if_false]
        exact ⟨TL_new (mergeRow_TL her c c2 (TL_child her ha) (TL_child her hb.1)), hb.2⟩

theorem del_TL (k : Nat) : ∀ (t : T) (s : Nat) (t' : T), TL P t → del k s t = some t' → TL P t' := by
  intro t
  induction t with
  | nil => intro s t' _ he; cases s <;> simp [del] at he
  | last p c ih =>
    intro s t' h he
    cases s with
    | zero => simp [del] at he
    | succ s =>
      simp only [del] at he
      cases hc : del k s c with
      | none => simp [hc] at he
      | some c' =>
        simp only [hc, Option.map_some, Option.some.injEq] at he
        subst he
        exact TL_new (TL_mk (ih s c' (TL_child her h) hc))
  | cons p c k' v' r ihc ihr =>
    intro s t' h he
    cases s with
    | zero =>
      simp only [del] at he
      by_cases h1 : k' < k
      · simp only [h1, if_true] at he
        cases hr : del k 0 r with
        | none => simp [hr] at he
        | some r' =>
          simp only [hr, Option.map_some, Option.some.injEq] at he
          subst he
          exact ⟨h.1, ihr 0 r' h.2 hr⟩
      · by_cases h2 : k' = k
        · subst h2
          simp only [Nat.lt_irrefl, if_false, if_true, Option.some.injEq] at he
          subst he
          exact joinAt_TL her p c r h.1 h.2
        · simp [h1, h2] at he
    | succ s =>
      simp only [del] at he
      by_cases h1 : k' < k
      · simp only [h1, if_true] at he
        cases hr : del k (s + 1) r with
        | none => simp [hr] at he
        | some r' =>
          simp only [hr, Option.map_some, Option.some.injEq] at he
          subst he
          exact ⟨h.1, ihr (s + 1) r' h.2 hr⟩
      · by_cases h2 : k' = k
        · simp [h2] at he
        · simp only [h1, h2, if_false] at he
          cases hc : del k s c with
          | none => simp [hc] at he
          | some c' =>
            simp only [hc, Option.map_some, Option.some.injEq] at he
            subst he
            exact ⟨TL_new (TL_mk (ihc s c' (TL_child her h.1) hc)), h.2⟩

/-! ## grow and shrink -/

omit her in
theorem snoc_TL (k v : Nat) (rest : T) : ∀ c : T, TL P c → TL P rest → TL P (snoc k v rest c) := by
  intro c
  induction c with
  | nil => intro _ hr; exact ⟨Or.inl rfl, hr⟩
  | last p x _ => intro hc hr; exact ⟨hc, hr⟩
  | cons p x k' v' r _ ihr => intro hc hr; exact ⟨hc.1, ihr hc.2 hr⟩

theorem shrink_TL : ∀ t : T, TL P t → TL P (shrink t) := by
  intro t
  induction t with
  | nil => intro _; trivial
  | last p c _ => intro h; exact TL_unmk (TL_child her h)
  | cons p c k v r _ ihr => intro h; exact snoc_TL k v _ c (TL_child her h.1) (ihr h.2)

theorem prepend_TL (p : Bool) (c : T) (k v : Nat)
    (hl : c.isNil = true ∨ (p = true ∧ P c) ∨ (p = false ∧ TL P c)) :
    ∀ g : T, TL P g → TL P (prepend p c k v g) := by
  intro g hg
  cases g with
  | nil => trivial
  | last q ch => exact TL_new ⟨hl, TL_unmk (TL_child her hg)⟩
  | cons q ch k2 v2 r2 => exact ⟨TL_new ⟨hl, TL_unmk (TL_child her hg.1)⟩, hg.2⟩

theorem grow_TL (layer : Nat → Nat) (h0 : Nat) : ∀ t : T, TL P t → TL P (grow layer h0 t) := by
  intro t
  induction t with
  | nil => intro _; trivial
  | last p c _ =>
    intro h
    simp only [grow]
    exact TL_new (TL_mk h)
  | cons p c k v r _ ihr =>
    intro h
    simp only [grow]
    split
    · exact ⟨TL_new (TL_mk (show TL P (last p c) from h.1)), ihr h.2⟩
    · exact prepend_TL her p c k v h.1 _ (ihr h.2)

end T
end Mast
