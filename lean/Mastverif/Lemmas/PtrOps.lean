import Mastverif.Lemmas.PtrPrim
/-! The operations of `Model/Ptr.lean`: none is ever stuck, all keep the ownership invariant. -/
namespace Mast.Ptr
open Mast.Heap

theorem toMut_sat {m lvl : Nat} (a : Nat) :
    Sat m lvl (fun s => Vis s.heap m (.ptr a)) (toMut m a) (fun a' s' => Own s'.heap m a') := by
  unfold toMut
  apply Sat.bind (read_sat a)
  intro nd
  split
  · exact Sat.panic
  · split
    · next hs =>
      apply Sat.pure
      intro s _ ⟨hnd, hw⟩
      exact own_of_vis_unshared hnd hw.vis (by simpa using hs)
    · apply (alloc_sat (m := m) { nd with shared := false, owner := m, source := none } rfl rfl ?_).conseq (Nat.le_refl _)
        (fun _ _ h => h) (fun _ _ _ h => h.1)
      intro s hinv ⟨hnd, hw⟩
      exact links_vis (nd := nd) hinv hnd hw.vis

theorem emptyNode_links_vis (h : Heap) (m : Nat) : ∀ l ∈ (emptyNode m).links, Vis h m l := by
  intro l hl; simp [emptyNode] at hl; subst hl; trivial

theorem follow_sat {m lvl : Nat} (E : Env) (a i : Nat) (create : Bool) :
    Sat m lvl (fun s => Vis s.heap m (.ptr a)) (follow E m a i create) (fun c s' => Vis s'.heap m (.ptr c)) := by
  unfold follow
  apply Sat.bind (read_sat a)
  intro nd
  split
  · exact Sat.panic
  · split
    · exact (alloc_sat (m := m) (emptyNode m) rfl rfl (fun s _ _ => emptyNode_links_vis s.heap m)).conseq (Nat.le_refl _)
        (fun _ _ h => h) (fun _ _ _ h => own_vis h.1)
    · exact Sat.pure (fun s _ h => h.2.vis)
  · next l hne hl =>
    exact (load_sat E l).conseq (Nat.le_refl _)
      (fun s hinv h => links_vis hinv h.1 h.2.vis l (List.mem_of_getElem? hl)) (fun _ _ _ h => h)

def PathVis (h : Heap) (m : Nat) (path : List (Nat × Nat)) : Prop := ∀ p ∈ path, Vis h m (.ptr p.1)

theorem Was.and_left {m lvl : Nat} {A B : PS → Prop} {s : PS} (h : Was m lvl (fun s => A s ∧ B s) s) : Was m lvl A s :=
  h.imp (fun _ x => x.1)
theorem Was.and_right {m lvl : Nat} {A B : PS → Prop} {s : PS} (h : Was m lvl (fun s => A s ∧ B s) s) : Was m lvl B s :=
  h.imp (fun _ x => x.2)

theorem Was.pathVis {m lvl : Nat} {path : List (Nat × Nat)} {s : PS}
    (h : Was m lvl (fun s => PathVis s.heap m path) s) : PathVis s.heap m path := by
  obtain ⟨s0, h0, e⟩ := h
  intro p hp; exact e.vis _ (h0 p hp)

theorem findNode_sat {m lvl : Nat} (E : Env) (key target : Nat) (create : Bool) :
    ∀ (f a cur : Nat) (path : List (Nat × Nat)),
    Sat m lvl (fun s => Vis s.heap m (.ptr a) ∧ PathVis s.heap m path)
      (findNode E m key target create f a cur path)
      (fun fd s' => Vis s'.heap m (.ptr fd.node) ∧ PathVis s'.heap m fd.path ∧
        fd.path.getLast? = some (fd.node, fd.idx)) := by
  intro f
  induction f with
  | zero => intro a cur path; exact Sat.oof
  | succ f ih =>
    intro a cur path
    unfold findNode
    apply Sat.bind (read_sat a)
    intro nd
    split
    · exact Sat.panic
    · dsimp only
      split
      · apply Sat.pure
        intro s _ ⟨_, hw⟩
        have hva := hw.and_left.vis
        have hpv := hw.and_right.pathVis
        refine ⟨hva, ?_, by simp⟩
        intro p hp
        rcases List.mem_append.mp hp with h | h
        · exact hpv p h
        · simp at h; subst h; exact hva
      · apply Sat.bind ((follow_sat E a _ create).conseq (Nat.le_refl _) (fun s _ h => h.2.and_left.vis) (fun _ _ _ h => h))
        intro c
        apply (ih c (cur - 1) (path ++ [(a, keyIdx nd.keys key)])).conseq (Nat.le_refl _) ?_ (fun _ _ _ h => h)
        intro s _ ⟨hc, hw⟩
        have hw' := hw.and_right.was
        have hva := hw'.and_left.vis
        have hpv := hw'.and_right.pathVis
        refine ⟨hc, ?_⟩
        intro p hp
        rcases List.mem_append.mp hp with h | h
        · exact hpv p h
        · simp at h; subst h; exact hva

def LinksVis (h : Heap) (m : Nat) (ls : List HLink) : Prop := ∀ l ∈ ls, Vis h m l

theorem Was.linksVis {m lvl : Nat} {ls : List HLink} {s : PS}
    (h : Was m lvl (fun s => LinksVis s.heap m ls) s) : LinksVis s.heap m ls := by
  obtain ⟨s0, h0, e⟩ := h
  intro p hp; exact e.vis _ (h0 p hp)

/-- reading an object `m` can see: its links are visible to `m` -/
theorem readV_sat {m lvl : Nat} (a : Nat) :
    Sat m lvl (fun s => Vis s.heap m (.ptr a)) (read a)
      (fun nd s => s.heap[a]? = some nd ∧ LinksVis s.heap m nd.links) := by
  intro s hinv hv
  unfold read
  cases h : s.heap[a]? with
  | none => trivial
  | some nd => exact ⟨Ext.refl _ _ _, hinv, h, links_vis hinv h hv⟩

theorem linkNew_sat {m lvl : Nat} {P : PS → Prop} (ks vs : List Nat) (ls : List HLink) (d : Bool) (src : Option Nat)
    (hl : ∀ s, Inv m s → P s → LinksVis s.heap m ls) :
    Sat m lvl P (linkNew { keys := ks, vals := vs, links := ls, dirty := d, shared := false, owner := m, source := src })
      (fun l s' => Vis s'.heap m l) := by
  unfold linkNew
  split
  · exact Sat.pure (fun _ _ _ => trivial)
  · apply Sat.bind (alloc_sat (m := m) { keys := ks, vals := vs, links := ls, dirty := d, shared := false, owner := m, source := src } rfl rfl hl)
    intro a
    exact Sat.pure (fun _ _ h => own_vis h.1.1)

theorem linkNew_sat' {m lvl : Nat} {P : PS → Prop} (nd : MNode)
    (hp : ∀ s, Inv m s → P s → nd.owner = m ∧ nd.shared = false ∧ LinksVis s.heap m nd.links) :
    Sat m lvl P (linkNew nd) (fun l s' => Vis s'.heap m l) := by
  unfold linkNew
  split
  · exact Sat.pure (fun _ _ _ => trivial)
  · apply Sat.bind (alloc_sat' nd hp)
    intro a
    exact Sat.pure (fun _ _ h => own_vis h.1.1)

theorem mem_setLast {ls : List HLink} {x l : HLink} (h : l ∈ setLast ls x) : l ∈ ls ∨ l = x := by
  unfold setLast at h
  rcases List.mem_append.mp h with h | h
  · exact Or.inl (List.dropLast_subset _ h)
  · simp at h; exact Or.inr h

theorem split_sat {m lvl : Nat} (E : Env) (key : Nat) :
    ∀ (f a : Nat), Sat m lvl (fun s => Vis s.heap m (.ptr a)) (split E m key f a)
      (fun r s' => Vis s'.heap m r.1 ∧ Vis s'.heap m r.2) := by
  intro f
  induction f with
  | zero => intro a; exact Sat.oof
  | succ f ih =>
    intro a
    unfold split
    apply Sat.bind (readV_sat a)
    intro nd
    split
    · exact Sat.panic
    · dsimp only
      split
      · exact Sat.panic
      · next leftMax hlm =>
        have hlmem : leftMax ∈ nd.links := List.mem_of_mem_take (List.mem_of_getLast? hlm)
        apply Sat.bind (Q1 := fun r s' => Vis s'.heap m r.1 ∧ Vis s'.heap m r.2)
        · split
          · exact Sat.pure (fun _ _ _ => ⟨trivial, trivial⟩)
          · apply Sat.bind ((load_sat E leftMax).conseq (Nat.le_refl _) (fun s _ h => h.1.2 leftMax hlmem) (fun _ _ _ h => h))
            intro c
            exact (ih c).conseq (Nat.le_refl _) (fun s _ h => h.1) (fun _ _ _ h => h)
        · intro r
          obtain ⟨lm, tooBig⟩ := r
          dsimp only
          apply Sat.bind (linkNew_sat _ _ _ _ _ ?_)
          · intro leftLink
            split
            · exact Sat.panic
            · next x rightRest hdrop =>
              have hrr : ∀ l ∈ rightRest, l ∈ nd.links := by
                intro l hl
                exact List.mem_of_mem_drop (i := keyIdx nd.keys key) (by rw [hdrop]; exact List.mem_cons_of_mem _ hl)
              apply Sat.bind (Q1 := fun r s' => Vis s'.heap m r.1 ∧ Vis s'.heap m r.2)
              · split
                · exact Sat.pure (fun _ _ _ => ⟨trivial, trivial⟩)
                · apply Sat.bind ((load_sat E tooBig).conseq (Nat.le_refl _) (fun s _ h => (Was.vis (h.2.and_left.and_right))) (fun _ _ _ h => h))
                  intro c
                  exact (ih c).conseq (Nat.le_refl _) (fun s _ h => h.1) (fun _ _ _ h => h)
              · intro r2
                obtain ⟨tooSmall, rm⟩ := r2
                dsimp only
                split
                · exact Sat.panic
                · apply Sat.bind (linkNew_sat _ _ _ _ _ ?_)
                  · intro rightLink
                    apply Sat.pure
                    intro s _ ⟨hq, hw⟩
                    exact ⟨Was.vis (hw.and_right.was.and_left), hq⟩
                  · intro s _ ⟨hq, hw⟩ l hl
                    rcases List.mem_cons.mp hl with h | h
                    · subst h; exact hq.2
                    · have hlv : Was m lvl (fun s => LinksVis s.heap m nd.links) s :=
                        hw.and_right.was.and_right.was.and_left.and_right
                      exact hlv.linksVis l (hrr l h)
          · intro s _ ⟨hq, hw⟩ l hl
            rcases mem_setLast hl with h | h
            · exact (hw.and_left.and_right).linksVis l (List.mem_of_mem_take h)
            · subst h; exact hq.1

def PathOwn (h : Heap) (m : Nat) (path : List (Nat × Nat)) : Prop := ∀ p ∈ path, Own h m p.1

theorem Was.pathOwn {m lvl : Nat} (hl : 1 ≤ lvl) {path : List (Nat × Nat)} {s : PS}
    (h : Was m lvl (fun s => PathOwn s.heap m path) s) : PathOwn s.heap m path := by
  obtain ⟨s0, h0, e⟩ := h
  intro p hp; exact e.own hl _ (h0 p hp)

theorem own_fields {h : Heap} {m a : Nat} {nd : MNode} (ho : Own h m a) (hnd : h[a]? = some nd) :
    nd.owner = m ∧ nd.shared = false := by
  obtain ⟨x, hx, hs, hw⟩ := ho
  rw [hnd] at hx; injection hx with hx; subst hx
  exact ⟨hw, hs⟩

theorem mutPath_sat {m : Nat} : ∀ (path : List (Nat × Nat)),
    Sat m 1 (fun s => PathVis s.heap m path) (mutPath m path) (fun p' s' => PathOwn s'.heap m p') := by
  intro path
  induction path with
  | nil => unfold mutPath; exact Sat.pure (fun _ _ _ p hp => by simp at hp)
  | cons x rest ih =>
    obtain ⟨a, i⟩ := x
    unfold mutPath
    apply Sat.bind (read_sat a)
    intro nd
    apply Sat.bind (Q1 := fun a' s' => Own s'.heap m a')
    · split
      · next hd =>
        apply Sat.pure
        intro s hinv ⟨hnd, hw⟩
        exact own_of_vis_unshared hnd (hw.pathVis (a, i) (by simp)) (hinv.du a nd hnd hd)
      · apply Sat.bind ((toMut_sat a).conseq (Nat.le_refl _) (fun s _ h => h.2.pathVis (a, i) (by simp)) (fun _ _ _ h => h))
        intro a'
        apply Sat.bind (read_sat a')
        intro nd'
        apply Sat.bind (write_sat (Nat.le_refl _) a' { nd' with dirty := true, source := none } ?_)
        · intro _
          apply Sat.pure
          intro s _ ⟨_, hw⟩
          exact Was.own (Nat.le_refl _) (hw.and_right.was.and_left)
        · intro s hinv ⟨hnd', hw⟩
          have ho : Own s.heap m a' := Was.own (Nat.le_refl _) hw.and_left
          obtain ⟨h1, h2⟩ := own_fields ho hnd'
          exact ⟨ho, links_vis (nd := nd') hinv hnd' (own_vis ho), h1, h2⟩
    · intro a'
      apply Sat.bind ((ih).conseq (Nat.le_refl _) ?_ (fun _ _ _ h => h))
      · intro rest'
        apply Sat.pure
        intro s _ ⟨hq, hw⟩ p hp
        rcases List.mem_cons.mp hp with h | h
        · subst h; exact Was.own (Nat.le_refl _) hw.and_left
        · exact hq p h
      · intro s _ ⟨_, hw⟩ p hp
        exact hw.and_right.was.pathVis p (List.mem_cons_of_mem _ hp)

theorem relink_sat {m : Nat} : ∀ (path : List (Nat × Nat)),
    Sat m 1 (fun s => PathOwn s.heap m path) (relink m path) (fun _ _ => True) := by
  intro path
  induction path with
  | nil => unfold relink; exact Sat.pure (fun _ _ _ => trivial)
  | cons x rest ih =>
    obtain ⟨a, i⟩ := x
    cases rest with
    | nil => unfold relink; exact Sat.pure (fun _ _ _ => trivial)
    | cons y rest =>
      obtain ⟨b, j⟩ := y
      unfold relink
      apply Sat.bind (ih.conseq (Nat.le_refl _) (fun s _ h p hp => h p (List.mem_cons_of_mem _ hp)) (fun _ _ _ h => h))
      intro _
      apply Sat.bind (read_sat b)
      intro cnd
      apply Sat.bind (read_sat a)
      intro nd
      split
      · exact Sat.panic
      · apply (write_sat (Nat.le_refl _) a _ ?_).conseq (Nat.le_refl _) (fun _ _ h => h) (fun _ _ _ _ => trivial)
        intro s hinv ⟨hnd, hw⟩
        have hpo : PathOwn s.heap m ((a, i) :: (b, j) :: rest) :=
          Was.pathOwn (Nat.le_refl _) hw.and_right.was.and_right.was
        have hoa := hpo (a, i) (by simp)
        have hob := hpo (b, j) (by simp)
        obtain ⟨h1, h2⟩ := own_fields hoa hnd
        refine ⟨hoa, ?_, h1, h2⟩
        intro l hl
        rcases List.mem_or_eq_of_mem_set hl with h | h
        · exact links_vis (nd := nd) hinv hnd (own_vis hoa) l h
        · subst h; split
          · trivial
          · exact own_vis hob

theorem savePath_sat {m : Nat} (path : List (Nat × Nat)) :
    Sat m 1 (fun s => PathVis s.heap m path) (savePath m path) (fun l s' => Vis s'.heap m l) := by
  unfold savePath
  apply Sat.bind (mutPath_sat path)
  intro p
  apply Sat.bind (relink_sat p |>.conseq (Nat.le_refl _) (fun _ _ h => h.1) (fun _ _ _ h => h))
  intro _
  split
  · exact Sat.panic
  · next a i rest =>
    apply Sat.pure
    intro s _ ⟨_, hw⟩
    exact own_vis (Was.pathOwn (Nat.le_refl _) hw.and_left (a, i) (by simp))

def FoundOK (h : Heap) (m : Nat) (fd : Found) : Prop :=
  Vis h m (.ptr fd.node) ∧ PathVis h m fd.path ∧ fd.path.getLast? = some (fd.node, fd.idx)

theorem Was.foundOK {m lvl : Nat} {fd : Found} {s : PS}
    (h : Was m lvl (fun s => FoundOK s.heap m fd) s) : FoundOK s.heap m fd := by
  obtain ⟨s0, ⟨h1, h2, h3⟩, e⟩ := h
  exact ⟨e.vis _ h1, fun p hp => e.vis _ (h2 p hp), h3⟩

def InsPlanOK (h : Heap) (m : Nat) (p : InsPlan) : Prop :=
  FoundOK h m p.found ∧ Vis h m p.left ∧ Vis h m p.right

theorem insertPlan_sat {lvl : Nat} (E : Env) (t : PTree) (fuel key val : Nat) :
    Sat t.id lvl (fun s => Vis s.heap t.id t.root) (insertPlan E t fuel key val)
      (fun p s' => InsPlanOK s'.heap t.id p) := by
  unfold insertPlan
  apply Sat.bind (layerM_sat E key)
  intro lay
  dsimp only
  apply Sat.bind (Q1 := fun a0 s' => Vis s'.heap t.id (.ptr a0))
  · split
    · exact (alloc_sat (m := t.id) (emptyNode t.id) rfl rfl (fun s _ _ => emptyNode_links_vis s.heap t.id)).conseq
        (Nat.le_refl _) (fun _ _ h => h) (fun _ _ _ h => own_vis h.1)
    · exact (load_sat E t.root).conseq (Nat.le_refl _) (fun _ _ h => h.2.vis) (fun _ _ _ h => h)
  · intro a0
    apply Sat.bind ((findNode_sat E key _ true fuel a0 t.height []).conseq (Nat.le_refl _)
      (fun s _ h => ⟨h.1, fun p hp => by simp at hp⟩) (fun fd s _ (h : FoundOK s.heap t.id fd) => h))
    intro fd
    split
    · exact Sat.panic
    · apply Sat.bind ((readV_sat fd.node).conseq (Nat.le_refl _) (fun s _ h => h.1.1) (fun _ _ _ h => h))
      intro nd
      split
      · apply Sat.pure
        intro s _ ⟨_, hw⟩
        exact ⟨hw.and_left.foundOK, trivial, trivial⟩
      · split
        · exact Sat.panic
        · apply Sat.pure
          intro s _ ⟨_, hw⟩
          exact ⟨hw.and_left.foundOK, trivial, trivial⟩
        · next l _ hl =>
          apply Sat.bind ((load_sat E l).conseq (Nat.le_refl _) (fun s _ h => h.1.2 l (List.mem_of_getElem? hl)) (fun _ _ _ h => h))
          intro c
          apply Sat.bind ((split_sat E key fuel c).conseq (Nat.le_refl _) (fun s _ h => h.1) (fun _ _ _ h => h))
          intro r
          obtain ⟨lf, rt⟩ := r
          apply Sat.pure
          intro s _ ⟨hq, hw⟩
          exact ⟨hw.and_right.was.and_right.was.and_left.foundOK, hq.1, hq.2⟩

theorem mem_setLastNode {path : List (Nat × Nat)} {a : Nat} {q : Nat × Nat} (h : q ∈ setLastNode path a) :
    q ∈ path ∨ q.1 = a := by
  unfold setLastNode at h
  split at h
  · simp at h
  · rcases List.mem_append.mp h with h | h
    · exact Or.inl (List.dropLast_subset _ h)
    · simp at h; subst h; exact Or.inr rfl

theorem Was.insPlanOK {m lvl : Nat} {p : InsPlan} {s : PS}
    (h : Was m lvl (fun s => InsPlanOK s.heap m p) s) : InsPlanOK s.heap m p :=
  ⟨(h.imp (fun _ x => x.1)).foundOK, (h.imp (fun _ x => x.2.1)).vis, (h.imp (fun _ x => x.2.2)).vis⟩

theorem insertCommit_sat (t : PTree) (p : InsPlan) (key val : Nat) :
    Sat t.id 1 (fun s => InsPlanOK s.heap t.id p) (insertCommit t p key val) (fun l s' => Vis s'.heap t.id l) := by
  unfold insertCommit
  apply Sat.bind ((toMut_sat p.found.node).conseq (Nat.le_refl _) (fun s _ h => h.1.1) (fun _ _ _ h => h))
  intro a'
  apply Sat.bind (read_sat a')
  intro nd
  dsimp only
  have hpre : ∀ s, Inv t.id s →
      (s.heap[a']? = some nd ∧ Was t.id 1 (fun s' => Own s'.heap t.id a' ∧ Was t.id 1 (fun s => InsPlanOK s.heap t.id p) s') s) →
      Own s.heap t.id a' ∧ LinksVis s.heap t.id nd.links ∧ nd.owner = t.id ∧ nd.shared = false ∧ InsPlanOK s.heap t.id p := by
    intro s hinv ⟨hnd, hw⟩
    have ho : Own s.heap t.id a' := Was.own (Nat.le_refl _) hw.and_left
    obtain ⟨h1, h2⟩ := own_fields ho hnd
    exact ⟨ho, links_vis (nd := nd) hinv hnd (own_vis ho), h1, h2, hw.and_right.was.insPlanOK⟩
  have hsave : ∀ (Q : PS → Prop), Sat t.id 1
      (fun s' => Q s' ∧ Was t.id 1 (fun s' => s'.heap[a']? = some nd ∧
        Was t.id 1 (fun s' => Own s'.heap t.id a' ∧ Was t.id 1 (fun s => InsPlanOK s.heap t.id p) s') s') s')
      (savePath t.id (setLastNode p.found.path a')) (fun l s' => Vis s'.heap t.id l) := by
    intro Q
    apply (savePath_sat _).conseq (Nat.le_refl _) ?_ (fun _ _ _ h => h)
    intro s hinv ⟨_, hw⟩ q hq
    have hw' := hw.and_right.was
    have ho : Own s.heap t.id a' := Was.own (Nat.le_refl _) hw'.and_left
    have hpl := hw'.and_right.was.insPlanOK
    rcases mem_setLastNode hq with h | h
    · exact hpl.1.2.1 q h
    · rw [h]; exact own_vis ho
  split
  · apply Sat.bind (write_sat (Nat.le_refl _) a' _ ?_)
    · intro _; exact hsave _
    · intro s hinv h
      obtain ⟨ho, hlv, h1, h2, _⟩ := hpre s hinv h
      exact ⟨ho, hlv, h1, h2⟩
  · apply Sat.bind (write_sat (Nat.le_refl _) a' _ ?_)
    · intro _; exact hsave _
    · intro s hinv h
      obtain ⟨ho, hlv, h1, h2, hpl⟩ := hpre s hinv h
      refine ⟨ho, ?_, h1, h2⟩
      intro l hl
      rcases List.mem_append.mp hl with h | h
      · exact hlv l (List.mem_of_mem_take h)
      · rcases List.mem_cons.mp h with h | h
        · subst h; exact hpl.2.1
        · rcases List.mem_cons.mp h with h | h
          · subst h; exact hpl.2.2
          · exact hlv l (List.mem_of_mem_drop h)

end Mast.Ptr
