import Mastverif.Model.Loads
import Mastverif.Lemmas.WF
/-! Bounds on the load traces in terms of the number of levels below a node. -/
namespace Mast
namespace T

/-- levels below a link -/
def lvl : T → Nat
  | nil => 0
  | last _ c => if c.isNil then 0 else lvl c + 1
  | cons _ c _ _ r => max (if c.isNil then 0 else lvl c + 1) (lvl r)

theorem ldn_le (p : Bool) (c : T) : (ldn p c).length ≤ 1 := by
  unfold ldn; split <;> simp

theorem ldn_nil (p : Bool) : ldn p nil = [] := by simp [ldn, isNil]

theorem ldn_lvl (p : Bool) (c : T) : (ldn p c).length ≤ (if c.isNil then 0 else 1) := by
  unfold ldn; cases c <;> simp [isNil] <;> split <;> simp

theorem splitLoads_le (x : Nat) : ∀ t : T, (splitLoads t x).length ≤ lvl t := by
  intro t
  induction t with
  | nil => simp [splitLoads, lvl]
  | last p c ih =>
    simp only [splitLoads, lvl, List.length_append]
    cases c with
    | nil => simp [ldn, isNil, splitLoads]
    | last q d => have := ldn_le p (last q d); simp only [isNil] at *; simp; omega
    | cons q d k v r => have := ldn_le p (cons q d k v r); simp only [isNil] at *; simp; omega
  | cons p c k v r ihc ihr =>
    simp only [splitLoads, lvl]
    split
    · omega
    · simp only [List.length_append]
      cases c with
      | nil => simp [ldn, isNil, splitLoads]
      | last q d => have := ldn_le p (last q d); simp only [isNil] at *; simp; omega
      | cons q d k' v' r' => have := ldn_le p (cons q d k' v' r'); simp only [isNil] at *; simp; omega

theorem getLoads_le (k : Nat) : ∀ (t : T) (s : Nat), (getLoads k s t).length ≤ lvl t := by
  intro t
  induction t with
  | nil => intro s; cases s <;> simp [getLoads]
  | last p c ih =>
    intro s
    cases s with
    | zero => simp [getLoads]
    | succ s =>
      simp only [getLoads, lvl, List.length_append]
      cases c with
      | nil => cases s <;> simp [ldn, isNil, getLoads]
      | last q d => have := ldn_le p (last q d); have := ih s; simp only [isNil] at *; simp; omega
      | cons q d k' v' r' => have := ldn_le p (cons q d k' v' r'); have := ih s; simp only [isNil] at *; simp; omega
  | cons p c k' v' r ihc ihr =>
    intro s
    cases s with
    | zero => simp [getLoads]
    | succ s =>
      simp only [getLoads, lvl]
      split
      · have := ihr (s+1); omega
      · split
        · simp
        · simp only [List.length_append]
          cases c with
          | nil => cases s <;> simp [ldn, isNil, getLoads]
          | last q d => have := ldn_le p (last q d); have := ihc s; simp only [isNil] at *; simp; omega
          | cons q d k2 v2 r2 => have := ldn_le p (cons q d k2 v2 r2); have := ihc s; simp only [isNil] at *; simp; omega

theorem getLoads_le_levels (k : Nat) : ∀ (t : T) (s : Nat), (getLoads k s t).length ≤ s := by
  intro t
  induction t with
  | nil => intro s; cases s <;> simp [getLoads]
  | last p c ih =>
    intro s
    cases s with
    | zero => simp [getLoads]
    | succ s =>
      simp only [getLoads, List.length_append]
      have := ldn_le p c; have := ih s; omega
  | cons p c k' v' r ihc ihr =>
    intro s
    cases s with
    | zero => simp [getLoads]
    | succ s =>
      simp only [getLoads]
      split
      · exact ihr (s+1)
      · split
        · simp
        · simp only [List.length_append]
          have := ldn_le p c; have := ihc s; omega

theorem insLoads_le (k : Nat) : ∀ (t : T) (s : Nat), (insLoads k s t).length ≤ lvl t := by
  intro t
  induction t with
  | nil => intro s; cases s <;> simp [insLoads]
  | last p c ih =>
    intro s
    cases s with
    | zero =>
      simp only [insLoads, lvl, List.length_append]
      have h1 := splitLoads_le k c
      cases c with
      | nil => simp [ldn, isNil, splitLoads]
      | last q d => have := ldn_le p (last q d); simp only [isNil] at *; simp; omega
      | cons q d k' v' r' => have := ldn_le p (cons q d k' v' r'); simp only [isNil] at *; simp; omega
    | succ s =>
      simp only [insLoads, lvl, List.length_append]
      cases c with
      | nil => cases s <;> simp [ldn, isNil, insLoads]
      | last q d => have := ldn_le p (last q d); have := ih s; simp only [isNil] at *; simp; omega
      | cons q d k' v' r' => have := ldn_le p (cons q d k' v' r'); have := ih s; simp only [isNil] at *; simp; omega
  | cons p c k' v' r ihc ihr =>
    intro s
    cases s with
    | zero =>
      simp only [insLoads, lvl]
      split
      · have := ihr 0; omega
      · split
        · simp
        · simp only [List.length_append]
          have h1 := splitLoads_le k c
          cases c with
          | nil => simp [ldn, isNil, splitLoads]
          | last q d => have := ldn_le p (last q d); simp only [isNil] at *; simp; omega
          | cons q d k2 v2 r2 => have := ldn_le p (cons q d k2 v2 r2); simp only [isNil] at *; simp; omega
    | succ s =>
      simp only [insLoads, lvl]
      split
      · have := ihr (s+1); omega
      · split
        · simp
        · simp only [List.length_append]
          cases c with
          | nil => cases s <;> simp [ldn, isNil, insLoads]
          | last q d => have := ldn_le p (last q d); have := ihc s; simp only [isNil] at *; simp; omega
          | cons q d k2 v2 r2 => have := ldn_le p (cons q d k2 v2 r2); have := ihc s; simp only [isNil] at *; simp; omega

/-- a well-formed node at level d has at most d levels below it -/
theorem lvl_le_of_WF (layer : Nat → Nat) : ∀ (t : T) (d : Nat), WF layer d t → lvl t ≤ d := by
  intro t
  induction t with
  | nil => intro d h; simp [WF] at h
  | last p c ih =>
    intro d h
    rw [WF_last_iff] at h
    simp only [lvl]
    rcases h with rfl | ⟨d', rfl, _, hw, _⟩
    · simp [isNil]
    · have := ih d' hw
      split <;> omega
  | cons p c k v r ihc ihr =>
    intro d h
    rw [WF_cons_iff] at h
    obtain ⟨_, hr, hc⟩ := h
    simp only [lvl]
    have h1 := ihr d hr
    rcases hc with rfl | ⟨d', rfl, _, hw, _⟩
    · simp [isNil]; exact h1
    · have := ihc d' hw
      split <;> omega

end T
end Mast

namespace Mast
namespace T

theorem lvl_last (p : Bool) (c : T) (h : c.isNil = false) : lvl (last p c) = lvl c + 1 := by
  simp [lvl, h]

theorem lvl_cons_ge (p : Bool) (c : T) (k v : Nat) (r : T) (h : c.isNil = false) :
    lvl c + 1 ≤ lvl (cons p c k v r) := by
  simp only [lvl, h]; simp; omega

theorem mergeTail_le (p p2 : Bool) (c c2 : T) (ih : (mergeRowLoads c c2).length ≤ 2 * lvl c) :
    (if (c.isNil || c2.isNil) = true then ([] : List T) else ldn p c ++ ldn p2 c2 ++ mergeRowLoads c c2).length
      ≤ 2 * (if c.isNil = true then 0 else lvl c + 1) := by
  by_cases hc : c.isNil = true
  · simp [hc]
  · have hc' : c.isNil = false := by simpa using hc
    by_cases hc2 : c2.isNil = true
    · simp [hc2]
    · have hc2' : c2.isNil = false := by simpa using hc2
      simp only [hc', hc2', Bool.or_self, Bool.false_eq_true, if_false, List.length_append]
      have := ldn_le p c; have := ldn_le p2 c2
      omega

theorem mergeRowLoads_le : ∀ (l r : T), (mergeRowLoads l r).length ≤ 2 * lvl l := by
  intro l
  induction l with
  | nil => intro r; simp [mergeRowLoads]
  | cons p c k v rest _ ihr =>
    intro r
    simp only [mergeRowLoads, lvl]
    have := ihr r
    omega
  | last p c ih =>
    intro r
    cases r with
    | nil => simp [mergeRowLoads]
    | last p2 c2 =>
      simp only [mergeRowLoads, lvl]
      exact mergeTail_le p p2 c c2 (ih c2)
    | cons p2 c2 k2 v2 r2 =>
      simp only [mergeRowLoads, lvl]
      exact mergeTail_le p p2 c c2 (ih c2)

theorem joinLoads_le (p : Bool) (c r : T) :
    (joinLoads p c r).length ≤ 2 * (if c.isNil = true then 0 else lvl c + 1) := by
  cases r with
  | nil => simp [joinLoads]
  | last p2 c2 =>
    simp only [joinLoads]
    exact mergeTail_le p p2 c c2 (mergeRowLoads_le c c2)
  | cons p2 c2 k2 v2 r2 =>
    simp only [joinLoads]
    exact mergeTail_le p p2 c c2 (mergeRowLoads_le c c2)

theorem delLoads_le (k : Nat) : ∀ (t : T) (s : Nat), (delLoads k s t).length ≤ 2 * lvl t := by
  intro t
  induction t with
  | nil => intro s; cases s <;> simp [delLoads]
  | last p c ih =>
    intro s
    cases s with
    | zero => simp [delLoads]
    | succ s =>
      simp only [delLoads, lvl, List.length_append]
      cases c with
      | nil => cases s <;> simp [ldn, isNil, delLoads]
      | last q d => have := ldn_le p (last q d); have := ih s; simp only [isNil] at *; simp; omega
      | cons q d k' v' r' => have := ldn_le p (cons q d k' v' r'); have := ih s; simp only [isNil] at *; simp; omega
  | cons p c k' v' r ihc ihr =>
    intro s
    cases s with
    | zero =>
      simp only [delLoads, lvl]
      split
      · have := ihr 0; omega
      · split
        · have := joinLoads_le p c r
          by_cases hc : c.isNil = true
          · simp only [hc, if_true] at this ⊢; omega
          · simp only [hc, if_false] at this ⊢; omega
        · simp
    | succ s =>
      simp only [delLoads, lvl]
      split
      · have := ihr (s+1); omega
      · split
        · simp
        · simp only [List.length_append]
          cases c with
          | nil => cases s <;> simp [ldn, isNil, delLoads]
          | last q d => have := ldn_le p (last q d); have := ihc s; simp only [isNil] at *; simp; omega
          | cons q d k2 v2 r2 => have := ldn_le p (cons q d k2 v2 r2); have := ihc s; simp only [isNil] at *; simp; omega

end T
end Mast
