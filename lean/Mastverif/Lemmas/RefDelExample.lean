import Mastverif.Lemmas.RefDelTop
import Mastverif.Lemmas.RefExample
/-!
Non-vacuity for `delete_refines`, and the kernel-checked witnesses of the places where the object-level
`Ptr.delete` and the functional `Tree.delete` differ (all by `decide +kernel`).

The system is `rxSys` of `RefExample.lean` (cache on; load, inserts with growth, flush, reload of the persisted root
into a second tree through the cache, inserts on both trees).  Tree 1 has height 1, top entries 4 and 8, the child
`[3]` still a *name* (persisted), the child `[5, 6]` an in-memory node.
-/
namespace Mast.Ptr
open Mast.Heap

/-- one `Delete` on tree `i` agrees with `Tree.delete` on the denoted tree: outcome `ok`, and the new object graph
    denotes exactly the functional result -/
def delAgrees (E : Env) (σ : Sys) (i k v : Nat) : Bool :=
  match σ.trees[i]? with
  | none => false
  | some t =>
    let r := delete E 10 σ.ps t k v
    match repTree σ.ps 10 t with
    | none => false
    | some A =>
      match Tree.delete E.layer A k v with
      | .ok A' => decide (repTree r.1 10 r.2.1 = some A') && decide (r.2.2 = .ok)
      | _ => false

def heightOf (σ : Sys) (i : Nat) : Option Nat := σ.trees[i]?.map (·.height)

/-- the hypotheses of `delete_refines` hold in `rxSys` (checked in `RefExample.lean`: `Good`, `repTree = some _`,
    footprints owned) -/
example : goodB rxSys.ps = true ∧
    rxSys.trees.map (fun t => (repTree rxSys.ps 10 t).isSome && fpOwnedB rxSys.ps.heap t.id (footprint rxSys.ps 10 t)) =
      [true, true] := by decide +kernel

/-- **a delete that merges two children**: `Delete(4)` on tree 1 removes a top entry; its neighbours `[3]` (a name,
    loaded through the cache) and `[5, 6]` (in memory) are merged into one new node `[3, 5, 6]` -/
example : delAgrees rxEnv rxSys 1 4 40 = true := by decide +kernel

def dSys1 : Sys := (rxSys.apply rxEnv 10 (.del 1 4 40)).1

/-- the merged child is there: the tree now denotes `[3 5 6] 8 ·` -/
example : (dSys1.trees[1]?.bind (fun t => repTree dSys1.ps 10 t)).map (·.root) =
    some (T.cons false (T.cons false T.nil 3 30 (T.cons false T.nil 5 50 (T.cons false T.nil 6 60 (T.last false T.nil))))
      8 80 (T.last false T.nil)) := by decide +kernel

example : goodB dSys1.ps = true ∧
    dSys1.trees.map (fun t => (repTree dSys1.ps 10 t).isSome && fpOwnedB dSys1.ps.heap t.id (footprint dSys1.ps 10 t)) =
      [true, true] := by decide +kernel

/-- **a delete that shrinks the tree**: `Delete(8)` removes the last top entry; the top node is entry-less, `shrink`
    runs, the height goes from 1 to 0 -/
example : delAgrees rxEnv dSys1 1 8 80 = true := by decide +kernel
example : heightOf dSys1 1 = some 1 ∧ heightOf (dSys1.apply rxEnv 10 (.del 1 8 80)).1 1 = some 0 := by decide +kernel

/-- a delete below the top (entry 3 of tree 0, in a child), and deletes that fail: absent key, other value — the
    object level returns an error and `Tree.delete` says why -/
example : delAgrees rxEnv rxSys 0 3 30 = true := by decide +kernel
example :
    (match rxSys.trees[0]? with
     | none => none
     | some t =>
       match repTree rxSys.ps 10 t with
       | none => none
       | some A =>
         some ((delete rxEnv 10 rxSys.ps t 7 70).2.2, (delete rxEnv 10 rxSys.ps t 3 31).2.2,
           (match Tree.delete rxEnv.layer A 7 70 with | .err e => e | _ => ""),
           (match Tree.delete rxEnv.layer A 3 31 with | .err e => e | _ => ""))) =
      some (.err, .err, "notpresent", "valuemismatch") := by decide +kernel

/-! ## findings: a tree that becomes EMPTY while its height is above 0

Reachable with the public operations: `LoadMast` of an empty root with a claimed height `h > 0`, one `Insert`
(the path of pass-through nodes is created), then `Delete` of that entry. -/

def emSys (size h : Nat) : Sys := (Sys.run rxEnv 10 {} [.load 0 size h 2, .ins 0 3 30]).1

/-- what the two models say about `Delete(3)`: (outcome, root link is nil, height, IsDirty) at the object level,
    (height, dirty) of `Tree.delete` -/
def emReport (size h : Nat) : Option ((Outcome × Bool × Nat × Option Bool) × Option (Nat × Bool)) :=
  match (emSys size h).trees[0]? with
  | none => none
  | some t =>
    let r := delete rxEnv 10 (emSys size h).ps t 3 30
    match repTree (emSys size h).ps 10 t with
    | none => none
    | some A =>
      some ((r.2.2, decide (r.2.1.root = .nil), r.2.1.height, (repTree r.1 10 r.2.1).map (·.dirty)),
        match Tree.delete rxEnv.layer A 3 30 with
        | .ok B => some (B.height, B.dirty)
        | _ => none)

/-- height 1: both end `ok` at height 0 with the empty tree, but the object level (like Go: `m.root = nil`, so
    `IsDirty()` is false) reports `dirty = false`, `Tree.delete` keeps `dirty = true`
    (`delete_refines_emptied`, case `t'.height = 0`) -/
example : emReport 0 1 = some ((.ok, true, 0, some false), some (0, true)) := by decide +kernel

/-- height 2: the first `shrink` empties the root link, the loop condition still holds (`size = 0 ≤ shrinkBelow`),
    and the second `shrink` returns the error "tree with empty root but height 1": the object level ends in
    `err` with the entry gone (second alternative of `delete_err_refines`; the record still has height 2), while
    `Tree.delete` ends `ok` at height 0 -/
example : emReport 0 2 = some ((.err, false, 2, some true), some (0, true)) := by decide +kernel

/-- a wrong `size` in the root record (5 claimed for the empty root): after the first `shrink` the root link is nil,
    the object-level condition is false (`size > shrinkBelow`, and a nil root is not "entry-less"), the call ends
    `ok` at height 1; the functional loop sees the entry-less row `last false nil` and goes on to height 0
    (`delete_refines_emptied`, general case) -/
example : emReport 5 2 = some ((.ok, true, 1, some false), some (0, true)) := by decide +kernel

end Mast.Ptr
