import Mastverif.Model.Store
import Mastverif.Lemmas.Basic
/-! Names and store traces: independence from residency flags, reachability of what is stored. -/
namespace Mast
namespace T

theorem isNil_erase (t : T) : (erase t).isNil = t.isNil := by cases t <;> rfl
theorem isNil_persistAll (t : T) : (persistAll t).isNil = t.isNil := by cases t <;> rfl

/-- the bytes and names of a node do not depend on where its parts currently reside -/
theorem rowB_erase (e : Enc) : ∀ t : T, rowB e (erase t) = rowB e t := by
  intro t
  induction t with
  | nil => rfl
  | last p c ih => simp only [erase, rowB, isNil_erase, ih]
  | cons p c k v r ihc ihr => simp only [erase, rowB, isNil_erase, ihc, ihr]

theorem nodeName_erase (e : Enc) (t : T) : nodeName e (erase t) = nodeName e t := by
  simp [nodeName, nodeBytes, rowB_erase]

theorem rowB_persistAll (e : Enc) : ∀ t : T, rowB e (persistAll t) = rowB e t := by
  intro t
  induction t with
  | nil => rfl
  | last p c ih => simp only [persistAll, rowB, isNil_persistAll, ih]
  | cons p c k v r ihc ihr => simp only [persistAll, rowB, isNil_persistAll, ihc, ihr]

theorem nodeName_persistAll (e : Enc) (t : T) : nodeName e (persistAll t) = nodeName e t := by
  simp [nodeName, nodeBytes, rowB_persistAll]

/-- after a flush nothing below is in memory: a second flush writes nothing -/
theorem storesBelow_persistAll (e : Enc) : ∀ t : T, storesBelow e (persistAll t) = [] := by
  intro t
  induction t with
  | nil => rfl
  | last p c _ => simp [persistAll, storesBelow]
  | cons p c k v r _ ihr => simp [persistAll, storesBelow, ihr]

/-- every name written for the nodes below a row is the name of a node reachable below it -/
theorem storesBelow_sub_reach (e : Enc) : ∀ t : T, ∀ x ∈ storesBelow e t, x.1 ∈ reachBelow e t := by
  intro t
  induction t with
  | nil => intro x hx; simp [storesBelow] at hx
  | last p c ih =>
    intro x hx
    simp only [storesBelow] at hx
    split at hx
    · simp at hx
    · next hcond =>
      have hc : c.isNil = false := by
        cases hcn : c.isNil <;> simp_all
      simp only [reachBelow, hc, Bool.false_eq_true, if_false]
      simp only [List.mem_append, List.mem_singleton] at hx
      rcases hx with hx | rfl
      · exact List.mem_cons_of_mem _ (ih x hx)
      · simp
  | cons p c k v r ihc ihr =>
    intro x hx
    simp only [storesBelow, List.mem_append] at hx
    simp only [reachBelow, List.mem_append]
    rcases hx with hx | hx
    · left
      split at hx
      · simp at hx
      · next hcond =>
        have hc : c.isNil = false := by
          cases hcn : c.isNil <;> simp_all
        simp only [hc, Bool.false_eq_true, if_false]
        simp only [List.mem_append, List.mem_singleton] at hx
        rcases hx with hx | rfl
        · exact List.mem_cons_of_mem _ (ihc x hx)
        · simp
    · right; exact ihr x hx

/-- every stored pair is a node's bytes under the name of exactly those bytes -/
theorem storesBelow_named (e : Enc) : ∀ t : T, ∀ x ∈ storesBelow e t, x.1 = e.hash x.2 := by
  intro t
  induction t with
  | nil => intro x hx; simp [storesBelow] at hx
  | last p c ih =>
    intro x hx
    simp only [storesBelow] at hx
    split at hx
    · simp at hx
    · simp only [List.mem_append, List.mem_singleton] at hx
      rcases hx with hx | rfl
      · exact ih x hx
      · rfl
  | cons p c k v r ihc ihr =>
    intro x hx
    simp only [storesBelow, List.mem_append] at hx
    rcases hx with hx | hx
    · split at hx
      · simp at hx
      · simp only [List.mem_append, List.mem_singleton] at hx
        rcases hx with hx | rfl
        · exact ihc x hx
        · rfl
    · exact ihr x hx

end T
end Mast
