import Mastverif.Lemmas.PtrFlush
/-! The public operations of the object-level model: protocol obeyed, invariant kept, other
    versions untouched; what an error leaves behind. -/
namespace Mast.Ptr
open Mast.Heap

theorem Sat.run {α : Type} {m lvl : Nat} {P : PS → Prop} {x : M α} {Q : α → PS → Prop}
    (h : Sat m lvl P x Q) {s : PS} (hinv : Inv m s) (hP : P s) :
    (∀ a s', x s = .ok a s' → Ext m lvl s s' ∧ Inv m s' ∧ Q a s') ∧
    (∀ s', x s = .err s' → Ext m lvl s s' ∧ Inv m s') ∧ x s ≠ .stuck := by
  have h1 := h s hinv hP
  refine ⟨?_, ?_, ?_⟩
  · intro a s' hx; rw [hx] at h1; exact h1
  · intro s' hx; rw [hx] at h1; exact h1
  · intro hx; rw [hx] at h1; exact h1

/-- what every public operation guarantees: `r` = (state, tree record, outcome) after the call -/
structure OpOK (m lvl : Nat) (s : PS) (r : PS × PTree × Outcome) : Prop where
  notStuck : r.2.2 ≠ .stuck
  inv : Inv m r.1
  ext : Ext m lvl s r.1
  root : Vis r.1.heap m r.2.1.root
  id : r.2.1.id = m

theorem afterCommit_ok {m lvl : Nat} {x : M PTree} {t : PTree} {s : PS}
    (hx : Sat m lvl (fun s => Vis s.heap m t.root) x (fun t' s' => Vis s'.heap m t'.root ∧ t'.id = m))
    (ht : t.id = m) (hinv : Inv m s) (hroot : Vis s.heap m t.root) : OpOK m lvl s (afterCommit x s t) := by
  obtain ⟨hok, herr, hst⟩ := hx.run hinv hroot
  unfold afterCommit
  cases hxs : x s with
  | ok t' s' =>
    obtain ⟨e, i, q⟩ := hok t' s' hxs
    exact ⟨by simp, i, e, q.1, q.2⟩
  | err s' =>
    obtain ⟨e, i⟩ := herr s' hxs
    exact ⟨by simp, i, e, e.vis _ hroot, ht⟩
  | panic => exact ⟨by simp, hinv, Ext.refl _ _ _, hroot, ht⟩
  | stuck => exact absurd hxs hst
  | oof => exact ⟨by simp, hinv, Ext.refl _ _ _, hroot, ht⟩

theorem OpOK.trans {m lvl : Nat} {s s1 : PS} {r : PS × PTree × Outcome} (e : Ext m lvl s s1) (h : OpOK m lvl s1 r) :
    OpOK m lvl s r := ⟨h.notStuck, h.inv, e.trans h.ext, h.root, h.id⟩

/-- **Insert obeys the protocol** -/
theorem insert_ok (E : Env) (fuel : Nat) (s : PS) (t : PTree) (key val : Nat)
    (hinv : Inv t.id s) (hroot : Vis s.heap t.id t.root) : OpOK t.id 1 s (insert E fuel s t key val) := by
  obtain ⟨hok, herr, hst⟩ := (insertPlan_sat (lvl := 1) E t fuel key val).run hinv hroot
  unfold insert
  cases hp : insertPlan E t fuel key val s with
  | err s1 => obtain ⟨e, i⟩ := herr s1 hp; exact ⟨by simp, i, e, e.vis _ hroot, rfl⟩
  | panic => exact ⟨by simp, hinv, Ext.refl _ _ _, hroot, rfl⟩
  | stuck => exact absurd hp hst
  | oof => exact ⟨by simp, hinv, Ext.refl _ _ _, hroot, rfl⟩
  | ok p s1 =>
    obtain ⟨e1, i1, q1⟩ := hok p s1 hp
    have hroot1 := e1.vis _ hroot
    dsimp only
    split
    · exact ⟨by simp, i1, e1, hroot1, rfl⟩
    · obtain ⟨hok2, herr2, hst2⟩ := (insertCommit_sat t p key val).run i1 q1
      cases hc : insertCommit t p key val s1 with
      | err s2 => obtain ⟨e, i⟩ := herr2 s2 hc; exact ⟨by simp, i, e1.trans e, (e1.trans e).vis _ hroot, rfl⟩
      | panic => exact ⟨by simp, i1, e1, hroot1, rfl⟩
      | stuck => exact absurd hc hst2
      | oof => exact ⟨by simp, i1, e1, hroot1, rfl⟩
      | ok root s2 =>
        obtain ⟨e2, i2, q2⟩ := hok2 root s2 hc
        dsimp only
        split
        · exact ⟨by simp, i2, e1.trans e2, q2, rfl⟩
        · have hac := afterCommit_ok (m := t.id) (lvl := 1) (x := growAll E fuel { t with root := root })
            (t := { t with root := root }) (s := s2) (growAll_sat E fuel _ rfl) rfl i2 q2
          have hac' := OpOK.trans (e1.trans e2) hac
          split
          · next s3 t2 heq =>
            rw [heq] at hac'
            exact ⟨by simp, hac'.inv, hac'.ext, hac'.root, hac'.id⟩
          · next r hne =>
            exact hac'

/-- **Delete obeys the protocol** -/
theorem delete_ok (E : Env) (fuel : Nat) (s : PS) (t : PTree) (key val : Nat)
    (hinv : Inv t.id s) (hroot : Vis s.heap t.id t.root) : OpOK t.id 1 s (delete E fuel s t key val) := by
  obtain ⟨hok, herr, hst⟩ := (deletePlan_sat (lvl := 1) E t fuel key val).run hinv hroot
  unfold delete
  cases hp : deletePlan E t fuel key val s with
  | err s1 => obtain ⟨e, i⟩ := herr s1 hp; exact ⟨by simp, i, e, e.vis _ hroot, rfl⟩
  | panic => exact ⟨by simp, hinv, Ext.refl _ _ _, hroot, rfl⟩
  | stuck => exact absurd hp hst
  | oof => exact ⟨by simp, hinv, Ext.refl _ _ _, hroot, rfl⟩
  | ok p s1 =>
    obtain ⟨e1, i1, q1⟩ := hok p s1 hp
    have hroot1 := e1.vis _ hroot
    dsimp only
    obtain ⟨hok2, herr2, hst2⟩ := (deleteCommit_sat t p).run i1 q1
    cases hc : deleteCommit t p s1 with
    | err s2 => obtain ⟨e, i⟩ := herr2 s2 hc; exact ⟨by simp, i, e1.trans e, (e1.trans e).vis _ hroot, rfl⟩
    | panic => exact ⟨by simp, i1, e1, hroot1, rfl⟩
    | stuck => exact absurd hc hst2
    | oof => exact ⟨by simp, i1, e1, hroot1, rfl⟩
    | ok root s2 =>
      obtain ⟨e2, i2, q2⟩ := hok2 root s2 hc
      dsimp only
      exact OpOK.trans (e1.trans e2) (afterCommit_ok (m := t.id) (lvl := 1)
        (t := { t with root := root, size := t.size - 1 }) (shrinkAll_sat E fuel _ rfl) rfl i2 q2)

end Mast.Ptr
