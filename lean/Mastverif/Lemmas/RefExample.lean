import Mastverif.Lemmas.RefInsertTop
/-!
Non-vacuity: a concrete system (load, inserts with growth, flush, reload of the persisted root through the
node cache, more inserts on both trees, a lookup) satisfies `Good`, every tree denotes a functional tree
(`repTree = some _`) whose footprint it owns, and the hypotheses of `insert_refines` hold before the last insert.

Finding (see REPORT.md): with a branch factor below 2 the functional `Tree.insert` and the object-level
`Ptr.insert` disagree, because `Tree.insert` bounds its grow loop by `size + 1` iterations.
-/
namespace Mast.Ptr
open Mast.Heap

/-- executable version of `Good` -/
def goodB (s : PS) : Bool :=
  s.cache.all (fun na => match s.heap[na.2]?, storeAt s.store na.1 with
    | some nd, some sn => nd.shared && nd.keys == sn.keys && nd.vals == sn.vals && nd.links == expandLinks sn
    | _, _ => false) &&
  s.heap.all (fun nd => !nd.shared || nd.links.all (fun l => !isPtr l)) &&
  s.store.all (fun sn => sn.links.all (fun l => !isPtr l)) &&
  s.heap.all (fun nd => !nd.dirty || !nd.shared)

theorem goodB_sound {s : PS} (h : goodB s = true) : Good s := by
  unfold goodB at h
  simp only [Bool.and_eq_true, List.all_eq_true] at h
  obtain ⟨⟨⟨h1, h2⟩, h3⟩, h4⟩ := h
  refine ⟨?_, ?_, ?_, ?_⟩
  · intro n a hna
    have := h1 (n, a) hna
    split at this
    · next nd sn hnd hsn =>
      simp only [Bool.and_eq_true, beq_iff_eq] at this
      exact ⟨nd, sn, hnd, this.1.1.1, hsn, this.1.1.2, this.1.2, this.2⟩
    · cases this
  · intro a nd hnd hs l hl
    have := h2 nd (List.mem_of_getElem? hnd)
    simp only [hs, Bool.not_true, Bool.false_or, List.all_eq_true] at this
    simpa using this l hl
  · intro sn hsn l hl
    have := h3 sn hsn
    simpa using this l hl
  · intro a nd hnd hd
    have := h4 nd (List.mem_of_getElem? hnd)
    simpa [hd] using this

/-- executable version of `FpOwned` -/
def fpOwnedB (h : Heap) (m : Nat) (fp : List Nat) : Bool :=
  fp.all (fun y => match h[y]? with
    | some nd => nd.owner == m
    | none => false)

theorem fpOwnedB_sound {h : Heap} {m : Nat} {fp : List Nat} (hb : fpOwnedB h m fp = true) : FpOwned h m fp := by
  intro y hy
  unfold fpOwnedB at hb
  have := List.all_eq_true.mp hb y hy
  split at this
  · next nd hnd => exact ⟨nd, hnd, by simpa using this⟩
  · cases this

instance (t : PTree) : Decidable (Healthy t) := by unfold Healthy; infer_instance

def rxEnv : Env := { layer := fun k => if k % 4 = 0 then 1 else 0, failAt := fun _ => false }

/-- load an empty tree, four inserts (the tree grows once), flush, reload the persisted root into a second tree
    (cache hit), inserts on both trees, a lookup -/
def rxOps : List Op :=
  [.load 0 0 0 2, .ins 0 4 40, .ins 0 8 80, .ins 0 3 30, .ins 0 5 50, .flush 0, .load 3 4 1 2,
   .ins 1 6 60, .ins 0 2 20, .get 1 3]

def rxSys : Sys := (Sys.run rxEnv 10 { ps := { useCache := true } } rxOps).1

example : (Sys.run rxEnv 10 { ps := { useCache := true } } rxOps).2 = .ok := by decide +kernel
example : goodB rxSys.ps = true := by decide +kernel
example : Good rxSys.ps := goodB_sound (by decide +kernel)
/-- both trees denote functional trees, and own their footprints -/
example : rxSys.trees.map (fun t => (repTree rxSys.ps 10 t).isSome) = [true, true] := by decide +kernel
example : rxSys.trees.map (fun t => fpOwnedB rxSys.ps.heap t.id (footprint rxSys.ps 10 t)) = [true, true] := by
  decide +kernel
example : rxSys.trees.map (fun t => decide (Healthy t)) = [true, true] := by decide +kernel
/-- the two abstractions agree on the example -/
example : rxSys.trees.map (fun t => repTree rxSys.ps 10 t) = rxSys.trees.map (fun t => absTree rxSys.ps 10 t) := by
  decide +kernel

/-- one more insert on the second tree: the object-level result denotes the functional result (as
    `insert_refines` says it must) -/
example :
    (match rxSys.trees[1]? with
     | none => false
     | some t =>
       let r := insert rxEnv 10 rxSys.ps t 12 120
       match repTree rxSys.ps 10 t with
       | none => false
       | some A =>
         match Tree.insert rxEnv.layer A 12 120 with
         | .ok A' => decide (repTree r.1 10 r.2.1 = some A') && decide (r.2.2 = .ok)
         | _ => false) = true := by decide +kernel

/-! ## finding: branch factor 1 -/

def bfEnv : Env := { layer := fun _ => 5, failAt := fun _ => false }
def bfSys : Sys := (Sys.run bfEnv 20 {} [.load 0 0 0 1, .ins 0 1 10]).1

/-- with `bf = 1` (so `growAfter = 1` for ever) the second insert grows the tree five times at the object
    level (until no key lies above the height), but only `size + 1 = 2` times in `Tree.insert` -/
example :
    (match bfSys.trees[0]? with
     | none => none
     | some t =>
       let r := insert bfEnv 20 bfSys.ps t 2 20
       match repTree bfSys.ps 10 t, repTree r.1 10 r.2.1 with
       | some A, some B =>
         match Tree.insert bfEnv.layer A 2 20 with
         | .ok A' => some (r.2.2, B.height, A'.height)
         | _ => none
       | _, _ => none) = some (.ok, 5, 2) := by decide +kernel

end Mast.Ptr
