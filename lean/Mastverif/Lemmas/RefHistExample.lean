import Mastverif.Lemmas.RefHistory
import Mastverif.Lemmas.TreeInv
/-!
Use and non-vacuity of the history-level theorem.

* `Sys.ins_get_transfer`: a property theorem of the functional model (`Tree.insert_spec`, `Tree.lookup_eq`,
  `getL_insL_same`: "a lookup returns the value just written") transferred to the object-level programs through
  `Sys.apply_refines` + `get_refines`.
* a concrete history (load, inserts with growth, flush, clone, reload of the flushed name through the cache, inserts on
  all three trees, a delete, iter, get, more flushes): `Sys.run_refines` applies (its hypotheses are checked by
  `decide +kernel`), and the statements of `flush_refines` / `clone_refines` / `loadMast_refines` are evaluated on it.
-/
namespace Mast.Ptr
open Mast.Heap

/-- after a successful `Insert(k, v)` into a tree that denotes a well-formed functional tree, the tree denotes a
    well-formed tree with the entries `insL k v …`, and every successful `Get(k)` returns `v` -/
theorem Sys.ins_get_transfer (E : Env) (fuel fuel2 : Nat) (σ : Sys) (i k v : Nat) (As : List Tree) (A : Tree)
    (hR : RSys σ) (hD : Den σ As) (hAi : As[i]? = some A) (hinv : Tree.Inv E.layer A)
    (hok : (σ.apply E fuel (.ins i k v)).2 = .ok) :
    ∃ As' A' t', Den (σ.apply E fuel (.ins i k v)).1 As' ∧ As'[i]? = some A' ∧ Tree.Inv E.layer A' ∧
      A'.toList = T.insL k v A.toList ∧ (σ.apply E fuel (.ins i k v)).1.trees[i]? = some t' ∧
      ∀ r s'', get E t' fuel2 k (σ.apply E fuel (.ins i k v)).1.ps = .ok r s'' → r = some v := by
  obtain ⟨hR', _, As', hD', hf⟩ := Sys.apply_refines E fuel σ (.ins i k v) As hR hD trivial (Or.inl hok)
  rw [hok] at hf
  simp only [FStep, hAi] at hf
  obtain ⟨A', hins, rfl⟩ := hf
  obtain ⟨m', h1, h2, h3, _⟩ := Tree.insert_spec E.layer A k v hinv
  rw [h1] at hins
  injection hins with hins
  subst hins
  have hilt : i < As.length := (List.getElem?_eq_some_iff.mp hAi).1
  have hAi' : (As.set i m')[i]? = some m' := List.getElem?_set_self hilt
  have hlt' : i < (σ.apply E fuel (.ins i k v)).1.trees.length := by
    rw [← hD'.1, List.length_set]; exact hilt
  refine ⟨_, m', _, hD', hAi', h2, h3, List.getElem?_eq_getElem hlt', ?_⟩
  intro r s'' hget
  obtain ⟨A2, hA2, g, hden⟩ := hD'.2 i _ (List.getElem?_eq_getElem hlt')
  rw [hAi'] at hA2; injection hA2 with hA2; subst hA2
  have := get_refines E _ fuel2 k g _ m' hR'.good hden
  rw [hget] at this
  rw [this.1, Tree.lookup_eq E.layer m' k h2, h3]
  exact T.getL_insL_same k v _ hinv.sorted

/-! ## a concrete history -/

def hxEnv : Env := { layer := fun k => if k % 4 = 0 then 1 else 0, failAt := fun _ => false }

def hxInit : Sys := { ps := { useCache := true } }

/-- load an empty tree, four inserts (the tree grows), flush, clone, insert into the clone, reload the flushed root
    into a third tree (cache hit), insert there, delete in the first tree, iter, get, flush the clone and the third
    tree, clone the flushed tree, one more insert -/
def hxOps : List Op :=
  [.load 0 0 0 2, .ins 0 4 40, .ins 0 8 80, .ins 0 3 30, .ins 0 5 50, .flush 0, .clone 0, .ins 1 6 60,
   .load 3 4 1 2, .ins 2 7 70, .del 0 3 30, .iter 1, .get 2 3, .flush 1, .flush 2, .clone 2, .ins 0 2 20]

def hxAt (n : Nat) : Sys := (Sys.run hxEnv 10 hxInit (hxOps.take n)).1

def hxSys : Sys := (Sys.run hxEnv 10 hxInit hxOps).1

/-- the history runs to its end … -/
theorem hx_ok : (Sys.run hxEnv 10 hxInit hxOps).2 = .ok := by decide +kernel

/-- … so the history-level theorem applies: the invariant holds at the end and the four trees denote the result of
    the functional run -/
theorem hx_refines : RSys (Sys.run hxEnv 10 hxInit hxOps).1 ∧ ∃ As', Den (Sys.run hxEnv 10 hxInit hxOps).1 As' ∧
    FRun hxEnv.layer hxInit.ps.store [] hxOps (Sys.run hxEnv 10 hxInit hxOps).1.ps.store As' :=
  Sys.run_refines hxEnv 10 hxOps hxInit [] (RSys.init' true 1) (den_empty _ rfl) (by decide) hx_ok

example : hxSys.trees.length = 4 := by decide +kernel
example : hxSys.trees.map (fun t => (repTree hxSys.ps 10 t).isSome) = [true, true, true, true] := by decide +kernel

/-- what tree number `i` denotes after the first `n` calls -/
def hxDen (n i : Nat) : Option Tree := (hxAt n).trees[i]?.bind (repTree (hxAt n).ps 10)

/-- `flush` (call 6): tree 0 afterwards denotes `flushTree` of what it denoted (as `flush_refines` says) -/
example : hxDen 6 0 = (hxDen 5 0).map flushTree := by decide +kernel
/-- … with the same entries -/
example : (hxDen 6 0).map Tree.toList = some [(3, 30), (4, 40), (5, 50), (8, 80)] := by decide +kernel
/-- `clone` (call 7): the new tree denotes the same tree, held by pointer (as `clone_refines` says) -/
example : hxDen 7 1 = (hxDen 6 0).map (fun A => { A with rootP := false }) := by decide +kernel
/-- `load` of the flushed name (call 9): the row of the flushed tree (as `loadMast_refines` says) -/
example : hxDen 9 2 = (hxDen 6 0).map (fun A => loadedTree true A.root 4 1 2) := by decide +kernel
/-- `insert` into the clone (call 8) and `delete` in the first tree (call 11) against the functional operations -/
example : (match hxDen 7 1 with
    | some A => (match Tree.insert hxEnv.layer A 6 60 with | .ok A' => decide (hxDen 8 1 = some A') | _ => false)
    | none => false) = true := by decide +kernel
example : (match hxDen 10 0 with
    | some A => (match Tree.delete hxEnv.layer A 3 30 with | .ok A' => decide (hxDen 11 0 = some A') | _ => false)
    | none => false) = true := by decide +kernel
/-- the other trees are untouched by the insert into the clone and by the flush of the clone -/
example : hxDen 8 0 = hxDen 7 0 ∧ hxDen 14 0 = hxDen 13 0 ∧ hxDen 14 2 = hxDen 13 2 := by decide +kernel

/-! ## a history with a failing store (cache off): outcomes `.err` are covered -/

def hyEnv : Env := { layer := fun k => if k % 4 = 0 then 1 else 0, failAt := fun t => t == 1 }

def hyOps : List Op :=
  [.load 0 0 0 2, .ins 0 4 40, .ins 0 3 30, .flush 0, .get 0 3, .get 0 3, .ins 0 5 50, .clone 0, .iter 1]

/-- the second store load fails: the second `get` after the flush ends in `.err`, the run goes on -/
example : ((Sys.run hyEnv 10 {} (hyOps.take 5)).1.apply hyEnv 10 (.get 0 3)).2 = Outcome.err := by
  decide +kernel

theorem hy_ok : (Sys.run hyEnv 10 {} hyOps).2 = .ok := by decide +kernel

theorem hy_refines : RSys (Sys.run hyEnv 10 {} hyOps).1 ∧ ∃ As', Den (Sys.run hyEnv 10 {} hyOps).1 As' ∧
    FRun hyEnv.layer ({} : Sys).ps.store [] hyOps (Sys.run hyEnv 10 {} hyOps).1.ps.store As' :=
  Sys.run_refines hyEnv 10 hyOps {} [] RSys.init (den_empty _ rfl) (by decide) hy_ok

end Mast.Ptr
