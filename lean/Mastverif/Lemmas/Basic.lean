import Mastverif.Model.Tree
/-! Helper lemmas: `toList` of `mk`, `unmk`, `split`; sortedness vocabulary. -/
namespace Mast
namespace T

abbrev Entry := Nat × Nat

def keysLt (x : Nat) (l : List Entry) := l.filter (fun e => e.1 < x)
def keysGt (x : Nat) (l : List Entry) := l.filter (fun e => x < e.1)

/-- strictly ascending keys -/
def Sorted (l : List Entry) : Prop := l.Pairwise (fun a b => a.1 < b.1)

@[simp] theorem toList_mk (t : T) : toList (mk t) = toList t := by
  unfold mk; split <;> simp [toList]

@[simp] theorem toList_unmk (t : T) : toList (unmk t) = toList t := by
  unfold unmk; split <;> simp [toList]

theorem filter_all {α} {p : α → Bool} {l : List α} (h : ∀ a ∈ l, p a = true) : l.filter p = l := by
  simpa using h
theorem filter_none {α} {p : α → Bool} {l : List α} (h : ∀ a ∈ l, p a = false) : l.filter p = [] := by
  simpa using h

theorem sorted_append {a b : List Entry} (h : Sorted (a ++ b)) :
    Sorted a ∧ Sorted b ∧ ∀ x ∈ a, ∀ y ∈ b, x.1 < y.1 := by
  simpa [Sorted, List.pairwise_append] using h

theorem sorted_tail {x} {l : List Entry} (h : Sorted (x :: l)) : Sorted l := by
  simp [Sorted] at h; exact h.2

theorem toList_split (t : T) (x : Nat) (hs : Sorted (toList t)) (hx : ∀ e ∈ toList t, e.1 ≠ x) :
    toList (split t x).1 = keysLt x (toList t) ∧ toList (split t x).2 = keysGt x (toList t) := by
  induction t with
  | nil => simp [split, toList, keysLt, keysGt]
  | last p c ih =>
    simp only [toList] at hs hx
    simp [split, toList, ih hs hx]
  | cons p c k v r ihc ihr =>
    simp only [toList, Sorted, List.pairwise_append, List.pairwise_cons] at hs
    obtain ⟨hc, ⟨hkr, hr⟩, hcr⟩ := hs
    simp only [toList, List.mem_append, List.mem_cons] at hx
    have hxc := fun e he => hx e (Or.inl he)
    have hxr := fun e he => hx e (Or.inr (Or.inr he))
    have hxk : k ≠ x := hx (k, v) (Or.inr (Or.inl rfl))
    simp only [split]
    split
    · next hlt =>
      have hcl : ∀ e ∈ toList c, e.1 < k := fun e he => hcr e he (k, v) (by simp)
      simp only [toList, keysLt, keysGt, List.filter_append, List.filter_cons]
      rw [(ihr hr hxr).1, (ihr hr hxr).2]
      have h1 : (toList c).filter (fun e => decide (e.1 < x)) = toList c :=
        filter_all (fun e he => by simp; exact Nat.lt_trans (hcl e he) hlt)
      have h2 : (toList c).filter (fun e => decide (x < e.1)) = [] :=
        filter_none (fun e he => by simp; have := hcl e he; omega)
      simp [h1, h2, hlt, keysLt, keysGt]; omega
    · next hge =>
      have hgt : x < k := by omega
      simp only [toList, toList_mk, keysLt, keysGt, List.filter_append, List.filter_cons]
      rw [(ihc hc hxc).1, (ihc hc hxc).2]
      have h1 : (toList r).filter (fun e => decide (e.1 < x)) = [] :=
        filter_none (fun e he => by simp; have := hkr e he; omega)
      have h2 : (toList r).filter (fun e => decide (x < e.1)) = toList r :=
        filter_all (fun e he => by simp; have := hkr e he; omega)
      simp [h1, h2, hgt, keysLt, keysGt]; omega

theorem mem_split : ∀ (t : T) (x : Nat) (e : Entry),
    (e ∈ toList (split t x).1 → e ∈ toList t) ∧ (e ∈ toList (split t x).2 → e ∈ toList t) := by
  intro t
  induction t with
  | nil => intro x e; simp [split, toList]
  | last p c ih => intro x e; simpa [split, toList] using ih x e
  | cons p c k v r ihc ihr =>
    intro x e
    simp only [split]
    split
    · have := ihr x e
      simp only [toList, List.mem_append, List.mem_cons]
      constructor
      · rintro (h | h | h)
        · exact Or.inl h
        · exact Or.inr (Or.inl h)
        · exact Or.inr (Or.inr (this.1 h))
      · intro h; exact Or.inr (Or.inr (this.2 h))
    · have := ihc x e
      simp only [toList, toList_mk, List.mem_append, List.mem_cons]
      constructor
      · intro h; exact Or.inl (this.1 h)
      · rintro (h | h | h)
        · exact Or.inl (this.2 h)
        · exact Or.inr (Or.inl h)
        · exact Or.inr (Or.inr h)

@[simp] theorem toList_freshPath (n k v) : toList (freshPath n k v) = [(k, v)] := by
  induction n with
  | zero => simp [freshPath, toList]
  | succ n ih => simp [freshPath, toList, ih]

@[simp] theorem toList_erase (t : T) : toList (erase t) = toList t := by
  induction t with
  | nil => rfl
  | last p c ih => simp [erase, toList, ih]
  | cons p c k v r ihc ihr => simp [erase, toList, ihc, ihr]

@[simp] theorem toList_persistAll (t : T) : toList (persistAll t) = toList t := by
  induction t with
  | nil => rfl
  | last p c ih => simp [persistAll, toList, ih]
  | cons p c k v r ihc ihr => simp [persistAll, toList, ihc, ihr]

end T
end Mast
