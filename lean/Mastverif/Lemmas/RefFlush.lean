import Mastverif.Lemmas.RefFlushCommit
/-! `flush` / `MakeRoot` refines "every present link becomes a name" (`flushedTree`). -/
namespace Mast.Ptr
open Mast.Heap

/-! ## inversion of `>>=`, programs that never return an error -/

theorem bind_ok {α β : Type} {x : M α} {f : α → M β} {s s' : PS} {b : β} (h : (x >>= f) s = .ok b s') :
    ∃ a s1, x s = .ok a s1 ∧ f a s1 = .ok b s' := by
  change M.bind x f s = .ok b s' at h
  unfold M.bind at h
  cases hx : x s with
  | ok a s1 => rw [hx] at h; exact ⟨a, s1, rfl, h⟩
  | err s1 => rw [hx] at h; cases h
  | panic => rw [hx] at h; cases h
  | stuck => rw [hx] at h; cases h
  | oof => rw [hx] at h; cases h

theorem bind_err {α β : Type} {x : M α} {f : α → M β} {s s' : PS} (h : (x >>= f) s = .err s') :
    x s = .err s' ∨ ∃ a s1, x s = .ok a s1 ∧ f a s1 = .err s' := by
  change M.bind x f s = .err s' at h
  unfold M.bind at h
  cases hx : x s with
  | ok a s1 => rw [hx] at h; exact Or.inr ⟨a, s1, rfl, h⟩
  | err s1 => rw [hx] at h; exact Or.inl (by simpa using h)
  | panic => rw [hx] at h; cases h
  | stuck => rw [hx] at h; cases h
  | oof => rw [hx] at h; cases h

theorem read_ok {a : Nat} {s s' : PS} {nd : MNode} (h : read a s = .ok nd s') : s = s' ∧ s.heap[a]? = some nd := by
  unfold read at h
  split at h
  · next x hx => injection h with h1 h2; subst h1; subst h2; exact ⟨rfl, hx⟩
  · cases h

theorem NoErrR.publish (m a : Nat) (links : List HLink) : NoErrR (publish m a links) := by
  intro s s' h; unfold Ptr.publish at h; split at h <;> cases h
theorem NoErrR.cacheAdd (n a : Nat) : NoErrR (cacheAdd n a) := by
  intro s s' h; cases h
theorem NoErrR.intern (sn : SNode) : NoErrR (intern sn) := by
  intro s s' h; unfold Ptr.intern at h; split at h <;> cases h
theorem NoErrR.oof {α : Type} : NoErrR (oofE : M α) := by
  intro s s' h; cases h

theorem NoErrR.storeLinks (g : Nat → M (Nat × List (Nat × List HLink × Nat))) (hg : ∀ c, NoErrR (g c)) :
    ∀ ls, NoErrR (storeLinks g ls) := by
  intro ls
  induction ls with
  | nil => unfold Ptr.storeLinks; exact NoErrR.pure _
  | cons l ls ih =>
    cases l with
    | nil => unfold Ptr.storeLinks; exact NoErrR.bind ih (fun r => NoErrR.pure _)
    | ref k => unfold Ptr.storeLinks; exact NoErrR.bind ih (fun r => NoErrR.pure _)
    | ptr c =>
      unfold Ptr.storeLinks
      exact NoErrR.bind (hg c) (fun r => NoErrR.bind ih (fun r2 => NoErrR.pure _))

theorem NoErrR.storeNode : ∀ (f a : Nat), NoErrR (storeNode f a) := by
  intro f
  induction f with
  | zero => intro a; exact NoErrR.oof
  | succ f ih =>
    intro a
    unfold Ptr.storeNode
    refine NoErrR.bind (NoErrR.read a) (fun nd => ?_)
    split
    · exact NoErrR.pure _
    · exact NoErrR.bind (NoErrR.storeLinks _ ih _) (fun r => NoErrR.bind (NoErrR.intern _) (fun n => NoErrR.pure _))

theorem NoErrR.commitAll (m : Nat) : ∀ cms, NoErrR (commitAll m cms) := by
  intro cms
  induction cms with
  | nil => unfold Ptr.commitAll; exact NoErrR.pure _
  | cons c rest ih =>
    obtain ⟨a, links, n⟩ := c
    unfold Ptr.commitAll
    refine NoErrR.bind (NoErrR.read a) (fun nd => NoErrR.bind ?_ (fun _ => NoErrR.bind (NoErrR.cacheAdd n a) (fun _ => ih)))
    split
    · exact NoErrR.pure _
    · exact NoErrR.bind (NoErrR.write _ _ _) (fun _ => NoErrR.publish _ _ _)

/-! ## the pieces as `WStep`s -/

theorem WStep.trans {m : Nat} {s1 s2 s3 : PS} (a : WStep m s1 s2) (b : WStep m s2 s3) : WStep m s1 s3 := by
  refine ⟨Nat.le_trans a.len b.len, ?_, ?_, ?_⟩
  · obtain ⟨e1, h1⟩ := a.store
    obtain ⟨e2, h2⟩ := b.store
    exact ⟨e1 ++ e2, by rw [h2, h1, List.append_assoc]⟩
  · intro x nd hl hnd
    by_cases hx : s2.heap.length ≤ x
    · exact b.fresh x nd hx hnd
    · have hlt : x < s2.heap.length := by omega
      obtain ⟨nd', h2, e1, _, e3⟩ := b.keep x _ (List.getElem?_eq_getElem hlt)
      rw [hnd] at h2; injection h2 with h2; subst h2
      rcases a.fresh x _ hl (List.getElem?_eq_getElem hlt) with h | h
      · rw [e3 (Or.inl h)]; exact Or.inl h
      · exact Or.inr (e1.trans h)
  · intro x nd hnd
    obtain ⟨nd2, h2, e1, e2, e3⟩ := a.keep x nd hnd
    obtain ⟨nd3, h3, f1, f2, f3⟩ := b.keep x nd2 h2
    refine ⟨nd3, h3, f1.trans e1, fun h => e2 (f2 h), fun hc => ?_⟩
    have := e3 hc; subst this
    exact f3 hc

theorem StoreR.toW {m : Nat} {s s' : PS} (r : StoreR s s') : WStep m s s' :=
  ⟨by rw [r.heap]; exact Nat.le_refl _, r.store,
   fun a nd hl hnd => by rw [r.heap] at hnd; have := (List.getElem?_eq_some_iff.mp hnd).1; omega,
   fun a nd hnd => ⟨nd, by rw [r.heap]; exact hnd, rfl, fun h => h, fun _ => rfl⟩⟩

theorem CommitR.toW {m : Nat} {s s' : PS} (r : CommitR m s s') : WStep m s s' :=
  ⟨by rw [r.len]; exact Nat.le_refl _, ⟨[], by simp [r.store]⟩,
   fun a nd hl hnd => by have := (List.getElem?_eq_some_iff.mp hnd).1; rw [r.len] at this; omega,
   fun a nd hnd => by
    obtain ⟨nd', h1, h2, _, _, h5, h6⟩ := r.keep a nd hnd
    refine ⟨nd', h1, h2, ?_, ?_⟩
    · intro hs
      cases hn : nd.shared with
      | false => rfl
      | true => rw [h5 hn] at hs; rw [hn] at hs; cases hs
    · rintro (h | h)
      · exact h5 h
      · exact h6 h⟩

/-! ## flush -/

/-- the functional tree after a flush of a non-empty tree: every present link is a name, the tree is clean -/
def flushedTree (A : Tree) : Tree := { A with root := persistT A.root, rootP := true, dirty := false }

theorem flushedTree_toList (A : Tree) : (flushedTree A).toList = A.toList := persistT_toList _

/-- relation to `Tree.makeRoot` of the functional model (dirty, non-empty case): equal up to the flags on absent links -/
theorem flushedTree_makeRoot (e : Enc) (A : Tree) (hd : A.dirty = true) (hne : Tree.isEmptyTop A.root = false) :
    (Tree.makeRoot e A).2.2 = { flushedTree A with root := T.persistAll A.root } ∧
    normFlags (T.persistAll A.root) = (flushedTree A).root := by
  refine ⟨?_, (persistT_eq_normFlags _).symm⟩
  simp [Tree.makeRoot, hne, hd, flushedTree]

/-- the outcome of a successful flush -/
def FlushOK (t : PTree) (g : Nat) (A : Tree) (t' : PTree) (n : Nat) (s' : PS) : Prop :=
  (n = 0 ∧ Tree.isEmptyTop A.root = true ∧ t' = t ∧ repTree s' g t = some { A with dirty := false } ∧
      FpOwned s'.heap t.id (footprint s' g t)) ∨
  (n ≠ 0 ∧ Tree.isEmptyTop A.root = false ∧ t' = { t with root := .ref n } ∧
      repTree s' g t' = some (flushedTree A) ∧ footprint s' g t' = [] ∧
      repLink s'.heap s'.store g (.ref n) = some (true, persistT A.root, []))

theorem pure_ok {α : Type} {a b : α} {s s' : PS} (h : (Pure.pure a : M α) s = .ok b s') : a = b ∧ s = s' := by
  change M.pure a s = .ok b s' at h
  unfold M.pure at h
  injection h with h1 h2
  exact ⟨h1, h2⟩

/-- **flush**: see `FlushOK`; `Good`, the `source` discipline and "every name denotes" are re-established, the
    step is a `WStep` (so every other tree denotes what it denoted: `WStep.repTree_other`) -/
theorem flush_refines (E : Env) (t t' : PTree) (fuel g n : Nat) (s s' : PS) (A : Tree)
    (hg : Good s) (hsrc : SourceOK s) (hsd : StoreDen s.store) (hown : FpOwned s.heap t.id (footprint s g t))
    (hA : repTree s g t = some A) (h : flush E t fuel s = .ok (t', n) s') :
    Good s' ∧ SourceOK s' ∧ StoreDen s'.store ∧ WStep t.id s s' ∧ FlushOK t g A t' n s' := by
  obtain ⟨x, hx, hxnd, hAeq⟩ := repTree_eq_some.mp hA
  rw [footprint_eq hx] at hown
  unfold flush at h
  by_cases hr : t.root = .nil
  · rw [if_pos hr] at h
    obtain ⟨h1, rfl⟩ := pure_ok h
    injection h1 with h1 h2
    subst h1; subst h2
    refine ⟨hg, hsrc, hsd, (Step.refl _ _).toW, Or.inl ⟨rfl, ?_, rfl, ?_, by rw [footprint_eq hx]; exact hown⟩⟩
    · rw [hr] at hx; simp at hx; subst hx; rw [hAeq]; rfl
    · rw [hA, hAeq]; simp only [treeRec, hr, rootDirty]
  · rw [if_neg hr] at h
    obtain ⟨a, s1, hld, h⟩ := bind_ok h
    obtain ⟨hgr1, _, hptr, hldx⟩ := (load_spec (m := t.id) E t.root s hg).ok hld
    have hxa := hldx g x hx
    have hx1 : repLink s1.heap s1.store g t.root = some x := hgr1.rep hx
    have hg1 := hgr1.good hg
    have hsrc1 : SourceOK s1 := (load_src E t.root).ok hld hsrc
    have hsd1 : StoreDen s1.store := by rw [hgr1.store]; exact hsd
    have hrow : T.unmk x.2.1 = x.2.1 := unmk_of_ne_nil (repLink_row_ne_nil hx hr)
    obtain ⟨nd, s1', hrd, h⟩ := bind_ok h
    obtain ⟨rfl, hnd⟩ := read_ok hrd
    have hempty : Tree.isEmptyTop x.2.1 = isEmptyN nd :=
      isEmptyTop_of_isEmptyN (x := (false, x.2.1, x.2.2)) hxa hnd
    -- the dirty flag of the tree is the one of the loaded object
    have hdirty : rootDirty s.heap t.root = nd.dirty := by
      cases hroot : t.root with
      | nil => exact absurd hroot hr
      | ptr b =>
        obtain ⟨rfl, rfl⟩ := hptr b hroot
        simp [rootDirty, hnd]
      | ref k =>
        simp only [rootDirty]
        rw [hroot] at hld
        obtain ⟨_, ⟨nd', hnd', hs'⟩, _⟩ := (loadRef_spec (m := t.id) E k s hg).ok hld
        rw [hnd] at hnd'; injection hnd' with hnd'; subst hnd'
        cases hd : nd.dirty with
        | false => rfl
        | true => have := hg1.du a nd hnd hd; rw [this] at hs'; cases hs'
    by_cases hemp : isEmptyN nd = true
    · rw [if_pos hemp] at h
      obtain ⟨_, s2, hw, h⟩ := bind_ok h
      obtain ⟨h1, rfl⟩ := pure_ok h
      injection h1 with h1 h2
      subst h1; subst h2
      have hAroot : Tree.isEmptyTop A.root = true := by rw [hAeq]; simp only [treeRec, hrow, hempty, hemp]
      by_cases hd : nd.dirty = true
      · rw [if_pos hd] at hw
        obtain ⟨hst2, old, hold, _, _, _, _, _, rfl⟩ := (write_spec (m := t.id) a { nd with dirty := false } s1).ok hw
        have hlt : a < s1.heap.length := (List.getElem?_eq_some_iff.mp hnd).1
        have hshape : Shape s1.heap (s1.heap.set a { nd with dirty := false }) := by
          intro b y hy
          by_cases hba : b = a
          · subst hba
            rw [hnd] at hy; injection hy with hy; subst hy
            exact ⟨_, List.getElem?_set_self hlt, rfl, rfl, rfl, rfl, rfl⟩
          · exact ⟨y, by rw [List.getElem?_set_ne (Ne.symm hba)]; exact hy, rfl, rfl, rfl, rfl, rfl⟩
        have hx2 : repLink (s1.heap.set a { nd with dirty := false }) s1.store g t.root = some x :=
          repLink_shape hshape g _ _ hx1
        have hsrc2 : SourceOK { s1 with heap := s1.heap.set a { nd with dirty := false } } := by
          have := write_src_at t.id a { nd with dirty := false } s1 (fun old ho => Or.inr (by
            rw [hnd] at ho; injection ho with ho; subst ho; rfl))
          exact (this.ok hw).1 hsrc1
        refine ⟨hst2.good hg1, hsrc2, hsd1, hgr1.toStep.toW.trans hst2.toW, Or.inl ⟨rfl, hAroot, rfl, ?_, ?_⟩⟩
        · refine repTree_eq_some.mpr ⟨x, hx2, hxnd, ?_⟩
          have hd2 : rootDirty (s1.heap.set a { nd with dirty := false }) t.root = false := by
            cases hroot : t.root with
            | nil => rfl
            | ref k => rfl
            | ptr b =>
              obtain ⟨rfl, _⟩ := hptr b hroot
              simp only [rootDirty, List.getElem?_set_self hlt, Option.map_some, Option.getD_some]
          rw [hAeq]
          simp only [treeRec, hd2]
        · rw [footprint_eq (s := { s1 with heap := s1.heap.set a { nd with dirty := false } }) hx2]
          exact ((hown.allocOnly hgr1.alloc).shape hshape)
      · rw [if_neg hd] at hw
        obtain ⟨_, rfl⟩ := pure_ok hw
        have hd' : nd.dirty = false := by simpa using hd
        refine ⟨hg1, hsrc1, hsd1, hgr1.toStep.toW, Or.inl ⟨rfl, hAroot, rfl, ?_, ?_⟩⟩
        · rw [hgr1.repTree hA, hAeq]
          simp only [treeRec, hdirty, hd']
        · rw [footprint_eq hx1]; exact hown.allocOnly hgr1.alloc
    · rw [if_neg hemp] at h
      have hemp' : isEmptyN nd = false := by simpa using hemp
      obtain ⟨⟨n0, cms⟩, s2, hsn, h⟩ := bind_ok h
      dsimp only at h
      obtain ⟨_, s3, hcm, h⟩ := bind_ok h
      obtain ⟨h1, rfl⟩ := pure_ok h
      injection h1 with h1 h2
      subst h1; subst h2
      obtain ⟨hr2, hn, hcms⟩ := (storeNode_spec fuel a s1 g _ hg1 hsrc1 hxa hxnd).ok hsn
      dsimp only at hn hcms
      have hg2 := hr2.good hg1
      have hsrc2 := hr2.source hsrc1
      have hsd2 := hr2.den hg1.flat hsd1
      obtain ⟨hr3, hg3, hsrc3⟩ := (commitAll_spec t.id cms s2 hg2 hsrc2
        (fun c hc => by rw [hr2.heap]; exact (hcms.1 c hc).1) (by rw [hr2.heap]; exact hcms.2)).ok hcm
      have hne : x.2.1 ≠ T.nil := repLink_row_ne_nil hx hr
      have hflag : (!x.2.1.isNil) = true := by
        cases hm : x.2.1 with
        | nil => exact absurd hm hne
        | last _ _ => rfl
        | cons _ _ _ _ _ => rfl
      have hAroot : A.root = x.2.1 := by rw [hAeq]; exact hrow
      have hn3 : repLink s3.heap s3.store g (.ref n0) = some (true, persistT A.root, []) := by
        rw [hr3.store, hAroot]
        have := repLink_flat_heap (h' := s3.heap) hg2.flat _ _ _ rfl hn
        rw [this]; simp only [pchild, hflag]
      have hpn : persistT A.root ≠ T.nil := by
        intro h0
        have := isNil_persistT A.root
        rw [h0, hAroot] at this
        cases hm : x.2.1 with
        | nil => exact absurd hm hne
        | last _ _ => rw [hm] at this; cases this
        | cons _ _ _ _ _ => rw [hm] at this; cases this
      refine ⟨hg3, hsrc3, by rw [hr3.store]; exact hsd2, (hgr1.toStep.toW.trans hr2.toW).trans hr3.toW,
        Or.inr ⟨?_, ?_, rfl, ?_, ?_, hn3⟩⟩
      · intro h0
        subst h0
        obtain ⟨_, sn, _, _, hsn0, _⟩ := repLink_ref_some.mp hn3
        simp [storeAt] at hsn0
      · rw [hAroot, hempty, hemp']
      · refine repTree_eq_some.mpr ⟨_, hn3, by simp, ?_⟩
        have hpn' : T.unmk (persistT x.2.1) = persistT x.2.1 := by rw [← hAroot]; exact unmk_of_ne_nil hpn
        rw [hAeq]
        simp only [treeRec, flushedTree, rootDirty, hrow, hpn']
      · exact footprint_eq (t := { t with root := .ref n0 }) hn3

/-- a flush can only fail in the load of its root: nothing but counters / the loaded object changed -/
theorem flush_err (E : Env) (t : PTree) (fuel : Nat) (s s' : PS) (hg : Good s) (hsrc : SourceOK s)
    (h : flush E t fuel s = .err s') : Grow t.id s s' ∧ SourceOK s' := by
  unfold flush at h
  by_cases hr : t.root = .nil
  · rw [if_pos hr] at h; cases h
  · rw [if_neg hr] at h
    rcases bind_err h with h | ⟨a, s1, hld, h⟩
    · exact ⟨(load_spec (m := t.id) E t.root s hg).err h, (load_src E t.root).err h hsrc⟩
    · exfalso
      rcases bind_err h with h | ⟨nd, s2, _, h⟩
      · exact NoErrR.read a _ _ h
      · by_cases hemp : isEmptyN nd = true
        · rw [if_pos hemp] at h
          rcases bind_err h with h | ⟨_, s3, _, h⟩
          · split at h
            · exact NoErrR.write _ _ _ _ _ h
            · cases h
          · cases h
        · rw [if_neg hemp] at h
          rcases bind_err h with h | ⟨r, s3, _, h⟩
          · exact NoErrR.storeNode _ _ _ _ h
          · obtain ⟨n0, cms⟩ := r
            dsimp only at h
            rcases bind_err h with h | ⟨_, s4, _, h⟩
            · exact NoErrR.commitAll _ _ _ _ h
            · cases h

end Mast.Ptr
