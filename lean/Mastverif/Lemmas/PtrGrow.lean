import Mastverif.Lemmas.PtrOps
/-! `grow`, `shrink`, `mergeNodes`, `Delete`: never stuck. -/
namespace Mast.Ptr
open Mast.Heap

theorem extractLink_sat {m lvl : Nat} {P : PS → Prop} (nd : MNode) (frm to : Nat)
    (hl : ∀ s, Inv m s → P s → LinksVis s.heap m nd.links) :
    Sat m lvl P (extractLink m nd frm to) (fun l s' => Vis s'.heap m l) := by
  unfold extractLink
  apply linkNew_sat
  intro s hinv hP l hl'
  exact hl s hinv hP l (List.mem_of_mem_take (List.mem_of_mem_drop hl'))

theorem growLoop_sat {m lvl : Nat} (E : Env) (height : Nat) (nd : MNode) :
    ∀ (es : List (Nat × Nat)) (i start : Nat) (ks vs : List Nat) (ls : List HLink),
    Sat m lvl (fun s => LinksVis s.heap m nd.links ∧ LinksVis s.heap m ls)
      (growLoop E m height nd es i start ks vs ls)
      (fun r s' => LinksVis s'.heap m r.2.2.2) := by
  intro es
  induction es with
  | nil =>
    intro i start ks vs ls
    unfold growLoop
    exact Sat.pure (fun _ _ h => h.2)
  | cons e rest ih =>
    intro i start ks vs ls
    obtain ⟨k, v⟩ := e
    unfold growLoop
    apply Sat.bind (layerM_sat E k)
    intro lay
    split
    · exact (ih _ _ _ _ _).conseq (Nat.le_refl _)
        (fun s _ h => ⟨h.2.and_left.linksVis, h.2.and_right.linksVis⟩) (fun _ _ _ h => h)
    · apply Sat.bind (extractLink_sat nd start i (fun s _ h => h.2.and_left.linksVis))
      intro l
      apply (ih _ _ _ _ _).conseq (Nat.le_refl _) ?_ (fun _ _ _ h => h)
      intro s _ ⟨hq, hw⟩
      have hw' := hw.and_right.was
      refine ⟨hw'.and_left.linksVis, ?_⟩
      intro x hx
      rcases List.mem_append.mp hx with h | h
      · exact hw'.and_right.linksVis x h
      · simp at h; subst h; exact hq

theorem grow_sat {lvl : Nat} (E : Env) (t : PTree) :
    Sat t.id lvl (fun s => Vis s.heap t.id t.root) (grow E t)
      (fun t' s' => Vis s'.heap t.id t'.root ∧ t'.id = t.id) := by
  unfold grow
  apply Sat.bind (load_sat E t.root)
  intro a
  apply Sat.bind ((readV_sat a).conseq (Nat.le_refl _) (fun s _ h => h.1) (fun _ _ _ h => h))
  intro nd
  apply Sat.bind ((growLoop_sat E t.height nd _ 0 0 [] [] []).conseq (Nat.le_refl _)
    (fun s _ h => ⟨h.1.2, fun l hl => by simp at hl⟩) (fun _ _ _ h => h))
  intro r
  obtain ⟨start, ks, vs, ls⟩ := r
  dsimp only
  apply Sat.bind (extractLink_sat nd start nd.keys.length (fun s _ h => h.2.and_left.and_right.linksVis))
  intro rl
  split
  · exact Sat.fail
  · apply Sat.bind (alloc_sat (m := t.id) { keys := ks, vals := vs, links := ls ++ [rl], dirty := true, shared := false, owner := t.id, source := none } rfl rfl ?_)
    · intro na
      apply Sat.pure
      intro s _ ⟨hq, _⟩
      exact ⟨own_vis hq.1, rfl⟩
    · intro s _ ⟨hq, hw⟩ l hl
      rcases List.mem_append.mp hl with h | h
      · exact (hw.and_left).linksVis l h
      · simp at h; subst h; exact hq

theorem canGrowM_sat {m lvl : Nat} {P : PS → Prop} (E : Env) (h : Nat) : ∀ (ks : List Nat),
    Sat m lvl P (canGrowM E h ks) (fun _ _ => True) := by
  intro ks
  induction ks generalizing P with
  | nil => unfold canGrowM; exact Sat.pure (fun _ _ _ => trivial)
  | cons k ks ih =>
    unfold canGrowM
    apply Sat.bind (layerM_sat E k)
    intro lay
    split
    · exact Sat.pure (fun _ _ _ => trivial)
    · exact ih

theorem growAll_sat {m lvl : Nat} (E : Env) : ∀ (f : Nat) (t : PTree), t.id = m →
    Sat m lvl (fun s => Vis s.heap m t.root) (growAll E f t)
      (fun t' s' => Vis s'.heap m t'.root ∧ t'.id = m) := by
  intro f
  induction f with
  | zero => intro t _; exact Sat.oof
  | succ f ih =>
    intro t ht
    subst ht
    unfold growAll
    split
    · exact Sat.pure (fun _ _ h => ⟨h, rfl⟩)
    · apply Sat.bind (load_sat E t.root)
      intro a
      apply Sat.bind (read_sat a)
      intro nd
      apply Sat.bind (canGrowM_sat E t.height nd.keys)
      intro cg
      split
      · apply Sat.bind ((grow_sat E t).conseq (Nat.le_refl _) (fun s _ h => h.2.and_right.was.and_right.was.vis) (fun _ _ _ h => h))
        intro t'
        intro s hinv hp
        exact (ih t' hp.1.2) s hinv hp.1.1
      · exact Sat.pure (fun _ _ h => ⟨h.2.and_right.was.and_right.was.vis, rfl⟩)

theorem mergeNodes_sat {m lvl : Nat} (E : Env) : ∀ (f : Nat) (l r : HLink),
    Sat m lvl (fun s => Vis s.heap m l ∧ Vis s.heap m r) (mergeNodes E m f l r) (fun x s' => Vis s'.heap m x) := by
  intro f
  induction f with
  | zero => intro l r; exact Sat.oof
  | succ f ih =>
    intro l r
    unfold mergeNodes
    split
    · exact Sat.pure (fun _ _ h => h.2)
    · split
      · exact Sat.pure (fun _ _ h => h.1)
      · apply Sat.bind ((load_sat E l).conseq (Nat.le_refl _) (fun s _ h => h.1) (fun _ _ _ h => h))
        intro la
        apply Sat.bind ((load_sat E r).conseq (Nat.le_refl _) (fun s _ h => h.2.and_right.vis) (fun _ _ _ h => h))
        intro ra
        apply Sat.bind ((readV_sat la).conseq (Nat.le_refl _) (fun s _ h => h.2.and_left.vis) (fun _ _ _ h => h))
        intro ln
        apply Sat.bind ((readV_sat ra).conseq (Nat.le_refl _) (fun s _ h => h.2.and_left.vis) (fun _ _ _ h => h))
        intro rn
        split
        · next ll rl rrest hll hrl =>
          have hllm : ll ∈ ln.links := List.mem_of_getLast? hll
          apply Sat.bind ((ih ll rl).conseq (Nat.le_refl _) ?_ (fun _ _ _ h => h))
          · intro merged
            dsimp only
            split
            · exact Sat.fail
            · apply Sat.bind (alloc_sat (m := m) { keys := ln.keys ++ rn.keys, vals := ln.vals ++ rn.vals, links := ln.links.dropLast ++ merged :: rrest, dirty := true, shared := false, owner := m, source := none } rfl rfl ?_)
              · intro a
                exact Sat.pure (fun _ _ h => own_vis h.1.1)
              · intro s _ ⟨hq, hw⟩ x hx
                have hrv : LinksVis s.heap m rn.links := hw.and_left.and_right.linksVis
                have hlv : LinksVis s.heap m ln.links := hw.and_right.was.and_left.and_right.linksVis
                rcases List.mem_append.mp hx with h | h
                · exact hlv x (List.dropLast_subset _ h)
                · rcases List.mem_cons.mp h with h | h
                  · subst h; exact hq
                  · exact hrv x (by rw [hrl]; exact List.mem_cons_of_mem _ h)
          · intro s _ ⟨hq, hw⟩
            exact ⟨hw.and_left.and_right.linksVis ll hllm, hq.2 rl (by rw [hrl]; simp)⟩
        · exact Sat.panic

def DelPlanOK (h : Heap) (m : Nat) (p : DelPlan) : Prop := FoundOK h m p.found ∧ Vis h m p.merged

theorem Was.delPlanOK {m lvl : Nat} {p : DelPlan} {s : PS}
    (h : Was m lvl (fun s => DelPlanOK s.heap m p) s) : DelPlanOK s.heap m p :=
  ⟨(h.imp (fun _ x => x.1)).foundOK, (h.imp (fun _ x => x.2)).vis⟩

theorem deletePlan_sat {lvl : Nat} (E : Env) (t : PTree) (fuel key val : Nat) :
    Sat t.id lvl (fun s => Vis s.heap t.id t.root) (deletePlan E t fuel key val)
      (fun p s' => DelPlanOK s'.heap t.id p) := by
  unfold deletePlan
  split
  · exact Sat.fail
  · apply Sat.bind (layerM_sat E key)
    intro lay
    dsimp only
    apply Sat.bind ((load_sat E t.root).conseq (Nat.le_refl _) (fun _ _ h => h.2.vis) (fun _ _ _ h => h))
    intro a0
    apply Sat.bind ((findNode_sat E key _ false fuel a0 t.height []).conseq (Nat.le_refl _)
      (fun s _ h => ⟨h.1, fun p hp => by simp at hp⟩) (fun fd s _ (h : FoundOK s.heap t.id fd) => h))
    intro fd
    apply Sat.bind ((readV_sat fd.node).conseq (Nat.le_refl _) (fun s _ h => h.1.1) (fun _ _ _ h => h))
    intro nd
    split
    · exact Sat.fail
    · split
      · exact Sat.fail
      · split
        · exact Sat.fail
        · split
          · next l r hl hr =>
            apply Sat.bind ((mergeNodes_sat E fuel l r).conseq (Nat.le_refl _)
              (fun s _ h => ⟨h.1.2 l (List.mem_of_getElem? hl), h.1.2 r (List.mem_of_getElem? hr)⟩) (fun _ _ _ h => h))
            intro mg
            apply Sat.pure
            intro s _ ⟨hq, hw⟩
            exact ⟨hw.and_right.was.and_left.foundOK, hq⟩
          · exact Sat.panic

theorem deleteCommit_sat (t : PTree) (p : DelPlan) :
    Sat t.id 1 (fun s => DelPlanOK s.heap t.id p) (deleteCommit t p) (fun l s' => Vis s'.heap t.id l) := by
  unfold deleteCommit
  apply Sat.bind ((toMut_sat p.found.node).conseq (Nat.le_refl _) (fun s _ h => h.1.1) (fun _ _ _ h => h))
  intro a'
  apply Sat.bind (read_sat a')
  intro nd
  dsimp only
  apply Sat.bind (write_sat (Nat.le_refl _) a' _ ?_)
  · intro _
    apply (savePath_sat _).conseq (Nat.le_refl _) ?_ (fun _ _ _ h => h)
    intro s hinv ⟨_, hw⟩ q hq
    have hw' := hw.and_right.was
    have ho : Own s.heap t.id a' := Was.own (Nat.le_refl _) hw'.and_left
    have hpl := hw'.and_right.was.delPlanOK
    rcases mem_setLastNode hq with h | h
    · exact hpl.1.2.1 q h
    · rw [h]; exact own_vis ho
  · intro s hinv ⟨hnd, hw⟩
    have ho : Own s.heap t.id a' := Was.own (Nat.le_refl _) hw.and_left
    obtain ⟨h1, h2⟩ := own_fields ho hnd
    have hlv := links_vis (nd := nd) hinv hnd (own_vis ho)
    have hpl := hw.and_right.was.delPlanOK
    refine ⟨ho, ?_, h1, h2⟩
    intro l hl
    rcases List.mem_or_eq_of_mem_set hl with h | h
    · exact hlv l (List.mem_of_mem_eraseIdx h)
    · subst h; exact hpl.2

end Mast.Ptr
