import Mastverif.Lemmas.PtrShrink
/-! `node.store` + the commits of `flush`, `LoadMast`, `Get`, `Iter`: never stuck. -/
namespace Mast.Ptr
open Mast.Heap

def Flat (ls : List HLink) : Prop := ∀ l ∈ ls, isPtr l = false

def CommitsOK (h : Heap) (m : Nat) (cms : List (Nat × List HLink × Nat)) : Prop :=
  ∀ c ∈ cms, Vis h m (.ptr c.1) ∧ Flat c.2.1

theorem Was.commitsOK {m lvl : Nat} {cms : List (Nat × List HLink × Nat)} {s : PS}
    (h : Was m lvl (fun s => CommitsOK s.heap m cms) s) : CommitsOK s.heap m cms := by
  obtain ⟨s0, h0, e⟩ := h
  intro c hc; exact ⟨e.vis _ (h0 c hc).1, (h0 c hc).2⟩

theorem Was.const {m lvl : Nat} {p : Prop} {s : PS} (h : Was m lvl (fun _ => p) s) : p := by
  obtain ⟨_, h0, _⟩ := h; exact h0

theorem intern_sat {m lvl : Nat} {P : PS → Prop} (sn : SNode)
    (hp : ∀ s, Inv m s → P s → Flat sn.links) : Sat m lvl P (intern sn) (fun _ _ => True) := by
  intro s hinv hP
  unfold intern
  cases hi : internIdx sn s.store 0 with
  | some i => exact ⟨Ext.refl _ _ _, hinv, trivial⟩
  | none =>
    refine ⟨Ext.of_heap_eq rfl ⟨[sn], rfl⟩, ⟨hinv.closed, hinv.du, ?_, hinv.cache, hinv.mpos⟩, trivial⟩
    intro x hx
    rcases List.mem_append.mp hx with h | h
    · exact hinv.flat x h
    · simp at h; subst h; exact hp s hinv hP

theorem storeLinks_sat {m lvl : Nat} (g : Nat → M (Nat × List (Nat × List HLink × Nat)))
    (hg : ∀ c, Sat m lvl (fun s => Vis s.heap m (.ptr c)) (g c) (fun r s' => CommitsOK s'.heap m r.2)) :
    ∀ (ls : List HLink), Sat m lvl (fun s => LinksVis s.heap m ls) (storeLinks g ls)
      (fun r s' => Flat r.1 ∧ CommitsOK s'.heap m r.2) := by
  intro ls
  induction ls with
  | nil => unfold storeLinks; exact Sat.pure (fun _ _ _ => ⟨fun l hl => by simp at hl, fun c hc => by simp at hc⟩)
  | cons l ls ih =>
    have ih' : ∀ {Q : PS → Prop}, Sat m lvl (fun s => Q s ∧ Was m lvl (fun s => LinksVis s.heap m (l :: ls)) s)
        (storeLinks g ls) (fun r s' => Flat r.1 ∧ CommitsOK s'.heap m r.2) := by
      intro Q
      exact ih.conseq (Nat.le_refl _) (fun s _ h x hx => h.2.linksVis x (List.mem_cons_of_mem _ hx)) (fun _ _ _ h => h)
    cases l with
    | ptr c =>
      unfold storeLinks
      apply Sat.bind ((hg c).conseq (Nat.le_refl _) (fun s _ h => h (.ptr c) (by simp)) (fun _ _ _ h => h))
      intro r
      obtain ⟨n, cm⟩ := r
      apply Sat.bind ih'
      intro r2
      obtain ⟨ls', cm'⟩ := r2
      apply Sat.pure
      intro s _ ⟨hq, hw⟩
      refine ⟨?_, ?_⟩
      · intro x hx
        rcases List.mem_cons.mp hx with h | h
        · subst h; rfl
        · exact hq.1 x h
      · intro x hx
        rcases List.mem_append.mp hx with h | h
        · exact hw.and_left.commitsOK x h
        · exact hq.2 x h
    | nil =>
      unfold storeLinks
      apply Sat.bind (ih' (Q := fun _ => True) |>.conseq (Nat.le_refl _) (fun s _ h => ⟨trivial, Was.now h⟩) (fun _ _ _ h => h))
      intro r2
      obtain ⟨ls', cm'⟩ := r2
      apply Sat.pure
      intro s _ ⟨hq, _⟩
      refine ⟨?_, hq.2⟩
      intro x hx
      rcases List.mem_cons.mp hx with h | h
      · subst h; rfl
      · exact hq.1 x h
    | ref k =>
      unfold storeLinks
      apply Sat.bind (ih' (Q := fun _ => True) |>.conseq (Nat.le_refl _) (fun s _ h => ⟨trivial, Was.now h⟩) (fun _ _ _ h => h))
      intro r2
      obtain ⟨ls', cm'⟩ := r2
      apply Sat.pure
      intro s _ ⟨hq, _⟩
      refine ⟨?_, hq.2⟩
      intro x hx
      rcases List.mem_cons.mp hx with h | h
      · subst h; rfl
      · exact hq.1 x h

theorem storeNode_sat {m lvl : Nat} : ∀ (f a : Nat),
    Sat m lvl (fun s => Vis s.heap m (.ptr a)) (storeNode f a) (fun r s' => CommitsOK s'.heap m r.2) := by
  intro f
  induction f with
  | zero => intro a; exact Sat.oof
  | succ f ih =>
    intro a
    unfold storeNode
    apply Sat.bind (readV_sat a)
    intro nd
    split
    · exact Sat.pure (fun _ _ _ c hc => by simp at hc)
    · apply Sat.bind ((storeLinks_sat _ ih nd.links).conseq (Nat.le_refl _) (fun s _ h => h.1.2) (fun _ _ _ h => h))
      intro r
      obtain ⟨links', cms⟩ := r
      dsimp only
      apply Sat.bind (intern_sat _ ?_)
      · intro n
        apply Sat.pure
        intro s _ ⟨_, hw⟩ c hc
        rcases List.mem_append.mp hc with h | h
        · exact hw.and_left.and_right.commitsOK c h
        · simp at h; subst h
          exact ⟨hw.and_right.was.and_right.was.vis, hw.and_left.and_left.const⟩
      · intro s _ ⟨hq, _⟩
        dsimp only
        split
        · intro l hl; simp at hl
        · exact hq.1

theorem cacheAdd_sat {m lvl : Nat} (n a : Nat) :
    Sat m lvl (fun s => SharedA s.heap a) (cacheAdd n a) (fun _ _ => True) := by
  intro s hinv hs
  unfold cacheAdd
  refine ⟨Ext.of_heap_eq (by split <;> rfl) ⟨[], by split <;> simp⟩, ?_, trivial⟩
  split
  · refine ⟨hinv.closed, hinv.du, hinv.flat, ?_, hinv.mpos⟩
    intro k b hkb
    rcases List.mem_cons.mp hkb with h | h
    · injection h with h1 h2; subst h2; exact hs
    · exact hinv.cache k b h
  · exact hinv

theorem commitAll_sat {m : Nat} : ∀ (cms : List (Nat × List HLink × Nat)),
    Sat m 0 (fun s => CommitsOK s.heap m cms) (commitAll m cms) (fun _ _ => True) := by
  intro cms
  induction cms with
  | nil => unfold commitAll; exact Sat.pure (fun _ _ _ => trivial)
  | cons c rest ih =>
    obtain ⟨a, links, n⟩ := c
    unfold commitAll
    apply Sat.bind (read_sat a)
    intro nd
    apply Sat.bind (Q1 := fun _ s' => SharedA s'.heap a)
    · split
      · next hsh =>
        apply Sat.pure
        intro s _ ⟨hnd, _⟩
        exact ⟨nd, hnd, hsh⟩
      · next hsh =>
        apply Sat.bind (write_sat (Nat.zero_le _) a { nd with source := some n } ?_)
        · intro _
          apply (publish_sat a links ?_).conseq (Nat.le_refl _) (fun _ _ h => h) (fun _ _ _ h => h)
          intro s _ ⟨hq, hw⟩
          have hco := hw.and_right.was.commitsOK (a, links, n) (by simp)
          exact ⟨own_of_vis_unshared hq hco.1 (by simpa using hsh), hco.2⟩
        · intro s hinv ⟨hnd, hw⟩
          have hco := hw.commitsOK (a, links, n) (by simp)
          have ho := own_of_vis_unshared hnd hco.1 (by simpa using hsh)
          obtain ⟨h1, h2⟩ := own_fields ho hnd
          exact ⟨ho, links_vis (nd := nd) hinv hnd hco.1, h1, h2⟩
    · intro _
      apply Sat.bind ((cacheAdd_sat n a).conseq (Nat.le_refl _) (fun _ _ h => h.1) (fun _ _ _ h => h))
      intro _
      apply ih.conseq (Nat.le_refl _) ?_ (fun _ _ _ h => h)
      intro s _ ⟨_, hw⟩ c hc
      exact hw.and_right.was.and_right.was.commitsOK c (List.mem_cons_of_mem _ hc)

theorem flush_sat (E : Env) (t : PTree) (fuel : Nat) :
    Sat t.id 0 (fun s => Vis s.heap t.id t.root) (flush E t fuel)
      (fun r s' => Vis s'.heap t.id r.1.root ∧ r.1.id = t.id) := by
  unfold flush
  split
  · exact Sat.pure (fun _ _ h => ⟨h, rfl⟩)
  · apply Sat.bind (load_sat E t.root)
    intro a
    apply Sat.bind (read_sat a)
    intro nd
    split
    · apply Sat.bind (Q1 := fun _ _ => True)
      · split
        · next hd =>
          apply (write_sat (Nat.zero_le _) a { nd with dirty := false } ?_).conseq (Nat.le_refl _) (fun _ _ h => h) (fun _ _ _ _ => trivial)
          intro s hinv ⟨hnd, hw⟩
          have ho := own_of_vis_unshared hnd hw.and_left.vis (hinv.du a nd hnd hd)
          obtain ⟨h1, h2⟩ := own_fields ho hnd
          exact ⟨ho, links_vis (nd := nd) hinv hnd hw.and_left.vis, h1, h2⟩
        · exact Sat.pure (fun _ _ _ => trivial)
      · intro _
        exact Sat.pure (fun _ _ h => ⟨h.2.and_right.was.and_right.was.vis, rfl⟩)
    · apply Sat.bind ((storeNode_sat fuel a).conseq (Nat.le_refl _) (fun s _ h => h.2.and_left.vis) (fun _ _ _ h => h))
      intro r
      obtain ⟨n, cms⟩ := r
      dsimp only
      apply Sat.bind ((commitAll_sat cms).conseq (Nat.le_refl _) (fun _ _ h => h.1) (fun _ _ _ h => h))
      intro _
      exact Sat.pure (fun _ _ _ => ⟨trivial, rfl⟩)

theorem loadMast_sat {lvl : Nat} (E : Env) (id link size height bf : Nat) :
    Sat id lvl (fun _ => True) (loadMast E id link size height bf)
      (fun t s' => Vis s'.heap id t.root ∧ t.id = id) := by
  unfold loadMast
  apply Sat.bind (Q1 := fun r s' => Vis s'.heap id r)
  · split
    · apply Sat.bind (alloc_sat (m := id) (emptyNode id) rfl rfl (fun s _ _ => emptyNode_links_vis s.heap id))
      intro a
      exact Sat.pure (fun _ _ h => own_vis h.1.1)
    · apply Sat.bind (loadRef_sat E link)
      intro _
      exact Sat.pure (fun _ _ _ => trivial)
  · intro r
    exact Sat.pure (fun _ _ h => ⟨h.1, rfl⟩)

theorem get_sat {lvl : Nat} (E : Env) (t : PTree) (fuel key : Nat) :
    Sat t.id lvl (fun s => Vis s.heap t.id t.root) (get E t fuel key) (fun _ _ => True) := by
  unfold get
  split
  · exact Sat.pure (fun _ _ _ => trivial)
  · apply Sat.bind (load_sat E t.root)
    intro a
    apply Sat.bind (layerM_sat E key)
    intro lay
    dsimp only
    apply Sat.bind ((findNode_sat E key _ false fuel a t.height []).conseq (Nat.le_refl _)
      (fun s _ h => ⟨h.2.and_left.vis, fun p hp => by simp at hp⟩) (fun _ _ _ h => h))
    intro fd
    apply Sat.bind (read_sat fd.node)
    intro nd
    split
    · exact Sat.pure (fun _ _ _ => trivial)
    · split
      · exact Sat.pure (fun _ _ _ => trivial)
      · exact Sat.pure (fun _ _ _ => trivial)

theorem iterLinks_sat {m lvl : Nat} (g : HLink → M Unit)
    (hg : ∀ l, Sat m lvl (fun s => Vis s.heap m l) (g l) (fun _ _ => True)) :
    ∀ (ls : List HLink), Sat m lvl (fun s => LinksVis s.heap m ls) (iterLinks g ls) (fun _ _ => True) := by
  intro ls
  induction ls with
  | nil => unfold iterLinks; exact Sat.pure (fun _ _ _ => trivial)
  | cons l ls ih =>
    cases l with
    | nil =>
      unfold iterLinks
      exact ih.conseq (Nat.le_refl _) (fun s _ h x hx => h x (List.mem_cons_of_mem _ hx)) (fun _ _ _ h => h)
    | ptr c =>
      unfold iterLinks
      apply Sat.bind ((hg (.ptr c)).conseq (Nat.le_refl _) (fun s _ h => h _ (by simp)) (fun _ _ _ h => h))
      intro _
      exact ih.conseq (Nat.le_refl _) (fun s _ h x hx => h.2.linksVis x (List.mem_cons_of_mem _ hx)) (fun _ _ _ h => h)
    | ref n =>
      unfold iterLinks
      apply Sat.bind ((hg (.ref n)).conseq (Nat.le_refl _) (fun s _ h => h _ (by simp)) (fun _ _ _ h => h))
      intro _
      exact ih.conseq (Nat.le_refl _) (fun s _ h x hx => h.2.linksVis x (List.mem_cons_of_mem _ hx)) (fun _ _ _ h => h)

theorem iterAll_sat {m lvl : Nat} (E : Env) : ∀ (f : Nat) (l : HLink),
    Sat m lvl (fun s => Vis s.heap m l) (iterAll E f l) (fun _ _ => True) := by
  intro f
  induction f with
  | zero => intro l; exact Sat.oof
  | succ f ih =>
    intro l
    unfold iterAll
    apply Sat.bind (load_sat E l)
    intro a
    apply Sat.bind ((readV_sat a).conseq (Nat.le_refl _) (fun _ _ h => h.1) (fun _ _ _ h => h))
    intro nd
    exact (iterLinks_sat _ ih nd.links).conseq (Nat.le_refl _) (fun _ _ h => h.1.2) (fun _ _ _ h => h)

end Mast.Ptr
