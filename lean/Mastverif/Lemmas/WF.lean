import Mastverif.Lemmas.Basic
/-!
# The shape invariant `WF` and its uniqueness theorem

`WF layer d t`: the node row `t` sits at level `d`; its keys have layer ≥ `d`; each child is
absent or a non-empty well-formed node one level down, all of whose keys have layer < `d`.
Together with sortedness this is the Merkle-search-tree shape of property C09, and
`WF_unique` (a tree is determined by its level and its entries) is the core of C04.
-/
namespace Mast
namespace T
variable (layer : Nat → Nat)

def isEmptyRow : T → Bool
  | last _ nil => true
  | _ => false

theorem mk_of_not_empty {t : T} (h : isEmptyRow t = false) : mk t = t := by
  unfold mk; split
  · simp [isEmptyRow] at h
  · rfl

theorem mk_of_empty {t : T} (h : isEmptyRow t = true) : mk t = nil := by
  unfold isEmptyRow at h; split at h
  · rfl
  · cases h

def WF : Nat → T → Prop
  | _, nil => False
  | d, last _ c =>
      c = nil ∨ (∃ d', d = d'+1 ∧ isEmptyRow c = false ∧ WF d' c ∧ ∀ e ∈ toList c, layer e.1 < d)
  | d, cons _ c k _ r =>
      d ≤ layer k ∧ WF d r ∧
      (c = nil ∨ (∃ d', d = d'+1 ∧ isEmptyRow c = false ∧ WF d' c ∧ ∀ e ∈ toList c, layer e.1 < d))

/-- the child-link clause -/
abbrev ChildOK (d : Nat) (c : T) : Prop :=
  c = nil ∨ (∃ d', d = d'+1 ∧ isEmptyRow c = false ∧ WF layer d' c ∧ ∀ e ∈ toList c, layer e.1 < d)

theorem WF_last_iff {d p c} : WF layer d (last p c) ↔ ChildOK layer d c := by simp only [WF]
theorem WF_cons_iff {d p c k v r} : WF layer d (cons p c k v r) ↔
    d ≤ layer k ∧ WF layer d r ∧ ChildOK layer d c := by simp only [WF]

theorem toList_ne_nil {d t} (h : WF layer d t) (hne : isEmptyRow t = false) : toList t ≠ [] := by
  induction t generalizing d with
  | nil => simp [WF] at h
  | last p c ih =>
    simp only [WF] at h
    rcases h with h | ⟨d', _, hne', hw, _⟩
    · subst h; simp [isEmptyRow] at hne
    · simp only [toList]; exact ih hw hne'
  | cons p c k v r _ _ => simp [toList]

theorem append_cons_unique {α} (P : α → Prop) :
    ∀ (l1 l2 m1 m2 : List α) (a b : α),
    (∀ x ∈ l1, ¬ P x) → (∀ x ∈ l2, ¬ P x) → P a → P b →
    l1 ++ a :: m1 = l2 ++ b :: m2 → l1 = l2 ∧ a = b ∧ m1 = m2 := by
  intro l1
  induction l1 with
  | nil =>
    intro l2 m1 m2 a b _ h2 ha _ e
    cases l2 with
    | nil => simp at e; simp [e]
    | cons x l2 =>
      simp at e; exact absurd (e.1 ▸ ha) (h2 x (by simp))
  | cons y l1 ih =>
    intro l2 m1 m2 a b h1 h2 ha hb e
    cases l2 with
    | nil =>
      simp at e; exact absurd (e.1 ▸ hb) (h1 y (by simp))
    | cons x l2 =>
      simp at e
      obtain ⟨rfl, e⟩ := e
      have := ih l2 m1 m2 a b (fun z hz => h1 z (by simp [hz])) (fun z hz => h2 z (by simp [hz])) ha hb e
      simp [this]

theorem child_low {d c} (hc : ChildOK layer d c) : ∀ x ∈ toList c, ¬ (d ≤ layer x.1) := by
  intro x hx
  rcases hc with rfl | ⟨d', _, _, _, hl⟩
  · simp [toList] at hx
  · have := hl x hx; omega

theorem child_unique {d c1 c2} (h1 : ChildOK layer d c1) (h2 : ChildOK layer d c2)
    (ih : ∀ d', WF layer d' c1 → WF layer d' c2 → toList c1 = toList c2 → erase c1 = erase c2)
    (e : toList c1 = toList c2) : erase c1 = erase c2 := by
  rcases h1 with rfl | ⟨d1, hd1, n1, w1, _⟩ <;> rcases h2 with rfl | ⟨d2, hd2, n2, w2, _⟩
  · rfl
  · exact absurd e.symm (toList_ne_nil layer w2 n2)
  · exact absurd e (toList_ne_nil layer w1 n1)
  · have : d1 = d2 := by omega
    subst this; exact ih d1 w1 w2 e

/-- **Uniqueness**: two well-formed trees of the same level with the same entries are the same
    tree (up to residency flags). -/
theorem WF_unique : ∀ (t1 t2 : T) (d : Nat), WF layer d t1 → WF layer d t2 →
    toList t1 = toList t2 → erase t1 = erase t2 := by
  intro t1
  induction t1 with
  | nil => intro t2 d h1; simp [WF] at h1
  | last p1 c1 ih =>
    intro t2 d h1 h2 e
    cases t2 with
    | nil => simp [WF] at h2
    | last p2 c2 =>
      simp only [WF] at h1 h2
      simp only [toList] at e
      simp only [erase]
      rw [child_unique layer h1 h2 (fun d' => ih c2 d') e]
    | cons p2 c2 k v r2 =>
      exfalso
      simp only [WF] at h1 h2
      simp only [toList] at e
      have hmem : (k, v) ∈ toList c1 := by rw [e]; simp
      exact child_low layer h1 _ hmem h2.1
  | cons p1 c1 k1 v1 r1 ihc ihr =>
    intro t2 d h1 h2 e
    cases t2 with
    | nil => simp [WF] at h2
    | last p2 c2 =>
      exfalso
      simp only [WF] at h1 h2
      simp only [toList] at e
      have hmem : (k1, v1) ∈ toList c2 := by rw [← e]; simp
      exact child_low layer h2 _ hmem h1.1
    | cons p2 c2 k2 v2 r2 =>
      simp only [WF] at h1 h2
      simp only [toList] at e
      obtain ⟨hk1, hr1, hc1⟩ := h1
      obtain ⟨hk2, hr2, hc2⟩ := h2
      obtain ⟨ec, ekv, er⟩ := append_cons_unique (fun x : Nat × Nat => d ≤ layer x.1)
        _ _ _ _ _ _ (child_low layer hc1) (child_low layer hc2) hk1 hk2 e
      have hr : erase r1 = erase r2 := ihr r2 d hr1 hr2 er
      have hc : erase c1 = erase c2 := child_unique layer hc1 hc2 (fun d' => ihc c2 d') ec
      injection ekv with ek ev
      subst ek ev
      simp only [erase, hr, hc]

/-! ## preservation by `split` -/

theorem childOK_mk {d' : Nat} {q : T} (hq : WF layer d' q)
    (hl : ∀ e ∈ toList q, layer e.1 < d' + 1) : ChildOK layer (d'+1) (mk q) := by
  by_cases h : isEmptyRow q = true
  · left; exact mk_of_empty h
  · right
    have h' : isEmptyRow q = false := by simpa using h
    rw [mk_of_not_empty h']
    exact ⟨d', rfl, h', hq, hl⟩

theorem isEmptyRow_freshPath (s k v) : isEmptyRow (freshPath s k v) = false := by
  cases s with
  | zero => simp [freshPath, isEmptyRow]
  | succ s => cases s <;> simp [freshPath, isEmptyRow]

theorem split_WF : ∀ (t : T) (d x : Nat), WF layer d t →
    WF layer d (split t x).1 ∧ WF layer d (split t x).2 := by
  intro t
  induction t with
  | nil => intro d x h; simp [WF] at h
  | last p c ih =>
    intro d x h
    rw [WF_last_iff] at h
    simp only [split]
    rcases h with rfl | ⟨d', rfl, hne, hw, hl⟩
    · simp [split, mk, WF]
    · obtain ⟨h1, h2⟩ := ih d' x hw
      have m := mem_split c x
      constructor
      · rw [WF_last_iff]; exact childOK_mk layer h1 (fun e he => hl e ((m e).1 he))
      · rw [WF_last_iff]; exact childOK_mk layer h2 (fun e he => hl e ((m e).2 he))
  | cons p c k v r ihc ihr =>
    intro d x h
    rw [WF_cons_iff] at h
    obtain ⟨hk, hr, hc⟩ := h
    simp only [split]
    split
    · obtain ⟨h1, h2⟩ := ihr d x hr
      exact ⟨by rw [WF_cons_iff]; exact ⟨hk, h1, hc⟩, h2⟩
    · rcases hc with rfl | ⟨d', rfl, hne, hw, hl⟩
      · constructor
        · simp [split, mk, WF]
        · rw [WF_cons_iff]; exact ⟨hk, hr, by left; simp [split, mk]⟩
      · obtain ⟨h1, h2⟩ := ihc d' x hw
        have m := mem_split c x
        constructor
        · rw [WF_last_iff]; exact childOK_mk layer h1 (fun e he => hl e ((m e).1 he))
        · rw [WF_cons_iff]
          exact ⟨hk, hr, childOK_mk layer h2 (fun e he => hl e ((m e).2 he))⟩

/-- a fresh pass-through chain is well-formed at its level -/
theorem freshPath_WF (k v) : ∀ s tgt, tgt ≤ layer k → (layer k ≤ tgt ∨ s = 0) →
    WF layer (tgt + s) (freshPath s k v) := by
  intro s
  induction s with
  | zero => intro tgt h _; simp [freshPath, WF]; exact h
  | succ s ih =>
    intro tgt h h2
    have hk : layer k ≤ tgt := by rcases h2 with h2 | h2; exact h2; omega
    simp only [freshPath]
    rw [WF_last_iff]
    right
    refine ⟨tgt + s, by omega, isEmptyRow_freshPath s k v, ih tgt h (Or.inl hk), ?_⟩
    intro e he; simp at he; subst he; simp; omega

/-! `WF` ignores residency flags -/
theorem isEmptyRow_erase (t : T) : isEmptyRow (erase t) = isEmptyRow t := by
  cases t with
  | nil => rfl
  | last p c => cases c <;> simp [erase, isEmptyRow]
  | cons p c k v r => simp [erase, isEmptyRow]

theorem erase_eq_nil {t : T} : erase t = nil ↔ t = nil := by
  cases t <;> simp [erase]

theorem WF_erase : ∀ (t : T) (d : Nat), WF layer d (erase t) ↔ WF layer d t := by
  intro t
  induction t with
  | nil => intro d; simp [erase, WF]
  | last p c ih =>
    intro d
    simp only [erase, WF, erase_eq_nil, isEmptyRow_erase, toList_erase]
    constructor
    · rintro (h | ⟨d', h1, h2, h3, h4⟩)
      · exact Or.inl h
      · exact Or.inr ⟨d', h1, h2, (ih d').1 h3, h4⟩
    · rintro (h | ⟨d', h1, h2, h3, h4⟩)
      · exact Or.inl h
      · exact Or.inr ⟨d', h1, h2, (ih d').2 h3, h4⟩
  | cons p c k v r ihc ihr =>
    intro d
    simp only [erase, WF, erase_eq_nil, isEmptyRow_erase, toList_erase, ihr d]
    constructor
    · rintro ⟨hk, hr, (h | ⟨d', h1, h2, h3, h4⟩)⟩
      · exact ⟨hk, hr, Or.inl h⟩
      · exact ⟨hk, hr, Or.inr ⟨d', h1, h2, (ihc d').1 h3, h4⟩⟩
    · rintro ⟨hk, hr, (h | ⟨d', h1, h2, h3, h4⟩)⟩
      · exact ⟨hk, hr, Or.inl h⟩
      · exact ⟨hk, hr, Or.inr ⟨d', h1, h2, (ihc d').2 h3, h4⟩⟩

end T
end Mast
