import Mastverif.Lemmas.Store
import Mastverif.Lemmas.Codec
/-!
# Equal names ⇒ equal contents (under collision-freeness), and injectivity of the encoder
-/
namespace Mast
namespace T

theorem isNil_iff' {t : T} : t.isNil = true ↔ t = nil := by cases t <;> simp [isNil]

/-- no two different nodes in play share a name: collision-freeness of the hash together with
    injectivity of the node encoder, stated on rows -/
def NoCollision (e : Enc) : Prop := ∀ a b : T, nodeName e a = nodeName e b → rowB e a = rowB e b

theorem rowB_cons_inj (e : Enc) {p c k v r p2 c2 k2 v2 r2}
    (h : rowB e (cons p c k v r) = rowB e (cons p2 c2 k2 v2 r2)) :
    e.keyB k = e.keyB k2 ∧ e.valB v = e.valB v2 ∧
    (if c.isNil then none else some (e.hash (e.node (rowB e c)))) =
      (if c2.isNil then none else some (e.hash (e.node (rowB e c2)))) ∧
    rowB e r = rowB e r2 := by
  simp only [rowB] at h
  have hk := congrArg NodeB.keys h
  have hv := congrArg NodeB.vals h
  have hl := congrArg NodeB.links h
  simp only [List.cons.injEq] at hk hv hl
  refine ⟨hk.1, hv.1, hl.1, ?_⟩
  cases hr : rowB e r; cases hr2 : rowB e r2
  simp only [hr, hr2] at hk hv hl
  simp [hk.2, hv.2, hl.2]

theorem link_eq_toList (e : Enc) (hnc : NoCollision e) {c c2 : T}
    (ih : ∀ t2, rowB e c = rowB e t2 → toList c = toList t2)
    (h : (if c.isNil then none else some (e.hash (e.node (rowB e c)))) =
      (if c2.isNil then none else some (e.hash (e.node (rowB e c2))))) : toList c = toList c2 := by
  by_cases hc : c.isNil = true
  · by_cases hc2 : c2.isNil = true
    · rw [isNil_iff'] at hc hc2; subst hc hc2; rfl
    · simp [hc, hc2] at h
  · by_cases hc2 : c2.isNil = true
    · simp [hc, hc2] at h
    · simp only [hc, hc2, Bool.false_eq_true, if_false, Option.some.injEq] at h
      exact ih c2 (hnc c c2 h)

/-- equal node descriptions (entries + child names) ⇒ equal entry lists -/
theorem rowB_eq_toList (e : Enc) (hnc : NoCollision e)
    (hk : Function.Injective e.keyB) (hv : Function.Injective e.valB) :
    ∀ t1 t2 : T, rowB e t1 = rowB e t2 → toList t1 = toList t2 := by
  intro t1
  induction t1 with
  | nil =>
    intro t2 h
    cases t2 with
    | nil => rfl
    | last p c => simp [rowB] at h
    | cons p c k v r => simp [rowB] at h
  | last p c ih =>
    intro t2 h
    cases t2 with
    | nil => simp [rowB] at h
    | last p2 c2 =>
      simp only [rowB, NodeB.mk.injEq, List.cons.injEq, and_true, true_and] at h
      simp only [toList]
      exact link_eq_toList e hnc ih h
    | cons p2 c2 k v r => simp [rowB] at h
  | cons p c k v r ihc ihr =>
    intro t2 h
    cases t2 with
    | nil => simp [rowB] at h
    | last p2 c2 => simp [rowB] at h
    | cons p2 c2 k2 v2 r2 =>
      obtain ⟨h1, h2, h3, h4⟩ := rowB_cons_inj e h
      have ek := hk h1
      have ev := hv h2
      subst ek ev
      simp only [toList]
      rw [link_eq_toList e hnc ihc h3, ihr r2 h4]

/-- **equal root names ⇒ equal contents** (and so: different contents ⇒ different names) -/
theorem name_eq_toList (e : Enc) (hnc : NoCollision e)
    (hk : Function.Injective e.keyB) (hv : Function.Injective e.valB) (t1 t2 : T)
    (h : nodeName e t1 = nodeName e t2) : toList t1 = toList t2 :=
  rowB_eq_toList e hnc hk hv t1 t2 (hnc t1 t2 h)

end T

namespace Codec

theorem map_some_inj {α} : ∀ {a b : List α}, a.map some = b.map some → a = b := by
  intro a
  induction a with
  | nil => intro b h; cases b <;> simp_all
  | cons x a ih =>
    intro b h
    cases b with
    | nil => simp at h
    | cons y b =>
      simp only [List.map_cons, List.cons.injEq, Option.some.injEq] at h
      rw [h.1, ih h.2]

/-- `encBin` is injective on decodable nodes with n+1 links -/
theorem encBin_injective (n1 n2 : NodeB) (h1 : NodeOK n1) (h2 : NodeOK n2)
    (l1 : n1.links.length = n1.keys.length + 1) (l2 : n2.links.length = n2.keys.length + 1)
    (h : encBin n1 = encBin n2) : n1 = n2 := by
  have r1 := decBinRaw_encBin n1 h1
  have r2 := decBinRaw_encBin n2 h2
  rw [h, r2] at r1
  injection r1 with r1
  have hk : n1.keys = n2.keys := by
    have := congrArg RawNode.keys r1
    simp only at this
    exact (map_some_inj this).symm
  have hv : n1.vals = n2.vals := by
    have := congrArg RawNode.vals r1
    simp only at this
    exact (map_some_inj this).symm
  have hl : n1.links = n2.links := by
    have := congrArg RawNode.links r1
    simp only at this
    have len : n1.links.length = n2.links.length := by rw [l1, l2, hk]
    by_cases a1 : n1.links.all Option.isNone = true
    · by_cases a2 : n2.links.all Option.isNone = true
      · -- both all-nil and of the same length
        apply List.ext_getElem len
        intro i hi1 hi2
        have e1 : n1.links[i].isNone = true := List.all_eq_true.mp a1 _ (List.getElem_mem hi1)
        have e2 : n2.links[i].isNone = true := List.all_eq_true.mp a2 _ (List.getElem_mem hi2)
        rw [Option.isNone_iff_eq_none] at e1 e2
        rw [e1, e2]
      · have a2' : n2.links.all Option.isNone = false := by simpa using a2
        simp only [a1, a2', if_true, Bool.false_eq_true, if_false] at this
        rw [this] at l2; simp at l2
    · by_cases a2 : n2.links.all Option.isNone = true
      · have a1' : n1.links.all Option.isNone = false := by simpa using a1
        simp only [a1', a2, if_true, Bool.false_eq_true, if_false] at this
        rw [← this] at l1; simp at l1
      · have a1' : n1.links.all Option.isNone = false := by simpa using a1
        have a2' : n2.links.all Option.isNone = false := by simpa using a2
        simp only [a1', a2', Bool.false_eq_true, if_false] at this
        exact this.symm
  cases n1; cases n2
  simp only at hk hv hl
  simp [hk, hv, hl]

end Codec
end Mast
