import Mastverif.Lemmas.RefGrow3
/-! The grow loop of `Insert` refines `Tree.growLoop`. -/
namespace Mast.Ptr
open Mast.Heap

/-- the `Tree` record of a `PTree` whose root link denotes `y` -/
def treeRec (t : PTree) (y : Bool × T × List Nat) (d : Bool) : Tree :=
  { root := T.unmk y.2.1, rootP := y.1, dirty := d, size := t.size, height := t.height, bf := t.bf,
    growAfter := t.growAfter, shrinkBelow := t.shrinkBelow }

/-- what `growAll` establishes -/
def GrowAllOK (E : Env) (f : Nat) (t : PTree) (y : Bool × T × List Nat) (n0 : Nat) (t' : PTree) (s' : PS) : Prop :=
  ∃ a' g' y', t'.root = .ptr a' ∧ t'.id = t.id ∧ t'.bf = t.bf ∧ t'.size = t.size ∧
    (1 ≤ t.bf → 1 ≤ t.growAfter → 1 ≤ t'.growAfter) ∧
    repLink s'.heap s'.store g' (.ptr a') = some y' ∧ FpExt n0 y.2.2 y'.2.2 ∧ rootDirty s'.heap (.ptr a') = true ∧
    treeRec t' y' true = Tree.growLoop E.layer f (treeRec t y true) ∧ ¬ growCond E.layer (treeRec t' y' true)

theorem growAll_refines (E : Env) : ∀ (f : Nat) (t : PTree) (s : PS) (g a : Nat) (y : Bool × T × List Nat),
    Good s → t.root = .ptr a → repLink s.heap s.store g (.ptr a) = some y → y.2.2.Nodup →
    rootDirty s.heap (.ptr a) = true →
    Spec (Grow t.id) (growAll E f t) s (fun t' s' => GrowAllOK E f t y s.heap.length t' s') := by
  intro f
  induction f with
  | zero => intro t s g a y _ _ _ _ _; exact Spec.oof
  | succ f ih =>
    intro t s g a y hg hroot hy hynd hdirty
    have hyrow : T.unmk y.2.1 = y.2.1 := unmk_of_ne_nil (repLink_row_ne_nil hy (by simp))
    unfold growAll
    split
    · next hsz =>
      refine Spec.pure ⟨a, g, y, hroot, rfl, rfl, rfl, fun _ h => h, hy, FpExt.refl hynd, hdirty, ?_, ?_⟩
      · have : ¬ growCond E.layer (treeRec t y true) := by
          intro hc; have := hc.1; simp only [treeRec] at this; omega
        rw [growLoop_succ, if_neg this]
      · intro hc; have := hc.1; simp only [treeRec] at this; omega
    · next hsz =>
      rw [hroot]
      refine Spec.bind (load_spec (m := t.id) E (.ptr a) s hg) ?_
      rintro a' s0 _ _ ⟨_, hptr, _⟩
      obtain ⟨rfl, rfl⟩ := hptr a rfl
      refine Spec.bind (read_spec a' s0) ?_
      rintro nd s0' _ _ ⟨rfl, hnda⟩
      obtain ⟨g0, cs, hgeq, hv, hkids, hcl, hyeq⟩ := repLink_ptr_inv hy hnda
      refine Spec.bind (canGrowM_spec (m := t.id) E t.height nd.keys s0) ?_
      rintro cg s1 _ hgr1 rfl
      have hcan : T.canGrow E.layer t.height (treeRec t y true).root =
          nd.keys.any (fun k => decide (t.height < E.layer k)) := by
        show T.canGrow E.layer t.height (T.unmk y.2.1) = _
        rw [hyrow, hyeq, nodeRep_row]
        exact canGrow_mkRow E.layer t.height nd.keys (cs.map pr) nd.vals (by simpa using hcl) hv.2
      have hg1 := hgr1.good hg
      have hy1 := hgr1.rep hy
      split
      · next hcg =>
        have hcond : growCond E.layer (treeRec t y true) := by
          refine ⟨by simp only [treeRec]; omega, ?_⟩
          show T.canGrow E.layer t.height (treeRec t y true).root = true
          rw [hcan]; exact hcg
        refine Spec.bind (grow_spec E t s1 hg1 hroot hy1 hynd) ?_
        rintro t1 s2 _ hgr2 ⟨na, g1, y1, rfl, hy1', hy1row, hy1fp, hd1⟩
        have hg2 := hgr2.good hg1
        refine (ih (grownTree t na) s2 g1 na y1 hg2 rfl hy1' hy1fp.1 hd1).conseq ?_
        rintro t' s' _ hgr' ⟨a2, g2, y2, h1, h2, h3, h4, h5, h6, h7, h8, h9, h10⟩
        refine ⟨a2, g2, y2, h1, h2, h3, h4, ?_, h6, ?_, h8, ?_, h10⟩
        · intro hb hga
          apply h5 hb
          show 1 ≤ t.growAfter * t.bf
          exact Nat.mul_le_mul hga hb
        · have hl1 := hgr1.length
          have hl2 := hgr2.length
          exact (hy1fp.n_mono hl1).trans h7 (by omega)
        · rw [h9, growLoop_succ, if_pos hcond]
          congr 1
          have hy1ne : T.unmk y1.2.1 = y1.2.1 := unmk_of_ne_nil (repLink_row_ne_nil hy1' (by simp))
          have hf1 : y1.1 = false := repLink_flag_ptr hy1'
          have hf0 : y.1 = false := repLink_flag_ptr hy
          show ({ root := T.unmk y1.2.1, rootP := y1.1, dirty := true, size := t.size, height := t.height + 1,
                  bf := t.bf, growAfter := t.growAfter * t.bf, shrinkBelow := t.growAfter } : Tree) =
               { root := T.grow E.layer t.height (T.unmk y.2.1), rootP := y.1, dirty := true, size := t.size,
                 height := t.height + 1, bf := t.bf, growAfter := t.growAfter * t.bf, shrinkBelow := t.growAfter }
          rw [hy1ne, hy1row, hyrow, hf1, hf0]
      · next hcg =>
        have hncond : ¬ growCond E.layer (treeRec t y true) := by
          intro hc
          have h2 : T.canGrow E.layer t.height (treeRec t y true).root = true := hc.2
          rw [hcan] at h2
          exact hcg h2
        refine Spec.pure ⟨a', g, y, hroot, rfl, rfl, rfl, fun _ h => h, hy1, (FpExt.refl hynd), ?_, ?_, hncond⟩
        · have : s1.heap[a']? = some nd := hgr1.alloc a' nd hnda
          simp only [rootDirty, hnda] at hdirty
          simp only [rootDirty, this]; exact hdirty
        · rw [growLoop_succ, if_neg hncond]

end Mast.Ptr
