import Mastverif.Lemmas.TreeInv
import Mastverif.Lemmas.Store
/-!
# Histories: operation sequences on the tree model and on the sorted association list
-/
namespace Mast
open T

namespace T
theorem erase_persistAll : ∀ t : T, erase (persistAll t) = erase t := by
  intro t
  induction t with
  | nil => rfl
  | last p c ih => simp [persistAll, erase, ih]
  | cons p c k v r ihc ihr => simp [persistAll, erase, ihc, ihr]

theorem WF_persistAll (layer : Nat → Nat) (t : T) (d : Nat) : WF layer d (persistAll t) ↔ WF layer d t := by
  rw [← WF_erase layer (persistAll t), erase_persistAll, WF_erase]
end T

namespace Tree
variable (layer : Nat → Nat)

/-! ## histories -/

inductive Op where
  | ins (k v : Nat) | del (k v : Nat) | get (k : Nat) | iter | size | persist
  deriving Repr, DecidableEq

inductive Out where
  | ok | err | panic
  | val (o : Option Nat)
  | list (l : List (Nat × Nat))
  | num (n : Nat)
  deriving Repr, DecidableEq

def stepT (e : Enc) (m : Tree) : Op → Tree × Out
  | .ins k v => match insert layer m k v with
      | .ok m' => (m', .ok) | .err _ => (m, .err) | .panic _ => (m, .panic)
  | .del k v => match delete layer m k v with
      | .ok m' => (m', .ok) | .err _ => (m, .err) | .panic _ => (m, .panic)
  | .get k => (m, .val (m.lookup layer k))
  | .iter => (m, .list m.toList)
  | .size => (m, .num m.size)
  | .persist => ((makeRoot e m).2.2, .ok)

def stepL (l : List (Nat × Nat)) : Op → List (Nat × Nat) × Out
  | .ins k v => (insL k v l, .ok)
  | .del k v => if getL k l = some v then (delL k l, .ok) else (l, .err)
  | .get k => (l, .val (getL k l))
  | .iter => (l, .list l)
  | .size => (l, .num l.length)
  | .persist => (l, .ok)

def runT (e : Enc) : Tree → List Op → List Out
  | _, [] => []
  | m, op :: ops => let r := stepT layer e m op; r.2 :: runT e r.1 ops

def runL : List (Nat × Nat) → List Op → List Out
  | _, [] => []
  | l, op :: ops => let r := stepL l op; r.2 :: runL r.1 ops

theorem inv_makeRoot (e : Enc) (m : Tree) (hi : Inv layer m) :
    Inv layer (makeRoot e m).2.2 ∧ (makeRoot e m).2.2.toList = m.toList := by
  unfold makeRoot
  split
  · exact ⟨⟨hi.wf, hi.sorted, hi.size, hi.bf2, hi.ga, hi.sb⟩, rfl⟩
  · split
    · exact ⟨⟨hi.wf, hi.sorted, hi.size, hi.bf2, hi.ga, hi.sb⟩, rfl⟩
    · refine ⟨⟨?_, ?_, ?_, hi.bf2, hi.ga, hi.sb⟩, ?_⟩
      · simp only; exact (WF_persistAll layer m.root m.height).mpr hi.wf
      · simp only; rw [toList_persistAll]; exact hi.sorted
      · simp only; rw [toList_persistAll]; exact hi.size
      · simp [Tree.toList]

theorem step_refines (e : Enc) (m : Tree) (op : Op) (hi : Inv layer m) :
    (stepT layer e m op).2 = (stepL m.toList op).2 ∧
    Inv layer (stepT layer e m op).1 ∧ (stepT layer e m op).1.toList = (stepL m.toList op).1 := by
  cases op with
  | ins k v =>
    obtain ⟨m', h1, h2, h3, _⟩ := insert_spec layer m k v hi
    simp only [stepT, h1, stepL]
    exact ⟨by first | rfl | trivial, h2, h3⟩
  | del k v =>
    by_cases hp : getL k m.toList = some v
    · obtain ⟨m', h1, h2, h3, _⟩ := delete_spec layer m k v hi hp
      simp only [stepT, h1, stepL, hp, if_true]
      exact ⟨by first | rfl | trivial, h2, h3⟩
    · obtain ⟨er, h1⟩ := delete_absent layer m k v hi hp
      simp only [stepT, h1, stepL, hp, if_false]
      exact ⟨by first | rfl | trivial, hi, by first | rfl | trivial⟩
  | get k =>
    simp only [stepT, stepL]
    exact ⟨by rw [lookup_eq layer m k hi], hi, by first | rfl | trivial⟩
  | iter => exact ⟨by first | rfl | trivial, hi, by first | rfl | trivial⟩
  | size =>
    simp only [stepT, stepL]
    exact ⟨by rw [hi.size]; rfl, hi, by first | rfl | trivial⟩
  | persist =>
    simp only [stepT, stepL]
    have := inv_makeRoot layer e m hi
    exact ⟨by first | rfl | trivial, this.1, this.2⟩


/-- the tree reached by a history -/
def execT (e : Enc) : Tree → List Op → Tree
  | m, [] => m
  | m, op :: ops => execT e (stepT layer e m op).1 ops

theorem inv_execT (e : Enc) : ∀ (ops : List Op) (m : Tree), Inv layer m → Inv layer (execT layer e m ops) := by
  intro ops
  induction ops with
  | nil => intro m hi; exact hi
  | cons op ops ih => intro m hi; exact ih _ (step_refines layer e m op hi).2.1

end Tree
end Mast
