import Mastverif.Lemmas.Seek
import Mastverif.Lemmas.WF
/-!
# Forward navigation = walking down the sorted entry list

`Cursor.out path` (what remains to be emitted from every path entry, deepest first) is the list
of entries from the cursor's position on.  `Min` placement gives the whole list, `Ceil` placement
gives the entries not smaller than the probe (Lemmas/Seek.lean); `forward` takes the tail; `get`
reads the head.  Nodes are `Solid`: a child link never leads to an entry-less childless node
(which `WF` guarantees).
-/
namespace Mast
open T

namespace T

/-- no child link leads to an empty node, recursively -/
def Solid : T → Prop
  | nil => True
  | last _ c => (c.isNil = true ∨ isEmptyRow c = false) ∧ Solid c
  | cons _ c _ _ r => (c.isNil = true ∨ isEmptyRow c = false) ∧ Solid c ∧ Solid r

theorem solid_of_WF (layer : Nat → Nat) : ∀ (t : T) (d : Nat), WF layer d t → Solid t := by
  intro t
  induction t with
  | nil => intro d h; simp [WF] at h
  | last p c ih =>
    intro d h
    rw [WF_last_iff] at h
    rcases h with rfl | ⟨d', _, hne, hw, _⟩
    · simp [Solid, isNil]
    · exact ⟨Or.inr hne, ih d' hw⟩
  | cons p c k v r ihc ihr =>
    intro d h
    rw [WF_cons_iff] at h
    obtain ⟨_, hr, hc⟩ := h
    rcases hc with rfl | ⟨d', _, hne, hw, _⟩
    · exact ⟨Or.inl rfl, trivial, ihr d hr⟩
    · exact ⟨Or.inr hne, ihc d' hw, ihr d hr⟩

theorem solid_linkAt : ∀ (node : T) (i : Nat), Solid node →
    Solid (linkAt node i) ∧ ((linkAt node i).isNil = true ∨ isEmptyRow (linkAt node i) = false) := by
  intro node
  induction node with
  | nil => intro i _; simp [linkAt, Solid, isNil]
  | last p c _ =>
    intro i h
    cases i with
    | zero => exact ⟨h.2, h.1⟩
    | succ i => simp [linkAt, Solid, isNil]
  | cons p c k v r _ ihr =>
    intro i h
    cases i with
    | zero => exact ⟨h.2.1, h.1⟩
    | succ i => exact ihr i h.2.2

theorem seekRow_ge : ∀ (node : T) (i : Nat), rowLen node ≤ i → Cursor.seekRow node i = [] := by
  intro node
  induction node with
  | nil => intro i _; cases i <;> rfl
  | last p c _ => intro i _; cases i <;> rfl
  | cons p c k v r _ ihr =>
    intro i h
    cases i with
    | zero => simp [rowLen] at h
    | succ i => simp only [Cursor.seekRow]; exact ihr i (by simp [rowLen] at h; omega)

theorem seekRow_lt : ∀ (node : T) (i : Nat), i < rowLen node →
    ∃ e, entryAt node i = some e ∧
      Cursor.seekRow node i = e :: (toList (linkAt node (i + 1)) ++ Cursor.seekRow node (i + 1)) := by
  intro node
  induction node with
  | nil => intro i h; simp [rowLen] at h
  | last p c _ => intro i h; simp [rowLen] at h
  | cons p c k v r _ ihr =>
    intro i h
    cases i with
    | zero =>
      refine ⟨(k, v), rfl, ?_⟩
      simp only [Cursor.seekRow, linkAt, restOf_eq_toList]
      cases r with
      | nil => simp [toList, linkAt, Cursor.seekRow]
      | last q x => simp [toList, linkAt, Cursor.seekRow]
      | cons q x k2 v2 r2 => simp [toList, linkAt, Cursor.seekRow, restOf_eq_toList]
    | succ i =>
      obtain ⟨e, he, hs⟩ := ihr i (by simp [rowLen] at h; omega)
      exact ⟨e, he, by simpa [Cursor.seekRow, linkAt] using hs⟩

theorem toList_link0 : ∀ node : T, toList node = toList (linkAt node 0) ++ Cursor.seekRow node 0 := by
  intro node
  cases node with
  | nil => rfl
  | last p c => simp [toList, linkAt, Cursor.seekRow]
  | cons p c k v r => simp [toList, linkAt, Cursor.seekRow, restOf_eq_toList]

/-- a non-empty node whose first link is nil has an entry -/
theorem rowLen_pos_of_solid_leaf (node : T) (h0 : (linkAt node 0).isNil = true) (hne : isEmptyRow node = false)
    (hn : node.isNil = false) : 0 < rowLen node := by
  cases node with
  | nil => simp [isNil] at hn
  | last p c =>
    simp only [linkAt] at h0
    cases c <;> simp_all [isEmptyRow, isNil]
  | cons p c k v r => simp [rowLen]

end T

namespace Cursor

def AtEntry : Path → Prop
  | [] => True
  | (node, i) :: _ => i < rowLen node

def PathSolid (path : Path) : Prop := ∀ x ∈ path, Solid x.1

theorem out_cons (node : T) (i : Nat) (rest : Path) : out ((node, i) :: rest) = seekRow node i ++ out rest := by
  simp [out]

theorem get_eq_head (path : Path) (h : AtEntry path) : get path = (out path).head? := by
  cases path with
  | nil => rfl
  | cons x rest =>
    obtain ⟨node, i⟩ := x
    obtain ⟨e, he, hs⟩ := seekRow_lt node i h
    simp [get, he, out_cons, hs]

/-- `Min`: descending through first links adds exactly the entries of the subtree -/
theorem out_minFrom : ∀ (fuel : Nat) (node : T) (rest : Path), lvl node < fuel →
    out (minFrom fuel node ((node, 0) :: rest)) = toList node ++ out rest := by
  intro fuel
  induction fuel with
  | zero => intro node rest h; omega
  | succ fuel ih =>
    intro node rest hf
    simp only [minFrom]
    by_cases hc : (linkAt node 0).isNil = true
    · simp only [hc, if_true]
      have : linkAt node 0 = nil := by cases hl : linkAt node 0 <;> simp_all [isNil]
      rw [out_cons, toList_link0 node, this]; simp [toList]
    · have hc' : (linkAt node 0).isNil = false := by simpa using hc
      simp only [hc', Bool.false_eq_true, if_false]
      rw [ih _ _ (by have := lvl_linkAt_lt node 0 hc'; omega), out_cons, toList_link0 node]
      simp

/-- after `Min` from a solid, non-empty node the cursor is at an entry, and the path stays solid -/
theorem minFrom_atEntry : ∀ (fuel : Nat) (node : T) (rest : Path), lvl node < fuel → Solid node →
    isEmptyRow node = false → node.isNil = false → PathSolid rest →
    AtEntry (minFrom fuel node ((node, 0) :: rest)) ∧ PathSolid (minFrom fuel node ((node, 0) :: rest)) := by
  intro fuel
  induction fuel with
  | zero => intro node rest h; omega
  | succ fuel ih =>
    intro node rest hf hs hne hn hps
    have hps' : PathSolid ((node, 0) :: rest) := by
      intro x hx; simp at hx; rcases hx with rfl | hx
      · exact hs
      · exact hps x hx
    simp only [minFrom]
    by_cases hc : (linkAt node 0).isNil = true
    · simp only [hc, if_true]
      exact ⟨rowLen_pos_of_solid_leaf node hc hne hn, hps'⟩
    · have hc' : (linkAt node 0).isNil = false := by simpa using hc
      simp only [hc', Bool.false_eq_true, if_false]
      obtain ⟨hsc, hec⟩ := solid_linkAt node 0 hs
      have hne' : isEmptyRow (linkAt node 0) = false := by
        rcases hec with h | h
        · rw [hc'] at h; cases h
        · exact h
      exact ih _ _ (by have := lvl_linkAt_lt node 0 hc'; omega) hsc hne' hc' hps'

theorem out_popFwd : ∀ (path : Path), out (popFwd path) = out path.tail ∧ AtEntry (popFwd path) := by
  intro path
  -- popFwd drops the top, then every exhausted ancestor
  suffices h : ∀ (n : Nat) (path : Path), path.length = n → out (popFwd path) = out path.tail ∧ AtEntry (popFwd path) from
    h path.length path rfl
  intro n
  induction n with
  | zero =>
    intro path hl
    have : path = [] := List.length_eq_zero_iff.mp hl
    subst this; simp [popFwd, out, AtEntry]
  | succ n ih =>
    intro path hl
    cases path with
    | nil => simp at hl
    | cons x rest =>
      cases rest with
      | nil => simp [popFwd, out, AtEntry]
      | cons y rest' =>
        obtain ⟨node, i⟩ := y
        rw [popFwd]
        split
        · next hlt => exact ⟨by simp, hlt⟩
        · next hge =>
          have := ih ((node, i) :: rest') (by simp at hl ⊢; omega)
          refine ⟨?_, this.2⟩
          rw [this.1]
          simp only [List.tail_cons]
          rw [out_cons, seekRow_ge node i (by omega)]; simp

theorem pathSolid_tail {x} {rest : Path} (h : PathSolid (x :: rest)) : PathSolid rest :=
  fun y hy => h y (by simp [hy])

theorem popFwd_sub : ∀ (path : Path) (x), x ∈ popFwd path → x ∈ path := by
  intro path
  suffices h : ∀ (n : Nat) (path : Path), path.length = n → ∀ x, x ∈ popFwd path → x ∈ path from h path.length path rfl
  intro n
  induction n with
  | zero => intro path hl; have : path = [] := List.length_eq_zero_iff.mp hl; subst this; simp [popFwd]
  | succ n ih =>
    intro path hl x hx
    cases path with
    | nil => simp at hl
    | cons y rest =>
      cases rest with
      | nil => simp [popFwd] at hx
      | cons z rest' =>
        obtain ⟨node, i⟩ := z
        rw [popFwd] at hx
        split at hx
        · simp at hx ⊢; exact Or.inr hx
        · have := ih ((node, i) :: rest') (by simp at hl ⊢; omega) x hx
          exact List.mem_cons_of_mem _ this

/-- **Forward**: the remaining entries lose their head; the cursor is again at an entry (or off the end) -/
theorem forward_spec (fuel : Nat) (path : Path) (hat : AtEntry path) (hps : PathSolid path)
    (hf : ∀ x ∈ path, lvl x.1 < fuel) :
    out (forward fuel path) = (out path).tail ∧ AtEntry (forward fuel path) ∧ PathSolid (forward fuel path) := by
  cases path with
  | nil => simp [forward, out, AtEntry, PathSolid]
  | cons x rest =>
    obtain ⟨node, i⟩ := x
    have hi : i < rowLen node := hat
    obtain ⟨e, he, hs⟩ := seekRow_lt node i hi
    have hsn : Solid node := hps (node, i) (by simp)
    have hrest := pathSolid_tail hps
    simp only [forward]
    by_cases hc : (linkAt node (i + 1)).isNil = true
    · have hnil : linkAt node (i + 1) = nil := by cases hl : linkAt node (i + 1) <;> simp_all [isNil]
      have hcond : ¬ (i + 1 < rowLen node + 1 ∧ ¬ (linkAt node (i + 1)).isNil = true) := by simp [hc]
      simp only [hcond, if_false]
      by_cases hlt : i + 1 < rowLen node
      · simp only [hlt, if_true]
        refine ⟨?_, hlt, ?_⟩
        · rw [out_cons, out_cons, hs, hnil]; simp [toList]
        · intro y hy; simp at hy; rcases hy with rfl | hy
          · exact hsn
          · exact hrest y hy
      · simp only [hlt, if_false]
        obtain ⟨h1, h2⟩ := out_popFwd ((node, i) :: rest)
        refine ⟨?_, h2, fun y hy => hps y (popFwd_sub _ y hy)⟩
        rw [h1, out_cons, hs, hnil, seekRow_ge node (i + 1) (by omega)]
        simp [toList]
    · have hc' : (linkAt node (i + 1)).isNil = false := by simpa using hc
      have hcond : i + 1 < rowLen node + 1 ∧ ¬ (linkAt node (i + 1)).isNil = true := ⟨by omega, hc⟩
      rw [if_pos hcond]
      obtain ⟨hsc, hec⟩ := solid_linkAt node (i + 1) hsn
      have hne : isEmptyRow (linkAt node (i + 1)) = false := by
        rcases hec with h | h
        · rw [hc'] at h; cases h
        · exact h
      have hfl : lvl (linkAt node (i + 1)) < fuel := by
        have := lvl_linkAt_lt node (i + 1) hc'
        have := hf (node, i) (by simp)
        simp only at this; omega
      have hps2 : PathSolid ((node, i + 1) :: rest) := by
        intro y hy; simp at hy; rcases hy with rfl | hy
        · exact hsn
        · exact hrest y hy
      obtain ⟨m1, m2⟩ := minFrom_atEntry fuel _ ((node, i + 1) :: rest) hfl hsc hne hc' hps2
      refine ⟨?_, m1, m2⟩
      rw [out_minFrom fuel _ _ hfl, out_cons, out_cons, hs]
      simp

/-- `Min` on a fresh cursor: everything is still ahead -/
theorem min_spec (fuel : Nat) (root : T) (hs : Solid root) (hf : lvl root < fuel) (hn : root.isNil = false)
    (hne : isEmptyRow root = false) :
    out (min fuel [(root, 0)]) = toList root ∧ AtEntry (min fuel [(root, 0)]) ∧ PathSolid (min fuel [(root, 0)]) := by
  simp only [min]
  have h1 := out_minFrom fuel root [] hf
  obtain ⟨h2, h3⟩ := minFrom_atEntry fuel root [] hf hs hne hn (by intro x hx; cases hx)
  exact ⟨by simpa [out] using h1, h2, h3⟩

end Cursor
end Mast

namespace Mast
open T
namespace Cursor

theorem lvl_linkAt_le (node : T) (i : Nat) : lvl (linkAt node i) ≤ lvl node := by
  by_cases h : (linkAt node i).isNil = true
  · have : linkAt node i = nil := by cases hl : linkAt node i <;> simp_all [isNil]
    rw [this]; simp [lvl]
  · have := lvl_linkAt_lt node i (by simpa using h); omega

theorem minFrom_lvl (B : Nat) : ∀ (fuel : Nat) (node : T) (path : Path), lvl node ≤ B →
    (∀ x ∈ path, lvl x.1 ≤ B) → ∀ x ∈ minFrom fuel node path, lvl x.1 ≤ B := by
  intro fuel
  induction fuel with
  | zero => intro node path _ hp; simpa [minFrom] using hp
  | succ fuel ih =>
    intro node path hn hp
    simp only [minFrom]
    split
    · exact hp
    · apply ih
      · have := lvl_linkAt_le node 0; omega
      · intro x hx; simp at hx; rcases hx with rfl | hx
        · have := lvl_linkAt_le node 0; simp; omega
        · exact hp x hx

theorem forward_lvl (B fuel : Nat) (path : Path) (hp : ∀ x ∈ path, lvl x.1 ≤ B) :
    ∀ x ∈ forward fuel path, lvl x.1 ≤ B := by
  cases path with
  | nil => simp [forward]
  | cons y rest =>
    obtain ⟨node, i⟩ := y
    have hn : lvl node ≤ B := hp (node, i) (by simp)
    simp only [forward]
    split
    · apply minFrom_lvl B fuel
      · have := lvl_linkAt_le node (i + 1); omega
      · intro x hx; simp at hx
        rcases hx with rfl | rfl | hx
        · have := lvl_linkAt_le node (i + 1); simp; omega
        · exact hn
        · exact hp x (by simp [hx])
    · split
      · intro x hx; simp at hx; rcases hx with rfl | hx
        · exact hn
        · exact hp x (by simp [hx])
      · intro x hx; exact hp x (popFwd_sub _ x hx)

/-- the state of a cursor that has been placed and stepped: at an entry (or off the end), over
    solid nodes no deeper than `B` -/
structure Good (B : Nat) (path : Path) : Prop where
  at_ : AtEntry path
  solid : PathSolid path
  depth : ∀ x ∈ path, lvl x.1 ≤ B

theorem forward_good (B fuel : Nat) (hB : B < fuel) (path : Path) (g : Good B path) :
    out (forward fuel path) = (out path).tail ∧ Good B (forward fuel path) := by
  obtain ⟨h1, h2, h3⟩ := forward_spec fuel path g.at_ g.solid (fun x hx => by have := g.depth x hx; omega)
  exact ⟨h1, h2, h3, forward_lvl B fuel path g.depth⟩

/-- n forward steps -/
def forwardN (fuel : Nat) : Nat → Path → Path
  | 0, p => p
  | n+1, p => forwardN fuel n (forward fuel p)

theorem forwardN_spec (B fuel : Nat) (hB : B < fuel) : ∀ (n : Nat) (path : Path), Good B path →
    out (forwardN fuel n path) = (out path).drop n ∧ Good B (forwardN fuel n path) := by
  intro n
  induction n with
  | zero => intro path g; exact ⟨by simp [forwardN], g⟩
  | succ n ih =>
    intro path g
    obtain ⟨h1, g1⟩ := forward_good B fuel hB path g
    obtain ⟨h2, g2⟩ := ih (forward fuel path) g1
    refine ⟨?_, g2⟩
    simp only [forwardN]
    rw [h2, h1, List.drop_tail]

theorem good_off_end {B : Nat} {path : Path} (g : Good B path) (h : out path = []) : path = [] := by
  cases path with
  | nil => rfl
  | cons x rest =>
    obtain ⟨node, i⟩ := x
    obtain ⟨e, _, hs⟩ := seekRow_lt node i g.at_
    rw [out_cons, hs] at h
    simp at h

end Cursor
end Mast

namespace Mast
open T
namespace Cursor

theorem lowerBound_le (k : Nat) : ∀ node : T, lowerBound k node ≤ rowLen node := by
  intro node
  induction node with
  | nil => simp [lowerBound, rowLen]
  | last p c _ => simp [lowerBound, rowLen]
  | cons p c k' v' r _ ihr =>
    simp only [lowerBound, rowLen]
    split <;> omega

/-- invariant of the paths `Ceil` builds: solid nodes, bounded depth, indices within the node -/
def PathInv (B : Nat) (path : Path) : Prop :=
  ∀ x ∈ path, Solid x.1 ∧ lvl x.1 ≤ B ∧ x.2 ≤ rowLen x.1

theorem popCeil_sub : ∀ (path : Path) (x), x ∈ popCeil path → x ∈ path := by
  intro path
  induction path with
  | nil => intro x hx; simp [popCeil] at hx
  | cons y rest ih =>
    intro x hx
    obtain ⟨node, i⟩ := y
    simp only [popCeil] at hx
    split at hx
    · exact List.mem_cons_of_mem _ (ih x hx)
    · exact hx

theorem popCeil_atEntry (B : Nat) : ∀ (path : Path), PathInv B path → AtEntry (popCeil path) := by
  intro path
  induction path with
  | nil => intro _; simp [popCeil, AtEntry]
  | cons y rest ih =>
    intro hp
    obtain ⟨node, i⟩ := y
    simp only [popCeil]
    split
    · exact ih (fun x hx => hp x (by simp [hx]))
    · next hne =>
      have := (hp (node, i) (by simp)).2.2
      simp only [AtEntry]; simp only at this; omega

theorem entryAt_some_lt : ∀ (node : T) (i : Nat) (e : Nat × Nat), entryAt node i = some e → i < rowLen node := by
  intro node
  induction node with
  | nil => intro i e h; cases i <;> simp [entryAt] at h
  | last p c _ => intro i e h; cases i <;> simp [entryAt] at h
  | cons p c k v r _ ihr =>
    intro i e h
    cases i with
    | zero => simp [rowLen]
    | succ i => simp only [entryAt] at h; have := ihr i e h; simp [rowLen]; omega

theorem ceil_inv (B k : Nat) : ∀ (fuel : Nat) (node : T) (i0 : Nat) (rest : Path),
    lvl node < fuel → Solid node → lvl node ≤ B → PathInv B rest →
    PathInv B (ceil k fuel ((node, i0) :: rest)) ∧ AtEntry (ceil k fuel ((node, i0) :: rest)) := by
  intro fuel
  induction fuel with
  | zero => intro node i0 rest h; omega
  | succ fuel ih =>
    intro node i0 rest hf hs hl hp
    have hp' : PathInv B ((node, lowerBound k node) :: rest) := by
      intro x hx; simp at hx
      rcases hx with rfl | hx
      · exact ⟨hs, hl, lowerBound_le k node⟩
      · exact hp x hx
    have descend : (linkAt node (lowerBound k node)).isNil = false →
        PathInv B (ceil k fuel ((linkAt node (lowerBound k node), 0) :: (node, lowerBound k node) :: rest)) ∧
        AtEntry (ceil k fuel ((linkAt node (lowerBound k node), 0) :: (node, lowerBound k node) :: rest)) := by
      intro hc'
      apply ih
      · have := lvl_linkAt_lt node _ hc'; omega
      · exact (solid_linkAt node _ hs).1
      · have := lvl_linkAt_le node (lowerBound k node); omega
      · exact hp'
    have stop : PathInv B (popCeil ((node, lowerBound k node) :: rest)) ∧ AtEntry (popCeil ((node, lowerBound k node) :: rest)) :=
      ⟨fun x hx => hp' x (popCeil_sub _ x hx), popCeil_atEntry B _ hp'⟩
    simp only [ceil]
    cases he : entryAt node (lowerBound k node) with
    | some kv =>
      obtain ⟨k', v'⟩ := kv
      simp only []
      split
      · exact ⟨hp', entryAt_some_lt node _ _ he⟩
      · by_cases hc : (linkAt node (lowerBound k node)).isNil = true
        · simp only [hc, if_true]; exact stop
        · have hc' : (linkAt node (lowerBound k node)).isNil = false := by simpa using hc
          simp only [hc', Bool.false_eq_true, if_false]; exact descend hc'
    | none =>
      simp only []
      by_cases hc : (linkAt node (lowerBound k node)).isNil = true
      · simp only [hc, if_true]; exact stop
      · have hc' : (linkAt node (lowerBound k node)).isNil = false := by simpa using hc
        simp only [hc', Bool.false_eq_true, if_false]; exact descend hc'

theorem ceil_good (k fuel : Nat) (root : T) (hs : Solid root) (hf : lvl root < fuel) :
    Good (lvl root) (ceil k fuel [(root, 0)]) := by
  obtain ⟨h1, h2⟩ := ceil_inv (lvl root) k fuel root 0 [] hf hs (Nat.le_refl _) (by intro x hx; cases hx)
  exact ⟨h2, fun x hx => (h1 x hx).1, fun x hx => (h1 x hx).2.1⟩

end Cursor
end Mast
