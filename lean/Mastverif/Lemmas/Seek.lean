import Mastverif.Model.Cursor
import Mastverif.Lemmas.Loads
/-!
# `SeekIter` (seek with `Ceil`, then emit from every path entry) = the entries not smaller than the probe
-/
namespace Mast
open T

namespace T

/-- recursive specification of "entries with key ≥ k, in order" on the tree -/
def seekT (k : Nat) : T → List Entry
  | nil => []
  | last _ c => seekT k c
  | cons _ c k' v' r =>
      if k' < k then seekT k r
      else if k' = k then (k', v') :: toList r
      else seekT k c ++ (k', v') :: toList r

theorem dropWhile_append_stop {α} (p : α → Bool) (a b : List α) (hb : ∀ x, b.head? = some x → p x = false) (hne : b ≠ []) :
    (a ++ b).dropWhile p = a.dropWhile p ++ b := by
  induction a with
  | nil =>
    cases b with
    | nil => exact absurd rfl hne
    | cons x b => simp [List.dropWhile, hb x rfl]
  | cons y a ih =>
    simp only [List.cons_append, List.dropWhile]
    split
    · exact ih
    · rfl

theorem dropWhile_all {α} (p : α → Bool) (a : List α) (h : ∀ x ∈ a, p x = true) : a.dropWhile p = [] := by
  induction a with
  | nil => rfl
  | cons y a ih => simp [List.dropWhile, h y (by simp), ih (fun x hx => h x (by simp [hx]))]

theorem seekT_spec (k : Nat) : ∀ t : T, Sorted (toList t) →
    seekT k t = (toList t).dropWhile (fun e => decide (e.1 < k)) := by
  intro t
  induction t with
  | nil => intro _; rfl
  | last p c ih => intro hs; simpa [seekT, toList] using ih hs
  | cons p c k' v' r ihc ihr =>
    intro hs
    simp only [toList] at hs
    obtain ⟨h1, h2, h3⟩ := sorted_append hs
    simp only [Sorted, List.pairwise_cons] at h2
    have hclt : ∀ e ∈ toList c, e.1 < k' := fun e he => h3 e he (k', v') (by simp)
    simp only [seekT, toList]
    split
    · next hlt =>
      have hall : ∀ x ∈ toList c ++ [(k', v')], decide (x.1 < k) = true := by
        intro x hx; simp at hx
        rcases hx with hx | rfl
        · have := hclt x hx; simp; omega
        · simpa using hlt
      have e : toList c ++ (k', v') :: toList r = (toList c ++ [(k', v')]) ++ toList r := by simp
      rw [e, List.dropWhile_append, dropWhile_all _ _ hall]
      simp [ihr h2.2]
    · next hnlt =>
      have hstop : ∀ x, ((k', v') :: toList r).head? = some x → decide (x.1 < k) = false := by
        intro x hx; simp at hx; subst hx; simpa using hnlt
      rw [dropWhile_append_stop _ _ _ hstop (by simp)]
      split
      · next heq =>
        have hall : ∀ x ∈ toList c, decide (x.1 < k) = true := by
          intro x hx; have := hclt x hx; simp; omega
        rw [dropWhile_all _ _ hall]; simp
      · rw [ihc h1]

theorem restOf_eq_toList : ∀ r : T, Cursor.seekRow.restOf r = toList r := by
  intro r
  induction r with
  | nil => rfl
  | last p c _ => rfl
  | cons p c k v r _ ihr => simp [Cursor.seekRow.restOf, toList, ihr]

/-- the recursive specification in terms of the in-node index that `search1` computes -/
theorem seekT_index (k : Nat) : ∀ row : T,
    seekT k row =
      match entryAt row (lowerBound k row) with
      | some (k', _) => if k' = k then Cursor.seekRow row (lowerBound k row)
                        else seekT k (linkAt row (lowerBound k row)) ++ Cursor.seekRow row (lowerBound k row)
      | none => seekT k (linkAt row (lowerBound k row)) ++ Cursor.seekRow row (lowerBound k row) := by
  intro row
  induction row with
  | nil => simp [seekT, lowerBound, entryAt, linkAt, Cursor.seekRow]
  | last p c _ => simp [seekT, lowerBound, entryAt, linkAt, Cursor.seekRow]
  | cons p c k' v' r _ ihr =>
    simp only [seekT, lowerBound]
    split
    · next hlt =>
      rw [ihr]
      simp only [entryAt, linkAt, Cursor.seekRow]
    · next hnlt =>
      simp only [entryAt, linkAt, Cursor.seekRow, restOf_eq_toList]

end T

namespace Cursor

def out (path : Path) : List (Nat × Nat) := (path.map fun (n, i) => seekRow n i).flatten

theorem seekRow_end : ∀ (node : T), seekRow node (rowLen node) = [] := by
  intro node
  induction node with
  | nil => rfl
  | last p c _ => rfl
  | cons p c k v r _ ihr => simpa [seekRow, rowLen] using ihr

theorem out_popCeil : ∀ path : Path, out (popCeil path) = out path := by
  intro path
  induction path with
  | nil => rfl
  | cons x rest ih =>
    obtain ⟨node, i⟩ := x
    simp only [popCeil]
    split
    · next h => rw [ih]; subst h; simp [out, seekRow_end]
    · rfl

theorem lvl_linkAt_lt : ∀ (node : T) (i : Nat), (linkAt node i).isNil = false → lvl (linkAt node i) < lvl node := by
  intro node
  induction node with
  | nil => intro i h; simp [linkAt, isNil] at h
  | last p c _ =>
    intro i h
    cases i with
    | zero => simp only [linkAt] at h ⊢; simp [lvl, h]
    | succ i => simp [linkAt, isNil] at h
  | cons p c k v r _ ihr =>
    intro i h
    cases i with
    | zero => simp only [linkAt] at h ⊢; simp only [lvl, h]; simp; omega
    | succ i =>
      simp only [linkAt] at h ⊢
      have := ihr i h
      simp only [lvl]; omega

/-- the iterative `Ceil` descent followed by the emission loop computes the recursive specification -/
theorem out_ceil (k : Nat) : ∀ (fuel : Nat) (node : T) (i0 : Nat) (rest : Path), lvl node < fuel →
    out (ceil k fuel ((node, i0) :: rest)) = seekT k node ++ out rest := by
  intro fuel
  induction fuel with
  | zero => intro node i0 rest h; omega
  | succ fuel ih =>
    intro node i0 rest hf
    simp only [ceil]
    rw [seekT_index k node]
    cases he : entryAt node (lowerBound k node) with
    | some kv =>
      obtain ⟨k', v'⟩ := kv
      simp only []
      split
      · simp [out]
      · by_cases hc : (linkAt node (lowerBound k node)).isNil = true
        · simp only [hc, if_true]
          rw [out_popCeil]
          have : linkAt node (lowerBound k node) = nil := by
            cases hl : linkAt node (lowerBound k node) <;> simp_all [isNil]
          rw [this]; simp [out, seekT]
        · have hc' : (linkAt node (lowerBound k node)).isNil = false := by simpa using hc
          simp only [hc', Bool.false_eq_true, if_false]
          rw [ih _ 0 _ (by have := lvl_linkAt_lt node _ hc'; omega)]
          simp [out]
    | none =>
      simp only []
      by_cases hc : (linkAt node (lowerBound k node)).isNil = true
      · simp only [hc, if_true]
        rw [out_popCeil]
        have : linkAt node (lowerBound k node) = nil := by
          cases hl : linkAt node (lowerBound k node) <;> simp_all [isNil]
        rw [this]; simp [out, seekT]
      · have hc' : (linkAt node (lowerBound k node)).isNil = false := by simpa using hc
        simp only [hc', Bool.false_eq_true, if_false]
        rw [ih _ 0 _ (by have := lvl_linkAt_lt node _ hc'; omega)]
        simp [out]

end Cursor
end Mast
