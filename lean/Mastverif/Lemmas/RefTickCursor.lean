import Mastverif.Model.PtrCursor
import Mastverif.Lemmas.RefTickDepth
import Mastverif.Lemmas.RefTickGet
/-!
# Store loads of cursor calls (bounds on `PS.tick`)

`PathD s H path`: every object on the path is at most `H + 1` levels deep (it hangs below a top
node of a tree of height `H`).  A placement and a move then cost at most `H` store loads, `Get`
none, and they keep the invariant — for every outcome that carries a state, with a node cache or
none, under any fault oracle.
-/
namespace Mast.Ptr
open Mast.Heap

def PathD (s : PS) (H : Nat) (path : CPath) : Prop :=
  ∀ x ∈ path, DepthLe s.heap s.store (H + 1) (.ptr x.1)

theorem PathD.ext {s s' : PS} {H : Nat} {path : CPath} (h : PathD s H path) (e : AExt s s') : PathD s' H path :=
  fun x hx => DepthLe.ext e (h x hx)

theorem PathD.tail {s : PS} {H : Nat} {x : Nat × Nat} {path : CPath} (h : PathD s H (x :: path)) : PathD s H path :=
  fun y hy => h y (List.mem_cons_of_mem _ hy)

theorem PathD.cons {s : PS} {H a i : Nat} {path : CPath} (ha : DepthLe s.heap s.store (H + 1) (.ptr a))
    (h : PathD s H path) : PathD s H ((a, i) :: path) := by
  intro x hx
  rcases List.mem_cons.mp hx with rfl | hx
  · exact ha
  · exact h x hx

theorem tryE_ts {α : Type} {R : PS → PS → Prop} {x : M α} {s : PS} {n : Nat} {Q : α → PS → Prop}
    (h : TS R n x s Q) (hR : ∀ s', x s = .err s' → R s s') :
    TS R n (tryE x) s (fun r s' => match r with | some a => Q a s' | none => True) := by
  unfold TS tryE
  unfold TS at h
  cases hx : x s with
  | ok a s' => rw [hx] at h; exact h
  | err s' => rw [hx] at h; exact ⟨h, hR s' hx, trivial⟩
  | panic => trivial
  | stuck => trivial
  | oof => trivial

/-- a failed load changes counters only -/
theorem load_err_aext {E : Env} {l : HLink} {s s' : PS} (h : load E l s = .err s') : AExt s s' := by
  obtain ⟨h1, h2, h3, h4⟩ := load_err h
  refine ⟨by rw [h1]; exact AllocOnly.refl _, h2, ?_⟩
  intro hc hu
  have := hc (by rw [← h4]; exact hu)
  unfold CacheInv at this ⊢
  rw [h1, h2, h3]; exact this

/-- the child behind link `i` of a node at most `d + 1` deep, loaded: at most one store load, and
    the object is at most `d` deep -/
theorem load_child_ts (E : Env) {s : PS} {a d : Nat} {nd : MNode} {i : Nat} {l : HLink} (hc : CacheS s)
    (hd : DepthLe s.heap s.store (d + 1) (.ptr a)) (hnd : s.heap[a]? = some nd) (hl : nd.links[i]? = some l) :
    TS AExt 1 (tryE (load E l)) s (fun r s' => match r with
      | some b => DepthLe s'.heap s'.store d (.ptr b) ∧ l ≠ .nil
      | none => True) := by
  obtain ⟨nd', hnd', hall⟩ := depthLe_ptr_succ.mp hd
  rw [hnd] at hnd'; injection hnd' with hnd'; subst hnd'
  have hdl : DepthLe s.heap s.store d l := hall l (List.mem_of_getElem? hl)
  refine (tryE_ts ((load_depth E l s hc hdl).conseq (loadCost_le l) (fun b s' _ _ h => h)) (fun s' h => load_err_aext h)).conseq
    (Nat.le_refl _) ?_
  intro r s' _ _ hq
  cases r with
  | none => trivial
  | some b => exact ⟨hq.2.2, hq.1⟩

theorem cMinLoop_ts (E : Env) (H : Nat) : ∀ (f d a : Nat) (path : CPath) (s : PS), CacheS s →
    DepthLe s.heap s.store (d + 1) (.ptr a) → d ≤ H → PathD s H path →
    TS AExt d (cMinLoop E f a path) s (fun r s' => PathD s' H r.1) := by
  intro f
  induction f with
  | zero => intro d a path s _ _ _ _; exact TS.oof
  | succ f ih =>
    intro d a path s hc hd hdH hp
    unfold cMinLoop
    refine TS.bind (a := 0) (b := d) (read_ts a s) ?_ (by omega)
    rintro nd s1 _ _ ⟨rfl, hnd⟩
    cases hl : nd.links[0]? with
    | none => exact TS.pure hp
    | some l =>
      cases l with
      | nil => exact TS.pure hp
      | ptr b =>
        have hpos : 0 < d := by
          obtain ⟨nd', hnd', hall⟩ := depthLe_ptr_succ.mp hd
          rw [hnd] at hnd'; injection hnd' with hnd'; subst hnd'
          exact DepthLe.pos (hall _ (List.mem_of_getElem? hl)) (by simp)
        refine TS.bind (a := 1) (b := d - 1) (load_child_ts E hc hd hnd hl) ?_ (by omega)
        intro r s2 _ hext hq
        cases r with
        | none => exact TS.pure (hp.ext hext)
        | some c =>
          have hdc : DepthLe s2.heap s2.store ((d - 1) + 1) (.ptr c) := by
            have := hq.1; rwa [Nat.sub_add_cancel hpos]
          exact ih (d - 1) c _ s2 (hext.cache hc) hdc (by omega)
            (PathD.cons (DepthLe.mono hdc (by omega)) (hp.ext hext))
      | ref n =>
        have hpos : 0 < d := by
          obtain ⟨nd', hnd', hall⟩ := depthLe_ptr_succ.mp hd
          rw [hnd] at hnd'; injection hnd' with hnd'; subst hnd'
          exact DepthLe.pos (hall _ (List.mem_of_getElem? hl)) (by simp)
        refine TS.bind (a := 1) (b := d - 1) (load_child_ts E hc hd hnd hl) ?_ (by omega)
        intro r s2 _ hext hq
        cases r with
        | none => exact TS.pure (hp.ext hext)
        | some c =>
          have hdc : DepthLe s2.heap s2.store ((d - 1) + 1) (.ptr c) := by
            have := hq.1; rwa [Nat.sub_add_cancel hpos]
          exact ih (d - 1) c _ s2 (hext.cache hc) hdc (by omega)
            (PathD.cons (DepthLe.mono hdc (by omega)) (hp.ext hext))

theorem link_pos {s : PS} {a d i : Nat} {nd : MNode} {l : HLink}
    (hd : DepthLe s.heap s.store (d + 1) (.ptr a)) (hnd : s.heap[a]? = some nd) (hl : nd.links[i]? = some l)
    (hne : l ≠ .nil) : 0 < d := by
  obtain ⟨nd', hnd', hall⟩ := depthLe_ptr_succ.mp hd
  rw [hnd] at hnd'; injection hnd' with hnd'; subst hnd'
  exact DepthLe.pos (hall _ (List.mem_of_getElem? hl)) hne

theorem cMaxLoop_ts (E : Env) (H : Nat) : ∀ (f d a : Nat) (path : CPath) (s : PS), CacheS s →
    DepthLe s.heap s.store (d + 1) (.ptr a) → d ≤ H → PathD s H path →
    TS AExt d (cMaxLoop E f a path) s (fun r s' => PathD s' H r.1) := by
  intro f
  induction f with
  | zero => intro d a path s _ _ _ _; exact TS.oof
  | succ f ih =>
    intro d a path s hc hd hdH hp
    have hda : DepthLe s.heap s.store (H + 1) (.ptr a) := DepthLe.mono hd (by omega)
    unfold cMaxLoop
    refine TS.bind (a := 0) (b := d) (read_ts a s) ?_ (by omega)
    rintro nd s1 _ _ ⟨rfl, hnd⟩
    by_cases h0 : nd.links.length = 0
    · simp only [h0, if_true]
      exact TS.pure (PathD.cons hda hp)
    · simp only [h0, if_false]
      cases hl : nd.links[nd.links.length - 1]? with
      | none => exact TS.pure (PathD.cons hda hp)
      | some l =>
        cases l with
        | nil => exact TS.pure (PathD.cons hda hp)
        | ptr b =>
          have hpos := link_pos hd hnd hl (by simp)
          refine TS.bind (a := 1) (b := d - 1) (load_child_ts E hc hd hnd hl) ?_ (by omega)
          intro r s2 _ hext hq
          cases r with
          | none => exact TS.pure ((PathD.cons hda hp).ext hext)
          | some c =>
            have hdc : DepthLe s2.heap s2.store ((d - 1) + 1) (.ptr c) := by
              have := hq.1; rwa [Nat.sub_add_cancel hpos]
            exact ih (d - 1) c _ s2 (hext.cache hc) hdc (by omega) ((PathD.cons hda hp).ext hext)
        | ref n =>
          have hpos := link_pos hd hnd hl (by simp)
          refine TS.bind (a := 1) (b := d - 1) (load_child_ts E hc hd hnd hl) ?_ (by omega)
          intro r s2 _ hext hq
          cases r with
          | none => exact TS.pure ((PathD.cons hda hp).ext hext)
          | some c =>
            have hdc : DepthLe s2.heap s2.store ((d - 1) + 1) (.ptr c) := by
              have := hq.1; rwa [Nat.sub_add_cancel hpos]
            exact ih (d - 1) c _ s2 (hext.cache hc) hdc (by omega) ((PathD.cons hda hp).ext hext)

theorem cPopFwd_ts (H : Nat) : ∀ (path : CPath) (s : PS), PathD s H path →
    TS AExt 0 (cPopFwd path) s (fun r s' => PathD s' H r) := by
  intro path
  induction path with
  | nil => intro s hp; exact TS.pure hp
  | cons x o ih =>
    intro s hp
    obtain ⟨a, i⟩ := x
    unfold cPopFwd
    refine TS.bind (a := 0) (b := 0) (read_ts a s) ?_ (by omega)
    rintro nd s1 _ _ ⟨rfl, _⟩
    by_cases hi : i < nd.keys.length
    · simp only [hi, if_true]; exact TS.pure hp
    · simp only [hi, if_false]; exact ih s hp.tail

theorem cPopCeil_ts (H : Nat) : ∀ (path : CPath) (s : PS), PathD s H path →
    TS AExt 0 (cPopCeil path) s (fun r s' => PathD s' H r) := by
  intro path
  induction path with
  | nil => intro s hp; exact TS.pure hp
  | cons x o ih =>
    intro s hp
    obtain ⟨a, i⟩ := x
    unfold cPopCeil
    refine TS.bind (a := 0) (b := 0) (read_ts a s) ?_ (by omega)
    rintro nd s1 _ _ ⟨rfl, _⟩
    by_cases hi : i = nd.keys.length
    · simp only [hi, if_true]; exact ih s hp.tail
    · simp only [hi, if_false]; exact TS.pure hp

theorem pathD_popBwd {s : PS} {H : Nat} : ∀ (path : CPath), PathD s H path → PathD s H (cPopBwd path) := by
  intro path
  induction path with
  | nil => intro hp; exact hp
  | cons x o ih =>
    intro hp
    obtain ⟨a, i⟩ := x
    simp only [cPopBwd]
    split
    · exact PathD.cons (hp (a, i) (List.mem_cons_self ..)) hp.tail
    · exact ih hp.tail

/-- `Forward`: at most `H` store loads (one per level below the current node) -/
theorem cForward_ts (E : Env) (H f : Nat) (path : CPath) (s : PS) (hc : CacheS s) (hp : PathD s H path) :
    TS AExt H (cForward E f path) s (fun r s' => PathD s' H r.1) := by
  match path, hp with
  | [], hp => exact TS.pure hp
  | (a, i) :: rest, hp =>
    have hda := hp (a, i) (List.mem_cons_self ..)
    simp only [cForward]
    refine TS.bind (a := 0) (b := H) (read_ts a s) ?_ (by omega)
    rintro nd s1 _ _ ⟨rfl, hnd⟩
    have hstep : TS AExt H (if i + 1 < nd.keys.length then pure (((a, i + 1) :: rest : CPath), false)
        else do let p ← cPopFwd rest; pure (p, false)) s (fun r s' => PathD s' H r.1) := by
      by_cases hk : i + 1 < nd.keys.length
      · simp only [hk, if_true]; exact TS.pure (PathD.cons hda hp.tail)
      · simp only [hk, if_false]
        refine TS.bind (a := 0) (b := 0) (cPopFwd_ts H rest s hp.tail) ?_ (by omega)
        intro p s2 _ _ hq
        exact TS.pure hq
    have hdesc : ∀ (l : HLink), nd.links[i + 1]? = some l → l ≠ .nil →
        TS AExt H (do
          match ← tryE (load E l) with
          | none => pure (((a, i) :: rest : CPath), true)
          | some c =>
            let r ← cMinLoop E f c ((c, 0) :: (a, i + 1) :: rest)
            if r.2 then pure (((a, i) :: rest : CPath), true) else pure r) s (fun r s' => PathD s' H r.1) := by
      intro l hl hne
      have hpos := link_pos hda hnd hl hne
      refine TS.bind (a := 1) (b := H - 1) (load_child_ts E hc hda hnd hl) ?_ (by omega)
      intro r s2 _ hext hq
      cases r with
      | none => exact TS.pure (hp.ext hext)
      | some c =>
        have hdc : DepthLe s2.heap s2.store ((H - 1) + 1) (.ptr c) := by
          have := hq.1; rwa [Nat.sub_add_cancel hpos]
        have hp2 : PathD s2 H ((c, 0) :: (a, i + 1) :: rest) :=
          PathD.cons (DepthLe.mono hdc (by omega)) (PathD.cons (DepthLe.ext hext hda) (hp.tail.ext hext))
        refine TS.bind (a := H - 1) (b := 0) (cMinLoop_ts E H f (H - 1) c _ s2 (hext.cache hc) hdc (by omega) hp2) ?_ (by omega)
        intro r3 s3 _ hext3 hq3
        cases hr : r3.2 with
        | true => simp only [if_true]; exact TS.pure ((hp.ext hext).ext hext3)
        | false => simp only [Bool.false_eq_true, if_false]; exact TS.pure hq3
    by_cases hlt : i + 1 < nd.links.length
    · simp only [hlt, if_true]
      cases hl : nd.links[i + 1]? with
      | none => exact hstep
      | some l =>
        cases l with
        | nil => exact hstep
        | ptr b => exact hdesc (.ptr b) hl (by simp)
        | ref n => exact hdesc (.ref n) hl (by simp)
    · simp only [hlt, if_false]
      exact hstep

/-- `Backward`: at most `H` store loads -/
theorem cBackward_ts (E : Env) (H f : Nat) (path : CPath) (s : PS) (hc : CacheS s) (hp : PathD s H path) :
    TS AExt H (cBackward E f path) s (fun r s' => PathD s' H r.1) := by
  match path, hp with
  | [], hp => exact TS.pure hp
  | (a, i) :: rest, hp =>
    have hda := hp (a, i) (List.mem_cons_self ..)
    simp only [cBackward]
    refine TS.bind (a := 0) (b := H) (read_ts a s) ?_ (by omega)
    rintro nd s1 _ _ ⟨rfl, hnd⟩
    have hdesc : ∀ (l : HLink), nd.links[i]? = some l → l ≠ .nil →
        TS AExt H (do
          match ← tryE (load E l) with
          | none => pure (((a, i) :: rest : CPath), true)
          | some c =>
            let r ← cMaxLoop E f c ((a, i) :: rest)
            if r.2 then pure (((a, i) :: rest : CPath), true) else pure r) s (fun r s' => PathD s' H r.1) := by
      intro l hl hne
      have hpos := link_pos hda hnd hl hne
      refine TS.bind (a := 1) (b := H - 1) (load_child_ts E hc hda hnd hl) ?_ (by omega)
      intro r s2 _ hext hq
      cases r with
      | none => exact TS.pure (hp.ext hext)
      | some c =>
        have hdc : DepthLe s2.heap s2.store ((H - 1) + 1) (.ptr c) := by
          have := hq.1; rwa [Nat.sub_add_cancel hpos]
        refine TS.bind (a := H - 1) (b := 0) (cMaxLoop_ts E H f (H - 1) c _ s2 (hext.cache hc) hdc (by omega) (hp.ext hext)) ?_ (by omega)
        intro r3 s3 _ hext3 hq3
        cases hr : r3.2 with
        | true => simp only [if_true]; exact TS.pure ((hp.ext hext).ext hext3)
        | false => simp only [Bool.false_eq_true, if_false]; exact TS.pure hq3
    cases hl : nd.links[i]? with
    | none => exact TS.panic
    | some l =>
      cases l with
      | nil =>
        by_cases hi : i > 0
        · simp only [hi, if_true]; exact TS.pure (PathD.cons hda hp.tail)
        · simp only [hi, if_false]; exact TS.pure (pathD_popBwd rest hp.tail)
      | ptr b => exact hdesc (.ptr b) hl (by simp)
      | ref n => exact hdesc (.ref n) hl (by simp)

/-- `Ceil` from a path whose top node is at most `d + 1` deep: at most `d` store loads -/
theorem cCeil_ts (E : Env) (H k : Nat) : ∀ (f d : Nat) (path : CPath) (s : PS), CacheS s → PathD s H path →
    (∀ a i rest, path = (a, i) :: rest → DepthLe s.heap s.store (d + 1) (.ptr a)) → d ≤ H →
    TS AExt d (cCeil E k f path) s (fun r s' => PathD s' H r.1) := by
  intro f
  induction f with
  | zero => intro d path s _ _ _ _; exact TS.oof
  | succ f ih =>
    intro d path s hc hp htop hdH
    match path, hp, htop with
    | [], hp, _ => exact TS.pure hp
    | (a, i0) :: rest, hp, htop =>
      have hd := htop a i0 rest rfl
      have hda : DepthLe s.heap s.store (H + 1) (.ptr a) := DepthLe.mono hd (by omega)
      simp only [cCeil]
      refine TS.bind (a := 0) (b := d) (read_ts a s) ?_ (by omega)
      rintro nd s1 _ _ ⟨rfl, hnd⟩
      have hp' : PathD s H ((a, keyIdx nd.keys k) :: rest) := PathD.cons hda hp.tail
      by_cases hk : nd.keys[keyIdx nd.keys k]? = some k
      · simp only [hk, if_true]; exact TS.pure hp'
      · simp only [hk, if_false]
        have hdesc : ∀ (l : HLink), nd.links[keyIdx nd.keys k]? = some l → l ≠ .nil →
            TS AExt d (do
              match ← tryE (load E l) with
              | none => pure (((a, keyIdx nd.keys k) :: rest : CPath), true)
              | some c => cCeil E k f ((c, 0) :: (a, keyIdx nd.keys k) :: rest)) s (fun r s' => PathD s' H r.1) := by
          intro l hl hne
          have hpos := link_pos hd hnd hl hne
          refine TS.bind (a := 1) (b := d - 1) (load_child_ts E hc hd hnd hl) ?_ (by omega)
          intro r s2 _ hext hq
          cases r with
          | none => exact TS.pure (hp'.ext hext)
          | some c =>
            have hdc : DepthLe s2.heap s2.store ((d - 1) + 1) (.ptr c) := by
              have := hq.1; rwa [Nat.sub_add_cancel hpos]
            refine ih (d - 1) _ s2 (hext.cache hc) (PathD.cons (DepthLe.mono hdc (by omega)) (hp'.ext hext)) ?_ (by omega)
            intro a' i' rest' he
            injection he with he1 _
            injection he1 with he1 _
            subst he1; exact hdc
        cases hl : nd.links[keyIdx nd.keys k]? with
        | none => exact TS.panic
        | some l =>
          cases l with
          | nil =>
            refine TS.bind (a := 0) (b := 0) (cPopCeil_ts H _ s hp') ?_ (by omega)
            intro p s2 _ _ hq
            exact TS.pure hq
          | ptr b => exact hdesc (.ptr b) hl (by simp)
          | ref n => exact hdesc (.ref n) hl (by simp)

/-- a placement from a path whose nodes are at most `H + 1` deep: at most `H` store loads -/
theorem cPlace_ts (E : Env) (H f : Nat) (path : CPath) (pl : CPlace) (s : PS) (hc : CacheS s) (hp : PathD s H path) :
    TS AExt H (cPlace E f path pl) s (fun r s' => PathD s' H r.1) := by
  cases pl with
  | min =>
    match path, hp with
    | [], hp => exact TS.pure hp
    | (a, i) :: rest, hp => exact cMinLoop_ts E H f H a _ s hc (hp (a, i) (List.mem_cons_self ..)) (Nat.le_refl _) hp
  | max =>
    match path, hp with
    | [], hp => exact TS.pure hp
    | (a, i) :: rest, hp => exact cMaxLoop_ts E H f H a _ s hc (hp (a, i) (List.mem_cons_self ..)) (Nat.le_refl _) hp.tail
  | ceil k =>
    refine cCeil_ts E H k f H path s hc hp ?_ (Nat.le_refl _)
    intro a i rest he
    exact hp (a, i) (by rw [he]; exact List.mem_cons_self ..)

theorem cStep_ts (E : Env) (H f : Nat) (path : CPath) (mv : CMove) (s : PS) (hc : CacheS s) (hp : PathD s H path) :
    TS AExt H (cStep E f path mv) s (fun r s' => PathD s' H r.1) := by
  cases mv with
  | fwd => exact cForward_ts E H f path s hc hp
  | bwd => exact cBackward_ts E H f path s hc hp

/-- `Get` reads no node from the store -/
theorem cGet_ts (path : CPath) (s : PS) : TS AExt 0 (cGet path) s (fun _ s' => s' = s) := by
  match path with
  | [] => exact TS.pure rfl
  | (a, i) :: rest =>
    simp only [cGet]
    refine TS.bind (a := 0) (b := 0) (read_ts a s) ?_ (by omega)
    rintro nd s1 _ _ ⟨rfl, _⟩
    split
    · exact TS.pure rfl
    · split
      · exact TS.pure rfl
      · exact TS.panic

/-- a walk of `n` moves: at most `n · H` store loads -/
theorem cWalk_ts (E : Env) (H f : Nat) : ∀ (ms : List CMove) (path : CPath) (s : PS), CacheS s → PathD s H path →
    TS AExt (ms.length * H) (cWalk E f ms path) s (fun r s' => PathD s' H r.1) := by
  intro ms
  induction ms with
  | nil => intro path s _ hp; exact TS.pure hp
  | cons mv ms ih =>
    intro path s hc hp
    unfold cWalk
    refine TS.bind (a := H) (b := ms.length * H) (cStep_ts E H f path mv s hc hp) ?_
      (by simp only [List.length_cons, Nat.add_mul]; omega)
    intro r s1 _ hext hq
    cases hr : r.2 with
    | true => simp only [if_true]; exact TS.pure hq
    | false =>
      simp only [Bool.false_eq_true, if_false]
      exact ih r.1 s1 (hext.cache hc) hq

theorem clone_root (E : Env) (t t' : PTree) (newId fuel : Nat) (s s' : PS)
    (h : clone E t newId fuel s = .ok t' s') : t'.root = .nil ∨ ∃ a, t'.root = .ptr a := by
  unfold clone at h
  by_cases hr : t.root = .nil
  · rw [if_pos hr] at h
    change M.pure _ s = _ at h
    unfold M.pure at h
    injection h with h1 _
    left; rw [← h1]; exact hr
  · rw [if_neg hr] at h
    change M.bind (load E t.root) (fun a => M.bind (toShared newId fuel a) (fun a' =>
      M.pure ({ t with id := newId, root := .ptr a' } : PTree))) s = _ at h
    cases hl : load E t.root s with
    | ok a s1 =>
      cases hts : toShared newId fuel a s1 with
      | ok a' s2 =>
        simp only [M.bind, M.pure, hl, hts] at h
        injection h with h1 _
        right; exact ⟨a', by rw [← h1]⟩
      | err _ => simp only [M.bind, hl, hts] at h; cases h
      | panic => simp only [M.bind, hl, hts] at h; cases h
      | stuck => simp only [M.bind, hl, hts] at h; cases h
      | oof => simp only [M.bind, hl, hts] at h; cases h
    | err _ => simp only [M.bind, hl] at h; cases h
    | panic => simp only [M.bind, hl] at h; cases h
    | stuck => simp only [M.bind, hl] at h; cases h
    | oof => simp only [M.bind, hl] at h; cases h

/-- `Cursor()`: at most one store load (the load of a root that is a name, inside `Clone`) -/
theorem cursorNew_ts (E : Env) (t : PTree) (newId fuel : Nat) (s : PS) :
    TS AnyR 1 (cursorNew E t newId fuel) s (fun _ _ => True) := by
  unfold cursorNew
  refine TS.bind (a := 1) (b := 0) ((clone_ts E t newId fuel s).conseq (Nat.le_refl _)
    (Q' := fun t' _ => t'.root = .nil ∨ ∃ a, t'.root = .ptr a) ?_) ?_ (by omega)
  · intro t' s' hok _ _
    exact clone_root E t t' newId fuel s s' hok
  · intro t' s1 _ _ hroot
    rcases hroot with h | ⟨a, h⟩
    · rw [if_pos h]; exact TS.pure trivial
    · rw [if_neg (by rw [h]; simp)]
      rw [h]
      refine TS.bind (a := 0) (b := 0) ((load_ts_ptr E (.ptr a) s1 (by simp)).any.conseq (Nat.le_refl _) (fun _ _ _ _ _ => trivial)) ?_ (by omega)
      intro _ _ _ _ _
      exact TS.pure trivial

end Mast.Ptr
