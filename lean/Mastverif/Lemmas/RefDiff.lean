import Mastverif.Model.PtrDiff
import Mastverif.Lemmas.Diff
import Mastverif.Lemmas.RefCursor
/-!
# The object-level `diffOne` computes the entry diff

`StackRep s g os L`: the object-level stack `os` (links are node objects or names) denotes the
functional stack `L` (`Model/Diff.lean`): entries are the same, every link is non-nil and denotes
(`repLink`) the row at its position.  One `oStepBody` from stacks that denote `Lo`, `Ln` either ends
the diff (both flat lists empty) or leaves stacks that denote some `Lo'`, `Ln'` with the same
remaining merge: `diffL (flat Lo) (flat Ln) = entries of the events ++ diffL (flat Lo') (flat Ln')`,
a smaller measure, still ascending — whichever side the code chooses to open, and whether two links
are equal as names or as objects.  Loads may fail anywhere (the step then errs having only
allocated).
-/
namespace Mast.Ptr
open Mast.Heap Mast Mast.Diff Mast.T

def StackRep (s : PS) (g : Nat) : List OItem → List Item → Prop
  | [], [] => True
  | OItem.yld k v :: os, Item.yld k' v' :: is => k = k' ∧ v = v' ∧ StackRep s g os is
  | OItem.link l :: os, Item.link p t :: is =>
      l ≠ .nil ∧ (∃ fp, repLink s.heap s.store g l = some (p, t, fp)) ∧ StackRep s g os is
  | _, _ => False

theorem StackRep.grow {m : Nat} {s s' : PS} {g : Nat} (gr : Grow m s s') :
    ∀ {os : List OItem} {L : List Item}, StackRep s g os L → StackRep s' g os L
  | [], [], _ => trivial
  | OItem.yld _ _ :: _, Item.yld _ _ :: _, h => ⟨h.1, h.2.1, StackRep.grow gr h.2.2⟩
  | OItem.link _ :: _, Item.link _ _ :: _, h =>
      ⟨h.1, (by obtain ⟨fp, hx⟩ := h.2.1; exact ⟨fp, gr.rep hx⟩), StackRep.grow gr h.2.2⟩
  | [], _ :: _, h => h.elim
  | OItem.yld _ _ :: _, [], h => h.elim
  | OItem.link _ :: _, [], h => h.elim
  | OItem.yld _ _ :: _, Item.link _ _ :: _, h => h.elim
  | OItem.link _ :: _, Item.yld _ _ :: _, h => h.elim

theorem StackRep.mono {s : PS} {g g2 : Nat} (hle : g ≤ g2) :
    ∀ {os : List OItem} {L : List Item}, StackRep s g os L → StackRep s g2 os L
  | [], [], _ => trivial
  | OItem.yld _ _ :: _, Item.yld _ _ :: _, h => ⟨h.1, h.2.1, StackRep.mono hle h.2.2⟩
  | OItem.link _ :: _, Item.link _ _ :: _, h =>
      ⟨h.1, (by obtain ⟨fp, hx⟩ := h.2.1; exact ⟨fp, repLink_mono_le hx hle⟩), StackRep.mono hle h.2.2⟩
  | [], _ :: _, h => h.elim
  | OItem.yld _ _ :: _, [], h => h.elim
  | OItem.link _ :: _, [], h => h.elim
  | OItem.yld _ _ :: _, Item.link _ _ :: _, h => h.elim
  | OItem.link _ :: _, Item.yld _ _ :: _, h => h.elim

theorem StackRep.append {s : PS} {g : Nat} : ∀ {a : List OItem} {A : List Item} {b : List OItem} {B : List Item},
    StackRep s g a A → StackRep s g b B → StackRep s g (a ++ b) (A ++ B)
  | [], [], _, _, _, hb => hb
  | OItem.yld _ _ :: _, Item.yld _ _ :: _, _, _, h, hb => ⟨h.1, h.2.1, StackRep.append h.2.2 hb⟩
  | OItem.link _ :: _, Item.link _ _ :: _, _, _, h, hb => ⟨h.1, h.2.1, StackRep.append h.2.2 hb⟩
  | [], _ :: _, _, _, h, _ => h.elim
  | OItem.yld _ _ :: _, [], _, _, h, _ => h.elim
  | OItem.link _ :: _, [], _, _, h, _ => h.elim
  | OItem.yld _ _ :: _, Item.link _ _ :: _, _, _, h, _ => h.elim
  | OItem.link _ :: _, Item.yld _ _ :: _, _, _, h, _ => h.elim

/-- a child link against `linkItem` of the row it denotes -/
theorem linkItem_rep {s : PS} {g : Nat} {l : HLink} {c : Bool × T × List Nat}
    (hc : repLink s.heap s.store g l = some c) : StackRep s g (olinkItem l) (linkItem c.1 c.2.1) := by
  cases l with
  | nil =>
    rw [repLink_nil] at hc; injection hc with hc; subst hc
    simp [olinkItem, linkItem, StackRep]
  | ptr a =>
    have hne := repLink_row_ne_nil hc (by simp)
    cases hr : c.2.1 with
    | nil => exact absurd hr hne
    | last q d =>
      simp only [olinkItem, linkItem, StackRep]
      exact ⟨by simp, ⟨c.2.2, by rw [← hr]; exact hc⟩, trivial⟩
    | cons q d k v r =>
      simp only [olinkItem, linkItem, StackRep]
      exact ⟨by simp, ⟨c.2.2, by rw [← hr]; exact hc⟩, trivial⟩
  | ref n =>
    have hne := repLink_row_ne_nil hc (by simp)
    cases hr : c.2.1 with
    | nil => exact absurd hr hne
    | last q d =>
      simp only [olinkItem, linkItem, StackRep]
      exact ⟨by simp, ⟨c.2.2, by rw [← hr]; exact hc⟩, trivial⟩
    | cons q d k v r =>
      simp only [olinkItem, linkItem, StackRep]
      exact ⟨by simp, ⟨c.2.2, by rw [← hr]; exact hc⟩, trivial⟩

/-- `pushNode` of a denoting object against `items` of its row -/
theorem oitems_rep {s : PS} {g : Nat} : ∀ (ks : List Nat) (ls : List HLink) (vs : List Nat)
    (cs : List (Bool × T × List Nat)), ls.length = ks.length + 1 → vs.length = ks.length →
    seqO (ls.map (repLink s.heap s.store g)) = some cs →
    StackRep s g (oitems ls ks vs) (items (mkRow (cs.map fun c => (c.1, c.2.1)) ks vs)) := by
  intro ks
  induction ks with
  | nil =>
    intro ls vs cs hl hv hseq
    match ls, hl with
    | [l], _ =>
      obtain ⟨c, cs', hc, hcs', rfl⟩ := seqO_map_cons.mp hseq
      simp only [List.map_nil] at hcs'
      rw [seqO_nil] at hcs'; injection hcs' with hcs'; subst hcs'
      simp only [oitems, List.map_cons, List.map_nil, mkRow, items]
      exact linkItem_rep hc
  | cons k ks ih =>
    intro ls vs cs hl hv hseq
    match ls, vs, hl, hv with
    | l :: l2 :: ls', v :: vs', hl, hv =>
      obtain ⟨c, cs', hc, hcs', rfl⟩ := seqO_map_cons.mp hseq
      obtain ⟨c2, cs2, hc2, hcs2, rfl⟩ := seqO_map_cons.mp hcs'
      simp only [oitems, List.map_cons, mkRow_cons, items]
      refine StackRep.append (linkItem_rep hc) ⟨rfl, rfl, ?_⟩
      have := ih (l2 :: ls') vs' (c2 :: cs2) (by simpa using hl) (by simpa using hv) hcs'
      simpa using this

/-- a stack link loaded and read: the object's fields, and `oitems` of them denotes `items` of the row -/
theorem open_link_spec {m : Nat} (E : Env) {s : PS} {g : Nat} {l : HLink} {p : Bool} {t : T} {fp : List Nat}
    (hg : Good s) (hx : repLink s.heap s.store g l = some (p, t, fp)) :
    Spec (Grow m) (do let a ← load E l; read a) s (fun nd s' =>
      ∃ g' cs, g = g' + 1 ∧ ValidN nd ∧ seqO (nd.links.map (repLink s'.heap s'.store g')) = some cs ∧
        t = mkRow (cs.map fun c => (c.1, c.2.1)) nd.keys nd.vals) := by
  refine Spec.bind (load_spec (m := m) E l s hg) ?_
  rintro a s1 _ hgr ⟨_, _, hld⟩
  have hxa := hld g _ hx
  obtain ⟨g', nd, cs, hg', hnd, hval, hseq, hxe⟩ := repLink_ptr_some.mp hxa
  refine (read_spec a s1).conseq ?_
  rintro nd' s2 _ _ ⟨rfl, hnd'⟩
  rw [hnd] at hnd'; injection hnd' with hnd'; subst hnd'
  refine ⟨g', cs, hg', hval, hseq, ?_⟩
  have := congrArg (fun y => y.2.1) hxe
  simpa [nodeRep] using this

theorem ochain_spec {m : Nat} (E : Env) : ∀ (f : Nat) (l : HLink) (s : PS), Good s →
    Spec (Grow m) (ochain E f l) s (fun _ _ => True) := by
  intro f
  induction f with
  | zero => intro l s _; exact Spec.oof
  | succ f ih =>
    intro l s hg
    unfold ochain
    refine Spec.bind (tryE_spec (load_spec (m := m) E l s hg)) ?_
    intro r s1 _ hgr _
    cases r with
    | none => exact Spec.pure trivial
    | some a =>
      simp only []
      refine Spec.bind (read_spec a s1) ?_
      rintro nd s2 _ _ ⟨rfl, _⟩
      have hg1 := hgr.good hg
      cases hl : nd.links with
      | nil =>
        cases hk : nd.keys with
        | nil => simp only [hl, hk]; exact Spec.panic
        | cons k ks =>
          simp only [hl, hk]
          refine Spec.bind (tryE_spec (layerM_spec (m := m) E k s1)) ?_
          intro r2 s3 _ _ _
          cases r2 <;> exact Spec.pure trivial
      | cons c cs =>
        cases cs with
        | nil => simp only [hl]; exact ih c s1 hg1
        | cons c2 cs2 =>
          cases hk : nd.keys with
          | nil => simp only [hl, hk]; exact Spec.panic
          | cons k ks =>
            simp only [hl, hk]
            refine Spec.bind (tryE_spec (layerM_spec (m := m) E k s1)) ?_
            intro r2 s3 _ _ _
            cases r2 <;> exact Spec.pure trivial

theorem onotified_spec {m : Nat} (E : Env) (f : Nat) (memo : OMemo) (l : HLink) (s : PS) (hg : Good s) :
    Spec (Grow m) (onotified E f memo l) s (fun _ _ => True) := by
  unfold onotified
  refine Spec.bind (ochain_spec (m := m) E f l s hg) ?_
  intro r s1 _ _ _
  cases r with
  | none => exact Spec.pure trivial
  | some h =>
    simp only []
    split <;> exact Spec.pure trivial

/-- the entry events of an object-level event list -/
def oents : List OEv → List DEv
  | [] => []
  | OEv.add k v :: r => DEv.add k v :: oents r
  | OEv.rem k v :: r => DEv.rem k v :: oents r
  | OEv.chg k a b :: r => DEv.chg k a b :: oents r
  | _ :: r => oents r

theorem oents_append (a b : List OEv) : oents (a ++ b) = oents a ++ oents b := by
  induction a with
  | nil => rfl
  | cons x a ih => cases x <;> simp [oents, ih]

theorem oents_rem (c : Bool) (l : HLink) : oents (if c = true then [] else [OEv.remLink l]) = [] := by
  cases c <;> rfl

theorem oents_add (c : Bool) (l : HLink) : oents (if c = true then [] else [OEv.addLink l]) = [] := by
  cases c <;> rfl

theorem oents_both (c1 c2 : Bool) (l1 l2 : HLink) :
    oents ((if c1 = true then [] else [OEv.remLink l1]) ++ (if c2 = true then [] else [OEv.addLink l2])) = [] := by
  cases c1 <;> cases c2 <;> rfl

/-- what one step establishes (the object-level `StepOK`) -/
def OStepOK (g : Nat) (Lo Ln : List Item) (r : Option (ODiff × List OEv)) (s' : PS) : Prop :=
  match r with
  | none => flat Lo = [] ∧ flat Ln = []
  | some x => ∃ Lo' Ln', StackRep s' g x.1.old Lo' ∧ StackRep s' g x.1.new Ln' ∧
      diffL (flat Lo) (flat Ln) = oents x.2 ++ diffL (flat Lo') (flat Ln') ∧
      mu Lo' + mu Ln' < mu Lo + mu Ln ∧ Sorted (flat Lo') ∧ Sorted (flat Ln')

/-- a result whose stacks denote lists with the same flat contents and a smaller measure, and whose
    events are link events only -/
theorem ostepOK_same {g : Nat} {Lo Ln Lo' Ln' : List Item} {st' : ODiff} {evs : List OEv} {s' : PS}
    (hro : StackRep s' g st'.old Lo') (hrn : StackRep s' g st'.new Ln') (hev : oents evs = [])
    (hfo : flat Lo' = flat Lo) (hfn : flat Ln' = flat Ln) (hmu : mu Lo' + mu Ln' < mu Lo + mu Ln)
    (hso : Sorted (flat Lo)) (hsn : Sorted (flat Ln)) : OStepOK g Lo Ln (some (st', evs)) s' :=
  ⟨Lo', Ln', hro, hrn, by rw [hev, hfo, hfn]; rfl, hmu, by rw [hfo]; exact hso, by rw [hfn]; exact hsn⟩

/-- `load` then `read` of a stack link, followed by a continuation -/
theorem open_link_bind {m : Nat} {β : Type} (E : Env) {s : PS} {g : Nat} {l : HLink} {p : Bool} {t : T} {fp : List Nat}
    (hg : Good s) (hx : repLink s.heap s.store g l = some (p, t, fp)) (k : MNode → M β) (Q : β → PS → Prop)
    (hk : ∀ nd s1, Grow m s s1 → StackRep s1 g (oitems nd.links nd.keys nd.vals) (items t) →
      (∀ c, nd.links = [c] → ∃ q crow, t = T.last q crow ∧ StackRep s1 g (olinkItem c) (linkItem q crow)) →
      (nd.keys.head? = firstKey t) → Spec (Grow m) (k nd) s1 Q) :
    Spec (Grow m) (do let a ← load E l; let nd ← read a; k nd) s Q := by
  refine Spec.bind (load_spec (m := m) E l s hg) ?_
  rintro a s1 _ hgr ⟨_, _, hld⟩
  have hxa := hld g _ hx
  obtain ⟨g', nd, cs, hg', hnd, hval, hseq, hxe⟩ := repLink_ptr_some.mp hxa
  refine Spec.bind (read_spec a s1) ?_
  rintro nd' s2 _ _ ⟨rfl, hnd'⟩
  rw [hnd] at hnd'; injection hnd' with hnd'; subst hnd'
  have ht : t = mkRow (cs.map fun c => (c.1, c.2.1)) nd.keys nd.vals := by
    have := congrArg (fun y => y.2.1) hxe
    simpa [nodeRep] using this
  subst hg'
  refine hk nd s1 hgr ?_ ?_ ?_
  · rw [ht]
    exact StackRep.mono (Nat.le_succ g') (oitems_rep nd.keys nd.links nd.vals cs hval.1 hval.2 hseq)
  · intro c hc
    have hseq' : seqO (([c] : List HLink).map (repLink s1.heap s1.store g')) = some cs := by rw [← hc]; exact hseq
    obtain ⟨c0, cs', hc0, hcs', hcseq⟩ := seqO_map_cons.mp hseq'
    simp only [List.map_nil] at hcs'
    rw [seqO_nil] at hcs'; injection hcs' with hcs'; subst hcs'
    have hk0 : nd.keys = [] := by
      have h1 := hval.1
      rw [hc] at h1
      have : nd.keys.length = 0 := by simpa using h1.symm
      exact List.eq_nil_of_length_eq_zero this
    refine ⟨c0.1, c0.2.1, ?_, StackRep.mono (Nat.le_succ g') (linkItem_rep hc0)⟩
    rw [ht, hk0, hcseq]; simp [mkRow]
  · rw [ht]
    have hl := seqO_map_length hseq
    cases hk0 : nd.keys with
    | nil =>
      have : cs.length = 1 := by rw [hl, hval.1, hk0]; rfl
      match cs, this with
      | [c0], _ => simp [mkRow, firstKey]
    | cons k ks =>
      have hcl : cs.length = ks.length + 2 := by rw [hl, hval.1, hk0]; simp
      have hvl : nd.vals.length = ks.length + 1 := by rw [hval.2, hk0]; simp
      match cs, nd.vals, hcl, hvl with
      | c0 :: c1 :: cs', v :: vs', _, _ => simp [mkRow, firstKey]

/-- opening the top link of ONE stack: the generic continuation used by four branches -/
theorem open_one_spec {m : Nat} (E : Env) (f : Nat) {s : PS} {g : Nat} (memo : OMemo) {l : HLink} {p : Bool} {t : T}
    (hg : Good s) (hx : ∃ fp, repLink s.heap s.store g l = some (p, t, fp))
    (mk : Bool → OMemo → MNode → ODiff × List OEv) (Q : Option (ODiff × List OEv) → PS → Prop)
    (hQ : ∀ nt memo' nd s', Grow m s s' → StackRep s' g (oitems nd.links nd.keys nd.vals) (items t) →
      Q (some (mk nt memo' nd)) s') :
    Spec (Grow m) (do
      let (nt, memo') ← onotified E f memo l
      let a ← load E l
      let nd ← read a
      pure (some (mk nt memo' nd))) s Q := by
  obtain ⟨fp, hx⟩ := hx
  refine Spec.bind (onotified_spec (m := m) E f memo l s hg) ?_
  intro r s1 _ hgr1 _
  obtain ⟨nt, memo'⟩ := r
  simp only []
  refine open_link_bind (m := m) E (hgr1.good hg) (hgr1.rep hx) _ Q ?_
  intro nd s2 hgr2 hit _ _
  exact Spec.pure (hQ nt memo' nd s2 (hgr1.trans hgr2) hit)

/-- the tail of the link-against-link branch, after the old node `na` has been loaded and is not a
    pass-through node: load the new node; pass through it, or compare the first keys and open one
    side or both -/
theorem link_link_rest {m : Nat} (E : Env) {s : PS} {g : Nat} (na : MNode) (la lb : HLink) (os ns : List OItem)
    (memoO memoN : OMemo) (evs : List OEv) {pa pb : Bool} {ta tb : T} {Lot Lnt : List Item}
    (hg : Good s) (hev : oents evs = [])
    (hxa : ∃ fp, repLink s.heap s.store g la = some (pa, ta, fp)) (hla : la ≠ .nil)
    (hxb : ∃ fp, repLink s.heap s.store g lb = some (pb, tb, fp)) (hlb : lb ≠ .nil)
    (hro : StackRep s g os Lot) (hrn : StackRep s g ns Lnt)
    (hitA : StackRep s g (oitems na.links na.keys na.vals) (items ta))
    (hso : Sorted (flat (Item.link pa ta :: Lot))) (hsn : Sorted (flat (Item.link pb tb :: Lnt))) :
    Spec (Grow m) (do
      let b ← load E lb
      let nb ← read b
      match nb.links with
      | [c] => pure (some (({ old := OItem.link la :: os, new := olinkItem c ++ ns, memoOld := memoO, memoNew := memoN } : ODiff), evs))
      | _ =>
        match na.keys, nb.keys with
        | ka :: _, kb :: _ =>
          if ka < kb then
            pure (some (({ old := oitems na.links na.keys na.vals ++ os, new := OItem.link lb :: ns, memoOld := memoO, memoNew := memoN } : ODiff), evs))
          else if kb < ka then
            pure (some (({ old := OItem.link la :: os, new := oitems nb.links nb.keys nb.vals ++ ns, memoOld := memoO, memoNew := memoN } : ODiff), evs))
          else
            pure (some (({ old := oitems na.links na.keys na.vals ++ os,
                           new := oitems nb.links nb.keys nb.vals ++ ns, memoOld := memoO, memoNew := memoN } : ODiff), evs))
        | _, _ => panicE) s
      (OStepOK g (Item.link pa ta :: Lot) (Item.link pb tb :: Lnt)) := by
  obtain ⟨fpb, hxb⟩ := hxb
  have expA := expand_lt pa ta Lot
  have expB := expand_lt pb tb Lnt
  refine open_link_bind (m := m) E hg hxb _ _ ?_
  intro nb s1 hgr hitB hpassB _
  have hro1 := hro.grow hgr
  have hrn1 := hrn.grow hgr
  have hitA1 := hitA.grow hgr
  have hxa1 : ∃ fp, repLink s1.heap s1.store g la = some (pa, ta, fp) := by
    obtain ⟨fp, h⟩ := hxa; exact ⟨fp, hgr.rep h⟩
  have hxb1 : ∃ fp, repLink s1.heap s1.store g lb = some (pb, tb, fp) := ⟨fpb, hgr.rep hxb⟩
  -- the three expansions, for any spelling `lk` of the new node's link list
  have bothExp : ∀ lk, StackRep s1 g (oitems lk nb.keys nb.vals) (items tb) →
      OStepOK g (Item.link pa ta :: Lot) (Item.link pb tb :: Lnt)
      (some (({ old := oitems na.links na.keys na.vals ++ os, new := oitems lk nb.keys nb.vals ++ ns,
                memoOld := memoO, memoNew := memoN } : ODiff), evs)) s1 := fun lk hB =>
    ostepOK_same (Lo' := items ta ++ Lot) (Ln' := items tb ++ Lnt) (StackRep.append hitA1 hro1) (StackRep.append hB hrn1) hev
      (by simp [flat]) (by simp [flat]) (by omega) hso hsn
  have expOld : OStepOK g (Item.link pa ta :: Lot) (Item.link pb tb :: Lnt)
      (some (({ old := oitems na.links na.keys na.vals ++ os, new := OItem.link lb :: ns,
                memoOld := memoO, memoNew := memoN } : ODiff), evs)) s1 :=
    ostepOK_same (Lo' := items ta ++ Lot) (Ln' := Item.link pb tb :: Lnt) (StackRep.append hitA1 hro1) ⟨hlb, hxb1, hrn1⟩ hev
      (by simp [flat]) rfl (by omega) hso hsn
  have expNew : ∀ lk, StackRep s1 g (oitems lk nb.keys nb.vals) (items tb) →
      OStepOK g (Item.link pa ta :: Lot) (Item.link pb tb :: Lnt)
      (some (({ old := OItem.link la :: os, new := oitems lk nb.keys nb.vals ++ ns,
                memoOld := memoO, memoNew := memoN } : ODiff), evs)) s1 := fun lk hB =>
    ostepOK_same (Lo' := Item.link pa ta :: Lot) (Ln' := items tb ++ Lnt) ⟨hla, hxa1, hro1⟩ (StackRep.append hB hrn1) hev
      rfl (by simp [flat]) (by omega) hso hsn
  have hcmp : ∀ lk, StackRep s1 g (oitems lk nb.keys nb.vals) (items tb) → Spec (Grow m) (match na.keys, nb.keys with
        | ka :: _, kb :: _ =>
          if ka < kb then
            pure (some (({ old := oitems na.links na.keys na.vals ++ os, new := OItem.link lb :: ns, memoOld := memoO, memoNew := memoN } : ODiff), evs))
          else if kb < ka then
            pure (some (({ old := OItem.link la :: os, new := oitems lk nb.keys nb.vals ++ ns, memoOld := memoO, memoNew := memoN } : ODiff), evs))
          else
            pure (some (({ old := oitems na.links na.keys na.vals ++ os,
                           new := oitems lk nb.keys nb.vals ++ ns, memoOld := memoO, memoNew := memoN } : ODiff), evs))
        | _, _ => (panicE : M (Option (ODiff × List OEv)))) s1
      (OStepOK g (Item.link pa ta :: Lot) (Item.link pb tb :: Lnt)) := by
    intro lk hB
    cases hka : na.keys with
    | nil => exact Spec.panic
    | cons ka kas =>
      cases hkb : nb.keys with
      | nil => exact Spec.panic
      | cons kb kbs =>
        simp only []
        rw [hka] at expOld
        have e2 := expNew lk hB
        have e3 := bothExp lk hB
        rw [hkb] at e2
        rw [hka, hkb] at e3
        by_cases h1 : ka < kb
        · simp only [h1, if_true]; exact Spec.pure expOld
        · by_cases h2 : kb < ka
          · simp only [h1, h2, if_false, if_true]; exact Spec.pure e2
          · simp only [h1, h2, if_false]; exact Spec.pure e3
  cases hl : nb.links with
  | nil => simp only []; rw [hl] at hitB; exact hcmp [] hitB
  | cons c cs =>
    cases cs with
    | nil =>
      simp only []
      obtain ⟨q, crow, rfl, hrep⟩ := hpassB c hl
      refine Spec.pure (ostepOK_same (Lo' := Item.link pa ta :: Lot) (Ln' := linkItem q crow ++ Lnt) ⟨hla, hxa1, hro1⟩
        (StackRep.append hrep hrn1) hev rfl (by simp [flat, toList]) ?_ hso hsn)
      have := mu_linkItem q crow
      simp [mu_append, mu_cons, wItem, W] at this ⊢; omega
    | cons c2 cs2 => simp only []; rw [hl] at hitB; exact hcmp (c :: c2 :: cs2) hitB

theorem oStepBody_spec {m : Nat} (E : Env) (f g : Nat) (st : ODiff) (s : PS) (Lo Ln : List Item)
    (hg : Good s) (hro : StackRep s g st.old Lo) (hrn : StackRep s g st.new Ln)
    (hso : Sorted (flat Lo)) (hsn : Sorted (flat Ln)) :
    Spec (Grow m) (oStepBody E f st) s (OStepOK g Lo Ln) := by
  obtain ⟨old, new, mo, mn⟩ := st
  simp only at hro hrn
  match old, new, Lo, Ln, hro, hrn, hso, hsn with
  | [], [], [], [], _, _, _, _ =>
    simp only [oStepBody]
    exact Spec.pure ⟨rfl, rfl⟩
  | [], OItem.yld k v :: ns, [], Item.yld k' v' :: Lnt, _, hrn, hso, hsn =>
    obtain ⟨rfl, rfl, hrn⟩ := hrn
    simp only [oStepBody]
    refine Spec.pure ⟨[], Lnt, trivial, hrn, ?_, ?_, hso, sorted_tail (by simpa [flat] using hsn)⟩
    · simp [flat, diffL_nil_cons, oents]
    · simp [mu, wItem]
  | OItem.yld k v :: os, [], Item.yld k' v' :: Lot, [], hro, _, hso, hsn =>
    obtain ⟨rfl, rfl, hro⟩ := hro
    simp only [oStepBody]
    refine Spec.pure ⟨Lot, [], hro, trivial, ?_, ?_, sorted_tail (by simpa [flat] using hso), hsn⟩
    · simp [flat, diffL_cons_nil, oents]
    · simp [mu, wItem]
  | OItem.yld k v :: os, OItem.yld k2 v2 :: ns, Item.yld k' v' :: Lot, Item.yld k2' v2' :: Lnt, hro, hrn, hso, hsn =>
    obtain ⟨rfl, rfl, hro⟩ := hro
    obtain ⟨rfl, rfl, hrn⟩ := hrn
    have ho' := sorted_tail (by simpa [flat] using hso)
    have hn' := sorted_tail (by simpa [flat] using hsn)
    simp only [oStepBody]
    by_cases h1 : k < k2
    · simp only [h1, if_true]
      refine Spec.pure ⟨Lot, Item.yld k2 v2 :: Lnt, hro, ⟨rfl, rfl, hrn⟩, ?_, by simp [mu, wItem], ho', hsn⟩
      simp [flat, diffL_cons_cons, h1, oents]
    · by_cases h2 : k = k2
      · subst h2
        simp only [h1, if_false, if_true]
        refine Spec.pure ⟨Lot, Lnt, hro, hrn, ?_, by simp [mu, wItem]; omega, ho', hn'⟩
        by_cases h3 : v = v2 <;> simp [flat, diffL_cons_cons, h3, oents]
      · simp only [h1, h2, if_false]
        refine Spec.pure ⟨Item.yld k v :: Lot, Lnt, ⟨rfl, rfl, hro⟩, hrn, ?_, by simp [mu, wItem], hso, hn'⟩
        simp [flat, diffL_cons_cons, h1, h2, oents]
  | [], OItem.link l :: ns, [], Item.link p t :: Lnt, _, hrn, hso, hsn =>
    obtain ⟨_, hx, hrn⟩ := hrn
    simp only [oStepBody]
    refine open_one_spec (m := m) E f mn hg hx
      (fun nt memo nd => ({ old := [], new := oitems nd.links nd.keys nd.vals ++ ns, memoOld := mo, memoNew := memo },
        if nt then [] else [OEv.addLink l])) _ ?_
    intro nt memo' nd s' hgr hit
    refine ostepOK_same (Lo' := []) (Ln' := items t ++ Lnt) trivial (StackRep.append hit (hrn.grow hgr)) (oents_add _ _)
      rfl (by simp [flat]) ?_ hso hsn
    have := expand_lt p t Lnt; simp [mu] at this ⊢; omega
  | OItem.link l :: os, [], Item.link p t :: Lot, [], hro, _, hso, hsn =>
    obtain ⟨_, hx, hro⟩ := hro
    simp only [oStepBody]
    refine open_one_spec (m := m) E f mo hg hx
      (fun nt memo nd => ({ old := oitems nd.links nd.keys nd.vals ++ os, new := [], memoOld := memo, memoNew := mn },
        if nt then [] else [OEv.remLink l])) _ ?_
    intro nt memo' nd s' hgr hit
    refine ostepOK_same (Lo' := items t ++ Lot) (Ln' := []) (StackRep.append hit (hro.grow hgr)) trivial (oents_rem _ _)
      (by simp [flat]) rfl ?_ hso hsn
    have := expand_lt p t Lot; simp [mu] at this ⊢; omega
  | OItem.link l :: os, OItem.yld k v :: ns, Item.link p t :: Lot, Item.yld k' v' :: Lnt, hro, hrn, hso, hsn =>
    obtain ⟨_, hx, hro⟩ := hro
    obtain ⟨rfl, rfl, hrn⟩ := hrn
    simp only [oStepBody]
    refine open_one_spec (m := m) E f mo hg hx
      (fun nt memo nd => ({ old := oitems nd.links nd.keys nd.vals ++ os, new := OItem.yld k v :: ns, memoOld := memo, memoNew := mn },
        if nt then [] else [OEv.remLink l])) _ ?_
    intro nt memo' nd s' hgr hit
    refine ostepOK_same (Lo' := items t ++ Lot) (Ln' := Item.yld k v :: Lnt) (StackRep.append hit (hro.grow hgr))
      ⟨rfl, rfl, hrn.grow hgr⟩ (oents_rem _ _) (by simp [flat]) rfl ?_ hso hsn
    have := expand_lt p t Lot; simp [mu] at this ⊢; omega
  | OItem.yld k v :: os, OItem.link l :: ns, Item.yld k' v' :: Lot, Item.link p t :: Lnt, hro, hrn, hso, hsn =>
    obtain ⟨rfl, rfl, hro⟩ := hro
    obtain ⟨_, hx, hrn⟩ := hrn
    simp only [oStepBody]
    refine open_one_spec (m := m) E f mn hg hx
      (fun nt memo nd => ({ old := OItem.yld k v :: os, new := oitems nd.links nd.keys nd.vals ++ ns, memoOld := mo, memoNew := memo },
        if nt then [] else [OEv.addLink l])) _ ?_
    intro nt memo' nd s' hgr hit
    refine ostepOK_same (Lo' := Item.yld k v :: Lot) (Ln' := items t ++ Lnt) ⟨rfl, rfl, hro.grow hgr⟩
      (StackRep.append hit (hrn.grow hgr)) (oents_add _ _) rfl (by simp [flat]) ?_ hso hsn
    have := expand_lt p t Lnt; simp [mu] at this ⊢; omega
  | OItem.link la :: os, OItem.link lb :: ns, Item.link pa ta :: Lot, Item.link pb tb :: Lnt, hro, hrn, hso, hsn =>
    obtain ⟨hla, hxa, hro⟩ := hro
    obtain ⟨hlb, hxb, hrn⟩ := hrn
    simp only [oStepBody]
    by_cases he : la = lb
    · subst he
      simp only [if_true]
      obtain ⟨fa, hxa⟩ := hxa
      obtain ⟨fb, hxb⟩ := hxb
      rw [hxa] at hxb
      injection hxb with hxb
      have hta : ta = tb := by
        have := congrArg (fun y => y.2.1) hxb
        simpa using this
      subst hta
      refine Spec.pure ⟨Lot, Lnt, hro, hrn, ?_, by simp [mu, wItem]; omega, ?_, ?_⟩
      · simp [flat, diffL_prefix, oents]
      · exact (sorted_append (by simpa [flat] using hso)).2.1
      · exact (sorted_append (by simpa [flat] using hsn)).2.1
    · simp only [he, if_false]
      refine Spec.bind (onotified_spec (m := m) E f mo la s hg) ?_
      intro r1 s1 _ hgr1 _
      obtain ⟨no, memoO⟩ := r1
      simp only []
      have hg1 := hgr1.good hg
      refine Spec.bind (onotified_spec (m := m) E f mn lb s1 hg1) ?_
      intro r2 s2 _ hgr2 _
      obtain ⟨nn, memoN⟩ := r2
      simp only []
      have hg2 := hgr2.good hg1
      have hgr12 := hgr1.trans hgr2
      obtain ⟨fa, hxa⟩ := hxa
      have hxa2 := hgr12.rep hxa
      have hxb2 : ∃ fp, repLink s2.heap s2.store g lb = some (pb, tb, fp) := by
        obtain ⟨fb, hxb⟩ := hxb; exact ⟨fb, hgr12.rep hxb⟩
      refine open_link_bind (m := m) E hg2 hxa2 _ _ ?_
      intro na s3 hgr3 hitA hpassA _
      have hg3 := hgr3.good hg2
      have hro3 := (hro.grow hgr12).grow hgr3
      have hrn3 := (hrn.grow hgr12).grow hgr3
      have hxb3 : ∃ fp, repLink s3.heap s3.store g lb = some (pb, tb, fp) := by
        obtain ⟨fb, hxb⟩ := hxb2; exact ⟨fb, hgr3.rep hxb⟩
      have hxa3 : ∃ fp, repLink s3.heap s3.store g la = some (pa, ta, fp) := ⟨fa, hgr3.rep hxa2⟩
      have hrest := link_link_rest (m := m) E na la lb os ns memoO memoN
        ((if no then [] else [OEv.remLink la]) ++ (if nn then [] else [OEv.addLink lb]))
        hg3 (oents_both _ _ _ _) hxa3 hla hxb3 hlb hro3 hrn3 hitA hso hsn
      cases hl : na.links with
      | nil => simp only []; rw [hl] at hrest; exact hrest
      | cons c cs =>
        cases cs with
        | nil =>
          simp only []
          obtain ⟨q, crow, rfl, hrep⟩ := hpassA c hl
          refine Spec.pure (ostepOK_same (Lo' := linkItem q crow ++ Lot) (Ln' := Item.link pb tb :: Lnt)
            (StackRep.append hrep hro3) ⟨hlb, hxb3, hrn3⟩ (oents_both _ _ _ _) (by simp [flat, toList]) rfl ?_ hso hsn)
          have := mu_linkItem q crow
          simp [mu_append, mu_cons, wItem, W] at this ⊢; omega
        | cons c2 cs2 => simp only []; rw [hl] at hrest; exact hrest

/-- one `diffOne` with the error as a value: without an error the step is as `OStepOK` says; with
    one, the state handed back is the state that went in (and the call has only allocated) -/
theorem oStep_spec {m : Nat} (E : Env) (f g : Nat) (st : ODiff) (s : PS) (Lo Ln : List Item)
    (hg : Good s) (hro : StackRep s g st.old Lo) (hrn : StackRep s g st.new Ln)
    (hso : Sorted (flat Lo)) (hsn : Sorted (flat Ln)) :
    Spec (Grow m) (oStep E f st) s (fun r s' =>
      (r.2 = false → OStepOK g Lo Ln r.1 s') ∧ (r.2 = true → r.1 = some (st, []))) := by
  unfold oStep
  refine Spec.bind (tryE_spec (oStepBody_spec (m := m) E f g st s Lo Ln hg hro hrn hso hsn)) ?_
  intro r s1 _ _ hq
  cases r with
  | none => exact Spec.pure ⟨(fun h => nomatch h), fun _ => rfl⟩
  | some x => exact Spec.pure ⟨fun _ => hq, fun h => nomatch h⟩

/-- **the loop of `diff()`**: with enough rounds for the measure, the entry events are the
    sorted-merge diff of what the two stacks hold -/
theorem oRun_correct {m : Nat} (E : Env) (f g : Nat) : ∀ (n : Nat) (st : ODiff) (s : PS) (Lo Ln : List Item),
    Good s → StackRep s g st.old Lo → StackRep s g st.new Ln → Sorted (flat Lo) → Sorted (flat Ln) →
    mu Lo + mu Ln < n →
    Spec (Grow m) (oRun E f n st) s (fun evs _ => oents evs = diffL (flat Lo) (flat Ln)) := by
  intro n
  induction n with
  | zero => intro st s Lo Ln _ _ _ _ _ h; omega
  | succ n ih =>
    intro st s Lo Ln hg hro hrn hso hsn hmu
    unfold oRun
    refine Spec.bind (oStep_spec (m := m) E f g st s Lo Ln hg hro hrn hso hsn) ?_
    intro r s1 _ hgr hq
    cases hr : r.2 with
    | true => simp only [if_true]; exact Spec.fail
    | false =>
      simp only [Bool.false_eq_true, if_false]
      have hok := hq.1 hr
      cases hr1 : r.1 with
      | none =>
        rw [hr1] at hok
        simp only [OStepOK] at hok
        refine Spec.pure ?_
        rw [hok.1, hok.2, diffL_nil_nil]; rfl
      | some x =>
        rw [hr1] at hok
        obtain ⟨Lo', Ln', h1, h2, h3, h4, h5, h6⟩ := hok
        obtain ⟨st', evs⟩ := x
        simp only []
        refine Spec.bind (ih st' s1 Lo' Ln' (hgr.good hg) h1 h2 h5 h6 (by omega)) ?_
        intro rest s2 _ _ hrest
        refine Spec.pure ?_
        rw [oents_append, hrest, h3]

/-- `rootItemStack` -/
theorem orootItems_spec {m : Nat} {s : PS} {g : Nat} {root : HLink} {p : Bool} {t : T} {fp : List Nat}
    (hx : repLink s.heap s.store g root = some (p, t, fp)) :
    Spec (Grow m) (orootItems root) s (fun os s' => s' = s ∧ ∃ L, StackRep s g os L ∧ flat L = toList t ∧ mu L ≤ 1 + W t) := by
  cases root with
  | nil =>
    rw [repLink_nil] at hx; injection hx with hx
    have ht : t = T.nil := by have := congrArg (fun y => y.2.1) hx; simpa using this.symm
    subst ht
    exact Spec.pure ⟨rfl, [], trivial, rfl, by simp [mu]⟩
  | ref n =>
    have hne := repLink_row_ne_nil hx (by simp)
    refine Spec.pure ⟨rfl, [Item.link p t], ⟨by simp, ⟨fp, hx⟩, trivial⟩, by simp [flat], by simp [mu, wItem]⟩
  | ptr a =>
    obtain ⟨g', nd, cs, hg', hnd, hval, hseq, hxe⟩ := repLink_ptr_some.mp hx
    simp only [orootItems]
    refine Spec.bind (read_spec a s) ?_
    rintro nd' s1 _ _ ⟨rfl, hnd'⟩
    rw [hnd] at hnd'; injection hnd' with hnd'; subst hnd'
    by_cases he : isEmptyN nd = true
    · simp only [he, if_true]
      -- an entry-less childless top node: the row has no entries
      refine Spec.pure ⟨rfl, [], trivial, ?_, by simp [mu]⟩
      have hl : nd.links = [HLink.nil] := by simpa [isEmptyN] using he
      have hk0 : nd.keys = [] := by
        have h1 := hval.1; rw [hl] at h1
        exact List.eq_nil_of_length_eq_zero (by simpa using h1.symm)
      rw [hl] at hseq
      obtain ⟨c0, cs', hc0, hcs', rfl⟩ := seqO_map_cons.mp hseq
      simp only [List.map_nil] at hcs'
      rw [seqO_nil] at hcs'; injection hcs' with hcs'; subst hcs'
      rw [repLink_nil] at hc0; injection hc0 with hc0; subst hc0
      have ht : t = mkRow [(false, T.nil)] nd.keys nd.vals := by
        have := congrArg (fun y => y.2.1) hxe
        simpa [nodeRep] using this
      rw [ht, hk0]; simp [mkRow, flat, toList]
    · simp only [he, if_false]
      exact Spec.pure ⟨rfl, [Item.link p t], ⟨by simp, ⟨fp, hx⟩, trivial⟩, by simp [flat], by simp [mu, wItem]⟩

end Mast.Ptr
