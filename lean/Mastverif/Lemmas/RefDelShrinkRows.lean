import Mastverif.Lemmas.RefRowsGrow
/-! Row lemmas for `T.shrink`, `T.snoc`, `Tree.topEntryless` against `mkRow` / `appendRow` (pure list reasoning). -/
namespace Mast.Ptr
open Mast.Heap

theorem shrink_mkRow_cons (p : Bool) (c : T) (x : Bool × T) (ls : List (Bool × T)) (k : Nat) (ks : List Nat)
    (v : Nat) (vs : List Nat) :
    T.shrink (mkRow ((p, c) :: x :: ls) (k :: ks) (v :: vs)) = T.snoc k v (T.shrink (mkRow (x :: ls) ks vs)) c := by
  rw [mkRow_cons]; rfl

theorem shrink_mkRow_cons' (p : Bool) (c : T) (ls : List (Bool × T)) (k : Nat) (ks : List Nat) (v : Nat) (vs : List Nat)
    (h : ls ≠ []) : T.shrink (mkRow ((p, c) :: ls) (k :: ks) (v :: vs)) = T.snoc k v (T.shrink (mkRow ls ks vs)) c := by
  rw [mkRow_cons' _ _ _ _ _ _ _ h]; rfl

theorem shrink_mkRow_single (p : Bool) (c : T) (ks vs : List Nat) : T.shrink (mkRow [(p, c)] ks vs) = T.unmk c := by
  rw [mkRow_single]; rfl

theorem snoc_nil (k v : Nat) (rest : T) : T.snoc k v rest T.nil = appendRow [(false, T.nil)] [k] [v] rest := rfl

/-- an absent child and an empty child node are spliced in the same way -/
theorem snoc_unmk (k v : Nat) (rest c : T) : T.snoc k v rest (T.unmk c) = T.snoc k v rest c := by
  cases c <;> rfl

theorem unmk_nil : T.unmk T.nil = mkRow [(false, T.nil)] [] [] := by
  rw [mkRow_single]; rfl

theorem snoc_mkRow (k v : Nat) (rest : T) : ∀ (gks : List Nat) (gcs : List (Bool × T)) (gvs : List Nat),
    gcs.length = gks.length + 1 → gvs.length = gks.length →
    T.snoc k v rest (mkRow gcs gks gvs) = appendRow gcs (gks ++ [k]) (gvs ++ [v]) rest := by
  intro gks
  induction gks with
  | nil =>
    intro gcs gvs hl hv
    match gcs, gvs, hl, hv with
    | [(p, c)], [], _, _ => rw [mkRow_single]; rfl
  | cons k0 gks ih =>
    intro gcs gvs hl hv
    match gcs, gvs, hl, hv with
    | (p, c) :: y :: ls, v0 :: gvs, hl, hv =>
      rw [mkRow_cons]
      simp only [T.snoc, List.cons_append, appendRow]
      rw [ih (y :: ls) gvs (by simpa using hl) (by simpa using hv)]

theorem appendRow_append : ∀ (cs1 : List (Bool × T)) (ks1 vs1 : List Nat) (cs2 : List (Bool × T)) (ks2 vs2 : List Nat) (R : T),
    cs1.length = ks1.length → vs1.length = ks1.length →
    appendRow (cs1 ++ cs2) (ks1 ++ ks2) (vs1 ++ vs2) R = appendRow cs1 ks1 vs1 (appendRow cs2 ks2 vs2 R) := by
  intro cs1
  induction cs1 with
  | nil =>
    intro ks1 vs1 cs2 ks2 vs2 R hl hv
    match ks1, vs1, hl, hv with
    | [], [], _, _ => rfl
  | cons x cs1 ih =>
    intro ks1 vs1 cs2 ks2 vs2 R hl hv
    match x, ks1, vs1, hl, hv with
    | (p0, c0), k0 :: ks1, v0 :: vs1, hl, hv =>
      simp only [List.cons_append, appendRow]
      rw [ih ks1 vs1 cs2 ks2 vs2 R (by simpa using hl) (by simpa using hv)]

/-- entries put in front of a (non-absent) node row -/
theorem appendRow_mkRow : ∀ (A : List (Bool × T)) (ka va : List Nat) (B : List (Bool × T)) (kb vb : List Nat),
    A.length = ka.length → va.length = ka.length → B ≠ [] →
    appendRow A ka va (mkRow B kb vb) = mkRow (A ++ B) (ka ++ kb) (va ++ vb) := by
  intro A
  induction A with
  | nil =>
    intro ka va B kb vb hl hv _
    match ka, va, hl, hv with
    | [], [], _, _ => rfl
  | cons x A ih =>
    intro ka va B kb vb hl hv hB
    match x, ka, va, hl, hv with
    | (p0, c0), k0 :: ka, v0 :: va, hl, hv =>
      simp only [List.cons_append, appendRow]
      rw [ih ka va B kb vb (by simpa using hl) (by simpa using hv) hB,
        mkRow_cons' _ _ _ _ _ _ _ (by simp [hB])]

theorem topEntryless_mkRow {cs : List (Bool × T)} {ks vs : List Nat} (hl : cs.length = ks.length + 1)
    (hv : vs.length = ks.length) : Tree.topEntryless (mkRow cs ks vs) = (ks.length == 0) := by
  match cs, ks, vs, hl, hv with
  | [(p, c)], [], [], _, _ => rw [mkRow_single]; rfl
  | (p, c) :: x :: ls, k :: ks, v :: vs, _, _ => rw [mkRow_cons]; rfl

/-- the general step of the loop of `shrink` on rows: a child row `mkRow gcs gks gvs` followed by the entry `(k, v)`
    is spliced in behind the accumulated entries -/
theorem appendRow_snoc_mkRow (A : List (Bool × T)) (ka va : List Nat) (k v : Nat) (R : T)
    (gcs : List (Bool × T)) (gks gvs : List Nat) (hl : A.length = ka.length) (hv : va.length = ka.length)
    (hgl : gcs.length = gks.length + 1) (hgv : gvs.length = gks.length) :
    appendRow (A ++ gcs) (ka ++ gks ++ [k]) (va ++ gvs ++ [v]) R =
      appendRow A ka va (T.snoc k v R (mkRow gcs gks gvs)) := by
  rw [snoc_mkRow k v R gks gcs gvs hgl hgv, List.append_assoc, List.append_assoc,
    appendRow_append A ka va gcs _ _ R hl hv]

end Mast.Ptr
