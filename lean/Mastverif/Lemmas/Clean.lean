import Mastverif.Lemmas.History
/-!
# "Clean" means unchanged

`IsDirty()` is the model's `dirty` flag.  Every call that changes the tree sets it; only a
persist clears it.  So along a history without a persist, a tree that reports itself clean at the
end is the very tree it started from.
-/
namespace Mast
namespace Tree
open T
variable (layer : Nat → Nat)

theorem growLoop_dirty : ∀ (fuel : Nat) (m : Tree), (growLoop layer fuel m).dirty = m.dirty := by
  intro fuel
  induction fuel with
  | zero => intro m; rfl
  | succ fuel ih =>
    intro m
    simp only [growLoop]
    split
    · rw [ih]; rfl
    · rfl

theorem shrinkLoop_dirty : ∀ (fuel : Nat) (m : Tree), (shrinkLoop fuel m).dirty = m.dirty := by
  intro fuel
  induction fuel with
  | zero => intro m; rfl
  | succ fuel ih =>
    intro m
    simp only [shrinkLoop]
    split
    · rw [ih]; rfl
    · rfl

/-- a successful Insert either returns the tree it was given or a dirty tree -/
theorem insert_dirty (m m' : Tree) (k v : Nat) (h : insert layer m k v = .ok m') :
    m' = m ∨ m'.dirty = true := by
  unfold insert at h
  split at h
  · split at h
    · injection h with h; exact Or.inl h.symm
    · split at h
      · injection h with h; subst h; exact Or.inr rfl
      · cases h
  · split at h
    · cases h
    · injection h with h; subst h
      right
      simp only [growLoop_dirty]

theorem delete_dirty (m m' : Tree) (k v : Nat) (h : delete layer m k v = .ok m') : m'.dirty = true := by
  unfold delete at h
  split at h
  · cases h
  · split at h
    · cases h
    · split at h
      · cases h
      · injection h with h; subst h
        simp only [shrinkLoop_dirty]

def isPersist : Op → Bool
  | .persist => true
  | _ => false

/-- one call other than a persist: the tree is returned as it was, or it is dirty afterwards -/
theorem step_dirty (e : Enc) (m : Tree) (op : Op) (hp : isPersist op = false) :
    (stepT layer e m op).1 = m ∨ (stepT layer e m op).1.dirty = true := by
  cases op with
  | ins k v =>
    simp only [stepT]
    cases h : insert layer m k v with
    | ok m' => simpa using insert_dirty layer m m' k v h
    | err _ => exact Or.inl rfl
    | panic _ => exact Or.inl rfl
  | del k v =>
    simp only [stepT]
    cases h : delete layer m k v with
    | ok m' => exact Or.inr (delete_dirty layer m m' k v h)
    | err _ => exact Or.inl rfl
    | panic _ => exact Or.inl rfl
  | get k => exact Or.inl rfl
  | iter => exact Or.inl rfl
  | size => exact Or.inl rfl
  | persist => simp [isPersist] at hp

/-- a dirty tree stays dirty until it is persisted -/
theorem step_stays_dirty (e : Enc) (m : Tree) (op : Op) (hp : isPersist op = false) (hd : m.dirty = true) :
    (stepT layer e m op).1.dirty = true := by
  rcases step_dirty layer e m op hp with h | h
  · rw [h]; exact hd
  · exact h

theorem exec_stays_dirty (e : Enc) : ∀ (ops : List Op) (m : Tree), (∀ op ∈ ops, isPersist op = false) →
    m.dirty = true → (execT layer e m ops).dirty = true := by
  intro ops
  induction ops with
  | nil => intro m _ hd; exact hd
  | cons op ops ih =>
    intro m hp hd
    exact ih _ (fun o ho => hp o (by simp [ho])) (step_stays_dirty layer e m op (hp op (by simp)) hd)

/-- **clean ⇒ unchanged**: without a persist in between, a tree that reports itself clean is the
    tree the history started from -/
theorem clean_unchanged (e : Enc) : ∀ (ops : List Op) (m : Tree), (∀ op ∈ ops, isPersist op = false) →
    (execT layer e m ops).dirty = false → execT layer e m ops = m := by
  intro ops
  induction ops with
  | nil => intro m _ _; rfl
  | cons op ops ih =>
    intro m hp hc
    have hp' : ∀ o ∈ ops, isPersist o = false := fun o ho => hp o (by simp [ho])
    simp only [execT] at hc ⊢
    rcases step_dirty layer e m op (hp op (by simp)) with h | h
    · rw [h] at hc ⊢; exact ih m hp' hc
    · have := exec_stays_dirty layer e ops _ hp' h
      rw [this] at hc; cases hc

end Tree
end Mast
