import Mastverif.Lemmas.RefDelTop
import Mastverif.Lemmas.GrowShrink
/-!
Around `delete_refines`: an input-side condition under which the two models agree (the removed entry is not the
last one), the other trees of a system, and the threshold invariant that `Insert` and `Delete` both preserve
(`Healthy` alone is not preserved by `Delete`).
-/
namespace Mast.Ptr
open Mast.Heap

/-! ## the entry removed is not the last one -/

theorem toList_shrinkLoop : ∀ (n : Nat) (m : Tree), (Tree.shrinkLoop n m).root.toList = m.root.toList := by
  intro n
  induction n with
  | zero => intro m; rfl
  | succ n ih =>
    intro m
    rw [shrinkLoop_succ]
    split
    · rw [ih]; exact T.toList_shrink m.root
    · rfl

/-- `delete_refines` with a condition on the input instead of `t'.root ≠ .nil`: some entry is left -/
theorem delete_refines' (E : Env) (fuel g : Nat) (s s' : PS) (t t' : PTree) (k v : Nat) (A : Tree)
    (hg : Good s) (hown : FpOwned s.heap t.id (footprint s g t))
    (hA : repTree s g t = some A) (h : delete E fuel s t k v = (s', t', .ok))
    (hleft : ∀ r, T.del k (A.levels E.layer k) A.root = some r → r.toList ≠ []) :
    ∃ g' A', repTree s' g' t' = some A' ∧ Tree.delete E.layer A k v = .ok A' ∧ Good s' ∧
      FpOwned s'.heap t'.id (footprint s' g' t') ∧ t'.id = t.id ∧ t'.bf = t.bf ∧ Step t.id s s' := by
  apply delete_refines E fuel g s s' t t' k v A hg hown hA h
  intro hroot
  obtain ⟨g', y', r, _, hdel, hy', _, _, _, _, _, _, _, hcase⟩ := delete_ok_core E fuel g s s' t t' k v A hg hown hA h
  rcases hcase with ⟨a', e1, _⟩ | ⟨_, _, _, n, e4⟩
  · rw [hroot] at e1; cases e1
  · have hy0 : y' = (false, T.nil, []) := by
      rw [hroot] at hy'; simp at hy'; exact hy'.symm
    have h1 : (treeRec t' y' true).root.toList = [] := by rw [hy0]; rfl
    rw [e4, toList_shrinkLoop] at h1
    exact hleft r hdel h1

/-! ## the other trees -/

/-- `Delete` on tree `t` (ending `ok` or `err`) leaves every tree of another owner as it was -/
theorem delete_other_trees (E : Env) (fuel g g2 : Nat) (s s' : PS) (t t' t2 : PTree) (k v : Nat) (A B : Tree)
    (o : Outcome) (hg : Good s) (hown : FpOwned s.heap t.id (footprint s g t))
    (hA : repTree s g t = some A) (h : delete E fuel s t k v = (s', t', o)) (ho : o = .ok ∨ o = .err)
    (hne : t2.id ≠ t.id) (hB : repTree s g2 t2 = some B) (hown2 : FpOwned s.heap t2.id (footprint s g2 t2)) :
    repTree s' g2 t2 = some B ∧ FpOwned s'.heap t2.id (footprint s' g2 t2) := by
  have hst : Step t.id s s' := by
    rcases ho with rfl | rfl
    · obtain ⟨_, _, _, _, _, _, _, _, _, _, _, _, hst, _⟩ := delete_ok_core E fuel g s s' t t' k v A hg hown hA h
      exact hst
    · exact (delete_err_refines E fuel g s s' t t' k v A hg hown hA h).2.1
  exact hst.repTree_other hne hB hown2

/-! ## thresholds -/

/-- the thresholds are consecutive powers of the branch factor (true after `LoadMast`, kept by `grow` and `shrink`) -/
def Thresh (t : PTree) : Prop := 2 ≤ t.bf ∧ ∃ e, t.shrinkBelow = t.bf ^ e ∧ t.growAfter = t.bf ^ (e + 1)

def ThreshT (m : Tree) : Prop := 2 ≤ m.bf ∧ ∃ e, m.shrinkBelow = m.bf ^ e ∧ m.growAfter = m.bf ^ (e + 1)

theorem Thresh.healthy {t : PTree} (h : Thresh t) : Healthy t := by
  obtain ⟨hbf, e, _, hga⟩ := h
  refine ⟨hbf, ?_⟩
  rw [hga]
  exact Nat.pow_pos (by omega)

theorem threshT_of_repTree {s : PS} {g : Nat} {t : PTree} {A : Tree} (hA : repTree s g t = some A) :
    ThreshT A ↔ Thresh t := by
  obtain ⟨x, _, _, rfl⟩ := repTree_eq_some.mp hA
  rfl

theorem threshT_growStep (layer : Nat → Nat) {m : Tree} (h : ThreshT m) : ThreshT (Tree.growStep layer m) := by
  obtain ⟨hbf, e, hsb, hga⟩ := h
  refine ⟨hbf, e + 1, ?_, ?_⟩
  · show m.growAfter = m.bf ^ (e + 1); exact hga
  · show m.growAfter * m.bf = m.bf ^ (e + 1 + 1)
    rw [hga, Nat.pow_succ m.bf (e + 1)]

theorem threshT_growLoop (layer : Nat → Nat) : ∀ (f : Nat) (m : Tree), ThreshT m → ThreshT (Tree.growLoop layer f m) := by
  intro f
  induction f with
  | zero => intro m h; exact h
  | succ f ih =>
    intro m h
    rw [growLoop_succ]
    split
    · exact ih _ (threshT_growStep layer h)
    · exact h

theorem threshT_shrinkStep {m : Tree} (h : ThreshT m) : ThreshT (Tree.shrinkStep m) := by
  obtain ⟨hbf, e, hsb, hga⟩ := h
  have hpos : 0 < m.bf := by omega
  by_cases hgt : m.shrinkBelow > 1
  · cases e with
    | zero => rw [hsb] at hgt; simp at hgt
    | succ e =>
      refine ⟨hbf, e, ?_, ?_⟩
      · show (if m.shrinkBelow > 1 then m.shrinkBelow / m.bf else m.shrinkBelow) = m.bf ^ e
        rw [if_pos hgt, hsb, Nat.pow_succ, Nat.mul_div_cancel _ hpos]
      · show (if m.shrinkBelow > 1 then m.growAfter / m.bf else m.growAfter) = m.bf ^ (e + 1)
        rw [if_pos hgt, hga, Nat.pow_succ m.bf (e + 1), Nat.mul_div_cancel _ hpos]
  · refine ⟨hbf, e, ?_, ?_⟩
    · show (if m.shrinkBelow > 1 then m.shrinkBelow / m.bf else m.shrinkBelow) = m.bf ^ e
      rw [if_neg hgt]; exact hsb
    · show (if m.shrinkBelow > 1 then m.growAfter / m.bf else m.growAfter) = m.bf ^ (e + 1)
      rw [if_neg hgt]; exact hga

theorem threshT_shrinkLoop : ∀ (n : Nat) (m : Tree), ThreshT m → ThreshT (Tree.shrinkLoop n m) := by
  intro n
  induction n with
  | zero => intro m h; exact h
  | succ n ih =>
    intro m h
    rw [shrinkLoop_succ]
    split
    · exact ih _ (threshT_shrinkStep h)
    · exact h

theorem threshT_insert {layer : Nat → Nat} {A A' : Tree} {k v : Nat} (h : ThreshT A)
    (hi : Tree.insert layer A k v = .ok A') : ThreshT A' := by
  unfold Tree.insert at hi
  split at hi
  · split at hi
    · injection hi with hi; rw [← hi]; exact h
    · split at hi
      · injection hi with hi; rw [← hi]; exact h
      · cases hi
  · split at hi
    · cases hi
    · injection hi with hi
      rw [← hi]
      exact threshT_growLoop layer _ _ h

/-- `Insert` keeps the threshold invariant (and `Thresh` gives the `Healthy` that `insert_refines` needs) -/
theorem insert_thresh (E : Env) (fuel g : Nat) (s s' : PS) (t t' : PTree) (k v : Nat) (A : Tree)
    (hg : Good s) (hown : FpOwned s.heap t.id (footprint s g t)) (hth : Thresh t)
    (hA : repTree s g t = some A) (h : insert E fuel s t k v = (s', t', .ok)) : Thresh t' := by
  obtain ⟨g', A', hA', hins, _⟩ := insert_refines E fuel g s s' t t' k v A hg hown hth.healthy hA h
  exact (threshT_of_repTree hA').mp (threshT_insert ((threshT_of_repTree hA).mpr hth) hins)

/-- `Delete` keeps the threshold invariant -/
theorem delete_thresh (E : Env) (fuel g : Nat) (s s' : PS) (t t' : PTree) (k v : Nat) (A : Tree)
    (hg : Good s) (hown : FpOwned s.heap t.id (footprint s g t)) (hth : Thresh t)
    (hA : repTree s g t = some A) (h : delete E fuel s t k v = (s', t', .ok)) : Thresh t' := by
  obtain ⟨g', y', r, _, _, _, _, _, _, _, _, _, _, hcase⟩ := delete_ok_core E fuel g s s' t t' k v A hg hown hA h
  have hD : ThreshT (delRec A r) := (threshT_of_repTree hA).mpr hth
  have hrec : ∀ n, treeRec t' y' true = Tree.shrinkLoop n (delRec A r) → Thresh t' := by
    intro n hn
    have : ThreshT (treeRec t' y' true) := by rw [hn]; exact threshT_shrinkLoop n _ hD
    exact this
  rcases hcase with ⟨_, _, _, e3⟩ | ⟨_, _, _, n, e4⟩
  · exact hrec _ e3
  · exact hrec _ e4

/-- `Healthy` alone is NOT kept by the height reduction: thresholds 2 / 2 with branch factor 3 -/
example : Healthy { id := 1, root := .nil, size := 0, height := 1, bf := 3, growAfter := 2, shrinkBelow := 2 } ∧
    ¬ Healthy (shrunkTree { id := 1, root := .nil, size := 0, height := 1, bf := 3, growAfter := 2, shrinkBelow := 2 }
      .nil) := by
  unfold Healthy shrunkTree; decide

/-- the form that iterates along a history of inserts and deletes: `Thresh` in, `Thresh` (hence `Healthy`) out -/
theorem delete_refines_thresh (E : Env) (fuel g : Nat) (s s' : PS) (t t' : PTree) (k v : Nat) (A : Tree)
    (hg : Good s) (hown : FpOwned s.heap t.id (footprint s g t)) (hth : Thresh t)
    (hA : repTree s g t = some A) (h : delete E fuel s t k v = (s', t', .ok)) (hroot : t'.root ≠ .nil) :
    ∃ g' A', repTree s' g' t' = some A' ∧ Tree.delete E.layer A k v = .ok A' ∧ Good s' ∧
      FpOwned s'.heap t'.id (footprint s' g' t') ∧ Thresh t' ∧ Healthy t' ∧ t'.id = t.id ∧ Step t.id s s' := by
  obtain ⟨g', A', h1, h2, h3, h4, h5, _, h7⟩ := delete_refines E fuel g s s' t t' k v A hg hown hA h hroot
  have hth' := delete_thresh E fuel g s s' t t' k v A hg hown hth hA h
  exact ⟨g', A', h1, h2, h3, h4, hth', hth'.healthy, h5, h7⟩

/-! ## `t'.root ≠ .nil` is the weakest hypothesis: with a nil root the results differ in the `dirty` field -/

theorem dirty_shrinkLoop : ∀ (n : Nat) (m : Tree), (Tree.shrinkLoop n m).dirty = m.dirty := by
  intro n
  induction n with
  | zero => intro m; rfl
  | succ n ih =>
    intro m
    rw [shrinkLoop_succ]
    split
    · rw [ih]; rfl
    · rfl

theorem delete_emptied_disagree (E : Env) (fuel g : Nat) (s s' : PS) (t t' : PTree) (k v : Nat) (A : Tree)
    (hg : Good s) (hown : FpOwned s.heap t.id (footprint s g t))
    (hA : repTree s g t = some A) (h : delete E fuel s t k v = (s', t', .ok)) (hroot : t'.root = .nil) :
    ∀ g' A', repTree s' g' t' = some A' → Tree.delete E.layer A k v ≠ .ok A' := by
  intro g' A' hA' hd
  obtain ⟨x, hx, _, rfl⟩ := repTree_eq_some.mp hA'
  obtain ⟨_, _, r, hlook, hdel, _⟩ := delete_ok_core E fuel g s s' t t' k v A hg hown hA h
  rw [tree_delete_ok hlook hdel] at hd
  injection hd with hd
  have h1 := congrArg Tree.dirty hd
  rw [dirty_shrinkLoop] at h1
  have h2 : (treeRec t' x (rootDirty s'.heap t'.root)).dirty = false := by
    show rootDirty s'.heap t'.root = false
    rw [hroot]; rfl
  rw [h2] at h1
  cases h1

/-! ## when `Tree.delete` succeeds -/

/-- `Tree.delete` ends `ok` exactly when the lookup finds the key with that value; otherwise it reports
    "notpresent" (no such key) or "valuemismatch" (see `tree_delete_notpresent`, `tree_delete_mismatch`);
    with `delete_absent`: the object level can end `ok` only in the first case, and in the other two an `err` outcome
    leaves the tree as it was -/
theorem tree_delete_ok_iff (layer : Nat → Nat) (A : Tree) (k v : Nat) :
    (∃ B, Tree.delete layer A k v = .ok B) ↔ Tree.lookup layer A k = some v := by
  constructor
  · rintro ⟨B, hB⟩
    cases hl : Tree.lookup layer A k with
    | none => rw [tree_delete_notpresent hl] at hB; cases hB
    | some v' =>
      by_cases hvv : v' = v
      · rw [hvv]
      · rw [tree_delete_mismatch hl hvv] at hB; cases hB
  · intro hl
    have h1 : (T.del k (A.levels layer k) A.root).isSome = true := T.del_isSome_of_get k _ _ _ hl
    obtain ⟨r, hr⟩ := Option.isSome_iff_exists.mp h1
    exact ⟨_, tree_delete_ok hl hr⟩

end Mast.Ptr
#print axioms Mast.Ptr.delete_refines'
#print axioms Mast.Ptr.delete_other_trees
#print axioms Mast.Ptr.insert_thresh
#print axioms Mast.Ptr.delete_thresh
#print axioms Mast.Ptr.delete_refines_thresh
#print axioms Mast.Ptr.delete_emptied_disagree
