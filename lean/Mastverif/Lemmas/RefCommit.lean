import Mastverif.Lemmas.RefRelink
import Mastverif.Lemmas.RefPlan
/-! `savePath`, and the in-place write of `insertCommit`. -/
namespace Mast.Ptr
open Mast.Heap

/-- the context's footprint consists of unshared objects -/
theorem Ctx.fp_unshared {h : Heap} {st : List SNode} : ∀ {p : List (Nat × Nat)} {frs : List Fr}, Ctx h st p frs →
    ∀ y ∈ plugA frs ++ plugB frs, ∃ nd, h[y]? = some nd ∧ nd.shared = false := by
  intro p
  induction p with
  | nil => intro frs hc; cases frs <;> exact hc.elim
  | cons x p ih =>
    intro frs hc
    cases p with
    | nil =>
      cases frs with
      | nil => intro y hy; simp [plugA, plugB] at hy
      | cons _ _ => exact hc.elim
    | cons y rest =>
      cases frs with
      | nil => exact hc.elim
      | cons fr frs =>
        obtain ⟨a, i⟩ := x
        obtain ⟨b, j⟩ := y
        obtain ⟨⟨nd, g, hnd, hv, hown, hks, hvs, hi, hilt, hL, hR⟩, hrest⟩ := hc
        intro y hy
        have ih' := ih hrest y
        simp only [plugA, plugB, List.mem_append] at hy ih'
        rcases hy with ((hy | hy) | hy) | (hy | hy)
        · rw [hown] at hy
          obtain ⟨hs, rfl⟩ := mem_ownFp.mp hy
          exact ⟨nd, hnd, hs⟩
        · obtain ⟨c, hc, hyc⟩ := mem_fps.mp hy
          obtain ⟨k, hk⟩ := List.getElem?_of_mem hc
          have hlen := seqO_map_length hL
          have hlt : k < (nd.links.take i).length := by rw [← hlen]; exact (List.getElem?_eq_some_iff.mp hk).1
          obtain ⟨c', hc1, hc2⟩ := seqO_map_getElem? hL (List.getElem?_eq_getElem hlt)
          rw [hk] at hc2; injection hc2 with hc2; subst hc2
          exact repLink_fp_unshared _ _ _ hc1 y hyc
        · exact ih' (Or.inl hy)
        · exact ih' (Or.inr hy)
        · obtain ⟨c, hc, hyc⟩ := mem_fps.mp hy
          obtain ⟨k, hk⟩ := List.getElem?_of_mem hc
          have hlen := seqO_map_length hR
          have hlt : k < (nd.links.drop (i + 1)).length := by rw [← hlen]; exact (List.getElem?_eq_some_iff.mp hk).1
          obtain ⟨c', hc1, hc2⟩ := seqO_map_getElem? hR (List.getElem?_eq_getElem hlt)
          rw [hk] at hc2; injection hc2 with hc2; subst hc2
          exact repLink_fp_unshared _ _ _ hc1 y hyc

theorem plug_fp_unshared {h : Heap} {st : List SNode} {q : List (Nat × Nat)} {frs : List Fr} {g b : Nat}
    {bx : Bool × T × List Nat} (hctx : Ctx h st q frs) (hbx : repLink h st g (.ptr b) = some bx) :
    ∀ y ∈ (plug frs bx).2.2, ∃ nd, h[y]? = some nd ∧ nd.shared = false := by
  intro y hy
  rw [plug_fp] at hy
  have hAB := hctx.fp_unshared y
  simp only [List.mem_append] at hy hAB
  rcases hy with (hy | hy) | hy
  · exact hAB (Or.inl hy)
  · exact repLink_fp_unshared _ _ _ hbx y hy
  · exact hAB (Or.inr hy)

/-- ownership of a footprint that evolved from an owned one along a step of `m` -/
theorem fpOwned_of_step {m : Nat} {s s' : PS} {old new : List Nat} (hst : Step m s s')
    (hold : FpOwned s.heap m old) (hext : FpExt s.heap.length old new)
    (hun : ∀ y ∈ new, ∃ nd, s'.heap[y]? = some nd ∧ nd.shared = false) : FpOwned s'.heap m new := by
  intro y hy
  obtain ⟨nd, hnd, hs⟩ := hun y hy
  refine ⟨nd, hnd, ?_⟩
  rcases hext.2 y hy with h | h
  · obtain ⟨nd0, hnd0, ho⟩ := hold y h
    obtain ⟨nd', hnd', e1, _, _⟩ := hst.keep y nd0 hnd0
    rw [hnd] at hnd'; injection hnd' with hnd'; subst hnd'
    rw [e1, ho]
  · rcases hst.fresh y nd h hnd with h1 | h1
    · rw [hs] at h1; cases h1
    · exact h1

/-- `savePathForRoot` on an insert path -/
theorem savePath_spec {m : Nat} (q : List (Nat × Nat)) (frs : List Fr) (s : PS) (bx : Bool × T × List Nat)
    (g b j : Nat) (ndb : MNode) (hg : Good s) (hctx : Ctx s.heap s.store q frs) (hlast : q.getLast? = some (b, j))
    (hbx : repLink s.heap s.store g (.ptr b) = some bx) (hndb : s.heap[b]? = some ndb) (hne : isEmptyN ndb = false)
    (hnodup : (plug frs bx).2.2.Nodup) (howned : FpOwned s.heap m (plug frs bx).2.2) :
    Spec (Step m) (savePath m q) s (fun root s' => ∃ a0 g' y, root = .ptr a0 ∧
      repLink s'.heap s'.store g' (.ptr a0) = some y ∧ y.2.1 = plugRow frs bx.2.1 ∧
      FpExt s.heap.length (plug frs bx).2.2 y.2.2 ∧ rootDirty s'.heap root = true) := by
  unfold savePath
  refine Spec.bind (mutPath_spec (m := m) q frs s bx g b j ndb hg hctx hlast hbx hndb hne hnodup howned) ?_
  rintro q' s1 _ hst1 ⟨hsnd, hsh, hdm, hod, frs', bx', g1, b', j', ndb', hctx1, hlast1, hbx1, hndb1, hne1, hrow1, hplug1,
    hfp1⟩
  have hg1 := hst1.good hg
  refine Spec.bind (relink_spec (m := m) q' frs' s1 bx' g1 b' j' ndb' hg1 hctx1 hlast1 hbx1 hndb1 hne1 hfp1.1
    (fun p hp => by obtain ⟨nd, h1, h2, _⟩ := hod p hp; exact ⟨nd, h1, h2⟩)) ?_
  rintro _ s2 _ hst2 ⟨hlen2, hdm2, hfr2, a0, i0, rest0, g2, nd0, rfl, hrep2, hnd0, hne0⟩
  dsimp only
  refine Spec.pure ⟨a0, g2, _, rfl, hrep2, ?_, hfp1, ?_⟩
  · rw [plug_row, hplug1, hrow1]
  · obtain ⟨nd, h1, _, _, hd⟩ := hod (a0, i0) (by simp)
    obtain ⟨nd2, h2, hd2⟩ := hdm2 a0 nd h1 hd
    simp [rootDirty, h2, hd2]

theorem setLastNode_eq {path : List (Nat × Nat)} {node i : Nat} (h : path.getLast? = some (node, i)) (a' : Nat) :
    setLastNode path a' = path.dropLast ++ [(a', i)] := by
  unfold setLastNode; rw [h]

/-- the state after the bottom node (or its fresh copy) has been overwritten with the new contents -/
theorem afterWrite {m : Nat} {h1 h1a : Heap} {st : List SNode} {path : List (Nat × Nat)} {frs : List Fr}
    {node i a' G n2 : Nat} {nd ndN : MNode} {csb cs' : List (Bool × T × List Nat)}
    (hctx : Ctx h1 st path frs) (hlast : path.getLast? = some (node, i))
    (hnd : h1[node]? = some nd)
    (hcase : (nd.shared = false ∧ a' = node ∧ h1a = h1) ∨
             (nd.shared = true ∧ a' = h1.length ∧ h1a = h1 ++ [mutCopy m nd]))
    (hN1 : ndN.shared = false)
    (hK1 : seqO (ndN.links.map (repLink h1 st G)) = some cs') (hK2 : ValidN ndN)
    (hK4 : FpExt n2 (fps csb) (fps cs'))
    (hn2 : n2 ≤ h1.length) (hlt : ∀ y ∈ (plug frs (bottomRep nd node csb)).2.2, y < n2)
    (hnodup : (plug frs (bottomRep nd node csb)).2.2.Nodup) :
    Ctx (h1a.set a' ndN) st (setLastNode path a') frs ∧ (setLastNode path a').getLast? = some (a', i) ∧
    repLink (h1a.set a' ndN) st (G + 1) (.ptr a') = some (nodeRep false [a'] ndN.keys ndN.vals cs') ∧
    FpExt n2 (plug frs (bottomRep nd node csb)).2.2 (plug frs (nodeRep false [a'] ndN.keys ndN.vals cs')).2.2 := by
  have hal : AllocOnly h1 h1a := by
    rcases hcase with ⟨_, _, rfl⟩ | ⟨_, _, rfl⟩
    · exact AllocOnly.refl _
    · exact allocOnly_append _ _
  have ha'lt : a' < h1a.length := by
    rcases hcase with ⟨_, rfl, rfl⟩ | ⟨_, rfl, rfl⟩
    · exact (List.getElem?_eq_some_iff.mp hnd).1
    · simp
  -- the footprints
  rw [plug_fp] at hnodup hlt
  have hbfp : (bottomRep nd node csb).2.2 = ownFp nd node ++ fps csb := rfl
  have hnb : (ownFp nd node ++ fps csb).Nodup := by
    rw [← hbfp]; exact (List.nodup_append.mp (List.nodup_append.mp hnodup).1).2.1
  have hfpb : FpExt n2 (bottomRep nd node csb).2.2 (nodeRep false [a'] ndN.keys ndN.vals cs').2.2 := by
    rw [hbfp, nodeRep_fp]
    rcases hcase with ⟨hs, rfl, _⟩ | ⟨hs, rfl, _⟩
    · have ho : ownFp nd a' = [a'] := by simp [ownFp, hs]
      rw [ho] at hnb ⊢
      have := FpExt.ctx (n := n2) [a'] [] (by simpa using hnb) (fun y hy => by
        apply hlt y; simp at hy; subst hy
        simp only [List.mem_append]; exact Or.inl (Or.inr (by rw [hbfp, ho]; simp))) (by simp) hK4
      simpa using this
    · have ho : ownFp nd node = [] := by simp [ownFp, hs]
      rw [ho]
      simp only [List.nil_append, List.singleton_append]
      refine hK4.cons_fresh hn2 ?_
      intro hmem
      obtain ⟨c, hc, hyc⟩ := mem_fps.mp hmem
      obtain ⟨k, hk⟩ := List.getElem?_of_mem hc
      have hlen := seqO_map_length hK1
      have hklt : k < ndN.links.length := by rw [← hlen]; exact (List.getElem?_eq_some_iff.mp hk).1
      obtain ⟨c', hc1, hc2⟩ := seqO_map_getElem? hK1 (List.getElem?_eq_getElem hklt)
      rw [hk] at hc2; injection hc2 with hc2; subst hc2
      have := repLink_fp_lt hc1 hyc
      omega
  have hfp : FpExt n2 (plugA frs ++ (bottomRep nd node csb).2.2 ++ plugB frs)
      (plugA frs ++ (nodeRep false [a'] ndN.keys ndN.vals cs').2.2 ++ plugB frs) :=
    FpExt.ctx _ _ hnodup
      (fun y hy => hlt y (List.mem_append.mpr (Or.inl (List.mem_append.mpr (Or.inl hy)))))
      (fun y hy => hlt y (List.mem_append.mpr (Or.inr hy))) hfpb
  -- `a'` occurs once in the new footprint
  have hnew := hfp.1
  rw [nodeRep_fp] at hnew
  simp only [List.nodup_append, List.mem_append, List.singleton_append, List.nodup_cons, List.mem_cons] at hnew
  obtain ⟨⟨hnA, ⟨ha'cs, _⟩, hAb⟩, hnB, hAbB⟩ := hnew
  have ha'A : a' ∉ plugA frs := fun h => hAb a' h a' (Or.inl rfl) rfl
  have ha'B : a' ∉ plugB frs := fun h => hAbB a' (Or.inr (Or.inl rfl)) a' h rfl
  have hW1a : ∀ (y : Nat) (x : MNode), h1a[y]? = some x → y = a' → x.shared = false := by
    intro y x hx hy
    subst hy
    rcases hcase with ⟨hs, rfl, rfl⟩ | ⟨hs, rfl, rfl⟩
    · rw [hnd] at hx; injection hx with hx; subst hx; exact hs
    · rw [getElem?_append_self] at hx; injection hx with hx; subst hx; rfl
  refine ⟨?_, ?_, ?_, by rw [plug_fp, plug_fp]; exact hfp⟩
  · rw [setLastNode_eq hlast]
    refine Ctx.setLast _ (Ctx.frame (fun y => y = a') ?_ hW1a (hctx.allocOnly hal) ?_)
    · intro y x hx hne
      rw [List.getElem?_set_ne (fun h => hne h.symm)]; exact hx
    · intro y hy h
      subst h
      rcases List.mem_append.mp hy with h | h
      · exact ha'A h
      · exact ha'B h
  · rw [setLastNode_eq hlast]; simp
  · refine repLink_ptr_some.mpr ⟨G, ndN, cs', rfl, List.getElem?_set_self ha'lt, hK2, ?_, by simp [ownFp, hN1]⟩
    refine seqO_map_congr hK1 (fun l hl c hc => ?_)
    have := repLink_frame (h := h1) (h' := h1a.set a' ndN) (st := st) [] (fun y => y = a') ?_ ?_ G l c hc ?_
    · simpa using this
    · intro y x hx hne
      rw [List.getElem?_set_ne (fun h => hne h.symm)]; exact hal y x hx
    · intro y x hx hy
      exact hW1a y x (hal y x hx) hy
    · intro y hy h
      subst h
      obtain ⟨c', hc1, hc2⟩ := seqO_map_mem hK1 hl
      rw [hc] at hc1; injection hc1 with hc1; subst hc1
      exact ha'cs (mem_fps.mpr ⟨c, hc2, hy⟩)

end Mast.Ptr
