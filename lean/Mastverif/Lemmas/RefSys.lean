import Mastverif.Lemmas.RefInsertTop
/-! What a step performed for tree `m` does to the *other* trees of a system: nothing. -/
namespace Mast.Ptr
open Mast.Heap

theorem Step.repLink_other {m m2 : Nat} {s s' : PS} (hst : Step m s s') (hne : m2 ≠ m) {g : Nat} {l : HLink}
    {x : Bool × T × List Nat} (hx : repLink s.heap s.store g l = some x) (hown : FpOwned s.heap m2 x.2.2) :
    repLink s'.heap s'.store g l = some x := by
  have := repLink_frame (h := s.heap) (h' := s'.heap) (st := s.store) []
    (fun a => ∃ nd, s.heap[a]? = some nd ∧ nd.shared = false ∧ nd.owner = m) ?_ ?_ g l x hx ?_
  · rw [hst.store]; simpa using this
  · intro a nd hnd hnw
    obtain ⟨nd', hnd', _, _, heq⟩ := hst.keep a nd hnd
    have : nd.shared = true ∨ nd.owner ≠ m := by
      cases hs : nd.shared with
      | true => exact Or.inl rfl
      | false => exact Or.inr (fun ho => hnw ⟨nd, hnd, hs, ho⟩)
    rw [heq this] at hnd'; exact hnd'
  · rintro a nd hnd ⟨nd', hnd', hs, _⟩
    rw [hnd] at hnd'; injection hnd' with hnd'; subst hnd'; exact hs
  · rintro y hy ⟨nd, hnd, _, ho⟩
    obtain ⟨nd', hnd', ho'⟩ := hown y hy
    rw [hnd] at hnd'; injection hnd' with hnd'; subst hnd'
    exact hne (ho'.symm.trans ho)

/-- a tree of another owner denotes what it denoted, and still owns its footprint -/
theorem Step.repTree_other {m : Nat} {s s' : PS} (hst : Step m s s') {g : Nat} {t2 : PTree} {B : Tree}
    (hne : t2.id ≠ m) (hB : repTree s g t2 = some B) (hown : FpOwned s.heap t2.id (footprint s g t2)) :
    repTree s' g t2 = some B ∧ FpOwned s'.heap t2.id (footprint s' g t2) := by
  obtain ⟨x, hx, hxnd, rfl⟩ := repTree_eq_some.mp hB
  rw [footprint_eq hx] at hown
  have hx' := hst.repLink_other hne hx hown
  have hkeep : ∀ y ∈ x.2.2, ∀ nd, s.heap[y]? = some nd → s'.heap[y]? = some nd := by
    intro y hy nd hnd
    obtain ⟨nd0, hnd0, ho⟩ := hown y hy
    rw [hnd] at hnd0; injection hnd0 with hnd0; subst hnd0
    obtain ⟨nd', hnd', _, _, heq⟩ := hst.keep y nd hnd
    rw [heq (Or.inr (by rw [ho]; exact hne))] at hnd'; exact hnd'
  refine ⟨repTree_eq_some.mpr ⟨x, hx', hxnd, ?_⟩, ?_⟩
  · congr 1
    cases hr : t2.root with
    | nil => rfl
    | ref n => rfl
    | ptr a =>
      rw [hr] at hx
      obtain ⟨_, nd, cs, _, hnd, _, _, hxe⟩ := repLink_ptr_some.mp hx
      have hnd' : s'.heap[a]? = some nd := by
        cases hs : nd.shared with
        | true =>
          obtain ⟨nd', h1, _, _, heq⟩ := hst.keep a nd hnd
          rw [heq (Or.inl hs)] at h1; exact h1
        | false =>
          apply hkeep a _ nd hnd
          rw [hxe, nodeRep_fp]
          exact List.mem_append.mpr (Or.inl (mem_ownFp.mpr ⟨hs, rfl⟩))
      simp only [rootDirty, hnd, hnd']
  · rw [footprint_eq hx']
    intro y hy
    obtain ⟨nd, hnd, ho⟩ := hown y hy
    exact ⟨nd, hkeep y hy nd hnd, ho⟩

/-- the tie to the abstraction the driver runs: where `repTree` is defined, `absTree` agrees -/
theorem repTree_absTree {s : PS} {g : Nat} {t : PTree} {A : Tree} (h : repTree s g t = some A) :
    absTree s g t = some A := by
  obtain ⟨x, hx, _, rfl⟩ := repTree_eq_some.mp h
  obtain ⟨p, r, fp⟩ := x
  unfold absTree
  rw [repLink_absLink g t.root p r fp hx]
  simp only [treeRec]
  congr 2

/-- `Insert` on tree `t` leaves every tree of another owner as it was -/
theorem insert_other_trees (E : Env) (fuel g g2 : Nat) (s s' : PS) (t t' t2 : PTree) (k v : Nat) (A B : Tree)
    (hg : Good s) (hown : FpOwned s.heap t.id (footprint s g t)) (hh : Healthy t)
    (hA : repTree s g t = some A) (h : insert E fuel s t k v = (s', t', .ok))
    (hne : t2.id ≠ t.id) (hB : repTree s g2 t2 = some B) (hown2 : FpOwned s.heap t2.id (footprint s g2 t2)) :
    repTree s' g2 t2 = some B ∧ FpOwned s'.heap t2.id (footprint s' g2 t2) := by
  obtain ⟨_, _, _, _, _, _, _, _, hst⟩ := insert_refines E fuel g s s' t t' k v A hg hown hh hA h
  exact hst.repTree_other hne hB hown2

end Mast.Ptr
