import Mastverif.Lemmas.Basic
/-!
# M0 — the sorted association list that the tree refines

`insL` / `delL` / `getL` on strictly ascending entry lists, and the algebra that the
refinement proofs need.
-/
namespace Mast
namespace T

/-- insert or update in a sorted association list -/
def insL (k v : Nat) : List Entry → List Entry
  | [] => [(k, v)]
  | (k', v') :: l =>
      if k' < k then (k', v') :: insL k v l else if k' = k then (k, v) :: l else (k, v) :: (k', v') :: l

def delL (k : Nat) (l : List Entry) : List Entry := l.filter (fun e => e.1 != k)

def getL (k : Nat) : List Entry → Option Nat
  | [] => none
  | (k', v') :: l => if k' = k then some v' else getL k l

theorem insL_append_lt {k v} (a b : List Entry) (h : ∀ e ∈ a, e.1 < k) :
    insL k v (a ++ b) = a ++ insL k v b := by
  induction a with
  | nil => rfl
  | cons x a ih =>
    have hx : x.1 < k := h x (by simp)
    simp [insL, hx, ih (fun e he => h e (by simp [he]))]

theorem insL_all_gt {k v} (a : List Entry) (h : ∀ e ∈ a, k < e.1) :
    insL k v a = (k, v) :: a := by
  cases a with
  | nil => rfl
  | cons x a =>
    have hx : k < x.1 := h x (by simp)
    have h1 : ¬ x.1 < k := by omega
    have h2 : ¬ x.1 = k := by omega
    simp [insL, h1, h2]

theorem insL_append_gt {k v} (a b : List Entry) (h : ∀ e ∈ b, k < e.1) :
    insL k v (a ++ b) = insL k v a ++ b := by
  induction a with
  | nil => simp [insL_all_gt b h, insL]
  | cons x a ih =>
    obtain ⟨k', v'⟩ := x
    simp only [List.cons_append, insL]
    split
    · simp [ih]
    · split <;> simp

theorem insL_split {k v} (l : List Entry) (hs : Sorted l) (hk : ∀ e ∈ l, e.1 ≠ k) :
    insL k v l = keysLt k l ++ (k, v) :: keysGt k l := by
  induction l with
  | nil => rfl
  | cons x l ih =>
    simp only [Sorted, List.pairwise_cons] at hs
    have hxk : x.1 ≠ k := hk x (by simp)
    have ih' := ih hs.2 (fun e he => hk e (by simp [he]))
    by_cases hlt : x.1 < k
    · simp [insL, hlt, keysLt, keysGt, List.filter_cons] at ih' ⊢
      have : ¬ k < x.1 := by omega
      simp [this, ih']
    · have hgt : k < x.1 := by omega
      have hall : ∀ e ∈ l, k < e.1 := fun e he => Nat.lt_trans hgt (hs.1 e he)
      have h1 : keysLt k l = [] := filter_none (fun e he => by simp; have := hall e he; omega)
      have h2 : keysGt k l = l := filter_all (fun e he => by simp; exact hall e he)
      have hne : ¬ x.1 = k := hxk
      simp only [keysLt, keysGt] at h1 h2
      simp [insL, hlt, hne, keysLt, keysGt, List.filter_cons, hgt, h1, h2]

theorem mem_insL {k v : Nat} {l : List Entry} {e : Entry} (h : e ∈ insL k v l) : e = (k, v) ∨ e ∈ l := by
  induction l with
  | nil => simp [insL] at h; exact Or.inl h
  | cons x l ih =>
    obtain ⟨k', v'⟩ := x
    simp only [insL] at h
    split at h
    · simp only [List.mem_cons] at h ⊢
      rcases h with h | h
      · exact Or.inr (Or.inl h)
      · rcases ih h with h | h
        · exact Or.inl h
        · exact Or.inr (Or.inr h)
    · split at h
      · simp only [List.mem_cons] at h ⊢
        rcases h with h | h
        · exact Or.inl h
        · exact Or.inr (Or.inr h)
      · simp only [List.mem_cons] at h ⊢
        rcases h with h | h | h
        · exact Or.inl h
        · exact Or.inr (Or.inl h)
        · exact Or.inr (Or.inr h)

theorem mem_insL_self (k v : Nat) (l : List Entry) : (k, v) ∈ insL k v l := by
  induction l with
  | nil => simp [insL]
  | cons x l ih =>
    obtain ⟨k', v'⟩ := x
    simp only [insL]
    split
    · exact List.mem_cons_of_mem _ ih
    · split <;> simp

theorem insL_ne_nil (k v : Nat) (l : List Entry) : insL k v l ≠ [] := by
  intro h; have := mem_insL_self k v l; rw [h] at this; simp at this

theorem keys_insL {k v : Nat} {l : List Entry} {e : Entry} (h : e ∈ insL k v l) : e.1 = k ∨ e ∈ l := by
  rcases mem_insL h with rfl | h
  · exact Or.inl rfl
  · exact Or.inr h

theorem sorted_insL (k v : Nat) : ∀ (l : List Entry), Sorted l → Sorted (insL k v l) := by
  intro l
  induction l with
  | nil => intro _; simp [insL, Sorted]
  | cons x l ih =>
    intro hs
    obtain ⟨k', v'⟩ := x
    simp only [Sorted, List.pairwise_cons] at hs
    simp only [insL]
    split
    · next hlt =>
      simp only [Sorted, List.pairwise_cons]
      refine ⟨?_, ih hs.2⟩
      intro e he
      rcases mem_insL he with rfl | he
      · exact hlt
      · exact hs.1 e he
    · split
      · next _ heq =>
        subst heq
        simp only [Sorted, List.pairwise_cons]
        exact ⟨hs.1, hs.2⟩
      · next hnlt hne =>
        have hgt : k < k' := by omega
        simp only [Sorted, List.pairwise_cons]
        refine ⟨?_, hs.1, hs.2⟩
        intro e he
        simp only [List.mem_cons] at he
        rcases he with rfl | he
        · exact hgt
        · exact Nat.lt_trans hgt (hs.1 e he)

theorem length_insL_absent (k v : Nat) : ∀ (l : List Entry), (∀ e ∈ l, e.1 ≠ k) → (insL k v l).length = l.length + 1 := by
  intro l
  induction l with
  | nil => intro _; simp [insL]
  | cons x l ih =>
    intro h
    obtain ⟨k', v'⟩ := x
    have hne : k' ≠ k := h (k', v') (by simp)
    simp only [insL]
    split
    · simp [ih (fun e he => h e (by simp [he]))]
    · simp [hne]

theorem getL_append_lt {k : Nat} (a b : List Entry) (h : ∀ e ∈ a, e.1 < k) :
    getL k (a ++ b) = getL k b := by
  induction a with
  | nil => rfl
  | cons x a ih =>
    obtain ⟨k', v'⟩ := x
    have hx : k' < k := h (k', v') (by simp)
    have : ¬ k' = k := by omega
    simp [getL, this, ih (fun e he => h e (by simp [he]))]

theorem getL_all_gt {k : Nat} (a : List Entry) (h : ∀ e ∈ a, k < e.1) : getL k a = none := by
  induction a with
  | nil => rfl
  | cons x a ih =>
    obtain ⟨k', v'⟩ := x
    have hx : k < k' := h (k', v') (by simp)
    have : ¬ k' = k := by omega
    simp [getL, this, ih (fun e he => h e (by simp [he]))]

theorem getL_none_of_not_mem {k : Nat} (a : List Entry) (h : ∀ e ∈ a, e.1 ≠ k) : getL k a = none := by
  induction a with
  | nil => rfl
  | cons x a ih =>
    obtain ⟨k', v'⟩ := x
    have : ¬ k' = k := h (k', v') (by simp)
    simp [getL, this, ih (fun e he => h e (by simp [he]))]

theorem getL_append_none {k : Nat} (a b : List Entry) (h : ∀ e ∈ b, e.1 ≠ k) :
    getL k (a ++ b) = getL k a := by
  induction a with
  | nil => simp [getL_none_of_not_mem b h, getL]
  | cons x a ih =>
    obtain ⟨k', v'⟩ := x
    simp only [List.cons_append, getL]
    split
    · rfl
    · exact ih

theorem getL_insL_same (k v : Nat) : ∀ l : List Entry, Sorted l → getL k (insL k v l) = some v := by
  intro l
  induction l with
  | nil => intro _; simp [insL, getL]
  | cons x l ih =>
    intro hs
    obtain ⟨k', v'⟩ := x
    simp only [Sorted, List.pairwise_cons] at hs
    simp only [insL]
    split
    · next hlt =>
      have : ¬ k' = k := by omega
      simp [getL, this, ih hs.2]
    · split <;> simp [getL]

end T
end Mast
