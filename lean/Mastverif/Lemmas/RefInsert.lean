import Mastverif.Lemmas.RefCommit2
/-! `Insert` up to the grow loop: the plan tells what `Tree.lookup` says, the commit installs `T.ins`. -/
namespace Mast.Ptr
open Mast.Heap

/-- the plan's `present` / `same` flags are what the functional lookup says -/
theorem planOK_lookup {key val n0 : Nat} {x : Bool × T × List Nat} {height target : Nat} {p : InsPlan} {h : Heap}
    {st : List SNode} (hplan : PlanOK key val n0 x height target p h st) :
    (p.present = true → ∃ v', T.get key (height - target) (T.unmk x.2.1) = some v' ∧ (p.same = true ↔ v' = val)) ∧
    (p.present = false → T.get key (height - target) (T.unmk x.2.1) = none) := by
  obtain ⟨frs, gb, csb, nd, n2, hctx, hoks, hlast, hnd, hv, hkids, hidx, hn02, hn2, hlt, hfp0, hget, hins, hpres,
    habs⟩ := hplan
  have hcl : (csb.map pr).length = nd.keys.length + 1 := by
    rw [List.length_map, seqO_map_length hkids]; exact hv.1
  have hg : T.get key (height - target) (T.unmk x.2.1) =
      if nd.keys[p.found.idx]? = some key then nd.vals[p.found.idx]? else none := by
    rw [hget]
    show T.get key 0 (mkRow (csb.map pr) nd.keys nd.vals) = _
    rw [get_mkRow_zero nd.keys (csb.map pr) nd.vals key hcl hv.2, ← hidx]
  constructor
  · intro hp
    obtain ⟨hkey, hsame⟩ := hpres hp
    have hlt' : p.found.idx < nd.vals.length := by rw [hv.2]; exact (List.getElem?_eq_some_iff.mp hkey).1
    refine ⟨nd.vals[p.found.idx], ?_, ?_⟩
    · rw [hg, if_pos hkey]; exact List.getElem?_eq_getElem hlt'
    · rw [hsame, List.getElem?_eq_getElem hlt']; simp
  · intro hp
    rw [hg, if_neg (habs hp).1]

end Mast.Ptr
