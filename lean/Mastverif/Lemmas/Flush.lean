import Mastverif.Model.Flush
/-! Invariant of the flush worker pool over all interleavings. -/
namespace Mast.MF

structure Inv (n pool : Nat) (s : S) : Prop where
  disp : s.dIdle + s.dHold + s.dNil + s.dExit = 1
  wgEq : s.wg = s.dIdle + s.dHold + s.dNil + s.nStart + s.nCalling + s.nExit
  sent : s.toSend + s.dHold + s.nStart + s.nCalling + s.okDone + s.errDone + s.skipped = n
  gateEq : s.gate + s.nStart + s.nCalling + s.nExit + s.dExit = pool
  errs : s.firstErr = 0 → s.errDone = 0 ∧ s.skipped = 0
  closedSend : s.closed = 1 → s.toSend = 0
  nilClosed : s.dNil + s.dExit > 0 → s.closed = 1
  retd : s.returned = 1 → s.closed = 1 ∧ s.wg = 0

theorem inv_init (n pool) : Inv n pool (start n pool) := by
  constructor <;> simp [start]

theorem inv_step {n pool s s'} (h : Inv n pool s) (st : Step s s') : Inv n pool s' := by
  obtain ⟨h0, h1, h2, h3, h4, h5, h6, h7⟩ := h
  cases st <;> constructor <;> simp only [] <;> omega

theorem inv_reach {n pool s} (r : Reach n pool s) : Inv n pool s := by
  induction r with
  | init => exact inv_init n pool
  | step _ st ih => exact inv_step ih st

end Mast.MF
