import Mastverif.Lemmas.RefGood
/-!
# Counting store loads: a Hoare triple with a load budget

`PS.tick` counts the loads that go to the store (`loadRef` increments it exactly when the name is not
served by the cache, also when the load fails).  `TS R n x s Q`: from the state `s`, the program `x`
performs at most `n` store loads, whatever the outcome that carries a state (`.ok` / `.err`); on `.ok` the
relation `R s s'` and the postcondition `Q` hold.  Two relations are used: `AnyR` (nothing is tracked; for
the phases that write in place) and `AExt` (allocation-only steps that keep the store and the cache
invariant; for the phases that read).
-/
namespace Mast.Ptr
open Mast.Heap

/-- the cache invariant, demanded only when the cache is in use -/
def CacheS (s : PS) : Prop := s.useCache = true → CacheInv s

theorem Good.cacheS {s : PS} (h : Good s) : CacheS s := fun _ => h.cache

/-- allocation-only step: objects are kept, the store is the same, the cache stays sound -/
structure AExt (s s' : PS) : Prop where
  alloc : AllocOnly s.heap s'.heap
  store : s'.store = s.store
  cache : CacheS s → CacheS s'

def AnyR (_ _ : PS) : Prop := True

theorem AExt.refl (s : PS) : AExt s s := ⟨AllocOnly.refl _, rfl, fun h => h⟩

theorem AExt.trans {a b c : PS} (x : AExt a b) (y : AExt b c) : AExt a c :=
  ⟨x.alloc.trans y.alloc, by rw [y.store, x.store], fun h => y.cache (x.cache h)⟩

instance : PreR AExt := ⟨AExt.refl, AExt.trans⟩
instance : PreR AnyR := ⟨fun _ => trivial, fun _ _ => trivial⟩

/-- at most `n` store loads from `s`, on every outcome that carries a state -/
def TS {α : Type} (R : PS → PS → Prop) (n : Nat) (x : M α) (s : PS) (Q : α → PS → Prop) : Prop :=
  match x s with
  | .ok a s' => s'.tick ≤ s.tick + n ∧ R s s' ∧ Q a s'
  | .err s' => s'.tick ≤ s.tick + n
  | _ => True

theorem TS.bind {α β : Type} {R : PS → PS → Prop} [PreR R] {x : M α} {f : α → M β} {s : PS} {a b n : Nat}
    {Q1 : α → PS → Prop} {Q : β → PS → Prop}
    (hx : TS R a x s Q1)
    (hf : ∀ r s1, x s = .ok r s1 → R s s1 → Q1 r s1 → TS R b (f r) s1 Q)
    (hn : a + b ≤ n) : TS R n (x >>= f) s Q := by
  show TS R n (M.bind x f) s Q
  unfold TS M.bind
  unfold TS at hx
  cases hxs : x s with
  | ok r s1 =>
    rw [hxs] at hx
    have h2 := hf r s1 hxs hx.2.1 hx.2.2
    unfold TS at h2
    simp only
    cases hfs : f r s1 with
    | ok b' s2 =>
      rw [hfs] at h2
      exact ⟨by have := hx.1; have := h2.1; omega, PreR.trans hx.2.1 h2.2.1, h2.2.2⟩
    | err s2 => rw [hfs] at h2; simp only; have := hx.1; omega
    | stuck => trivial
    | panic => trivial
    | oof => trivial
  | err s1 => rw [hxs] at hx; simp only; omega
  | stuck => trivial
  | panic => trivial
  | oof => trivial

theorem TS.pure {α : Type} {R : PS → PS → Prop} [PreR R] {a : α} {s : PS} {n : Nat} {Q : α → PS → Prop} (h : Q a s) :
    TS R n (Pure.pure a : M α) s Q := ⟨Nat.le_add_right _ _, PreR.refl s, h⟩

theorem TS.panic {α : Type} {R : PS → PS → Prop} {s : PS} {n : Nat} {Q : α → PS → Prop} : TS R n (panicE : M α) s Q := trivial
theorem TS.oof {α : Type} {R : PS → PS → Prop} {s : PS} {n : Nat} {Q : α → PS → Prop} : TS R n (oofE : M α) s Q := trivial
theorem TS.fail {α : Type} {R : PS → PS → Prop} {s : PS} {n : Nat} {Q : α → PS → Prop} : TS R n (failE : M α) s Q :=
  Nat.le_add_right _ _

theorem TS.conseq {α : Type} {R : PS → PS → Prop} {x : M α} {s : PS} {n n' : Nat} {Q Q' : α → PS → Prop}
    (hx : TS R n x s Q) (hn : n ≤ n') (hq : ∀ a s', x s = .ok a s' → R s s' → Q a s' → Q' a s') : TS R n' x s Q' := by
  unfold TS at hx ⊢
  cases hxs : x s with
  | ok a s1 => rw [hxs] at hx; exact ⟨by have := hx.1; omega, hx.2.1, hq a s1 hxs hx.2.1 hx.2.2⟩
  | err s1 => rw [hxs] at hx; simp only; omega
  | stuck => trivial
  | panic => trivial
  | oof => trivial

theorem TS.mono {α : Type} {R : PS → PS → Prop} {x : M α} {s : PS} {n n' : Nat} {Q : α → PS → Prop}
    (hx : TS R n x s Q) (hn : n ≤ n') : TS R n' x s Q := hx.conseq hn (fun _ _ _ _ h => h)

/-- forget the relation -/
theorem TS.any {α : Type} {R : PS → PS → Prop} {x : M α} {s : PS} {n : Nat} {Q : α → PS → Prop}
    (hx : TS R n x s Q) : TS AnyR n x s Q := by
  unfold TS at hx ⊢
  cases hxs : x s with
  | ok a s1 => rw [hxs] at hx; exact ⟨hx.1, trivial, hx.2.2⟩
  | err s1 => rw [hxs] at hx; exact hx
  | stuck => trivial
  | panic => trivial
  | oof => trivial

theorem TS.ok {α : Type} {R : PS → PS → Prop} {x : M α} {s s' : PS} {n : Nat} {a : α} {Q : α → PS → Prop}
    (hx : TS R n x s Q) (h : x s = .ok a s') : s'.tick ≤ s.tick + n ∧ R s s' ∧ Q a s' := by
  unfold TS at hx; rw [h] at hx; exact hx

theorem TS.err {α : Type} {R : PS → PS → Prop} {x : M α} {s s' : PS} {n : Nat} {Q : α → PS → Prop}
    (hx : TS R n x s Q) (h : x s = .err s') : s'.tick ≤ s.tick + n := by
  unfold TS at hx; rw [h] at hx; exact hx

/-! ## primitives -/

theorem cacheInv_allocOnly {s s' : PS} (ha : AllocOnly s.heap s'.heap) (hs : s'.store = s.store)
    (hc : s'.cache = s.cache) (h : CacheInv s) : CacheInv s' := by
  intro n a hna
  rw [hc] at hna
  obtain ⟨nd, sn, h1, h2, h3, h4⟩ := h n a hna
  exact ⟨nd, sn, ha a nd h1, h2, by rw [hs]; exact h3, h4⟩

theorem AExt.of_alloc {s s' : PS} (ha : AllocOnly s.heap s'.heap) (hs : s'.store = s.store)
    (hc : s'.cache = s.cache) (hu : s'.useCache = s.useCache) : AExt s s' :=
  ⟨ha, hs, fun h hu' => cacheInv_allocOnly ha hs hc (h (by rw [← hu]; exact hu'))⟩

theorem read_ts {R : PS → PS → Prop} [PreR R] (a : Nat) (s : PS) :
    TS R 0 (read a) s (fun nd s' => s = s' ∧ s.heap[a]? = some nd) := by
  unfold TS read
  cases h : s.heap[a]? with
  | none => trivial
  | some nd => exact ⟨Nat.le_refl _, PreR.refl s, rfl, rfl⟩

theorem alloc_ts (nd : MNode) (s : PS) :
    TS AExt 0 (alloc nd) s (fun a s' => a = s.heap.length ∧ s' = { s with heap := s.heap ++ [nd] }) := by
  unfold TS alloc
  cases hg : applyAct s.heap (.alloc nd) with
  | none => trivial
  | some h' =>
    have := applyAct_alloc_some hg; subst this
    exact ⟨Nat.le_refl _, AExt.of_alloc (allocOnly_append _ _) rfl rfl rfl, rfl, rfl⟩

theorem write_ts (m a : Nat) (nd : MNode) (s : PS) : TS AnyR 0 (write m a nd) s (fun _ _ => True) := by
  unfold TS write
  cases applyAct s.heap (.write m a nd) with
  | none => trivial
  | some h' => exact ⟨Nat.le_refl _, trivial, trivial⟩

theorem layerM_ts (E : Env) (k : Nat) (s : PS) : TS AExt 0 (layerM E k) s (fun r _ => r = E.layer k) := by
  unfold TS layerM
  cases hf : E.layerFailAt s.ltick with
  | true => simp only [if_true]; exact Nat.le_refl _
  | false =>
    simp only [Bool.false_eq_true, if_false]
    exact ⟨Nat.le_refl _, AExt.of_alloc (AllocOnly.refl _) rfl rfl rfl, trivial⟩

/-- a load of a name costs at most one store load; with a sound cache the object that comes back has the
    links of the stored node of that name -/
theorem loadRef_ts (E : Env) (n : Nat) (s : PS) :
    TS AExt 1 (loadRef E n) s (fun a s' => CacheS s → ∃ nd sn, s'.heap[a]? = some nd ∧
      storeAt s.store n = some sn ∧ nd.links = expandLinks sn) := by
  unfold TS loadRef
  cases hc : (if s.useCache = true then lookupCache n s.cache else none) with
  | some a =>
    simp only []
    refine ⟨Nat.le_add_right _ _, AExt.refl s, fun hok => ?_⟩
    split at hc
    · next hu =>
      obtain ⟨nd, sn, h1, _, h3, _, _, h6⟩ := hok hu n a (lookupCache_mem hc)
      exact ⟨nd, sn, h1, h3, h6⟩
    · cases hc
  | none =>
    simp only []
    cases hf : E.failAt s.tick with
    | true => simp only [if_true]; exact Nat.le_refl _
    | false =>
      simp only [Bool.false_eq_true, if_false]
      cases hsn : (if n = 0 then none else s.store[n - 1]?) with
      | none => simp only []; exact Nat.le_refl _
      | some sn =>
        simp only []
        have hsn' : storeAt s.store n = some sn := hsn
        have hdec : decode sn n =
            { keys := sn.keys, vals := sn.vals,
              links := (if sn.links.isEmpty = true then List.replicate (sn.keys.length + 1) HLink.nil else sn.links),
              dirty := false, shared := true, owner := 0, source := some n } := rfl
        rw [← hdec]
        cases hal : applyAct s.heap (.alloc (decode sn n)) with
        | none => trivial
        | some h' =>
          have := applyAct_alloc_some hal; subst this
          simp only []
          have hself : (s.heap ++ [decode sn n])[s.heap.length]? = some (decode sn n) := getElem?_append_self _ _
          refine ⟨Nat.le_refl _, ⟨allocOnly_append _ _, rfl, ?_⟩, fun _ => ⟨decode sn n, sn, hself, hsn', rfl⟩⟩
          intro hok hu k b hkb
          have hu' : s.useCache = true := hu
          have hold : (k, b) ∈ s.cache → _ :=
            cacheInv_allocOnly (s := s) (s' := { s with heap := s.heap ++ [decode sn n] })
              (allocOnly_append _ _) rfl rfl (hok hu') k b
          simp only [hu', if_true] at hkb
          rcases List.mem_cons.mp hkb with h | h
          · injection h with h1 h2; subst h1; subst h2
            exact ⟨decode sn k, sn, hself, rfl, hsn', rfl, rfl, rfl⟩
          · exact hold h

/-- the store loads of `load`: only a name costs -/
def loadCost : HLink → Nat
  | .ref _ => 1
  | _ => 0

theorem loadCost_le (l : HLink) : loadCost l ≤ 1 := by cases l <;> simp [loadCost]

/-- `load`: a pointer costs nothing, a name at most one store load -/
theorem load_ts (E : Env) (l : HLink) (s : PS) :
    TS AExt (loadCost l) (load E l) s (fun a s' => l ≠ .nil ∧ (∀ b, l = .ptr b → a = b ∧ s' = s) ∧
      ∀ n, l = .ref n → CacheS s → ∃ nd sn, s'.heap[a]? = some nd ∧
        storeAt s.store n = some sn ∧ nd.links = expandLinks sn) := by
  cases l with
  | nil => exact TS.fail
  | ptr b =>
    exact TS.pure ⟨by simp, fun b' hb => by injection hb with hb; exact ⟨hb, rfl⟩, fun n hn => by cases hn⟩
  | ref n =>
    refine (loadRef_ts E n s).conseq (Nat.le_refl _) ?_
    intro a s' _ _ h
    exact ⟨by simp, fun b hb => (by cases hb), fun n' hn' => by injection hn' with hn'; subst hn'; exact h⟩

theorem load_ts_one (E : Env) (l : HLink) (s : PS) : TS AExt 1 (load E l) s (fun _ _ => True) :=
  (load_ts E l s).conseq (loadCost_le l) (fun _ _ _ _ _ => trivial)

theorem load_ts_ptr (E : Env) (l : HLink) (s : PS) (hl : ∀ n, l ≠ .ref n) :
    TS AExt 0 (load E l) s (fun a s' => l = .ptr a ∧ s' = s) := by
  cases l with
  | nil => exact TS.fail
  | ptr b => exact TS.pure ⟨rfl, rfl⟩
  | ref n => exact absurd rfl (hl n)

end Mast.Ptr
