import Mastverif.Lemmas.RefRows
/-! Row lemmas: `mkRow` against `T.mk`, `T.split`, `T.ins` (pure list reasoning, no sortedness). -/
namespace Mast.Ptr
open Mast.Heap

theorem mkRow_cons' (p : Bool) (c : T) (ls : List (Bool × T)) (k : Nat) (ks : List Nat) (v : Nat) (vs : List Nat)
    (h : ls ≠ []) : mkRow ((p, c) :: ls) (k :: ks) (v :: vs) = T.cons p c k v (mkRow ls ks vs) := by
  cases ls with
  | nil => exact absurd rfl h
  | cons x ls => exact mkRow_cons p c x ls k ks v vs

/-! ## `mk` -/

theorem mk_of_ne {r : T} (h : ∀ p, r ≠ T.last p T.nil) : T.mk r = r := by
  unfold T.mk
  split
  · next p => exact absurd rfl (h p)
  · rfl

theorem mk_last_nil (p : Bool) : T.mk (T.last p T.nil) = T.nil := rfl

theorem mk_last_of_ne (p : Bool) {c : T} (h : c ≠ T.nil) : T.mk (T.last p c) = T.last p c := by
  apply mk_of_ne
  intro p' h'
  injection h' with _ h2
  exact h h2

theorem mk_cons (p : Bool) (c : T) (k v : Nat) (r : T) : T.mk (T.cons p c k v r) = T.cons p c k v r := rfl

theorem mk_nil : T.mk T.nil = T.nil := rfl

/-- `mk` of a valid row with at least one entry -/
theorem mk_mkRow_entries {cs : List (Bool × T)} {ks vs : List Nat} (hl : cs.length = ks.length + 1)
    (hv : vs.length = ks.length) (hk : ks ≠ []) : T.mk (mkRow cs ks vs) = mkRow cs ks vs := by
  match cs, ks, vs, hl, hv, hk with
  | (p, c) :: x :: ls, k :: ks, v :: vs, _, _, _ => rw [mkRow_cons]; rfl
  | [_], k :: ks, _, hl, _, _ => simp at hl

/-! ## `split` -/

theorem split_mkRow : ∀ (ks : List Nat) (cs : List (Bool × T)) (vs : List Nat) (x : Nat),
    cs.length = ks.length + 1 → vs.length = ks.length →
    T.split (mkRow cs ks vs) x =
      (mkRow (cs.take (keyIdx ks x) ++ [(false, T.mk (T.split (childAt cs (keyIdx ks x)) x).1)])
          (ks.take (keyIdx ks x)) (vs.take (keyIdx ks x)),
       mkRow ((false, T.mk (T.split (childAt cs (keyIdx ks x)) x).2) :: cs.drop (keyIdx ks x + 1))
          (ks.drop (keyIdx ks x)) (vs.drop (keyIdx ks x))) := by
  intro ks
  induction ks with
  | nil =>
    intro cs vs x hl hv
    match cs, hl with
    | [(p, c)], _ =>
      simp only [mkRow_single, keyIdx, T.split, childAt, List.take_zero, List.nil_append, List.drop_nil,
        List.getElem?_cons_zero, Option.map_some, Option.getD_some, List.drop_succ_cons]
  | cons k' ks ih =>
    intro cs vs x hl hv
    match cs, vs, hl, hv with
    | (p, c) :: y :: ls, v :: vs, hl, hv =>
      rw [mkRow_cons]
      simp only [T.split, keyIdx]
      by_cases h1 : k' < x
      · simp only [h1, if_true]
        rw [ih (y :: ls) vs x (by simpa using hl) (by simpa using hv)]
        have hc : childAt ((p, c) :: y :: ls) (keyIdx ks x + 1) = childAt (y :: ls) (keyIdx ks x) := by
          simp [childAt]
        rw [hc]
        simp only [List.take_succ_cons, List.drop_succ_cons, List.cons_append]
        rw [mkRow_cons' _ _ _ _ _ _ _ (by simp)]
      · simp only [h1, if_false]
        simp only [childAt, List.take_zero, List.nil_append, List.getElem?_cons_zero, Option.map_some,
          Option.getD_some, List.drop_succ_cons, List.drop_zero, mkRow_single, mkRow_cons]

theorem split_nil (x : Nat) : T.split T.nil x = (T.nil, T.nil) := rfl

/-- `split` sees through `mk` -/
theorem mk_split_mk (r : T) (x : Nat) :
    T.mk (T.split (T.mk r) x).1 = T.mk (T.split r x).1 ∧ T.mk (T.split (T.mk r) x).2 = T.mk (T.split r x).2 := by
  by_cases h : ∃ p, r = T.last p T.nil
  · obtain ⟨p, rfl⟩ := h; simp [T.split, T.mk]
  · rw [mk_of_ne (fun p hp => h ⟨p, hp⟩)]; exact ⟨rfl, rfl⟩

/-- splitting the right half again at the same key: nothing is cut off, the half is reproduced -/
theorem split_split (c : T) (x : Nat) :
    (T.split (T.split c x).2 x).2 = (T.split c x).2 ∧ T.mk (T.split (T.split c x).2 x).1 = T.nil := by
  induction c with
  | nil => simp [T.split, T.mk]
  | last p c ih =>
    simp only [T.split]
    have h := mk_split_mk (T.split c x).2 x
    rw [h.1, h.2, ih.1, ih.2]
    exact ⟨rfl, rfl⟩
  | cons p c k v r ihc ihr =>
    simp only [T.split]
    by_cases h1 : k < x
    · simp only [h1, if_true]; exact ihr
    · simp only [h1, if_false, T.split]
      have h := mk_split_mk (T.split c x).2 x
      rw [h.1, h.2, ihc.1, ihc.2]
      exact ⟨rfl, rfl⟩

/-! ## `ins` -/

theorem ins_mkRow_zero : ∀ (ks : List Nat) (cs : List (Bool × T)) (vs : List Nat) (k v : Nat),
    cs.length = ks.length + 1 → vs.length = ks.length →
    T.ins k v 0 (mkRow cs ks vs) =
      if ks[keyIdx ks k]? = some k then some (mkRow cs ks (vs.set (keyIdx ks k) v))
      else some (mkRow (cs.take (keyIdx ks k) ++ (false, T.mk (T.split (childAt cs (keyIdx ks k)) k).1) ::
                    (false, T.mk (T.split (childAt cs (keyIdx ks k)) k).2) :: cs.drop (keyIdx ks k + 1))
                  (insertAt ks (keyIdx ks k) k) (insertAt vs (keyIdx ks k) v)) := by
  intro ks
  induction ks with
  | nil =>
    intro cs vs k v hl hv
    match cs, vs, hl, hv with
    | [(p, c)], [], _, _ =>
      simp only [mkRow_single, keyIdx, T.ins, childAt, insertAt, List.take_zero, List.nil_append, List.drop_nil,
        List.getElem?_cons_zero, Option.map_some, Option.getD_some, List.drop_succ_cons, List.getElem?_nil]
      rw [if_neg (by simp), mkRow_cons, mkRow_single]
  | cons k' ks ih =>
    intro cs vs k v hl hv
    match cs, vs, hl, hv with
    | (p, c) :: y :: ls, v' :: vs, hl, hv =>
      rw [mkRow_cons]
      simp only [T.ins, keyIdx]
      by_cases h1 : k' < k
      · simp only [h1, if_true]
        rw [ih (y :: ls) vs k v (by simpa using hl) (by simpa using hv)]
        have hc : childAt ((p, c) :: y :: ls) (keyIdx ks k + 1) = childAt (y :: ls) (keyIdx ks k) := by
          simp [childAt]
        rw [hc]
        simp only [List.getElem?_cons_succ]
        split
        · simp only [Option.map_some, List.set_cons_succ, mkRow_cons]
        · simp only [Option.map_some, List.take_succ_cons, List.drop_succ_cons, List.cons_append, insertAt]
          rw [mkRow_cons' _ _ _ _ _ _ _ (by simp)]
      · simp only [h1, if_false]
        by_cases h2 : k' = k
        · subst h2
          simp only [if_true, List.getElem?_cons_zero, List.set_cons_zero, mkRow_cons]
        · simp only [h2, if_false, List.getElem?_cons_zero, Option.some.injEq]
          simp only [childAt, insertAt, List.take_zero, List.nil_append, List.getElem?_cons_zero, Option.map_some,
            Option.getD_some, List.drop_succ_cons, List.drop_zero, mkRow_cons]

theorem ins_mkRow_succ : ∀ (ks : List Nat) (cs : List (Bool × T)) (vs : List Nat) (k v s : Nat),
    cs.length = ks.length + 1 → vs.length = ks.length →
    T.ins k v (s + 1) (mkRow cs ks vs) =
      if ks[keyIdx ks k]? = some k then none
      else (T.ins k v s (childAt cs (keyIdx ks k))).map
        (fun c' => mkRow (cs.take (keyIdx ks k) ++ (false, c') :: cs.drop (keyIdx ks k + 1)) ks vs) := by
  intro ks
  induction ks with
  | nil =>
    intro cs vs k v s hl hv
    match cs, hl with
    | [(p, c)], _ =>
      simp only [mkRow_single, keyIdx, T.ins, childAt, List.take_zero, List.nil_append, List.drop_nil,
        List.getElem?_cons_zero, Option.map_some, Option.getD_some, List.drop_succ_cons, List.getElem?_nil]
      rw [if_neg (by simp)]
  | cons k' ks ih =>
    intro cs vs k v s hl hv
    match cs, vs, hl, hv with
    | (p, c) :: y :: ls, v' :: vs, hl, hv =>
      rw [mkRow_cons]
      simp only [T.ins, keyIdx]
      by_cases h1 : k' < k
      · simp only [h1, if_true]
        rw [ih (y :: ls) vs k v s (by simpa using hl) (by simpa using hv)]
        have hc : childAt ((p, c) :: y :: ls) (keyIdx ks k + 1) = childAt (y :: ls) (keyIdx ks k) := by
          simp [childAt]
        rw [hc]
        simp only [List.getElem?_cons_succ]
        split
        · rfl
        · simp only [Option.map_map, List.take_succ_cons, List.drop_succ_cons, List.cons_append]
          congr 1
          funext c'
          simp only [Function.comp]
          rw [mkRow_cons' _ _ _ _ _ _ _ (by simp)]
      · simp only [h1, if_false]
        by_cases h2 : k' = k
        · subst h2
          simp only [if_true, List.getElem?_cons_zero]
        · simp only [h2, if_false, List.getElem?_cons_zero, Option.some.injEq]
          simp only [childAt, List.take_zero, List.nil_append, List.getElem?_cons_zero, Option.map_some,
            Option.getD_some, List.drop_succ_cons, List.drop_zero, mkRow_cons]

/-- inserting below an absent link = inserting into a fresh empty node (`follow` with `create`) -/
theorem ins_unmk (k v s : Nat) (c : T) : T.ins k v s (T.unmk c) = T.ins k v s c := by
  cases c with
  | nil =>
    cases s with
    | zero => simp [T.unmk, T.ins, T.split, T.mk, T.freshPath]
    | succ s => simp [T.unmk, T.ins, T.freshPath]
  | last p c => rfl
  | cons p c k' v' r => rfl

theorem get_unmk (k s : Nat) (c : T) : T.get k s (T.unmk c) = T.get k s c := by
  cases c with
  | nil => cases s <;> simp [T.unmk, T.get]
  | last p c => rfl
  | cons p c k' v' r => rfl

end Mast.Ptr
