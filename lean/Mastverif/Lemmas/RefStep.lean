import Mastverif.Lemmas.RefCtx
/-!
Steps that write: `Step m` (what any operation performed for tree `m` does to the state), `Shape`
(heaps that differ only in `dirty` / `source` flags and by allocation), the specification of `write`.
-/
namespace Mast.Ptr
open Mast.Heap

/-- `h'` has every object of `h`, with the same entries, links, `shared` flag and owner -/
def Shape (h h' : Heap) : Prop :=
  ∀ (a : Nat) (nd : MNode), h[a]? = some nd → ∃ nd', h'[a]? = some nd' ∧ nd'.keys = nd.keys ∧ nd'.vals = nd.vals ∧
    nd'.links = nd.links ∧ nd'.shared = nd.shared ∧ nd'.owner = nd.owner

theorem Shape.refl (h : Heap) : Shape h h := fun _ nd hnd => ⟨nd, hnd, rfl, rfl, rfl, rfl, rfl⟩

theorem Shape.trans {h1 h2 h3 : Heap} (a : Shape h1 h2) (b : Shape h2 h3) : Shape h1 h3 := by
  intro x nd hnd
  obtain ⟨nd2, h2, e1, e2, e3, e4, e5⟩ := a x nd hnd
  obtain ⟨nd3, h3, f1, f2, f3, f4, f5⟩ := b x nd2 h2
  exact ⟨nd3, h3, f1.trans e1, f2.trans e2, f3.trans e3, f4.trans e4, f5.trans e5⟩

theorem Shape.of_allocOnly {h h' : Heap} (ha : AllocOnly h h') : Shape h h' :=
  fun a nd hnd => ⟨nd, ha a nd hnd, rfl, rfl, rfl, rfl, rfl⟩

theorem Shape.length {h h' : Heap} (hs : Shape h h') : h.length ≤ h'.length := by
  cases hl : h.length with
  | zero => omega
  | succ n =>
    have hlt : n < h.length := by omega
    obtain ⟨nd', h2, _⟩ := hs n h[n] (List.getElem?_eq_getElem hlt)
    have := (List.getElem?_eq_some_iff.mp h2).1
    omega

/-- `repLink` does not read the `dirty` / `source` flags -/
theorem repLink_shape {h h' : Heap} {st : List SNode} (hs : Shape h h') :
    ∀ (f : Nat) (l : HLink) (x : Bool × T × List Nat), repLink h st f l = some x → repLink h' st f l = some x := by
  intro f
  induction f with
  | zero =>
    intro l x hx
    cases l with
    | nil => simpa using hx
    | ptr a => cases hx
    | ref n => cases hx
  | succ f ih =>
    intro l x hx
    cases l with
    | nil => simpa using hx
    | ptr b =>
      obtain ⟨f', nd, cs, hf, hnd, hv, h1, rfl⟩ := repLink_ptr_some.mp hx
      injection hf with hf; subst hf
      obtain ⟨nd', hnd', e1, e2, e3, e4, e5⟩ := hs b nd hnd
      refine repLink_ptr_some.mpr ⟨f, nd', cs, rfl, hnd', ?_, ?_, ?_⟩
      · unfold ValidN; rw [e1, e2, e3]; exact hv
      · rw [e3]; exact seqO_map_congr h1 (fun l _ c hc => ih l c hc)
      · simp only [ownFp, e1, e2, e4]
    | ref n =>
      obtain ⟨f', sn, cs, hf, hsn, hv, h1, rfl⟩ := repLink_ref_some.mp hx
      injection hf with hf; subst hf
      exact repLink_ref_some.mpr ⟨f, sn, cs, rfl, hsn, hv, seqO_map_congr h1 (fun l _ c hc => ih l c hc), rfl⟩

theorem Ctx.shape {h h' : Heap} {st : List SNode} (hs : Shape h h') :
    ∀ {p : List (Nat × Nat)} {frs : List Fr}, Ctx h st p frs → Ctx h' st p frs := by
  intro p
  induction p with
  | nil => intro frs hc; cases frs <;> exact hc.elim
  | cons x p ih =>
    intro frs hc
    cases p with
    | nil =>
      cases frs with
      | nil => trivial
      | cons _ _ => exact hc.elim
    | cons y rest =>
      cases frs with
      | nil => exact hc.elim
      | cons fr frs =>
        obtain ⟨a, i⟩ := x
        obtain ⟨b, j⟩ := y
        obtain ⟨⟨nd, g, hnd, hv, hown, hks, hvs, hi, hilt, hL, hR⟩, hrest⟩ := hc
        obtain ⟨nd', hnd', e1, e2, e3, e4, e5⟩ := hs a nd hnd
        refine ⟨⟨nd', g, hnd', ?_, ?_, by rw [e1]; exact hks, by rw [e2]; exact hvs, hi, by rw [e3]; exact hilt, ?_, ?_⟩,
          ih hrest⟩
        · unfold ValidN; rw [e1, e2, e3]; exact hv
        · rw [hown]; simp only [ownFp, e4]
        · rw [e3]; exact seqO_map_congr hL (fun l _ c hc => repLink_shape hs g l c hc)
        · rw [e3]; exact seqO_map_congr hR (fun l _ c hc => repLink_shape hs g l c hc)

/-! ## steps performed for tree `m` -/

structure Step (m : Nat) (s s' : PS) : Prop where
  len : s.heap.length ≤ s'.heap.length
  store : s'.store = s.store
  good : Good s → Good s'
  /-- what was allocated is shared or belongs to `m` -/
  fresh : ∀ (a : Nat) (nd : MNode), s.heap.length ≤ a → s'.heap[a]? = some nd → nd.shared = true ∨ nd.owner = m
  /-- objects keep owner and `shared` flag; what is shared or foreign is not touched -/
  keep : ∀ (a : Nat) (nd : MNode), s.heap[a]? = some nd → ∃ nd', s'.heap[a]? = some nd' ∧ nd'.owner = nd.owner ∧
    nd'.shared = nd.shared ∧ ((nd.shared = true ∨ nd.owner ≠ m) → nd' = nd)

theorem Step.refl (m : Nat) (s : PS) : Step m s s :=
  ⟨Nat.le_refl _, rfl, fun h => h, fun a nd hl hnd => by have := (List.getElem?_eq_some_iff.mp hnd).1; omega,
   fun a nd hnd => ⟨nd, hnd, rfl, rfl, fun _ => rfl⟩⟩

theorem Step.trans {m : Nat} {s1 s2 s3 : PS} (a : Step m s1 s2) (b : Step m s2 s3) : Step m s1 s3 := by
  refine ⟨Nat.le_trans a.len b.len, by rw [b.store, a.store], fun h => b.good (a.good h), ?_, ?_⟩
  · intro x nd hl hnd
    by_cases hx : s2.heap.length ≤ x
    · exact b.fresh x nd hx hnd
    · have hlt : x < s2.heap.length := by omega
      obtain ⟨nd', h2, e1, e2, _⟩ := b.keep x _ (List.getElem?_eq_getElem hlt)
      rw [hnd] at h2; injection h2 with h2; subst h2
      rw [e1, e2]
      exact a.fresh x _ hl (List.getElem?_eq_getElem hlt)
  · intro x nd hnd
    obtain ⟨nd2, h2, e1, e2, e3⟩ := a.keep x nd hnd
    obtain ⟨nd3, h3, f1, f2, f3⟩ := b.keep x nd2 h2
    refine ⟨nd3, h3, f1.trans e1, f2.trans e2, fun hc => ?_⟩
    have := e3 hc; subst this
    exact f3 hc

instance (m : Nat) : PreR (Step m) := ⟨Step.refl m, Step.trans⟩

theorem Grow.toStep {m : Nat} {s s' : PS} (g : Grow m s s') : Step m s s' :=
  ⟨g.length, g.store, g.good, g.fresh, fun a nd hnd => ⟨nd, g.alloc a nd hnd, rfl, rfl, fun _ => rfl⟩⟩

theorem Spec.mono {α : Type} {R R' : PS → PS → Prop} {x : M α} {s : PS} {Q : α → PS → Prop}
    (hx : Spec R x s Q) (hr : ∀ s', R s s' → R' s s') : Spec R' x s Q := by
  unfold Spec at hx ⊢
  cases hxs : x s with
  | ok a s1 => rw [hxs] at hx; exact ⟨hr _ hx.1, hx.2⟩
  | err s1 => rw [hxs] at hx; exact hr _ hx
  | stuck => trivial
  | panic => trivial
  | oof => trivial

theorem Spec.toStep {α : Type} {m : Nat} {x : M α} {s : PS} {Q : α → PS → Prop}
    (hx : Spec (Grow m) x s Q) : Spec (Step m) x s Q := hx.mono (fun _ h => h.toStep)

/-- `write`: the guard held, the heap is updated at `a` -/
theorem write_spec {m : Nat} (a : Nat) (nd : MNode) (s : PS) :
    Spec (Step m) (write m a nd) s (fun _ s' => ∃ old, s.heap[a]? = some old ∧ old.owner = m ∧ old.shared = false ∧
      nd.owner = m ∧ nd.shared = false ∧ m ≠ 0 ∧ s' = { s with heap := s.heap.set a nd }) := by
  unfold Spec write
  cases ho : s.heap[a]? with
  | none => simp [applyAct, ho]
  | some old =>
    simp only [applyAct, ho]
    by_cases hc : old.owner = m ∧ old.shared = false ∧ nd.owner = m ∧ nd.shared = false ∧
        nd.links.all (linkOK s.heap m) = true ∧ m ≠ 0
    · rw [if_pos hc]
      obtain ⟨c1, c2, c3, c4, _, c6⟩ := hc
      simp only
      have hlt : a < s.heap.length := (List.getElem?_eq_some_iff.mp ho).1
      refine ⟨⟨by simp, rfl, ?_, ?_, ?_⟩, old, rfl, c1, c2, c3, c4, c6, trivial⟩
      · intro hg
        refine hg.step (s' := { s with heap := s.heap.set a nd }) ?_ (sharedFlat_set hg.sflat c4)
          (du_set hg.du (fun _ => c4)) [] (by simp) hg.flat rfl
        intro b x hx hs
        have hba : b ≠ a := by
          intro h; subst h; rw [ho] at hx; injection hx with hx; subst hx; rw [c2] at hs; cases hs
        show (s.heap.set a nd)[b]? = some x
        rw [List.getElem?_set_ne (Ne.symm hba)]; exact hx
      · intro b x hl hx
        have : b < (s.heap.set a nd).length := (List.getElem?_eq_some_iff.mp hx).1
        simp at this; omega
      · intro b x hx
        by_cases hba : b = a
        · subst hba
          rw [ho] at hx; injection hx with hx; subst hx
          refine ⟨nd, List.getElem?_set_self hlt, by rw [c3, c1], by rw [c4, c2], ?_⟩
          rintro (h | h)
          · rw [c2] at h; cases h
          · exact absurd c1 h
        · exact ⟨x, by show (s.heap.set a nd)[b]? = some x; rw [List.getElem?_set_ne (Ne.symm hba)]; exact hx,
            rfl, rfl, fun _ => rfl⟩
    · rw [if_neg hc]; trivial

end Mast.Ptr
