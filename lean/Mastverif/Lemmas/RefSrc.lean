import Mastverif.Lemmas.RefLoad
/-!
The `source` discipline `SourceOK` (needed by `flush`, which trusts `source` on clean nodes): an unshared object has no
source name; a shared object with a source name is the decoding of the stored node of that name.
This file: the invariant, the relation `SrcR` (= "`SourceOK` is preserved"), the state-independent judgement
`SrcP x` ("program `x` preserves `SourceOK` from every state, on `.ok` and on `.err`"), primitives, loads, and the
programs of the plan phase of `Insert`.
-/
namespace Mast.Ptr
open Mast.Heap

structure SourceOK (s : PS) : Prop where
  unsh : ∀ (a : Nat) (nd : MNode), s.heap[a]? = some nd → nd.shared = false → nd.source = none
  sh : ∀ (a : Nat) (nd : MNode) (n : Nat), s.heap[a]? = some nd → nd.shared = true → nd.source = some n →
    ∃ sn, storeAt s.store n = some sn ∧ nd.keys = sn.keys ∧ nd.vals = sn.vals ∧ nd.links = expandLinks sn

def SrcR (s s' : PS) : Prop := SourceOK s → SourceOK s'

instance : PreR SrcR := ⟨fun _ h => h, fun a b h => b (a h)⟩

/-- `x` preserves `SourceOK`, whatever the start state -/
def SrcP {α : Type} (x : M α) : Prop := ∀ s, Spec SrcR x s (fun _ _ => True)

theorem SrcP.bind {α β : Type} {x : M α} {f : α → M β} (hx : SrcP x) (hf : ∀ a, SrcP (f a)) : SrcP (x >>= f) :=
  fun s => Spec.bind (hx s) (fun a s1 _ _ _ => hf a s1)

theorem SrcP.pure {α : Type} (a : α) : SrcP (Pure.pure a : M α) := fun _ => Spec.pure trivial
theorem SrcP.panic {α : Type} : SrcP (panicE : M α) := fun _ => Spec.panic
theorem SrcP.oof {α : Type} : SrcP (oofE : M α) := fun _ => Spec.oof
theorem SrcP.fail {α : Type} : SrcP (failE : M α) := fun _ => Spec.fail

theorem SrcP.ok {α : Type} {x : M α} (hx : SrcP x) {s s' : PS} {a : α} (h : x s = .ok a s') (hs : SourceOK s) : SourceOK s' :=
  ((hx s).ok h).1 hs

theorem SrcP.err {α : Type} {x : M α} (hx : SrcP x) {s s' : PS} (h : x s = .err s') (hs : SourceOK s) : SourceOK s' :=
  (hx s).err h hs

theorem SrcP.of_spec {α : Type} {x : M α} (h : ∀ s, ∃ Q, Spec SrcR x s Q) : SrcP x := by
  intro s
  obtain ⟨Q, hq⟩ := h s
  exact hq.conseq (fun _ _ _ _ _ => trivial)

theorem read_src (a : Nat) : SrcP (read a) := fun s => (read_spec a s).conseq (fun _ _ _ _ _ => trivial)

/-- only counters / the cache changed -/
theorem sourceOK_of_eq {s s' : PS} (hh : s'.heap = s.heap) (hs : s'.store = s.store) (h : SourceOK s) : SourceOK s' :=
  ⟨fun a nd hnd => h.unsh a nd (by rw [← hh]; exact hnd), fun a nd n hnd => by
    rw [hs]; exact h.sh a nd n (by rw [← hh]; exact hnd)⟩

theorem sourceOK_append {s : PS} {nd : MNode} (h : SourceOK s) (h1 : nd.shared = false → nd.source = none)
    (h2 : nd.shared = true → ∀ n, nd.source = some n →
      ∃ sn, storeAt s.store n = some sn ∧ nd.keys = sn.keys ∧ nd.vals = sn.vals ∧ nd.links = expandLinks sn)
    (c : List (Nat × Nat)) (tk : Nat) :
    SourceOK { s with heap := s.heap ++ [nd], cache := c, tick := tk } := by
  refine ⟨?_, ?_⟩
  · intro a x hx
    rcases getElem?_append_single hx with hx | ⟨_, rfl⟩
    · exact h.unsh a x hx
    · exact h1
  · intro a x n hx
    rcases getElem?_append_single hx with hx | ⟨_, rfl⟩
    · exact h.sh a x n hx
    · exact fun hs => h2 hs n

/-- allocation of an unshared object without source name -/
theorem alloc_src (nd : MNode) (hs : nd.shared = false) (hsrc : nd.source = none) : SrcP (alloc nd) := by
  intro s
  unfold Spec alloc
  cases hg : applyAct s.heap (.alloc nd) with
  | none => trivial
  | some h' =>
    have := applyAct_alloc_some hg; subst this
    refine ⟨fun h => ?_, trivial⟩
    exact sourceOK_append h (fun _ => hsrc) (fun h1 => by rw [hs] at h1; cases h1) s.cache s.tick

theorem sourceOK_set {s : PS} {a : Nat} {old nd : MNode} (h : SourceOK s) (ho : s.heap[a]? = some old)
    (hos : old.shared = false) (hns : nd.shared = false) (hsrc : nd.source = none ∨ nd.source = old.source) :
    SourceOK { s with heap := s.heap.set a nd } := by
  have hn : nd.source = none := by
    rcases hsrc with h1 | h1
    · exact h1
    · rw [h1]; exact h.unsh a old ho hos
  refine ⟨?_, ?_⟩
  · intro b x hx _
    rcases getElem?_set_cases hx with ⟨_, rfl⟩ | ⟨_, hx⟩
    · exact hn
    · exact h.unsh b x hx ‹_›
  · intro b x n hx hsx
    rcases getElem?_set_cases hx with ⟨_, rfl⟩ | ⟨_, hx⟩
    · rw [hns] at hsx; cases hsx
    · exact h.sh b x n hx hsx

/-- a write whose new content has no source name, or the source name of the old content -/
theorem write_src_at (m a : Nat) (nd : MNode) (s : PS)
    (hsrc : ∀ old, s.heap[a]? = some old → nd.source = none ∨ nd.source = old.source) :
    Spec SrcR (write m a nd) s (fun _ _ => True) := by
  unfold Spec write
  cases ho : s.heap[a]? with
  | none => simp [applyAct, ho]
  | some old =>
    simp only [applyAct, ho]
    by_cases hc : old.owner = m ∧ old.shared = false ∧ nd.owner = m ∧ nd.shared = false ∧
        nd.links.all (linkOK s.heap m) = true ∧ m ≠ 0
    · rw [if_pos hc]
      obtain ⟨_, c2, _, c4, _, _⟩ := hc
      exact ⟨fun h => sourceOK_set h ho c2 c4 (hsrc old ho), trivial⟩
    · rw [if_neg hc]; trivial

theorem write_src (m a : Nat) (nd : MNode) (hsrc : nd.source = none) : SrcP (write m a nd) :=
  fun s => write_src_at m a nd s (fun _ _ => Or.inl hsrc)

theorem layerM_src (E : Env) (k : Nat) : SrcP (layerM E k) := by
  intro s
  unfold Spec layerM
  cases hf : E.layerFailAt s.ltick with
  | true => simp only [if_true]; exact fun h => sourceOK_of_eq (s := s) rfl rfl h
  | false => simp only [Bool.false_eq_true, if_false]; exact ⟨fun h => sourceOK_of_eq (s := s) rfl rfl h, trivial⟩

theorem loadRef_src (E : Env) (n : Nat) : SrcP (loadRef E n) := by
  intro s
  unfold Spec loadRef
  cases hc : (if s.useCache = true then lookupCache n s.cache else none) with
  | some a => simp only []; exact ⟨fun h => h, trivial⟩
  | none =>
    simp only []
    cases hf : E.failAt s.tick with
    | true => simp only [if_true]; exact fun h => sourceOK_of_eq (s := s) rfl rfl h
    | false =>
      simp only [Bool.false_eq_true, if_false]
      cases hsn : (if n = 0 then none else s.store[n - 1]?) with
      | none => simp only []; exact fun h => sourceOK_of_eq (s := s) rfl rfl h
      | some sn =>
        simp only []
        have hsn' : storeAt s.store n = some sn := hsn
        have hdec : decode sn n =
            { keys := sn.keys, vals := sn.vals,
              links := (if sn.links.isEmpty = true then List.replicate (sn.keys.length + 1) HLink.nil else sn.links),
              dirty := false, shared := true, owner := 0, source := some n } := rfl
        rw [← hdec]
        cases hal : applyAct s.heap (.alloc (decode sn n)) with
        | none => trivial
        | some h' =>
          have := applyAct_alloc_some hal; subst this
          simp only []
          refine ⟨fun h => ?_, trivial⟩
          refine sourceOK_append (s := s) (nd := decode sn n) h (fun h1 => by cases h1) (fun _ k hk => ?_) _ _
          simp only [decode, Option.some.injEq] at hk
          subst hk
          exact ⟨sn, hsn', rfl, rfl, rfl⟩

theorem load_src (E : Env) (l : HLink) : SrcP (load E l) := by
  cases l with
  | nil => exact SrcP.fail
  | ptr a => exact SrcP.pure a
  | ref n => exact loadRef_src E n

theorem emptyNode_src (m : Nat) : SrcP (alloc (emptyNode m)) := alloc_src _ rfl rfl

theorem toMut_src (m a : Nat) : SrcP (toMut m a) := by
  unfold toMut
  refine SrcP.bind (read_src a) (fun nd => ?_)
  split
  · exact SrcP.panic
  · split
    · exact SrcP.pure _
    · exact alloc_src _ rfl rfl

theorem follow_src (E : Env) (m a i : Nat) (create : Bool) : SrcP (follow E m a i create) := by
  unfold follow
  refine SrcP.bind (read_src a) (fun nd => ?_)
  split
  · exact SrcP.panic
  · split
    · exact emptyNode_src m
    · exact SrcP.pure _
  · exact load_src E _

theorem findNode_src (E : Env) (m key target : Nat) (create : Bool) :
    ∀ (f a cur : Nat) (path : List (Nat × Nat)), SrcP (findNode E m key target create f a cur path) := by
  intro f
  induction f with
  | zero => intro a cur path; exact SrcP.oof
  | succ f ih =>
    intro a cur path
    unfold findNode
    refine SrcP.bind (read_src a) (fun nd => ?_)
    split
    · exact SrcP.panic
    · dsimp only
      split
      · exact SrcP.pure _
      · exact SrcP.bind (follow_src E m a _ create) (fun c => ih c _ _)

theorem linkNew_src (nd : MNode) (hs : nd.shared = false) (hsrc : nd.source = none) : SrcP (linkNew nd) := by
  unfold linkNew
  split
  · exact SrcP.pure _
  · exact SrcP.bind (alloc_src nd hs hsrc) (fun a => SrcP.pure _)

theorem split_src (E : Env) (m key : Nat) : ∀ (f a : Nat), SrcP (split E m key f a) := by
  intro f
  induction f with
  | zero => intro a; exact SrcP.oof
  | succ f ih =>
    intro a
    unfold split
    refine SrcP.bind (read_src a) (fun nd => ?_)
    split
    · exact SrcP.panic
    · dsimp only
      split
      · exact SrcP.panic
      · next leftMax _ =>
        refine SrcP.bind ?_ (fun r => ?_)
        · split
          · exact SrcP.pure _
          · exact SrcP.bind (load_src E _) (fun c => ih c)
        · obtain ⟨lm, tooBig⟩ := r
          dsimp only
          refine SrcP.bind (linkNew_src _ rfl rfl) (fun leftLink => ?_)
          split
          · exact SrcP.panic
          · refine SrcP.bind ?_ (fun r2 => ?_)
            · split
              · exact SrcP.pure _
              · exact SrcP.bind (load_src E _) (fun c => ih c)
            · obtain ⟨tooSmall, rm⟩ := r2
              dsimp only
              split
              · exact SrcP.panic
              · exact SrcP.bind (linkNew_src _ rfl rfl) (fun _ => SrcP.pure _)

end Mast.Ptr
