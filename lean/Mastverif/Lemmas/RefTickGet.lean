import Mastverif.Lemmas.RefTick
/-!
# Store loads of `LoadMast`, `Clone` and `Get` — no hypothesis on the state

* `loadMast`, `clone`: at most one store load (the top node);
* `get`: at most `1 + (height - min (layer key) height) ≤ height + 1` store loads.

For every start state, environment (faults included: a failing load counts), fuel, and outcome that carries a
state.  Nothing is assumed about the heap, the store or the cache.
-/
namespace Mast.Ptr
open Mast.Heap

/-- the bound of a triple, in the form "for every outcome that carries a state" -/
theorem TS.bounds {α : Type} {R : PS → PS → Prop} {x : M α} {s : PS} {n : Nat} {Q : α → PS → Prop}
    (hx : TS R n x s Q) :
    (∀ a s', x s = .ok a s' → s'.tick ≤ s.tick + n) ∧ (∀ s', x s = .err s' → s'.tick ≤ s.tick + n) :=
  ⟨fun _ _ h => (hx.ok h).1, fun _ h => hx.err h⟩

def Tr {α : Type} : α → PS → Prop := fun _ _ => True

/-! ## LoadMast -/

theorem loadMast_ts (E : Env) (id link size height bf : Nat) (s : PS) :
    TS AnyR 1 (loadMast E id link size height bf) s Tr := by
  unfold loadMast
  refine TS.bind (a := 1) (b := 0) (Q1 := Tr) ?_ (fun _ _ _ _ _ => TS.pure trivial) (Nat.le_refl _)
  split
  · exact TS.bind (a := 0) (b := 0) (alloc_ts _ s).any (fun _ _ _ _ _ => TS.pure trivial) (by omega)
  · exact TS.bind (a := 1) (b := 0) (loadRef_ts E link s).any (fun _ _ _ _ _ => TS.pure trivial) (by omega)

/-- **C16, opening**: `LoadMast` performs at most one store load -/
theorem loadMast_tick (E : Env) (id link size height bf : Nat) (s : PS) :
    (∀ t s', loadMast E id link size height bf s = .ok t s' → s'.tick ≤ s.tick + 1) ∧
    (∀ s', loadMast E id link size height bf s = .err s' → s'.tick ≤ s.tick + 1) :=
  (loadMast_ts E id link size height bf s).bounds

/-! ## Clone: `toShared` copies objects, it does not load -/

theorem mapLinks_ts (g : Nat → M Nat) (hg : ∀ c s, TS AnyR 0 (g c) s Tr) :
    ∀ (ls : List HLink) (s : PS), TS AnyR 0 (mapLinks g ls) s Tr := by
  intro ls
  induction ls with
  | nil => intro s; exact TS.pure trivial
  | cons l ls ih =>
    intro s
    cases l with
    | nil =>
      simp only [mapLinks]
      exact TS.bind (a := 0) (b := 0) (ih s) (fun _ _ _ _ _ => TS.pure trivial) (by omega)
    | ref n =>
      simp only [mapLinks]
      exact TS.bind (a := 0) (b := 0) (ih s) (fun _ _ _ _ _ => TS.pure trivial) (by omega)
    | ptr c =>
      simp only [mapLinks]
      refine TS.bind (a := 0) (b := 0) (read_ts c s) ?_ (by omega)
      intro cn s1 _ _ _
      refine TS.bind (a := 0) (b := 0) (Q1 := Tr) ?_ ?_ (by omega)
      · split
        · exact TS.pure trivial
        · exact TS.bind (a := 0) (b := 0) (hg c s1) (fun _ _ _ _ _ => TS.pure trivial) (by omega)
      · intro _ s2 _ _ _
        exact TS.bind (a := 0) (b := 0) (ih s2) (fun _ _ _ _ _ => TS.pure trivial) (by omega)

theorem toShared_ts (newId : Nat) : ∀ (f a : Nat) (s : PS), TS AnyR 0 (toShared newId f a) s Tr := by
  intro f
  induction f with
  | zero => intro a s; exact TS.oof
  | succ f ih =>
    intro a s
    unfold toShared
    refine TS.bind (a := 0) (b := 0) (read_ts a s) ?_ (by omega)
    intro nd s1 _ _ _
    split
    · exact TS.pure trivial
    · refine TS.bind (a := 0) (b := 0) (mapLinks_ts _ (fun c s' => ih c s') nd.links s1) ?_ (by omega)
      intro links' s2 _ _ _
      exact (alloc_ts _ s2).any.conseq (Nat.le_refl _) (fun _ _ _ _ _ => trivial)

theorem clone_ts (E : Env) (t : PTree) (newId fuel : Nat) (s : PS) : TS AnyR 1 (clone E t newId fuel) s Tr := by
  unfold clone
  split
  · exact TS.pure trivial
  · refine TS.bind (a := 1) (b := 0) (load_ts_one E t.root s).any ?_ (by omega)
    intro a s1 _ _ _
    exact TS.bind (a := 0) (b := 0) (toShared_ts newId fuel a s1) (fun _ _ _ _ _ => TS.pure trivial) (by omega)

/-- **C16, cloning**: `Clone` performs at most one store load (the top node, when the root is a name) -/
theorem clone_tick (E : Env) (t : PTree) (newId fuel : Nat) (s : PS) :
    (∀ t' s', clone E t newId fuel s = .ok t' s' → s'.tick ≤ s.tick + 1) ∧
    (∀ s', clone E t newId fuel s = .err s' → s'.tick ≤ s.tick + 1) :=
  (clone_ts E t newId fuel s).bounds

/-! ## Get -/

theorem follow_ts (E : Env) (m a i : Nat) (create : Bool) (s : PS) : TS AnyR 1 (follow E m a i create) s Tr := by
  unfold follow
  refine TS.bind (a := 0) (b := 1) (read_ts a s) ?_ (by omega)
  intro nd s1 _ _ _
  split
  · exact TS.panic
  · split
    · exact (alloc_ts _ s1).any.conseq (by omega) (fun _ _ _ _ _ => trivial)
    · exact TS.pure trivial
  · exact (load_ts_one E _ s1).any

/-- the descent: one `follow` per level between `cur` and `target`, also when the key is met early, also
    when the descent runs into an absent link (it then stays on the same node) -/
theorem findNode_ts (E : Env) (m key target : Nat) (create : Bool) :
    ∀ (f a cur : Nat) (path : List (Nat × Nat)) (s : PS), target ≤ cur →
      TS AnyR (cur - target) (findNode E m key target create f a cur path) s Tr := by
  intro f
  induction f with
  | zero => intro a cur path s _; exact TS.oof
  | succ f ih =>
    intro a cur path s htc
    unfold findNode
    refine TS.bind (a := 0) (b := cur - target) (read_ts a s) ?_ (by omega)
    intro nd s1 _ _ _
    split
    · exact TS.panic
    · dsimp only
      split
      · exact TS.pure trivial
      · next hcont =>
        have hct : cur ≠ target := fun h => hcont (Or.inr h)
        refine TS.bind (a := 1) (b := cur - 1 - target) (follow_ts E m a _ create s1) ?_ (by omega)
        intro c s2 _ _ _
        exact ih c (cur - 1) _ s2 (by omega)

theorem get_ts (E : Env) (t : PTree) (fuel key : Nat) (s : PS) :
    TS AnyR (1 + (t.height - min (E.layer key) t.height)) (get E t fuel key) s Tr := by
  unfold get
  split
  · exact TS.pure trivial
  · refine TS.bind (a := 1) (b := t.height - min (E.layer key) t.height) (load_ts_one E t.root s).any ?_ (by omega)
    intro a s1 _ _ _
    refine TS.bind (a := 0) (b := t.height - min (E.layer key) t.height) (layerM_ts E key s1).any ?_ (by omega)
    rintro lay s2 _ _ rfl
    refine TS.bind (a := t.height - min (E.layer key) t.height) (b := 0)
      (findNode_ts E t.id key (min (E.layer key) t.height) false fuel a t.height [] s2 (Nat.min_le_right _ _)) ?_
      (by omega)
    intro fd s3 _ _ _
    refine TS.bind (a := 0) (b := 0) (read_ts fd.node s3) ?_ (by omega)
    intro nd s4 _ _ _
    split
    · exact TS.pure trivial
    · split
      · exact TS.pure trivial
      · exact TS.pure trivial

/-- **C16, lookup**: `Get` performs at most `height + 1` store loads — in every state, with or without
    cache, with any fault oracle (precisely: the top node and one node per level down to the key's layer) -/
theorem get_tick (E : Env) (t : PTree) (fuel key : Nat) (s : PS) :
    (∀ r s', get E t fuel key s = .ok r s' → s'.tick ≤ s.tick + t.height + 1) ∧
    (∀ s', get E t fuel key s = .err s' → s'.tick ≤ s.tick + t.height + 1) := by
  have h := (get_ts E t fuel key s).bounds
  exact ⟨fun r s' hr => by have := h.1 r s' hr; omega, fun s' hr => by have := h.2 s' hr; omega⟩

/-- the sharper form: a key of layer `≥ height` is answered from the top node alone -/
theorem get_tick_layer (E : Env) (t : PTree) (fuel key : Nat) (s : PS) :
    (∀ r s', get E t fuel key s = .ok r s' → s'.tick ≤ s.tick + 1 + (t.height - E.layer key)) ∧
    (∀ s', get E t fuel key s = .err s' → s'.tick ≤ s.tick + 1 + (t.height - E.layer key)) := by
  have h := (get_ts E t fuel key s).bounds
  have hm : t.height - min (E.layer key) t.height = t.height - E.layer key := by omega
  exact ⟨fun r s' hr => by have := h.1 r s' hr; omega, fun s' hr => by have := h.2 s' hr; omega⟩

end Mast.Ptr
