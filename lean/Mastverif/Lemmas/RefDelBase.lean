import Mastverif.Lemmas.RefRelink
/-!
Delete, base definitions: what the top of a path denotes when the bottom denotes `x` and every node that
became empty is pruned (`relink` writes `.nil` for an empty child; `T.mk` in `T.del`).
-/
namespace Mast.Ptr
open Mast.Heap

/-- the row on top of a path whose bottom row is `r`, every child below the top passing through `T.mk` -/
def plugDel : List Fr → T → T
  | [], r => r
  | fr :: frs, r => fr.plugRow (T.mk (plugDel frs r))

/-- a child result as the parent sees it after pruning: an empty node is the absent link -/
def pruneRep (z : Bool × T × List Nat) : Bool × T × List Nat :=
  if T.mk z.2.1 = T.nil then (false, T.nil, []) else z

/-- what the top of the path denotes after `relink` (with pruning); the top itself is never pruned -/
def topRep : List Fr → (Bool × T × List Nat) → (Bool × T × List Nat)
  | [], x => x
  | fr :: frs, x => fr.plug (pruneRep (topRep frs x))

/-- two specifications of the same run -/
theorem Spec.and {α : Type} {R : PS → PS → Prop} {x : M α} {s : PS} {Q1 Q2 : α → PS → Prop}
    (h1 : Spec R x s Q1) (h2 : Spec R x s Q2) : Spec R x s (fun a s' => Q1 a s' ∧ Q2 a s') := by
  unfold Spec at h1 h2 ⊢
  cases hxs : x s with
  | ok a s1 => rw [hxs] at h1 h2; exact ⟨h1.1, h1.2, h2.2⟩
  | err s1 => rw [hxs] at h1; exact h1
  | stuck => trivial
  | panic => trivial
  | oof => trivial

end Mast.Ptr
