import Mastverif.Lemmas.RefFlush
import Mastverif.Lemmas.RefCloneTop
import Mastverif.Lemmas.RefIter
/-!
Preparation for the history-level theorem: `get` as an allocation-only step, the hypotheses that stand for the
`delete` refinement (proved elsewhere), and the functional specification `FStep` of one call of `Sys.apply`.
-/
namespace Mast.Ptr
open Mast.Heap

/-- `Get` is an allocation-only step (this is the first half of the proof of `get_refines`, exported) -/
theorem get_spec (E : Env) (t : PTree) (fuel key g : Nat) (s : PS) (A : Tree)
    (hg : Good s) (hA : repTree s g t = some A) :
    Spec (Grow t.id) (get E t fuel key) s (fun r _ => r = Tree.lookup E.layer A key) := by
  obtain ⟨x, hx, hxnd, hAeq⟩ := repTree_eq_some.mp hA
  unfold get
  split
  · next hr =>
    refine Spec.pure ?_
    rw [hr] at hx; simp at hx; subst hx
    rw [hAeq]
    simp only [Tree.lookup, treeRec, T.unmk]
    cases (Tree.levels E.layer _ key) <;> simp [T.get]
  · next hr =>
    have hrn : T.unmk x.2.1 = x.2.1 := unmk_of_ne_nil (repLink_row_ne_nil hx hr)
    refine Spec.bind (load_spec (m := t.id) E t.root s hg) ?_
    rintro a s1 _ hgr1 ⟨_, _, hld⟩
    have hxa := hld g _ hx
    refine Spec.bind (layerM_spec (m := t.id) E key s1) ?_
    rintro lay s2 _ hgr2 rfl
    have hxa2 := hgr2.rep hxa
    have hg2 := hgr2.good (hgr1.good hg)
    refine Spec.bind (findNode_get (m := t.id) E key (min (E.layer key) t.height) fuel a t.height []
      s2 g _ hg2 (Nat.min_le_right _ _) hxa2) ?_
    rintro fd s3 _ hgr3 ⟨nd, hnd, hans⟩
    refine Spec.bind (read_spec fd.node s3) ?_
    rintro nd' s4 _ _ ⟨rfl, hnd'⟩
    rw [hnd] at hnd'; injection hnd' with hnd'; subst hnd'
    have hlook : Tree.lookup E.layer A key = T.get key (t.height - min (E.layer key) t.height) x.2.1 := by
      rw [hAeq]; simp [Tree.lookup, Tree.levels, treeRec, hrn]
    rw [hlook, ← hans]
    unfold getAns
    split
    · exact Spec.pure rfl
    · split
      · exact Spec.pure rfl
      · exact Spec.pure rfl

/-- the calls the history theorem covers: a loaded tree needs `2 ≤ bf` (`Thresh` / `Healthy`, see the finding of
    task A: with `bf < 2` the two models disagree) -/
def OpCovered : Op → Prop
  | .load _ _ _ bf => 2 ≤ bf
  | _ => True

instance (op : Op) : Decidable (OpCovered op) := by
  cases op <;> unfold OpCovered <;> infer_instance

/-! ## functional specification of one call -/

/-- the row a name denotes in a store (names do not depend on the heap) -/
def NameRow (st : List SNode) (n : Nat) (r : T) : Prop := ∃ g x, repLink [] st g (.ref n) = some x ∧ x.2.1 = r

theorem NameRow.append {st : List SNode} {n : Nat} {r : T} (h : NameRow st n r) (ext : List SNode) :
    NameRow (st ++ ext) n r := by
  obtain ⟨g, x, hx, hr⟩ := h
  exact ⟨g, x, repLink_store_append ext hx, hr⟩

/-- the functional tree after `flush` -/
def flushTree (A : Tree) : Tree := if Tree.isEmptyTop A.root then { A with dirty := false } else flushedTree A

/-- what one call does to the list of functional trees; `st` / `st'` = table of stored contents before / after -/
def FStep (layer : Nat → Nat) (st st' : List SNode) (As : List Tree) : Op → Outcome → List Tree → Prop
  | .ins i k v, o, As' =>
    match As[i]? with
    | none => As' = As
    | some A =>
      match o with
      | .ok => ∃ A', Tree.insert layer A k v = .ok A' ∧ As' = As.set i A'
      | _ => As' = As ∨ ∃ r, Tree.lookup layer A k = none ∧ T.ins k v (A.levels layer k) A.root = some r ∧
              As' = As.set i { A with root := r, rootP := false, dirty := true }
  | .del i k v, o, As' =>
    match As[i]? with
    | none => As' = As
    | some A =>
      match o with
      | .ok => ∃ A', As' = As.set i A' ∧
          (Tree.delete layer A k v = .ok A' ∨
           -- the tree was emptied by the height reduction (root link nil at the object level): the functional model
           -- keeps `dirty = true` and goes on shrinking (finding F1 / F3 of the delete refinement)
           (A'.root = T.last false T.nil ∧ A'.dirty = false ∧
            Tree.delete layer A k v = .ok (Tree.shrinkLoop (A'.height + 1) { A' with dirty := true })))
      | _ => As' = As ∨ ∃ r, Tree.lookup layer A k = some v ∧ T.del k (A.levels layer k) A.root = some r ∧
              As' = As.set i (delRec A r)
  | .get _ _, _, As' => As' = As
  | .iter _, _, As' => As' = As
  | .flush i, o, As' =>
    match As[i]?, o with
    | some A, .ok => As' = As.set i (flushTree A) ∧
        (Tree.isEmptyTop A.root = false → ∃ n, NameRow st' n (flushedTree A).root)
    | _, _ => As' = As
  | .clone i, o, As' =>
    match As[i]?, o with
    | some A, .ok => As' = As ++ [{ A with rootP := false }]
    | _, _ => As' = As
  | .load link size height bf, o, As' =>
    match o with
    | .ok => if link = 0 then As' = As ++ [loadedTree false (T.last false T.nil) size height bf]
             else ∃ r, NameRow st link r ∧ As' = As ++ [loadedTree true r size height bf]
    | _ => As' = As

/-- a history at the functional level (outcomes `.ok` / `.err` only; the store only grows) -/
inductive FRun (layer : Nat → Nat) : List SNode → List Tree → List Op → List SNode → List Tree → Prop where
  | nil (st : List SNode) (As : List Tree) : FRun layer st As [] st As
  | cons {st st1 st2 : List SNode} {As As1 As2 : List Tree} {op : Op} {ops : List Op} (o : Outcome)
      (ho : o = .ok ∨ o = .err) (hst : ∃ ext, st1 = st ++ ext) (h1 : FStep layer st st1 As op o As1)
      (h2 : FRun layer st1 As1 ops st2 As2) : FRun layer st As (op :: ops) st2 As2

/-! ## small list facts -/

theorem set_self_of_getElem? {α : Type} {l : List α} {i : Nat} {a : α} (h : l[i]? = some a) : l.set i a = l := by
  apply List.ext_getElem?
  intro j
  by_cases hji : j = i
  · subst hji
    rw [List.getElem?_set_self (List.getElem?_eq_some_iff.mp h).1, h]
  · rw [List.getElem?_set_ne (Ne.symm hji)]

theorem repTree_fields {s : PS} {g : Nat} {t : PTree} {A : Tree} (h : repTree s g t = some A) :
    A.bf = t.bf ∧ A.growAfter = t.growAfter ∧ A.shrinkBelow = t.shrinkBelow := by
  obtain ⟨x, _, _, rfl⟩ := repTree_eq_some.mp h
  exact ⟨rfl, rfl, rfl⟩

theorem thresh_of_fields {t t' : PTree} (h : Thresh t) (h1 : t'.bf = t.bf) (h2 : t'.growAfter = t.growAfter)
    (h3 : t'.shrinkBelow = t.shrinkBelow) : Thresh t' := by
  unfold Thresh at h ⊢
  rw [h1, h2, h3]; exact h

theorem thresh_loaded {t : PTree} {bf height : Nat} (h1 : t.bf = bf) (h2 : t.shrinkBelow = bf ^ height)
    (h3 : t.growAfter = bf ^ height * bf) (hbf : 2 ≤ bf) : Thresh t := by
  refine ⟨by omega, height, by rw [h2, h1], ?_⟩
  rw [h3, h1, Nat.pow_succ]

/-- the store of a denoting system resolves names: from the empty heap to any heap -/
theorem nameRow_rep {s : PS} (hg : Good s) {n : Nat} {g : Nat} {x : Bool × T × List Nat}
    (h : repLink [] s.store g (.ref n) = some x) : repLink s.heap s.store g (.ref n) = some x :=
  repLink_flat_heap hg.flat _ _ _ rfl h

end Mast.Ptr
