import Mastverif.Lemmas.RefBase
/-!
The state invariant `Good`, the relation `Grow` (allocation-only steps), a small Hoare triple
`Spec` with the start state explicit, and the specifications of the primitives and of the loads.
-/
namespace Mast.Ptr
open Mast.Heap

/-- cache invariant: a cached object is a shared decoding of the stored node of that name -/
def CacheInv (s : PS) : Prop :=
  ∀ n a, (n, a) ∈ s.cache → ∃ nd sn, s.heap[a]? = some nd ∧ nd.shared = true ∧ storeAt s.store n = some sn ∧
    nd.keys = sn.keys ∧ nd.vals = sn.vals ∧ nd.links = expandLinks sn

/-- a shared object has no pointer links -/
def SharedFlat (h : Heap) : Prop :=
  ∀ (a : Nat) (nd : MNode), h[a]? = some nd → nd.shared = true → ∀ l ∈ nd.links, isPtr l = false

structure Good (s : PS) : Prop where
  cache : CacheInv s
  sflat : SharedFlat s.heap
  flat : StoreFlat s.store
  du : DirtyUnshared s.heap

theorem allocOnly_length {h h' : Heap} (ha : AllocOnly h h') : h.length ≤ h'.length := by
  cases hl : h.length with
  | zero => omega
  | succ n =>
    have hlt : n < h.length := by omega
    have := ha n h[n] (List.getElem?_eq_getElem hlt)
    have := (List.getElem?_eq_some_iff.mp this).1
    omega

/-- general preservation of `Good`: shared objects kept, the new heap is shared-flat, the store grows -/
theorem Good.step {s s' : PS} (hg : Good s)
    (hsh : ∀ (a : Nat) (nd : MNode), s.heap[a]? = some nd → nd.shared = true → s'.heap[a]? = some nd)
    (hfl : SharedFlat s'.heap) (hdu : DirtyUnshared s'.heap) (ext : List SNode) (hst : s'.store = s.store ++ ext)
    (hfs : StoreFlat s'.store) (hc : s'.cache = s.cache) : Good s' := by
  refine ⟨?_, hfl, hfs, hdu⟩
  intro n a hna
  rw [hc] at hna
  obtain ⟨nd, sn, h1, h2, h3, h4⟩ := hg.cache n a hna
  exact ⟨nd, sn, hsh a nd h1 h2, h2, by rw [hst]; exact storeAt_append h3 ext, h4⟩

theorem sharedFlat_append {h : Heap} {nd : MNode} (hf : SharedFlat h)
    (hn : nd.shared = true → ∀ l ∈ nd.links, isPtr l = false) : SharedFlat (h ++ [nd]) := by
  intro a x hx
  rcases getElem?_append_single hx with hx | ⟨_, rfl⟩
  · exact hf a x hx
  · exact hn

theorem sharedFlat_set {h : Heap} {a : Nat} {nd : MNode} (hf : SharedFlat h) (hn : nd.shared = false) :
    SharedFlat (h.set a nd) := by
  intro b x hx hs
  rcases getElem?_set_cases hx with ⟨_, rfl⟩ | ⟨_, hx⟩
  · rw [hn] at hs; cases hs
  · exact hf b x hx hs

/-! ## allocation-only steps performed for tree `m` -/

structure Grow (m : Nat) (s s' : PS) : Prop where
  alloc : AllocOnly s.heap s'.heap
  store : s'.store = s.store
  good : Good s → Good s'
  /-- what was allocated is shared or belongs to `m` -/
  fresh : ∀ a nd, s.heap.length ≤ a → s'.heap[a]? = some nd → nd.shared = true ∨ nd.owner = m

theorem Grow.refl (m : Nat) (s : PS) : Grow m s s :=
  ⟨AllocOnly.refl _, rfl, fun h => h, fun a nd hl hnd => by
    have := (List.getElem?_eq_some_iff.mp hnd).1; omega⟩

theorem Grow.trans {m : Nat} {s1 s2 s3 : PS} (a : Grow m s1 s2) (b : Grow m s2 s3) : Grow m s1 s3 := by
  refine ⟨a.alloc.trans b.alloc, by rw [b.store, a.store], fun h => b.good (a.good h), ?_⟩
  intro x nd hl hnd
  by_cases hx : s2.heap.length ≤ x
  · exact b.fresh x nd hx hnd
  · have hlt : x < s2.heap.length := by omega
    have h2 := b.alloc x _ (List.getElem?_eq_getElem hlt)
    rw [hnd] at h2; injection h2 with h2
    rw [h2]
    exact a.fresh x _ hl (List.getElem?_eq_getElem hlt)

theorem Grow.length {m : Nat} {s s' : PS} (g : Grow m s s') : s.heap.length ≤ s'.heap.length :=
  allocOnly_length g.alloc

theorem Grow.rep {m : Nat} {s s' : PS} (g : Grow m s s') {f : Nat} {l : HLink} {x : Bool × T × List Nat}
    (hx : repLink s.heap s.store f l = some x) : repLink s'.heap s'.store f l = some x := by
  rw [g.store]; exact repLink_allocOnly g.alloc hx

/-- only counters changed -/
theorem Grow.of_eq {m : Nat} {s s' : PS} (hh : s'.heap = s.heap) (hs : s'.store = s.store) (hc : s'.cache = s.cache) :
    Grow m s s' := by
  refine ⟨by rw [hh]; exact AllocOnly.refl _, hs, ?_, ?_⟩
  · intro hg
    exact hg.step (fun a nd h _ => by rw [hh]; exact h) (by rw [hh]; exact hg.sflat) (by rw [hh]; exact hg.du) [] (by simp [hs])
      (by rw [hs]; exact hg.flat) hc
  · intro a nd hl hnd
    rw [hh] at hnd
    have := (List.getElem?_eq_some_iff.mp hnd).1; omega

/-! ## a Hoare triple with the start state explicit -/

def Spec {α : Type} (R : PS → PS → Prop) (x : M α) (s : PS) (Q : α → PS → Prop) : Prop :=
  match x s with
  | .ok a s' => R s s' ∧ Q a s'
  | .err s' => R s s'
  | _ => True

class PreR (R : PS → PS → Prop) : Prop where
  refl : ∀ s, R s s
  trans : ∀ {a b c}, R a b → R b c → R a c

instance (m : Nat) : PreR (Grow m) := ⟨Grow.refl m, Grow.trans⟩

theorem Spec.bind {α β : Type} {R : PS → PS → Prop} [PreR R] {x : M α} {f : α → M β} {s : PS}
    {Q1 : α → PS → Prop} {Q : β → PS → Prop}
    (hx : Spec R x s Q1)
    (hf : ∀ a s1, x s = .ok a s1 → R s s1 → Q1 a s1 → Spec R (f a) s1 Q) :
    Spec R (x >>= f) s Q := by
  show Spec R (M.bind x f) s Q
  unfold Spec M.bind
  unfold Spec at hx
  cases hxs : x s with
  | ok a s1 =>
    rw [hxs] at hx
    have h2 := hf a s1 hxs hx.1 hx.2
    unfold Spec at h2
    simp only
    cases hfs : f a s1 with
    | ok b s2 =>
      rw [hfs] at h2
      exact ⟨PreR.trans hx.1 h2.1, h2.2⟩
    | err s2 => rw [hfs] at h2; exact PreR.trans hx.1 h2
    | stuck => trivial
    | panic => trivial
    | oof => trivial
  | err s1 => rw [hxs] at hx; exact hx
  | stuck => trivial
  | panic => trivial
  | oof => trivial

theorem Spec.pure {α : Type} {R : PS → PS → Prop} [PreR R] {a : α} {s : PS} {Q : α → PS → Prop} (h : Q a s) :
    Spec R (Pure.pure a : M α) s Q := ⟨PreR.refl s, h⟩

theorem Spec.panic {α : Type} {R : PS → PS → Prop} {s : PS} {Q : α → PS → Prop} : Spec R (panicE : M α) s Q := trivial
theorem Spec.oof {α : Type} {R : PS → PS → Prop} {s : PS} {Q : α → PS → Prop} : Spec R (oofE : M α) s Q := trivial
theorem Spec.fail {α : Type} {R : PS → PS → Prop} [PreR R] {s : PS} {Q : α → PS → Prop} : Spec R (failE : M α) s Q :=
  PreR.refl s

theorem Spec.conseq {α : Type} {R : PS → PS → Prop} {x : M α} {s : PS} {Q Q' : α → PS → Prop}
    (hx : Spec R x s Q) (hq : ∀ a s', x s = .ok a s' → R s s' → Q a s' → Q' a s') : Spec R x s Q' := by
  unfold Spec at hx ⊢
  cases hxs : x s with
  | ok a s1 => rw [hxs] at hx; exact ⟨hx.1, hq a s1 hxs hx.1 hx.2⟩
  | err s1 => rw [hxs] at hx; exact hx
  | stuck => trivial
  | panic => trivial
  | oof => trivial

theorem Spec.ok {α : Type} {R : PS → PS → Prop} {x : M α} {s s' : PS} {a : α} {Q : α → PS → Prop}
    (hx : Spec R x s Q) (h : x s = .ok a s') : R s s' ∧ Q a s' := by
  unfold Spec at hx; rw [h] at hx; exact hx

theorem Spec.err {α : Type} {R : PS → PS → Prop} {x : M α} {s s' : PS} {Q : α → PS → Prop}
    (hx : Spec R x s Q) (h : x s = .err s') : R s s' := by
  unfold Spec at hx; rw [h] at hx; exact hx

/-! ## primitives -/

theorem read_spec {R : PS → PS → Prop} [PreR R] (a : Nat) (s : PS) :
    Spec R (read a) s (fun nd s' => s = s' ∧ s.heap[a]? = some nd) := by
  unfold Spec read
  cases h : s.heap[a]? with
  | none => trivial
  | some nd => exact ⟨PreR.refl s, rfl, rfl⟩

theorem alloc_grow {m : Nat} {s : PS} {nd : MNode} (hg : applyAct s.heap (.alloc nd) = some (s.heap ++ [nd]))
    (ho : nd.shared = true ∨ nd.owner = m) (hd : nd.dirty = true → nd.shared = false) :
    Grow m s { s with heap := s.heap ++ [nd] } := by
  have hsf : nd.shared = true → ∀ l ∈ nd.links, isPtr l = false := by
    intro hs l hl
    simp only [applyAct] at hg
    split at hg
    · next hc =>
      have := List.all_eq_true.mp (hc.2 hs) l hl
      simpa using this
    · cases hg
  refine ⟨allocOnly_append _ _, rfl, ?_, ?_⟩
  · intro hgd
    exact hgd.step (s' := { s with heap := s.heap ++ [nd] }) (fun a x hx _ => allocOnly_append _ _ a x hx)
      (sharedFlat_append hgd.sflat hsf) (du_append hgd.du hd) [] (by simp) hgd.flat rfl
  · intro a x hl hx
    rcases getElem?_append_single hx with hx | ⟨_, rfl⟩
    · have := (List.getElem?_eq_some_iff.mp hx).1; omega
    · exact ho

theorem applyAct_alloc_some {h h' : Heap} {nd : MNode} (hg : applyAct h (.alloc nd) = some h') : h' = h ++ [nd] := by
  simp only [applyAct] at hg
  split at hg
  · injection hg with hg; exact hg.symm
  · cases hg

/-- `alloc` of an object that is shared or belongs to `m` -/
theorem alloc_spec {m : Nat} (nd : MNode) (s : PS) (ho : nd.shared = true ∨ nd.owner = m)
    (hd : nd.dirty = true → nd.shared = false) :
    Spec (Grow m) (alloc nd) s (fun a s' => a = s.heap.length ∧ s' = { s with heap := s.heap ++ [nd] }) := by
  unfold Spec alloc
  cases hg : applyAct s.heap (.alloc nd) with
  | none => trivial
  | some h' =>
    have := applyAct_alloc_some hg; subst this
    exact ⟨alloc_grow hg ho hd, rfl, rfl⟩

/-! ## loads -/

theorem layerM_spec {m : Nat} (E : Env) (k : Nat) (s : PS) :
    Spec (Grow m) (layerM E k) s (fun r _ => r = E.layer k) := by
  unfold Spec layerM
  cases hf : E.layerFailAt s.ltick with
  | true => simp only [if_true]; exact Grow.of_eq rfl rfl rfl
  | false => simp only [Bool.false_eq_true, if_false]; exact ⟨Grow.of_eq rfl rfl rfl, trivial⟩

/-- the decoded object of a stored node -/
def decode (sn : SNode) (n : Nat) : MNode :=
  { keys := sn.keys, vals := sn.vals, links := expandLinks sn, dirty := false, shared := true, owner := 0,
    source := some n }

/-- a shared object with the contents of the stored node `n` denotes what the name `n` denotes -/
theorem repLink_shared_copy {h : Heap} {st : List SNode} {a n : Nat} {nd : MNode} {sn : SNode}
    (hnd : h[a]? = some nd) (hs : nd.shared = true) (hsn : storeAt st n = some sn)
    (hk : nd.keys = sn.keys) (hv : nd.vals = sn.vals) (hl : nd.links = expandLinks sn)
    {f : Nat} {x : Bool × T × List Nat} (hx : repLink h st f (.ref n) = some x) :
    repLink h st f (.ptr a) = some (false, x.2.1, x.2.2) := by
  obtain ⟨f', sn', cs, hf, hsn', hval, h1, rfl⟩ := repLink_ref_some.mp hx
  rw [hsn] at hsn'; injection hsn' with hsn'; subst hsn'
  refine repLink_ptr_some.mpr ⟨f', nd, cs, hf, hnd, ?_, by rw [hl]; exact h1, ?_⟩
  · unfold ValidN; rw [hk, hv, hl]; exact hval
  · simp only [nodeRep, ownFp, hs, hk, hv, if_true]

theorem loadRef_spec {m : Nat} (E : Env) (n : Nat) (s : PS) (hg : Good s) :
    Spec (Grow m) (loadRef E n) s (fun a s' => SharedA s'.heap a ∧
      ∀ f x, repLink s.heap s.store f (.ref n) = some x →
        repLink s'.heap s'.store f (.ptr a) = some (false, x.2.1, x.2.2)) := by
  unfold Spec loadRef
  cases hc : (if s.useCache = true then lookupCache n s.cache else none) with
  | some a =>
    simp only []
    have hmem : (n, a) ∈ s.cache := by
      split at hc
      · exact lookupCache_mem hc
      · cases hc
    obtain ⟨nd, sn, h1, h2, h3, h4, h5, h6⟩ := hg.cache n a hmem
    exact ⟨Grow.refl m s, ⟨nd, h1, h2⟩, fun f x hx => repLink_shared_copy h1 h2 h3 h4 h5 h6 hx⟩
  | none =>
    simp only []
    have hgr1 : Grow m s { s with tick := s.tick + 1 } := Grow.of_eq rfl rfl rfl
    cases hf : E.failAt s.tick with
    | true => simp only [if_true]; exact hgr1
    | false =>
      simp only [Bool.false_eq_true, if_false]
      cases hsn : (if n = 0 then none else s.store[n - 1]?) with
      | none => simp only []; exact hgr1
      | some sn =>
        simp only []
        have hsn' : storeAt s.store n = some sn := hsn
        have hdec : decode sn n =
            { keys := sn.keys, vals := sn.vals,
              links := (if sn.links.isEmpty = true then List.replicate (sn.keys.length + 1) HLink.nil else sn.links),
              dirty := false, shared := true, owner := 0, source := some n } := rfl
        rw [← hdec]
        cases hal : applyAct s.heap (.alloc (decode sn n)) with
        | none => trivial
        | some h' =>
          have := applyAct_alloc_some hal; subst this
          simp only []
          have hgr2 : Grow m s { s with heap := s.heap ++ [decode sn n] } := alloc_grow hal (Or.inl rfl) (fun h => by simp [decode] at h)
          have hself : (s.heap ++ [decode sn n])[s.heap.length]? = some (decode sn n) := getElem?_append_self _ _
          refine ⟨⟨hgr2.alloc, rfl, ?_, hgr2.fresh⟩, ⟨_, hself, rfl⟩, ?_⟩
          · intro _
            have hg2 := hgr2.good hg
            refine ⟨?_, hg2.sflat, hg2.flat, hg2.du⟩
            intro k b hkb
            simp only at hkb
            have hold : (k, b) ∈ s.cache → _ := hg2.cache k b
            split at hkb
            · rcases List.mem_cons.mp hkb with h | h
              · injection h with h1 h2; subst h1; subst h2
                exact ⟨decode sn k, sn, hself, rfl, hsn', rfl, rfl, rfl⟩
              · exact hold h
            · exact hold hkb
          · intro f x hx
            exact repLink_shared_copy (nd := decode sn n) hself rfl hsn' rfl rfl rfl (hgr2.rep hx)

/-- a failed load changes nothing but the load counter -/
theorem loadRef_err {E : Env} {n : Nat} {s s' : PS} (h : loadRef E n s = .err s') :
    s'.heap = s.heap ∧ s'.store = s.store ∧ s'.cache = s.cache ∧ s'.useCache = s.useCache := by
  unfold loadRef at h
  dsimp only at h
  split at h
  · cases h
  · split at h
    · injection h with h; subst h; exact ⟨rfl, rfl, rfl, rfl⟩
    · split at h
      · injection h with h; subst h; exact ⟨rfl, rfl, rfl, rfl⟩
      · split at h <;> cases h

theorem load_err {E : Env} {l : HLink} {s s' : PS} (h : load E l s = .err s') :
    s'.heap = s.heap ∧ s'.store = s.store ∧ s'.cache = s.cache ∧ s'.useCache = s.useCache := by
  cases l with
  | nil => simp only [load, failE] at h; injection h with h; subst h; exact ⟨rfl, rfl, rfl, rfl⟩
  | ptr a => simp only [load, pure, M.pure] at h; cases h
  | ref n => exact loadRef_err h

/-- `load`: the loaded object denotes what the link denoted; a name becomes a pointer (flag `false`) -/
theorem load_spec {m : Nat} (E : Env) (l : HLink) (s : PS) (hg : Good s) :
    Spec (Grow m) (load E l) s (fun a s' => l ≠ .nil ∧ (∀ b, l = .ptr b → a = b ∧ s' = s) ∧
      ∀ f x, repLink s.heap s.store f l = some x →
        repLink s'.heap s'.store f (.ptr a) = some (false, x.2.1, x.2.2)) := by
  cases l with
  | nil => exact Spec.fail
  | ptr b =>
    refine Spec.pure ⟨by simp, fun b' hb => by injection hb with hb; exact ⟨hb, rfl⟩, ?_⟩
    intro f x hx
    obtain ⟨f', nd, cs, _, _, _, _, rfl⟩ := repLink_ptr_some.mp hx
    exact hx
  | ref n =>
    refine (loadRef_spec (m := m) E n s hg).conseq ?_
    intro a s' _ _ h
    exact ⟨by simp, fun b hb => (by cases hb), h.2⟩

end Mast.Ptr
