import Mastverif.Lemmas.Del
/-!
# `grow` and `shrink` keep the entries and re-establish the shape one level up / down
-/
namespace Mast
namespace T
variable (layer : Nat → Nat)

theorem toList_snoc (k v : Nat) (rest : T) : ∀ c, toList (snoc k v rest c) = toList c ++ (k, v) :: toList rest := by
  intro c; induction c with
  | nil => simp [snoc, toList]
  | last p x _ => simp [snoc, toList]
  | cons p c k' v' r _ ihr => simp [snoc, toList, ihr]

theorem toList_shrink : ∀ t, toList (shrink t) = toList t := by
  intro t; induction t with
  | nil => rfl
  | last p c _ => simp [shrink, toList]
  | cons p c k v r _ ihr => simp [shrink, toList, toList_snoc, ihr]

theorem toList_prepend (p : Bool) (c : T) (k v : Nat) : ∀ t, t ≠ nil →
    toList (prepend p c k v t) = toList c ++ (k, v) :: toList t := by
  intro t ht; cases t with
  | nil => exact absurd rfl ht
  | last q ch => simp [prepend, toList]
  | cons q ch k2 v2 r2 => simp [prepend, toList]

theorem prepend_ne_nil (p : Bool) (c : T) (k v : Nat) : ∀ t, t ≠ nil → prepend p c k v t ≠ nil := by
  intro t ht; cases t <;> simp_all [prepend]

theorem grow_ne_nil (h : Nat) : ∀ (t : T) (d : Nat), WF layer d t → grow layer h t ≠ nil := by
  intro t
  induction t with
  | nil => intro d hw; simp [WF] at hw
  | last p c _ => intro d _; simp [grow]
  | cons p c k v r _ ihr =>
    intro d hw
    rw [WF_cons_iff] at hw
    simp only [grow]
    split
    · simp
    · exact prepend_ne_nil p c k v _ (ihr d hw.2.1)

theorem toList_grow (h : Nat) : ∀ (t : T) (d : Nat), WF layer d t → toList (grow layer h t) = toList t := by
  intro t
  induction t with
  | nil => intro d hw; simp [WF] at hw
  | last p c _ => intro d _; simp [grow, toList]
  | cons p c k v r _ ihr =>
    intro d hw
    rw [WF_cons_iff] at hw
    simp only [grow]
    split
    · simp [toList, ihr d hw.2.1]
    · rw [toList_prepend p c k v _ (grow_ne_nil layer h r d hw.2.1), ihr d hw.2.1]; simp [toList]

/-- the run child that ends at link `c` and holds no key yet -/
theorem childOK_run_end {h : Nat} {p : Bool} {c : T} (hc : ChildOK layer h c) :
    ChildOK layer (h + 1) (mk (last p c)) := by
  by_cases hcn : c = nil
  · subst hcn; left; simp [mk]
  · right
    have hne : isEmptyRow (last p c) = false := by cases c <;> simp_all [isEmptyRow]
    rw [mk_of_not_empty hne]
    refine ⟨h, rfl, hne, (WF_last_iff layer).mpr hc, ?_⟩
    intro e he
    simp only [toList] at he
    have := child_low layer hc e he
    omega

theorem prepend_WF {h : Nat} {p : Bool} {c : T} {k v : Nat} {g : T}
    (hg : WF layer (h + 1) g) (hk1 : h ≤ layer k) (hk2 : layer k ≤ h) (hc : ChildOK layer h c) :
    WF layer (h + 1) (prepend p c k v g) := by
  have run : ∀ ch : T, ChildOK layer (h + 1) ch → ChildOK layer (h + 1) (cons p c k v (unmk ch)) := by
    intro ch hch
    right
    refine ⟨h, rfl, rfl, ?_, ?_⟩
    · rw [WF_cons_iff]
      refine ⟨hk1, ?_, hc⟩
      rcases hch with rfl | ⟨d', hd, _, hw, _⟩
      · simp [unmk, WF]
      · have : d' = h := by omega
        subst this
        have : unmk ch = ch := by cases ch <;> simp_all [unmk, WF]
        rw [this]; exact hw
    · intro e he
      simp only [toList, toList_unmk, List.mem_append, List.mem_cons] at he
      rcases he with he | rfl | he
      · have := child_low layer hc e he; omega
      · simp; omega
      · rcases hch with rfl | ⟨d', _, _, _, hl⟩
        · simp [toList] at he
        · exact hl e he
  cases g with
  | nil => simp [WF] at hg
  | last q ch =>
    rw [WF_last_iff] at hg
    simp only [prepend]
    rw [WF_last_iff]
    exact run ch hg
  | cons q ch k2 v2 r2 =>
    rw [WF_cons_iff] at hg
    simp only [prepend]
    rw [WF_cons_iff]
    exact ⟨hg.1, hg.2.1, run ch hg.2.2⟩

/-- **`grow`**: a well-formed top node of level h becomes a well-formed top node of level h+1 -/
theorem grow_WF (h : Nat) : ∀ (t : T), WF layer h t → WF layer (h + 1) (grow layer h t) := by
  intro t
  induction t with
  | nil => intro hw; simp [WF] at hw
  | last p c _ =>
    intro hw
    rw [WF_last_iff] at hw
    simp only [grow]
    rw [WF_last_iff]
    exact childOK_run_end layer hw
  | cons p c k v r _ ihr =>
    intro hw
    rw [WF_cons_iff] at hw
    obtain ⟨hk, hr, hc⟩ := hw
    simp only [grow]
    split
    · next hhi =>
      rw [WF_cons_iff]
      exact ⟨by omega, ihr hr, childOK_run_end layer hc⟩
    · next hlo =>
      exact prepend_WF layer (ihr hr) hk (by omega) hc

theorem snoc_WF {h : Nat} {k v : Nat} {rest : T} (hk : h ≤ layer k) (hrest : WF layer h rest) :
    ∀ (c : T), ChildOK layer (h + 1) c → WF layer h (snoc k v rest c) := by
  have rowcase : ∀ (c : T), WF layer h c → WF layer h (snoc k v rest c) := by
    intro c
    induction c with
    | nil => intro hw; simp [WF] at hw
    | last p x _ =>
      intro hw
      rw [WF_last_iff] at hw
      simp only [snoc]
      rw [WF_cons_iff]; exact ⟨hk, hrest, hw⟩
    | cons p c' k' v' r' _ ihr =>
      intro hw
      rw [WF_cons_iff] at hw
      simp only [snoc]
      rw [WF_cons_iff]; exact ⟨hw.1, ihr hw.2.1, hw.2.2⟩
  intro c hc
  rcases hc with rfl | ⟨d', hd, _, hw, _⟩
  · simp only [snoc]; rw [WF_cons_iff]; exact ⟨hk, hrest, Or.inl rfl⟩
  · have : d' = h := by omega
    subst this
    exact rowcase c hw

/-- **`shrink`**: a well-formed top node of level h+1 becomes a well-formed top node of level h -/
theorem shrink_WF (h : Nat) : ∀ (t : T), WF layer (h + 1) t → WF layer h (shrink t) := by
  intro t
  induction t with
  | nil => intro hw; simp [WF] at hw
  | last p c _ =>
    intro hw
    rw [WF_last_iff] at hw
    simp only [shrink]
    rcases hw with rfl | ⟨d', hd, _, hw, _⟩
    · simp [unmk, WF]
    · have : d' = h := by omega
      subst this
      have : unmk c = c := by cases c <;> simp_all [unmk, WF]
      rw [this]; exact hw
  | cons p c k v r _ ihr =>
    intro hw
    rw [WF_cons_iff] at hw
    obtain ⟨hk, hr, hc⟩ := hw
    simp only [shrink]
    exact snoc_WF layer (by omega) (ihr hr) c hc

end T
end Mast
