import Mastverif.Gen.KeyLayers
import Mastverif.Model.Store
/-!
# The generated transcriptions of key.go's loops equal the model's layer functions

`Mastverif/Gen/KeyLayers.lean` is regenerated from /repo/key.go by `vh -translate` on every run.
For every 64-bit operand and every branch factor ≥ 2 the generated loops terminate within their
64 rounds of fuel, the `uint8` counter never wraps, and the result is the model's `uintLayer`
(of the magnitude, for the signed loop).
-/
namespace Mast.Gen
open Mast

theorem uintLayer_step (bf v : Nat) (h : 2 ≤ bf ∧ v ≠ 0 ∧ v % bf = 0) :
    uintLayer bf v = uintLayer bf (v / bf) + 1 := by
  rw [uintLayer]; simp [h]

theorem uintLayer_stop (bf v : Nat) (h : ¬ (2 ≤ bf ∧ v ≠ 0 ∧ v % bf = 0)) : uintLayer bf v = 0 := by
  rw [uintLayer]; simp [h]

theorem go_uintLayer_loop (bf : Nat) (hbf : 2 ≤ bf) : ∀ (fuel v layer : Nat), v < 2 ^ fuel → layer + fuel < 256 →
    go_uintLayer.loop fuel v bf layer = (layer + uintLayer bf v, false) := by
  intro fuel
  induction fuel with
  | zero =>
    intro v layer hv _
    have : v = 0 := by simpa using hv
    subst this
    simp [go_uintLayer.loop, uintLayer_stop]
  | succ fuel ih =>
    intro v layer hv hl
    simp only [go_uintLayer.loop]
    by_cases hc : v ≠ 0 ∧ v % bf = 0
    · rw [if_pos hc]
      have hdiv : v / bf < 2 ^ fuel := by
        apply Nat.div_lt_of_lt_mul
        have := Nat.mul_le_mul_right (2 ^ fuel) hbf
        rw [Nat.pow_succ] at hv; omega
      have hm : (layer + 1) % 256 = layer + 1 := Nat.mod_eq_of_lt (by omega)
      rw [hm, ih (v / bf) (layer + 1) hdiv (by omega), uintLayer_step bf v ⟨hbf, hc.1, hc.2⟩]
      congr 1; omega
    · have hc' : ¬ (2 ≤ bf ∧ v ≠ 0 ∧ v % bf = 0) := fun h => hc ⟨h.2.1, h.2.2⟩
      rw [if_neg hc, uintLayer_stop bf v hc']
      rfl

/-- **`uintLayer` of key.go** = the model's layer function, for every 64-bit key -/
theorem go_uintLayer_eq (v bf : Nat) (hbf : 2 ≤ bf) (hv : v < 2 ^ 64) :
    go_uintLayer v bf = (uintLayer bf v, false) := by
  unfold go_uintLayer
  have := go_uintLayer_loop bf hbf 64 v 0 hv (by omega)
  simpa using this

theorem go_intLayer_loop (bf : Nat) (hbf : 2 ≤ bf) : ∀ (fuel : Nat) (v : Int) (layer : Nat),
    v.natAbs < 2 ^ fuel → layer + fuel < 256 →
    go_intLayer.loop fuel v bf layer = (layer + uintLayer bf v.natAbs, false) := by
  intro fuel
  induction fuel with
  | zero =>
    intro v layer hv _
    have h0 : v.natAbs = 0 := by simpa using hv
    have : v = 0 := Int.natAbs_eq_zero.mp h0
    subst this
    simp [go_intLayer.loop, uintLayer_stop]
  | succ fuel ih =>
    intro v layer hv hl
    have hmod : Int.tmod v (Int.ofNat bf) = 0 ↔ v.natAbs % bf = 0 := by
      constructor
      · intro h
        have := congrArg Int.natAbs h
        simpa using this
      · intro h
        apply Int.natAbs_eq_zero.mp
        simpa using h
    have hne : v ≠ 0 ↔ v.natAbs ≠ 0 := by simp [Int.natAbs_eq_zero]
    simp only [go_intLayer.loop]
    by_cases hc : v.natAbs ≠ 0 ∧ v.natAbs % bf = 0
    · have hc2 : v ≠ (0 : Int) ∧ Int.tmod v (Int.ofNat bf) = (0 : Int) := ⟨hne.mpr hc.1, hmod.mpr hc.2⟩
      rw [if_pos hc2]
      have hdivabs : (Int.tdiv v (Int.ofNat bf)).natAbs = v.natAbs / bf := by
        rw [Int.natAbs_tdiv]; rfl
      have hdiv : (Int.tdiv v (Int.ofNat bf)).natAbs < 2 ^ fuel := by
        rw [hdivabs]
        apply Nat.div_lt_of_lt_mul
        have := Nat.mul_le_mul_right (2 ^ fuel) hbf
        rw [Nat.pow_succ] at hv; omega
      have hm : (layer + 1) % 256 = layer + 1 := Nat.mod_eq_of_lt (by omega)
      rw [hm, ih _ (layer + 1) hdiv (by omega), hdivabs, uintLayer_step bf v.natAbs ⟨hbf, hc.1, hc.2⟩]
      congr 1; omega
    · have hc2 : ¬ (v ≠ (0 : Int) ∧ Int.tmod v (Int.ofNat bf) = (0 : Int)) :=
        fun h => hc ⟨hne.mp h.1, hmod.mp h.2⟩
      have hc' : ¬ (2 ≤ bf ∧ v.natAbs ≠ 0 ∧ v.natAbs % bf = 0) := fun h => hc ⟨h.2.1, h.2.2⟩
      rw [if_neg hc2, uintLayer_stop bf v.natAbs hc']
      rfl

/-- **`intLayer` of key.go** = the model's layer of the magnitude, for every 64-bit key -/
theorem go_intLayer_eq (v : Int) (bf : Nat) (hbf : 2 ≤ bf) (hv : v.natAbs < 2 ^ 64) :
    go_intLayer v bf = (uintLayer bf v.natAbs, false) := by
  unfold go_intLayer
  have := go_intLayer_loop bf hbf 64 v 0 hv (by omega)
  simpa using this

end Mast.Gen
