import Mastverif.Model.Ptr
/-!
# `deleteGo` / `insertGo` against `delete` / `insert`

The driver runs `deleteGo` / `insertGo` (the record Go leaves when the height loop fails part-way);
the theorems of `Lemmas/Ptr*.lean`, `Ref*.lean` are about `delete` / `insert`.  The two agree on the
outcome, on the state whenever the call returns (`.ok` or `.err`), and on the record whenever it
succeeds; after an error the Go versions differ only in the record (the completed `shrink()` /
`grow()` steps are in it).
-/
namespace Mast.Ptr
open Mast.Heap

/-- how a run of the monadic loop and of the Go-style loop correspond -/
def LoopAgree (r : Res PTree) (g : PS × PTree × Outcome) : Prop :=
  match r with
  | .ok t' s' => g = (s', t', .ok)
  | .err s' => g.1 = s' ∧ g.2.2 = .err
  | .panic => g.2.2 = .panic
  | .stuck => g.2.2 = .stuck
  | .oof => g.2.2 = .oof

theorem shrinkAllGo_agree (E : Env) : ∀ (f : Nat) (t : PTree) (s : PS),
    LoopAgree (shrinkAll E f t s) (shrinkAllGo E f t s) := by
  intro f
  induction f with
  | zero => intro t s; simp [shrinkAll, shrinkAllGo, oofE, LoopAgree]
  | succ f ih =>
    intro t s
    unfold shrinkAll shrinkAllGo
    show LoopAgree (M.bind (topEntryless t) _ s) _
    unfold M.bind
    cases h1 : topEntryless t s with
    | ok el s1 =>
      simp only
      by_cases hc : t.height > 0 ∧ (t.size ≤ t.shrinkBelow ∨ el = true)
      · simp only [hc, if_true]
        show LoopAgree (M.bind (shrink E t) _ s1) _
        unfold M.bind
        cases h2 : shrink E t s1 with
        | ok t' s2 => simp only; exact ih t' s2
        | err s2 => simp [LoopAgree]
        | panic => simp [LoopAgree]
        | stuck => simp [LoopAgree]
        | oof => simp [LoopAgree]
      · simp only [hc, if_false]
        simp [LoopAgree, pure, M.pure]
    | err s1 => simp [LoopAgree]
    | panic => simp [LoopAgree]
    | stuck => simp [LoopAgree]
    | oof => simp [LoopAgree]

/-- the two deletes: same outcome; same state when the call returns; same record when it succeeds -/
theorem deleteGo_delete (E : Env) (fuel : Nat) (s : PS) (t : PTree) (k v : Nat) :
    (deleteGo E fuel s t k v).2.2 = (delete E fuel s t k v).2.2 ∧
    (((delete E fuel s t k v).2.2 = .ok ∨ (delete E fuel s t k v).2.2 = .err) →
      (deleteGo E fuel s t k v).1 = (delete E fuel s t k v).1) ∧
    ((delete E fuel s t k v).2.2 = .ok → (deleteGo E fuel s t k v).2.1 = (delete E fuel s t k v).2.1) := by
  unfold deleteGo delete
  cases h1 : deletePlan E t fuel k v s with
  | ok p s1 =>
    simp only
    cases h2 : deleteCommit t p s1 with
    | ok root s2 =>
      simp only
      have ha := shrinkAllGo_agree E fuel { t with root := root, size := t.size - 1 } s2
      unfold afterCommit
      cases h3 : shrinkAll E fuel { t with root := root, size := t.size - 1 } s2 with
      | ok t' s' => rw [h3] at ha; simp only [LoopAgree] at ha; rw [ha]; simp
      | err s' => rw [h3] at ha; simp only [LoopAgree] at ha; simp [ha.1, ha.2]
      | panic => rw [h3] at ha; simp only [LoopAgree] at ha; simp [ha]
      | stuck => rw [h3] at ha; simp only [LoopAgree] at ha; simp [ha]
      | oof => rw [h3] at ha; simp only [LoopAgree] at ha; simp [ha]
    | err s2 => simp
    | panic => simp
    | stuck => simp
    | oof => simp
  | err s1 => simp
  | panic => simp
  | stuck => simp
  | oof => simp

theorem growAllGo_agree (E : Env) : ∀ (f : Nat) (t : PTree) (s : PS),
    LoopAgree (growAll E f t s) (growAllGo E f t s) := by
  intro f
  induction f with
  | zero => intro t s; simp [growAll, growAllGo, oofE, LoopAgree]
  | succ f ih =>
    intro t s
    unfold growAll growAllGo
    by_cases hs : t.size < t.growAfter
    · simp [hs, LoopAgree, pure, M.pure]
    · simp only [hs, if_false]
      -- the monadic side: load, read, canGrowM, then the branch
      show LoopAgree (M.bind (load E t.root) (fun a => M.bind (read a) (fun nd => M.bind (canGrowM E t.height nd.keys)
        (fun cg => if cg = true then M.bind (grow E t) (fun t' => growAll E f t') else M.pure t))) s) _
      have hgo : (do let a ← load E t.root
                     let nd ← read a
                     canGrowM E t.height nd.keys : M Bool) s =
          M.bind (load E t.root) (fun a => M.bind (read a) (fun nd => canGrowM E t.height nd.keys)) s := rfl
      rw [hgo]
      unfold M.bind
      cases h1 : load E t.root s with
      | ok a s1 =>
        simp only
        cases h2 : read a s1 with
        | ok nd s2 =>
          simp only
          cases h3 : canGrowM E t.height nd.keys s2 with
          | ok cg s3 =>
            simp only
            cases cg with
            | true =>
              show LoopAgree (M.bind (grow E t) (fun t' => growAll E f t') s3)
                (match grow E t s3 with
                 | .ok t' s2 => growAllGo E f t' s2
                 | .err s2 => (s2, t, .err)
                 | .panic => (s3, t, .panic)
                 | .stuck => (s3, t, .stuck)
                 | .oof => (s3, t, .oof))
              unfold M.bind
              cases h4 : grow E t s3 with
              | ok t' s4 => simp only [h4]; exact ih t' s4
              | err s4 => simp [LoopAgree, h4]
              | panic => simp [LoopAgree, h4]
              | stuck => simp [LoopAgree, h4]
              | oof => simp [LoopAgree, h4]
            | false =>
              show LoopAgree (M.pure t s3) (s3, t, .ok)
              simp [LoopAgree, M.pure]
          | err s3 => simp [LoopAgree]
          | panic => simp [LoopAgree]
          | stuck => simp [LoopAgree]
          | oof => simp [LoopAgree]
        | err s2 => simp [LoopAgree]
        | panic => simp [LoopAgree]
        | stuck => simp [LoopAgree]
        | oof => simp [LoopAgree]
      | err s1 => simp [LoopAgree]
      | panic => simp [LoopAgree]
      | stuck => simp [LoopAgree]
      | oof => simp [LoopAgree]

/-- the two inserts: same outcome; same state when the call returns; same record when it succeeds -/
theorem insertGo_insert (E : Env) (fuel : Nat) (s : PS) (t : PTree) (k v : Nat) :
    (insertGo E fuel s t k v).2.2 = (insert E fuel s t k v).2.2 ∧
    (((insert E fuel s t k v).2.2 = .ok ∨ (insert E fuel s t k v).2.2 = .err) →
      (insertGo E fuel s t k v).1 = (insert E fuel s t k v).1) ∧
    ((insert E fuel s t k v).2.2 = .ok → (insertGo E fuel s t k v).2.1 = (insert E fuel s t k v).2.1) := by
  unfold insertGo insert
  cases h1 : insertPlan E t fuel k v s with
  | ok p s1 =>
    simp only
    by_cases hps : (p.present && p.same) = true
    · simp [hps]
    · simp only [hps, if_false]
      cases h2 : insertCommit t p k v s1 with
      | ok root s2 =>
        simp only
        by_cases hp : p.present = true
        · simp [hp]
        · simp only [hp, if_false]
          have ha := growAllGo_agree E fuel { t with root := root } s2
          unfold afterCommit
          cases h3 : growAll E fuel { t with root := root } s2 with
          | ok t' s' => rw [h3] at ha; simp only [LoopAgree] at ha; rw [ha]; simp
          | err s' =>
            rw [h3] at ha; simp only [LoopAgree] at ha
            obtain ⟨e1, e2⟩ := ha
            cases hg : growAllGo E fuel { t with root := root } s2 with
            | mk a b =>
              cases b with
              | mk b c =>
                rw [hg] at e1 e2
                simp only at e1 e2
                subst e1; subst e2
                simp
          | panic =>
            rw [h3] at ha; simp only [LoopAgree] at ha
            cases hg : growAllGo E fuel { t with root := root } s2 with
            | mk a b =>
              cases b with
              | mk b c => rw [hg] at ha; simp only at ha; subst ha; simp
          | stuck =>
            rw [h3] at ha; simp only [LoopAgree] at ha
            cases hg : growAllGo E fuel { t with root := root } s2 with
            | mk a b =>
              cases b with
              | mk b c => rw [hg] at ha; simp only at ha; subst ha; simp
          | oof =>
            rw [h3] at ha; simp only [LoopAgree] at ha
            cases hg : growAllGo E fuel { t with root := root } s2 with
            | mk a b =>
              cases b with
              | mk b c => rw [hg] at ha; simp only at ha; subst ha; simp
      | err s2 => simp
      | panic => simp
      | stuck => simp
      | oof => simp
  | err s1 => simp
  | panic => simp
  | stuck => simp
  | oof => simp

end Mast.Ptr
