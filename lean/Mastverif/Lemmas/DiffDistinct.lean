import Mastverif.Lemmas.DiffNames
import Mastverif.Lemmas.DiffOnce
import Mastverif.Lemmas.CursorBwd
/-!
# The hypotheses of `run_once`, discharged for well-formed trees with content names

In a tree with strictly ascending entries and no entry-less childless node below the top
(`Solid`), every node leads to a key, and — with collision-free content names — distinct nodes
have distinct names: two nodes with the same name have the same entries and the same number of
nodes below; sharing an entry puts one above the other, which makes the counts differ.
-/
namespace Mast
namespace T

theorem nodesBelow_props : ∀ (t : T), Solid t → ∀ x ∈ nodesBelow t,
    Solid x ∧ x.isNil = false ∧ isEmptyRow x = false ∧
    (nodesBelow x).length < (nodesBelow t).length ∧ (∀ e ∈ toList x, e ∈ toList t) := by
  intro t
  induction t with
  | nil => intro _ x hx; simp [nodesBelow] at hx
  | last p c ih =>
    intro hs x hx
    simp only [nodesBelow] at hx
    by_cases hc : c.isNil = true
    · simp [hc] at hx
    · have hc' : c.isNil = false := by simpa using hc
      simp only [hc', Bool.false_eq_true, if_false, List.mem_cons] at hx
      have hne : isEmptyRow c = false := by
        rcases hs.1 with h | h
        · rw [hc'] at h; cases h
        · exact h
      rcases hx with rfl | hx
      · exact ⟨hs.2, hc', hne, by simp [nodesBelow, hc'], by simp [toList]⟩
      · obtain ⟨a, b, c', d, e⟩ := ih hs.2 x hx
        exact ⟨a, b, c', by simp [nodesBelow, hc']; omega, by simpa [toList] using e⟩
  | cons p c k v r ihc ihr =>
    intro hs x hx
    simp only [nodesBelow, List.mem_append] at hx
    rcases hx with hx | hx
    · by_cases hc : c.isNil = true
      · simp [hc] at hx
      · have hc' : c.isNil = false := by simpa using hc
        simp only [hc', Bool.false_eq_true, if_false, List.mem_cons] at hx
        have hne : isEmptyRow c = false := by
          rcases hs.1 with h | h
          · rw [hc'] at h; cases h
          · exact h
        rcases hx with rfl | hx
        · exact ⟨hs.2.1, hc', hne, by simp [nodesBelow, hc']; omega, by intro e he; simp [toList, he]⟩
        · obtain ⟨a, b, c', d, e⟩ := ihc hs.2.1 x hx
          exact ⟨a, b, c', by simp [nodesBelow, hc']; omega, by intro y hy; simp [toList, e y hy]⟩
    · obtain ⟨a, b, c', d, e⟩ := ihr hs.2.2 x hx
      exact ⟨a, b, c', by simp [nodesBelow]; omega, by intro y hy; simp [toList, e y hy]⟩

theorem chain_some (layer : Nat → Nat) : ∀ (x : T) (q : Bool), Solid x → x.isNil = false → isEmptyRow x = false →
    ∃ h, (Diff.chain layer q x).1 = some h := by
  intro x
  induction x with
  | nil => intro q _ h; simp [isNil] at h
  | last p c ih =>
    intro q hs _ hne
    have hc : c.isNil = false := by cases c <;> simp_all [isEmptyRow, isNil]
    have hne' : isEmptyRow c = false := by
      rcases hs.1 with h | h
      · rw [hc] at h; cases h
      · exact h
    obtain ⟨h, hh⟩ := ih p hs.2 hc hne'
    exact ⟨h, by simp [Diff.chain, hh]⟩
  | cons p c k v r _ _ => intro q _ _ _; exact ⟨layer k, rfl⟩

/-- **distinct nodes have distinct names** -/
theorem names_nodup (e : Enc) (hnc : NoCollision e)
    (hk : Function.Injective e.keyB) (hv : Function.Injective e.valB) :
    ∀ (t : T), Solid t → Sorted (toList t) → ((nodesBelow t).map (nodeName e)).Nodup := by
  have hlen : ∀ a b : T, nodeName e a = nodeName e b → (nodesBelow a).length = (nodesBelow b).length := by
    intro a b h
    have := congrArg List.length (rowB_eq_below e hnc a b (hnc a b h))
    simpa using this
  -- a node and the nodes below it
  have self_below : ∀ c : T, Solid c → ((nodesBelow c).map (nodeName e)).Nodup →
      ((c :: nodesBelow c).map (nodeName e)).Nodup := by
    intro c hs hn
    simp only [List.map_cons, List.nodup_cons]
    refine ⟨?_, hn⟩
    intro hmem
    obtain ⟨x, hx, hxn⟩ := List.mem_map.mp hmem
    have := (nodesBelow_props c hs x hx).2.2.2.1
    have := hlen x c hxn
    omega
  intro t
  induction t with
  | nil => intro _ _; simp [nodesBelow]
  | last p c ih =>
    intro hs hsrt
    simp only [nodesBelow]
    by_cases hc : c.isNil = true
    · simp [hc]
    · have hc' : c.isNil = false := by simpa using hc
      simp only [hc', Bool.false_eq_true, if_false]
      exact self_below c hs.2 (ih hs.2 (by simpa [toList] using hsrt))
  | cons p c k v r ihc ihr =>
    intro hs hsrt
    simp only [toList] at hsrt
    obtain ⟨sc, sr, hcr⟩ := sorted_append hsrt
    have sr' := sorted_tail sr
    simp only [nodesBelow, List.map_append]
    rw [List.nodup_append]
    refine ⟨?_, ihr hs.2.2 sr', ?_⟩
    · by_cases hc : c.isNil = true
      · simp [hc]
      · have hc' : c.isNil = false := by simpa using hc
        simp only [hc', Bool.false_eq_true, if_false]
        exact self_below c hs.2.1 (ihc hs.2.1 sc)
    · intro n1 h1 n2 h2 heq
      subst heq
      obtain ⟨x, hx, hxn⟩ := List.mem_map.mp h1
      obtain ⟨y, hy, hyn⟩ := List.mem_map.mp h2
      have hxy : toList x = toList y := name_eq_toList e hnc hk hv x y (hxn.trans hyn.symm)
      -- x lies in the left child, y in the rest of the row: they cannot share an entry
      have hyp := nodesBelow_props r hs.2.2 y hy
      have hyne : toList y ≠ [] := toList_ne_nil_of_solid y hyp.1 hyp.2.2.1 hyp.2.1
      obtain ⟨e0, he0⟩ := List.exists_mem_of_ne_nil _ hyne
      have hin_r : e0 ∈ toList r := hyp.2.2.2.2 e0 he0
      have hin_c : e0 ∈ toList c := by
        by_cases hc : c.isNil = true
        · simp [hc] at hx
        · have hc' : c.isNil = false := by simpa using hc
          simp only [hc', Bool.false_eq_true, if_false, List.mem_cons] at hx
          rw [← hxy] at he0
          rcases hx with rfl | hx
          · exact he0
          · exact (nodesBelow_props c hs.2.1 x hx).2.2.2.2 e0 he0
      have := hcr e0 hin_c e0 (by simp [hin_r])
      omega

end T
end Mast
