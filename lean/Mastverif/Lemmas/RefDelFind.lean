import Mastverif.Lemmas.RefDelBase
import Mastverif.Lemmas.RefDelRows
import Mastverif.Lemmas.RefFind
/-! `findNode` without `create` (Delete): the path, its context, and what `T.get` / `T.del` do along it. -/
namespace Mast.Ptr
open Mast.Heap

theorem Fr.del_plug {fr : Fr} {key : Nat} (hok : fr.OK key) (old : Bool × T × List Nat) (sl : Nat) :
    T.del key (sl + 1) (nodeRep false fr.own fr.ks fr.vs (fr.L ++ old :: fr.R)).2.1 =
      (T.del key sl old.2.1).map (fun c' => fr.plugRow (T.mk c')) := by
  obtain ⟨h1, h2, h3, h4⟩ := hok
  rw [nodeRep_row, map_pr_mid, del_mkRow_succ _ _ _ _ _ (by simp; omega) h2, h3]
  have hl : (fr.L.map pr).length = fr.L.length := by simp
  rw [if_neg h4, ← hl, childAt_mid, take_mid, drop_mid]
  rfl

theorem follow_nil_spec {R : PS → PS → Prop} [PreR R] {m : Nat} (E : Env) {a i : Nat} {nd : MNode} {s : PS}
    (hnd : s.heap[a]? = some nd) (hl : nd.links[i]? = some .nil) :
    Spec R (follow E m a i false) s (fun c s' => s' = s ∧ c = a) := by
  unfold follow
  refine Spec.bind (read_spec a s) ?_
  rintro nd' s1 _ _ ⟨rfl, hnd'⟩
  rw [hnd] at hnd'; injection hnd' with hnd'; subst hnd'
  rw [hl]
  exact Spec.pure ⟨rfl, rfl⟩

/-- staying in a node whose link at the key's position is absent (`follow` without `create` returns the node
    itself): the search ends in this node, which does not hold the key -/
theorem findNode_stuck {R : PS → PS → Prop} [PreR R] {m : Nat} (E : Env) (key target : Nat) {a : Nat} {nd : MNode} {s : PS}
    (hnd : s.heap[a]? = some nd) (_hk : nd.keys[keyIdx nd.keys key]? ≠ some key)
    (hl : nd.links[keyIdx nd.keys key]? = some .nil) :
    ∀ (f cur : Nat) (path : List (Nat × Nat)),
    Spec R (findNode E m key target false f a cur path) s (fun fd s' =>
      s' = s ∧ fd.node = a ∧ fd.idx = keyIdx nd.keys key) := by
  intro f
  induction f with
  | zero => intro cur path; exact Spec.oof
  | succ f ih =>
    intro cur path
    unfold findNode
    refine Spec.bind (read_spec a s) ?_
    rintro nd' s1 _ _ ⟨rfl, hnd'⟩
    rw [hnd] at hnd'; injection hnd' with hnd'; subst hnd'
    split
    · exact Spec.panic
    · dsimp only
      split
      · exact Spec.pure ⟨rfl, rfl, rfl⟩
      · refine Spec.bind (follow_nil_spec (m := m) E hnd hl) ?_
        rintro c s1 _ _ ⟨rfl, rfl⟩
        exact ih _ _

/-- what `findNode` (without `create`) establishes when it ends on the key -/
def FindDelOK (key target cur : Nat) (path : List (Nat × Nat)) (n : Nat) (x : Bool × T × List Nat) (fd : Found)
    (h : Heap) (st : List SNode) : Prop :=
  ∃ p frs g' bx, fd.path = path ++ p ∧ p.getLast? = some (fd.node, fd.idx) ∧ fd.cur ≤ cur ∧ target ≤ fd.cur ∧
    Ctx h st p frs ∧ (∀ fr ∈ frs, fr.OK key) ∧ repLink h st g' (.ptr fd.node) = some bx ∧
    FpExt n x.2.2 (plug frs bx).2.2 ∧
    (∀ sl, T.get key (sl + (cur - fd.cur)) x.2.1 = T.get key sl bx.2.1) ∧
    (∀ sl, T.del key (sl + (cur - fd.cur)) x.2.1 = (T.del key sl bx.2.1).map (plugDel frs))

theorem findNode_del {m : Nat} (E : Env) (key target : Nat) :
    ∀ (f a cur : Nat) (path : List (Nat × Nat)) (s : PS) (g : Nat) (x : Bool × T × List Nat),
    Good s → target ≤ cur → repLink s.heap s.store g (.ptr a) = some x → x.2.2.Nodup →
    Spec (Grow m) (findNode E m key target false f a cur path) s (fun fd s' =>
      ∃ nd, s'.heap[fd.node]? = some nd ∧ fd.idx = keyIdx nd.keys key ∧
        (nd.keys[fd.idx]? = some key → FindDelOK key target cur path s.heap.length x fd s'.heap s'.store)) := by
  intro f
  induction f with
  | zero => intro a cur path s g x _ _ _ _; exact Spec.oof
  | succ f ih =>
    intro a cur path s g x hg htc hx hnd
    unfold findNode
    refine Spec.bind (read_spec a s) ?_
    rintro nd s1 _ _ ⟨rfl, hnda⟩
    obtain ⟨g', cs, rfl, hv, h1, hcl, rfl⟩ := repLink_ptr_inv hx hnda
    split
    · exact Spec.panic
    · dsimp only
      generalize hi : keyIdx nd.keys key = i
      have hile : i ≤ nd.keys.length := hi ▸ keyIdx_le _ _
      split
      · next hstop =>
        refine Spec.pure ⟨nd, hnda, hi.symm, fun _ => ⟨[(a, i)], [], g' + 1, _, rfl, rfl, Nat.le_refl _, htc, trivial,
          by simp, hx, FpExt.refl hnd, ?_, ?_⟩⟩
        · intro sl; simp
        · intro sl; simp [plugDel]
      · next hcont =>
        have hk : nd.keys[i]? ≠ some key := fun h => hcont (Or.inl h)
        have hct : cur ≠ target := fun h => hcont (Or.inr h)
        refine Spec.bind (follow_spec (m := m) E a i s hg hnda) ?_
        rintro b s1 _ hgr1 ⟨l, hl, hnil, hnn⟩
        by_cases hl0 : l = .nil
        · -- absent link: the search stays in this node and does not find the key
          obtain ⟨rfl, rfl⟩ := hnil hl0
          subst hl0
          refine (findNode_stuck (R := Grow m) (m := m) E key target hnda (by rw [hi]; exact hk) (by rw [hi]; exact hl)
            f (cur - 1) (path ++ [(b, i)])).conseq ?_
          rintro fd s' _ _ ⟨rfl, hnode, hidx⟩
          refine ⟨nd, by rw [hnode]; exact hnda, hidx, fun hkey => ?_⟩
          rw [hidx, hi] at hkey
          exact absurd hkey hk
        · obtain ⟨c, hc1, hc2⟩ := seqO_map_getElem? h1 hl
          have hilt : i < nd.links.length := (List.getElem?_eq_some_iff.mp hl).1
          have hcs := take_append_getElem_drop hc2
          have hL := seqO_map_take h1 i
          have hR := seqO_map_drop h1 (i + 1)
          have hLlen : (cs.take i).length = i := by rw [List.length_take]; omega
          let fr : Fr := { own := ownFp nd a, ks := nd.keys, vs := nd.vals, L := cs.take i, R := cs.drop (i + 1) }
          have hfrok : fr.OK key := by
            refine ⟨?_, hv.2, ?_, ?_⟩
            · show (cs.take i).length + (cs.drop (i + 1)).length = nd.keys.length
              rw [hLlen, List.length_drop]; omega
            · show keyIdx nd.keys key = (cs.take i).length
              rw [hLlen]; exact hi
            · show nd.keys[(cs.take i).length]? ≠ some key
              rw [hLlen]; exact hk
          have hxrep : nodeRep false (ownFp nd a) nd.keys nd.vals cs =
              nodeRep false fr.own fr.ks fr.vs (fr.L ++ c :: fr.R) := by
            show _ = nodeRep false (ownFp nd a) nd.keys nd.vals (cs.take i ++ c :: cs.drop (i + 1))
            rw [← hcs]
          have hfp : (nodeRep false (ownFp nd a) nd.keys nd.vals cs).2.2 =
              (ownFp nd a ++ fps (cs.take i)) ++ c.2.2 ++ fps (cs.drop (i + 1)) := by
            rw [nodeRep_fp]; conv => lhs; rw [hcs]
            simp [List.append_assoc]
          have hltn : ∀ y ∈ (nodeRep false (ownFp nd a) nd.keys nd.vals cs).2.2, y < s.heap.length :=
            repLink_fp_lt' hx
          rw [hfp] at hnd hltn
          have hcnd : c.2.2.Nodup := (List.nodup_append.mp (List.nodup_append.mp hnd).1).2.1
          have hxc := hnn hl0 g' c hc1
          refine (ih b (cur - 1) (path ++ [(a, i)]) s1 g' _ (hgr1.good hg) (by omega) hxc hcnd).conseq ?_
          rintro fd s' _ hgr' ⟨bnd, hbnd, hidx, himp⟩
          refine ⟨bnd, hbnd, hidx, fun hkey => ?_⟩
          obtain ⟨p', frs', gb, bx, hpath, hlast, hcur, htgt, hctx, hoks, hbx, hfpx, hget, hdel⟩ := himp hkey
          have hgr := hgr1.trans hgr'
          refine ⟨(a, i) :: p', fr :: frs', gb, bx, ?_, ?_, by omega, htgt, ?_, ?_, hbx, ?_, ?_, ?_⟩
          · rw [hpath]; simp
          · match p', hlast with
            | q :: rest, hlast => rw [List.getLast?_cons_cons]; exact hlast
          · match p', hlast, hctx with
            | (b', j') :: rest, _, hctx =>
              refine ⟨⟨nd, g', hgr.alloc a nd hnda, hv, rfl, rfl, rfl, hLlen.symm, hilt, ?_, ?_⟩, hctx⟩
              · exact seqO_map_congr hL (fun l _ c hc => hgr.rep hc)
              · exact seqO_map_congr hR (fun l _ c hc => hgr.rep hc)
          · intro fr' hfr'
            rcases List.mem_cons.mp hfr' with h | h
            · rw [h]; exact hfrok
            · exact hoks fr' h
          · rw [hfp]
            show FpExt _ _ (fr.plug (plug frs' bx)).2.2
            rw [Fr.plug_fp]
            exact FpExt.ctx _ _ hnd
              (fun y hy => hltn y (List.mem_append.mpr (Or.inl (List.mem_append.mpr (Or.inl hy)))))
              (fun y hy => hltn y (List.mem_append.mpr (Or.inr hy))) (hfpx.n_mono hgr1.length)
          · intro sl
            have hd : sl + (cur - fd.cur) = (sl + (cur - 1 - fd.cur)) + 1 := by omega
            rw [hd, hxrep, Fr.get_plug hfrok]
            exact hget sl
          · intro sl
            have hd : sl + (cur - fd.cur) = (sl + (cur - 1 - fd.cur)) + 1 := by omega
            rw [hd, hxrep, Fr.del_plug hfrok]
            have := hdel sl
            simp only at this
            rw [this, Option.map_map]
            rfl

end Mast.Ptr
