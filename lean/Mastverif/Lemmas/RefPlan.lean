import Mastverif.Lemmas.RefFind
import Mastverif.Lemmas.RefSplit2
import Mastverif.Lemmas.RefStep
/-! `insertPlan`: what the state looks like when the plan has been made. -/
namespace Mast.Ptr
open Mast.Heap

/-- the bottom node's representation from its object and the results of its links -/
def bottomRep (nd : MNode) (a : Nat) (csb : List (Bool × T × List Nat)) : Bool × T × List Nat :=
  nodeRep false (ownFp nd a) nd.keys nd.vals csb

/-- what `insertPlan` establishes: `x` is what the root link denoted at the start, `n0` the heap size then -/
def PlanOK (key val n0 : Nat) (x : Bool × T × List Nat) (height target : Nat) (p : InsPlan) (h : Heap)
    (st : List SNode) : Prop :=
  ∃ frs gb csb nd n2,
    Ctx h st p.found.path frs ∧ (∀ fr ∈ frs, fr.OK key) ∧
    p.found.path.getLast? = some (p.found.node, p.found.idx) ∧
    h[p.found.node]? = some nd ∧ ValidN nd ∧ seqO (nd.links.map (repLink h st gb)) = some csb ∧
    p.found.idx = keyIdx nd.keys key ∧
    n0 ≤ n2 ∧ n2 ≤ h.length ∧ (∀ y ∈ (plug frs (bottomRep nd p.found.node csb)).2.2, y < n2) ∧
    FpExt n0 x.2.2 (plug frs (bottomRep nd p.found.node csb)).2.2 ∧
    T.get key (height - target) (T.unmk x.2.1) = T.get key 0 (bottomRep nd p.found.node csb).2.1 ∧
    (∀ v, T.ins key v (height - target) (T.unmk x.2.1) =
      (T.ins key v 0 (bottomRep nd p.found.node csb).2.1).map (plugRow frs)) ∧
    (p.present = true → nd.keys[p.found.idx]? = some key ∧ (p.same = true ↔ nd.vals[p.found.idx]? = some val)) ∧
    (p.present = false → nd.keys[p.found.idx]? ≠ some key ∧
      ∃ cl, csb[p.found.idx]? = some cl ∧ SplitOK n2 h st cl key (p.left, p.right))

/-- the first step of `Insert`: the top node, created when the tree is empty -/
theorem rootNode_spec {m : Nat} (E : Env) (root : HLink) (s : PS) (hg : Good s) {g : Nat} {x : Bool × T × List Nat}
    (hx : repLink s.heap s.store g root = some x) (hnd : x.2.2.Nodup) :
    Spec (Grow m) (if root = .nil then alloc (emptyNode m) else load E root) s (fun a0 s' =>
      ∃ g0 x0, repLink s'.heap s'.store g0 (.ptr a0) = some x0 ∧ x0.2.1 = T.unmk x.2.1 ∧
        FpExt s.heap.length x.2.2 x0.2.2) := by
  split
  · next h0 =>
    subst h0
    simp at hx; subst hx
    refine (alloc_spec (m := m) (emptyNode m) s (Or.inr rfl) (fun _ => rfl)).conseq ?_
    rintro a0 s' _ _ ⟨rfl, rfl⟩
    refine ⟨1, _, repLink_emptyNode (m := m) (getElem?_append_self _ _), rfl, by simp, ?_⟩
    intro y hy; simp at hy; subst hy; exact Or.inr (Nat.le_refl _)
  · next h0 =>
    refine (load_spec (m := m) E root s hg).conseq ?_
    rintro a0 s' _ _ ⟨_, _, hld⟩
    exact ⟨g, _, hld g x hx, (unmk_of_ne_nil (repLink_row_ne_nil hx h0)).symm, FpExt.refl hnd⟩

theorem insertPlan_spec (E : Env) (t : PTree) (fuel key val : Nat) (s : PS) (hg : Good s) {g : Nat}
    {x : Bool × T × List Nat} (hx : repLink s.heap s.store g t.root = some x) (hnd : x.2.2.Nodup) :
    Spec (Grow t.id) (insertPlan E t fuel key val) s (fun p s' =>
      PlanOK key val s.heap.length x t.height (min (E.layer key) t.height) p s'.heap s'.store) := by
  unfold insertPlan
  refine Spec.bind (layerM_spec (m := t.id) E key s) ?_
  rintro lay s1 _ hgr1 rfl
  have hg1 := hgr1.good hg
  refine Spec.bind (rootNode_spec (m := t.id) E t.root s1 hg1 (hgr1.rep hx) hnd) ?_
  rintro a0 s2 _ hgr2 ⟨g0, x0, hx0, hx0row, hx0fp⟩
  have hg2 := hgr2.good hg1
  dsimp only
  refine Spec.bind (findNode_ins (m := t.id) E key (min (E.layer key) t.height) fuel a0 t.height [] s2 g0 x0 hg2
    (Nat.min_le_right _ _) hx0 hx0fp.1) ?_
  rintro fd s3 _ hgr3 ⟨p, frs, gb, bx, nd, hpath, hlast, hcur, htgt, hctx, hoks, hbx, hnd3, hidx, hstop, hfpx, hget, hins⟩
  have hg3 := hgr3.good hg2
  simp only [List.nil_append] at hpath
  split
  · exact Spec.panic
  · next hct =>
    have hct : fd.cur = min (E.layer key) t.height := by
      by_cases h : fd.cur = min (E.layer key) t.height
      · exact h
      · exact absurd h hct
    refine Spec.bind (read_spec fd.node s3) ?_
    rintro nd' s4 _ _ ⟨rfl, hnd'⟩
    rw [hnd3] at hnd'; injection hnd' with hnd'; subst hnd'
    obtain ⟨gb', csb, rfl, hv, hkids, hcl, rfl⟩ := repLink_ptr_inv hbx hnd3
    have hlen01 := hgr1.length
    have hlen12 := hgr2.length
    have hlen23 := hgr3.length
    have hlt3 : ∀ y ∈ (plug frs (bottomRep nd fd.node csb)).2.2, y < s3.heap.length := by
      intro y hy
      rw [plug_fp] at hy
      have hAB := hctx.fp_lt y
      simp only [List.mem_append] at hy hAB
      rcases hy with (hy | hy) | hy
      · exact hAB (Or.inl hy)
      · exact repLink_fp_lt hbx hy
      · exact hAB (Or.inr hy)
    have hfp03 : FpExt s.heap.length x.2.2 (plug frs (bottomRep nd fd.node csb)).2.2 := by
      have h1 : FpExt s.heap.length x.2.2 x0.2.2 := hx0fp.n_mono hlen01
      exact h1.trans hfpx (by omega)
    have hget' : T.get key (t.height - min (E.layer key) t.height) (T.unmk x.2.1) =
        T.get key 0 (bottomRep nd fd.node csb).2.1 := by
      have := hget 0; rw [hct, hx0row] at this; simpa [bottomRep] using this
    have hins' : ∀ v, T.ins key v (t.height - min (E.layer key) t.height) (T.unmk x.2.1) =
        (T.ins key v 0 (bottomRep nd fd.node csb).2.1).map (plugRow frs) := by
      intro v
      have := hins v 0; rw [hct, hx0row] at this; simpa [bottomRep] using this
    split
    · next hpres =>
      refine Spec.pure ⟨frs, gb', csb, nd, s3.heap.length, by rw [hpath]; exact hctx, hoks, by rw [hpath]; exact hlast,
        hnd3, hv, hkids, hidx, by omega, Nat.le_refl _, hlt3, hfp03, hget', hins', ?_, ?_⟩
      · intro _; exact ⟨hpres, by simp⟩
      · intro h; cases h
    · next habs =>
      have hilt : fd.idx < nd.links.length := by
        rw [hidx, hv.1]; have := keyIdx_le nd.keys key; omega
      split
      · exact Spec.panic
      · next hl =>
        obtain ⟨cl, hcl1, hcl2⟩ := seqO_map_getElem? hkids hl
        simp at hcl1; subst hcl1
        refine Spec.pure ⟨frs, gb', csb, nd, s3.heap.length, by rw [hpath]; exact hctx, hoks, by rw [hpath]; exact hlast,
          hnd3, hv, hkids, hidx, by omega, Nat.le_refl _, hlt3, hfp03, hget', hins', ?_, ?_⟩
        · intro h; cases h
        · intro _
          refine ⟨habs, _, hcl2, 0, (false, T.nil, []), (false, T.nil, []), by simp, by simp, rfl, rfl, ?_, ?_, ?_⟩
          · simp [T.split, T.mk]
          · simp [T.split, T.mk]
          · exact FpExt.refl (by simp)
      · next l hlne hl =>
        obtain ⟨cl, hcl1, hcl2⟩ := seqO_map_getElem? hkids hl
        refine Spec.bind (load_spec (m := t.id) E l s3 hg3) ?_
        rintro c s4 _ hgr4 ⟨_, _, hld⟩
        have hc := hld gb' cl hcl1
        have hg4 := hgr4.good hg3
        have hclnd : cl.2.2.Nodup := by
          have h1 : (bottomRep nd fd.node csb).2.2.Nodup := by
            have := hfp03.1
            rw [plug_fp] at this
            exact (List.nodup_append.mp (List.nodup_append.mp this).1).2.1
          unfold bottomRep at h1
          rw [nodeRep_fp, take_append_getElem_drop hcl2] at h1
          simp only [fps_append, fps_cons] at h1
          exact (List.nodup_append.mp (List.nodup_append.mp (List.nodup_append.mp h1).2.1).2.1).1
        refine Spec.bind (split_refines (m := t.id) E key fuel c s4 gb' _ hg4 hc hclnd) ?_
        rintro ⟨lf, rt⟩ s5 _ hgr5 hsp
        have hgr35 := hgr4.trans hgr5
        refine Spec.pure ⟨frs, gb', csb, nd, s3.heap.length, ?_, hoks, by rw [hpath]; exact hlast,
          hgr35.alloc _ _ hnd3, hv, ?_, hidx, by omega, hgr35.length, hlt3, hfp03, hget', hins', ?_, ?_⟩
        · rw [hpath, hgr35.store]; exact hctx.allocOnly hgr35.alloc
        · exact seqO_map_congr hkids (fun l _ c hc => hgr35.rep hc)
        · intro h; cases h
        · intro _
          obtain ⟨g5, xl, xr, h1, h2, h3, h4, h5, h6, h7⟩ := hsp
          exact ⟨habs, cl, hcl2, g5, xl, xr, h1, h2, h3, h4, h5, h6, h7.n_mono hgr4.length⟩

end Mast.Ptr
