import Mastverif.Lemmas.CursorWalk
/-!
# What cursor moves read

A move loads the nodes that join the path through name links (`newLoads`; for `Ceil` the nodes it
descends through, `ceilLoads`).  A path that is a chain from the root has at most `lvl root + 1`
elements, one per level; hence no move reads more than one node per level.
-/
namespace Mast
open T
namespace Cursor

theorem loadedOn_length_le : ∀ l : Path, (loadedOn l).length ≤ l.length - 1 := by
  intro l
  induction l with
  | nil => simp [loadedOn]
  | cons x rest ih =>
    obtain ⟨c, i⟩ := x
    cases rest with
    | nil => simp [loadedOn]
    | cons y rest' =>
      obtain ⟨n, j⟩ := y
      simp only [loadedOn, List.length_append, List.length_cons]
      have := ih
      simp only [List.length_cons] at this
      split <;> simp <;> omega

theorem newLoads_length_le (old new : Path) : (newLoads old new).length ≤ new.length - 1 := by
  unfold newLoads
  refine Nat.le_trans (loadedOn_length_le _) ?_
  simp only [List.length_append, List.length_take, List.length_drop]
  omega

/-- a chain from the root has one element per level -/
theorem chain_depth (root : T) : ∀ (rest : Path) (c : T) (i : Nat), ChainFrom root ((c, i) :: rest) →
    rest.length + lvl c ≤ lvl root := by
  intro rest
  induction rest with
  | nil => intro c i h; have : c = root := h.1; subst this; simp
  | cons y rest' ih =>
    intro c i h
    obtain ⟨n, j⟩ := y
    obtain ⟨⟨hc, hnil⟩, ht⟩ := h
    have := ih n j ht
    have hlt : lvl c < lvl n := by rw [hc]; exact lvl_linkAt_lt n j (by rw [← hc]; exact hnil)
    simp only [List.length_cons]; omega

theorem chain_length (root : T) (p : Path) (h : ChainFrom root p) : p.length ≤ lvl root + 1 := by
  cases p with
  | nil => simp
  | cons x rest =>
    obtain ⟨c, i⟩ := x
    have := chain_depth root rest c i h
    simp only [List.length_cons]; omega

/-- **a move reads at most one node per level** (a sharper count: the path it ends on) -/
theorem newLoads_le_height (root : T) (old new : Path) (h : ChainFrom root new) :
    (newLoads old new).length ≤ lvl root := by
  have := newLoads_length_le old new
  have := chain_length root new h
  omega

theorem ceilLoads_le (k : Nat) : ∀ (fuel : Nat) (node : T) (i : Nat) (rest : Path),
    (ceilLoads k fuel ((node, i) :: rest)).length ≤ lvl node := by
  intro fuel
  induction fuel with
  | zero => intro node i rest; simp [ceilLoads]
  | succ fuel ih =>
    intro node i rest
    simp only [ceilLoads]
    have down : (if (linkAt node (lowerBound k node)).isNil = true then []
        else (if flagAt node (lowerBound k node) = true then [linkAt node (lowerBound k node)] else []) ++
          ceilLoads k fuel ((linkAt node (lowerBound k node), 0) :: (node, lowerBound k node) :: rest)).length ≤ lvl node := by
      by_cases hc : (linkAt node (lowerBound k node)).isNil = true
      · simp [hc]
      · have hc' : (linkAt node (lowerBound k node)).isNil = false := by simpa using hc
        simp only [hc', Bool.false_eq_true, if_false, List.length_append]
        have h1 := ih (linkAt node (lowerBound k node)) 0 ((node, lowerBound k node) :: rest)
        have h2 := lvl_linkAt_lt node (lowerBound k node) hc'
        split <;> simp <;> omega
    cases he : entryAt node (lowerBound k node) with
    | some kv =>
      obtain ⟨k', v'⟩ := kv
      simp only []
      split
      · simp
      · exact down
    | none => exact down

end Cursor
end Mast
