import Mastverif.Lemmas.GrowShrink
/-!
# The tree-level invariant and the refinement of `Tree.insert` / `Tree.delete` / `Tree.lookup`
-/
namespace Mast
open T

namespace T

theorem getL_none_iff {k : Nat} {l : List Entry} : getL k l = none ↔ ∀ e ∈ l, e.1 ≠ k := by
  induction l with
  | nil => simp [getL]
  | cons x l ih =>
    obtain ⟨k', v'⟩ := x
    simp only [getL]
    split
    · next h => subst h; simp
    · next h => simp [ih, h]

theorem getL_some_mem {k v : Nat} {l : List Entry} (h : getL k l = some v) : (k, v) ∈ l := by
  induction l with
  | nil => simp [getL] at h
  | cons x l ih =>
    obtain ⟨k', v'⟩ := x
    simp only [getL] at h
    split at h
    · next hk => subst hk; injection h with h; subst h; simp
    · exact List.mem_cons_of_mem _ (ih h)

theorem length_insL_present {k v v' : Nat} : ∀ (l : List Entry), Sorted l → getL k l = some v' →
    (insL k v l).length = l.length := by
  intro l
  induction l with
  | nil => intro _ h; simp [getL] at h
  | cons x l ih =>
    intro hs h
    obtain ⟨k', w⟩ := x
    simp only [Sorted, List.pairwise_cons] at hs
    simp only [getL] at h
    simp only [insL]
    split at h
    · next hk => subst hk; simp
    · next hk =>
      have hmem := getL_some_mem h
      have hlt : k' < k := hs.1 (k, v') hmem
      simp [hlt, ih hs.2 h]

theorem insL_same {k v : Nat} : ∀ (l : List Entry), Sorted l → getL k l = some v → insL k v l = l := by
  intro l
  induction l with
  | nil => intro _ h; simp [getL] at h
  | cons x l ih =>
    intro hs h
    obtain ⟨k', w⟩ := x
    simp only [Sorted, List.pairwise_cons] at hs
    simp only [getL] at h
    simp only [insL]
    split at h
    · next hk => subst hk; injection h with h; subst h; simp
    · next hk =>
      have hmem := getL_some_mem h
      have hlt : k' < k := hs.1 (k, v) hmem
      simp [hlt, ih hs.2 h]

theorem length_delL_present {k v' : Nat} : ∀ (l : List Entry), Sorted l → getL k l = some v' →
    (delL k l).length + 1 = l.length := by
  intro l
  induction l with
  | nil => intro _ h; simp [getL] at h
  | cons x l ih =>
    intro hs h
    obtain ⟨k', w⟩ := x
    simp only [Sorted, List.pairwise_cons] at hs
    simp only [getL] at h
    split at h
    · next hk =>
      subst hk
      have hrest : ∀ e ∈ l, e.1 ≠ k' := fun e he => by have := hs.1 e he; omega
      have := delL_of_not_mem k' l hrest
      simp only [delL] at this
      simp [delL, List.filter_cons, this]
    · next hk =>
      have := ih hs.2 h
      simp only [delL, List.filter_cons] at this ⊢
      simp [hk]; omega

theorem sorted_delL (k : Nat) (l : List Entry) (hs : Sorted l) : Sorted (delL k l) := by
  unfold delL Sorted at *
  exact List.Pairwise.filter _ hs

theorem getL_delL_same (k : Nat) (l : List Entry) : getL k (delL k l) = none := by
  rw [getL_none_iff]
  intro e he
  simp only [delL, List.mem_filter, bne_iff_ne, ne_eq] at he
  exact he.2

end T

namespace Tree
variable (layer : Nat → Nat)

/-- the invariant of every tree the API produces -/
structure Inv (m : Tree) : Prop where
  wf : WF layer m.height m.root
  sorted : Sorted m.root.toList
  size : m.size = m.root.toList.length
  bf2 : 2 ≤ m.bf
  ga : m.growAfter = m.bf ^ (m.height + 1)
  sb : m.shrinkBelow = m.bf ^ m.height

theorem inv_empty (bf : Nat) (h : 2 ≤ bf) : Inv layer (Tree.empty bf) := by
  constructor <;> simp [Tree.empty, WF, T.toList, Sorted, h]

/-- the level arithmetic of `findNode`'s target layer -/
theorem levels_spec (m : Tree) (k : Nat) :
    ∃ tgt, tgt + m.levels layer k = m.height ∧ tgt ≤ layer k ∧ (layer k ≤ tgt ∨ m.levels layer k = 0) := by
  refine ⟨min (layer k) m.height, ?_, Nat.min_le_left _ _, ?_⟩
  · unfold levels; have := Nat.min_le_right (layer k) m.height; omega
  · unfold levels
    by_cases h : layer k ≤ m.height
    · left; rw [Nat.min_eq_left h]; exact Nat.le_refl _
    · right; have : m.height ≤ layer k := by omega
      rw [Nat.min_eq_right this]; omega

theorem lookup_eq (m : Tree) (k : Nat) (hi : Inv layer m) : m.lookup layer k = getL k m.toList := by
  obtain ⟨tgt, h1, h2, h3⟩ := levels_spec layer m k
  unfold lookup Tree.toList
  exact get_eq_getL layer k m.root (m.levels layer k) tgt (h1 ▸ hi.wf) hi.sorted h2 h3

/-- invariant without the size clause, for the intermediate states of the grow / shrink loops -/
structure Inv0 (m : Tree) : Prop where
  wf : WF layer m.height m.root
  sorted : Sorted m.root.toList
  bf2 : 2 ≤ m.bf
  ga : m.growAfter = m.bf ^ (m.height + 1)
  sb : m.shrinkBelow = m.bf ^ m.height

theorem growLoop_spec : ∀ (fuel : Nat) (m : Tree), Inv0 layer m →
    Inv0 layer (growLoop layer fuel m) ∧ (growLoop layer fuel m).root.toList = m.root.toList ∧
    (growLoop layer fuel m).size = m.size ∧ (growLoop layer fuel m).bf = m.bf ∧
    m.height ≤ (growLoop layer fuel m).height := by
  intro fuel
  induction fuel with
  | zero => intro m hi; exact ⟨hi, rfl, rfl, rfl, Nat.le_refl _⟩
  | succ fuel ih =>
    intro m hi
    simp only [growLoop]
    split
    · have hi' : Inv0 layer (growStep layer m) := by
        constructor
        · exact grow_WF layer m.height m.root hi.wf
        · simp only [growStep]; rw [toList_grow layer m.height m.root m.height hi.wf]; exact hi.sorted
        · exact hi.bf2
        · simp only [growStep]; rw [hi.ga]; exact (Nat.pow_succ ..).symm
        · simp only [growStep]; exact hi.ga
      obtain ⟨h1, h2, h3, h4, h5⟩ := ih _ hi'
      refine ⟨h1, ?_, h3, h4, ?_⟩
      · rw [h2]; exact toList_grow layer m.height m.root m.height hi.wf
      · have : (growStep layer m).height = m.height + 1 := rfl
        omega
    · exact ⟨hi, rfl, rfl, rfl, Nat.le_refl _⟩

theorem pow_div_self (bf h : Nat) (hbf : 0 < bf) : bf ^ (h + 1) / bf = bf ^ h := by
  rw [Nat.pow_succ, Nat.mul_div_cancel _ hbf]

theorem shrinkLoop_spec : ∀ (fuel : Nat) (m : Tree), Inv0 layer m →
    Inv0 layer (shrinkLoop fuel m) ∧ (shrinkLoop fuel m).root.toList = m.root.toList ∧
    (shrinkLoop fuel m).size = m.size ∧ (shrinkLoop fuel m).bf = m.bf := by
  intro fuel
  induction fuel with
  | zero => intro m hi; exact ⟨hi, rfl, rfl, rfl⟩
  | succ fuel ih =>
    intro m hi
    simp only [shrinkLoop]
    split
    · next hcond =>
      obtain ⟨hpos, _⟩ := hcond
      obtain ⟨h', hh⟩ : ∃ h', m.height = h' + 1 := ⟨m.height - 1, by omega⟩
      have hbf : 0 < m.bf := by have := hi.bf2; omega
      have hsb1 : m.shrinkBelow > 1 := by
        rw [hi.sb, hh]
        have h2 : 2 ≤ m.bf := hi.bf2
        calc 1 < 2 := by omega
          _ ≤ m.bf := h2
          _ = m.bf ^ 1 := (Nat.pow_one _).symm
          _ ≤ m.bf ^ (h' + 1) := Nat.pow_le_pow_right hbf (by omega)
      have hi' : Inv0 layer (shrinkStep m) := by
        constructor
        · simp only [shrinkStep, hh, Nat.add_sub_cancel]
          exact shrink_WF layer h' m.root (hh ▸ hi.wf)
        · simp only [shrinkStep]; rw [toList_shrink]; exact hi.sorted
        · exact hi.bf2
        · simp only [shrinkStep, hsb1, if_true, hh, Nat.add_sub_cancel]
          rw [hi.ga, hh, pow_div_self _ _ hbf]
        · simp only [shrinkStep, hsb1, if_true, hh, Nat.add_sub_cancel]
          rw [hi.sb, hh, pow_div_self _ _ hbf]
      obtain ⟨h1, h2, h3, h4⟩ := ih _ hi'
      refine ⟨h1, ?_, h3, h4⟩
      rw [h2]; exact toList_shrink m.root
    · exact ⟨hi, rfl, rfl, rfl⟩

/-- **Insert refines `insL`**, never panics and never errs on a well-formed tree. -/
theorem insert_spec (m : Tree) (k v : Nat) (hi : Inv layer m) :
    ∃ m', insert layer m k v = .ok m' ∧ Inv layer m' ∧ m'.toList = insL k v m.toList ∧ m'.bf = m.bf := by
  obtain ⟨tgt, h1, h2, h3⟩ := levels_spec layer m k
  have hwf : WF layer (tgt + m.levels layer k) m.root := h1 ▸ hi.wf
  have hsome := ins_isSome layer k v m.root (m.levels layer k) tgt hwf h2 h3
  obtain ⟨r, hr⟩ := Option.isSome_iff_exists.mp hsome
  have hrl := toList_ins layer k v m.root (m.levels layer k) tgt r hwf hi.sorted h2 h3 hr
  have hrw : WF layer m.height r := h1 ▸ ins_WF layer k v m.root (m.levels layer k) tgt r hwf hi.sorted h2 h3 hr
  have hlk := lookup_eq layer m k hi
  unfold insert
  cases hl : m.lookup layer k with
  | some v' =>
    simp only []
    have hg : getL k m.toList = some v' := by rw [← hlk, hl]
    by_cases hv : v' = v
    · subst hv
      refine ⟨m, by simp, hi, ?_, rfl⟩
      exact (insL_same _ hi.sorted hg).symm
    · simp only [hv, if_false, hr]
      refine ⟨_, rfl, ?_, hrl, rfl⟩
      constructor
      · exact hrw
      · simp only; rw [hrl]; exact sorted_insL k v _ hi.sorted
      · simp only; rw [hrl, length_insL_present _ hi.sorted hg]; exact hi.size
      · exact hi.bf2
      · exact hi.ga
      · exact hi.sb
  | none =>
    simp only [hr]
    have hg : getL k m.toList = none := by rw [← hlk, hl]
    have habs := getL_none_iff.mp hg
    have hi0 : Inv0 layer { m with root := r, rootP := false, dirty := true } :=
      ⟨hrw, by simp only; rw [hrl]; exact sorted_insL k v _ hi.sorted, hi.bf2, hi.ga, hi.sb⟩
    obtain ⟨g1, g2, g3, g4, _⟩ := growLoop_spec layer (m.size + 1) _ hi0
    refine ⟨_, rfl, ?_, ?_, ?_⟩
    · constructor
      · exact g1.wf
      · exact g1.sorted
      · simp only; rw [g2]; simp only; rw [hrl]
        have h5 := length_insL_absent k v m.root.toList habs
        have := hi.size; omega
      · exact g1.bf2
      · exact g1.ga
      · exact g1.sb
    · simp only [Tree.toList]; rw [g2]; exact hrl
    · simp only; exact g4

/-- **Delete refines `delL`** when the entry is present with that value. -/
theorem delete_spec (m : Tree) (k v : Nat) (hi : Inv layer m) (hpres : getL k m.toList = some v) :
    ∃ m', delete layer m k v = .ok m' ∧ Inv layer m' ∧ m'.toList = delL k m.toList ∧ m'.bf = m.bf := by
  obtain ⟨tgt, h1, h2, h3⟩ := levels_spec layer m k
  have hwf : WF layer (tgt + m.levels layer k) m.root := h1 ▸ hi.wf
  have hlk := lookup_eq layer m k hi
  have hl : m.lookup layer k = some v := by rw [hlk]; exact hpres
  have hsome := del_isSome_of_get k m.root (m.levels layer k) v hl
  obtain ⟨r, hr⟩ := Option.isSome_iff_exists.mp hsome
  have hrl := toList_del layer k m.root (m.levels layer k) tgt r hwf hi.sorted h2 h3 hr
  have hrw : WF layer m.height r := h1 ▸ del_WF layer k m.root (m.levels layer k) tgt r hwf hi.sorted h2 h3 hr
  unfold delete
  simp only [hl, ne_eq, not_true_eq_false, if_false, hr]
  have hi0 : Inv0 layer { m with root := r, rootP := false, dirty := true, size := m.size - 1 } :=
    ⟨hrw, by simp only; rw [hrl]; exact sorted_delL k _ hi.sorted, hi.bf2, hi.ga, hi.sb⟩
  obtain ⟨g1, g2, g3, g4⟩ := shrinkLoop_spec layer (m.height + 1) _ hi0
  refine ⟨_, rfl, ?_, ?_, g4⟩
  · constructor
    · exact g1.wf
    · exact g1.sorted
    · rw [g3, g2]; simp only; rw [hrl]
      have := length_delL_present _ hi.sorted hpres
      have := hi.size; simp only [Tree.toList] at *; omega
    · exact g1.bf2
    · exact g1.ga
    · exact g1.sb
  · simp only [Tree.toList]; rw [g2]; exact hrl

/-- a delete of an absent key, or with a non-matching value, fails (and by construction of the
    functional model leaves the tree as it was) -/
theorem delete_absent (m : Tree) (k v : Nat) (hi : Inv layer m) (habs : getL k m.toList ≠ some v) :
    ∃ e, delete layer m k v = .err e := by
  have hlk := lookup_eq layer m k hi
  unfold delete
  cases hl : m.lookup layer k with
  | none => exact ⟨_, rfl⟩
  | some v' =>
    simp only []
    have : v' ≠ v := by
      intro h; subst h; apply habs; rw [← hlk, hl]
    simp only [ne_eq, this, not_false_eq_true, if_true]
    exact ⟨_, rfl⟩

end Tree
end Mast
