import Mastverif.Lemmas.TreeInv
/-!
# The height rule as an invariant

`HOK bf layer h l`: `h` is an admissible height for the entry list `l` —
either 0, or `bf^h < |l|` and some key has layer ≥ h; and `|l| ≤ bf^(h+1)` or no key has a layer
above `h`.  It has at most one solution (`HOK_unique`), it is what Insert's grow loop and
Delete's (repaired) shrink loop re-establish, and it is the logarithm-free form of
`height = min(highest key layer, floor(log_bf(size-1)))`.
-/
namespace Mast
open T

def HOK (bf : Nat) (layer : Nat → Nat) (h : Nat) (l : List (Nat × Nat)) : Prop :=
  (h = 0 ∨ (bf ^ h < l.length ∧ ∃ e ∈ l, h ≤ layer e.1)) ∧
  (l.length ≤ bf ^ (h + 1) ∨ ∀ e ∈ l, layer e.1 ≤ h)

theorem HOK_unique {bf : Nat} {layer : Nat → Nat} {h h' : Nat} {l : List (Nat × Nat)} (hbf : 2 ≤ bf)
    (a : HOK bf layer h l) (b : HOK bf layer h' l) : h = h' := by
  have mono : ∀ x y : Nat, x ≤ y → bf ^ x ≤ bf ^ y := fun x y hxy => Nat.pow_le_pow_right (by omega) hxy
  rcases Nat.lt_trichotomy h h' with hlt | heq | hgt
  · exfalso
    rcases b.1 with h0 | ⟨hsz, e, he, hle⟩
    · omega
    · rcases a.2 with hsz2 | hall
      · have := mono (h + 1) h' (by omega); omega
      · have := hall e he; omega
  · exact heq
  · exfalso
    rcases a.1 with h0 | ⟨hsz, e, he, hle⟩
    · omega
    · rcases b.2 with hsz2 | hall
      · have := mono (h' + 1) h (by omega); omega
      · have := hall e he; omega

namespace T
variable (layer : Nat → Nat)

/-- under the shape invariant, the top node can grow iff some key of the tree lies above it -/
theorem canGrow_iff (h : Nat) : ∀ (t : T), WF layer h t →
    (canGrow layer h t = true ↔ ∃ e ∈ toList t, h < layer e.1) := by
  intro t
  induction t with
  | nil => intro hw; simp [WF] at hw
  | last p c _ =>
    intro hw
    rw [WF_last_iff] at hw
    simp only [canGrow, toList]
    constructor
    · intro hf; cases hf
    · rintro ⟨e, he, hl⟩
      have := child_low layer hw e he; omega
  | cons p c k v r _ ihr =>
    intro hw
    rw [WF_cons_iff] at hw
    obtain ⟨hk, hr, hc⟩ := hw
    simp only [canGrow, toList, Bool.or_eq_true, decide_eq_true_eq]
    constructor
    · rintro (hl | hl)
      · exact ⟨(k, v), by simp, hl⟩
      · obtain ⟨e, he, hl⟩ := (ihr hr).mp hl
        exact ⟨e, by simp [he], hl⟩
    · rintro ⟨e, he, hl⟩
      simp only [List.mem_append, List.mem_cons] at he
      rcases he with he | rfl | he
      · have := child_low layer hc e he; omega
      · exact Or.inl hl
      · exact Or.inr ((ihr hr).mpr ⟨e, he, hl⟩)

/-- under the shape invariant, the top node is entry-less iff no key reaches its level -/
theorem topEntryless_iff (h : Nat) (t : T) (hw : WF layer h t) :
    (Tree.topEntryless t = true ↔ ∀ e ∈ toList t, layer e.1 < h) := by
  cases t with
  | nil => simp [WF] at hw
  | last p c =>
    rw [WF_last_iff] at hw
    simp only [Tree.topEntryless, toList, true_iff]
    intro e he
    have := child_low layer hw e he; omega
  | cons p c k v r =>
    rw [WF_cons_iff] at hw
    simp only [Tree.topEntryless, toList]
    constructor
    · intro hf; cases hf
    · intro hall
      have := hall (k, v) (by simp)
      simp at this; omega

end T

namespace Tree
variable (layer : Nat → Nat)

theorem two_pow_gt (n : Nat) : n < 2 ^ n := Nat.lt_two_pow_self

/-- with enough fuel the grow loop stops because its condition is false -/
theorem growLoop_exit : ∀ (fuel : Nat) (m : Tree), Inv0 layer m → m.size < 2 ^ (m.height + fuel + 1) →
    ¬ ((growLoop layer fuel m).size ≥ (growLoop layer fuel m).growAfter ∧
       canGrow layer (growLoop layer fuel m).height (growLoop layer fuel m).root = true) := by
  intro fuel
  induction fuel with
  | zero =>
    intro m hi hb
    simp only [growLoop]
    rintro ⟨hsz, _⟩
    rw [hi.ga] at hsz
    have : 2 ^ (m.height + 1) ≤ m.bf ^ (m.height + 1) := Nat.pow_le_pow_left hi.bf2 _
    simp only [Nat.add_zero] at hb
    omega
  | succ fuel ih =>
    intro m hi hb
    simp only [growLoop]
    split
    · have hi' : Inv0 layer (growStep layer m) := by
        constructor
        · exact grow_WF layer m.height m.root hi.wf
        · simp only [growStep]; rw [toList_grow layer m.height m.root m.height hi.wf]; exact hi.sorted
        · exact hi.bf2
        · simp only [growStep]; rw [hi.ga]; exact (Nat.pow_succ ..).symm
        · simp only [growStep]; exact hi.ga
      apply ih _ hi'
      have e1 : (growStep layer m).size = m.size := rfl
      have e2 : (growStep layer m).height = m.height + 1 := rfl
      rw [e1, e2]
      have : m.height + 1 + fuel + 1 = m.height + (fuel + 1) + 1 := by omega
      rw [this]; exact hb
    · next hc => exact hc

/-- every step of the grow loop keeps the first clause of `HOK` for the size after the insert -/
theorem growLoop_HOK1 (n : Nat) : ∀ (fuel : Nat) (m : Tree), Inv0 layer m → m.size < n →
    (m.height = 0 ∨ (m.bf ^ m.height < n ∧ ∃ e ∈ m.root.toList, m.height ≤ layer e.1)) →
    ((growLoop layer fuel m).height = 0 ∨
      ((growLoop layer fuel m).bf ^ (growLoop layer fuel m).height < n ∧
       ∃ e ∈ (growLoop layer fuel m).root.toList, (growLoop layer fuel m).height ≤ layer e.1)) := by
  intro fuel
  induction fuel with
  | zero => intro m _ _ h; exact h
  | succ fuel ih =>
    intro m hi hn h
    simp only [growLoop]
    split
    · next hc =>
      have hi' : Inv0 layer (growStep layer m) := by
        constructor
        · exact grow_WF layer m.height m.root hi.wf
        · simp only [growStep]; rw [toList_grow layer m.height m.root m.height hi.wf]; exact hi.sorted
        · exact hi.bf2
        · simp only [growStep]; rw [hi.ga]; exact (Nat.pow_succ ..).symm
        · simp only [growStep]; exact hi.ga
      apply ih _ hi' (by exact hn)
      right
      have hge := hc.1
      rw [hi.ga] at hge
      obtain ⟨e, he, hl⟩ := (canGrow_iff layer m.height m.root hi.wf).mp hc.2
      refine ⟨?_, e, ?_, ?_⟩
      · show m.bf ^ (m.height + 1) < n
        omega
      · show e ∈ (grow layer m.height m.root).toList
        rw [toList_grow layer m.height m.root m.height hi.wf]; exact he
      · show m.height + 1 ≤ layer e.1
        omega
    · exact h

theorem shrinkLoop_exit : ∀ (fuel : Nat) (m : Tree), m.height < fuel →
    ¬ ((shrinkLoop fuel m).height > 0 ∧
       ((shrinkLoop fuel m).size ≤ (shrinkLoop fuel m).shrinkBelow ∨ topEntryless (shrinkLoop fuel m).root = true)) := by
  intro fuel
  induction fuel with
  | zero => intro m h; omega
  | succ fuel ih =>
    intro m hf
    simp only [shrinkLoop]
    split
    · next hc =>
      apply ih
      show m.height - 1 < fuel
      omega
    · next hc => exact hc

/-- every step of the shrink loop keeps the second clause of `HOK` -/
theorem shrinkLoop_HOK2 : ∀ (fuel : Nat) (m : Tree), Inv0 layer m →
    (m.size ≤ m.bf ^ (m.height + 1) ∨ ∀ e ∈ m.root.toList, layer e.1 ≤ m.height) →
    ((shrinkLoop fuel m).size ≤ (shrinkLoop fuel m).bf ^ ((shrinkLoop fuel m).height + 1) ∨
      ∀ e ∈ (shrinkLoop fuel m).root.toList, layer e.1 ≤ (shrinkLoop fuel m).height) := by
  intro fuel
  induction fuel with
  | zero => intro m _ h; exact h
  | succ fuel ih =>
    intro m hi h
    simp only [shrinkLoop]
    split
    · next hc =>
      obtain ⟨hpos, hcond⟩ := hc
      obtain ⟨h', hh⟩ : ∃ h', m.height = h' + 1 := ⟨m.height - 1, by omega⟩
      have hbf : 0 < m.bf := by have := hi.bf2; omega
      have hsb1 : m.shrinkBelow > 1 := by
        rw [hi.sb, hh]
        calc 1 < 2 := by omega
          _ ≤ m.bf := hi.bf2
          _ = m.bf ^ 1 := (Nat.pow_one _).symm
          _ ≤ m.bf ^ (h' + 1) := Nat.pow_le_pow_right hbf (by omega)
      have hi' : Inv0 layer (shrinkStep m) := by
        constructor
        · simp only [shrinkStep, hh, Nat.add_sub_cancel]
          exact shrink_WF layer h' m.root (hh ▸ hi.wf)
        · simp only [shrinkStep]; rw [toList_shrink]; exact hi.sorted
        · exact hi.bf2
        · simp only [shrinkStep, hsb1, if_true, hh, Nat.add_sub_cancel]
          rw [hi.ga, hh, pow_div_self _ _ hbf]
        · simp only [shrinkStep, hsb1, if_true, hh, Nat.add_sub_cancel]
          rw [hi.sb, hh, pow_div_self _ _ hbf]
      apply ih _ hi'
      have e1 : (shrinkStep m).size = m.size := rfl
      have e2 : (shrinkStep m).height = h' := by simp [shrinkStep, hh]
      have e3 : (shrinkStep m).bf = m.bf := rfl
      have e4 : (shrinkStep m).root.toList = m.root.toList := toList_shrink m.root
      rw [e1, e2, e3, e4]
      rcases hcond with hsz | hless
      · left; rw [hi.sb, hh] at hsz; exact hsz
      · right
        intro e he
        have := (topEntryless_iff layer m.height m.root hi.wf).mp hless e he
        omega
    · exact h

end Tree
end Mast

namespace Mast
open T

namespace T
theorem mem_insL_of_mem {k v : Nat} {l : List Entry} {e : Entry} (he : e ∈ l) (hk : e.1 ≠ k) : e ∈ insL k v l := by
  induction l with
  | nil => cases he
  | cons x l ih =>
    obtain ⟨k', v'⟩ := x
    simp only [List.mem_cons] at he
    simp only [insL]
    split
    · rcases he with rfl | he
      · simp
      · exact List.mem_cons_of_mem _ (ih he)
    · split
      · next _ heq =>
        rcases he with rfl | he
        · exact absurd heq hk
        · exact List.mem_cons_of_mem _ he
      · rcases he with rfl | he
        · simp
        · simp [he]

/-- the key set of `insL k v l` is the key set of `l` plus `k` -/
theorem key_mem_insL {k v : Nat} {l : List Entry} (P : Nat → Prop) :
    (∃ e ∈ insL k v l, P e.1) ↔ (P k ∨ ∃ e ∈ l, P e.1) := by
  constructor
  · rintro ⟨e, he, hp⟩
    rcases mem_insL he with rfl | he
    · exact Or.inl hp
    · exact Or.inr ⟨e, he, hp⟩
  · rintro (hp | ⟨e, he, hp⟩)
    · exact ⟨(k, v), mem_insL_self k v l, hp⟩
    · by_cases hk : e.1 = k
      · exact ⟨(k, v), mem_insL_self k v l, hk ▸ hp⟩
      · exact ⟨e, mem_insL_of_mem he hk, hp⟩
end T

namespace Tree
variable (layer : Nat → Nat)

theorem insert_HOK (m m' : Tree) (k v : Nat) (hi : Inv layer m) (hh : HOK m.bf layer m.height m.toList)
    (hr : insert layer m k v = .ok m') : HOK m'.bf layer m'.height m'.toList := by
  obtain ⟨tgt, h1, h2, h3⟩ := levels_spec layer m k
  have hwf : WF layer (tgt + m.levels layer k) m.root := h1 ▸ hi.wf
  have hsome := ins_isSome layer k v m.root (m.levels layer k) tgt hwf h2 h3
  obtain ⟨r, hrr⟩ := Option.isSome_iff_exists.mp hsome
  have hrl := toList_ins layer k v m.root (m.levels layer k) tgt r hwf hi.sorted h2 h3 hrr
  have hrw : WF layer m.height r := h1 ▸ ins_WF layer k v m.root (m.levels layer k) tgt r hwf hi.sorted h2 h3 hrr
  have hlk := lookup_eq layer m k hi
  unfold insert at hr
  cases hl : m.lookup layer k with
  | some v' =>
    simp only [hl] at hr
    have hg : getL k m.toList = some v' := by rw [← hlk, hl]
    have hkmem : ∃ e ∈ m.toList, e.1 = k := ⟨(k, v'), getL_some_mem hg, rfl⟩
    by_cases hv : v' = v
    · simp only [hv, if_true] at hr
      injection hr with hr; subst hr; exact hh
    · simp only [hv, if_false, hrr] at hr
      injection hr with hr; subst hr
      simp only [Tree.toList] at hh ⊢
      rw [hrl]
      have hlen := length_insL_present (k := k) (v := v) _ hi.sorted hg
      simp only [Tree.toList] at hlen hkmem
      unfold HOK at hh ⊢
      rw [hlen]
      obtain ⟨a, b⟩ := hh
      refine ⟨?_, ?_⟩
      · rcases a with a | ⟨a1, e, he, hle⟩
        · exact Or.inl a
        · right; refine ⟨a1, ?_⟩
          exact (key_mem_insL (fun x => m.height ≤ layer x)).mpr (Or.inr ⟨e, he, hle⟩)
      · rcases b with b | b
        · exact Or.inl b
        · right
          intro e he
          rcases mem_insL he with rfl | he
          · obtain ⟨e', he', hk'⟩ := hkmem
            have := b e' he'; rw [hk'] at this; exact this
          · exact b e he
  | none =>
    simp only [hl, hrr] at hr
    injection hr with hr; subst hr
    have hg : getL k m.toList = none := by rw [← hlk, hl]
    have habs := getL_none_iff.mp hg
    have hi0 : Inv0 layer { m with root := r, rootP := false, dirty := true } :=
      ⟨hrw, by simp only; rw [hrl]; exact sorted_insL k v _ hi.sorted, hi.bf2, hi.ga, hi.sb⟩
    obtain ⟨g1, g2, g3, g4, _⟩ := growLoop_spec layer (m.size + 1) _ hi0
    have hlen : (insL k v m.root.toList).length = m.size + 1 := by
      have := length_insL_absent k v m.root.toList habs
      have := hi.size; omega
    simp only [Tree.toList]
    rw [g2, g4]
    simp only
    rw [hrl]
    unfold HOK
    rw [hlen]
    constructor
    · have := growLoop_HOK1 layer (m.size + 1) (m.size + 1) _ hi0 (by simp) (by
        simp only
        rcases hh.1 with a | ⟨a1, e, he, hle⟩
        · exact Or.inl a
        · right
          simp only [Tree.toList] at a1 he
          have := hi.size
          refine ⟨by omega, ?_⟩
          rw [hrl]
          exact (key_mem_insL (fun x => m.height ≤ layer x)).mpr (Or.inr ⟨e, he, hle⟩))
      rw [g2, g4] at this
      simp only at this
      rw [hrl] at this
      exact this
    · have hex := growLoop_exit layer (m.size + 1) _ hi0 (by
        simp only
        have := two_pow_gt (m.height + (m.size + 1) + 1)
        omega)
      rw [g3] at hex
      simp only at hex
      rw [g1.ga, g4] at hex
      simp only at hex
      by_cases hsz : m.size + 1 ≤ m.bf ^ ((growLoop layer (m.size + 1) { m with root := r, rootP := false, dirty := true }).height + 1)
      · exact Or.inl hsz
      · right
        have hge : m.size ≥ m.bf ^ ((growLoop layer (m.size + 1) { m with root := r, rootP := false, dirty := true }).height + 1) := by omega
        have hng : ¬ canGrow layer (growLoop layer (m.size + 1) { m with root := r, rootP := false, dirty := true }).height
            (growLoop layer (m.size + 1) { m with root := r, rootP := false, dirty := true }).root = true :=
          fun hc => hex ⟨hge, hc⟩
        rw [canGrow_iff layer _ _ g1.wf] at hng
        intro e he
        apply Decidable.byContradiction
        intro hgt
        apply hng
        refine ⟨e, ?_, by omega⟩
        rw [g2]; simp only; rw [hrl]; exact he

theorem delete_HOK (m m' : Tree) (k v : Nat) (hi : Inv layer m) (hh : HOK m.bf layer m.height m.toList)
    (hr : delete layer m k v = .ok m') : HOK m'.bf layer m'.height m'.toList := by
  obtain ⟨tgt, h1, h2, h3⟩ := levels_spec layer m k
  have hwf : WF layer (tgt + m.levels layer k) m.root := h1 ▸ hi.wf
  have hlk := lookup_eq layer m k hi
  unfold delete at hr
  cases hl : m.lookup layer k with
  | none => simp [hl] at hr
  | some v' =>
    simp only [hl] at hr
    by_cases hv : v' = v
    · subst hv
      simp only [ne_eq, not_true_eq_false, if_false] at hr
      cases hd : del k (m.levels layer k) m.root with
      | none => simp [hd] at hr
      | some r =>
        simp only [hd] at hr
        injection hr with hr; subst hr
        have hrl := toList_del layer k m.root (m.levels layer k) tgt r hwf hi.sorted h2 h3 hd
        have hrw : WF layer m.height r := h1 ▸ del_WF layer k m.root (m.levels layer k) tgt r hwf hi.sorted h2 h3 hd
        have hpres : getL k m.toList = some v' := by rw [← hlk, hl]
        have hi0 : Inv0 layer { m with root := r, rootP := false, dirty := true, size := m.size - 1 } :=
          ⟨hrw, by simp only; rw [hrl]; exact sorted_delL k _ hi.sorted, hi.bf2, hi.ga, hi.sb⟩
        obtain ⟨g1, g2, g3, g4⟩ := shrinkLoop_spec layer (m.height + 1) _ hi0
        have hlen : (delL k m.root.toList).length = m.size - 1 := by
          have := length_delL_present _ hi.sorted hpres
          have := hi.size; simp only [Tree.toList] at *; omega
        simp only [Tree.toList]
        rw [g2, g4]
        simp only
        rw [hrl]
        unfold HOK
        rw [hlen]
        constructor
        · have hex := shrinkLoop_exit (m.height + 1) { m with root := r, rootP := false, dirty := true, size := m.size - 1 } (by simp)
          rw [g3, g1.sb, g4] at hex
          simp only at hex
          by_cases h0 : (shrinkLoop (m.height + 1) { m with root := r, rootP := false, dirty := true, size := m.size - 1 }).height = 0
          · exact Or.inl h0
          · right
            have hpos : (shrinkLoop (m.height + 1) { m with root := r, rootP := false, dirty := true, size := m.size - 1 }).height > 0 := by omega
            have hnot : ¬ (m.size - 1 ≤ m.bf ^ (shrinkLoop (m.height + 1) { m with root := r, rootP := false, dirty := true, size := m.size - 1 }).height ∨
                topEntryless (shrinkLoop (m.height + 1) { m with root := r, rootP := false, dirty := true, size := m.size - 1 }).root = true) :=
              fun hc => hex ⟨hpos, hc⟩
            refine ⟨by omega, ?_⟩
            have hne : ¬ topEntryless (shrinkLoop (m.height + 1) { m with root := r, rootP := false, dirty := true, size := m.size - 1 }).root = true :=
              fun hc => hnot (Or.inr hc)
            rw [topEntryless_iff layer _ _ g1.wf] at hne
            apply Decidable.byContradiction
            intro hno
            apply hne
            intro e he
            apply Decidable.byContradiction
            intro hge
            apply hno
            refine ⟨e, ?_, by omega⟩
            rw [g2] at he; simp only at he; rw [hrl] at he; exact he
        · have := shrinkLoop_HOK2 layer (m.height + 1) _ hi0 (by
            simp only
            rcases hh.2 with b | b
            · left; simp only [Tree.toList] at b; have := hi.size; omega
            · right; intro e he; rw [hrl] at he; exact b e (mem_delL he))
          rw [g3, g4, g2] at this
          simp only at this
          rw [hrl] at this
          exact this
    · simp only [ne_eq, hv, not_false_eq_true, if_true] at hr
      cases hr

end Tree
end Mast
