import Mastverif.Lemmas.Build
import Mastverif.Lemmas.History
/-!
# The canonical height formula satisfies `HOK`; the invariant with height over histories
-/
namespace Mast
open T

theorem flog_zero_step (bf n : Nat) (h : ¬ (2 ≤ bf ∧ bf ≤ n)) : flog bf n = 0 := by
  rw [flog]; simp [h]

theorem flog_pos_step (bf n : Nat) (h : 2 ≤ bf ∧ bf ≤ n) : flog bf n = flog bf (n / bf) + 1 := by
  rw [flog]; simp [h]

/-- floor of the logarithm: bf^(flog n) ≤ n < bf^(flog n + 1) for n ≥ 1 -/
theorem flog_spec (bf : Nat) (hbf : 2 ≤ bf) : ∀ n : Nat, 1 ≤ n →
    bf ^ flog bf n ≤ n ∧ n < bf ^ (flog bf n + 1) := by
  intro n
  induction n using Nat.strongRecOn with
  | _ n ih =>
    intro hn
    by_cases hge : bf ≤ n
    · rw [flog_pos_step bf n ⟨hbf, hge⟩]
      have hlt : n / bf < n := Nat.div_lt_self (by omega) hbf
      have hq : 1 ≤ n / bf := Nat.div_pos hge (by omega)
      obtain ⟨h1, h2⟩ := ih (n / bf) hlt hq
      constructor
      · rw [Nat.pow_succ]
        calc bf ^ flog bf (n / bf) * bf ≤ (n / bf) * bf := Nat.mul_le_mul_right _ h1
          _ ≤ n := Nat.div_mul_le_self n bf
      · rw [Nat.pow_succ]
        have : n / bf + 1 ≤ bf ^ (flog bf (n / bf) + 1) := h2
        have h3 : n < (n / bf + 1) * bf := by
          have := Nat.lt_div_mul_add (a := n) (b := bf) (by omega)
          rw [Nat.add_mul, Nat.one_mul]; omega
        calc n < (n / bf + 1) * bf := h3
          _ ≤ bf ^ (flog bf (n / bf) + 1) * bf := Nat.mul_le_mul_right _ this
    · rw [flog_zero_step bf n (by intro h; exact hge h.2)]
      simp; omega

theorem foldl_max_ge (layer : Nat → Nat) : ∀ (l : List (Nat × Nat)) (a : Nat),
    a ≤ l.foldl (fun m e => max m (layer e.1)) a ∧
    ∀ e ∈ l, layer e.1 ≤ l.foldl (fun m e => max m (layer e.1)) a := by
  intro l
  induction l with
  | nil => intro a; simp
  | cons x l ih =>
    intro a
    simp only [List.foldl_cons]
    obtain ⟨h1, h2⟩ := ih (max a (layer x.1))
    constructor
    · have := Nat.le_max_left a (layer x.1); omega
    · intro e he
      simp only [List.mem_cons] at he
      rcases he with rfl | he
      · have := Nat.le_max_right a (layer e.1); omega
      · exact h2 e he

theorem foldl_max_attained (layer : Nat → Nat) : ∀ (l : List (Nat × Nat)) (a : Nat),
    l.foldl (fun m e => max m (layer e.1)) a = a ∨
    ∃ e ∈ l, layer e.1 = l.foldl (fun m e => max m (layer e.1)) a := by
  intro l
  induction l with
  | nil => intro a; simp
  | cons x l ih =>
    intro a
    simp only [List.foldl_cons]
    rcases ih (max a (layer x.1)) with h | ⟨e, he, hl⟩
    · rw [h]
      by_cases hc : a ≤ layer x.1
      · right; exact ⟨x, by simp, by rw [Nat.max_eq_right hc]⟩
      · left; rw [Nat.max_eq_left (by omega)]
    · right; exact ⟨e, by simp [he], hl⟩

theorem maxLayer_ge (layer : Nat → Nat) (l : List (Nat × Nat)) : ∀ e ∈ l, layer e.1 ≤ maxLayer layer l :=
  (foldl_max_ge layer l 0).2

theorem maxLayer_attained (layer : Nat → Nat) (l : List (Nat × Nat)) :
    maxLayer layer l = 0 ∨ ∃ e ∈ l, layer e.1 = maxLayer layer l :=
  foldl_max_attained layer l 0

/-- the formula of the property: height = min(highest key layer, floor(log_bf(size-1))), 0 below
    two entries — is a solution of `HOK`, hence (by `HOK_unique`) THE height of every tree -/
theorem canonHeight_HOK (bf : Nat) (hbf : 2 ≤ bf) (layer : Nat → Nat) (l : List (Nat × Nat)) :
    HOK bf layer (canonHeight bf layer l) l := by
  unfold canonHeight
  split
  · next hlt =>
    refine ⟨Or.inl rfl, Or.inl ?_⟩
    simp; omega
  · next hge =>
    have hlen : 1 ≤ l.length - 1 := by omega
    obtain ⟨f1, f2⟩ := flog_spec bf hbf (l.length - 1) hlen
    have hpos : 0 < bf := by omega
    constructor
    · by_cases h0 : min (maxLayer layer l) (flog bf (l.length - 1)) = 0
      · exact Or.inl h0
      · right
        constructor
        · have : bf ^ min (maxLayer layer l) (flog bf (l.length - 1)) ≤ bf ^ flog bf (l.length - 1) :=
            Nat.pow_le_pow_right hpos (Nat.min_le_right _ _)
          omega
        · rcases maxLayer_attained layer l with hz | ⟨e, he, hl⟩
          · rw [hz] at h0; simp at h0
          · exact ⟨e, he, by rw [hl]; exact Nat.min_le_left _ _⟩
    · by_cases hc : flog bf (l.length - 1) ≤ maxLayer layer l
      · left
        rw [Nat.min_eq_right hc]
        omega
      · right
        rw [Nat.min_eq_left (by omega)]
        exact maxLayer_ge layer l

namespace Tree
variable (layer : Nat → Nat)

/-- the full invariant: shape, order, size, thresholds, and the height rule -/
def InvH (m : Tree) : Prop := Inv layer m ∧ HOK m.bf layer m.height m.toList

theorem invH_empty (bf : Nat) (h : 2 ≤ bf) : InvH layer (Tree.empty bf) := by
  refine ⟨inv_empty layer bf h, Or.inl rfl, Or.inl ?_⟩
  simp [Tree.empty, Tree.toList, T.toList]

theorem stepT_bf (e : Enc) (m : Tree) (op : Op) (hi : Inv layer m) : (stepT layer e m op).1.bf = m.bf := by
  cases op with
  | ins k v =>
    obtain ⟨m', h1, _, _, h4⟩ := insert_spec layer m k v hi
    simp only [stepT, h1]; exact h4
  | del k v =>
    by_cases hp : getL k m.toList = some v
    · obtain ⟨m', h1, _, _, h4⟩ := delete_spec layer m k v hi hp
      simp only [stepT, h1]; exact h4
    · obtain ⟨er, h1⟩ := delete_absent layer m k v hi hp
      simp only [stepT, h1]
  | get k => rfl
  | iter => rfl
  | size => rfl
  | persist =>
    simp only [stepT]
    unfold makeRoot
    split
    · rfl
    · split <;> rfl

theorem invH_step (e : Enc) (m : Tree) (op : Op) (hi : InvH layer m) : InvH layer (stepT layer e m op).1 := by
  obtain ⟨hinv, hh⟩ := hi
  refine ⟨(step_refines layer e m op hinv).2.1, ?_⟩
  cases op with
  | ins k v =>
    obtain ⟨m', h1, _, _, _⟩ := insert_spec layer m k v hinv
    simp only [stepT, h1]
    exact insert_HOK layer m m' k v hinv hh h1
  | del k v =>
    by_cases hp : getL k m.toList = some v
    · obtain ⟨m', h1, _, _, _⟩ := delete_spec layer m k v hinv hp
      simp only [stepT, h1]
      exact delete_HOK layer m m' k v hinv hh h1
    · obtain ⟨er, h1⟩ := delete_absent layer m k v hinv hp
      simp only [stepT, h1]; exact hh
  | get k => exact hh
  | iter => exact hh
  | size => exact hh
  | persist =>
    simp only [stepT]
    have h2 := (inv_makeRoot layer e m hinv).2
    rw [h2]
    have hb : (makeRoot e m).2.2.bf = m.bf := by
      unfold makeRoot; split
      · rfl
      · split <;> rfl
    have hht : (makeRoot e m).2.2.height = m.height := by
      unfold makeRoot; split
      · rfl
      · split <;> rfl
    rw [hb, hht]; exact hh

theorem invH_execT (e : Enc) : ∀ (ops : List Op) (m : Tree), InvH layer m → InvH layer (execT layer e m ops) := by
  intro ops
  induction ops with
  | nil => intro m hi; exact hi
  | cons op ops ih => intro m hi; exact ih _ (invH_step layer e m op hi)

theorem bf_execT (e : Enc) : ∀ (ops : List Op) (m : Tree), Inv layer m → (execT layer e m ops).bf = m.bf := by
  intro ops
  induction ops with
  | nil => intro m _; rfl
  | cons op ops ih =>
    intro m hi
    simp only [execT]
    rw [ih _ (step_refines layer e m op hi).2.1, stepT_bf layer e m op hi]

end Tree
end Mast
