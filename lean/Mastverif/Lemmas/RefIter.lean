import Mastverif.Lemmas.RefLoad
/-! `Iter` only loads: it is an allocation-only step, so every tree denotes what it denoted. -/
namespace Mast.Ptr
open Mast.Heap

theorem iterLinks_spec {m : Nat} (g : HLink → M Unit)
    (hgs : ∀ l s, Good s → Spec (Grow m) (g l) s (fun _ _ => True)) :
    ∀ (ls : List HLink) (s : PS), Good s → Spec (Grow m) (iterLinks g ls) s (fun _ _ => True) := by
  intro ls
  induction ls with
  | nil => intro s _; unfold iterLinks; exact Spec.pure trivial
  | cons l ls ih =>
    intro s hg
    cases l with
    | nil => unfold iterLinks; exact ih s hg
    | ptr c =>
      unfold iterLinks
      refine Spec.bind (hgs (.ptr c) s hg) ?_
      intro _ s1 _ hgr _
      exact ih s1 (hgr.good hg)
    | ref n =>
      unfold iterLinks
      refine Spec.bind (hgs (.ref n) s hg) ?_
      intro _ s1 _ hgr _
      exact ih s1 (hgr.good hg)

theorem iterAll_spec {m : Nat} (E : Env) : ∀ (f : Nat) (l : HLink) (s : PS), Good s →
    Spec (Grow m) (iterAll E f l) s (fun _ _ => True) := by
  intro f
  induction f with
  | zero => intro l s _; exact Spec.oof
  | succ f ih =>
    intro l s hg
    unfold iterAll
    refine Spec.bind (load_spec (m := m) E l s hg) ?_
    intro a s1 _ hgr1 _
    refine Spec.bind (read_spec a s1) ?_
    rintro nd s2 _ _ ⟨rfl, _⟩
    exact iterLinks_spec _ ih nd.links s1 (hgr1.good hg)

/-- **Iter** reads only: on `.ok` / `.err` the step is allocation-only (for any owner tag `m`), the invariant is kept -/
theorem iterAll_refines (E : Env) (fuel m : Nat) (l : HLink) (s : PS) (hg : Good s) :
    match iterAll E fuel l s with
    | .ok _ s' => Grow m s s' ∧ Good s'
    | .err s' => Grow m s s' ∧ Good s'
    | _ => True := by
  have h := iterAll_spec (m := m) E fuel l s hg
  unfold Spec at h
  cases hr : iterAll E fuel l s with
  | ok r s' => rw [hr] at h; exact ⟨h.1, h.1.good hg⟩
  | err s' => rw [hr] at h; exact ⟨h, h.good hg⟩
  | stuck => trivial
  | panic => trivial
  | oof => trivial

/-- … hence every tree of the system denotes what it denoted, with the same footprint, still owned -/
theorem iterAll_trees (E : Env) (fuel : Nat) (l : HLink) (s s' : PS) (hg : Good s)
    (h : (∃ r, iterAll E fuel l s = .ok r s') ∨ iterAll E fuel l s = .err s')
    {g : Nat} {t : PTree} {A : Tree} (hA : repTree s g t = some A) (hown : FpOwned s.heap t.id (footprint s g t)) :
    repTree s' g t = some A ∧ FpOwned s'.heap t.id (footprint s' g t) ∧ footprint s' g t = footprint s g t := by
  have hr := iterAll_refines E fuel 0 l s hg
  rcases h with ⟨r, h⟩ | h
  · rw [h] at hr; exact hr.1.tree hA hown
  · rw [h] at hr; exact hr.1.tree hA hown

end Mast.Ptr
