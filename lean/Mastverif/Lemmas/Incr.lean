import Mastverif.Lemmas.Clean
/-!
# Incremental persistence: what is dirty lies on the paths of the modified keys

`DR M lo hi t`: in the row `t`, whose keys lie between the separators `lo` and `hi` of its
ancestors, every child link is nil, or a name whose whole subtree is persisted (`AllP`), or an
in-memory node (a node the next flush writes) whose closed key range contains one of the
modified keys `M` — and so on below.  Insert and Delete (without a change of height) preserve it
when their key is added to `M`.
-/
set_option linter.unusedSimpArgs false
namespace Mast
namespace T

def loLe : Option Nat → Nat → Prop
  | none, _ => True
  | some l, m => l ≤ m

def leHi : Nat → Option Nat → Prop
  | _, none => True
  | m, some h => m ≤ h

@[simp] theorem loLe_none (m : Nat) : loLe none m = True := rfl
@[simp] theorem loLe_some (l m : Nat) : loLe (some l) m = (l ≤ m) := rfl
@[simp] theorem leHi_none (m : Nat) : leHi m none = True := rfl
@[simp] theorem leHi_some (m h : Nat) : leHi m (some h) = (m ≤ h) := rfl

/-- a modified key lies in the closed range `[lo, hi]` -/
def Hit (M : List Nat) (lo hi : Option Nat) : Prop := ∃ m ∈ M, loLe lo m ∧ leHi m hi

def AllP : T → Prop
  | nil => True
  | last p c => p = true ∧ AllP c
  | cons p c _ _ r => p = true ∧ AllP c ∧ AllP r

theorem allP_persistAll : ∀ t : T, AllP (persistAll t) := by
  intro t
  induction t with
  | nil => trivial
  | last p c ih => exact ⟨rfl, ih⟩
  | cons p c k v r ihc ihr => exact ⟨rfl, ihc, ihr⟩

def DR (M : List Nat) : Option Nat → Option Nat → T → Prop
  | _, _, nil => True
  | lo, hi, last p c =>
      c.isNil = true ∨ (p = true ∧ AllP c) ∨ (p = false ∧ Hit M lo hi ∧ DR M lo hi c)
  | lo, hi, cons p c k _ r =>
      (c.isNil = true ∨ (p = true ∧ AllP c) ∨ (p = false ∧ Hit M lo (some k) ∧ DR M lo (some k) c)) ∧
      DR M (some k) hi r

theorem allP_DR (M : List Nat) : ∀ (t : T) (lo hi : Option Nat), AllP t → DR M lo hi t := by
  intro t
  induction t with
  | nil => intros; trivial
  | last p c _ => intro lo hi h; exact Or.inr (Or.inl h)
  | cons p c k v r _ ihr =>
    intro lo hi h
    exact ⟨Or.inr (Or.inl ⟨h.1, h.2.1⟩), ihr (some k) hi h.2.2⟩

theorem hit_mono {M M' : List Nat} (hm : ∀ m ∈ M, m ∈ M') {lo hi : Option Nat} (h : Hit M lo hi) : Hit M' lo hi := by
  obtain ⟨m, hm1, hm2⟩ := h
  exact ⟨m, hm m hm1, hm2⟩

theorem DR_mono {M M' : List Nat} (hm : ∀ m ∈ M, m ∈ M') : ∀ (t : T) (lo hi : Option Nat), DR M lo hi t → DR M' lo hi t := by
  intro t
  induction t with
  | nil => intros; trivial
  | last p c ih =>
    intro lo hi h
    rcases h with h | h | ⟨h1, h2, h3⟩
    · exact Or.inl h
    · exact Or.inr (Or.inl h)
    · exact Or.inr (Or.inr ⟨h1, hit_mono hm h2, ih lo hi h3⟩)
  | cons p c k v r ihc ihr =>
    intro lo hi h
    refine ⟨?_, ihr _ _ h.2⟩
    rcases h.1 with h | h | ⟨h1, h2, h3⟩
    · exact Or.inl h
    · exact Or.inr (Or.inl h)
    · exact Or.inr (Or.inr ⟨h1, hit_mono hm h2, ihc _ _ h3⟩)

/-- widening the outer separators keeps the invariant -/
theorem DR_widen (M : List Nat) : ∀ (t : T) (lo hi lo' hi' : Option Nat), DR M lo hi t →
    (∀ m, loLe lo m → loLe lo' m) → (∀ m, leHi m hi → leHi m hi') → DR M lo' hi' t := by
  intro t
  induction t with
  | nil => intros; trivial
  | last p c ih =>
    intro lo hi lo' hi' h hl hh
    rcases h with h | h | ⟨h1, ⟨m, hm, hm1, hm2⟩, h3⟩
    · exact Or.inl h
    · exact Or.inr (Or.inl h)
    · exact Or.inr (Or.inr ⟨h1, ⟨m, hm, hl m hm1, hh m hm2⟩, ih _ _ _ _ h3 hl hh⟩)
  | cons p c k v r ihc ihr =>
    intro lo hi lo' hi' h hl hh
    refine ⟨?_, ihr _ _ _ _ h.2 (fun _ x => x) hh⟩
    rcases h.1 with h | h | ⟨h1, ⟨m, hm, hm1, hm2⟩, h3⟩
    · exact Or.inl h
    · exact Or.inr (Or.inl h)
    · exact Or.inr (Or.inr ⟨h1, ⟨m, hm, hl m hm1, hm2⟩, ihc _ _ _ _ h3 hl (fun _ x => x)⟩)

/-- the subtree behind a link of a row satisfying `DR` satisfies it too -/
theorem DR_child {M : List Nat} {lo hi : Option Nat} {p : Bool} {c : T}
    (h : c.isNil = true ∨ (p = true ∧ AllP c) ∨ (p = false ∧ Hit M lo hi ∧ DR M lo hi c)) : DR M lo hi c := by
  rcases h with h | h | h
  · have : c = nil := by cases c <;> simp_all [isNil]
    subst this; trivial
  · exact allP_DR M c lo hi h.2
  · exact h.2.2

theorem DR_mk {M : List Nat} {lo hi : Option Nat} {t : T} (h : DR M lo hi t) : DR M lo hi (mk t) := by
  unfold mk
  split
  · trivial
  · exact h

/-- an in-memory link whose range contains the key being modified -/
theorem link_hit {M : List Nat} {lo hi : Option Nat} {k : Nat} {c : T} (hl : loLe lo k) (hh : leHi k hi)
    (h : DR (k :: M) lo hi c) :
    c.isNil = true ∨ (false = true ∧ AllP c) ∨ (false = false ∧ Hit (k :: M) lo hi ∧ DR (k :: M) lo hi c) :=
  Or.inr (Or.inr ⟨rfl, ⟨k, by simp, hl, hh⟩, h⟩)

theorem split_DR (M : List Nat) (x : Nat) : ∀ (t : T) (lo hi : Option Nat), DR M lo hi t → loLe lo x → leHi x hi →
    DR (x :: M) lo (some x) (split t x).1 ∧ DR (x :: M) (some x) hi (split t x).2 := by
  have mono : ∀ m ∈ M, m ∈ x :: M := fun m hm => by simp [hm]
  intro t
  induction t with
  | nil => intros; exact ⟨trivial, trivial⟩
  | last p c ih =>
    intro lo hi h hl hh
    obtain ⟨i1, i2⟩ := ih lo hi (DR_child h) hl hh
    simp only [split]
    exact ⟨link_hit hl (by simp) (DR_mk i1), link_hit (by simp) hh (DR_mk i2)⟩
  | cons p c k v r ihc ihr =>
    intro lo hi h hl hh
    simp only [split]
    by_cases hk : k < x
    · simp only [hk, if_true]
      obtain ⟨i1, i2⟩ := ihr (some k) hi h.2 (by simp; omega) hh
      refine ⟨⟨?_, i1⟩, i2⟩
      rcases h.1 with h1 | h1 | ⟨h1, h2, h3⟩
      · exact Or.inl h1
      · exact Or.inr (Or.inl h1)
      · exact Or.inr (Or.inr ⟨h1, hit_mono mono h2, DR_mono mono _ _ _ h3⟩)
    · simp only [hk, if_false]
      obtain ⟨i1, i2⟩ := ihc lo (some k) (DR_child h.1) hl (by simp; omega)
      exact ⟨link_hit hl (by simp) (DR_mk i1),
        ⟨link_hit (by simp) (by simp; omega) (DR_mk i2), DR_mono mono _ _ _ h.2⟩⟩

theorem fresh_DR (M : List Nat) (k v : Nat) (lo hi : Option Nat) (hl : loLe lo k) (hh : leHi k hi) :
    ∀ s, DR (k :: M) lo hi (freshPath s k v) := by
  intro s
  induction s with
  | zero => exact ⟨Or.inl rfl, Or.inl rfl⟩
  | succ s ih => exact link_hit hl hh ih

/-- **Insert** keeps the invariant, with its key added to the modified keys -/
theorem ins_DR (M : List Nat) (k v : Nat) : ∀ (t : T) (s : Nat) (lo hi : Option Nat) (t' : T), DR M lo hi t →
    loLe lo k → leHi k hi → ins k v s t = some t' → DR (k :: M) lo hi t' := by
  have mono : ∀ m ∈ M, m ∈ k :: M := fun m hm => by simp [hm]
  have keep : ∀ {lo hi : Option Nat} {p : Bool} {c : T},
      (c.isNil = true ∨ (p = true ∧ AllP c) ∨ (p = false ∧ Hit M lo hi ∧ DR M lo hi c)) →
      (c.isNil = true ∨ (p = true ∧ AllP c) ∨ (p = false ∧ Hit (k :: M) lo hi ∧ DR (k :: M) lo hi c)) := by
    intro lo hi p c h
    rcases h with h1 | h1 | ⟨h1, h2, h3⟩
    · exact Or.inl h1
    · exact Or.inr (Or.inl h1)
    · exact Or.inr (Or.inr ⟨h1, hit_mono mono h2, DR_mono mono _ _ _ h3⟩)
  intro t
  induction t with
  | nil =>
    intro s lo hi t' _ hl hh he
    cases s <;> (simp only [ins, Option.some.injEq] at he; subst he; exact fresh_DR M k v lo hi hl hh _)
  | last p c ih =>
    intro s lo hi t' h hl hh he
    cases s with
    | zero =>
      simp only [ins, Option.some.injEq] at he
      subst he
      obtain ⟨i1, i2⟩ := split_DR M k c lo hi (DR_child h) hl hh
      exact ⟨link_hit hl (by simp) (DR_mk i1), link_hit (by simp) hh (DR_mk i2)⟩
    | succ s =>
      simp only [ins] at he
      cases hc : ins k v s c with
      | none => simp [hc] at he
      | some c' =>
        simp only [hc, Option.map_some, Option.some.injEq] at he
        subst he
        exact link_hit hl hh (ih s lo hi c' (DR_child h) hl hh hc)
  | cons p c k' v' r ihc ihr =>
    intro s lo hi t' h hl hh he
    have recR : ∀ s, k' < k → ∀ r', ins k v s r = some r' → DR (k :: M) lo hi (cons p c k' v' r') := by
      intro s hlt r' hr
      exact ⟨keep h.1, ihr s (some k') hi r' h.2 (by simp; omega) hh hr⟩
    cases s with
    | zero =>
      simp only [ins] at he
      by_cases h1 : k' < k
      · simp only [h1, if_true] at he
        cases hr : ins k v 0 r with
        | none => simp [hr] at he
        | some r' =>
          simp only [hr, Option.map_some, Option.some.injEq] at he
          subst he
          exact recR 0 h1 r' hr
      · by_cases h2 : k' = k
        · subst h2
          simp only [Nat.lt_irrefl, if_false, if_true, Option.some.injEq] at he
          subst he
          exact ⟨keep h.1, DR_mono mono _ _ _ h.2⟩
        · simp only [h1, h2, if_false, Option.some.injEq] at he
          subst he
          obtain ⟨i1, i2⟩ := split_DR M k c lo (some k') (DR_child h.1) hl (by simp; omega)
          exact ⟨link_hit hl (by simp) (DR_mk i1),
            ⟨link_hit (by simp) (by simp; omega) (DR_mk i2), DR_mono mono _ _ _ h.2⟩⟩
    | succ s =>
      simp only [ins] at he
      by_cases h1 : k' < k
      · simp only [h1, if_true] at he
        cases hr : ins k v (s + 1) r with
        | none => simp [hr] at he
        | some r' =>
          simp only [hr, Option.map_some, Option.some.injEq] at he
          subst he
          exact recR (s + 1) h1 r' hr
      · by_cases h2 : k' = k
        · simp [h1, h2] at he
        · simp only [h1, h2, if_false] at he
          cases hc : ins k v s c with
          | none => simp [hc] at he
          | some c' =>
            simp only [hc, Option.map_some, Option.some.injEq] at he
            subst he
            exact ⟨link_hit hl (by simp; omega) (ihc s lo (some k') c' (DR_child h.1) hl (by simp; omega) hc),
              DR_mono mono _ _ _ h.2⟩

/-- `mergeNodes`: the keys of `a` are not above `k`, those of `b` not below; every node built
    along the merged spine has `k` in its range -/
theorem mergeRow_DR (M : List Nat) (k : Nat) : ∀ (a b : T) (lo hi : Option Nat),
    DR (k :: M) lo (some k) a → DR (k :: M) (some k) hi b → loLe lo k → leHi k hi →
    (∀ e ∈ toList a, e.1 ≤ k) → (∀ e ∈ toList b, k ≤ e.1) → DR (k :: M) lo hi (mergeRow a b) := by
  intro a
  induction a with
  | nil =>
    intro b lo hi _ hb hl _ _ _
    simp only [mergeRow]
    exact DR_widen _ b _ _ _ _ hb (fun m hm => by cases lo <;> simp_all <;> omega) (fun _ x => x)
  | cons p c k1 v rest _ ihr =>
    intro b lo hi ha hb hl hh hka hkb
    simp only [mergeRow]
    have hk1 : k1 ≤ k := hka (k1, v) (by simp [toList])
    exact ⟨ha.1, ihr b (some k1) hi ha.2 hb (by simpa using hk1) hh
      (fun e he => hka e (by simp [toList, he])) hkb⟩
  | last p c ih =>
    intro b lo hi ha hb hl hh hka hkb
    have widenHi : DR (k :: M) lo hi (last p c) :=
      DR_widen _ _ _ _ _ _ ha (fun _ x => x) (fun m hm => by cases hi <;> simp_all <;> omega)
    have hc : DR (k :: M) lo (some k) c := DR_child ha
    cases b with
    | nil => simpa [mergeRow] using widenHi
    | last p2 c2 =>
      simp only [mergeRow]
      by_cases h1 : c.isNil = true
      · simp only [h1, if_true]
        exact DR_widen _ _ _ _ _ _ hb (fun m hm => by cases lo <;> simp_all <;> omega) (fun _ x => x)
      · by_cases h2 : c2.isNil = true
        · simp only [h1, h2, if_false, if_true]; exact widenHi
        · simp only [h1, h2, if_false]
          exact link_hit hl hh (ih c2 lo hi hc (DR_child hb) hl hh
            (fun e he => hka e (by simpa [toList] using he)) (fun e he => hkb e (by simpa [toList] using he)))
    | cons p2 c2 k2 v2 r2 =>
      have hk2 : k ≤ k2 := hkb (k2, v2) (by simp [toList])
      simp only [mergeRow]
      by_cases h1 : c.isNil = true
      · simp only [h1, if_true]
        exact DR_widen _ _ _ _ _ _ hb (fun m hm => by cases lo <;> simp_all <;> omega) (fun _ x => x)
      · by_cases h2 : c2.isNil = true
        · simp only [h1, h2, if_false, if_true]
          refine ⟨?_, hb.2⟩
          have := DR_widen _ _ _ _ lo (some k2) ha (fun _ x => x) (fun m hm => by simp_all; omega)
          exact this
        · simp only [h1, h2, if_false]
          exact ⟨link_hit hl (by simpa using hk2) (ih c2 lo (some k2) hc (DR_child hb.1) hl (by simpa using hk2)
            (fun e he => hka e (by simpa [toList] using he)) (fun e he => hkb e (by simp [toList, he]))), hb.2⟩

/-- `deleteEntry`: the entry `k` between the link `(p, c)` and the row `r` is removed -/
theorem joinAt_DR (M : List Nat) (k : Nat) (p : Bool) (c : T) : ∀ (r : T) (lo hi : Option Nat),
    DR (k :: M) lo (some k) (last p c) → DR (k :: M) (some k) hi r → loLe lo k → leHi k hi →
    (∀ e ∈ toList c, e.1 ≤ k) → (∀ e ∈ toList r, k ≤ e.1) → DR (k :: M) lo hi (joinAt p c r) := by
  intro r lo hi ha hb hl hh hka hkb
  have hc : DR (k :: M) lo (some k) c := DR_child ha
  cases r with
  | nil => trivial
  | last p2 c2 =>
    simp only [joinAt]
    by_cases h1 : c.isNil = true
    · simp only [h1, if_true]
      exact DR_widen _ _ _ _ _ _ hb (fun m hm => by cases lo <;> simp_all <;> omega) (fun _ x => x)
    · by_cases h2 : c2.isNil = true
      · simp only [h1, h2, if_false, if_true]
        exact DR_widen _ _ _ _ _ _ ha (fun _ x => x) (fun m hm => by cases hi <;> simp_all <;> omega)
      · simp only [h1, h2, if_false]
        exact link_hit hl hh (mergeRow_DR M k c c2 lo hi hc (DR_child hb) hl hh hka
          (fun e he => hkb e (by simpa [toList] using he)))
  | cons p2 c2 k2 v2 r2 =>
    have hk2 : k ≤ k2 := hkb (k2, v2) (by simp [toList])
    simp only [joinAt]
    by_cases h1 : c.isNil = true
    · simp only [h1, if_true]
      exact DR_widen _ _ _ _ _ _ hb (fun m hm => by cases lo <;> simp_all <;> omega) (fun _ x => x)
    · by_cases h2 : c2.isNil = true
      · simp only [h1, h2, if_false, if_true]
        exact ⟨DR_widen _ _ _ _ lo (some k2) ha (fun _ x => x) (fun m hm => by simp_all; omega), hb.2⟩
      · simp only [h1, h2, if_false]
        exact ⟨link_hit hl (by simpa using hk2) (mergeRow_DR M k c c2 lo (some k2) hc (DR_child hb.1) hl
          (by simpa using hk2) hka (fun e he => hkb e (by simp [toList, he]))), hb.2⟩

/-- **Delete** keeps the invariant, with its key added to the modified keys -/
theorem del_DR (M : List Nat) (k : Nat) : ∀ (t : T) (s : Nat) (lo hi : Option Nat) (t' : T), DR M lo hi t →
    Sorted (toList t) → loLe lo k → leHi k hi → del k s t = some t' → DR (k :: M) lo hi t' := by
  have mono : ∀ m ∈ M, m ∈ k :: M := fun m hm => by simp [hm]
  have keep : ∀ {lo hi : Option Nat} {p : Bool} {c : T},
      (c.isNil = true ∨ (p = true ∧ AllP c) ∨ (p = false ∧ Hit M lo hi ∧ DR M lo hi c)) →
      (c.isNil = true ∨ (p = true ∧ AllP c) ∨ (p = false ∧ Hit (k :: M) lo hi ∧ DR (k :: M) lo hi c)) := by
    intro lo hi p c h
    rcases h with h1 | h1 | ⟨h1, h2, h3⟩
    · exact Or.inl h1
    · exact Or.inr (Or.inl h1)
    · exact Or.inr (Or.inr ⟨h1, hit_mono mono h2, DR_mono mono _ _ _ h3⟩)
  intro t
  induction t with
  | nil => intro s lo hi t' _ _ _ _ he; cases s <;> simp [del] at he
  | last p c ih =>
    intro s lo hi t' h hs hl hh he
    cases s with
    | zero => simp [del] at he
    | succ s =>
      simp only [del] at he
      cases hc : del k s c with
      | none => simp [hc] at he
      | some c' =>
        simp only [hc, Option.map_some, Option.some.injEq] at he
        subst he
        exact link_hit hl hh (DR_mk (ih s lo hi c' (DR_child h) (by simpa [toList] using hs) hl hh hc))
  | cons p c k' v' r ihc ihr =>
    intro s lo hi t' h hs hl hh he
    simp only [toList] at hs
    obtain ⟨sc, sr, hcr⟩ := sorted_append hs
    have sr' := sorted_tail sr
    have recR : ∀ s, k' < k → ∀ r', del k s r = some r' → DR (k :: M) lo hi (cons p c k' v' r') := by
      intro s hlt r' hr
      exact ⟨keep h.1, ihr s (some k') hi r' h.2 sr' (by simp; omega) hh hr⟩
    cases s with
    | zero =>
      simp only [del] at he
      by_cases h1 : k' < k
      · simp only [h1, if_true] at he
        cases hr : del k 0 r with
        | none => simp [hr] at he
        | some r' =>
          simp only [hr, Option.map_some, Option.some.injEq] at he
          subst he
          exact recR 0 h1 r' hr
      · by_cases h2 : k' = k
        · subst h2
          simp only [Nat.lt_irrefl, if_false, if_true, Option.some.injEq] at he
          subst he
          apply joinAt_DR M k' p c r lo hi (keep h.1) (DR_mono mono _ _ _ h.2) hl hh
          · intro e he
            have := hcr e he (k', v') (by simp)
            simp at this; omega
          · intro e he
            have : Sorted ((k', v') :: toList r) := sr
            simp only [Sorted, List.pairwise_cons] at this
            have := this.1 e he
            omega
        · simp [h1, h2] at he
    | succ s =>
      simp only [del] at he
      by_cases h1 : k' < k
      · simp only [h1, if_true] at he
        cases hr : del k (s + 1) r with
        | none => simp [hr] at he
        | some r' =>
          simp only [hr, Option.map_some, Option.some.injEq] at he
          subst he
          exact recR (s + 1) h1 r' hr
      · by_cases h2 : k' = k
        · simp [h2] at he
        · simp only [h1, h2, if_false] at he
          cases hc : del k s c with
          | none => simp [hc] at he
          | some c' =>
            simp only [hc, Option.map_some, Option.some.injEq] at he
            subst he
            exact ⟨link_hit hl (by simp; omega)
              (DR_mk (ihc s lo (some k') c' (DR_child h.1) sc hl (by simp; omega) hc)), DR_mono mono _ _ _ h.2⟩

end T
end Mast
