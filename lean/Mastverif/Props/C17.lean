import Mastverif.Lemmas.FS
/-!
# C17 — the file store never exposes or keeps a partial node (property theorems, partial)

On the step model `FS.storeCut` of the repaired `Store` (stat; create temp; write byte by byte;
close+chmod; rename), for EVERY cut point — after any step, after any byte:
* a later load of the name is either "not found" or the complete bytes (`C17_atomic`);
* storing again after the cut ends with the complete bytes (`C17_repair`);
* an uncut run leaves the complete bytes (`C17_success_complete`).
Partial: that `rename` is atomic and what survives a power loss without `fsync` are operating
system behaviour, assumed.  Tie: family `filecrash` (the real Store in a child process under
RLIMIT_FSIZE for every cut offset, killed or failing with EFBIG).
-/
namespace Mast.FS

/-- every cut point: the name is absent or complete, never partial -/
theorem C17_atomic (d : Dir) (name : String) (bytes : Bytes) (cut : Nat)
    (hfresh : KV.load d name = none) :
    KV.load (storeCut d name bytes cut) name = none ∨
    KV.load (storeCut d name bytes cut) name = some bytes :=
  atomic_cut d name bytes cut hfresh

theorem C17_success_complete (d : Dir) (name : String) (bytes : Bytes)
    (hfresh : KV.load d name = none) :
    KV.load (storeCut d name bytes (complete name bytes)) name = some bytes :=
  success_complete d name bytes hfresh

/-- after any cut, an uncut second store leaves the complete bytes -/
theorem C17_repair (d : Dir) (name : String) (bytes : Bytes) (cut : Nat)
    (hfresh : KV.load d name = none) :
    KV.load (storeCut (storeCut d name bytes cut) name bytes (complete name bytes)) name = some bytes :=
  repair_after_cut d name bytes cut hfresh

/-- non-vacuity: 3 bytes cut after 1 byte: absent, then repaired -/
example : KV.load (storeCut [] "n" [1, 2, 3] 3) "n" = none ∧
    KV.load (storeCut (storeCut [] "n" [1, 2, 3] 3) "n" [1, 2, 3] (complete "n" [1, 2, 3])) "n" = some [1, 2, 3] := by
  decide

end Mast.FS
#print axioms Mast.FS.C17_atomic
#print axioms Mast.FS.C17_success_complete
#print axioms Mast.FS.C17_repair
