import Mastverif.Props.C03O
/-!
# C05 at the level of node objects: persist, then open the returned root

`flush_refines` gives the name `n` that `MakeRoot` returns.  A `Mast` record built from the `Root`
that carries this name — any owner tag (another process, another `LoadMast`), the same size /
height / branch factor / thresholds, root link = the name — denotes, in the state the call left
and with NO object of its own, exactly the tree that was persisted: the same entries in the same
shape with every node resident in the store (`flushedTree`), clean.  Everything the object-level
operations then do on it is governed by that denotation (`Props/C01O.lean`: `Get` / `Insert` /
`Delete` / `Iter` compute the functional operations of the tree denoted), so the reloaded version
behaves as the original did.  (Byte-level encoding and decoding of nodes is the subject of
`Props/C05.lean`; at this level a stored node is its content.)
-/
namespace Mast.Ptr
open Mast.Heap Mast

theorem C05_object_level_persist_then_load (E : Env) (t t' : PTree) (fuel g n : Nat) (s s' : PS) (A : Tree)
    (hg : Good s) (hsrc : SourceOK s) (hsd : StoreDen s.store) (hown : FpOwned s.heap t.id (footprint s g t))
    (hA : repTree s g t = some A) (h : flush E t fuel s = .ok (t', n) s') (hn : n ≠ 0)
    (t2 : PTree) (hroot : t2.root = .ref n) (hsz : t2.size = t.size) (hh : t2.height = t.height)
    (hbf : t2.bf = t.bf) (hga : t2.growAfter = t.growAfter) (hsb : t2.shrinkBelow = t.shrinkBelow) :
    repTree s' g t2 = some (flushedTree A) ∧ (flushedTree A).toList = A.toList ∧
    footprint s' g t2 = [] ∧ FpOwned s'.heap t2.id (footprint s' g t2) ∧ Good s' := by
  obtain ⟨hg', _, _, _, hok⟩ := flush_refines E t t' fuel g n s s' A hg hsrc hsd hown hA h
  rcases hok with ⟨h0, _⟩ | ⟨_, _, ht', hrep, hfp, _⟩
  · exact absurd h0 hn
  · have e1 : repTree s' g t2 = repTree s' g t' := by
      subst ht'
      unfold repTree
      simp only [hroot, hsz, hh, hbf, hga, hsb, rootDirty]
    have e2 : footprint s' g t2 = footprint s' g t' := by
      subst ht'
      unfold footprint
      simp only [hroot]
    refine ⟨e1.trans hrep, flushedTree_toList A, e2.trans hfp, ?_, hg'⟩
    rw [e2, hfp]
    intro a ha
    exact nomatch ha

/-- non-vacuity (kernel-checked): in the system reached by `hxOps`, a record with ANOTHER owner tag built from
    the persisted tree 1's root name and numbers denotes that tree's entries -/
example : (hxSys.trees[1]?.bind fun t => (repTree hxSys.ps 10 { t with id := 77 }).map fun B => (B.toList, B.dirty, B.rootP)) =
      some ([(3, 30), (4, 40), (5, 50), (6, 60), (8, 80)], false, true) := by decide +kernel

end Mast.Ptr
#print axioms Mast.Ptr.C05_object_level_persist_then_load
