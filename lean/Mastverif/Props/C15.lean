import Mastverif.Lemmas.DiffLinks
import Mastverif.Lemmas.History
/-!
# C15 — diff cost (property theorems, partial)

Proved on the literal `diffOne` model (`Diff.step`, whose load trace agrees as a set of names
with the names the Go code passes to `Persist.Load`: family `diffcost`):
* `C15_same_version_reads_nothing`: diffing a persisted version with itself performs no load at
  all and reports nothing, whatever the tree;
* `C15_equal_links_skipped`: whenever the two stack tops are the same persisted link, the step
  drops both without loading anything — the mechanism by which common subtrees are skipped.
NOT provable, because false of the current code: the bound `2·D + 2` on distinct reads (see
DESIGN.md §4 and known_findings.txt: a link facing an entry is opened, which walks down the
spine of a common subtree).  `C15_bound_2D_plus_2_fails_in_the_model` is the negation with a
concrete witness, checked by the kernel: the two versions are produced by the model's own
Insert from the empty tree (the history of findings/C15-spine.json: 32 keys at branch factor 2,
then one more key of the top layer to the left of an unchanged subtree) — D = 4 nodes belong to
exactly one version (bound 10), the literal traversal reads 12 distinct nodes.  The same history
is replayed on the implementation by the `diffcost` family on every run.
The check reports an excess as KNOWN-FINDING only when the reads are exactly those of this model.
-/
namespace Mast.Diff
open T

variable (layer : Nat → Nat) (nameOf : T → List UInt8)

theorem C15_equal_links_skipped (s : St) (t : T) (os ns : List Item)
    (ho : s.old = Item.link true t :: os) (hn : s.new = Item.link true t :: ns) :
    ∃ o, step layer nameOf s = some o ∧ o.loads = [] ∧ o.evs = [] ∧ o.st.old = os ∧ o.st.new = ns := by
  simp only [step, ho, hn, linkEq, Bool.and_self, BEq.rfl, Bool.and_true, if_true]
  exact ⟨_, rfl, rfl, rfl, rfl, rfl⟩

theorem C15_same_version_reads_nothing (t : T) (fuel : Nat) :
    run layer nameOf (fuel + 2) (init (some (true, t)) true t) = ([], []) := by
  simp only [init]
  cases ht : rootItems true t with
  | nil =>
    simp only [run, step]
  | cons i rest =>
    -- a non-empty version: exactly one item, the root link, on both stacks
    have : i = Item.link true t ∧ rest = [] := by
      unfold rootItems at ht
      split at ht <;> simp_all
    obtain ⟨rfl, rfl⟩ := this
    simp only [run, step, linkEq, Bool.and_self, BEq.rfl, Bool.and_true, if_true, List.nil_append]

/-- non-vacuity: a persisted two-node version -/
example : rootItems true (cons true (cons true nil 2 0 (last true nil)) 3 0 (last true nil)) ≠ [] := by
  simp [rootItems]

/-! ## the stated bound fails: a witness reached through the API -/

/-- names for the witness: an injective serialisation of the node (keys, shape) -/
def wName : T → List UInt8
  | nil => [0]
  | last _ c => 1 :: wName c
  | cons _ c k _ r =>
      2 :: wName c ++ [(k / 16777216).toUInt8, (k / 65536).toUInt8, (k / 256).toUInt8, k.toUInt8] ++ wName r

/-- the layer of the harness's user key type: the low byte of the key -/
def wLayer (k : Nat) : Nat := k % 256

def wEnc : Enc := { keyB := fun _ => [], valB := fun _ => [], node := fun _ => [], hash := fun b => b }

/-- the history of findings/C15-spine.json: 32 inserts at branch factor 2 (height 4) … -/
def wHistory : List Tree.Op :=
  [.ins 51200256 1, .ins 51201024 1, .ins 51203072 1, .ins 51203840 1, .ins 51204352 1, .ins 51202560 1,
   .ins 51206144 1, .ins 51207168 1, .ins 51206656 1, .ins 51205632 1, .ins 51201536 1, .ins 51204864 1,
   .ins 51205888 1, .ins 51204096 1, .ins 51202048 1, .ins 51205376 1, .ins 51206912 1, .ins 51201280 1,
   .ins 51200768 1, .ins 51200000 1, .ins 51204608 1, .ins 51201792 1, .ins 281601 1, .ins 51200512 1,
   .ins 51203328 1, .ins 358404 1, .ins 51202816 1, .ins 332803 1, .ins 51206400 1, .ins 51203584 1,
   .ins 256000 1, .ins 25600005 1]

def wOldTree : Tree := Tree.execT wLayer wEnc (Tree.empty 2) wHistory
/-- … and one more key of the top layer, to the left of an unchanged subtree (height 5) -/
def wNewTree : Tree := Tree.execT wLayer wEnc wOldTree [.ins 2565 1]
def wOld : T := persistAll wOldTree.root
def wNew : T := persistAll wNewTree.root

/-- nodes that belong to exactly one of the two versions -/
def symDiff (a b : List (List UInt8)) : List (List UInt8) :=
  (a.filter fun n => !b.contains n) ++ (b.filter fun n => !a.contains n)

set_option maxRecDepth 200000 in
/-- **`2·D + 2` is false of the traversal** on two versions produced by histories from the empty
    tree: D = 4 nodes belong to exactly one version, yet 12 distinct nodes are read -/
theorem C15_bound_2D_plus_2_fails_in_the_model :
    let loads := (run wLayer wName 200 (init (some (true, wOld)) true wNew)).2.eraseDups
    let D := (symDiff ((versionNodes true wOld).map wName) ((versionNodes true wNew).map wName)).length
    D = 4 ∧ loads.length = 12 ∧ loads.length > 2 * D + 2 ∧
    wOldTree.size = 32 ∧ wOldTree.height = 4 ∧ wNewTree.size = 33 ∧ wNewTree.height = 5 := by
  decide

end Mast.Diff
#print axioms Mast.Diff.C15_bound_2D_plus_2_fails_in_the_model
#print axioms Mast.Diff.C15_equal_links_skipped
#print axioms Mast.Diff.C15_same_version_reads_nothing
