import Mastverif.Model.Diff
/-!
# C15 — diff cost (property theorems, partial)

Proved on the literal `diffOne` model (`Diff.step`, whose load trace agrees as a set of names
with the names the Go code passes to `Persist.Load`: family `diffcost`):
* `C15_same_version_reads_nothing`: diffing a persisted version with itself performs no load at
  all and reports nothing, whatever the tree;
* `C15_equal_links_skipped`: whenever the two stack tops are the same persisted link, the step
  drops both without loading anything — the mechanism by which common subtrees are skipped.
NOT provable, because false of the current code: the bound `2·D + 2` on distinct reads (see
DESIGN.md §4 and known_findings.txt: a link facing an entry is opened, which walks down the
spine of a common subtree).  The check reports that as KNOWN-FINDING only when the reads are
exactly those of this model.
-/
namespace Mast.Diff
open T

variable (layer : Nat → Nat) (nameOf : T → List UInt8)

theorem C15_equal_links_skipped (s : St) (t : T) (os ns : List Item)
    (ho : s.old = Item.link true t :: os) (hn : s.new = Item.link true t :: ns) :
    ∃ o, step layer nameOf s = some o ∧ o.loads = [] ∧ o.evs = [] ∧ o.st.old = os ∧ o.st.new = ns := by
  simp only [step, ho, hn, linkEq, Bool.and_self, BEq.rfl, Bool.and_true, if_true]
  exact ⟨_, rfl, rfl, rfl, rfl, rfl⟩

theorem C15_same_version_reads_nothing (t : T) (fuel : Nat) :
    run layer nameOf (fuel + 2) (init (some (true, t)) true t) = ([], []) := by
  simp only [init]
  cases ht : rootItems true t with
  | nil =>
    simp only [run, step]
  | cons i rest =>
    -- a non-empty version: exactly one item, the root link, on both stacks
    have : i = Item.link true t ∧ rest = [] := by
      unfold rootItems at ht
      split at ht <;> simp_all
    obtain ⟨rfl, rfl⟩ := this
    simp only [run, step, linkEq, Bool.and_self, BEq.rfl, Bool.and_true, if_true, List.nil_append]

/-- non-vacuity: a persisted two-node version -/
example : rootItems true (cons true (cons true nil 2 0 (last true nil)) 3 0 (last true nil)) ≠ [] := by
  simp [rootItems]

end Mast.Diff
#print axioms Mast.Diff.C15_equal_links_skipped
#print axioms Mast.Diff.C15_same_version_reads_nothing
