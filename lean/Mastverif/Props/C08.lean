import Mastverif.Lemmas.Store
/-!
# C08 — content addressing, deterministic encoding (property theorems, in progress)

* `C08_name_is_hash_of_bytes`: every pair a flush writes is (hash of the bytes, the bytes);
* `C08_bytes_depend_on_entries_and_child_names_only`: the bytes (and so the name) of a node are
  a function of its entries and of its children's names — nothing else about the in-memory
  representation (residency, dirtiness, how the node came to be) enters;
* the converse direction (equal root names ⇒ equal contents, under the no-collision hypothesis
  for the hash on the encodings in play) is on the work list.
Tie: families `persist`, `map`, `format` recompute every stored name with the model's own
BLAKE2b-256 + base64url and every byte string with `encBin` / `encJson`.
-/
namespace Mast.Tree
open T

theorem C08_name_is_hash_of_bytes (e : Enc) (m : Tree) : ∀ x ∈ (makeRoot e m).1, x.1 = e.hash x.2 := by
  intro x hx
  unfold makeRoot at hx
  split at hx
  · simp at hx
  · split at hx
    · simp at hx
    · simp only [List.mem_append, List.mem_singleton] at hx
      rcases hx with hx | rfl
      · exact storesBelow_named e m.root x hx
      · rfl

theorem C08_bytes_depend_on_entries_and_child_names_only (e : Enc) (t1 t2 : T)
    (h : erase t1 = erase t2) : nodeBytes e t1 = nodeBytes e t2 ∧ nodeName e t1 = nodeName e t2 := by
  constructor
  · simp only [nodeBytes]; rw [← rowB_erase e t1, ← rowB_erase e t2, h]
  · rw [← nodeName_erase e t1, ← nodeName_erase e t2, h]

end Mast.Tree
#print axioms Mast.Tree.C08_name_is_hash_of_bytes
#print axioms Mast.Tree.C08_bytes_depend_on_entries_and_child_names_only
