import Mastverif.Lemmas.Store
import Mastverif.Lemmas.Names
/-!
# C08 — content addressing, deterministic encoding (property theorems)

* `C08_name_is_hash_of_bytes`: every pair a flush writes is (hash of the bytes, the bytes);
* `C08_bytes_depend_on_entries_and_child_names_only`: the bytes (and so the name) of a node are
  a function of its entries and of its children's names — nothing else about the in-memory
  representation (residency, dirtiness, how the node came to be) enters;
* `C08_same_root_name_same_contents`: versions with the same root name have identical contents
  (hence different contents ⇒ different root names), under the explicit hypothesis that no two
  different nodes in play share a name (`NoCollision`: collision-freeness of BLAKE2b-256 on the
  encodings in play together with injectivity of the encoder) and that keys / values marshal
  injectively;
* `C08_encoder_injective`: the compact binary encoder is injective on decodable nodes, so
  `NoCollision` for that format is a statement about the hash alone.
Tie: families `persist`, `map`, `format` recompute every stored name with the model's own
BLAKE2b-256 + base64url and every byte string with `encBin` / `encJson`.
-/
namespace Mast.Tree
open T

theorem C08_name_is_hash_of_bytes (e : Enc) (m : Tree) : ∀ x ∈ (makeRoot e m).1, x.1 = e.hash x.2 := by
  intro x hx
  unfold makeRoot at hx
  split at hx
  · simp at hx
  · split at hx
    · simp at hx
    · simp only [List.mem_append, List.mem_singleton] at hx
      rcases hx with hx | rfl
      · exact storesBelow_named e m.root x hx
      · rfl

theorem C08_bytes_depend_on_entries_and_child_names_only (e : Enc) (t1 t2 : T)
    (h : erase t1 = erase t2) : nodeBytes e t1 = nodeBytes e t2 ∧ nodeName e t1 = nodeName e t2 := by
  constructor
  · simp only [nodeBytes]; rw [← rowB_erase e t1, ← rowB_erase e t2, h]
  · rw [← nodeName_erase e t1, ← nodeName_erase e t2, h]

theorem C08_same_root_name_same_contents (e : Enc) (hnc : NoCollision e)
    (hk : Function.Injective e.keyB) (hv : Function.Injective e.valB) (t1 t2 : T)
    (h : T.nodeName e t1 = T.nodeName e t2) : T.toList t1 = T.toList t2 :=
  T.name_eq_toList e hnc hk hv t1 t2 h

theorem C08_encoder_injective (n1 n2 : NodeB) (h1 : Codec.NodeOK n1) (h2 : Codec.NodeOK n2)
    (l1 : n1.links.length = n1.keys.length + 1) (l2 : n2.links.length = n2.keys.length + 1)
    (h : Codec.encBin n1 = Codec.encBin n2) : n1 = n2 :=
  Codec.encBin_injective n1 n2 h1 h2 l1 l2 h

end Mast.Tree
#print axioms Mast.Tree.C08_same_root_name_same_contents
#print axioms Mast.Tree.C08_encoder_injective
#print axioms Mast.Tree.C08_name_is_hash_of_bytes
#print axioms Mast.Tree.C08_bytes_depend_on_entries_and_child_names_only
