import Mastverif.Props.C03O
import Mastverif.Props.C04
/-!
# C04 at the level of node objects: same contents, same persisted tree

Two trees held as node objects — in any residency, sharing nodes with other versions or not, reached
by whatever histories, persisted at different moments of a system's life — whose denotations have
the canonical shape (`WF` at one and the same height: `Props/C09O.lean` keeps it through the
object-level operations, `C04_height_rule` fixes the height from the entries) and hold the same
entries: the names that `MakeRoot` returns for them denote, from the store alone, one and the same
persisted tree, node for node (`persistT` forgets residency: it is a function of the erased tree).
That the two NAMES are then equal is content addressing (`Props/C08.lean`: name = hash of bytes that
depend on entries and child names only; at this level a stored node is its content, and the `ptr`
family compares the names as real BLAKE2b names).
-/
namespace Mast.Ptr
open Mast.Heap Mast Mast.T

theorem persistT_erase : ∀ t : T, persistT (erase t) = persistT t
  | .nil => rfl
  | .last p c => by
    simp only [erase, persistT, persistT_erase c]
    cases c <;> rfl
  | .cons p c k v r => by
    simp only [erase, persistT, persistT_erase c, persistT_erase r]
    cases c <;> rfl

theorem C04_object_level_same_contents_same_persisted_tree (layer : Nat → Nat) (E1 E2 : Env)
    (t1 t1' t2 t2' : PTree) (f1 f2 g n1 n2 h : Nat) (s1 s1' s2 s2' : PS) (A1 A2 : Tree)
    (hg1 : Good s1) (hsrc1 : SourceOK s1) (hsd1 : StoreDen s1.store) (hown1 : FpOwned s1.heap t1.id (footprint s1 g t1))
    (hA1 : repTree s1 g t1 = some A1) (hf1 : flush E1 t1 f1 s1 = .ok (t1', n1) s1') (hn1 : n1 ≠ 0)
    (hg2 : Good s2) (hsrc2 : SourceOK s2) (hsd2 : StoreDen s2.store) (hown2 : FpOwned s2.heap t2.id (footprint s2 g t2))
    (hA2 : repTree s2 g t2 = some A2) (hf2 : flush E2 t2 f2 s2 = .ok (t2', n2) s2') (hn2 : n2 ≠ 0)
    (hw1 : WF layer h A1.root) (hw2 : WF layer h A2.root) (hc : A1.root.toList = A2.root.toList) :
    ∃ p, repLink [] s1'.store g (.ref n1) = some (true, p, []) ∧ repLink [] s2'.store g (.ref n2) = some (true, p, []) := by
  have e := C04_unique_shape layer A1.root A2.root h hw1 hw2 hc
  have hp : persistT A1.root = persistT A2.root := by
    rw [← persistT_erase A1.root, ← persistT_erase A2.root, e]
  refine ⟨persistT A1.root, ?_, ?_⟩
  · exact (C03_object_level_returned_root_is_complete E1 t1 t1' f1 g n1 s1 s1' A1 hg1 hsrc1 hsd1 hown1 hA1 hf1 hn1).1
  · rw [hp]
    exact (C03_object_level_returned_root_is_complete E2 t2 t2' f2 g n2 s2 s2' A2 hg2 hsrc2 hsd2 hown2 hA2 hf2 hn2).1

/-- non-vacuity of the key step: the same two-level tree held once entirely in memory and once with a
    persisted child has one persisted form -/
example : persistT (cons false (last false (cons false nil 4 40 (last false nil))) 6 60 (last false nil)) =
    persistT (cons true (last false (cons false nil 4 40 (last false nil))) 6 60 (last false nil)) := by decide

end Mast.Ptr
#print axioms Mast.Ptr.C04_object_level_same_contents_same_persisted_tree
