import Mastverif.Lemmas.Heap
import Mastverif.Lemmas.PtrSys
/-!
# C02 — captured versions never change (property theorems)

Statement on the heap protocol model: let `v` be an owner (a clone, a cursor's clone, a tree
loaded from a persisted root) whose view of the heap is closed.  Whatever guarded actions are
performed by or for *other* owners — in any number, in any interleaving of operations on the
original, on other clones, on trees loaded from the same roots through the same cache —
everything `v` can reach keeps exactly its observable contents.  The converse ("work on a
clone never alters the source") is the same theorem with the roles exchanged.
The tie to the Go code is the `versions` family: the actions of every real operation,
reconstructed from object-graph dumps, pass `applyAct` (the guards hold), and every retained
version is re-read after every operation.
-/
namespace Mast.Heap

theorem C02_captured_immutable (v : Nat) (h h' : Heap) (acts : List Act)
    (hc : Closed h v) (hf : ∀ act ∈ acts, Foreign v act) (hr : run h acts = some h') :
    ∀ (fuel : Nat) (l : HLink), Vis h v l → contents h' fuel l = contents h fuel l := by
  intro fuel l hv
  exact frame h h' v hc (foreign_run acts h h' hc hf hr).1 fuel l hv

/-- the invariant needed for the next capture is re-established -/
theorem C02_closed_preserved (v : Nat) (h h' : Heap) (acts : List Act)
    (hc : Closed h v) (hf : ∀ act ∈ acts, Foreign v act) (hr : run h acts = some h') : Closed h' v :=
  (foreign_run acts h h' hc hf hr).2

/-- persisted roots: a name's contents never depend on the heap at all -/
theorem C02_persisted_root_constant (h h' : Heap) (fuel n : Nat) :
    contents h' fuel (HLink.ref n) = contents h fuel (HLink.ref n) := by
  cases fuel <;> simp [contents]

/-- non-vacuity: a shared two-level tree seen by owner 1 while owner 2 copies and rewrites -/
example :
    let shared : MNode := { keys := [5], vals := [50], links := [.ref 7, .nil], dirty := false, shared := true, owner := 0 }
    let h : Heap := [shared]
    let acts : List Act := [
      .alloc { keys := [5], vals := [50], links := [.ref 7, .nil], dirty := true, shared := false, owner := 2 },
      .write 2 1 { keys := [5, 9], vals := [50, 90], links := [.ref 7, .nil, .nil], dirty := true, shared := false, owner := 2 },
      .publish 2 1 [.ref 7, .nil, .nil]]
    Closed h 1 ∧ (∀ act ∈ acts, Foreign 1 act) ∧ (run h acts).isSome = true ∧ Vis h 1 (.ptr 0) := by
  refine ⟨?_, ?_, by decide, ?_⟩
  · intro a nd hnd _ l hl
    match a with
    | 0 => simp at hnd; subst hnd; simp at hl; rcases hl with rfl | rfl <;> trivial
    | a+1 => simp at hnd
  · intro act hact; simp at hact; rcases hact with rfl | rfl | rfl <;> simp [Foreign]
  · exact ⟨_, rfl, Or.inl rfl⟩

end Mast.Heap
/-!
## The same statement for the *logic of the code*

`Model/Ptr.lean` transcribes lib.go / pub.go / store.go at the level of node objects; every change
of the heap goes through the guarded primitives above.  The theorems below say that the
transcribed operations never fail a guard — so the frame theorem applies to everything they do —
and spell out the consequence for a system of any number of trees over one heap, store and cache.
Tie: family `ptr` compares the object graph of every live tree and of the cache with the model's
after every operation.
-/
namespace Mast.Ptr
open Mast.Heap

/-- **no guard ever fails**: from the empty system, after any history of loads of persisted roots,
    inserts, deletes, lookups, iterations, persists and clones on any of the trees — with any layer
    function, any pattern of failing store loads, any fuel — no call is stuck on a guard of the
    copy-on-write protocol, and the ownership invariant holds at the end. -/
theorem C02_code_obeys_protocol (E : Env) (fuel : Nat) (ops : List Op) :
    (Sys.run E fuel {} ops).2 ≠ .stuck ∧ SysInv (Sys.run E fuel {} ops).1 :=
  let h := Sys.run_ok E fuel ops {} SysInv.init
  ⟨h.1, h.2.1⟩

/-- **captured versions never change**: a tree that no call of the history operates on (in
    particular the source of any number of clones, and every clone while the original is worked
    on) is still the same record, and under its root every level of the contents that could be
    read before reads the same afterwards. -/
theorem C02_untargeted_trees_never_change (E : Env) (fuel : Nat) (σ : Sys) (h : SysInv σ) (ops : List Op)
    (j : Nat) (hj : ∀ op ∈ ops, some j ≠ op.target) (x : PTree) (hx : σ.trees[j]? = some x) :
    (Sys.run E fuel σ ops).1.trees[j]? = some x ∧
    ∀ f c, contents σ.ps.heap f x.root = some c → contents (Sys.run E fuel σ ops).1.ps.heap f x.root = some c :=
  (Sys.run_ok E fuel ops σ h).2.2.1 j hj x hx

/-- **persisted roots never change**: the table of stored contents only grows, so a name that has
    been written keeps its contents through every later history. -/
theorem C02_names_keep_their_contents (E : Env) (fuel : Nat) (σ : Sys) (h : SysInv σ) (ops : List Op)
    (n : Nat) (sn : SNode) (hn : σ.ps.store[n]? = some sn) :
    (Sys.run E fuel σ ops).1.ps.store[n]? = some sn := by
  obtain ⟨ext, he⟩ := (Sys.run_ok E fuel ops σ h).2.2.2
  rw [he, List.getElem?_append_left (List.getElem?_eq_some_iff.mp hn).1]
  exact hn

/-- one call: what it guarantees (the step of the induction, usable from any invariant state) -/
theorem C02_one_call (E : Env) (fuel : Nat) (σ : Sys) (op : Op) (h : SysInv σ) :
    (σ.apply E fuel op).2 ≠ .stuck ∧ SysInv (σ.apply E fuel op).1 ∧
      ∀ j, some j ≠ op.target → Untouched σ (σ.apply E fuel op).1 j :=
  let r := Sys.apply_ok E fuel σ op h
  ⟨r.1, r.2.1, r.2.2.1⟩

/-- non-vacuity: a history with a persist, a clone and diverging edits runs to the end, and the
    two trees then hold different contents -/
def exEnv : Env := { layer := fun k => if k % 4 = 0 then 1 else 0, failAt := fun _ => false }
def exOps : List Op :=
  [.load 0 0 0 2, .ins 0 4 40, .ins 0 8 80, .ins 0 3 30, .flush 0, .clone 0, .ins 1 5 50, .del 0 8 80, .get 1 8]
example : (Sys.run exEnv 10 {} exOps).2 = .ok := by decide +kernel
example : (Sys.run exEnv 10 {} exOps).1.trees.map (fun t => contents (Sys.run exEnv 10 {} exOps).1.ps.heap 5 t.root) =
    [some [.ent 3 30, .ent 4 40], some [.refn 1, .ent 4 40, .ent 5 50, .ent 8 80]] := by decide +kernel

end Mast.Ptr
#print axioms Mast.Ptr.C02_code_obeys_protocol
#print axioms Mast.Ptr.C02_untargeted_trees_never_change
#print axioms Mast.Ptr.C02_names_keep_their_contents
#print axioms Mast.Ptr.C02_one_call
#print axioms Mast.Heap.C02_captured_immutable
#print axioms Mast.Heap.C02_closed_preserved
#print axioms Mast.Heap.C02_persisted_root_constant
