import Mastverif.Lemmas.Heap
/-!
# C02 — captured versions never change (property theorems)

Statement on the heap protocol model: let `v` be an owner (a clone, a cursor's clone, a tree
loaded from a persisted root) whose view of the heap is closed.  Whatever guarded actions are
performed by or for *other* owners — in any number, in any interleaving of operations on the
original, on other clones, on trees loaded from the same roots through the same cache —
everything `v` can reach keeps exactly its observable contents.  The converse ("work on a
clone never alters the source") is the same theorem with the roles exchanged.
The tie to the Go code is the `versions` family: the actions of every real operation,
reconstructed from object-graph dumps, pass `applyAct` (the guards hold), and every retained
version is re-read after every operation.
-/
namespace Mast.Heap

theorem C02_captured_immutable (v : Nat) (h h' : Heap) (acts : List Act)
    (hc : Closed h v) (hf : ∀ act ∈ acts, Foreign v act) (hr : run h acts = some h') :
    ∀ (fuel : Nat) (l : HLink), Vis h v l → contents h' fuel l = contents h fuel l := by
  intro fuel l hv
  exact frame h h' v hc (foreign_run acts h h' hc hf hr).1 fuel l hv

/-- the invariant needed for the next capture is re-established -/
theorem C02_closed_preserved (v : Nat) (h h' : Heap) (acts : List Act)
    (hc : Closed h v) (hf : ∀ act ∈ acts, Foreign v act) (hr : run h acts = some h') : Closed h' v :=
  (foreign_run acts h h' hc hf hr).2

/-- persisted roots: a name's contents never depend on the heap at all -/
theorem C02_persisted_root_constant (h h' : Heap) (fuel n : Nat) :
    contents h' fuel (HLink.ref n) = contents h fuel (HLink.ref n) := by
  cases fuel <;> simp [contents]

/-- non-vacuity: a shared two-level tree seen by owner 1 while owner 2 copies and rewrites -/
example :
    let shared : MNode := { keys := [5], vals := [50], links := [.ref 7, .nil], dirty := false, shared := true, owner := 0 }
    let h : Heap := [shared]
    let acts : List Act := [
      .alloc { keys := [5], vals := [50], links := [.ref 7, .nil], dirty := true, shared := false, owner := 2 },
      .write 2 1 { keys := [5, 9], vals := [50, 90], links := [.ref 7, .nil, .nil], dirty := true, shared := false, owner := 2 },
      .publish 2 1 [.ref 7, .nil, .nil]]
    Closed h 1 ∧ (∀ act ∈ acts, Foreign 1 act) ∧ (run h acts).isSome = true ∧ Vis h 1 (.ptr 0) := by
  refine ⟨?_, ?_, by decide, ?_⟩
  · intro a nd hnd _ l hl
    match a with
    | 0 => simp at hnd; subst hnd; simp at hl; rcases hl with rfl | rfl <;> trivial
    | a+1 => simp at hnd
  · intro act hact; simp at hact; rcases hact with rfl | rfl | rfl <;> simp [Foreign]
  · exact ⟨_, rfl, Or.inl rfl⟩

end Mast.Heap
#print axioms Mast.Heap.C02_captured_immutable
#print axioms Mast.Heap.C02_closed_preserved
#print axioms Mast.Heap.C02_persisted_root_constant
