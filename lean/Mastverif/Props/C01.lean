import Mastverif.Lemmas.WF
/-!
# C01 — map semantics (property theorems)

Full statement (target): for every history of insert / update / delete / lookup / iterate /
clone / persist / reload, every result equals that of a sorted association list.
Proved so far (see DESIGN.md for the work list): the building blocks below; the history
theorem `C01_refines` is being assembled from them.
-/
namespace Mast.T

/-- `split` partitions the entries of a subtree around the new key, losing and inventing nothing. -/
theorem C01_split_partitions (t : T) (x : Nat) (hs : Sorted (toList t)) (hx : ∀ e ∈ toList t, e.1 ≠ x) :
    toList (split t x).1 = keysLt x (toList t) ∧ toList (split t x).2 = keysGt x (toList t) :=
  toList_split t x hs hx

end Mast.T
#print axioms Mast.T.C01_split_partitions
