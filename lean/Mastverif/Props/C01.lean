import Mastverif.Lemmas.History
/-!
# C01 — map semantics match a sorted-map model for every history (property theorems)

`C01_refines`: for every tree that satisfies the invariant `Tree.Inv` (shape `WF`, strictly
ascending entries, size = number of entries, thresholds = powers of the branch factor) — in
particular the empty tree of any branch factor ≥ 2 — and for EVERY finite sequence of
insert / update / delete / lookup / iterate / size / persist operations, with ANY layer function
(every layer assignment a user `Key` type could produce), the outputs of the tree model are
exactly the outputs of a sorted association list:
a lookup returns the last value written or not-found, the size is the number of live entries,
iteration is the ascending entry list, read-only operations change nothing, a delete of an
absent key or with another value fails without effect, and no operation panics or errs
(`C01_no_panic_no_error`).  Persisting turns in-memory nodes into named ones and changes no
output.  The per-operation theorems (`C01_insert_refines`, `C01_delete_refines`,
`C01_lookup_refines`) are what the induction uses.
Keys are `Nat` with the natural order: every Go key kind is driven through an
order-preserving code (Model/Codec.lean), and the order itself is C14's.
Tie: family `map`.
-/
namespace Mast
open T

namespace Tree
variable (layer : Nat → Nat)

theorem C01_insert_refines (m : Tree) (k v : Nat) (hi : Inv layer m) :
    ∃ m', insert layer m k v = .ok m' ∧ Inv layer m' ∧ m'.toList = insL k v m.toList :=
  let ⟨m', h1, h2, h3, _⟩ := insert_spec layer m k v hi
  ⟨m', h1, h2, h3⟩

theorem C01_delete_refines (m : Tree) (k v : Nat) (hi : Inv layer m) :
    (getL k m.toList = some v → ∃ m', delete layer m k v = .ok m' ∧ Inv layer m' ∧ m'.toList = delL k m.toList) ∧
    (getL k m.toList ≠ some v → ∃ e, delete layer m k v = .err e) := by
  constructor
  · intro hp
    obtain ⟨m', h1, h2, h3, _⟩ := delete_spec layer m k v hi hp
    exact ⟨m', h1, h2, h3⟩
  · exact delete_absent layer m k v hi

theorem C01_lookup_refines (m : Tree) (k : Nat) (hi : Inv layer m) :
    m.lookup layer k = getL k m.toList := lookup_eq layer m k hi

theorem C01_size_is_count (m : Tree) (hi : Inv layer m) : m.size = m.toList.length := hi.size

theorem C01_iteration_sorted (m : Tree) (hi : Inv layer m) : Sorted m.toList := hi.sorted

/-- **C01.** Every history behaves like the sorted association list. -/
theorem C01_refines (e : Enc) : ∀ (ops : List Op) (m : Tree), Inv layer m →
    runT layer e m ops = runL m.toList ops := by
  intro ops
  induction ops with
  | nil => intro m _; rfl
  | cons op ops ih =>
    intro m hi
    obtain ⟨h1, h2, h3⟩ := step_refines layer e m op hi
    simp only [runT, runL]
    rw [h1, ih _ h2, h3]

/-- from the empty tree of any branch factor ≥ 2 -/
theorem C01_refines_from_empty (e : Enc) (bf : Nat) (hbf : 2 ≤ bf) (ops : List Op) :
    runT layer e (Tree.empty bf) ops = runL [] ops := by
  have := C01_refines layer e ops (Tree.empty bf) (inv_empty layer bf hbf)
  simpa [Tree.toList, Tree.empty, T.toList] using this

theorem runL_no_panic : ∀ (ops : List Op) (l : List (Nat × Nat)), Out.panic ∉ runL l ops := by
  intro ops
  induction ops with
  | nil => intro l; simp [runL]
  | cons op ops ih =>
    intro l
    simp only [runL, List.mem_cons, not_or]
    refine ⟨?_, ih _⟩
    cases op <;> simp [stepL]
    split <;> simp

/-- no call panics, on any history (the only `err` outputs are the two delete cases of the spec) -/
theorem C01_no_panic_no_error (e : Enc) (ops : List Op) (m : Tree) (hi : Inv layer m) :
    Out.panic ∉ runT layer e m ops := by
  rw [C01_refines layer e ops m hi]; exact runL_no_panic ops _

/-- non-vacuity: a concrete history on the empty tree of branch factor 2, layers k % 3 -/
example : runL [] [Op.ins 4 1, Op.ins 9 2, Op.ins 4 3, Op.del 9 2, Op.get 4, Op.size, Op.iter] =
    [.ok, .ok, .ok, .ok, .val (some 3), .num 1, .list [(4, 3)]] := by
  simp [runL, stepL, insL, getL, delL]

end Tree
end Mast
#print axioms Mast.Tree.C01_insert_refines
#print axioms Mast.Tree.C01_delete_refines
#print axioms Mast.Tree.C01_lookup_refines
#print axioms Mast.Tree.C01_size_is_count
#print axioms Mast.Tree.C01_iteration_sorted
#print axioms Mast.Tree.C01_refines
#print axioms Mast.Tree.C01_refines_from_empty
#print axioms Mast.Tree.C01_no_panic_no_error
