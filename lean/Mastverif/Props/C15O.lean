import Mastverif.Model.PtrDiff
import Mastverif.Props.C06O
/-!
# C15 at the level of node objects (property theorems, partial)

On the object-level `diffOne` (`Model/PtrDiff.lean`), where every load of a name is a counted store
load (`PS.tick`):
* `C15_object_level_same_version_reads_nothing`: diffing a version held by name with itself returns
  no event and leaves the WHOLE state as it was — no load, no allocation, no cache traffic — for any
  store, cache and fault oracle (also `_same_object`: the two trees hold the same top-node object);
* `C15_object_level_equal_links_skipped`: whenever the two stack tops are the same link (the same
  name, or the same object), the step drops both without touching the state.
The stated bound `2·D + 2` is false of this model as it is of the functional one and of the code
(`Props/C15.lean`, known_findings.txt).  The load counter of the object-level diff is tied to the
store's by family `ptr` after every mirrored `DiffIter` / `DiffLinks`.
-/
namespace Mast.Ptr
open Mast.Heap

theorem C15_object_level_same_version_reads_nothing (E : Env) (f n k : Nat) (s : PS) :
    oDiff E f (n + 2) (some (.ref k)) (.ref k) s = .ok [] s := by
  simp [oDiff, oDiffInit, orootItems, oRun, oStep, oStepBody, tryE, bind, M.bind, pure, M.pure]

theorem C15_object_level_same_object (E : Env) (f n a : Nat) (s : PS) (nd : MNode) (h : s.heap[a]? = some nd) :
    oDiff E f (n + 2) (some (.ptr a)) (.ptr a) s = .ok [] s := by
  by_cases he : isEmptyN nd = true
  · simp [oDiff, oDiffInit, orootItems, oRun, oStep, oStepBody, tryE, bind, M.bind, pure, M.pure, read, h, he]
  · simp [oDiff, oDiffInit, orootItems, oRun, oStep, oStepBody, tryE, bind, M.bind, pure, M.pure, read, h, he]

theorem C15_object_level_equal_links_skipped (E : Env) (f : Nat) (l : HLink) (os ns : List OItem) (mo mn : OMemo) (s : PS) :
    oStepBody E f { old := OItem.link l :: os, new := OItem.link l :: ns, memoOld := mo, memoNew := mn } s =
      .ok (some ({ old := os, new := ns, memoOld := mo, memoNew := mn }, [])) s := by
  simp [oStepBody, pure, M.pure]

end Mast.Ptr
#print axioms Mast.Ptr.C15_object_level_same_version_reads_nothing
#print axioms Mast.Ptr.C15_object_level_same_object
#print axioms Mast.Ptr.C15_object_level_equal_links_skipped
