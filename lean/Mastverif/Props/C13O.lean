import Mastverif.Lemmas.RefGood
import Mastverif.Lemmas.RefLoad
import Mastverif.Lemmas.RefHistExample
/-!
# C13 at the level of node objects: persisting an unmodified version writes nothing

`flush` (`Model/Ptr.lean`: `MakeRoot` / `flush` with `node.store` and the commit closures) on a tree
whose top node is clean and knows its name — a version held by name (`LoadMast`, or a tree that has
just been persisted), or a clone of one (the top node held as a clean, shared object): whatever the
store, cache and fault oracle, the call either fails having only allocated, or returns THE SAME NAME,
the same tree record up to the spelling of the root link (a name), and leaves the STORE exactly as it
was — no node is written — having only allocated in the heap (the decoded top node).
* `C13_object_level_clean_flush_by_name`, `C13_object_level_clean_flush_by_object`.
Together with `C12_insert_error_partial` / `C12_delete_error_partial` (a failed call leaves the tree
record and every object it reads as they were) this is the object-level form of "a failed call does
not make the tree need a write".
-/
namespace Mast.Ptr
open Mast.Heap

/-- the top node is a clean object that knows its name: `node.store` returns the name, no commit -/
theorem storeNode_clean (f a n : Nat) (s : PS) (nd : MNode) (h : s.heap[a]? = some nd)
    (hd : nd.dirty = false) (hs : nd.source = some n) :
    storeNode (f + 1) a s = .ok (n, []) s := by
  simp [storeNode, bind, M.bind, read, h, hd, hs, pure, M.pure]

theorem C13_object_level_clean_flush_by_object (E : Env) (t : PTree) (fuel a n : Nat) (s : PS) (nd : MNode)
    (hr : t.root = .ptr a) (h : s.heap[a]? = some nd) (hne : isEmptyN nd = false)
    (hd : nd.dirty = false) (hs : nd.source = some n) :
    flush E t (fuel + 1) s = .ok ({ t with root := .ref n }, n) s := by
  have hsn := storeNode_clean fuel a n s nd h hd hs
  simp [flush, hr, load, bind, M.bind, read, h, hne, pure, M.pure, hsn, commitAll]

theorem loadRef_ok_cases (E : Env) (n a : Nat) (s s1 : PS) (h : loadRef E n s = .ok a s1) :
    ((n, a) ∈ s.cache ∧ s1 = s) ∨
    (∃ sn, storeAt s.store n = some sn ∧ s1.heap = s.heap ++ [decode sn n] ∧ a = s.heap.length ∧ s1.store = s.store) := by
  unfold loadRef at h
  dsimp only at h
  split at h
  · rename_i a' hc
    injection h with h1 h2
    subst h1; subst h2
    left
    refine ⟨?_, rfl⟩
    split at hc
    · exact lookupCache_mem hc
    · cases hc
  · split at h
    · cases h
    · split at h
      · cases h
      · rename_i sn hsn
        split at h
        · cases h
        · rename_i h' hal
          injection h with h1 h2
          right
          have := applyAct_alloc_some hal
          refine ⟨sn, hsn, ?_, h1.symm, ?_⟩
          · rw [← h2]; exact this
          · rw [← h2]

theorem flush_via_load (E : Env) (t : PTree) (fuel n a : Nat) (s s1 : PS) (nd : MNode)
    (hr : t.root = .ref n) (hl : loadRef E n s = .ok a s1) (hnd : s1.heap[a]? = some nd)
    (hne : isEmptyN nd = false) (hd : nd.dirty = false) (hs : nd.source = some n) :
    flush E t (fuel + 1) s = .ok ({ t with root := .ref n }, n) s1 := by
  have hsn := storeNode_clean fuel a n s1 nd hnd hd hs
  simp [flush, hr, load, bind, M.bind, hl, read, hnd, hne, pure, M.pure, hsn, commitAll]

/-- a version held by name: one load (or a cache hit), then nothing.  `hcs`: cached objects know
    their names (what `loadRef` and the commit closures establish before they call `cache.Add`) -/
theorem C13_object_level_clean_flush_by_name (E : Env) (m : Nat) (t : PTree) (fuel g n : Nat) (s : PS)
    (x : Bool × T × List Nat) (hg : Good s) (hr : t.root = .ref n)
    (hx : repLink s.heap s.store g (.ref n) = some x)
    (hk : ∀ sn, storeAt s.store n = some sn → sn.keys ≠ [])
    (hcs : ∀ k a nd, (k, a) ∈ s.cache → s.heap[a]? = some nd → nd.source = some k) :
    match flush E t (fuel + 1) s with
    | .ok r s' => r = (t, n) ∧ s'.store = s.store ∧ Grow m s s'
    | .err s' => s'.store = s.store ∧ Grow m s s'
    | _ => True := by
  have hl := loadRef_spec (m := m) E n s hg
  unfold Spec at hl
  obtain ⟨_, sn, _, _, hsn, hvs, _, _⟩ := repLink_ref_some.mp hx
  have hkeys := hk sn hsn
  have hteq : ({ t with root := .ref n } : PTree) = t := by
    cases t; simp_all
  cases hlr : loadRef E n s with
  | err s1 =>
    rw [hlr] at hl
    simp [flush, hr, load, bind, M.bind, hlr]
    exact ⟨hl.store, hl⟩
  | ok a s1 =>
    rw [hlr] at hl
    obtain ⟨hgr, _, _⟩ := hl
    have hnonempty : ∀ nd : MNode, nd.keys = sn.keys → nd.links = expandLinks sn → isEmptyN nd = false := by
      intro nd h1 h2
      have hlen := hvs.1
      cases hkk : sn.keys with
      | nil => exact absurd hkk hkeys
      | cons k ks =>
        simp only [isEmptyN, h2]
        rw [hkk] at hlen
        cases hel : expandLinks sn with
        | nil => rw [hel] at hlen; simp at hlen
        | cons l ls =>
          cases ls with
          | nil => rw [hel] at hlen; simp at hlen
          | cons l2 ls2 => simp
    rcases loadRef_ok_cases E n a s s1 hlr with ⟨hmem, rfl⟩ | ⟨sn', hsn', hheap, ha, hst⟩
    · obtain ⟨nd, sn', h1, h2, h3, h4, h5, h6⟩ := hg.cache n a hmem
      rw [hsn] at h3; injection h3 with h3; subst h3
      have hdu : nd.dirty = false := by
        cases hdd : nd.dirty with
        | false => rfl
        | true => have := hg.du a nd h1 hdd; rw [h2] at this; cases this
      rw [flush_via_load E t fuel n a s1 s1 nd hr hlr h1 (hnonempty nd h4 h6) hdu (hcs n a nd hmem h1)]
      exact ⟨by rw [hteq], rfl, hgr⟩
    · rw [hsn] at hsn'; injection hsn' with hsn'; subst hsn'
      have hnd : s1.heap[a]? = some (decode sn n) := by
        rw [hheap, ha]; exact getElem?_append_self _ _
      rw [flush_via_load E t fuel n a s s1 (decode sn n) hr hlr hnd (hnonempty _ rfl rfl) rfl rfl]
      exact ⟨by rw [hteq], hst, hgr⟩
  | panic => simp [flush, hr, load, bind, M.bind, hlr]
  | stuck => simp [flush, hr, load, bind, M.bind, hlr]
  | oof => simp [flush, hr, load, bind, M.bind, hlr]

/-- non-vacuity (kernel-checked): in the system reached by `hxOps` (`Lemmas/RefHistExample.lean`) trees
    1 and 2 have been persisted and are held by name; persisting them again returns the same root
    link and leaves the store as it is -/
def hxReflush (i : Nat) : Bool :=
  match hxSys.trees[i]? with
  | some t =>
    (match flush hxEnv t 10 hxSys.ps with
     | .ok r s' => decide (r.1.root = t.root) && decide (s'.store = hxSys.ps.store) && (match t.root with | .ref _ => true | _ => false)
     | _ => false)
  | none => false
example : hxReflush 1 = true ∧ hxReflush 2 = true := by decide +kernel

end Mast.Ptr
#print axioms Mast.Ptr.C13_object_level_clean_flush_by_object
#print axioms Mast.Ptr.C13_object_level_clean_flush_by_name
