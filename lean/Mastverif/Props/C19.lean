import Mastverif.Model.Loader
/-!
# C19 — loading rejects a root that does not match the configuration (property theorems)

On the loader model `Loader.loadMast` (format switch, top-node load, decode, count / order /
layer checks in the order of the repaired Go code):
* an unknown format is rejected with an error;
* a missing top node is rejected with an error;
* `C19_ok_implies_good`: if the binary top node is accepted then it decoded, its entry and
  link counts match, its keys are strictly ascending under the configured order and no key's
  layer is below the recorded height — contrapositive: every root that violates one of these
  is rejected; and the outcome is never a panic (`C19_never_panics`).
Both node formats: `checkTop` is parametric in the decoder — `decBinRaw` (codec.go) and
`Json.decJson` (the canonical shape `encoding/json` writes for a node; what else `encoding/json`
would accept — white space, other member orders, letter case — is outside the model and outside
what the `badroots` family feeds it).
With a `NodeCache` in front of the store (`loadMastC`: a hit returns the cached object, nothing is
decoded): `C19_cold_cache` and `C19_cache_of_this_configuration(_json)` — a cold cache, or a cache
filled by readers of the loader's own configuration, changes no outcome, so everything above
carries over; `C19_cache_of_another_configuration_is_accepted_in_the_model` — the recorded known
finding as a kernel-checked witness: an entry left by a differently configured reader is accepted
where the cache-free load is rejected.
-/
namespace Mast.Loader

theorem C19_unknown_format (fmt : String) (kk layer h desc link top)
    (hf : knownFormat fmt = none) : loadMast fmt kk layer h desc link top = .err "format" := by
  simp [loadMast, hf]

theorem C19_missing_top (fmt : String) (f : Fmt) (kk layer h desc)
    (hf : knownFormat fmt = some f) : loadMast fmt kk layer h desc true none = .err "missing" := by
  simp [loadMast, hf]

/-- what acceptance of a binary top node guarantees -/
structure GoodTop (dec : Bytes → Option Codec.RawNode) (kk : KeyKind) (layer : Nat → Nat) (height : Nat) (desc : Bool) (bytes : Bytes) : Prop where
  decodes : ∃ raw keys, dec bytes = some raw ∧
    raw.keys.mapM (fun b => b.bind (parseKey kk)) = some keys ∧
    keys.length = raw.vals.length ∧
    (if raw.links.length = 0 then keys.length + 1 else raw.links.length) = keys.length + 1 ∧
    ascending desc keys = true ∧ ∀ k ∈ keys, height ≤ layer k

theorem C19_ok_implies_good (dec kk layer height desc bytes)
    (h : checkTop dec kk layer height desc bytes = .ok) : GoodTop dec kk layer height desc bytes := by
  unfold checkTop at h
  cases hraw : dec bytes with
  | none => simp [hraw] at h
  | some raw =>
    simp only [hraw] at h
    cases hkeys : raw.keys.mapM (fun b => b.bind (parseKey kk)) with
    | none => simp [hkeys] at h
    | some keys =>
      simp only [hkeys] at h
      split at h
      · cases h
      ·
        by_cases hc : keys.length ≠ raw.vals.length ∨
            (if raw.links.length = 0 then keys.length + 1 else raw.links.length) ≠ keys.length + 1
        · rw [if_pos hc] at h; cases h
        · rw [if_neg hc] at h
          by_cases ha : ¬ ascending desc keys = true
          · rw [if_pos ha] at h; cases h
          · rw [if_neg ha] at h
            by_cases hl : (keys.any fun k => decide (layer k < height)) = true
            · rw [if_pos hl] at h; cases h
            · have hc' : keys.length = raw.vals.length ∧
                  (if raw.links.length = 0 then keys.length + 1 else raw.links.length) = keys.length + 1 := by
                constructor
                · exact Decidable.byContradiction fun x => hc (Or.inl x)
                · exact Decidable.byContradiction fun x => hc (Or.inr x)
              refine ⟨raw, keys, hraw, hkeys, hc'.1, hc'.2, Decidable.byContradiction ha, ?_⟩
              intro k hk
              apply Decidable.byContradiction
              intro hlt
              apply hl
              rw [List.any_eq_true]
              exact ⟨k, hk, by simpa using Nat.lt_of_not_le hlt⟩

theorem ite_err_ne_panic (c : Prop) [Decidable c] (x why : String) (o : Outcome)
    (h : o ≠ .panic why) : (if c then Outcome.err x else o) ≠ .panic why := by
  split
  · simp
  · exact h

theorem checkTop_no_panic (dec kk layer height desc bytes) :
    ∀ why, checkTop dec kk layer height desc bytes ≠ .panic why := by
  intro why
  unfold checkTop
  cases dec bytes with
  | none => simp
  | some raw =>
    simp only []
    cases raw.keys.mapM (fun b => b.bind (parseKey kk)) with
    | none => simp
    | some keys =>
      simp only []
      apply ite_err_ne_panic
      apply ite_err_ne_panic
      apply ite_err_ne_panic
      apply ite_err_ne_panic
      simp

theorem C19_never_panics (fmt kk layer h desc link top) :
    ∀ why, loadMast fmt kk layer h desc link top ≠ .panic why := by
  intro why
  unfold loadMast
  cases knownFormat fmt with
  | none => simp
  | some f =>
    simp only []
    by_cases hl : ¬ link = true
    · rw [if_pos hl]; simp
    · rw [if_neg hl]
      cases top with
      | none => simp
      | some bytes =>
        cases f with
        | bin => exact checkTop_no_panic _ kk layer h desc bytes why
        | json => exact checkTop_no_panic _ kk layer h desc bytes why

/-- rejection, in the direction the property states it -/
theorem C19_rejects_bad_binary_top (kk layer height desc bytes)
    (hbad : ¬ GoodTop Codec.decBinRaw kk layer height desc bytes) :
    ∃ why, loadMast "v1.1.5binary" kk layer height desc true (some bytes) = .err why := by
  have hk : knownFormat "v1.1.5binary" = some Fmt.bin := by decide
  simp only [loadMast, hk]
  cases hc : checkTopBin kk layer height desc bytes with
  | ok => exact absurd (C19_ok_implies_good _ kk layer height desc bytes hc) hbad
  | err why => exact ⟨why, by simp⟩
  | panic why =>
    exfalso
    have := C19_never_panics "v1.1.5binary" kk layer height desc true (some bytes) why
    simp [loadMast, hk, hc] at this

/-- the same for the v1marshaler format (for either name of it) -/
theorem C19_rejects_bad_json_top (fmt : String) (hf : knownFormat fmt = some Fmt.json) (kk layer height desc bytes)
    (hbad : ¬ GoodTop Json.decJson kk layer height desc bytes) :
    ∃ why, loadMast fmt kk layer height desc true (some bytes) = .err why := by
  simp only [loadMast, hf]
  cases hc : checkTopJson kk layer height desc bytes with
  | ok => exact absurd (C19_ok_implies_good _ kk layer height desc bytes hc) hbad
  | err why => exact ⟨why, by simp [hc]⟩
  | panic why => exact absurd hc (checkTop_no_panic _ kk layer height desc bytes why)

/-! ## with a node cache in front of the store -/


theorem C19_cold_cache (fmt kk layerOf h desc link top) :
    loadMastC fmt kk layerOf h desc link none top = loadMast fmt kk (layerOf kk) h desc link top := by
  unfold loadMastC loadMast
  cases knownFormat fmt <;> rfl

/-- a cache entry made under THIS configuration answers as the bytes do -/
theorem checkCached_of_cacheEntry (dec kk layerOf height desc bytes c)
    (hc : cacheEntry dec kk desc bytes = some c) :
    checkCached layerOf height desc c = checkTop dec kk (layerOf kk) height desc bytes := by
  unfold cacheEntry at hc
  unfold checkTop
  cases hraw : dec bytes with
  | none => simp [hraw] at hc
  | some raw =>
    simp only [hraw] at hc ⊢
    cases hkeys : raw.keys.mapM (fun b => b.bind (parseKey kk)) with
    | none => simp [hkeys] at hc
    | some keys =>
      simp only [hkeys] at hc ⊢
      by_cases hv : badVals raw = true
      · rw [if_pos hv] at hc; cases hc
      · rw [if_neg hv] at hc ⊢
        by_cases hcnt : keys.length ≠ raw.vals.length ∨
            (if raw.links.length = 0 then keys.length + 1 else raw.links.length) ≠ keys.length + 1
        · rw [if_pos hcnt] at hc; cases hc
        · rw [if_neg hcnt] at hc ⊢
          by_cases hasc : ¬ ascending desc keys = true
          · rw [if_pos hasc] at hc; cases hc
          · rw [if_neg hasc] at hc ⊢
            injection hc with hc
            subst hc
            unfold checkCached
            simp only []
            rw [if_neg hcnt, if_neg hasc]


/-- **a cache filled under the loader's own configuration changes nothing**: whenever the object
    under the root's link was put into the cache by a reader with this decoder, key kind and
    order, `LoadMast` through the cache answers exactly as the cache-free `LoadMast` — so every
    theorem above holds for it -/
theorem C19_cache_of_this_configuration (kk layerOf height desc bytes c)
    (hc : cacheEntry Codec.decBinRaw kk desc bytes = some c) :
    loadMastC "v1.1.5binary" kk layerOf height desc true (some c) (some bytes) =
      loadMast "v1.1.5binary" kk (layerOf kk) height desc true (some bytes) := by
  have hk : knownFormat "v1.1.5binary" = some Fmt.bin := by decide
  simp only [loadMastC, loadMast, hk]
  exact checkCached_of_cacheEntry _ kk layerOf height desc bytes c hc

theorem C19_cache_of_this_configuration_json (fmt : String) (hf : knownFormat fmt = some Fmt.json)
    (kk layerOf height desc bytes c) (hc : cacheEntry Json.decJson kk desc bytes = some c) :
    loadMastC fmt kk layerOf height desc true (some c) (some bytes) =
      loadMast fmt kk (layerOf kk) height desc true (some bytes) := by
  simp only [loadMastC, loadMast, hf]
  exact checkCached_of_cacheEntry _ kk layerOf height desc bytes c hc

/-- the stored bytes of a node with the two string keys "aaaaf", "aaaaj" (binary format) -/
def strTop : Bytes := [2, 7, 34, 97, 97, 97, 97, 102, 34, 7, 34, 97, 97, 97, 97, 106, 34, 2, 1, 49, 1, 50, 0]

/-- **the known finding, in the model** (negation witness for the cache of ANOTHER configuration):
    a reader configured for string keys has loaded `strTop` and left it in the cache; a loader
    configured for uint64 keys rejects the same root without the cache ("key": the bodies do not
    unmarshal) and accepts it through the cache — the cached object is never decoded and the
    default order and layer function are evaluated on its own key type.  Recorded in
    known_findings.txt; the `badroots` family replays it on the Go code on every run. -/
theorem C19_cache_of_another_configuration_is_accepted_in_the_model :
    ∃ c, cacheEntry Codec.decBinRaw .str false strTop = some c ∧
      loadMast "v1.1.5binary" .u64 (fun _ => 0) 0 false true (some strTop) = .err "key" ∧
      loadMastC "v1.1.5binary" .u64 (fun _ _ => 0) 0 false true (some c) (some strTop) = .ok := by
  refine ⟨{ kk := .str, keys := [5, 9], nvals := 2, nlinks := 3 }, by decide, by decide, by decide⟩

end Mast.Loader
#print axioms Mast.Loader.C19_rejects_bad_json_top
#print axioms Mast.Loader.C19_cold_cache
#print axioms Mast.Loader.C19_cache_of_this_configuration
#print axioms Mast.Loader.C19_cache_of_this_configuration_json
#print axioms Mast.Loader.C19_cache_of_another_configuration_is_accepted_in_the_model
#print axioms Mast.Loader.C19_unknown_format
#print axioms Mast.Loader.C19_missing_top
#print axioms Mast.Loader.C19_ok_implies_good
#print axioms Mast.Loader.C19_never_panics
#print axioms Mast.Loader.C19_rejects_bad_binary_top
