import Mastverif.Lemmas.Diff
/-!
# C06 — entry diff (property theorems)

`C06_exact`: for any two trees whose entry lists are strictly ascending — related or unrelated,
of equal or different heights, empty or not, in memory or persisted, `old` possibly absent —
the entry events produced by the literal `diffOne` loop are exactly the sorted-merge diff
`diffL` of the two entry lists: every key whose presence or value differs, once, in ascending
order, with the old and new values, and nothing for keys on which the trees agree.
The only assumption about link identity is that links with equal names have equal contents.
Both Go interfaces (`DiffIter` and the `DiffCursor`) consume this one event stream; that they
agree, and that a stopping or failing callback sees exactly a prefix, is checked by family
`diff` together with the correspondence of the stream itself.
-/
namespace Mast.Diff
open T

variable (layer : Nat → Nat) (nameOf : T → List UInt8)

theorem flat_rootItems (p : Bool) (t : T) : flat (rootItems p t) = toList t := by
  unfold rootItems
  split <;> simp [flat, toList]

theorem mu_rootItems (p : Bool) (t : T) : mu (rootItems p t) ≤ 1 + W t := by
  unfold rootItems
  split <;> simp [mu, wItem]

def oldEntries : Option (Bool × T) → List (Nat × Nat)
  | some (_, t) => toList t
  | none => []

def oldWeight : Option (Bool × T) → Nat
  | some (_, t) => 1 + W t
  | none => 0

theorem C06_exact (hle : ∀ a b, nameOf a = nameOf b → toList a = toList b)
    (oldRoot : Option (Bool × T)) (newP : Bool) (newRoot : T)
    (hso : Sorted (oldEntries oldRoot)) (hsn : Sorted (toList newRoot))
    (fuel : Nat) (hfuel : oldWeight oldRoot + (1 + W newRoot) < fuel) :
    ents (run layer nameOf fuel (init oldRoot newP newRoot)).1 =
      diffL (oldEntries oldRoot) (toList newRoot) := by
  have hnew : flat (init oldRoot newP newRoot).new = toList newRoot := by
    simp [init, flat_rootItems]
  have hold : flat (init oldRoot newP newRoot).old = oldEntries oldRoot := by
    cases oldRoot with
    | none => simp [init, flat, oldEntries]
    | some pt => obtain ⟨p, t⟩ := pt; simp [init, flat_rootItems, oldEntries]
  have hmu : mu (init oldRoot newP newRoot).old + mu (init oldRoot newP newRoot).new < fuel := by
    have h1 := mu_rootItems newP newRoot
    cases oldRoot with
    | none => simp [init, mu, oldWeight] at *; omega
    | some pt =>
      obtain ⟨p, t⟩ := pt
      have h2 := mu_rootItems p t
      simp [init, oldWeight] at *; omega
  have := run_correct layer nameOf hle fuel (init oldRoot newP newRoot)
    (by rw [hold]; exact hso) (by rw [hnew]; exact hsn) hmu
  rw [this, hold, hnew]

/-- the specification itself: agreeing trees produce no event -/
theorem C06_equal_trees_no_events (l : List (Nat × Nat)) : diffL l l = [] := by
  have := diffL_prefix l [] []
  simpa [diffL_nil_nil] using this

/-- non-vacuity: one changed value, one added key -/
example : diffL [(1, 10), (2, 20)] [(1, 11), (2, 20), (3, 30)] = [DEv.chg 1 10 11, DEv.add 3 30] := by
  simp [diffL_cons_cons, diffL_nil_cons, diffL_nil_nil]

end Mast.Diff
#print axioms Mast.Diff.C06_exact
#print axioms Mast.Diff.C06_equal_trees_no_events
