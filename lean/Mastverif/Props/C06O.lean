import Mastverif.Lemmas.RefDiff
import Mastverif.Lemmas.RefHistExample
import Mastverif.Props.C06
/-!
# C06 at the level of node objects (property theorems)

`Props/C06.lean` proves that the literal `diffOne` of the functional model yields the sorted-merge
diff `diffL`.  Here the same is proved of `Model/PtrDiff.lean`: the stacks hold links to node
OBJECTS or names, both trees' nodes are loaded through the node cache / store (counted loads, any
of which may fail), two links are "the same" when they are the same name or the same object, and
`alreadyNotified` performs loads of its own whose failures it swallows.

* `C06_object_level_entry_diff`: two trees over one heap, store and cache whose root links denote
  rows with ascending entries — related or unrelated, any heights, in memory or persisted, any
  sharing of objects between them, `old` possibly absent: whenever the loop of `diff()` runs to its
  end, the entry events are exactly `diffL (entries of old) (entries of new)`; whatever happens
  (also when a load fails and the call returns the error) the call has only allocated;
* `C06_object_level_trees`: the same for tree records that denote functional trees `A`, `B`
  (`repTree`), with "every tree of the system denotes what it denoted";
* `C06_object_level_failed_step_partial` (the C12 clause for `DiffCursor.NextEntry`): a step that
  reports an error hands back the very state it was given, has only allocated, and the same step
  retried from there is again a correct step.
Which side `diffOne` opens (pass-through nodes, first-key comparison) does not matter for this
result — the proof treats every branch as an expansion that keeps the flattened stacks.  Link
events (C07) are produced by the model and compared by the tie, but not covered by a theorem at
this level.  Failing key comparisons are not modelled.
-/
namespace Mast.Ptr
open Mast.Heap Mast Mast.Diff Mast.T

/-- the program of `DiffIter` for the entry stream: build the two stacks, run the loop -/
def oDiff (E : Env) (f n : Nat) (oldRoot : Option HLink) (newRoot : HLink) : M (List OEv) := do
  let st ← oDiffInit oldRoot newRoot
  oRun E f n st

theorem C06_object_level_entry_diff (E : Env) (m f g n : Nat) (s : PS) (oldRoot newRoot : HLink)
    (pO pN : Bool) (tO tN : T) (fO fN : List Nat) (hg : Good s)
    (hxo : repLink s.heap s.store g oldRoot = some (pO, tO, fO))
    (hxn : repLink s.heap s.store g newRoot = some (pN, tN, fN))
    (hso : Sorted (toList tO)) (hsn : Sorted (toList tN)) (hn : (1 + W tO) + (1 + W tN) < n) :
    Spec (Grow m) (oDiff E f n (some oldRoot) newRoot) s (fun evs _ => oents evs = diffL (toList tO) (toList tN)) := by
  unfold oDiff oDiffInit
  refine Spec.bind ?_ ?_ (Q1 := fun st s' => s' = s ∧ ∃ Lo Ln, StackRep s g st.old Lo ∧ StackRep s g st.new Ln ∧
    flat Lo = toList tO ∧ flat Ln = toList tN ∧ mu Lo + mu Ln < n)
  · refine Spec.bind (orootItems_spec (m := m) hxo) ?_
    rintro o s1 _ _ ⟨rfl, Lo, h1, h2, h3⟩
    refine Spec.bind (orootItems_spec (m := m) hxn) ?_
    rintro nw s2 _ _ ⟨rfl, Ln, h4, h5, h6⟩
    exact Spec.pure ⟨rfl, Lo, Ln, h1, h4, h2, h5, by omega⟩
  · rintro st s1 _ _ ⟨hs1, Lo, Ln, h1, h2, h3, h4, h5⟩
    subst hs1
    have := oRun_correct (m := m) E f g n st s1 Lo Ln hg h1 h2 (by rw [h3]; exact hso) (by rw [h4]; exact hsn) h5
    rw [h3, h4] at this
    exact this

/-- no old tree: everything in the new tree is an addition -/
theorem C06_object_level_entry_diff_no_old (E : Env) (m f g n : Nat) (s : PS) (newRoot : HLink)
    (pN : Bool) (tN : T) (fN : List Nat) (hg : Good s)
    (hxn : repLink s.heap s.store g newRoot = some (pN, tN, fN))
    (hsn : Sorted (toList tN)) (hn : 1 + W tN < n) :
    Spec (Grow m) (oDiff E f n none newRoot) s (fun evs _ => oents evs = diffL [] (toList tN)) := by
  unfold oDiff oDiffInit
  refine Spec.bind ?_ ?_ (Q1 := fun st s' => s' = s ∧ st.old = [] ∧ ∃ Ln, StackRep s g st.new Ln ∧
    flat Ln = toList tN ∧ mu Ln < n)
  · refine Spec.bind (Spec.pure (Q := fun o s' => o = ([] : List OItem) ∧ s' = s) ⟨rfl, rfl⟩) ?_
    rintro o s1 _ _ ⟨rfl, rfl⟩
    refine Spec.bind (orootItems_spec (m := m) hxn) ?_
    rintro nw s2 _ _ ⟨rfl, Ln, h4, h5, h6⟩
    exact Spec.pure ⟨rfl, rfl, Ln, h4, h5, by omega⟩
  · rintro st s1 _ _ ⟨hs1, ho, Ln, h2, h4, h5⟩
    subst hs1
    have hro : StackRep s1 g st.old [] := by rw [ho]; trivial
    have := oRun_correct (m := m) E f g n st s1 [] Ln hg hro h2 (by simp [flat, Sorted]) (by rw [h4]; exact hsn)
      (by simpa [mu] using h5)
    rw [h4] at this
    simpa [flat] using this

/-- **C06 at the level of node objects**, for tree records: `DiffIter` of `tNew` against `tOld`,
    two trees of one system (any sharing of objects, cache, store between them), whose objects denote
    functional trees with ascending entries: if the call runs to its end, its entry events are the
    sorted-merge diff of the two entry lists; error or not, every tree denotes what it denoted -/
theorem C06_object_level_trees (E : Env) (f g n : Nat) (s : PS) (tOld tNew : PTree) (A B : Tree) (hg : Good s)
    (hA : repTree s g tOld = some A) (hB : repTree s g tNew = some B)
    (hso : Sorted A.toList) (hsn : Sorted B.toList) (hn : (1 + W A.root) + (1 + W B.root) + 2 < n) :
    match oDiff E f n (some tOld.root) tNew.root s with
    | .ok evs s' => oents evs = diffL A.toList B.toList ∧ Good s' ∧
        ∀ g2 t2 C, repTree s g2 t2 = some C → FpOwned s.heap t2.id (footprint s g2 t2) →
          repTree s' g2 t2 = some C ∧ FpOwned s'.heap t2.id (footprint s' g2 t2)
    | .err s' => Good s' ∧
        ∀ g2 t2 C, repTree s g2 t2 = some C → FpOwned s.heap t2.id (footprint s g2 t2) →
          repTree s' g2 t2 = some C ∧ FpOwned s'.heap t2.id (footprint s' g2 t2)
    | _ => True := by
  obtain ⟨x, hx, _, hAeq⟩ := repTree_eq_some.mp hA
  obtain ⟨y, hy, _, hBeq⟩ := repTree_eq_some.mp hB
  have hAl : A.toList = toList x.2.1 := by rw [hAeq]; simp [Tree.toList, treeRec]
  have hBl : B.toList = toList y.2.1 := by rw [hBeq]; simp [Tree.toList, treeRec]
  have hWA : W x.2.1 ≤ W A.root := by
    rw [hAeq]; simp only [treeRec]
    cases x.2.1 <;> simp [T.unmk, W]
  have hWB : W y.2.1 ≤ W B.root := by
    rw [hBeq]; simp only [treeRec]
    cases y.2.1 <;> simp [T.unmk, W]
  have hs := C06_object_level_entry_diff E 0 f g n s tOld.root tNew.root x.1 y.1 x.2.1 y.2.1 x.2.2 y.2.2 hg hx hy
    (by rw [← hAl]; exact hso) (by rw [← hBl]; exact hsn) (by omega)
  unfold Spec at hs
  cases hr : oDiff E f n (some tOld.root) tNew.root s with
  | ok evs s' =>
    rw [hr] at hs
    exact ⟨by rw [hs.2, hAl, hBl], hs.1.good hg, fun g2 t2 C hC ho => ⟨(hs.1.tree hC ho).1, (hs.1.tree hC ho).2.1⟩⟩
  | err s' =>
    rw [hr] at hs
    exact ⟨hs.good hg, fun g2 t2 C hC ho => ⟨(hs.tree hC ho).1, (hs.tree hC ho).2.1⟩⟩
  | stuck => trivial
  | panic => trivial
  | oof => trivial

/-- a `diffOne` that reports an error hands back the state it was given and has only allocated;
    the same step retried from there (any later pattern of faults) is again a correct step -/
theorem C06_object_level_failed_step_partial (E E2 : Env) (m f g : Nat) (st : ODiff) (s s1 : PS) (Lo Ln : List Item)
    (r : Option (ODiff × List OEv) × Bool) (hg : Good s)
    (hro : StackRep s g st.old Lo) (hrn : StackRep s g st.new Ln)
    (hso : Sorted (flat Lo)) (hsn : Sorted (flat Ln))
    (h : oStep E f st s = .ok r s1) (herr : r.2 = true) :
    r.1 = some (st, []) ∧ Grow m s s1 ∧
    Spec (Grow m) (oStep E2 f st) s1 (fun r' s' =>
      (r'.2 = false → OStepOK g Lo Ln r'.1 s') ∧ (r'.2 = true → r'.1 = some (st, []))) := by
  have hs := oStep_spec (m := m) E f g st s Lo Ln hg hro hrn hso hsn
  unfold Spec at hs
  rw [h] at hs
  exact ⟨hs.2.2 herr, hs.1, oStep_spec E2 f g st s1 Lo Ln (hs.1.good hg) (hro.grow hs.1) (hrn.grow hs.1) hso hsn⟩

/-! non-vacuity (kernel-checked): in the system reached by `hxOps` (`Lemmas/RefHistExample.lean`),
    tree 0 holds 2, 4, 5, 8 and tree 2 holds 3, 4, 5, 7, 8 — partly objects, partly names, with the
    persisted nodes shared through the cache -/
def hxDiff (i j : Nat) : Option (List DEv) :=
  hxSys.trees[i]?.bind fun to => hxSys.trees[j]?.bind fun tn =>
    match oDiff hxEnv 10 200 (some to.root) tn.root hxSys.ps with
    | .ok evs _ => some (oents evs)
    | _ => none
example : hxDiff 0 2 = some [DEv.rem 2 20, DEv.add 3 30, DEv.add 7 70] ∧
    hxDiff 2 0 = some [DEv.add 2 20, DEv.rem 3 30, DEv.rem 7 70] ∧ hxDiff 2 2 = some [] := by decide +kernel

end Mast.Ptr
#print axioms Mast.Ptr.C06_object_level_entry_diff
#print axioms Mast.Ptr.C06_object_level_entry_diff_no_old
#print axioms Mast.Ptr.C06_object_level_trees
#print axioms Mast.Ptr.C06_object_level_failed_step_partial
