import Mastverif.Lemmas.RefCursor
import Mastverif.Lemmas.RefSeek
import Mastverif.Lemmas.RefInsertTop
import Mastverif.Lemmas.TreeInv
import Mastverif.Lemmas.RefHistExample
import Mastverif.Props.C10
/-!
# C10 at the level of node objects (property theorems)

`Props/C10.lean` proves the navigation property for the functional cursor (`Model/Cursor.lean`).
The theorems here carry it over to the cursor of `Model/PtrCursor.lean`: a clone of the tree and a
path of `(node object, index)` pairs, whose functions read node objects from the heap and load
children through the node cache / store — counted loads, any of which may fail.

* `C10_object_level_place / _step / _get`: from a `Good` state and an object path that denotes a
  functional path `P` (`PathRep`: same indices, every object denotes the row at its position),
  `Min` / `Max` / `Ceil`, `Forward` / `Backward` and `Get` are allocation-only steps and, when they
  report no error, leave a path that denotes what the functional cursor computes from `P` (resp.
  return the entry the functional cursor is at);
* `C10_object_level_failed_move_stays`: a `Forward` / `Backward` that reports an error leaves the
  cursor exactly where it was (the C12 clause for navigation calls, for every position of the
  failing load);
* `C10_object_level_navigate`: `Cursor()` on a tree whose objects denote a well-formed functional
  tree `A`, any placement, ANY list of moves, then `Get` — whenever no call reported an error, the
  entry read is what index arithmetic on the sorted entry list of `A` gives (`C10_walk`), and every
  tree of the system denotes what it denoted (the cursor is a capture: it works on a clone and only
  allocates);
* `C10_object_level_seekIter`: `SeekIter` over the tree's own objects (seek with `Ceil`, then
  `node.seekIter` from every path entry, children loaded and iterated) hands to its callback exactly
  the entries whose keys are not smaller than the probe, ascending, each once; it only allocates.
Tie: family `ptr` (cursor paths — object identities and indices — compared after every cursor
call).
-/
namespace Mast.Ptr
open Mast.Heap Mast

variable {w : Nat}

theorem C10_object_level_place (E : Env) (m g f : Nat) (opath : CPath) (s : PS) (root : T) (pl : CPlace)
    (hg : Good s) (hp : PathRep w s g opath [(root, 0)]) :
    Spec (Grow m) (cPlace E f opath pl) s (NavPost w g (Cursor.place f root (toPlace pl))) :=
  cPlace_spec E g f opath s root pl hg hp

theorem C10_object_level_step (E : Env) (m g f : Nat) (opath : CPath) (s : PS) (P : Path) (mv : CMove)
    (hg : Good s) (hp : PathRep w s g opath P) :
    Spec (Grow m) (cStep E f opath mv) s (MovePost w g opath (Cursor.stepPath f P (toMove mv))) :=
  cStep_spec E g f opath s P mv hg hp

theorem C10_object_level_get (m g : Nat) (opath : CPath) (s : PS) (P : Path) (hp : PathRep w s g opath P) :
    Spec (Grow m) (cGet opath) s (fun r s' => s' = s ∧ r = Cursor.get P) :=
  cGet_spec g opath s P hp

/-- a `Forward` / `Backward` that reports an error (a load failed, at any position of the descent)
    leaves the cursor where it was -/
theorem C10_object_level_failed_move_stays (E : Env) (g f : Nat) (opath : CPath) (s s' : PS) (P : Path)
    (mv : CMove) (r : CPath × Bool) (hg : Good s) (hp : PathRep w s g opath P)
    (h : cStep E f opath mv s = .ok r s') (herr : r.2 = true) :
    r.1 = opath ∧ PathRep w s' g opath P := by
  have hs := cStep_spec (m := 0) E g f opath s P mv hg hp
  unfold Spec at hs
  rw [h] at hs
  exact ⟨hs.2.2 herr, hp.grow hs.1⟩

theorem foldl_stepPath_nil (f : Nat) : ∀ (ms : List Cursor.Move), ms.foldl (Cursor.stepPath f) [] = [] := by
  intro ms
  induction ms with
  | nil => rfl
  | cons mv ms ih => cases mv <;> simpa [Cursor.stepPath, Cursor.forward, Cursor.backward] using ih

/-- what `cNavigate` returns and does -/
theorem cNavigate_spec (E : Env) (t : PTree) (newId fuel f g : Nat) (pl : CPlace) (ms : List CMove) (s : PS)
    (x : Bool × T × List Nat) (hg : Good s) (hx : repLink s.heap s.store g t.root = some x) :
    Spec (Grow newId) (cNavigate E t newId fuel f pl ms) s (fun r _ => ∀ e, r = some e →
      (t.root ≠ .nil → e = Cursor.get ((ms.map toMove).foldl (Cursor.stepPath f) (Cursor.place f x.2.1 (toPlace pl)))) ∧
      (t.root = .nil → e = none)) := by
  unfold cNavigate
  refine Spec.bind (cursorNew_spec E t newId fuel g s x hg hx) ?_
  rintro ⟨t', path⟩ s1 _ hgr1 ⟨_, hnil, hnn⟩
  have hg1 := hgr1.good hg
  by_cases hr : t.root = .nil
  · -- no root node: the path is empty and stays empty
    have hpe : path = [] := hnil hr
    subst hpe
    have hp0 : PathRep newId s1 g [] [] := trivial
    have hpl : Spec (Grow newId) (cPlace E f [] pl) s1 (NavPost newId g []) := by
      cases pl with
      | min => exact cMin_spec E g f [] s1 [] hg1 hp0
      | max => exact cMax_spec E g f [] s1 [] hg1 hp0
      | ceil k =>
        have := cCeil_spec (m := newId) E g k f [] s1 [] hg1 hp0
        cases f <;> simpa [Cursor.ceil, cPlace] using this
    refine Spec.bind hpl ?_
    intro r s2 _ hgr2 hq
    cases hr2 : r.2 with
    | true => simp only [if_true]; exact Spec.pure (fun e h => nomatch h)
    | false =>
      simp only [Bool.false_eq_true, if_false]
      refine Spec.bind (cWalk_spec (m := newId) E g f ms r.1 s2 [] (hgr2.good hg1) (hq.1 hr2)) ?_
      intro r3 s3 _ hgr3 hq3
      cases hr3 : r3.2 with
      | true => simp only [if_true]; exact Spec.pure (fun e h => nomatch h)
      | false =>
        simp only [Bool.false_eq_true, if_false]
        have hp3 := hq3 hr3
        rw [foldl_stepPath_nil] at hp3
        refine Spec.bind (cGet_spec (m := newId) g r3.1 s3 [] hp3) ?_
        rintro e s4 _ _ ⟨rfl, he⟩
        refine Spec.pure ?_
        intro e' he'
        injection he' with he'; subst he'
        exact ⟨fun h => absurd hr h, fun _ => he⟩
  · have hp1 := hnn hr
    refine Spec.bind (cPlace_spec (m := newId) E g f path s1 x.2.1 pl hg1 hp1) ?_
    intro r s2 _ hgr2 hq
    cases hr2 : r.2 with
    | true => simp only [if_true]; exact Spec.pure (fun e h => nomatch h)
    | false =>
      simp only [Bool.false_eq_true, if_false]
      refine Spec.bind (cWalk_spec (m := newId) E g f ms r.1 s2 _ (hgr2.good hg1) (hq.1 hr2)) ?_
      intro r3 s3 _ hgr3 hq3
      cases hr3 : r3.2 with
      | true => simp only [if_true]; exact Spec.pure (fun e h => nomatch h)
      | false =>
        simp only [Bool.false_eq_true, if_false]
        refine Spec.bind (cGet_spec (m := newId) g r3.1 s3 _ (hq3 hr3)) ?_
        rintro e s4 _ _ ⟨rfl, he⟩
        refine Spec.pure ?_
        intro e' he'
        injection he' with he'; subst he'
        exact ⟨fun _ => he, fun h => absurd h hr⟩

/-- **C10 at the level of node objects**: `Cursor()` on a tree whose objects denote the well-formed
    functional tree `A`, any placement (`Min` / `Max` / `Ceil k`), ANY list of `Forward` / `Backward`
    moves, then `Get` — with a node cache or none, any fuel above the height, and any pattern of
    failing loads: whenever no call reported an error (`some e`), the entry read is what index
    arithmetic on the sorted entry list of `A` gives; and, error or not, every tree `t2` of the
    system denotes what it denoted (the cursor works on its own clone and only allocates) -/
theorem C10_object_level_navigate (E : Env) (t : PTree) (newId fuel f g : Nat) (pl : CPlace) (ms : List CMove)
    (s : PS) (A : Tree) (hg : Good s) (hA : repTree s g t = some A) (hinv : Tree.Inv E.layer A)
    (hf : A.height < f) :
    match cNavigate E t newId fuel f pl ms s with
    | .ok r s' =>
        (∀ e, r = some e → e =
          ((ms.map toMove).foldl (Cursor.stepIdx A.toList.length) (Cursor.placeIdx A.toList (toPlace pl))).bind
            fun n => A.toList[n]?) ∧
        Good s' ∧ ∀ g2 t2 B, repTree s g2 t2 = some B → FpOwned s.heap t2.id (footprint s g2 t2) →
          repTree s' g2 t2 = some B ∧ FpOwned s'.heap t2.id (footprint s' g2 t2)
    | .err s' => Good s' ∧ ∀ g2 t2 B, repTree s g2 t2 = some B → FpOwned s.heap t2.id (footprint s g2 t2) →
          repTree s' g2 t2 = some B ∧ FpOwned s'.heap t2.id (footprint s' g2 t2)
    | _ => True := by
  obtain ⟨x, hx, _, hAeq⟩ := repTree_eq_some.mp hA
  have hs := cNavigate_spec E t newId fuel f g pl ms s x hg hx
  unfold Spec at hs
  have hroot : A.root = T.unmk x.2.1 := by rw [hAeq]; rfl
  have hheight : A.height = t.height := by rw [hAeq]; rfl
  cases hr : cNavigate E t newId fuel f pl ms s with
  | ok r s' =>
    rw [hr] at hs
    refine ⟨?_, hs.1.good hg, fun g2 t2 B hB hown => ⟨(hs.1.tree hB hown).1, (hs.1.tree hB hown).2.1⟩⟩
    intro e he
    obtain ⟨h1, h2⟩ := hs.2 e he
    have hwalk := C10_walk E.layer A.root A.height f hinv.wf hinv.sorted
      (Nat.lt_of_le_of_lt (T.lvl_le_of_WF E.layer A.root A.height hinv.wf) hf) (toPlace pl) (ms.map toMove)
    by_cases hnil : t.root = .nil
    · rw [h2 hnil]
      rw [hnil] at hx; simp at hx; subst hx
      have hl : A.toList = [] := by simp [Tree.toList, hroot, T.unmk, T.toList]
      rw [hl]
      have : Cursor.placeIdx [] (toPlace pl) = none := by cases pl <;> simp [Cursor.placeIdx, toPlace]
      rw [this, Cursor.stepIdx_none]; rfl
    · have hne : x.2.1 ≠ T.nil := repLink_row_ne_nil hx hnil
      have hun : T.unmk x.2.1 = x.2.1 := by
        cases hx1 : x.2.1 with
        | nil => exact absurd hx1 hne
        | last _ _ => rfl
        | cons _ _ _ _ _ => rfl
      rw [h1 hnil, ← hun, ← hroot]
      exact hwalk
  | err s' =>
    rw [hr] at hs
    exact ⟨hs.good hg, fun g2 t2 B hB hown => ⟨(hs.tree hB hown).1, (hs.tree hB hown).2.1⟩⟩
  | stuck => trivial
  | panic => trivial
  | oof => trivial

/-- **`SeekIter` at the level of node objects**: on a tree whose objects denote the well-formed
    functional tree `A` (with a root node), for any probe key, fuel above the height, node cache or
    none and any pattern of failing loads: the entries handed to the callback are exactly the entries
    of `A` from the first key not smaller than the probe on, in order; error or not, every tree of the
    system denotes what it denoted -/
theorem C10_object_level_seekIter (E : Env) (t : PTree) (f k g : Nat) (s : PS) (A : Tree) (hg : Good s)
    (hA : repTree s g t = some A) (hown : FpOwned s.heap t.id (footprint s g t)) (hinv : Tree.Inv E.layer A)
    (hf : A.height < f) (hne : t.root ≠ .nil) :
    match seekIter E t f k s with
    | .ok es s' => es = A.toList.dropWhile (fun e => decide (e.1 < k)) ∧ Good s' ∧
        ∀ g2 t2 B, repTree s g2 t2 = some B → FpOwned s.heap t2.id (footprint s g2 t2) →
          repTree s' g2 t2 = some B ∧ FpOwned s'.heap t2.id (footprint s' g2 t2)
    | .err s' => Good s' ∧
        ∀ g2 t2 B, repTree s g2 t2 = some B → FpOwned s.heap t2.id (footprint s g2 t2) →
          repTree s' g2 t2 = some B ∧ FpOwned s'.heap t2.id (footprint s' g2 t2)
    | _ => True := by
  obtain ⟨x, hx, hxnd, hAeq⟩ := repTree_eq_some.mp hA
  rw [footprint_eq hx] at hown
  have hs := seekIter_spec E t f k g s x hg hx hxnd hown hne
  unfold Spec at hs
  have hroot : A.root = T.unmk x.2.1 := by rw [hAeq]; rfl
  have hne' : x.2.1 ≠ T.nil := repLink_row_ne_nil hx hne
  have hun : T.unmk x.2.1 = x.2.1 := by
    cases hx1 : x.2.1 with
    | nil => exact absurd hx1 hne'
    | last _ _ => rfl
    | cons _ _ _ _ _ => rfl
  cases hr : seekIter E t f k s with
  | ok es s' =>
    rw [hr] at hs
    refine ⟨?_, hs.1.good hg, fun g2 t2 B hB ho => ⟨(hs.1.tree hB ho).1, (hs.1.tree hB ho).2.1⟩⟩
    rw [hs.2, ← hun, ← hroot]
    exact C10_seekIter_spec A.root k f hinv.sorted
      (Nat.lt_of_le_of_lt (T.lvl_le_of_WF E.layer A.root A.height hinv.wf) hf)
  | err s' =>
    rw [hr] at hs
    exact ⟨hs.good hg, fun g2 t2 B hB ho => ⟨(hs.tree hB ho).1, (hs.tree hB ho).2.1⟩⟩
  | stuck => trivial
  | panic => trivial
  | oof => trivial

/-! non-vacuity (kernel-checked), in the system reached by the history `hxOps`
    (`Lemmas/RefHistExample.lean`: growth, flush, clone, cached reload, delete): tree 2 holds
    3, 4, 5, 7, 8 partly as names in the store, partly as objects -/
def hxNav (pl : CPlace) (ms : List CMove) : Option (Option (Nat × Nat)) :=
  hxSys.trees[2]?.bind fun t =>
    match cNavigate hxEnv t 99 10 10 pl ms hxSys.ps with
    | .ok r _ => r
    | _ => none
def hxSeek (k : Nat) : Option (List (Nat × Nat)) :=
  hxSys.trees[2]?.bind fun t =>
    match seekIter hxEnv t 10 k hxSys.ps with
    | .ok es _ => some es
    | _ => none
example : hxNav .max [.bwd, .bwd, .fwd] = some (some (7, 70)) ∧ hxNav (.ceil 6) [] = some (some (7, 70)) ∧
    hxNav .min [.bwd] = some none ∧ hxNav (.ceil 9) [.fwd] = some none := by decide +kernel
example : hxSeek 5 = some [(5, 50), (7, 70), (8, 80)] ∧ hxSeek 6 = some [(7, 70), (8, 80)] ∧ hxSeek 9 = some [] := by
  decide +kernel

end Mast.Ptr
#print axioms Mast.Ptr.C10_object_level_seekIter
#print axioms Mast.Ptr.C10_object_level_place
#print axioms Mast.Ptr.C10_object_level_step
#print axioms Mast.Ptr.C10_object_level_get
#print axioms Mast.Ptr.C10_object_level_failed_move_stays
#print axioms Mast.Ptr.C10_object_level_navigate
