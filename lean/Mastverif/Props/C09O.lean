import Mastverif.Props.C01O
import Mastverif.Lemmas.TreeInv
import Mastverif.Lemmas.RefHistExample
/-!
# C09 at the level of node objects: the node objects always denote a tree of the canonical shape

`Props/C01O.lean` relates the object-level `Insert` / `Delete` (heap, flags, copy-on-write, cache,
failing loads) to the functional operations on the tree the objects denote; `Lemmas/TreeInv.lean`
shows that those keep the shape invariant (`Tree.Inv`: every key on the level of its layer, keys
ascending within and across nodes, no empty node but the top of an empty tree, size = number of
entries, thresholds = powers of the branch factor).  Together: whatever the residency of the nodes,
the sharing with other trees and the state of the cache, a successful object-level `Insert` /
`Delete` on objects that denote a tree of that shape leaves objects that denote a tree of that
shape — holding exactly the updated entry list.
-/
namespace Mast.Ptr
open Mast.Heap Mast Mast.Tree Mast.T

theorem C09_object_level_insert_keeps_shape (E : Env) (fuel g : Nat) (s s' : PS) (t t' : PTree) (k v : Nat) (A : Tree)
    (hg : Good s) (hown : FpOwned s.heap t.id (footprint s g t)) (hth : Thresh t)
    (hA : repTree s g t = some A) (hi : Tree.Inv E.layer A) (h : insert E fuel s t k v = (s', t', .ok)) :
    ∃ g' A', repTree s' g' t' = some A' ∧ Tree.Inv E.layer A' ∧ A'.toList = insL k v A.toList ∧ Good s' := by
  obtain ⟨g', A', h1, h2, h3, _⟩ := C01_object_level_insert E fuel g s s' t t' k v A hg hown hth hA h
  obtain ⟨m', hm, hinv, hl, _⟩ := insert_spec E.layer A k v hi
  rw [hm] at h2
  injection h2 with h2
  subst h2
  exact ⟨g', _, h1, hinv, hl, h3⟩

theorem C09_object_level_delete_keeps_shape (E : Env) (fuel g : Nat) (s s' : PS) (t t' : PTree) (k v : Nat) (A : Tree)
    (hg : Good s) (hown : FpOwned s.heap t.id (footprint s g t)) (hth : Thresh t)
    (hA : repTree s g t = some A) (hi : Tree.Inv E.layer A) (hpres : getL k A.toList = some v)
    (h : delete E fuel s t k v = (s', t', .ok)) (hroot : t'.root ≠ .nil) :
    ∃ g' A', repTree s' g' t' = some A' ∧ Tree.Inv E.layer A' ∧ A'.toList = delL k A.toList ∧ Good s' := by
  obtain ⟨g', A', h1, h2, h3, _⟩ := C01_object_level_delete E fuel g s s' t t' k v A hg hown hth hA h hroot
  obtain ⟨m', hm, hinv, hl, _⟩ := delete_spec E.layer A k v hi hpres
  rw [hm] at h2
  injection h2 with h2
  subst h2
  exact ⟨g', _, h1, hinv, hl, h3⟩

/-- non-vacuity (kernel-checked): tree 2 of the system reached by `hxOps` (objects and names mixed) denotes a
    tree with ascending entries, size = number of entries, thresholds bf^(height+1) and bf^height -/
example : (hxSys.trees[2]?.bind fun t => (repTree hxSys.ps 10 t).map fun B =>
      (B.toList, B.size, B.height, B.bf, B.growAfter, B.shrinkBelow)) =
    some ([(3, 30), (4, 40), (5, 50), (7, 70), (8, 80)], 5, 1, 2, 4, 2) := by decide +kernel

end Mast.Ptr
#print axioms Mast.Ptr.C09_object_level_insert_keeps_shape
#print axioms Mast.Ptr.C09_object_level_delete_keeps_shape
