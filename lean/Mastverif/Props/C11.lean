import Mastverif.Lemmas.Heap
import Mastverif.Lemmas.PtrSys
/-!
# C11 — independent trees sharing a store and a cache (property theorems, partial)

What is proved, on the heap protocol model: **non-interference**.  A guarded action by owner
`m` changes no object that another owner `v` can see and keeps `v`'s view closed; so in any
interleaving of the operations of several owners, the objects each owner reads and writes
are never written by another owner — there is no conflicting access to a shared object, and
each owner's next operation finds exactly the objects it would find if it ran alone.
What is NOT proved: the Go memory model, golang-lru's and the S3 SDK's internal
synchronisation (the store and the cache are assumed linearizable).  The tie is the `conc`
family (goroutines under the race detector, each goroutine's history replayed through the
sequential model) plus the `versions` family's guard check.
-/
namespace Mast.Heap

theorem C11_noninterference_partial {h h' : Heap} {v : Nat} {act : Act}
    (hc : Closed h v) (hact : Foreign v act) (hs : applyAct h act = some h') :
    Agree h h' v ∧ Closed h' v :=
  foreign_step hc hact hs

/-- every interleaving: the actions of all other owners together leave `v`'s view untouched -/
theorem C11_interleaving_partial (v : Nat) (h h' : Heap) (acts : List Act)
    (hc : Closed h v) (hf : ∀ act ∈ acts, Foreign v act) (hr : run h acts = some h') :
    Agree h h' v ∧ Closed h' v :=
  foreign_run acts h h' hc hf hr

/-- the object an action overwrites in place (allocation creates a fresh one) -/
def target : Act → Option Nat
  | .alloc _ => none
  | .write _ a _ => some a
  | .publish _ a _ => some a

/-- **no conflicting access**: an object that owner `v` can see (shared, or its own) is never the
    target of another owner's write or publish — whatever `v` reads concurrently, nobody else is
    writing it -/
theorem C11_no_conflicting_access_partial {h h' : Heap} {v : Nat} {act : Act} (hact : Foreign v act)
    (hs : applyAct h act = some h') (a : Nat) (ht : target act = some a) : ¬ Vis h v (HLink.ptr a) := by
  intro hv
  obtain ⟨nd, hnd, hvis⟩ := hv
  cases act with
  | alloc _ => simp [target] at ht
  | write m b nd' =>
    simp only [target, Option.some.injEq] at ht
    subst ht
    simp only [applyAct, hnd] at hs
    split at hs
    · next hg =>
      have hm : m ≠ v := hact
      rcases hvis with h1 | h1
      · rw [hg.2.1] at h1; cases h1
      · exact hm (hg.1.symm.trans h1)
    · cases hs
  | publish m b links =>
    simp only [target, Option.some.injEq] at ht
    subst ht
    simp only [applyAct, hnd] at hs
    split at hs
    · next hg =>
      have hm : m ≠ v := hact
      rcases hvis with h1 | h1
      · rw [hg.2.1] at h1; cases h1
      · exact hm (hg.1.symm.trans h1)
    · cases hs

/-- non-vacuity: owner 2 copies a shared node and rewrites its own copy; that is foreign to owner 1,
    passes the guards, and the object it writes (address 1) is not visible to owner 1 -/
example :
    let shared : MNode := { keys := [5], vals := [50], links := [.ref 7, .nil], dirty := false, shared := true, owner := 0 }
    let copy : MNode := { keys := [5], vals := [50], links := [.ref 7, .nil], dirty := true, shared := false, owner := 2 }
    let w : Act := .write 2 1 { copy with keys := [5, 9], vals := [50, 90], links := [.ref 7, .nil, .nil] }
    Foreign 1 w ∧ (applyAct [shared, copy] w).isSome = true ∧ target w = some 1 := by
  refine ⟨by simp [Foreign], by decide, rfl⟩

end Mast.Heap
/-!
## The logic of the code never touches what another tree can see

For the object-level transcription (`Model/Ptr.lean`) of Insert / Delete / MakeRoot / Clone: every
object another owner `v` can see — every node of its own and every shared (cached, persisted)
node — is, after the call, *the same object with the same fields*; and `v`'s view stays closed.
Each primitive step of the call has this property (`foreign_step`), so it holds at every
intermediate point as well: whatever `v` does concurrently, the caller never writes a location
`v` may read.  (What the model cannot exhibit: the Go memory model itself, the internals of the
cache and of the store; they are covered by the race detector runs of the `conc` family.)
-/
namespace Mast.Ptr
open Mast.Heap

theorem C11_insert_leaves_foreign_objects_partial (E : Env) (fuel : Nat) (s : PS) (t : PTree) (key val : Nat)
    (hinv : Inv t.id s) (hroot : Vis s.heap t.id t.root) (v : Nat) (hv : v ≠ t.id) (hv0 : v ≠ 0)
    (hc : Closed s.heap v) :
    Agree s.heap (insert E fuel s t key val).1.heap v ∧ Closed (insert E fuel s t key val).1.heap v :=
  (insert_ok E fuel s t key val hinv hroot).ext.others v hv hv0 hc

theorem C11_delete_leaves_foreign_objects_partial (E : Env) (fuel : Nat) (s : PS) (t : PTree) (key val : Nat)
    (hinv : Inv t.id s) (hroot : Vis s.heap t.id t.root) (v : Nat) (hv : v ≠ t.id) (hv0 : v ≠ 0)
    (hc : Closed s.heap v) :
    Agree s.heap (delete E fuel s t key val).1.heap v ∧ Closed (delete E fuel s t key val).1.heap v :=
  (delete_ok E fuel s t key val hinv hroot).ext.others v hv hv0 hc

theorem C11_makeRoot_leaves_foreign_objects_partial (E : Env) (fuel : Nat) (s : PS) (t : PTree)
    (hinv : Inv t.id s) (hroot : Vis s.heap t.id t.root) (v : Nat) (hv : v ≠ t.id) (hv0 : v ≠ 0)
    (hc : Closed s.heap v) :
    Agree s.heap (runM (flush E t fuel) s).2.1.heap v ∧ Closed (runM (flush E t fuel) s).2.1.heap v :=
  (runM_ok (flush_sat E t fuel) hinv hroot).2.2.1.others v hv hv0 hc

/-- a clone is made *for* the new tree: the source (like every other tree) is left as it is -/
theorem C11_clone_leaves_every_tree_partial (E : Env) (fuel : Nat) (s : PS) (t : PTree) (newId : Nat)
    (hinv : Inv newId s) (h1 : t.id ≠ newId) (h0 : t.id ≠ 0) (hct : Closed s.heap t.id) (hroot : Vis s.heap t.id t.root)
    (v : Nat) (hv : v ≠ newId) (hv0 : v ≠ 0) (hc : Closed s.heap v) :
    Agree s.heap (runM (clone E t newId fuel) s).2.1.heap v ∧ Closed (runM (clone E t newId fuel) s).2.1.heap v :=
  (runM_ok (clone_sat (lvl := 2) E t newId fuel h1 h0) hinv
    ⟨hct, fun l hl => by simp at hl; subst hl; exact hroot⟩).2.2.1.others v hv hv0 hc

end Mast.Ptr
#print axioms Mast.Ptr.C11_insert_leaves_foreign_objects_partial
#print axioms Mast.Ptr.C11_delete_leaves_foreign_objects_partial
#print axioms Mast.Ptr.C11_makeRoot_leaves_foreign_objects_partial
#print axioms Mast.Ptr.C11_clone_leaves_every_tree_partial
#print axioms Mast.Heap.C11_no_conflicting_access_partial
#print axioms Mast.Heap.C11_noninterference_partial
#print axioms Mast.Heap.C11_interleaving_partial
