import Mastverif.Lemmas.Heap
/-!
# C11 — independent trees sharing a store and a cache (property theorems, partial)

What is proved, on the heap protocol model: **non-interference**.  A guarded action by owner
`m` changes no object that another owner `v` can see and keeps `v`'s view closed; so in any
interleaving of the operations of several owners, the objects each owner reads and writes
are never written by another owner — there is no conflicting access to a shared object, and
each owner's next operation finds exactly the objects it would find if it ran alone.
What is NOT proved: the Go memory model, golang-lru's and the S3 SDK's internal
synchronisation (the store and the cache are assumed linearizable).  The tie is the `conc`
family (goroutines under the race detector, each goroutine's history replayed through the
sequential model) plus the `versions` family's guard check.
-/
namespace Mast.Heap

theorem C11_noninterference_partial {h h' : Heap} {v : Nat} {act : Act}
    (hc : Closed h v) (hact : Foreign v act) (hs : applyAct h act = some h') :
    Agree h h' v ∧ Closed h' v :=
  foreign_step hc hact hs

/-- every interleaving: the actions of all other owners together leave `v`'s view untouched -/
theorem C11_interleaving_partial (v : Nat) (h h' : Heap) (acts : List Act)
    (hc : Closed h v) (hf : ∀ act ∈ acts, Foreign v act) (hr : run h acts = some h') :
    Agree h h' v ∧ Closed h' v :=
  foreign_run acts h h' hc hf hr

/-- the object an action overwrites in place (allocation creates a fresh one) -/
def target : Act → Option Nat
  | .alloc _ => none
  | .write _ a _ => some a
  | .publish _ a _ => some a

/-- **no conflicting access**: an object that owner `v` can see (shared, or its own) is never the
    target of another owner's write or publish — whatever `v` reads concurrently, nobody else is
    writing it -/
theorem C11_no_conflicting_access_partial {h h' : Heap} {v : Nat} {act : Act} (hact : Foreign v act)
    (hs : applyAct h act = some h') (a : Nat) (ht : target act = some a) : ¬ Vis h v (HLink.ptr a) := by
  intro hv
  obtain ⟨nd, hnd, hvis⟩ := hv
  cases act with
  | alloc _ => simp [target] at ht
  | write m b nd' =>
    simp only [target, Option.some.injEq] at ht
    subst ht
    simp only [applyAct, hnd] at hs
    split at hs
    · next hg =>
      have hm : m ≠ v := hact
      rcases hvis with h1 | h1
      · rw [hg.2.1] at h1; cases h1
      · exact hm (hg.1.symm.trans h1)
    · cases hs
  | publish m b links =>
    simp only [target, Option.some.injEq] at ht
    subst ht
    simp only [applyAct, hnd] at hs
    split at hs
    · next hg =>
      have hm : m ≠ v := hact
      rcases hvis with h1 | h1
      · rw [hg.2.1] at h1; cases h1
      · exact hm (hg.1.symm.trans h1)
    · cases hs

/-- non-vacuity: owner 2 copies a shared node and rewrites its own copy; that is foreign to owner 1,
    passes the guards, and the object it writes (address 1) is not visible to owner 1 -/
example :
    let shared : MNode := { keys := [5], vals := [50], links := [.ref 7, .nil], dirty := false, shared := true, owner := 0 }
    let copy : MNode := { keys := [5], vals := [50], links := [.ref 7, .nil], dirty := true, shared := false, owner := 2 }
    let w : Act := .write 2 1 { copy with keys := [5, 9], vals := [50, 90], links := [.ref 7, .nil, .nil] }
    Foreign 1 w ∧ (applyAct [shared, copy] w).isSome = true ∧ target w = some 1 := by
  refine ⟨by simp [Foreign], by decide, rfl⟩

end Mast.Heap
#print axioms Mast.Heap.C11_no_conflicting_access_partial
#print axioms Mast.Heap.C11_noninterference_partial
#print axioms Mast.Heap.C11_interleaving_partial
