import Mastverif.Lemmas.Heap
/-!
# C11 — independent trees sharing a store and a cache (property theorems, partial)

What is proved, on the heap protocol model: **non-interference**.  A guarded action by owner
`m` changes no object that another owner `v` can see and keeps `v`'s view closed; so in any
interleaving of the operations of several owners, the objects each owner reads and writes
are never written by another owner — there is no conflicting access to a shared object, and
each owner's next operation finds exactly the objects it would find if it ran alone.
What is NOT proved: the Go memory model, golang-lru's and the S3 SDK's internal
synchronisation (the store and the cache are assumed linearizable).  The tie is the `conc`
family (goroutines under the race detector, each goroutine's history replayed through the
sequential model) plus the `versions` family's guard check.
-/
namespace Mast.Heap

theorem C11_noninterference_partial {h h' : Heap} {v : Nat} {act : Act}
    (hc : Closed h v) (hact : Foreign v act) (hs : applyAct h act = some h') :
    Agree h h' v ∧ Closed h' v :=
  foreign_step hc hact hs

/-- every interleaving: the actions of all other owners together leave `v`'s view untouched -/
theorem C11_interleaving_partial (v : Nat) (h h' : Heap) (acts : List Act)
    (hc : Closed h v) (hf : ∀ act ∈ acts, Foreign v act) (hr : run h acts = some h') :
    Agree h h' v ∧ Closed h' v :=
  foreign_run acts h h' hc hf hr

end Mast.Heap
#print axioms Mast.Heap.C11_noninterference_partial
#print axioms Mast.Heap.C11_interleaving_partial
