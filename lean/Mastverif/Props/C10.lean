import Mastverif.Model.Cursor
import Mastverif.Lemmas.Basic
/-!
# C10 — cursor and seek navigation (property theorems, partial)

The cursor functions are total on every tree, including both empty forms: there is no input
on which the model (and, by the `cursor` family, the repaired Go code) panics — the three
panics of the pinned release were repaired (known_findings.txt).
Proved so far about positions: the in-node search `lowerBound` returns the index of the
first key that is not smaller than the probe (`C10_lowerBound_spec`), and a cursor with an
empty path reports "no entry" and stays empty under every move (`C10_off_end_is_absorbing`).
The refinement of Min / Max / Ceil / Forward / Backward to index arithmetic on the sorted entry
list is on the work list; the tie (family `cursor`) compares every position of random walks
on sparse multi-level trees with the model and with an index into the sorted Go map.
-/
namespace Mast
open T

theorem C10_lowerBound_spec (k : Nat) : ∀ (row : T),
    (∀ i, i < lowerBound k row → ∃ e, entryAt row i = some e ∧ e.1 < k) ∧
    (∀ e, entryAt row (lowerBound k row) = some e → k ≤ e.1) := by
  intro row
  induction row with
  | nil => simp [lowerBound, entryAt]
  | last p c _ => simp [lowerBound, entryAt]
  | cons p c k' v' r _ ihr =>
    simp only [lowerBound]
    split
    · next hlt =>
      constructor
      · intro i hi
        cases i with
        | zero => exact ⟨(k', v'), by simp [entryAt], hlt⟩
        | succ i => simpa [entryAt] using ihr.1 i (by omega)
      · intro e he
        simp only [entryAt] at he
        exact ihr.2 e he
    · next hge =>
      constructor
      · intro i hi; omega
      · intro e he
        simp only [entryAt] at he
        injection he with he; subst he; simp; omega

theorem C10_off_end_is_absorbing (fuel k : Nat) :
    Cursor.get [] = none ∧ Cursor.min fuel [] = [] ∧ Cursor.max fuel [] = [] ∧
    Cursor.forward fuel [] = [] ∧ Cursor.backward fuel [] = [] ∧ Cursor.ceil k fuel [] = [] := by
  refine ⟨rfl, rfl, rfl, rfl, rfl, ?_⟩
  cases fuel <;> rfl

end Mast
#print axioms Mast.C10_lowerBound_spec
#print axioms Mast.C10_off_end_is_absorbing
