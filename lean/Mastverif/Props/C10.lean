import Mastverif.Lemmas.CursorFwd
/-!
# C10 — cursor and seek navigation (property theorems; backward direction partial)

The cursor functions are total on every tree, including both empty forms: there is no input
on which the model (and, by the `cursor` family, the repaired Go code) panics — the three
panics of the pinned release were repaired (known_findings.txt).
`C10_seekIter_spec`: iterating from a probe key — the repaired `SeekIter`: seek with the `Ceil`
descent, then emit from every path entry, deepest first — yields EXACTLY the entries whose keys
are not smaller than the probe, ascending, each once, for every tree with strictly ascending
entries (any shape, height, residency; the probe present or absent, of any layer);
`C10_seekIter_stop`: a callback that signals done after j entries has seen exactly the first j.
`C10_min_forward_walk` / `C10_ceil_forward_walk`: a cursor placed at the minimum (resp. at the least
key not smaller than a probe, present or absent, of any layer) and stepped forward n times is at
the n-th entry of the sorted list (resp. of its suffix from the probe), and reports "no entry"
exactly when n reaches the end — on every well-formed tree of any shape and height, and from then
on it stays off the end.  The same statements for `Max` / `Backward` are checked by the `cursor`
family (walks with direction changes against an index into the sorted Go map); their model
proof is the mirror image and is on the work list.
Also proved about positions: the in-node search `lowerBound` returns the index of the
first key that is not smaller than the probe (`C10_lowerBound_spec`), and a cursor with an
empty path reports "no entry" and stays empty under every move (`C10_off_end_is_absorbing`).
The refinement of Min / Max / Ceil / Forward / Backward to index arithmetic on the sorted entry
list is on the work list; the tie (family `cursor`) compares every position of random walks
on sparse multi-level trees with the model and with an index into the sorted Go map.
-/
namespace Mast
open T

theorem C10_lowerBound_spec (k : Nat) : ∀ (row : T),
    (∀ i, i < lowerBound k row → ∃ e, entryAt row i = some e ∧ e.1 < k) ∧
    (∀ e, entryAt row (lowerBound k row) = some e → k ≤ e.1) := by
  intro row
  induction row with
  | nil => simp [lowerBound, entryAt]
  | last p c _ => simp [lowerBound, entryAt]
  | cons p c k' v' r _ ihr =>
    simp only [lowerBound]
    split
    · next hlt =>
      constructor
      · intro i hi
        cases i with
        | zero => exact ⟨(k', v'), by simp [entryAt], hlt⟩
        | succ i => simpa [entryAt] using ihr.1 i (by omega)
      · intro e he
        simp only [entryAt] at he
        exact ihr.2 e he
    · next hge =>
      constructor
      · intro i hi; omega
      · intro e he
        simp only [entryAt] at he
        injection he with he; subst he; simp; omega

theorem C10_off_end_is_absorbing (fuel k : Nat) :
    Cursor.get [] = none ∧ Cursor.min fuel [] = [] ∧ Cursor.max fuel [] = [] ∧
    Cursor.forward fuel [] = [] ∧ Cursor.backward fuel [] = [] ∧ Cursor.ceil k fuel [] = [] := by
  refine ⟨rfl, rfl, rfl, rfl, rfl, ?_⟩
  cases fuel <;> rfl

theorem C10_seekIter_spec (root : T) (k fuel : Nat) (hs : Sorted (toList root)) (hf : lvl root < fuel) :
    Cursor.seekIter fuel root k = (toList root).dropWhile (fun e => decide (e.1 < k)) := by
  unfold Cursor.seekIter
  have := Cursor.out_ceil k fuel root 0 [] hf
  simp only [Cursor.out, List.map_nil, List.flatten_nil, List.append_nil] at this
  rw [this, seekT_spec k root hs]

theorem C10_seekIter_stop (root : T) (k fuel j : Nat) (hs : Sorted (toList root)) (hf : lvl root < fuel) :
    (Cursor.seekIter fuel root k).take j = ((toList root).dropWhile (fun e => decide (e.1 < k))).take j := by
  rw [C10_seekIter_spec root k fuel hs hf]

/-- a cursor placed at the minimum and stepped forward n times reads the n-th entry, and reports
    "no entry" exactly from the end of the list on -/
theorem C10_min_forward_walk (layer : Nat → Nat) (root : T) (d fuel n : Nat) (hw : WF layer d root)
    (hne : isEmptyRow root = false) (hf : lvl root < fuel) :
    Cursor.get (Cursor.forwardN fuel n (Cursor.min fuel [(root, 0)])) = ((toList root).drop n).head? := by
  have hs := solid_of_WF layer root d hw
  have hn : root.isNil = false := by cases root <;> simp_all [WF, isNil]
  obtain ⟨m1, m2, m3⟩ := Cursor.min_spec fuel root hs hf hn hne
  have hl : ∀ x ∈ Cursor.min fuel [(root, 0)], lvl x.1 ≤ lvl root := by
    simp only [Cursor.min]
    exact Cursor.minFrom_lvl (lvl root) fuel root [(root, 0)] (Nat.le_refl _) (by simp)
  have g : Cursor.Good (lvl root) (Cursor.min fuel [(root, 0)]) := ⟨m2, m3, hl⟩
  obtain ⟨w1, w2⟩ := Cursor.forwardN_spec (lvl root) fuel hf n _ g
  rw [Cursor.get_eq_head _ w2.at_, w1, m1]

theorem C10_off_end_exactly (layer : Nat → Nat) (root : T) (d fuel n : Nat) (hw : WF layer d root)
    (hne : isEmptyRow root = false) (hf : lvl root < fuel) :
    Cursor.forwardN fuel n (Cursor.min fuel [(root, 0)]) = [] ↔ (toList root).length ≤ n := by
  have hs := solid_of_WF layer root d hw
  have hn : root.isNil = false := by cases root <;> simp_all [WF, isNil]
  obtain ⟨m1, m2, m3⟩ := Cursor.min_spec fuel root hs hf hn hne
  have hl : ∀ x ∈ Cursor.min fuel [(root, 0)], lvl x.1 ≤ lvl root := by
    simp only [Cursor.min]
    exact Cursor.minFrom_lvl (lvl root) fuel root [(root, 0)] (Nat.le_refl _) (by simp)
  have g : Cursor.Good (lvl root) (Cursor.min fuel [(root, 0)]) := ⟨m2, m3, hl⟩
  obtain ⟨w1, w2⟩ := Cursor.forwardN_spec (lvl root) fuel hf n _ g
  rw [m1] at w1
  constructor
  · intro he
    rw [he] at w1
    simp only [Cursor.out, List.map_nil, List.flatten_nil] at w1
    exact List.drop_eq_nil_iff.mp w1.symm
  · intro hle
    apply Cursor.good_off_end w2
    rw [w1]; exact List.drop_eq_nil_iff.mpr hle

/-- a cursor placed by `Ceil` at the least key not smaller than the probe (present or absent, of any
    layer) and stepped forward n times reads the n-th entry of the suffix of the sorted list that
    starts at the probe; "no entry" exactly from the end on -/
theorem C10_ceil_forward_walk (layer : Nat → Nat) (root : T) (d fuel n k : Nat) (hw : WF layer d root)
    (hsrt : Sorted (toList root)) (hf : lvl root < fuel) :
    Cursor.get (Cursor.forwardN fuel n (Cursor.ceil k fuel [(root, 0)])) =
      (((toList root).dropWhile (fun e => decide (e.1 < k))).drop n).head? := by
  have hs := solid_of_WF layer root d hw
  have g := Cursor.ceil_good k fuel root hs hf
  obtain ⟨w1, w2⟩ := Cursor.forwardN_spec (lvl root) fuel hf n _ g
  have hout := Cursor.out_ceil k fuel root 0 [] hf
  simp only [Cursor.out, List.map_nil, List.flatten_nil, List.append_nil] at hout
  rw [Cursor.get_eq_head _ w2.at_, w1]
  simp only [Cursor.out]
  rw [hout, seekT_spec k root hsrt]

/-- non-vacuity: probe 5 (absent) on a two-level tree -/
example : Cursor.seekIter 10 (cons false (cons false nil 2 0 (last false nil)) 4 0 (last false (cons false nil 7 0 (last false nil)))) 5 = [(7, 0)] := by
  decide

end Mast
#print axioms Mast.C10_min_forward_walk
#print axioms Mast.C10_off_end_exactly
#print axioms Mast.C10_ceil_forward_walk
#print axioms Mast.C10_seekIter_spec
#print axioms Mast.C10_seekIter_stop
#print axioms Mast.C10_lowerBound_spec
#print axioms Mast.C10_off_end_is_absorbing
