import Mastverif.Lemmas.CursorWalk
import Mastverif.Lemmas.History
/-!
# C10 — cursor and seek navigation (property theorems)

The cursor functions are total on every tree, including both empty forms: there is no input
on which the model (and, by the `cursor` family, the repaired Go code) panics — the three
panics of the pinned release were repaired (known_findings.txt).
`C10_seekIter_spec`: iterating from a probe key — the repaired `SeekIter`: seek with the `Ceil`
descent, then emit from every path entry, deepest first — yields EXACTLY the entries whose keys
are not smaller than the probe, ascending, each once, for every tree with strictly ascending
entries (any shape, height, residency; the probe present or absent, of any layer);
`C10_seekIter_stop`: a callback that signals done after j entries has seen exactly the first j.
`C10_min_forward_walk` / `C10_ceil_forward_walk`: a cursor placed at the minimum (resp. at the least
key not smaller than a probe, present or absent, of any layer) and stepped forward n times is at
the n-th entry of the sorted list (resp. of its suffix from the probe), and reports "no entry"
exactly when n reaches the end — on every well-formed tree of any shape and height, and from then
on it stays off the end.
`C10_walk` is the statement at full strength: a cursor placed by `Min`, `Max` or `Ceil` (any probe,
present or absent) and then moved by ANY list of `Forward` / `Backward` steps, in any order, reads
exactly what index arithmetic on the sorted entry list gives — `Min` = index 0, `Max` = the last
index, `Ceil k` = the number of keys smaller than `k`; a step moves the index by one; stepping off
either end gives "no entry", which is absorbing — on every well-formed tree of any shape and
height, including the entry-less top node; `C10_walk_no_root` is the same for the tree without a
root node (every read is "no entry"; no call panics: the model functions are total and follow the
repaired Go code branch by branch, tie = family `cursor`).
Also proved about positions: the in-node search `lowerBound` returns the index of the
first key that is not smaller than the probe (`C10_lowerBound_spec`), and a cursor with an
empty path reports "no entry" and stays empty under every move (`C10_off_end_is_absorbing`).
The tie (family `cursor`) compares every position of random walks with direction changes on
sparse multi-level trees with the model and with an index into the sorted Go map.
-/
namespace Mast
open T

theorem C10_lowerBound_spec (k : Nat) : ∀ (row : T),
    (∀ i, i < lowerBound k row → ∃ e, entryAt row i = some e ∧ e.1 < k) ∧
    (∀ e, entryAt row (lowerBound k row) = some e → k ≤ e.1) := by
  intro row
  induction row with
  | nil => simp [lowerBound, entryAt]
  | last p c _ => simp [lowerBound, entryAt]
  | cons p c k' v' r _ ihr =>
    simp only [lowerBound]
    split
    · next hlt =>
      constructor
      · intro i hi
        cases i with
        | zero => exact ⟨(k', v'), by simp [entryAt], hlt⟩
        | succ i => simpa [entryAt] using ihr.1 i (by omega)
      · intro e he
        simp only [entryAt] at he
        exact ihr.2 e he
    · next hge =>
      constructor
      · intro i hi; omega
      · intro e he
        simp only [entryAt] at he
        injection he with he; subst he; simp; omega

theorem C10_off_end_is_absorbing (fuel k : Nat) :
    Cursor.get [] = none ∧ Cursor.min fuel [] = [] ∧ Cursor.max fuel [] = [] ∧
    Cursor.forward fuel [] = [] ∧ Cursor.backward fuel [] = [] ∧ Cursor.ceil k fuel [] = [] := by
  refine ⟨rfl, rfl, rfl, rfl, rfl, ?_⟩
  cases fuel <;> rfl

theorem C10_seekIter_spec (root : T) (k fuel : Nat) (hs : Sorted (toList root)) (hf : lvl root < fuel) :
    Cursor.seekIter fuel root k = (toList root).dropWhile (fun e => decide (e.1 < k)) := by
  unfold Cursor.seekIter
  have := Cursor.out_ceil k fuel root 0 [] hf
  simp only [Cursor.out, List.map_nil, List.flatten_nil, List.append_nil] at this
  rw [this, seekT_spec k root hs]

theorem C10_seekIter_stop (root : T) (k fuel j : Nat) (hs : Sorted (toList root)) (hf : lvl root < fuel) :
    (Cursor.seekIter fuel root k).take j = ((toList root).dropWhile (fun e => decide (e.1 < k))).take j := by
  rw [C10_seekIter_spec root k fuel hs hf]

/-- a cursor placed at the minimum and stepped forward n times reads the n-th entry, and reports
    "no entry" exactly from the end of the list on -/
theorem C10_min_forward_walk (layer : Nat → Nat) (root : T) (d fuel n : Nat) (hw : WF layer d root)
    (hne : isEmptyRow root = false) (hf : lvl root < fuel) :
    Cursor.get (Cursor.forwardN fuel n (Cursor.min fuel [(root, 0)])) = ((toList root).drop n).head? := by
  have hs := solid_of_WF layer root d hw
  have hn : root.isNil = false := by cases root <;> simp_all [WF, isNil]
  obtain ⟨m1, m2, m3⟩ := Cursor.min_spec fuel root hs hf hn hne
  have hl : ∀ x ∈ Cursor.min fuel [(root, 0)], lvl x.1 ≤ lvl root := by
    simp only [Cursor.min]
    exact Cursor.minFrom_lvl (lvl root) fuel root [(root, 0)] (Nat.le_refl _) (by simp)
  have g : Cursor.Good (lvl root) (Cursor.min fuel [(root, 0)]) := ⟨m2, m3, hl⟩
  obtain ⟨w1, w2⟩ := Cursor.forwardN_spec (lvl root) fuel hf n _ g
  rw [Cursor.get_eq_head _ w2.at_, w1, m1]

theorem C10_off_end_exactly (layer : Nat → Nat) (root : T) (d fuel n : Nat) (hw : WF layer d root)
    (hne : isEmptyRow root = false) (hf : lvl root < fuel) :
    Cursor.forwardN fuel n (Cursor.min fuel [(root, 0)]) = [] ↔ (toList root).length ≤ n := by
  have hs := solid_of_WF layer root d hw
  have hn : root.isNil = false := by cases root <;> simp_all [WF, isNil]
  obtain ⟨m1, m2, m3⟩ := Cursor.min_spec fuel root hs hf hn hne
  have hl : ∀ x ∈ Cursor.min fuel [(root, 0)], lvl x.1 ≤ lvl root := by
    simp only [Cursor.min]
    exact Cursor.minFrom_lvl (lvl root) fuel root [(root, 0)] (Nat.le_refl _) (by simp)
  have g : Cursor.Good (lvl root) (Cursor.min fuel [(root, 0)]) := ⟨m2, m3, hl⟩
  obtain ⟨w1, w2⟩ := Cursor.forwardN_spec (lvl root) fuel hf n _ g
  rw [m1] at w1
  constructor
  · intro he
    rw [he] at w1
    simp only [Cursor.out, List.map_nil, List.flatten_nil] at w1
    exact List.drop_eq_nil_iff.mp w1.symm
  · intro hle
    apply Cursor.good_off_end w2
    rw [w1]; exact List.drop_eq_nil_iff.mpr hle

/-- a cursor placed by `Ceil` at the least key not smaller than the probe (present or absent, of any
    layer) and stepped forward n times reads the n-th entry of the suffix of the sorted list that
    starts at the probe; "no entry" exactly from the end on -/
theorem C10_ceil_forward_walk (layer : Nat → Nat) (root : T) (d fuel n k : Nat) (hw : WF layer d root)
    (hsrt : Sorted (toList root)) (hf : lvl root < fuel) :
    Cursor.get (Cursor.forwardN fuel n (Cursor.ceil k fuel [(root, 0)])) =
      (((toList root).dropWhile (fun e => decide (e.1 < k))).drop n).head? := by
  have hs := solid_of_WF layer root d hw
  have g := Cursor.ceil_good k fuel root hs hf
  obtain ⟨w1, w2⟩ := Cursor.forwardN_spec (lvl root) fuel hf n _ g
  have hout := Cursor.out_ceil k fuel root 0 [] hf
  simp only [Cursor.out, List.map_nil, List.flatten_nil, List.append_nil] at hout
  rw [Cursor.get_eq_head _ w2.at_, w1]
  simp only [Cursor.out]
  rw [hout, seekT_spec k root hsrt]

/-- **C10, navigation in both directions**: any placement, then any list of moves -/
theorem C10_walk (layer : Nat → Nat) (root : T) (d fuel : Nat) (hw : WF layer d root)
    (hsrt : Sorted (toList root)) (hf : lvl root < fuel) (pl : Cursor.Place) (ms : List Cursor.Move) :
    Cursor.get (ms.foldl (Cursor.stepPath fuel) (Cursor.place fuel root pl)) =
      (ms.foldl (Cursor.stepIdx (toList root).length) (Cursor.placeIdx (toList root) pl)).bind
        fun n => (toList root)[n]? := by
  have hs := solid_of_WF layer root d hw
  have hn : root.isNil = false := by cases root <;> simp_all [WF, isNil]
  by_cases hne : isEmptyRow root = false
  · exact Cursor.get_rel (Cursor.walk_rel root fuel hf ms _ _ (Cursor.place_rel root fuel hs hsrt hf hn hne pl))
  · have he : Cursor.EmptyRoot root := by
      cases root with
      | nil => exact Or.inl rfl
      | last q c => cases c <;> simp_all [isEmptyRow, Cursor.EmptyRoot]
      | cons p c k v r => simp [isEmptyRow] at hne
    have hl : toList root = [] := by
      rcases he with rfl | ⟨q, rfl⟩ <;> rfl
    obtain ⟨f', rfl⟩ : ∃ f', fuel = f' + 1 := ⟨fuel - 1, by omega⟩
    rw [Cursor.empty_get root he _ (Cursor.empty_walk root he _ ms _ (Cursor.empty_place root he f' pl))]
    have : Cursor.placeIdx (toList root) pl = none := by
      rw [hl]; cases pl <;> simp [Cursor.placeIdx]
    rw [this, Cursor.stepIdx_none]
    rfl

/-- ... on the tree reached by EVERY history of inserts and deletes from the empty tree -/
theorem C10_walk_every_history (layer : Nat → Nat) (e : Enc) (bf : Nat) (hbf : 2 ≤ bf) (ops : List Tree.Op)
    (pl : Cursor.Place) (ms : List Cursor.Move) :
    let m := Tree.execT layer e (Tree.empty bf) ops
    Cursor.get (ms.foldl (Cursor.stepPath (m.height + 1)) (Cursor.place (m.height + 1) m.root pl)) =
      (ms.foldl (Cursor.stepIdx m.toList.length) (Cursor.placeIdx m.toList pl)).bind fun n => m.toList[n]? := by
  intro m
  have hi := Tree.inv_execT layer e ops (Tree.empty bf) (Tree.inv_empty layer bf hbf)
  have hl := lvl_le_of_WF layer m.root m.height hi.wf
  exact C10_walk layer m.root m.height (m.height + 1) hi.wf hi.sorted (by omega) pl ms

/-- the tree without a root node: every placement and every walk reads "no entry" -/
theorem C10_walk_no_root (fuel : Nat) (pl : Cursor.Place) (ms : List Cursor.Move) :
    Cursor.get (ms.foldl (Cursor.stepPath (fuel + 1)) (Cursor.place (fuel + 1) nil pl)) = none :=
  Cursor.empty_get nil (Or.inl rfl) _ (Cursor.empty_walk nil (Or.inl rfl) _ ms _ (Cursor.empty_place nil (Or.inl rfl) fuel pl))

/-- non-vacuity of `C10_walk`: Max, two steps back, one forward on a two-level tree -/
example : Cursor.get ([.bwd, .bwd, .fwd].foldl (Cursor.stepPath 10) (Cursor.place 10
    (cons false (cons false nil 2 0 (last false nil)) 4 0 (last false (cons false nil 7 0 (last false nil)))) .max))
    = some (4, 0) := by decide

/-- non-vacuity: probe 5 (absent) on a two-level tree -/
example : Cursor.seekIter 10 (cons false (cons false nil 2 0 (last false nil)) 4 0 (last false (cons false nil 7 0 (last false nil)))) 5 = [(7, 0)] := by
  decide

end Mast
#print axioms Mast.C10_walk
#print axioms Mast.C10_walk_no_root
#print axioms Mast.C10_walk_every_history
#print axioms Mast.C10_min_forward_walk
#print axioms Mast.C10_off_end_exactly
#print axioms Mast.C10_ceil_forward_walk
#print axioms Mast.C10_seekIter_spec
#print axioms Mast.C10_seekIter_stop
#print axioms Mast.C10_lowerBound_spec
#print axioms Mast.C10_off_end_is_absorbing
