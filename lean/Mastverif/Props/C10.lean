import Mastverif.Lemmas.Seek
/-!
# C10 — cursor and seek navigation (property theorems, partial)

The cursor functions are total on every tree, including both empty forms: there is no input
on which the model (and, by the `cursor` family, the repaired Go code) panics — the three
panics of the pinned release were repaired (known_findings.txt).
`C10_seekIter_spec`: iterating from a probe key — the repaired `SeekIter`: seek with the `Ceil`
descent, then emit from every path entry, deepest first — yields EXACTLY the entries whose keys
are not smaller than the probe, ascending, each once, for every tree with strictly ascending
entries (any shape, height, residency; the probe present or absent, of any layer);
`C10_seekIter_stop`: a callback that signals done after j entries has seen exactly the first j.
Proved about cursor positions: the in-node search `lowerBound` returns the index of the
first key that is not smaller than the probe (`C10_lowerBound_spec`), and a cursor with an
empty path reports "no entry" and stays empty under every move (`C10_off_end_is_absorbing`).
The refinement of Min / Max / Ceil / Forward / Backward to index arithmetic on the sorted entry
list is on the work list; the tie (family `cursor`) compares every position of random walks
on sparse multi-level trees with the model and with an index into the sorted Go map.
-/
namespace Mast
open T

theorem C10_lowerBound_spec (k : Nat) : ∀ (row : T),
    (∀ i, i < lowerBound k row → ∃ e, entryAt row i = some e ∧ e.1 < k) ∧
    (∀ e, entryAt row (lowerBound k row) = some e → k ≤ e.1) := by
  intro row
  induction row with
  | nil => simp [lowerBound, entryAt]
  | last p c _ => simp [lowerBound, entryAt]
  | cons p c k' v' r _ ihr =>
    simp only [lowerBound]
    split
    · next hlt =>
      constructor
      · intro i hi
        cases i with
        | zero => exact ⟨(k', v'), by simp [entryAt], hlt⟩
        | succ i => simpa [entryAt] using ihr.1 i (by omega)
      · intro e he
        simp only [entryAt] at he
        exact ihr.2 e he
    · next hge =>
      constructor
      · intro i hi; omega
      · intro e he
        simp only [entryAt] at he
        injection he with he; subst he; simp; omega

theorem C10_off_end_is_absorbing (fuel k : Nat) :
    Cursor.get [] = none ∧ Cursor.min fuel [] = [] ∧ Cursor.max fuel [] = [] ∧
    Cursor.forward fuel [] = [] ∧ Cursor.backward fuel [] = [] ∧ Cursor.ceil k fuel [] = [] := by
  refine ⟨rfl, rfl, rfl, rfl, rfl, ?_⟩
  cases fuel <;> rfl

theorem C10_seekIter_spec (root : T) (k fuel : Nat) (hs : Sorted (toList root)) (hf : lvl root < fuel) :
    Cursor.seekIter fuel root k = (toList root).dropWhile (fun e => decide (e.1 < k)) := by
  unfold Cursor.seekIter
  have := Cursor.out_ceil k fuel root 0 [] hf
  simp only [Cursor.out, List.map_nil, List.flatten_nil, List.append_nil] at this
  rw [this, seekT_spec k root hs]

theorem C10_seekIter_stop (root : T) (k fuel j : Nat) (hs : Sorted (toList root)) (hf : lvl root < fuel) :
    (Cursor.seekIter fuel root k).take j = ((toList root).dropWhile (fun e => decide (e.1 < k))).take j := by
  rw [C10_seekIter_spec root k fuel hs hf]

/-- non-vacuity: probe 5 (absent) on a two-level tree -/
example : Cursor.seekIter 10 (cons false (cons false nil 2 0 (last false nil)) 4 0 (last false (cons false nil 7 0 (last false nil)))) 5 = [(7, 0)] := by
  decide

end Mast
#print axioms Mast.C10_seekIter_spec
#print axioms Mast.C10_seekIter_stop
#print axioms Mast.C10_lowerBound_spec
#print axioms Mast.C10_off_end_is_absorbing
