import Mastverif.Lemmas.RefCursor
import Mastverif.Lemmas.RefDelSys
import Mastverif.Lemmas.RefFlush
import Mastverif.Props.C10O
/-!
# C02 — a cursor is a capture (property theorems at the level of node objects)

C02 counts opening a cursor among the ways of capturing a version: "once a version has been
captured, by cloning a tree (explicitly, or implicitly by opening a cursor on it) … its observable
contents never change, whatever operations are later applied to the original, to other clones, or
to trees loaded from the same or other roots that share the store and the node cache".

A cursor (`Model/PtrCursor.lean`) is a clone with owner tag `w` and a path of node objects.
`PathRep w s g opath P` says that the path denotes the functional path `P` and that every unshared
object it reads carries the tag `w`.  Then:

* `C02_cursor_survives_steps_of_other_trees`: any step performed for another tree `m ≠ w` (`WStep`:
  what `Insert`, `Delete`, `MakeRoot`, `Clone`, `LoadMast`, `Get`, `Iter` of tree `m` are, by the
  refinement theorems) leaves the path denoting `P`;
* `C02_cursor_survives_insert / _delete / _persist`: the instances for `Insert` (successful), `Delete`
  (successful or failed — also the recorded C12 finding) and `MakeRoot` on any other tree, in
  particular on the tree the cursor was opened on;
* `C02_cursor_reads_the_captured_version`: hence, whatever those calls did, every later placement
  / move / read of the cursor is the functional cursor's on the captured `P` (`C10_object_level_*`
  apply in the new state).
Tie: families `ptr` (cursor trees and paths in the object graph while the trees are modified
further) and `versions` (cursors walked after the tree has been modified).
-/
namespace Mast.Ptr
open Mast.Heap Mast

variable {w : Nat}

theorem C02_cursor_survives_steps_of_other_trees {m : Nat} {s s' : PS} {g : Nat} {opath : CPath} {P : Path}
    (hst : WStep m s s') (hne : w ≠ m) (hp : PathRep w s g opath P) : PathRep w s' g opath P :=
  hp.other_step hst hne

theorem C02_cursor_survives_insert (E : Env) (fuel g g2 : Nat) (s s' : PS) (t t' : PTree) (k v : Nat) (A : Tree)
    (opath : CPath) (P : Path)
    (hg : Good s) (hown : FpOwned s.heap t.id (footprint s g t)) (hh : Healthy t)
    (hA : repTree s g t = some A) (h : insert E fuel s t k v = (s', t', .ok))
    (hne : w ≠ t.id) (hp : PathRep w s g2 opath P) : PathRep w s' g2 opath P := by
  obtain ⟨_, _, _, _, _, _, _, _, hst⟩ := insert_refines E fuel g s s' t t' k v A hg hown hh hA h
  exact hp.other_step hst.toW hne

theorem C02_cursor_survives_delete (E : Env) (fuel g g2 : Nat) (s s' : PS) (t t' : PTree) (k v : Nat) (A : Tree)
    (o : Outcome) (opath : CPath) (P : Path)
    (hg : Good s) (hown : FpOwned s.heap t.id (footprint s g t))
    (hA : repTree s g t = some A) (h : delete E fuel s t k v = (s', t', o)) (ho : o = .ok ∨ o = .err)
    (hne : w ≠ t.id) (hp : PathRep w s g2 opath P) : PathRep w s' g2 opath P := by
  have hst : Step t.id s s' := by
    rcases ho with rfl | rfl
    · obtain ⟨_, _, _, _, _, _, _, _, _, _, _, _, hst, _⟩ := delete_ok_core E fuel g s s' t t' k v A hg hown hA h
      exact hst
    · exact (delete_err_refines E fuel g s s' t t' k v A hg hown hA h).2.1
  exact hp.other_step hst.toW hne

theorem C02_cursor_survives_persist (E : Env) (t t' : PTree) (fuel g g2 n : Nat) (s s' : PS) (A : Tree)
    (opath : CPath) (P : Path)
    (hg : Good s) (hsrc : SourceOK s) (hsd : StoreDen s.store) (hown : FpOwned s.heap t.id (footprint s g t))
    (hA : repTree s g t = some A) (h : flush E t fuel s = .ok (t', n) s')
    (hne : w ≠ t.id) (hp : PathRep w s g2 opath P) : PathRep w s' g2 opath P :=
  hp.other_step (flush_refines E t t' fuel g n s s' A hg hsrc hsd hown hA h).2.2.2.1 hne

/-- whatever step of another tree happened in between, the next move and read of the cursor are
    the functional cursor's on the captured path -/
theorem C02_cursor_reads_the_captured_version {m : Nat} (E : Env) (g f : Nat) (opath : CPath) (s s' : PS) (P : Path)
    (mv : CMove) (hst : WStep m s s') (hne : w ≠ m) (hg' : Good s') (hp : PathRep w s g opath P) :
    Spec (Grow w) (cStep E f opath mv) s' (MovePost w g opath (Cursor.stepPath f P (toMove mv))) ∧
    Spec (Grow w) (cGet opath) s' (fun r s'' => s'' = s' ∧ r = Cursor.get P) :=
  ⟨cStep_spec E g f opath s' P mv hg' (hp.other_step hst hne), cGet_spec g opath s' P (hp.other_step hst hne)⟩

end Mast.Ptr
#print axioms Mast.Ptr.C02_cursor_survives_steps_of_other_trees
#print axioms Mast.Ptr.C02_cursor_survives_insert
#print axioms Mast.Ptr.C02_cursor_survives_delete
#print axioms Mast.Ptr.C02_cursor_survives_persist
#print axioms Mast.Ptr.C02_cursor_reads_the_captured_version
