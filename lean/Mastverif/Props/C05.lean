import Mastverif.Lemmas.Store
import Mastverif.Lemmas.Codec
import Mastverif.Lemmas.History
import Mastverif.Lemmas.Json
/-!
# C05 — persist then load is the identity (property theorems)

Model level: what `LoadMast` builds from a root is the persisted tree value recorded under the
root's name; `C05_flush_keeps_entries` / `C05_flush_keeps_meta`: flushing changes neither the
entries nor size, height, branch factor and thresholds, and the name in the root record is the
name of the tree's top node.  `C05_binary_roundtrip`: decoding the bytes of format "v1.1.5binary" gives back exactly the
node's keys, values and child names, for every node whose marshaled keys / values are non-empty
(codec.go reads a zero-length body as "absent" — a real side condition of the format, true of
every JSON form) and whose lengths fit nine varint bytes; `C05_every_node_roundtrips`: this applies to
EVERY node the model writes (any well-formed row, any encoder with non-empty bodies and names).  `C05_reload_behaves_the_same`: the
reloaded tree (all links names) gives the same outputs as the original on every later
history.  `C05_json_roundtrip`: the same for format "v1marshaler" (decoder model `Json.decJson`, the canonical
shape `encoding/json` writes; elements must be *plain* JSON values — `plain_simple` for numbers,
`plain_quote` for strings without quote / backslash; names free of those characters).  The tie (family `persist`, `map`, `format`) compares every stored byte string with
`encBin`/`encJson`, reloads through a JSON round-trip of the root and compares entries, size,
height after every cycle.
-/
namespace Mast.Tree
open T

theorem C05_flush_keeps_entries (e : Enc) (m : Tree) : (makeRoot e m).2.2.toList = m.toList := by
  unfold makeRoot Tree.toList
  split
  · rfl
  · split
    · rfl
    · simp

theorem C05_flush_keeps_meta (e : Enc) (m : Tree) :
    let m' := (makeRoot e m).2.2
    m'.size = m.size ∧ m'.height = m.height ∧ m'.bf = m.bf ∧ m'.growAfter = m.growAfter ∧ m'.shrinkBelow = m.shrinkBelow := by
  unfold makeRoot
  split
  · simp
  · split <;> simp

theorem C05_root_record (e : Enc) (m : Tree) :
    let r := (makeRoot e m).2.1
    r.size = m.size ∧ r.height = m.height ∧ r.bf = m.bf ∧
    (isEmptyTop m.root = false → r.link = some (nodeName e m.root)) := by
  unfold makeRoot
  split
  · next h => simp [h]
  · split <;> simp

/-- the name recorded in the root is the name of the reloaded (all-persisted) tree -/
theorem C05_reloaded_name (e : Enc) (t : T) : nodeName e (persistAll t) = nodeName e t :=
  nodeName_persistAll e t

/-- the reloaded tree can be modified and persisted again with all the same guarantees:
    every later history has the same outputs as on the original tree -/
theorem C05_reload_behaves_the_same (layer : Nat → Nat) (e : Enc) (m : Tree) (hi : Inv layer m) (ops : List Op) :
    runT layer e (makeRoot e m).2.2 ops = runT layer e m ops := by
  have h := inv_makeRoot layer e m hi
  rw [C01_like layer e ops _ h.1, C01_like layer e ops m hi, h.2]
where
  C01_like (layer : Nat → Nat) (e : Enc) : ∀ (ops : List Op) (m : Tree), Inv layer m →
      runT layer e m ops = runL m.toList ops := by
    intro ops
    induction ops with
    | nil => intro m _; rfl
    | cons op ops ih =>
      intro m hi
      obtain ⟨h1, h2, h3⟩ := step_refines layer e m op hi
      simp only [runT, runL]
      rw [h1, ih _ h2, h3]

end Mast.Tree

namespace Mast.Codec
theorem C05_binary_roundtrip (n : NodeB) (h : NodeOK n) :
    decBinRaw (encBin n) = some { keys := n.keys.map some, vals := n.vals.map some,
                                  links := if n.links.all Option.isNone then [] else n.links } :=
  decBinRaw_encBin n h

theorem fits_small (n : Nat) (h : n < 128) : fits n :=
  ⟨9, rfl, Nat.lt_of_lt_of_le h (Nat.le_self_pow (by omega) 128)⟩

/-- non-vacuity: a two-entry node with one child satisfies the side conditions -/
example : NodeOK { keys := [[49], [50]], vals := [[53], [54]], links := [none, some [65, 66], none] } := by
  constructor
  · intro b hb; simp at hb; rcases hb with rfl | rfl <;> exact ⟨by simp, fits_small _ (by simp)⟩
  · intro b hb; simp at hb; rcases hb with rfl | rfl <;> exact ⟨by simp, fits_small _ (by simp)⟩
  · intro o ho; simp at ho
    rcases ho with rfl | rfl | rfl
    · exact ⟨by simp, fits_small _ (by simp)⟩
    · exact ⟨by simp, fits_small _ (by simp)⟩
    · exact ⟨by simp, fits_small _ (by simp)⟩
  · exact fits_small _ (by simp)
  · exact fits_small _ (by simp)
  · exact fits_small _ (by simp)
end Mast.Codec
namespace Mast
open T Codec

/-- an encoder whose outputs the binary format can carry: non-empty key / value bodies and names,
    lengths below 128^9 -/
structure EncOK (e : Enc) : Prop where
  key : ∀ k, e.keyB k ≠ [] ∧ fits (e.keyB k).length
  val : ∀ v, e.valB v ≠ [] ∧ fits (e.valB v).length
  name : ∀ b, e.hash b ≠ [] ∧ fits (e.hash b).length

namespace T
/-- a node row: entries, then the last link -/
def Row : T → Prop
  | nil => False
  | last _ _ => True
  | cons _ _ _ _ r => Row r

theorem row_of_WF (layer : Nat → Nat) : ∀ (t : T) (d : Nat), WF layer d t → Row t := by
  intro t
  induction t with
  | nil => intro d h; simp [WF] at h
  | last p c _ => intro _ _; trivial
  | cons p c k v r _ ihr => intro d h; rw [WF_cons_iff] at h; exact ihr d h.2.1

theorem rowB_lengths (e : Enc) : ∀ t : T, Row t → (rowB e t).keys.length = rowLen t ∧
    (rowB e t).vals.length = rowLen t ∧ (rowB e t).links.length = rowLen t + 1 := by
  intro t
  induction t with
  | nil => intro h; cases h
  | last p c _ => intro _; simp [rowB, rowLen]
  | cons p c k v r _ ihr =>
    intro h
    obtain ⟨h1, h2, h3⟩ := ihr h
    simp [rowB, rowLen, h1, h2, h3]

theorem rowB_ok (e : Enc) (he : EncOK e) : ∀ t : T, Row t →
    (∀ b ∈ (rowB e t).keys, b ≠ [] ∧ fits b.length) ∧ (∀ b ∈ (rowB e t).vals, b ≠ [] ∧ fits b.length) ∧
    (∀ o ∈ (rowB e t).links, ElemOK o) := by
  have linkOK : ∀ c : T, ElemOK (if c.isNil then none else some (e.hash (e.node (rowB e c)))) := by
    intro c
    by_cases hc : c.isNil = true
    · simp only [hc, if_true]; exact ⟨by simp, by simpa using fits_zero⟩
    · simp only [hc, Bool.false_eq_true, if_false]
      exact ⟨fun b hb => by injection hb with hb; subst hb; exact (he.name _).1, by simpa using (he.name _).2⟩
  intro t
  induction t with
  | nil => intro h; cases h
  | last p c _ =>
    intro _
    refine ⟨by simp [rowB], by simp [rowB], ?_⟩
    intro o ho
    simp only [rowB, List.mem_singleton] at ho
    subst ho; exact linkOK c
  | cons p c k v r _ ihr =>
    intro h
    obtain ⟨h1, h2, h3⟩ := ihr h
    refine ⟨?_, ?_, ?_⟩
    · intro b hb; simp only [rowB, List.mem_cons] at hb
      rcases hb with rfl | hb
      · exact he.key k
      · exact h1 b hb
    · intro b hb; simp only [rowB, List.mem_cons] at hb
      rcases hb with rfl | hb
      · exact he.val v
      · exact h2 b hb
    · intro o ho; simp only [rowB, List.mem_cons] at ho
      rcases ho with rfl | ho
      · exact linkOK c
      · exact h3 o ho
end T

/-- **every node the model writes decodes back to its keys, values and child names** -/
theorem Codec.C05_every_node_roundtrips (e : Enc) (he : EncOK e) (t : T) (hr : Row t)
    (hsize : fits (rowLen t + 1)) :
    decBinRaw (encBin (rowB e t)) = some (RawNode.mk ((rowB e t).keys.map some) ((rowB e t).vals.map some)
      (if (rowB e t).links.all Option.isNone then [] else (rowB e t).links)) := by
  obtain ⟨l1, l2, l3⟩ := rowB_lengths e t hr
  obtain ⟨o1, o2, o3⟩ := rowB_ok e he t hr
  have hf : ∀ n, n ≤ rowLen t + 1 → fits n := by
    intro n hn
    obtain ⟨f, hf9, hlt⟩ := hsize
    exact ⟨f, hf9, Nat.lt_of_le_of_lt hn hlt⟩
  exact decBinRaw_encBin _ ⟨o1, o2, o3, hf _ (by omega), hf _ (by omega), hf _ (by omega)⟩
end Mast

namespace Mast.Json
open Codec
/-- **round trip of the v1marshaler format** -/
theorem C05_json_roundtrip (n : NodeB) (h : JNodeOK n) :
    decJson (encJson n) = some (RawNode.mk (n.keys.map some) (n.vals.map some)
      (if n.links.all Option.isNone then [] else n.links)) := decJson_encJson n h

/-- non-vacuity: numeric keys, a quoted string value, one child -/
example : JNodeOK { keys := [[49, 50], [55]], vals := [[53], [34, 97, 98, 34]], links := [none, some [65, 66, 45], none] } := by
  refine ⟨?_, ?_, ?_⟩
  · intro b hb; simp at hb
    rcases hb with rfl | rfl <;> exact plain_simple _ (by simp) (by intro c hc; simp at hc; rcases hc with rfl | rfl <;> decide)
  · intro b hb; simp at hb
    rcases hb with rfl | rfl
    · exact plain_simple _ (by simp) (by intro c hc; simp at hc; subst hc; decide)
    · exact plain_quote [97, 98] (by intro c hc; simp at hc; rcases hc with rfl | rfl <;> decide)
  · intro nm hnm b hb; simp at hnm; subst hnm; simp at hb
    rcases hb with rfl | rfl | rfl <;> decide
end Mast.Json
#print axioms Mast.Json.C05_json_roundtrip
#print axioms Mast.Codec.C05_every_node_roundtrips
#print axioms Mast.Tree.C05_reload_behaves_the_same
#print axioms Mast.Codec.C05_binary_roundtrip
#print axioms Mast.Tree.C05_flush_keeps_entries
#print axioms Mast.Tree.C05_flush_keeps_meta
#print axioms Mast.Tree.C05_root_record
#print axioms Mast.Tree.C05_reloaded_name
