import Mastverif.Lemmas.Store
/-!
# C05 — persist then load is the identity (property theorems, in progress)

Model level: what `LoadMast` builds from a root is the persisted tree value recorded under the
root's name; `C05_flush_keeps_entries` / `C05_flush_keeps_meta`: flushing changes neither the
entries nor size, height, branch factor and thresholds, and the name in the root record is the
name of the tree's top node.  The byte-level round trip (`decBin (encBin n) = n`) is on the
work list; the tie (family `persist`, `map`, `format`) compares every stored byte string with
`encBin`/`encJson`, reloads through a JSON round-trip of the root and compares entries, size,
height after every cycle.
-/
namespace Mast.Tree
open T

theorem C05_flush_keeps_entries (e : Enc) (m : Tree) : (makeRoot e m).2.2.toList = m.toList := by
  unfold makeRoot Tree.toList
  split
  · rfl
  · split
    · rfl
    · simp

theorem C05_flush_keeps_meta (e : Enc) (m : Tree) :
    let m' := (makeRoot e m).2.2
    m'.size = m.size ∧ m'.height = m.height ∧ m'.bf = m.bf ∧ m'.growAfter = m.growAfter ∧ m'.shrinkBelow = m.shrinkBelow := by
  unfold makeRoot
  split
  · simp
  · split <;> simp

theorem C05_root_record (e : Enc) (m : Tree) :
    let r := (makeRoot e m).2.1
    r.size = m.size ∧ r.height = m.height ∧ r.bf = m.bf ∧
    (isEmptyTop m.root = false → r.link = some (nodeName e m.root)) := by
  unfold makeRoot
  split
  · next h => simp [h]
  · split <;> simp

/-- the name recorded in the root is the name of the reloaded (all-persisted) tree -/
theorem C05_reloaded_name (e : Enc) (t : T) : nodeName e (persistAll t) = nodeName e t :=
  nodeName_persistAll e t

end Mast.Tree
#print axioms Mast.Tree.C05_flush_keeps_entries
#print axioms Mast.Tree.C05_flush_keeps_meta
#print axioms Mast.Tree.C05_root_record
#print axioms Mast.Tree.C05_reloaded_name
