import Mastverif.Lemmas.Store
import Mastverif.Lemmas.Codec
import Mastverif.Lemmas.History
/-!
# C05 — persist then load is the identity (property theorems)

Model level: what `LoadMast` builds from a root is the persisted tree value recorded under the
root's name; `C05_flush_keeps_entries` / `C05_flush_keeps_meta`: flushing changes neither the
entries nor size, height, branch factor and thresholds, and the name in the root record is the
name of the tree's top node.  `C05_binary_roundtrip`: decoding the bytes of format "v1.1.5binary" gives back exactly the
node's keys, values and child names, for every node whose marshaled keys / values are non-empty
(codec.go reads a zero-length body as "absent" — a real side condition of the format, true of
every JSON form) and whose lengths fit nine varint bytes.  `C05_reload_behaves_the_same`: the
reloaded tree (all links names) gives the same outputs as the original on every later
history.  The v1marshaler decoder is `encoding/json` and is not modelled.  The tie (family `persist`, `map`, `format`) compares every stored byte string with
`encBin`/`encJson`, reloads through a JSON round-trip of the root and compares entries, size,
height after every cycle.
-/
namespace Mast.Tree
open T

theorem C05_flush_keeps_entries (e : Enc) (m : Tree) : (makeRoot e m).2.2.toList = m.toList := by
  unfold makeRoot Tree.toList
  split
  · rfl
  · split
    · rfl
    · simp

theorem C05_flush_keeps_meta (e : Enc) (m : Tree) :
    let m' := (makeRoot e m).2.2
    m'.size = m.size ∧ m'.height = m.height ∧ m'.bf = m.bf ∧ m'.growAfter = m.growAfter ∧ m'.shrinkBelow = m.shrinkBelow := by
  unfold makeRoot
  split
  · simp
  · split <;> simp

theorem C05_root_record (e : Enc) (m : Tree) :
    let r := (makeRoot e m).2.1
    r.size = m.size ∧ r.height = m.height ∧ r.bf = m.bf ∧
    (isEmptyTop m.root = false → r.link = some (nodeName e m.root)) := by
  unfold makeRoot
  split
  · next h => simp [h]
  · split <;> simp

/-- the name recorded in the root is the name of the reloaded (all-persisted) tree -/
theorem C05_reloaded_name (e : Enc) (t : T) : nodeName e (persistAll t) = nodeName e t :=
  nodeName_persistAll e t

/-- the reloaded tree can be modified and persisted again with all the same guarantees:
    every later history has the same outputs as on the original tree -/
theorem C05_reload_behaves_the_same (layer : Nat → Nat) (e : Enc) (m : Tree) (hi : Inv layer m) (ops : List Op) :
    runT layer e (makeRoot e m).2.2 ops = runT layer e m ops := by
  have h := inv_makeRoot layer e m hi
  rw [C01_like layer e ops _ h.1, C01_like layer e ops m hi, h.2]
where
  C01_like (layer : Nat → Nat) (e : Enc) : ∀ (ops : List Op) (m : Tree), Inv layer m →
      runT layer e m ops = runL m.toList ops := by
    intro ops
    induction ops with
    | nil => intro m _; rfl
    | cons op ops ih =>
      intro m hi
      obtain ⟨h1, h2, h3⟩ := step_refines layer e m op hi
      simp only [runT, runL]
      rw [h1, ih _ h2, h3]

end Mast.Tree

namespace Mast.Codec
theorem C05_binary_roundtrip (n : NodeB) (h : NodeOK n) :
    decBinRaw (encBin n) = some { keys := n.keys.map some, vals := n.vals.map some,
                                  links := if n.links.all Option.isNone then [] else n.links } :=
  decBinRaw_encBin n h

theorem fits_small (n : Nat) (h : n < 128) : fits n :=
  ⟨9, rfl, Nat.lt_of_lt_of_le h (Nat.le_self_pow (by omega) 128)⟩

/-- non-vacuity: a two-entry node with one child satisfies the side conditions -/
example : NodeOK { keys := [[49], [50]], vals := [[53], [54]], links := [none, some [65, 66], none] } := by
  constructor
  · intro b hb; simp at hb; rcases hb with rfl | rfl <;> exact ⟨by simp, fits_small _ (by simp)⟩
  · intro b hb; simp at hb; rcases hb with rfl | rfl <;> exact ⟨by simp, fits_small _ (by simp)⟩
  · intro o ho; simp at ho
    rcases ho with rfl | rfl | rfl
    · exact ⟨by simp, fits_small _ (by simp)⟩
    · exact ⟨by simp, fits_small _ (by simp)⟩
    · exact ⟨by simp, fits_small _ (by simp)⟩
  · exact fits_small _ (by simp)
  · exact fits_small _ (by simp)
  · exact fits_small _ (by simp)
end Mast.Codec
#print axioms Mast.Tree.C05_reload_behaves_the_same
#print axioms Mast.Codec.C05_binary_roundtrip
#print axioms Mast.Tree.C05_flush_keeps_entries
#print axioms Mast.Tree.C05_flush_keeps_meta
#print axioms Mast.Tree.C05_root_record
#print axioms Mast.Tree.C05_reloaded_name
