import Mastverif.Props.C01O
import Mastverif.Lemmas.TreeInv
/-!
# C13: an `Insert` that changes nothing leaves the version unmodified

C13 speaks of versions in which "nothing was modified".  An `Insert` of an entry that is already
present with an equal value is such a call: functionally it returns the tree it was given — the
same rows, the same residency flags, the same `dirty` flag, the same size, height and thresholds
(`C13_noop_insert`) — and at the level of node objects the tree record denotes exactly the tree it
denoted (`C13_object_level_noop_insert`), so that `IsDirty` answers what it answered and, for a
clean version, `MakeRoot` writes nothing and returns the same root (`Props/C13O.lean`,
`C13_noop`).  No growth step runs, whatever the size (the seeded change s207 grew the tree there).
-/
namespace Mast.Tree
open Mast Mast.T

theorem C13_noop_insert (layer : Nat → Nat) (m : Tree) (k v : Nat) (hi : Inv layer m)
    (hpres : getL k m.toList = some v) : insert layer m k v = .ok m := by
  unfold insert
  rw [lookup_eq layer m k hi, hpres]
  simp

/-- non-vacuity: a three-entry tree of height 1 (layers k % 4, branch factor 2) built by the model's own Insert;
    inserting (4, 40) again returns it unchanged, inserting (4, 41) does not -/
def nvT : Tree :=
  match insert (fun k => k % 4) (Tree.empty 2) 4 40 with
  | .ok a => (match insert (fun k => k % 4) a 5 50 with
    | .ok b => (match insert (fun k => k % 4) b 7 70 with
      | .ok c => c
      | _ => b)
    | _ => a)
  | _ => Tree.empty 2

def okList : Res Tree → Option (List (Nat × Nat) × Bool × Nat)
  | .ok m => some (m.toList, m.dirty, m.height)
  | _ => none

example : (nvT.toList, nvT.dirty, nvT.height) = ([(4, 40), (5, 50), (7, 70)], true, 1) ∧
    okList (insert (fun k => k % 4) nvT 4 40) = some ([(4, 40), (5, 50), (7, 70)], true, 1) ∧
    okList (insert (fun k => k % 4) { nvT with dirty := false } 4 40) = some ([(4, 40), (5, 50), (7, 70)], false, 1) ∧
    okList (insert (fun k => k % 4) { nvT with dirty := false } 4 41) = some ([(4, 41), (5, 50), (7, 70)], true, 1) := by
  decide +kernel

end Mast.Tree

namespace Mast.Ptr
open Mast.Heap Mast Mast.Tree Mast.T

theorem C13_object_level_noop_insert (E : Env) (fuel g : Nat) (s s' : PS) (t t' : PTree) (k v : Nat) (A : Tree)
    (hg : Good s) (hown : FpOwned s.heap t.id (footprint s g t)) (hth : Thresh t)
    (hA : repTree s g t = some A) (hi : Tree.Inv E.layer A) (hpres : getL k A.toList = some v)
    (h : insert E fuel s t k v = (s', t', .ok)) :
    ∃ g', repTree s' g' t' = some A ∧ Good s' ∧ FpOwned s'.heap t'.id (footprint s' g' t') := by
  obtain ⟨g', A', h1, h2, h3, h4, _⟩ := C01_object_level_insert E fuel g s s' t t' k v A hg hown hth hA h
  rw [C13_noop_insert E.layer A k v hi hpres] at h2
  injection h2 with h2
  subst h2
  exact ⟨g', h1, h3, h4⟩

end Mast.Ptr
#print axioms Mast.Tree.C13_noop_insert
#print axioms Mast.Ptr.C13_object_level_noop_insert
