import Mastverif.Lemmas.Flush
import Mastverif.Lemmas.StoreComplete
/-!
# C03 — a returned root is complete and durable (property theorems)

On the worker-pool model `MF` (every interleaving of producer, dispatcher and workers, every
completion order, delay and failure pattern of the `Store` calls):
* `C03_barrier`: when `wg.Wait()` has returned, no worker is starting, calling `Store` or
  finishing, the dispatcher has exited, every closure was handed over, and every one of the
  `n` queued writes has completed (ok, failed, or skipped after the first failure);
  if no write failed, all `n` completed successfully;
* `C03_pool`: at most `pool` (= 40) `Store` calls are ever in flight;
* `C03_error_reported`: a failed write is always reflected in `firstErr` at return.
On the sequential model (`Tree.makeRoot` and the history semantics, with the store as the list
of names written so far):
* `C03_returned_version_is_in_the_store`: after EVERY history of inserts, deletes (with growth and
  shrinking), lookups and persists from the empty tree, the names a further `MakeRoot` writes
  together with what was written before cover every node reachable from the root it returns —
  nothing reachable is skipped, whatever mix of persisted and in-memory nodes the tree holds
  (invariant `J`: below every persisted link hangs a completely persisted subtree whose names are
  all in the store);
* `C03_retry_after_failures_is_complete`: the same for histories in which any number of `MakeRoot`
  calls FAIL, each after an arbitrary subset of its writes has reached the store (`execF`): the
  failed attempt commits nothing to the tree, so the attempt that succeeds writes every node again
  that is not yet confirmed, and what it returns is completely in the store;
* `C03_named_by_content`: each of those writes is (hash of the bytes, bytes).
Together with `C03_barrier` (all queued writes have completed when `MakeRoot` returns, and a
failure is reported) this is the property's first sentence.  Tied by the `flush` family: nothing
is committed to the tree before the barrier; an error leaves the tree usable; a retry writes what
is missing; a second store sharing the node cache receives every node (source facts about pub.go's
statement order).
-/
namespace Mast.MF

theorem C03_barrier {n pool s} (r : Reach n pool s) (hr : s.returned = 1) :
    s.nStart = 0 ∧ s.nCalling = 0 ∧ s.nExit = 0 ∧ s.dExit = 1 ∧ s.toSend = 0 ∧
    s.okDone + s.errDone + s.skipped = n ∧ (s.firstErr = 0 → s.okDone = n) := by
  obtain ⟨h0, h1, h2, h3, h4, h5, h6, h7⟩ := inv_reach r
  have := h7 hr
  omega

theorem C03_pool {n pool s} (r : Reach n pool s) : s.nCalling ≤ pool := by
  have := (inv_reach r).gateEq; omega

theorem C03_error_reported {n pool s} (r : Reach n pool s) (he : s.errDone > 0) : s.firstErr ≠ 0 := by
  have := (inv_reach r).errs
  intro h0
  have := this h0
  omega

/-- non-vacuity: a complete run with one write and a pool of one reaches `returned` -/
example : ∃ s, Reach 1 1 s ∧ s.returned = 1 ∧ s.okDone = 1 := by
  have s0 : Reach 1 1 (start 1 1) := Reach.init
  have s1 := Reach.step s0 (Step.send _ (by decide) (by decide) (by decide))
  have s2 := Reach.step s1 (Step.spawn _ (by decide) (by decide))
  have s3 := Reach.step s2 (Step.checkGo _ (by decide) (by decide))
  have s4 := Reach.step s3 (Step.storeOk _ (by decide))
  have s5 := Reach.step s4 (Step.workerExit _ (by decide))
  have s6 := Reach.step s5 (Step.close _ (by decide) (by decide))
  have s7 := Reach.step s6 (Step.recvClose _ (by decide) (by decide))
  have s8 := Reach.step s7 (Step.dispExit _ (by decide) (by decide))
  have s9 := Reach.step s8 (Step.waitReturn _ (by decide) (by decide) (by decide))
  exact ⟨_, s9, by decide, by decide⟩

end Mast.MF

namespace Mast.Tree
open T
variable (layer : Nat → Nat)

/-- **after every history, what MakeRoot returns is completely in the store** -/
theorem C03_returned_version_is_in_the_store (e : Enc) (bf : Nat) (ops : List Op) :
    let st := execS layer e (Tree.empty bf, []) ops
    ∀ n ∈ reach e st.1, n ∈ st.2 ++ written e st.1 := by
  intro st
  exact (makeRoot_complete e st.2 st.1 (J_execS layer e ops (Tree.empty bf) [] (J_empty e bf))).1

/-- **a retry after failures publishes a complete version**: histories in which any number of
    `MakeRoot` calls fail, each after an arbitrary subset of its writes has reached the store,
    between any operations and successful persists — a `MakeRoot` that then succeeds returns a
    root all of whose nodes are in the store (it writes again whatever the failed attempts
    left unconfirmed: a failed attempt commits nothing to the tree) -/
theorem C03_retry_after_failures_is_complete (e : Enc) (bf : Nat) (ops : List OpF) :
    let st := execF layer e (Tree.empty bf, []) ops
    ∀ n ∈ reach e st.1, n ∈ st.2 ++ written e st.1 := by
  intro st
  exact (makeRoot_complete e st.2 st.1 (J_execF layer e ops (Tree.empty bf) [] (J_empty e bf))).1

/-- non-vacuity: a failed attempt that lands only the top node (its two children are missing from
    the store), then a successful one — the history is one the theorem speaks about, and the failed
    attempt really leaves a dangling name behind -/
example :
    let e : Enc := { keyB := fun k => [k.toUInt8], valB := fun v => [v.toUInt8],
                     node := fun n => (n.keys.flatten ++ n.vals.flatten ++ (n.links.map (fun l => l.getD [0])).flatten),
                     hash := fun b => b }
    let ops : List OpF := [.op (.ins 1 1), .op (.ins 2 1), .op (.ins 3 1), .op (.ins 4 2), .op (.ins 5 1),
                           .failedPersist [false, false, true], .op .persist]
    let mid := execF (fun k => if k % 4 = 0 then 1 else 0) e (Tree.empty 4, []) (ops.take 6)
    (mid.2.length = 1) ∧ (reach e mid.1).length = 3 := by
  decide

theorem C03_named_by_content (e : Enc) (m : Tree) : ∀ x ∈ (makeRoot e m).1, x.1 = e.hash x.2 := by
  intro x hx
  unfold makeRoot at hx
  split at hx
  · simp at hx
  · split at hx
    · simp at hx
    · simp only [List.mem_append, List.mem_singleton] at hx
      rcases hx with hx | rfl
      · exact storesBelow_named e m.root x hx
      · rfl

end Mast.Tree
#print axioms Mast.Tree.C03_returned_version_is_in_the_store
#print axioms Mast.Tree.C03_named_by_content
#print axioms Mast.Tree.C03_retry_after_failures_is_complete
#print axioms Mast.MF.C03_barrier
#print axioms Mast.MF.C03_pool
#print axioms Mast.MF.C03_error_reported
