import Mastverif.Lemmas.Heap
import Mastverif.Lemmas.PtrAtomic
/-!
# C12 — an operation that returns an error leaves the tree unchanged (property theorems, partial)

Every repaired operation performs its fallible calls (Persist.Load, KeyCompare, the layer /
marshal callbacks) while it only *allocates*: new nodes for copies, split halves and merged
nodes; the first write to an object the tree already reaches (and the assignment of the root,
size and height) comes after the last fallible call.  `C12_allocations_invisible`: a run that
consists of allocations only — which is what has happened when such an operation returns its
error — leaves the observable contents under every existing link exactly as they were, for
every owner.  The value-level statement is immediate in the functional model (an operation
returns either a new tree or an error, never both).
Tie: family `faults` injects a failure at every Load / KeyCompare call of every operation and
re-reads contents, size and height; the one place where the Go code does NOT follow the
discipline — Delete runs its height reduction after the removal has been installed — is the
known finding listed in known_findings.txt.
-/
namespace Mast.Heap

def allocOnly : List Act → Prop
  | [] => True
  | Act.alloc _ :: rest => allocOnly rest
  | _ :: _ => False

theorem run_allocOnly_append : ∀ (acts : List Act) (h h' : Heap), allocOnly acts → run h acts = some h' →
    ∃ ext, h' = h ++ ext := by
  intro acts
  induction acts with
  | nil => intro h h' _ hr; simp only [run] at hr; injection hr with hr; exact ⟨[], by simp [hr]⟩
  | cons act acts ih =>
    intro h h' ha hr
    cases act with
    | alloc nd =>
      simp only [run] at hr
      cases hs : applyAct h (Act.alloc nd) with
      | none => simp [hs] at hr
      | some h1 =>
        simp only [hs] at hr
        have h1eq : h1 = h ++ [nd] := by
          simp only [applyAct] at hs
          split at hs
          · injection hs with hs; exact hs.symm
          · cases hs
        subst h1eq
        obtain ⟨ext, he⟩ := ih (h ++ [nd]) h' ha hr
        exact ⟨nd :: ext, by simp [he]⟩
    | write m a nd => exact absurd ha (by simp [allocOnly])
    | publish m a links => exact absurd ha (by simp [allocOnly])

/-- a failed operation has only allocated: everything observable is as before -/
theorem C12_allocations_invisible (h h' : Heap) (acts : List Act) (ha : allocOnly acts)
    (hr : run h acts = some h') (fuel : Nat) (l : HLink) (c : List Tok)
    (hc : contents h fuel l = some c) : contents h' fuel l = some c := by
  obtain ⟨ext, rfl⟩ := run_allocOnly_append acts h h' ha hr
  exact contents_append h ext fuel l c hc

/-- non-vacuity: a failed Insert that had copied one node: an allocation-only run that succeeds -/
example :
    let shared : MNode := { keys := [5], vals := [50], links := [.ref 7, .nil], dirty := false, shared := true, owner := 0 }
    let acts : List Act := [.alloc { shared with dirty := true, shared := false, owner := 2 }]
    allocOnly acts ∧ (run [shared] acts).isSome = true ∧ contents [shared] 2 (.ptr 0) ≠ none := by
  refine ⟨trivial, by decide, by decide⟩

end Mast.Heap
/-!
## The statement for the logic of the code (object-level model, `Model/Ptr.lean`)

`Insert` = a *plan* (locate, load and split the child: everything that can fail; only allocates) +
a *commit* (the in-place writes and `savePathForRoot`: cannot fail) + the growth loop.  `Delete` =
plan (locate, `mergeNodes`) + commit + the height reduction.  With store loads AND calls of the
layer function (the `Marshal` callback behind `DefaultLayer`) failing at ANY positions
(`Env.failAt`, `Env.layerFailAt` are arbitrary):
-/
namespace Mast.Ptr
open Mast.Heap

/-- **Insert**: when the call returns an error, the tree record is unchanged and every level of
    the contents under its root reads as before (the heap was only extended by objects nothing
    reaches) — unless the error comes from the growth step after the complete insertion. -/
theorem C12_insert_error_partial (E : Env) (fuel : Nat) (s : PS) (t : PTree) (key val : Nat)
    (hinv : Inv t.id s) (hroot : Vis s.heap t.id t.root)
    (he : (insert E fuel s t key val).2.2 = .err) :
    ((insert E fuel s t key val).2.1 = t ∧
      ∀ f l c, contents s.heap f l = some c → contents (insert E fuel s t key val).1.heap f l = some c) ∨
    (∃ p s1 root s2, insertPlan E t fuel key val s = .ok p s1 ∧ insertCommit t p key val s1 = .ok root s2) := by
  rcases insert_err E fuel s t key val hinv hroot he with ⟨ha, ht⟩ | h
  · exact Or.inl ⟨ht, fun f l c hc => contents_allocOnly ha f l c hc⟩
  · exact Or.inr h

/-- **Delete**: the same; the second alternative (an error of the height reduction after the
    complete removal) is the recorded known finding, see the witness below. -/
theorem C12_delete_error_partial (E : Env) (fuel : Nat) (s : PS) (t : PTree) (key val : Nat)
    (hinv : Inv t.id s) (hroot : Vis s.heap t.id t.root)
    (he : (delete E fuel s t key val).2.2 = .err) :
    ((delete E fuel s t key val).2.1 = t ∧
      ∀ f l c, contents s.heap f l = some c → contents (delete E fuel s t key val).1.heap f l = some c) ∨
    (∃ p s1 root s2, deletePlan E t fuel key val s = .ok p s1 ∧ deleteCommit t p s1 = .ok root s2) := by
  rcases delete_err E fuel s t key val hinv hroot he with ⟨ha, ht⟩ | h
  · exact Or.inl ⟨ht, fun f l c hc => contents_allocOnly ha f l c hc⟩
  · exact Or.inr h

/-- the parts that write cannot return an error -/
theorem C12_commit_phases_cannot_fail (t : PTree) (p : InsPlan) (q : DelPlan) (key val : Nat) :
    NoErr (insertCommit t p key val) ∧ NoErr (deleteCommit t q) :=
  ⟨insertCommit_noErr t p key val, deleteCommit_noErr t q⟩

/-- **lookups, iterations and clones** never change what any tree holds, whether they fail or not:
    trees other than a target are untouched by every call, and these calls have no target -/
theorem C12_reads_change_nothing (E : Env) (fuel : Nat) (σ : Sys) (h : SysInv σ) (op : Op)
    (hop : op.target = none) (j : Nat) : Untouched σ (σ.apply E fuel op).1 j :=
  (Sys.apply_ok E fuel σ op h).2.2.1 j (by rw [hop]; simp)

/-- the known finding in the object-level model (kernel-checked): a version of height 1 with
    top keys 4 and 8 and a child `[3]`, reloaded; `Delete(8)` removes the entry, and the load of the
    child during the height reduction (the third store load) fails: the call returns an error,
    the entry is gone, the size is 2 -/
def kfEnv (ft : Nat) : Env := { layer := fun k => if k % 4 = 0 then 1 else 0, failAt := fun t => t == ft }
def kfBase : Sys := (Sys.run (kfEnv 1000) 10 {} [.load 0 0 0 2, .ins 0 4 40, .ins 0 3 30, .ins 0 8 80, .flush 0, .load 2 3 1 2]).1
theorem C12_delete_known_finding_in_the_model :
    (kfBase.apply (kfEnv 2) 10 (.del 1 8 80)).2 = .err ∧
    ((kfBase.apply (kfEnv 2) 10 (.del 1 8 80)).1.trees.map
      (fun t => (contents (kfBase.apply (kfEnv 2) 10 (.del 1 8 80)).1.ps.heap 5 t.root, t.size)))[1]? =
      some (some [.refn 1, .ent 4 40], 2) := by decide +kernel

/-- the second known finding in the object-level model (kernel-checked): a tree of height 0 that
    holds as many entries as its growth threshold; `Insert(7)` puts the entry in, then the layer
    callback of the growth check fails (the fourth layer call; the third one — the call that
    opens the Insert — leaves everything unchanged): the call returns an error, the entry is in,
    the size is still 2 -/
def kf2Env (ft : Nat) : Env :=
  { layer := fun k => if k % 4 = 0 then 1 else 0, failAt := fun _ => false, layerFailAt := fun t => t == ft }
def kf2Base : Sys := (Sys.run (kf2Env 1000) 10 {} [.load 0 0 0 2, .ins 0 3 30, .ins 0 5 50]).1
theorem C12_insert_known_finding_in_the_model :
    (kf2Base.apply (kf2Env 3) 10 (.ins 0 7 70)).2 = .err ∧
    (kf2Base.apply (kf2Env 3) 10 (.ins 0 7 70)).1.trees.map
      (fun t => (contents (kf2Base.apply (kf2Env 3) 10 (.ins 0 7 70)).1.ps.heap 5 t.root, t.size)) =
      [(some [.ent 3 30, .ent 5 50, .ent 7 70], 2)] ∧
    (kf2Base.apply (kf2Env 2) 10 (.ins 0 7 70)).2 = .err ∧
    (kf2Base.apply (kf2Env 2) 10 (.ins 0 7 70)).1.trees.map
      (fun t => (contents (kf2Base.apply (kf2Env 2) 10 (.ins 0 7 70)).1.ps.heap 5 t.root, t.size)) =
      [(some [.ent 3 30, .ent 5 50], 2)] := by decide +kernel

end Mast.Ptr
#print axioms Mast.Ptr.C12_insert_known_finding_in_the_model
#print axioms Mast.Ptr.C12_insert_error_partial
#print axioms Mast.Ptr.C12_delete_error_partial
#print axioms Mast.Ptr.C12_commit_phases_cannot_fail
#print axioms Mast.Ptr.C12_reads_change_nothing
#print axioms Mast.Ptr.C12_delete_known_finding_in_the_model
#print axioms Mast.Heap.C12_allocations_invisible
