import Mastverif.Lemmas.Heap
/-!
# C12 — an operation that returns an error leaves the tree unchanged (property theorems, partial)

Every repaired operation performs its fallible calls (Persist.Load, KeyCompare, the layer /
marshal callbacks) while it only *allocates*: new nodes for copies, split halves and merged
nodes; the first write to an object the tree already reaches (and the assignment of the root,
size and height) comes after the last fallible call.  `C12_allocations_invisible`: a run that
consists of allocations only — which is what has happened when such an operation returns its
error — leaves the observable contents under every existing link exactly as they were, for
every owner.  The value-level statement is immediate in the functional model (an operation
returns either a new tree or an error, never both).
Tie: family `faults` injects a failure at every Load / KeyCompare call of every operation and
re-reads contents, size and height; the one place where the Go code does NOT follow the
discipline — Delete runs its height reduction after the removal has been installed — is the
known finding listed in known_findings.txt.
-/
namespace Mast.Heap

def allocOnly : List Act → Prop
  | [] => True
  | Act.alloc _ :: rest => allocOnly rest
  | _ :: _ => False

theorem getElem?_append_left' {h ext : Heap} {a : Nat} {nd : MNode} (hx : h[a]? = some nd) :
    (h ++ ext)[a]? = some nd := by
  have hlt : a < h.length := (List.getElem?_eq_some_iff.mp hx).1
  rw [List.getElem?_append_left hlt]; exact hx

theorem contents_append (h ext : Heap) : ∀ (fuel : Nat) (l : HLink) (c : List Tok),
    contents h fuel l = some c → contents (h ++ ext) fuel l = some c := by
  intro fuel
  induction fuel with
  | zero => intro l c hc; cases l <;> simp_all [contents]
  | succ f ih =>
    intro l c hc
    cases l with
    | nil => simpa [contents] using hc
    | ref n => simpa [contents] using hc
    | ptr a =>
      simp only [contents] at hc ⊢
      cases hnd : h[a]? with
      | none => simp [hnd] at hc
      | some nd =>
        simp only [hnd] at hc
        rw [getElem?_append_left' hnd]
        simp only []
        have key : ∀ (ls : List HLink) (cs : List (List Tok)),
            sequenceO (ls.map (contents h f)) = some cs →
            sequenceO (ls.map (contents (h ++ ext) f)) = some cs := by
          intro ls
          induction ls with
          | nil => intro cs h1; simpa [sequenceO] using h1
          | cons x xs ihx =>
            intro cs h1
            simp only [List.map_cons] at h1 ⊢
            cases hx : contents h f x with
            | none => simp [hx, sequenceO] at h1
            | some cx =>
              rw [hx] at h1
              rw [ih x cx hx]
              simp only [sequenceO] at h1 ⊢
              cases hrest : sequenceO (xs.map (contents h f)) with
              | none => simp [hrest] at h1
              | some crest =>
                rw [hrest] at h1
                rw [ihx crest hrest]
                exact h1
        cases hseq : sequenceO (nd.links.map (contents h f)) with
        | none => simp [hseq] at hc
        | some cs =>
          rw [hseq] at hc
          rw [key nd.links cs hseq]
          exact hc

theorem run_allocOnly_append : ∀ (acts : List Act) (h h' : Heap), allocOnly acts → run h acts = some h' →
    ∃ ext, h' = h ++ ext := by
  intro acts
  induction acts with
  | nil => intro h h' _ hr; simp only [run] at hr; injection hr with hr; exact ⟨[], by simp [hr]⟩
  | cons act acts ih =>
    intro h h' ha hr
    cases act with
    | alloc nd =>
      simp only [run] at hr
      cases hs : applyAct h (Act.alloc nd) with
      | none => simp [hs] at hr
      | some h1 =>
        simp only [hs] at hr
        have h1eq : h1 = h ++ [nd] := by
          simp only [applyAct] at hs
          split at hs
          · injection hs with hs; exact hs.symm
          · cases hs
        subst h1eq
        obtain ⟨ext, he⟩ := ih (h ++ [nd]) h' ha hr
        exact ⟨nd :: ext, by simp [he]⟩
    | write m a nd => exact absurd ha (by simp [allocOnly])
    | publish m a links => exact absurd ha (by simp [allocOnly])

/-- a failed operation has only allocated: everything observable is as before -/
theorem C12_allocations_invisible (h h' : Heap) (acts : List Act) (ha : allocOnly acts)
    (hr : run h acts = some h') (fuel : Nat) (l : HLink) (c : List Tok)
    (hc : contents h fuel l = some c) : contents h' fuel l = some c := by
  obtain ⟨ext, rfl⟩ := run_allocOnly_append acts h h' ha hr
  exact contents_append h ext fuel l c hc

/-- non-vacuity: a failed Insert that had copied one node: an allocation-only run that succeeds -/
example :
    let shared : MNode := { keys := [5], vals := [50], links := [.ref 7, .nil], dirty := false, shared := true, owner := 0 }
    let acts : List Act := [.alloc { shared with dirty := true, shared := false, owner := 2 }]
    allocOnly acts ∧ (run [shared] acts).isSome = true ∧ contents [shared] 2 (.ptr 0) ≠ none := by
  refine ⟨trivial, by decide, by decide⟩

end Mast.Heap
#print axioms Mast.Heap.C12_allocations_invisible
