import Mastverif.Lemmas.RefCursor
import Mastverif.Lemmas.RefSeek
import Mastverif.Props.C10O
import Mastverif.Lemmas.RefCursorRetry
/-!
# C12 for navigation and read calls at the level of node objects (property theorems, partial)

"If a … lookup, iteration, … or navigation call returns an error because the store failed to load a
node …, the tree's observable contents, size and height are exactly what they were before the
call, and the same call succeeds with the normal result when retried after the fault has cleared."

For the object-level cursor (`Model/PtrCursor.lean`), `Iter` and `SeekIter`:
* `C12_failed_cursor_move_partial`: a `Forward` / `Backward` that reports an error — a load failing
  at ANY position of its descent — leaves the cursor's path exactly as it was, still denoting the
  same functional path; every tree of the system denotes what it denoted; and the same move,
  retried in the state the failed call left (under any later pattern of faults `E2`), is again a
  correct move from the ORIGINAL position: when it reports no error its path denotes the functional
  cursor's next position.
* `C12_failed_read_partial`: `Iter` and `SeekIter` that return an error have only allocated: every
  tree denotes what it denoted.
* `C12_failed_placement_resumes`: a `Min` / `Max` / `Ceil` that reports an error — a load failing at
  ANY depth of its descent — leaves the path it has walked so far (the Go code does not restore it),
  every tree denotes what it denoted, and the same placement called again on the same cursor (under
  any later pattern of faults `E2`) resumes from there: when it reports no error its path denotes
  exactly the position the uninterrupted placement computes from the ORIGINAL path (`Cursor.min /
  max / ceil`, hence by `C10_walk` the least / greatest / ceiling entry).  Side condition
  `PlaceDone`: the model's loop fuel covers the descent (the Go loops have no fuel).
Partial: failing key comparisons are not modelled (family `faults`).
-/
namespace Mast.Ptr
open Mast.Heap Mast

variable {w : Nat}

theorem C12_failed_cursor_move_partial (E E2 : Env) (g f : Nat) (opath : CPath) (s s1 : PS) (P : Path)
    (mv : CMove) (r : CPath × Bool) (hg : Good s) (hp : PathRep w s g opath P)
    (h : cStep E f opath mv s = .ok r s1) (herr : r.2 = true) :
    r.1 = opath ∧ PathRep w s1 g opath P ∧ Good s1 ∧
    (∀ g2 t2 B, repTree s g2 t2 = some B → FpOwned s.heap t2.id (footprint s g2 t2) →
      repTree s1 g2 t2 = some B ∧ FpOwned s1.heap t2.id (footprint s1 g2 t2)) ∧
    Spec (Grow w) (cStep E2 f opath mv) s1 (MovePost w g opath (Cursor.stepPath f P (toMove mv))) := by
  have hs := cStep_spec (m := w) E g f opath s P mv hg hp
  unfold Spec at hs
  rw [h] at hs
  have hp1 := hp.grow hs.1
  have hg1 := hs.1.good hg
  exact ⟨hs.2.2 herr, hp1, hg1, fun g2 t2 B hB ho => ⟨(hs.1.tree hB ho).1, (hs.1.tree hB ho).2.1⟩,
    cStep_spec E2 g f opath s1 P mv hg1 hp1⟩

theorem C12_failed_read_partial (E : Env) (t : PTree) (f k g : Nat) (s s' : PS) (x : Bool × T × List Nat)
    (hg : Good s) (hx : repLink s.heap s.store g t.root = some x) (hnd : x.2.2.Nodup)
    (hown : FpOwned s.heap t.id x.2.2) (hne : t.root ≠ .nil)
    (h : iterEntries E f t.root s = .err s' ∨ seekIter E t f k s = .err s') :
    Good s' ∧ ∀ g2 t2 B, repTree s g2 t2 = some B → FpOwned s.heap t2.id (footprint s g2 t2) →
      repTree s' g2 t2 = some B ∧ FpOwned s'.heap t2.id (footprint s' g2 t2) := by
  have hgr : Grow t.id s s' := by
    rcases h with h | h
    · have := iterEntries_spec (m := t.id) E f g t.root s hg x hx
      unfold Spec at this; rw [h] at this; exact this
    · have := seekIter_spec E t f k g s x hg hx hnd hown hne
      unfold Spec at this; rw [h] at this; exact this
  exact ⟨hgr.good hg, fun g2 t2 B hB ho => ⟨(hgr.tree hB ho).1, (hgr.tree hB ho).2.1⟩⟩

/-- the model's loop fuel `f` covers the descent of the placement from `P` -/
def PlaceDone (f : Nat) (P : Path) : CPlace → Prop
  | .min => Cursor.MinDoneP f P
  | .max => match P with
      | [] => True
      | (row, _) :: _ => Cursor.MaxDone f row
  | .ceil k => Cursor.CeilDone k f P

def placeFrom (f : Nat) (P : Path) : CPlace → Path
  | .min => Cursor.min f P
  | .max => Cursor.max f P
  | .ceil k => Cursor.ceil k f P

theorem C12_failed_placement_resumes (E E2 : Env) (g f : Nat) (opath : CPath) (s s1 : PS) (P : Path)
    (pl : CPlace) (r : CPath × Bool) (hg : Good s) (hp : PathRep w s g opath P) (hfuel : PlaceDone f P pl)
    (h : cPlace E f opath pl s = .ok r s1) (herr : r.2 = true) :
    Good s1 ∧
    (∀ g2 t2 B, repTree s g2 t2 = some B → FpOwned s.heap t2.id (footprint s g2 t2) →
      repTree s1 g2 t2 = some B ∧ FpOwned s1.heap t2.id (footprint s1 g2 t2)) ∧
    Spec (Grow w) (cPlace E2 f r.1 pl) s1 (NavPost w g (placeFrom f P pl)) := by
  cases pl with
  | min =>
    have hs := cMin_fail (m := w) E g f opath s P hg hp
    simp only [cPlace] at h ⊢
    unfold Spec at hs
    rw [h] at hs
    obtain ⟨P2, hp2, hpar⟩ := hs.2 herr
    have hg1 := hs.1.good hg
    refine ⟨hg1, fun g2 t2 B hB ho => ⟨(hs.1.tree hB ho).1, (hs.1.tree hB ho).2.1⟩, ?_⟩
    have := cMin_spec (m := w) E2 g f r.1 s1 P2 hg1 hp2
    rw [Cursor.min_resume hpar hfuel] at this
    exact this
  | max =>
    simp only [cPlace] at h ⊢
    match opath, P, hp with
    | [], [], _ =>
      simp only [cMax, pure, M.pure] at h
      injection h with h1 h2
      subst h1
      exact nomatch herr
    | (a, i) :: o, (row, j) :: p, hp =>
      have hs := cMax_fail (m := w) E g f _ s row j p hg hp
      unfold Spec at hs
      rw [h] at hs
      obtain ⟨P2, hp2, n2, P3, rfl, hpar⟩ := hs.2 herr
      have hg1 := hs.1.good hg
      refine ⟨hg1, fun g2 t2 B hB ho => ⟨(hs.1.tree hB ho).1, (hs.1.tree hB ho).2.1⟩, ?_⟩
      have := cMax_spec (m := w) E2 g f r.1 s1 _ hg1 hp2
      simp only [Cursor.max] at this
      rw [Cursor.max_resume hpar hfuel] at this
      exact this
  | ceil k =>
    have hs := cCeil_fail (m := w) E g k f opath s P hg hp
    simp only [cPlace] at h ⊢
    unfold Spec at hs
    rw [h] at hs
    obtain ⟨P2, hp2, hpar⟩ := hs.2 herr
    have hg1 := hs.1.good hg
    refine ⟨hg1, fun g2 t2 B hB ho => ⟨(hs.1.tree hB ho).1, (hs.1.tree hB ho).2.1⟩, ?_⟩
    have := cCeil_spec (m := w) E2 g k f r.1 s1 P2 hg1 hp2
    rw [Cursor.ceil_resume hpar hfuel] at this
    exact this

/-- non-vacuity, on tree 2 of the system reached by the history of `Lemmas/RefHistExample.lean`
    (entries 3, 4, 5, 7, 8, partly in the store), with a cold node cache: the placement runs with the `k`-th load failing,
    then again on the path it left; reported: did the first call fail, and the entry the cursor
    shows after the second -/
def hxRetry (pl : CPlace) (k : Nat) : Option (Bool × Option (Nat × Nat)) :=
  hxSys.trees[2]?.bind fun t =>
    match cursorNew hxEnv t 99 10 { hxSys.ps with cache := [] } with
    | .ok (_, path) s0 =>
      match cPlace { hxEnv with failAt := fun n => n == s0.tick + k } 10 path pl s0 with
      | .ok r1 s1 =>
        match cPlace hxEnv 10 r1.1 pl s1 with
        | .ok r2 s2 =>
          match cGet r2.1 s2 with
          | .ok e _ => some (r1.2, e)
          | _ => none
        | _ => none
      | _ => none
    | _ => none

example : hxRetry .min 0 = some (true, some (3, 30)) ∧ hxRetry (.ceil 6) 0 = some (true, some (7, 70)) ∧
    hxRetry .min 1 = some (false, some (3, 30)) ∧ hxRetry .max 0 = some (false, some (8, 80)) := by decide +kernel

end Mast.Ptr
#print axioms Mast.Ptr.C12_failed_placement_resumes
#print axioms Mast.Ptr.C12_failed_cursor_move_partial
#print axioms Mast.Ptr.C12_failed_read_partial
