import Mastverif.Lemmas.RefCursor
import Mastverif.Lemmas.RefSeek
import Mastverif.Props.C10O
/-!
# C12 for navigation and read calls at the level of node objects (property theorems, partial)

"If a … lookup, iteration, … or navigation call returns an error because the store failed to load a
node …, the tree's observable contents, size and height are exactly what they were before the
call, and the same call succeeds with the normal result when retried after the fault has cleared."

For the object-level cursor (`Model/PtrCursor.lean`), `Iter` and `SeekIter`:
* `C12_failed_cursor_move_partial`: a `Forward` / `Backward` that reports an error — a load failing
  at ANY position of its descent — leaves the cursor's path exactly as it was, still denoting the
  same functional path; every tree of the system denotes what it denoted; and the same move,
  retried in the state the failed call left (under any later pattern of faults `E2`), is again a
  correct move from the ORIGINAL position: when it reports no error its path denotes the functional
  cursor's next position.
* `C12_failed_read_partial`: `Iter` and `SeekIter` that return an error have only allocated: every
  tree denotes what it denoted.
Partial: `Min` / `Max` / `Ceil` called directly leave, when they fail, the path walked so far (still
a path that denotes something: `NavPost`); that the retried placement ends where the unfailed one
would is carried by the `faults` family (same cursor driven through faulted calls and retried), not
by a theorem.  Failing key comparisons are not modelled.
-/
namespace Mast.Ptr
open Mast.Heap Mast

variable {w : Nat}

theorem C12_failed_cursor_move_partial (E E2 : Env) (g f : Nat) (opath : CPath) (s s1 : PS) (P : Path)
    (mv : CMove) (r : CPath × Bool) (hg : Good s) (hp : PathRep w s g opath P)
    (h : cStep E f opath mv s = .ok r s1) (herr : r.2 = true) :
    r.1 = opath ∧ PathRep w s1 g opath P ∧ Good s1 ∧
    (∀ g2 t2 B, repTree s g2 t2 = some B → FpOwned s.heap t2.id (footprint s g2 t2) →
      repTree s1 g2 t2 = some B ∧ FpOwned s1.heap t2.id (footprint s1 g2 t2)) ∧
    Spec (Grow w) (cStep E2 f opath mv) s1 (MovePost w g opath (Cursor.stepPath f P (toMove mv))) := by
  have hs := cStep_spec (m := w) E g f opath s P mv hg hp
  unfold Spec at hs
  rw [h] at hs
  have hp1 := hp.grow hs.1
  have hg1 := hs.1.good hg
  exact ⟨hs.2.2 herr, hp1, hg1, fun g2 t2 B hB ho => ⟨(hs.1.tree hB ho).1, (hs.1.tree hB ho).2.1⟩,
    cStep_spec E2 g f opath s1 P mv hg1 hp1⟩

theorem C12_failed_read_partial (E : Env) (t : PTree) (f k g : Nat) (s s' : PS) (x : Bool × T × List Nat)
    (hg : Good s) (hx : repLink s.heap s.store g t.root = some x) (hnd : x.2.2.Nodup)
    (hown : FpOwned s.heap t.id x.2.2) (hne : t.root ≠ .nil)
    (h : iterEntries E f t.root s = .err s' ∨ seekIter E t f k s = .err s') :
    Good s' ∧ ∀ g2 t2 B, repTree s g2 t2 = some B → FpOwned s.heap t2.id (footprint s g2 t2) →
      repTree s' g2 t2 = some B ∧ FpOwned s'.heap t2.id (footprint s' g2 t2) := by
  have hgr : Grow t.id s s' := by
    rcases h with h | h
    · have := iterEntries_spec (m := t.id) E f g t.root s hg x hx
      unfold Spec at this; rw [h] at this; exact this
    · have := seekIter_spec E t f k g s x hg hx hnd hown hne
      unfold Spec at this; rw [h] at this; exact this
  exact ⟨hgr.good hg, fun g2 t2 B hB ho => ⟨(hgr.tree hB ho).1, (hgr.tree hB ho).2.1⟩⟩

end Mast.Ptr
#print axioms Mast.Ptr.C12_failed_cursor_move_partial
#print axioms Mast.Ptr.C12_failed_read_partial
