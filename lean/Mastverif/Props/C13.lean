import Mastverif.Lemmas.Store
import Mastverif.Lemmas.IncrTree
/-!
# C13 — incremental, garbage-free persistence; clean means unchanged (property theorems)

On the flush model `Tree.makeRoot` (its store trace agrees pair by pair with the Store calls of
the Go code: family `persist`):
* `C13_reachable`: every name written is the name of a node of the returned version;
* `C13_noop`: a tree that is not dirty (loaded, just persisted, or a clone of such a tree) writes
  nothing and returns the root it came from;
* `C13_second_flush_writes_nothing`: persisting twice in a row writes nothing the second time;
* `C13_clean_after_flush`: after a flush the tree is clean.
* `C13_clean_means_unchanged`: along any history without a persist, a tree that reports itself
  clean at the end IS the tree the history started from (so its contents equal that version);
* `C13_written_nodes_hold_a_modified_key`: starting from a version with nothing to write (just
  persisted / loaded / empty: `C13_nothing_to_write_when_clean` shows every clean tree reached by
  any history is one), along any history without a persist and without a change of height, every
  node the next flush writes below the top node has one of the modified keys within its closed key
  range (`DR`), i.e. nodes whose range holds no modified key are never rewritten;
* `C13_writes_per_modified_key`: hence the next `MakeRoot` writes at most `2·height` nodes per
  modified key below the top node, plus the top node (≤ `2·height + 2` per key, for any list of
  keys that contains the modified ones — in particular the list without repetitions).
The key ranges are those of the version being written (separators on the node's path).
-/
namespace Mast.Tree
open T

theorem C13_reachable (e : Enc) (m : Tree) :
    ∀ x ∈ (makeRoot e m).1, x.1 ∈ reach e m := by
  intro x hx
  unfold makeRoot at hx
  unfold reach
  split at hx
  · simp at hx
  · next hne =>
    split at hx
    · simp at hx
    · simp only [hne, Bool.false_eq_true, if_false]
      simp only [List.mem_append, List.mem_singleton] at hx
      rcases hx with hx | rfl
      · exact List.mem_cons_of_mem _ (storesBelow_sub_reach e m.root x hx)
      · simp

theorem C13_names (e : Enc) (m : Tree) : ∀ x ∈ (makeRoot e m).1, x.1 = e.hash x.2 := by
  intro x hx
  unfold makeRoot at hx
  split at hx
  · simp at hx
  · split at hx
    · simp at hx
    · simp only [List.mem_append, List.mem_singleton] at hx
      rcases hx with hx | rfl
      · exact storesBelow_named e m.root x hx
      · rfl

theorem C13_noop (e : Enc) (m : Tree) (hclean : m.dirty = false) : (makeRoot e m).1 = [] := by
  unfold makeRoot
  split
  · rfl
  · simp [hclean]

theorem C13_clean_after_flush (e : Enc) (m : Tree) (hd : m.dirty = true) :
    (makeRoot e m).2.2.dirty = false := by
  unfold makeRoot
  split
  · rfl
  · simp [hd]

theorem C13_second_flush_writes_nothing (e : Enc) (m : Tree) :
    (makeRoot e (makeRoot e m).2.2).1 = [] := by
  by_cases hd : m.dirty = true
  · exact C13_noop e _ (C13_clean_after_flush e m hd)
  · have hd' : m.dirty = false := by simpa using hd
    apply C13_noop
    unfold makeRoot
    split
    · rfl
    · simp [hd']

/-- same root: a clean tree's root is the name of its top node, before and after -/
theorem C13_noop_same_root (e : Enc) (m : Tree) (hclean : m.dirty = false) :
    (makeRoot e (makeRoot e m).2.2).2.1 = (makeRoot e m).2.1 := by
  unfold makeRoot
  split
  · simp [*]
  · next hne => simp [hclean, hne]

variable (layer : Nat → Nat)

theorem C13_clean_means_unchanged (e : Enc) (ops : List Op) (m : Tree)
    (hp : ∀ op ∈ ops, isPersist op = false) (hc : (execT layer e m ops).dirty = false) :
    execT layer e m ops = m := clean_unchanged layer e ops m hp hc

/-- a clean tree has nothing to write -/
def CleanOK (m : Tree) : Prop := m.dirty = false → DR [] none none m.root

theorem cleanOK_step (e : Enc) (m : Tree) (op : Op) (h : CleanOK m) : CleanOK (stepT layer e m op).1 := by
  by_cases hp : isPersist op = true
  · cases op <;> simp [isPersist] at hp
    simp only [stepT]
    intro _
    unfold makeRoot
    split
    · next he =>
      have : ∃ q, m.root = last q nil := by
        unfold isEmptyTop at he; split at he <;> simp_all
      obtain ⟨q, hq⟩ := this
      simp only [hq]; exact Or.inl rfl
    · split
      · next hd => exact h (by simpa using hd)
      · simp only; exact allP_DR [] _ none none (allP_persistAll m.root)
  · have hp' : isPersist op = false := by simpa using hp
    intro hc
    rcases step_dirty layer e m op hp' with h1 | h1
    · rw [h1] at hc ⊢; exact h hc
    · rw [h1] at hc; cases hc

/-- every clean tree reached by any history from the empty tree has nothing to write -/
theorem C13_nothing_to_write_when_clean (e : Enc) : ∀ (ops : List Op) (m : Tree), CleanOK m →
    CleanOK (execT layer e m ops) := by
  intro ops
  induction ops with
  | nil => intro m h; exact h
  | cons op ops ih => intro m h; exact ih _ (cleanOK_step layer e m op h)

theorem cleanOK_empty (bf : Nat) : CleanOK (Tree.empty bf) := fun _ => Or.inl rfl

/-- **only nodes whose key range holds a modified key are written** -/
theorem C13_written_nodes_hold_a_modified_key (e : Enc) (m : Tree) (ops : List Op) (hi : Inv layer m)
    (hc : m.dirty = false) (hk : CleanOK m) (hp : ∀ op ∈ ops, isPersist op = false)
    (hh : heightsSame layer e m ops) :
    DR (modKeys ops) none none (execT layer e m ops).root := by
  simpa using exec_DR layer e ops m [] hi (hk hc) hp hh

/-- **at most 2·height nodes per modified key, plus the top node** -/
theorem C13_writes_per_modified_key (e : Enc) (m : Tree) (ops : List Op) (hi : Inv layer m)
    (hc : m.dirty = false) (hk : CleanOK m) (hp : ∀ op ∈ ops, isPersist op = false)
    (hh : heightsSame layer e m ops) (M : List Nat) (hM : ∀ k ∈ modKeys ops, k ∈ M) :
    (makeRoot e (execT layer e m ops)).1.length ≤ M.length * (2 * (execT layer e m ops).height) + 1 := by
  have hd := C13_written_nodes_hold_a_modified_key layer e m ops hi hc hk hp hh
  exact makeRoot_count layer e _ M (inv_execT layer e ops m hi) (DR_mono hM _ _ _ hd)

/-- non-vacuity: one insert into a persisted two-level tree dirties the path only -/
example : (T.cntD (cons false (cons false nil 2 0 (last false nil)) 4 0 (last true (cons true nil 7 0 (last true nil))))) = 1 := by
  decide

end Mast.Tree
#print axioms Mast.Tree.C13_clean_means_unchanged
#print axioms Mast.Tree.C13_nothing_to_write_when_clean
#print axioms Mast.Tree.C13_written_nodes_hold_a_modified_key
#print axioms Mast.Tree.C13_writes_per_modified_key
#print axioms Mast.Tree.C13_reachable
#print axioms Mast.Tree.C13_names
#print axioms Mast.Tree.C13_noop
#print axioms Mast.Tree.C13_clean_after_flush
#print axioms Mast.Tree.C13_second_flush_writes_nothing
#print axioms Mast.Tree.C13_noop_same_root
