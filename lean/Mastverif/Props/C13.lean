import Mastverif.Lemmas.Store
/-!
# C13 — incremental, garbage-free persistence; clean means unchanged (property theorems)

On the flush model `Tree.makeRoot` (its store trace agrees pair by pair with the Store calls of
the Go code: family `persist`):
* `C13_reachable`: every name written is the name of a node of the returned version;
* `C13_noop`: a tree that is not dirty (loaded, just persisted, or a clone of such a tree) writes
  nothing and returns the root it came from;
* `C13_second_flush_writes_nothing`: persisting twice in a row writes nothing the second time;
* `C13_clean_after_flush`: after a flush the tree is clean.
The per-key bounds (rewrites only along modified key ranges, at most 2·height+2 nodes per
modified key) and "clean ⇒ contents unchanged" are checked on the implementation by the
`persist` family's oracle (decoded base version, key ranges, modified-key sets); their model
proofs are on the work list in DESIGN.md.
-/
namespace Mast.Tree
open T

theorem C13_reachable (e : Enc) (m : Tree) :
    ∀ x ∈ (makeRoot e m).1, x.1 ∈ reach e m := by
  intro x hx
  unfold makeRoot at hx
  unfold reach
  split at hx
  · simp at hx
  · next hne =>
    split at hx
    · simp at hx
    · simp only [hne, Bool.false_eq_true, if_false]
      simp only [List.mem_append, List.mem_singleton] at hx
      rcases hx with hx | rfl
      · exact List.mem_cons_of_mem _ (storesBelow_sub_reach e m.root x hx)
      · simp

theorem C13_names (e : Enc) (m : Tree) : ∀ x ∈ (makeRoot e m).1, x.1 = e.hash x.2 := by
  intro x hx
  unfold makeRoot at hx
  split at hx
  · simp at hx
  · split at hx
    · simp at hx
    · simp only [List.mem_append, List.mem_singleton] at hx
      rcases hx with hx | rfl
      · exact storesBelow_named e m.root x hx
      · rfl

theorem C13_noop (e : Enc) (m : Tree) (hclean : m.dirty = false) : (makeRoot e m).1 = [] := by
  unfold makeRoot
  split
  · rfl
  · simp [hclean]

theorem C13_clean_after_flush (e : Enc) (m : Tree) (hd : m.dirty = true) :
    (makeRoot e m).2.2.dirty = false := by
  unfold makeRoot
  split
  · rfl
  · simp [hd]

theorem C13_second_flush_writes_nothing (e : Enc) (m : Tree) :
    (makeRoot e (makeRoot e m).2.2).1 = [] := by
  by_cases hd : m.dirty = true
  · exact C13_noop e _ (C13_clean_after_flush e m hd)
  · have hd' : m.dirty = false := by simpa using hd
    apply C13_noop
    unfold makeRoot
    split
    · rfl
    · simp [hd']

/-- same root: a clean tree's root is the name of its top node, before and after -/
theorem C13_noop_same_root (e : Enc) (m : Tree) (hclean : m.dirty = false) :
    (makeRoot e (makeRoot e m).2.2).2.1 = (makeRoot e m).2.1 := by
  unfold makeRoot
  split
  · simp [*]
  · next hne => simp [hclean, hne]

end Mast.Tree
#print axioms Mast.Tree.C13_reachable
#print axioms Mast.Tree.C13_names
#print axioms Mast.Tree.C13_noop
#print axioms Mast.Tree.C13_clean_after_flush
#print axioms Mast.Tree.C13_second_flush_writes_nothing
#print axioms Mast.Tree.C13_noop_same_root
