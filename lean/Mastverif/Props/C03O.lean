import Mastverif.Lemmas.RefFlush
import Mastverif.Lemmas.RefLoad
import Mastverif.Lemmas.RefHistExample
/-!
# C03 at the level of node objects: the returned root is complete IN THE STORE

`flush_refines` (Lemmas/RefFlush.lean) relates `MakeRoot` at the level of node objects — `node.store`
with the commit closures, content names interned in the store — to the functional tree.  Here is
its consequence in C03's terms: when `MakeRoot` succeeds with a non-empty version, the returned
name denotes the whole persisted tree FROM THE STORE ALONE (`repLink [] store`: the heap plays no
part), i.e. every node reachable from the returned root is in the store when the call returns — for
any state of the heap, flags, cache, any sharing with other trees; and every name stored before
still denotes what it denoted.  (The concurrency of the writes and their failures are the subject
of `Props/C03.lean`'s pool model and of family `flush`; the object-level model writes sequentially.)
-/
namespace Mast.Ptr
open Mast.Heap Mast

theorem C03_object_level_returned_root_is_complete (E : Env) (t t' : PTree) (fuel g n : Nat) (s s' : PS) (A : Tree)
    (hg : Good s) (hsrc : SourceOK s) (hsd : StoreDen s.store) (hown : FpOwned s.heap t.id (footprint s g t))
    (hA : repTree s g t = some A) (h : flush E t fuel s = .ok (t', n) s') (hn : n ≠ 0) :
    repLink [] s'.store g (.ref n) = some (true, persistT A.root, []) ∧
    (persistT A.root).toList = A.root.toList ∧ StoreDen s'.store ∧ (∃ ext, s'.store = s.store ++ ext) := by
  obtain ⟨hg', _, hsd', hw, hok⟩ := flush_refines E t t' fuel g n s s' A hg hsrc hsd hown hA h
  rcases hok with ⟨h0, _⟩ | ⟨_, _, _, _, _, hrep⟩
  · exact absurd h0 hn
  · exact ⟨repLink_flat_heap hg'.flat g (.ref n) _ rfl hrep, persistT_toList _, hsd', hw.store⟩

/-- non-vacuity (kernel-checked): in the system reached by `hxOps` the persisted trees 1 and 2 are held
    by names that denote their entries from the store alone (empty heap) -/
example : (hxSys.trees[1]?.bind fun t => (repLink [] hxSys.ps.store 10 t.root).map fun x => x.2.1.toList) =
      some [(3, 30), (4, 40), (5, 50), (6, 60), (8, 80)] ∧
    (hxSys.trees[2]?.bind fun t => (repLink [] hxSys.ps.store 10 t.root).map fun x => x.2.1.toList) =
      some [(3, 30), (4, 40), (5, 50), (7, 70), (8, 80)] := by decide +kernel

end Mast.Ptr
#print axioms Mast.Ptr.C03_object_level_returned_root_is_complete
