import Mastverif.Lemmas.History
/-!
# C09 — Merkle-search-tree shape of every persisted version (property theorems)

`WF layer d t` (Lemmas/WF.lean) is the shape of the property: a child exists only one level
down (no node below level 0, level-0 nodes childless), the keys of a node at level d have
layer ≥ d while every key below one of its child links has layer < d (so exactly d below the
top; the top node also holds the higher layers), a node is a row of n entries and n+1 child
slots by construction, and a child link never leads to an entry-less childless node (only
pass-through nodes are entry-less).  With `Sorted` (strictly ascending in-order traversal:
every key below a child lies strictly between the neighbouring keys) and `size = number of
entries` this is `Tree.Inv`.
`C09_shape_every_history`: the invariant holds after EVERY history of inserts, updates, deletes
and persists from the empty tree, for every layer function (adversarial user `Key` types
included) and every branch factor ≥ 2; `C09_persisted_shape`: flushing changes nothing about
it.  Tie: family `persist` decodes every stored node with the harness's own decoders and
evaluates the same invariants on the implementation, and compares the decoded graph with the
model's tree.
-/
namespace Mast.Tree
open T

variable (layer : Nat → Nat)

theorem C09_shape_every_history (e : Enc) (bf : Nat) (hbf : 2 ≤ bf) (ops : List Op) :
    let m := execT layer e (Tree.empty bf) ops
    WF layer m.height m.root ∧ Sorted m.toList ∧ m.size = m.toList.length := by
  have := inv_execT layer e ops (Tree.empty bf) (inv_empty layer bf hbf)
  exact ⟨this.wf, this.sorted, this.size⟩

theorem C09_shape_preserved (e : Enc) (m : Tree) (op : Op) (hi : Inv layer m) :
    Inv layer (stepT layer e m op).1 := (step_refines layer e m op hi).2.1

theorem C09_persisted_shape (e : Enc) (m : Tree) (hi : Inv layer m) :
    let p := (makeRoot e m).2.2
    WF layer p.height p.root ∧ Sorted p.toList ∧ p.size = p.toList.length ∧
    (makeRoot e m).2.1.size = p.size ∧ (makeRoot e m).2.1.height = p.height := by
  have h := (inv_makeRoot layer e m hi).1
  refine ⟨h.wf, h.sorted, h.size, ?_, ?_⟩
  · unfold makeRoot
    split
    · rfl
    · split <;> rfl
  · unfold makeRoot
    split
    · rfl
    · split <;> rfl

theorem C09_split_shape (t : T) (d x : Nat) (h : WF layer d t) :
    WF layer d (split t x).1 ∧ WF layer d (split t x).2 := split_WF layer t d x h

theorem C09_shape_ignores_residency (t : T) (d : Nat) :
    WF layer d (erase t) ↔ WF layer d t := WF_erase layer t d

/-- non-vacuity: a three-level tree with a pass-through node, layers = k % 4 -/
example : WF (fun k => k % 4) 2
    (cons false (last false (cons false nil 4 0 (last false nil))) 6 0 (last false nil)) := by
  simp [WF, isEmptyRow, T.toList]

end Mast.Tree
#print axioms Mast.Tree.C09_shape_every_history
#print axioms Mast.Tree.C09_shape_preserved
#print axioms Mast.Tree.C09_persisted_shape
#print axioms Mast.Tree.C09_split_shape
#print axioms Mast.Tree.C09_shape_ignores_residency
