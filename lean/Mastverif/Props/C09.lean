import Mastverif.Lemmas.WF
/-!
# C09 — Merkle-search-tree shape of persisted versions (property theorems, in progress)

`WF layer d t` (Lemmas/WF.lean) is the shape of the property: no node below level 0 (a child
needs `d = d'+1`), level-0 nodes childless, keys of level d have layer ≥ d and the keys below a
child have layer < d (so exactly d below the top), n+1 child slots by construction of rows,
no entry-less node except pass-through.  Proved so far: it is preserved by `split`
(`C09_split_shape`), established by the fresh chain Insert creates under an absent link
(`C09_fresh_chain_shape`), and independent of residency (`C09_shape_ignores_residency`).
Preservation by the complete insert / delete / grow / shrink and the history theorem are on
the work list; the tie (family `persist`) decodes every stored node and evaluates the
invariants on the implementation after every MakeRoot.
-/
namespace Mast.T

theorem C09_split_shape (layer : Nat → Nat) (t : T) (d x : Nat) (h : WF layer d t) :
    WF layer d (split t x).1 ∧ WF layer d (split t x).2 := split_WF layer t d x h

theorem C09_fresh_chain_shape (layer : Nat → Nat) (k v s tgt : Nat) (h1 : tgt ≤ layer k)
    (h2 : layer k ≤ tgt ∨ s = 0) : WF layer (tgt + s) (freshPath s k v) :=
  freshPath_WF layer k v s tgt h1 h2

theorem C09_shape_ignores_residency (layer : Nat → Nat) (t : T) (d : Nat) :
    WF layer d (erase t) ↔ WF layer d t := WF_erase layer t d

end Mast.T
#print axioms Mast.T.C09_split_shape
#print axioms Mast.T.C09_fresh_chain_shape
#print axioms Mast.T.C09_shape_ignores_residency
