import Mastverif.Lemmas.RefTickAll
import Mastverif.Lemmas.RefTickCursor
import Mastverif.Lemmas.RefTickWF
import Mastverif.Lemmas.RefCursor
/-!
# C16 at the level of node objects (property theorems)

`Props/C16.lean` bounds separate load-trace functions of the functional model.  Here the bounds
are proved of the object-level programs themselves (`Model/Ptr.lean`), as bounds on the counter
`PS.tick`, which `loadRef` increments exactly when a name is not served by the node cache —
also when that load fails.  The `ptr` family compares `tick` with the number of `Persist.Load`
calls the real store has seen after every operation.

* `C16_object_level_open`, `_clone`, `_persist`: at most ONE load — in every state, with or without
  cache, under any fault oracle, for both outcomes `ok` and `err`;
* `C16_object_level_lookup`: at most `height + 1` (sharper: `1 + (height - layer key)`), no hypothesis;
* `C16_object_level_insert`: at most `height + 1` — for EVERY outcome, also when the tree grows —
  under a cache invariant and a bound on the depth of what hangs below the root (`DepthLe`; implied
  by `repTree` + `Tree.Inv`: `C16_object_level_insert_wf`).  Without a depth bound it is false
  (`Lemmas/RefTickExample.lean`, kernel-checked: a height-2 root opened with `height := 0`);
* `C16_object_level_delete`: a successful delete that does not change the height: at most
  `1 + height + min (layer key) height ≤ 2·(height+1)`.  For a FAILED delete the bound is false when
  the failure is in the height reduction (kernel-checked witness: 6 loads against 4): the
  reduction had already loaded the children of the top node — the property's own exception;
* `C16_driver_insert / _delete`: the same for `insertGo` / `deleteGo`, which the driver runs;
* `C16_object_level_history`: every history that builds its trees from scratch (any inserts,
  deletes, lookups, iterations, persists, clones; cache on or off; any faults; any fuel) performs
  at most the sum of the per-call budgets (`opBudget`: insert / lookup `height+1`, persist / clone /
  open 1, a successful delete at unchanged height `2·height+1`, iteration and height-changing or
  failed deletes what they cost).
-/
namespace Mast.Ptr
open Mast.Heap

theorem C16_object_level_open (E : Env) (id link size height bf : Nat) (s : PS) :
    (∀ t s', loadMast E id link size height bf s = .ok t s' → s'.tick ≤ s.tick + 1) ∧
    (∀ s', loadMast E id link size height bf s = .err s' → s'.tick ≤ s.tick + 1) :=
  loadMast_tick E id link size height bf s

theorem C16_object_level_clone (E : Env) (t : PTree) (newId fuel : Nat) (s : PS) :
    (∀ t' s', clone E t newId fuel s = .ok t' s' → s'.tick ≤ s.tick + 1) ∧
    (∀ s', clone E t newId fuel s = .err s' → s'.tick ≤ s.tick + 1) :=
  clone_tick E t newId fuel s

theorem C16_object_level_persist (E : Env) (t : PTree) (fuel : Nat) (s : PS) :
    (∀ r s', flush E t fuel s = .ok r s' → s'.tick ≤ s.tick + 1) ∧
    (∀ s', flush E t fuel s = .err s' → s'.tick ≤ s.tick + 1) :=
  flush_tick E t fuel s

theorem C16_object_level_lookup (E : Env) (t : PTree) (fuel key : Nat) (s : PS) :
    (∀ r s', get E t fuel key s = .ok r s' → s'.tick ≤ s.tick + t.height + 1) ∧
    (∀ s', get E t fuel key s = .err s' → s'.tick ≤ s.tick + t.height + 1) :=
  get_tick E t fuel key s

theorem C16_object_level_lookup_by_layer (E : Env) (t : PTree) (fuel key : Nat) (s : PS) :
    (∀ r s', get E t fuel key s = .ok r s' → s'.tick ≤ s.tick + 1 + (t.height - E.layer key)) ∧
    (∀ s', get E t fuel key s = .err s' → s'.tick ≤ s.tick + 1 + (t.height - E.layer key)) :=
  get_tick_layer E t fuel key s

theorem C16_object_level_insert (E : Env) (fuel : Nat) (s s' : PS) (t t' : PTree) (key val : Nat) (o : Outcome)
    (hc : CacheS s) (hd : DepthLe s.heap s.store (t.height + 1) t.root)
    (h : insert E fuel s t key val = (s', t', o)) : s'.tick ≤ s.tick + t.height + 1 :=
  insert_tick E fuel s s' t t' key val o hc hd h

theorem C16_object_level_insert_wf (E : Env) (fuel g : Nat) (s s' : PS) (t t' : PTree) (key val : Nat) (o : Outcome)
    (A : Tree) (hg : Good s) (hA : repTree s g t = some A) (hi : Tree.Inv E.layer A)
    (h : insert E fuel s t key val = (s', t', o)) : s'.tick ≤ s.tick + t.height + 1 :=
  insert_tick_inv E fuel g s s' t t' key val o A hg hA hi h

theorem C16_object_level_delete (E : Env) (fuel : Nat) (s s' : PS) (t t' : PTree) (key val : Nat)
    (hc : CacheS s) (hd : DepthLe s.heap s.store (t.height + 1) t.root)
    (h : delete E fuel s t key val = (s', t', .ok)) (hh : t'.height = t.height) :
    s'.tick ≤ s.tick + (1 + t.height + min (E.layer key) t.height) ∧ s'.tick ≤ s.tick + 2 * (t.height + 1) :=
  ⟨delete_tick E fuel s s' t t' key val hc hd h hh, delete_tick' E fuel s s' t t' key val hc hd h hh⟩

theorem C16_object_level_delete_wf (E : Env) (fuel g : Nat) (s s' : PS) (t t' : PTree) (key val : Nat) (A : Tree)
    (hg : Good s) (hA : repTree s g t = some A) (hi : Tree.Inv E.layer A)
    (h : delete E fuel s t key val = (s', t', .ok)) (hh : t'.height = t.height) :
    s'.tick ≤ s.tick + 2 * (t.height + 1) :=
  delete_tick_inv E fuel g s s' t t' key val A hg hA hi h hh

theorem C16_driver_insert (E : Env) (fuel : Nat) (s s' : PS) (t t' : PTree) (key val : Nat) (o : Outcome)
    (hc : CacheS s) (hd : DepthLe s.heap s.store (t.height + 1) t.root)
    (h : insertGo E fuel s t key val = (s', t', o)) (ho : o = .ok ∨ o = .err) :
    s'.tick ≤ s.tick + t.height + 1 :=
  insertGo_tick E fuel s s' t t' key val o hc hd h ho

theorem C16_driver_delete (E : Env) (fuel : Nat) (s s' : PS) (t t' : PTree) (key val : Nat)
    (hc : CacheS s) (hd : DepthLe s.heap s.store (t.height + 1) t.root)
    (h : deleteGo E fuel s t key val = (s', t', .ok)) (hh : t'.height = t.height) :
    s'.tick ≤ s.tick + (1 + t.height + min (E.layer key) t.height) :=
  deleteGo_tick E fuel s s' t t' key val hc hd h hh

theorem C16_object_level_history (E : Env) (fuel : Nat) (ops : List Op) (uc : Bool) (nid : Nat)
    (hops : ∀ op ∈ ops, OpCovered op) (hl : ∀ op ∈ ops, ∀ l sz ht b, op = .load l sz ht b → l = 0) :
    (Sys.run E fuel { ps := { useCache := uc }, nextId := nid } ops).1.ps.tick ≤
      Sys.budget E fuel { ps := { useCache := uc }, nextId := nid } ops :=
  Sys.run_tick_scratch E fuel ops uc nid hops hl

/-! ## cursor calls (`Model/PtrCursor.lean`)

`PathD s H path`: every node object on the cursor's path is at most `H + 1` levels deep — which
holds of the path `Cursor()` returns on a tree that denotes a well-formed tree of height `H`
(`C16_object_level_cursor_path_wf`) and is kept by every call.  Then, for every outcome that
carries a state, with a node cache or none, under any fault oracle: -/

/-- `Cursor()` reads at most one node (the top node, when the root is a name) -/
theorem C16_object_level_cursor_open (E : Env) (t : PTree) (newId fuel : Nat) (s : PS) :
    (∀ r s', cursorNew E t newId fuel s = .ok r s' → s'.tick ≤ s.tick + 1) ∧
    (∀ s', cursorNew E t newId fuel s = .err s' → s'.tick ≤ s.tick + 1) :=
  (cursorNew_ts E t newId fuel s).bounds

/-- a placement (`Min` / `Max` / `Ceil`) reads at most one node per level below the top: `≤ H` -/
theorem C16_object_level_cursor_place (E : Env) (H f : Nat) (path : CPath) (pl : CPlace) (s : PS)
    (hc : CacheS s) (hp : PathD s H path) :
    (∀ r s', cPlace E f path pl s = .ok r s' → s'.tick ≤ s.tick + H ∧ PathD s' H r.1 ∧ CacheS s') ∧
    (∀ s', cPlace E f path pl s = .err s' → s'.tick ≤ s.tick + H) := by
  have h := cPlace_ts E H f path pl s hc hp
  exact ⟨fun r s' hok => ⟨(h.ok hok).1, (h.ok hok).2.2, (h.ok hok).2.1.cache hc⟩, fun s' herr => h.err herr⟩

/-- a `Forward` / `Backward` step from ANY position reads at most `H` nodes — never a number
    proportional to the tree -/
theorem C16_object_level_cursor_step (E : Env) (H f : Nat) (path : CPath) (mv : CMove) (s : PS)
    (hc : CacheS s) (hp : PathD s H path) :
    (∀ r s', cStep E f path mv s = .ok r s' → s'.tick ≤ s.tick + H ∧ PathD s' H r.1 ∧ CacheS s') ∧
    (∀ s', cStep E f path mv s = .err s' → s'.tick ≤ s.tick + H) := by
  have h := cStep_ts E H f path mv s hc hp
  exact ⟨fun r s' hok => ⟨(h.ok hok).1, (h.ok hok).2.2, (h.ok hok).2.1.cache hc⟩, fun s' herr => h.err herr⟩

/-- `Get` reads nothing from the store -/
theorem C16_object_level_cursor_get (path : CPath) (s : PS) :
    ∀ r s', cGet path s = .ok r s' → s' = s :=
  fun _ _ hok => ((cGet_ts path s).ok hok).2.2

/-- a walk of `n` moves: at most `n · H` reads -/
theorem C16_object_level_cursor_walk (E : Env) (H f : Nat) (ms : List CMove) (path : CPath) (s : PS)
    (hc : CacheS s) (hp : PathD s H path) :
    (∀ r s', cWalk E f ms path s = .ok r s' → s'.tick ≤ s.tick + ms.length * H) ∧
    (∀ s', cWalk E f ms path s = .err s' → s'.tick ≤ s.tick + ms.length * H) :=
  (cWalk_ts E H f ms path s hc hp).bounds

/-- the hypothesis is met by the path of a fresh cursor on a tree whose top node denotes a
    well-formed row of height `H` -/
theorem C16_object_level_cursor_path_wf (layer : Nat → Nat) {w : Nat} (s : PS) (g a H : Nat) (root : T)
    (hn : NodeRep w s g a root) (hw : T.WF layer H root) : PathD s H [(a, 0)] := by
  intro x hx
  rcases List.mem_cons.mp hx with rfl | hx
  · obtain ⟨fp, h, _, _⟩ := hn
    exact depthLe_of_wf layer g (.ptr a) _ H h (Or.inr hw)
  · cases hx

end Mast.Ptr
#print axioms Mast.Ptr.C16_object_level_open
#print axioms Mast.Ptr.C16_object_level_clone
#print axioms Mast.Ptr.C16_object_level_persist
#print axioms Mast.Ptr.C16_object_level_lookup
#print axioms Mast.Ptr.C16_object_level_lookup_by_layer
#print axioms Mast.Ptr.C16_object_level_insert
#print axioms Mast.Ptr.C16_object_level_insert_wf
#print axioms Mast.Ptr.C16_object_level_delete
#print axioms Mast.Ptr.C16_object_level_delete_wf
#print axioms Mast.Ptr.C16_driver_insert
#print axioms Mast.Ptr.C16_driver_delete
#print axioms Mast.Ptr.C16_object_level_history
#print axioms Mast.Ptr.C16_object_level_cursor_open
#print axioms Mast.Ptr.C16_object_level_cursor_place
#print axioms Mast.Ptr.C16_object_level_cursor_step
#print axioms Mast.Ptr.C16_object_level_cursor_get
#print axioms Mast.Ptr.C16_object_level_cursor_walk
#print axioms Mast.Ptr.C16_object_level_cursor_path_wf
