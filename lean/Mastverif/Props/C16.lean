import Mastverif.Lemmas.Loads
import Mastverif.Lemmas.History
/-!
# C16 — point operations read only the search path (property theorems)

`lookupLoads` / `insertLoads` / `deleteLoads` are the load traces of the model (they agree
name by name with what the Go code passes to `Persist.Load`: family `reads`).  For a
well-formed tree of height `h`:
* a lookup reads at most `h + 1` nodes;
* an insert (new key, update or equal value) reads at most `h + 1` nodes — better than the
  `2·(h+1)` the property allows;
* the descent and merge part of a delete reads at most `2·h + 1 ≤ 2·(h+1)` nodes (the loads of
  a height reduction are excluded by the property: "that does not change the height");
* opening and cloning read at most the top node (`rootLoad`).
-/
namespace Mast.Tree
open T

theorem rootLoad_le (m : Tree) : m.rootLoad.length ≤ 1 := by
  unfold rootLoad; split <;> simp

theorem C16_open_clone (m : Tree) : m.rootLoad.length ≤ 1 := rootLoad_le m

theorem C16_get (layer : Nat → Nat) (m : Tree) (k : Nat) (hwf : WF layer m.height m.root) :
    (m.lookupLoads layer k).length ≤ m.height + 1 := by
  unfold lookupLoads
  have h1 := rootLoad_le m
  have h2 := getLoads_le k m.root (m.levels layer k)
  have h3 := lvl_le_of_WF layer m.root m.height hwf
  simp only [List.length_append]; omega

theorem C16_insert (layer : Nat → Nat) (m : Tree) (k : Nat) (hwf : WF layer m.height m.root) :
    (m.insertLoads layer k).length ≤ m.height + 1 := by
  unfold insertLoads
  have h1 := rootLoad_le m
  have h2 := insLoads_le k m.root (m.levels layer k)
  have h3 := lvl_le_of_WF layer m.root m.height hwf
  simp only [List.length_append]; omega

/-- descent + merge spine of a delete (what remains when the height does not change) -/
theorem C16_delete (layer : Nat → Nat) (m : Tree) (k : Nat) (hwf : WF layer m.height m.root) :
    (m.rootLoad ++ delLoads k (m.levels layer k) m.root).length ≤ 2 * (m.height + 1) := by
  have h1 := rootLoad_le m
  have h2 := delLoads_le k m.root (m.levels layer k)
  have h3 := lvl_le_of_WF layer m.root m.height hwf
  simp only [List.length_append]; omega

/-- the bounds hold on every tree any history produces (from the empty tree, any branch factor ≥ 2,
    any layer function), whatever part of it is persisted -/
theorem C16_every_history (layer : Nat → Nat) (e : Enc) (bf : Nat) (hbf : 2 ≤ bf) (ops : List Op) (k : Nat) :
    let m := execT layer e (Tree.empty bf) ops
    (m.lookupLoads layer k).length ≤ m.height + 1 ∧ (m.insertLoads layer k).length ≤ m.height + 1 ∧
    (m.rootLoad ++ delLoads k (m.levels layer k) m.root).length ≤ 2 * (m.height + 1) := by
  have hi := inv_execT layer e ops (Tree.empty bf) (inv_empty layer bf hbf)
  exact ⟨C16_get layer _ k hi.wf, C16_insert layer _ k hi.wf, C16_delete layer _ k hi.wf⟩

/-- non-vacuity: a persisted two-level tree -/
example : WF (fun k => k % 2) 1
    (cons true (cons true nil 2 0 (last true nil)) 3 0 (last true (cons true nil 4 0 (last true nil)))) := by
  simp [WF, isEmptyRow, T.toList]

end Mast.Tree
#print axioms Mast.Tree.C16_open_clone
#print axioms Mast.Tree.C16_get
#print axioms Mast.Tree.C16_insert
#print axioms Mast.Tree.C16_delete
#print axioms Mast.Tree.C16_every_history
