import Mastverif.Lemmas.Loads
import Mastverif.Lemmas.History
import Mastverif.Lemmas.CursorLoads
/-!
# C16 — point operations read only the search path (property theorems)

`lookupLoads` / `insertLoads` / `deleteLoads` are the load traces of the model (they agree
name by name with what the Go code passes to `Persist.Load`: family `reads`).  For a
well-formed tree of height `h`:
* a lookup reads at most `h + 1` nodes;
* an insert (new key, update or equal value) reads at most `h + 1` nodes — better than the
  `2·(h+1)` the property allows;
* the descent and merge part of a delete reads at most `2·h + 1 ≤ 2·(h+1)` nodes (the loads of
  a height reduction are excluded by the property: "that does not change the height");
* opening and cloning read at most the top node (`rootLoad`);
* navigation (the property's catch-all clause): after any placement and any walk, a further
  `Forward` / `Backward` step reads at most `h` nodes (`C16_cursor_step`), and a `Ceil` placement
  reads at most `h` nodes below the top node that `Cursor()` loaded (`C16_ceil`) — never a number
  proportional to the tree.  `newLoads` / `ceilLoads` agree name by name with the Go code's loads
  (family `reads`, ops `cl …`).
-/
namespace Mast.Tree
open T

theorem rootLoad_le (m : Tree) : m.rootLoad.length ≤ 1 := by
  unfold rootLoad; split <;> simp

theorem C16_open_clone (m : Tree) : m.rootLoad.length ≤ 1 := rootLoad_le m

theorem C16_get (layer : Nat → Nat) (m : Tree) (k : Nat) (hwf : WF layer m.height m.root) :
    (m.lookupLoads layer k).length ≤ m.height + 1 := by
  unfold lookupLoads
  have h1 := rootLoad_le m
  have h2 := getLoads_le k m.root (m.levels layer k)
  have h3 := lvl_le_of_WF layer m.root m.height hwf
  simp only [List.length_append]; omega

theorem C16_insert (layer : Nat → Nat) (m : Tree) (k : Nat) (hwf : WF layer m.height m.root) :
    (m.insertLoads layer k).length ≤ m.height + 1 := by
  unfold insertLoads
  have h1 := rootLoad_le m
  have h2 := insLoads_le k m.root (m.levels layer k)
  have h3 := lvl_le_of_WF layer m.root m.height hwf
  simp only [List.length_append]; omega

/-- descent + merge spine of a delete (what remains when the height does not change) -/
theorem C16_delete (layer : Nat → Nat) (m : Tree) (k : Nat) (hwf : WF layer m.height m.root) :
    (m.rootLoad ++ delLoads k (m.levels layer k) m.root).length ≤ 2 * (m.height + 1) := by
  have h1 := rootLoad_le m
  have h2 := delLoads_le k m.root (m.levels layer k)
  have h3 := lvl_le_of_WF layer m.root m.height hwf
  simp only [List.length_append]; omega

/-- the bounds hold on every tree any history produces (from the empty tree, any branch factor ≥ 2,
    any layer function), whatever part of it is persisted -/
theorem C16_every_history (layer : Nat → Nat) (e : Enc) (bf : Nat) (hbf : 2 ≤ bf) (ops : List Op) (k : Nat) :
    let m := execT layer e (Tree.empty bf) ops
    (m.lookupLoads layer k).length ≤ m.height + 1 ∧ (m.insertLoads layer k).length ≤ m.height + 1 ∧
    (m.rootLoad ++ delLoads k (m.levels layer k) m.root).length ≤ 2 * (m.height + 1) := by
  have hi := inv_execT layer e ops (Tree.empty bf) (inv_empty layer bf hbf)
  exact ⟨C16_get layer _ k hi.wf, C16_insert layer _ k hi.wf, C16_delete layer _ k hi.wf⟩

/-- non-vacuity: a persisted two-level tree -/
example : WF (fun k => k % 2) 1
    (cons true (cons true nil 2 0 (last true nil)) 3 0 (last true (cons true nil 4 0 (last true nil)))) := by
  simp [WF, isEmptyRow, T.toList]

/-- a `Ceil` placement on a fresh cursor reads at most one node per level below the top -/
theorem C16_ceil (layer : Nat → Nat) (root : T) (d k fuel : Nat) (hw : WF layer d root) :
    (Cursor.ceilLoads k fuel [(root, 0)]).length ≤ d := by
  have h1 := Cursor.ceilLoads_le k fuel root 0 []
  have h2 := lvl_le_of_WF layer root d hw
  omega

/-- after any placement and any walk, one more step reads at most one node per level below the top -/
theorem C16_cursor_step (layer : Nat → Nat) (root : T) (d fuel : Nat) (hw : WF layer d root)
    (hsrt : Sorted (T.toList root)) (hne : isEmptyRow root = false) (hf : lvl root < fuel)
    (pl : Cursor.Place) (ms : List Cursor.Move) (m : Cursor.Move) :
    let p := ms.foldl (Cursor.stepPath fuel) (Cursor.place fuel root pl)
    (Cursor.newLoads p (Cursor.stepPath fuel p m)).length ≤ d := by
  intro p
  have hs := solid_of_WF layer root d hw
  have hn : root.isNil = false := by cases root <;> simp_all [WF, isNil]
  have hrel := Cursor.walk_rel root fuel hf (ms ++ [m]) _ _ (Cursor.place_rel root fuel hs hsrt hf hn hne pl)
  rw [List.foldl_append, List.foldl_append] at hrel
  simp only [List.foldl_cons, List.foldl_nil] at hrel
  have hl := lvl_le_of_WF layer root d hw
  -- the path after the step is a chain from the root (or empty)
  generalize hq : Cursor.stepPath fuel p m = q at hrel ⊢
  generalize Cursor.stepIdx (T.toList root).length (List.foldl (Cursor.stepIdx (T.toList root).length) (Cursor.placeIdx (T.toList root) pl) ms) m = st at hrel
  cases st with
  | none =>
    have : q = [] := hrel
    subst this
    have := Cursor.newLoads_length_le p []
    simp only [List.length_nil, Nat.zero_sub, Nat.le_zero_eq] at this
    omega
  | some n =>
    have hpos : Cursor.Pos root q n := hrel
    have := Cursor.newLoads_le_height root p q hpos.chain
    omega

/-- a `Min` / `Max` placement on a fresh cursor reads at most one node per level below the top -/
theorem C16_min_max (layer : Nat → Nat) (root : T) (d fuel : Nat) (hw : WF layer d root)
    (hsrt : Sorted (T.toList root)) (hne : isEmptyRow root = false) (hf : lvl root < fuel) (pl : Cursor.Place) :
    (Cursor.newLoads [(root, 0)] (Cursor.place fuel root pl)).length ≤ d := by
  have hs := solid_of_WF layer root d hw
  have hn : root.isNil = false := by cases root <;> simp_all [WF, isNil]
  have hrel := Cursor.place_rel root fuel hs hsrt hf hn hne pl
  have hl := lvl_le_of_WF layer root d hw
  generalize Cursor.place fuel root pl = q at hrel ⊢
  generalize Cursor.placeIdx (T.toList root) pl = st at hrel
  cases st with
  | none =>
    have : q = [] := hrel
    subst this
    have := Cursor.newLoads_length_le [(root, 0)] []
    simp only [List.length_nil, Nat.zero_sub, Nat.le_zero_eq] at this
    omega
  | some n =>
    have hpos : Cursor.Pos root q n := hrel
    have := Cursor.newLoads_le_height root [(root, 0)] q hpos.chain
    omega

end Mast.Tree
#print axioms Mast.Tree.C16_min_max
#print axioms Mast.Tree.C16_ceil
#print axioms Mast.Tree.C16_cursor_step
#print axioms Mast.Tree.C16_open_clone
#print axioms Mast.Tree.C16_get
#print axioms Mast.Tree.C16_insert
#print axioms Mast.Tree.C16_delete
#print axioms Mast.Tree.C16_every_history
