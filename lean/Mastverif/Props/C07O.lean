import Mastverif.Lemmas.RefDiffSim
import Mastverif.Props.C07
import Mastverif.Props.C06O
/-!
# C07 at the level of node objects (property theorems)

For two PERSISTED versions — held by name, every node below them a stored node — read through a
store that does not fail (C07 does not speak about failing stores), the object-level diff loop of
`Model/PtrDiff.lean` (node objects decoded or taken from the cache, counted loads, the per-height memo
of `alreadyNotified` with its own loads) is, event by event, the literal functional `diffOne` loop of
`Model/Diff.lean`: `C07_object_level_is_the_functional_diff`.  The link events carry the names; a name
`k` is read as `nameOf (row k denotes)`.

Hence the theorems of `Props/C07.lean` hold of the object-level transcription:
* `C07_object_level_within_complete`: complete and within, both directions;
* `C07_object_level_replica`: a store with the old version's names plus the added names holds the
  name of every node of the new version;
* `C07_object_level_once`: no name is reported twice as added, nor twice as removed.
Hypotheses: `NoFail E`; `Naming (nodeName e) nm s.store` — the content name of the row a stored node
denotes is a function `nm` of its index, injective (content addressing without collisions: what
`NoCollision` says of the nodes in play, and that the store interns equal contents); non-empty
versions (the functional `rootItemStack` drops an entry-less childless top row; such a node is never
stored).  For trees held partly in memory, for failing stores and for the callback order the tie
(families `difflinks`, `ptr`) carries C07.
-/
namespace Mast.Ptr
open Mast.Heap Mast Mast.Diff Mast.T

theorem C07_object_level_is_the_functional_diff (E : Env) (hnf : NoFail E) (nameOf : T → List UInt8) (nm : Nat → List UInt8)
    (m f g n k1 k2 : Nat) (s : PS) (t1 t2 : T) (f1 f2 : List Nat) (hg : Good s) (hna : Naming nameOf nm s.store)
    (hx1 : repLink s.heap s.store g (.ref k1) = some (true, t1, f1))
    (hx2 : repLink s.heap s.store g (.ref k2) = some (true, t2, f2))
    (hr1 : rootItems true t1 = [Item.link true t1]) (hr2 : rootItems true t2 = [Item.link true t2]) :
    Spec (Grow m) (oDiff E f n (some (.ref k1)) (.ref k2)) s
      (fun evs _ => evs.map (evMap nm) = (Diff.run E.layer nameOf n (init (some (true, t1)) true t2)).1) := by
  have hinit : oDiff E f n (some (.ref k1)) (.ref k2) =
      oRun E f n { old := [OItem.link (.ref k1)], new := [OItem.link (.ref k2)] } := by
    funext s0
    simp [oDiff, oDiffInit, orootItems, bind, M.bind, pure, M.pure]
  rw [hinit]
  refine oRun_sim (m := m) E hnf nameOf nm f g n _ _ s hg hna ?_
  refine ⟨?_, ?_, ?_, ?_, rfl, rfl, (fun _ h => nomatch h), (fun _ h => nomatch h)⟩
  · simp only [init, hr1]; exact ⟨by simp, ⟨f1, hx1⟩, trivial⟩
  · simp only [init, hr2]; exact ⟨by simp, ⟨f2, hx2⟩, trivial⟩
  · intro x hx; simp at hx; subst hx; rfl
  · intro x hx; simp at hx; subst hx; rfl

/-- the same against no old version -/
theorem C07_object_level_is_the_functional_diff_no_old (E : Env) (hnf : NoFail E) (nameOf : T → List UInt8) (nm : Nat → List UInt8)
    (m f g n k2 : Nat) (s : PS) (t2 : T) (f2 : List Nat) (hg : Good s) (hna : Naming nameOf nm s.store)
    (hx2 : repLink s.heap s.store g (.ref k2) = some (true, t2, f2))
    (hr2 : rootItems true t2 = [Item.link true t2]) :
    Spec (Grow m) (oDiff E f n none (.ref k2)) s
      (fun evs _ => evs.map (evMap nm) = (Diff.run E.layer nameOf n (init none true t2)).1) := by
  have hinit : oDiff E f n none (.ref k2) = oRun E f n { old := [], new := [OItem.link (.ref k2)] } := by
    funext s0
    simp [oDiff, oDiffInit, orootItems, bind, M.bind, pure, M.pure]
  rw [hinit]
  refine oRun_sim (m := m) E hnf nameOf nm f g n _ _ s hg hna ?_
  refine ⟨trivial, ?_, (fun _ h => nomatch h), ?_, rfl, rfl, (fun _ h => nomatch h), (fun _ h => nomatch h)⟩
  · simp only [init, hr2]; exact ⟨by simp, ⟨f2, hx2⟩, trivial⟩
  · intro x hx; simp at hx; subst hx; rfl

variable (e : Enc)

/-- **complete and within**, at the level of node objects -/
theorem C07_object_level_within_complete (E : Env) (hnf : NoFail E) (nm : Nat → List UInt8) (hnc : NoCollision e)
    (hk : Function.Injective e.keyB) (hv : Function.Injective e.valB)
    (f g n k1 k2 : Nat) (s s' : PS) (t1 t2 : T) (f1 f2 : List Nat) (evs : List OEv) (hg : Good s)
    (hna : Naming (nodeName e) nm s.store)
    (hx1 : repLink s.heap s.store g (.ref k1) = some (true, t1, f1))
    (hx2 : repLink s.heap s.store g (.ref k2) = some (true, t2, f2))
    (hr1 : rootItems true t1 = [Item.link true t1]) (hr2 : rootItems true t2 = [Item.link true t2])
    (hs1 : Sorted (toList t1)) (hs2 : Sorted (toList t2))
    (hn : mu (init (some (true, t1)) true t2).old + mu (init (some (true, t1)) true t2).new < n)
    (hrun : oDiff E f n (some (.ref k1)) (.ref k2) s = .ok evs s') :
    Final (nodeName e) (versionNodes true t1) (versionNodes true t2)
      (adds (evs.map (evMap nm))) (rems (evs.map (evMap nm))) := by
  have hs := C07_object_level_is_the_functional_diff E hnf (nodeName e) nm 0 f g n k1 k2 s t1 t2 f1 f2 hg hna hx1 hx2 hr1 hr2
  unfold Spec at hs
  rw [hrun] at hs
  rw [hs.2]
  exact C07_within_complete E.layer e hnc hk hv (some (true, t1)) true t2
    (fun p t h => by injection h with h; injection h with _ h2; subst h2; exact hs1) hs2 n hn

/-- **the replica corollary**, at the level of node objects -/
theorem C07_object_level_replica (E : Env) (hnf : NoFail E) (nm : Nat → List UInt8) (hnc : NoCollision e)
    (hk : Function.Injective e.keyB) (hv : Function.Injective e.valB)
    (f g n k1 k2 : Nat) (s s' : PS) (t1 t2 : T) (f1 f2 : List Nat) (evs : List OEv) (hg : Good s)
    (hna : Naming (nodeName e) nm s.store)
    (hx1 : repLink s.heap s.store g (.ref k1) = some (true, t1, f1))
    (hx2 : repLink s.heap s.store g (.ref k2) = some (true, t2, f2))
    (hr1 : rootItems true t1 = [Item.link true t1]) (hr2 : rootItems true t2 = [Item.link true t2])
    (hs1 : Sorted (toList t1)) (hs2 : Sorted (toList t2))
    (hn : mu (init (some (true, t1)) true t2).old + mu (init (some (true, t1)) true t2).new < n)
    (hrun : oDiff E f n (some (.ref k1)) (.ref k2) s = .ok evs s')
    (store : List Name) (hold : ∀ x ∈ versionNodes true t1, nodeName e x ∈ store)
    (hadd : ∀ nme ∈ adds (evs.map (evMap nm)), nme ∈ store) :
    ∀ x ∈ versionNodes true t2, nodeName e x ∈ store := by
  intro x hx
  have h := C07_object_level_within_complete e E hnf nm hnc hk hv f g n k1 k2 s s' t1 t2 f1 f2 evs hg hna hx1 hx2 hr1 hr2 hs1 hs2 hn hrun
  rcases h.complete_added x hx with h1 | h1
  · exact hadd _ h1
  · obtain ⟨y, hy, hyn⟩ := List.mem_map.mp h1
    rw [← hyn]; exact hold y hy

/-- **each name at most once**, at the level of node objects -/
theorem C07_object_level_once (E : Env) (hnf : NoFail E) (nm : Nat → List UInt8) (hnc : NoCollision e)
    (hk : Function.Injective e.keyB) (hv : Function.Injective e.valB)
    (f g n k1 k2 : Nat) (s s' : PS) (t1 t2 : T) (f1 f2 : List Nat) (evs : List OEv) (hg : Good s)
    (hna : Naming (nodeName e) nm s.store)
    (hx1 : repLink s.heap s.store g (.ref k1) = some (true, t1, f1))
    (hx2 : repLink s.heap s.store g (.ref k2) = some (true, t2, f2))
    (hr1 : rootItems true t1 = [Item.link true t1]) (hr2 : rootItems true t2 = [Item.link true t2])
    (hs1 : Solid t1 ∧ Sorted (toList t1)) (hs2 : Solid t2 ∧ Sorted (toList t2))
    (hrun : oDiff E f n (some (.ref k1)) (.ref k2) s = .ok evs s') :
    (adds (evs.map (evMap nm))).Nodup ∧ (rems (evs.map (evMap nm))).Nodup := by
  have hs := C07_object_level_is_the_functional_diff E hnf (nodeName e) nm 0 f g n k1 k2 s t1 t2 f1 f2 hg hna hx1 hx2 hr1 hr2
  unfold Spec at hs
  rw [hrun] at hs
  rw [hs.2]
  exact C07_once E.layer e hnc hk hv (some (true, t1)) true t2
    (fun p t h => by injection h with h; injection h with _ h2; subst h2; exact hs1) hs2 n

/-! ## non-vacuity -/


def nvStore : List SNode := [{ keys := [1], vals := [10], links := [] }, { keys := [1], vals := [11], links := [] }]
def nvS : PS := { store := nvStore }
def nvName : T → List UInt8 := fun t => (toList t).map fun e => (e.1 * 16 + e.2).toUInt8
def nvNm : Nat → List UInt8
  | 1 => [26]
  | 2 => [27]
  | k => [0, 0] ++ List.replicate k 1

theorem nvNm_inj : ∀ a b, nvNm a = nvNm b → a = b := by
  intro a b h
  match a, b, h with
  | 1, 1, _ => rfl
  | 2, 2, _ => rfl
  | 1, 2, h => simp [nvNm] at h
  | 2, 1, h => simp [nvNm] at h
  | 1, 0, h => simp [nvNm] at h
  | 2, 0, h => simp [nvNm] at h
  | 0, 1, h => simp [nvNm] at h
  | 0, 2, h => simp [nvNm] at h
  | 0, 0, _ => rfl
  | 0, b+3, h => simp [nvNm] at h
  | a+3, 0, h => simp [nvNm] at h
  | 1, b+3, h => simp [nvNm] at h
  | 2, b+3, h => simp [nvNm] at h
  | a+3, 1, h => simp [nvNm] at h
  | a+3, 2, h => simp [nvNm] at h
  | a+3, b+3, h =>
    simp only [nvNm, List.append_cancel_left_eq] at h
    have := congrArg List.length h
    simp at this; omega


theorem nv_agree : ∀ (h : Heap) g n x, repLink h nvStore g (.ref n) = some x → nvName x.2.1 = nvNm n := by
  intro h g n x hx
  obtain ⟨g', sn, cs, rfl, hsn, hval, hseq, rfl⟩ := repLink_ref_some.mp hx
  unfold storeAt at hsn
  match n, hsn with
  | 1, hsn =>
    simp [nvStore] at hsn; subst hsn
    simp [expandLinks] at hseq
    obtain ⟨c, cs', hc, hcs', rfl⟩ := seqO_cons_some.mp hseq
    injection hc with hc; subst hc
    obtain ⟨c2, cs2, hc2, hcs2, rfl⟩ := seqO_cons_some.mp hcs'
    injection hc2 with hc2; subst hc2
    rw [seqO_nil] at hcs2; injection hcs2 with hcs2; subst hcs2
    simp [nodeRep, mkRow, nvName, nvNm, toList]
  | 2, hsn =>
    simp [nvStore] at hsn; subst hsn
    simp [expandLinks] at hseq
    obtain ⟨c, cs', hc, hcs', rfl⟩ := seqO_cons_some.mp hseq
    injection hc with hc; subst hc
    obtain ⟨c2, cs2, hc2, hcs2, rfl⟩ := seqO_cons_some.mp hcs'
    injection hc2 with hc2; subst hc2
    rw [seqO_nil] at hcs2; injection hcs2 with hcs2; subst hcs2
    simp [nodeRep, mkRow, nvName, nvNm, toList]
  | 0, hsn => simp at hsn
  | k+3, hsn => simp [nvStore] at hsn

def nvEnv : Env := { layer := fun _ => 0, failAt := fun _ => false }

theorem nv_good : Good nvS := by
  refine ⟨?_, ?_, ?_, ?_⟩
  · intro n a h; simp [nvS] at h
  · intro a nd h; simp [nvS] at h
  · intro sn hsn l hl
    simp [nvS, nvStore] at hsn
    rcases hsn with rfl | rfl <;> simp at hl
  · intro a nd h; simp [nvS] at h

/-- non-vacuity of the hypotheses of the theorems above: a store with two leaf nodes that differ in
    one value; `Naming`, `NoFail`, `Good`, the two rows, and the run itself (kernel-checked): the old
    leaf is reported removed, the new one added, the entry changed -/
example : Naming nvName nvNm nvS.store ∧ NoFail nvEnv ∧ Good nvS ∧
    repLink nvS.heap nvS.store 3 (.ref 1) = some (true, T.cons false T.nil 1 10 (T.last false T.nil), []) ∧
    repLink nvS.heap nvS.store 3 (.ref 2) = some (true, T.cons false T.nil 1 11 (T.last false T.nil), []) :=
  ⟨⟨nv_agree, nvNm_inj⟩, ⟨fun _ => rfl, fun _ => rfl⟩, nv_good, by decide, by decide⟩

example : (match oDiff nvEnv 5 20 (some (.ref 1)) (.ref 2) nvS with
    | .ok evs _ => some (evs.map (evMap nvNm))
    | _ => none) = some [DEv.remLink [26], DEv.addLink [27], DEv.chg 1 10 11] := by decide +kernel

end Mast.Ptr
#print axioms Mast.Ptr.C07_object_level_is_the_functional_diff
#print axioms Mast.Ptr.C07_object_level_is_the_functional_diff_no_old
#print axioms Mast.Ptr.C07_object_level_within_complete
#print axioms Mast.Ptr.C07_object_level_replica
#print axioms Mast.Ptr.C07_object_level_once
