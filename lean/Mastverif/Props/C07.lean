import Mastverif.Lemmas.Diff
/-!
# C07 — node diff (property theorems, partial)

On the literal `diffOne` + `alreadyNotified` model (whose link events agree, event by event,
with what `DiffLinks` hands its callback: family `difflinks`):
* `C07_same_version_reports_nothing`: a version diffed with itself reports no node;
* `C07_common_link_not_reported`: when the same persisted link is on top of both stacks it is
  dropped without being reported;
* `C07_entry_stream_unaffected`: the link reports never disturb the traversal — the entry
  events are still exactly the sorted-merge diff (C06), so the traversal visits every region in
  which the versions differ.
The full statement (added ⊇ new∖old, added ⊆ new, each name once; the replica corollary) is
checked on the implementation by the `difflinks` family's oracle (reachable sets decoded from
the store, a replica store that receives old + added and must load and iterate the new version);
its model proof (`C07_complete`, `C07_within`, `C07_once`) is on the work list in DESIGN.md.
-/
namespace Mast.Diff
open T

variable (layer : Nat → Nat) (nameOf : T → List UInt8)

theorem C07_same_version_reports_nothing (t : T) (fuel : Nat) :
    (run layer nameOf (fuel + 2) (init (some (true, t)) true t)).1 = [] := by
  simp only [init]
  cases ht : rootItems true t with
  | nil => simp only [run, step]
  | cons i rest =>
    have : i = Item.link true t ∧ rest = [] := by
      unfold rootItems at ht
      split at ht <;> simp_all
    obtain ⟨rfl, rfl⟩ := this
    simp only [run, step, linkEq, Bool.and_self, BEq.rfl, Bool.and_true, if_true, List.nil_append]

theorem C07_common_link_not_reported (s : St) (t : T) (os ns : List Item)
    (ho : s.old = Item.link true t :: os) (hn : s.new = Item.link true t :: ns) :
    ∃ o, step layer nameOf s = some o ∧ o.evs = [] := by
  simp only [step, ho, hn, linkEq, Bool.and_self, BEq.rfl, Bool.and_true, if_true]
  exact ⟨_, rfl, rfl⟩

theorem C07_entry_stream_unaffected (hle : ∀ a b, nameOf a = nameOf b → toList a = toList b)
    (f : Nat) (s : St) (ho : Sorted (flat s.old)) (hn : Sorted (flat s.new))
    (hf : mu s.old + mu s.new < f) :
    ents (run layer nameOf f s).1 = diffL (flat s.old) (flat s.new) :=
  run_correct layer nameOf hle f s ho hn hf

end Mast.Diff
#print axioms Mast.Diff.C07_same_version_reports_nothing
#print axioms Mast.Diff.C07_common_link_not_reported
#print axioms Mast.Diff.C07_entry_stream_unaffected
