import Mastverif.Lemmas.DiffNames
import Mastverif.Lemmas.DiffDistinct
/-!
# C07 — node diff (property theorems)

On the literal `diffOne` + `alreadyNotified` model (whose link events agree, event by event,
with what `DiffLinks` hands its callback: family `difflinks`):
* `C07_same_version_reports_nothing`: a version diffed with itself reports no node;
* `C07_common_link_not_reported`: when the same persisted link is on top of both stacks it is
  dropped without being reported;
* `C07_entry_stream_unaffected`: the link reports never disturb the traversal — the entry
  events are still exactly the sorted-merge diff (C06), so the traversal visits every region in
  which the versions differ.
* `C07_within_complete` (`Final`): for any two versions (old possibly absent, any heights, any
  residency, empty trees included), with content names and no hash collision among the nodes in
  play, when the traversal has ended
  - every node the new version reaches is reported as added or has a name the old version reaches
    (complete), and every reported name is the name of a node of the new version (within);
  - symmetrically for removed;
* `C07_replica`: hence a store holding the names of the old version plus the added names holds the
  name of every node of the new version.
* `C07_once`: no name is reported twice as added, nor twice as removed — for versions whose trees
  have strictly ascending entries and no entry-less childless node below the top (what every
  history produces: C09), however far the traversal gets (also when the callback stops it early).
Hypotheses throughout: content names without a hash collision among the nodes in play
(`NoCollision`), injective key / value encoders.
-/
namespace Mast.Diff
open T

variable (layer : Nat → Nat) (nameOf : T → List UInt8)

theorem C07_same_version_reports_nothing (t : T) (fuel : Nat) :
    (run layer nameOf (fuel + 2) (init (some (true, t)) true t)).1 = [] := by
  simp only [init]
  cases ht : rootItems true t with
  | nil => simp only [run, step]
  | cons i rest =>
    have : i = Item.link true t ∧ rest = [] := by
      unfold rootItems at ht
      split at ht <;> simp_all
    obtain ⟨rfl, rfl⟩ := this
    simp only [run, step, linkEq, Bool.and_self, BEq.rfl, Bool.and_true, if_true, List.nil_append]

theorem C07_common_link_not_reported (s : St) (t : T) (os ns : List Item)
    (ho : s.old = Item.link true t :: os) (hn : s.new = Item.link true t :: ns) :
    ∃ o, step layer nameOf s = some o ∧ o.evs = [] := by
  simp only [step, ho, hn, linkEq, Bool.and_self, BEq.rfl, Bool.and_true, if_true]
  exact ⟨_, rfl, rfl⟩

theorem C07_entry_stream_unaffected (hle : ∀ a b, nameOf a = nameOf b → toList a = toList b)
    (f : Nat) (s : St) (ho : Sorted (flat s.old)) (hn : Sorted (flat s.new))
    (hf : mu s.old + mu s.new < f) :
    ents (run layer nameOf f s).1 = diffL (flat s.old) (flat s.new) :=
  run_correct layer nameOf hle f s ho hn hf

theorem flat_rootItems (p : Bool) (t : T) : flat (rootItems p t) = toList t := by
  unfold rootItems
  split <;> simp [flat, toList]

/-- **C07, complete and within** (both directions) -/
theorem C07_within_complete (e : Enc) (hnc : NoCollision e)
    (hk : Function.Injective e.keyB) (hv : Function.Injective e.valB)
    (oldRoot : Option (Bool × T)) (newP : Bool) (newRoot : T)
    (hso : ∀ p t, oldRoot = some (p, t) → Sorted (toList t)) (hsn : Sorted (toList newRoot)) (f : Nat)
    (hf : mu (init oldRoot newP newRoot).old + mu (init oldRoot newP newRoot).new < f) :
    Final (nodeName e) (oldNodes oldRoot)
      (versionNodes newP newRoot)
      (adds (run layer (nodeName e) f (init oldRoot newP newRoot)).1)
      (rems (run layer (nodeName e) f (init oldRoot newP newRoot)).1) := by
  have hle : ∀ a b, nodeName e a = nodeName e b → toList a = toList b :=
    fun a b h => name_eq_toList e hnc hk hv a b h
  have h := run_links layer (nodeName e) hle (sameBelow_of_noCollision e hnc) _ _ f
    (init oldRoot newP newRoot) [] [] (init_links (nodeName e) oldRoot newP newRoot)
    (by
      cases oldRoot with
      | none => simp [init, flat, Sorted]
      | some pt => obtain ⟨p, t⟩ := pt; simpa [init, flat_rootItems] using hso p t rfl)
    (by simpa [init, flat_rootItems] using hsn) hf
  simpa using h

/-- **the replica corollary**: old names + added names cover every node of the new version -/
theorem C07_replica (e : Enc) (hnc : NoCollision e)
    (hk : Function.Injective e.keyB) (hv : Function.Injective e.valB)
    (oldRoot : Option (Bool × T)) (newP : Bool) (newRoot : T)
    (hso : ∀ p t, oldRoot = some (p, t) → Sorted (toList t)) (hsn : Sorted (toList newRoot)) (f : Nat)
    (hf : mu (init oldRoot newP newRoot).old + mu (init oldRoot newP newRoot).new < f)
    (store : List Name)
    (hold : ∀ x ∈ (oldNodes oldRoot), nodeName e x ∈ store)
    (hadd : ∀ n ∈ adds (run layer (nodeName e) f (init oldRoot newP newRoot)).1, n ∈ store) :
    ∀ x ∈ versionNodes newP newRoot, nodeName e x ∈ store := by
  intro x hx
  have h := C07_within_complete layer e hnc hk hv oldRoot newP newRoot hso hsn f hf
  rcases h.complete_added x hx with h1 | h1
  · exact hadd _ h1
  · obtain ⟨y, hy, hyn⟩ := List.mem_map.mp h1
    rw [← hyn]; exact hold y hy

theorem oinv_root (e : Enc) (hnc : NoCollision e) (hk : Function.Injective e.keyB) (hv : Function.Injective e.valB)
    (p : Bool) (t : T) (hs : Solid t) (hsrt : Sorted (toList t)) :
    OInv layer (nodeName e) (rootItems p t) [] [] := by
  by_cases hn : t.isNil = true
  · have : t = nil := by cases t <;> simp_all [isNil]
    subst this
    exact ⟨by simp, by simp [rootItems, pend], by simp, by simp, by simp [rootItems, pend]⟩
  · have hn' : t.isNil = false := by simpa using hn
    by_cases hne : isEmptyRow t = true
    · have : ∃ q, t = last q nil := by
        cases t with
        | nil => simp [isNil] at hn'
        | last q c => cases c <;> simp_all [isEmptyRow]
        | cons _ _ _ _ _ => simp [isEmptyRow] at hne
      obtain ⟨q, rfl⟩ := this
      exact ⟨by simp, by simp [rootItems, pend], by simp, by simp, by simp [rootItems, pend]⟩
    · have hne' : isEmptyRow t = false := by simpa using hne
      have hri : rootItems p t = [Item.link p t] := by
        cases t with
        | nil => simp [isNil] at hn'
        | last q c => cases c <;> simp_all [isEmptyRow, rootItems]
        | cons _ _ _ _ _ => rfl
      have hnd := names_nodup e hnc hk hv (last false t) ⟨Or.inr hne', hs⟩ (by simpa [toList] using hsrt)
      simp only [nodesBelow, hn', Bool.false_eq_true, if_false] at hnd
      refine ⟨by simp, by simpa [hri, pend] using hnd, by simp, by simp, ?_⟩
      intro x hx q
      simp only [hri, pend, List.append_nil, List.mem_cons] at hx
      rcases hx with rfl | hx
      · exact chain_some layer _ q hs hn' hne'
      · obtain ⟨a, b, c, _, _⟩ := nodesBelow_props t hs x hx
        exact chain_some layer x q a b c

/-- **C07, each name at most once** -/
theorem C07_once (e : Enc) (hnc : NoCollision e)
    (hk : Function.Injective e.keyB) (hv : Function.Injective e.valB)
    (oldRoot : Option (Bool × T)) (newP : Bool) (newRoot : T)
    (hso : ∀ p t, oldRoot = some (p, t) → Solid t ∧ Sorted (toList t))
    (hsn : Solid newRoot ∧ Sorted (toList newRoot)) (f : Nat) :
    (adds (run layer (nodeName e) f (init oldRoot newP newRoot)).1).Nodup ∧
    (rems (run layer (nodeName e) f (init oldRoot newP newRoot)).1).Nodup := by
  have hn := oinv_root layer e hnc hk hv newP newRoot hsn.1 hsn.2
  have ho : OInv layer (nodeName e) (init oldRoot newP newRoot).old [] [] := by
    cases oldRoot with
    | none => exact ⟨by simp, by simp [init, pend], by simp, by simp, by simp [init, pend]⟩
    | some pt =>
      obtain ⟨p, t⟩ := pt
      exact oinv_root layer e hnc hk hv p t (hso p t rfl).1 (hso p t rfl).2
  simpa using run_once layer (nodeName e) f (init oldRoot newP newRoot) [] [] hn ho

/-- non-vacuity: one key changed under a two-level tree — the changed leaf and the top are added -/
example : adds (run (fun _ => 0) (fun t => (toList t).map fun e => (e.1 * 16 + e.2).toUInt8) 12
    (init (some (true, cons true (cons true nil 2 0 (last true nil)) 4 0 (last true (cons true nil 7 0 (last true nil)))))
      true (cons true (cons true nil 2 0 (last true nil)) 4 0 (last true (cons true nil 7 1 (last true nil)))))).1 = [[32, 64, 113], [113]] := by
  decide

end Mast.Diff
#print axioms Mast.Diff.C07_within_complete
#print axioms Mast.Diff.C07_replica
#print axioms Mast.Diff.C07_once
#print axioms Mast.Diff.C07_same_version_reports_nothing
#print axioms Mast.Diff.C07_common_link_not_reported
#print axioms Mast.Diff.C07_entry_stream_unaffected
