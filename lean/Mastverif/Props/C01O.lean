import Mastverif.Lemmas.RefErr
import Mastverif.Lemmas.RefDelSys
import Mastverif.Lemmas.PtrGo
import Mastverif.Lemmas.History
import Mastverif.Lemmas.RefHistExample
import Mastverif.Lemmas.RefIterEntries
/-!
# C01 at the level of node objects (property theorems)

`Props/C01.lean` proves the map semantics of the *functional* tree model.  The theorems here carry
it over to the *object-level* transcription of the code (`Model/Ptr.lean`: a heap of `*mastNode`
objects with `dirty / shared / source` flags, copy-on-write through `ToMut`, in-place edits of the
path, pointer and name links, a node cache, counted and failing store loads) — the model whose
object graph the `ptr` family compares with the implementation's after every operation.

`repTree s g t = some A` says: the objects reachable from the tree record `t` in state `s` are
valid nodes, the unshared ones among them form a tree (no aliasing), and they denote the
functional tree `A` (every field of the record, every residency flag).  Then

* `C01_object_level_lookup`: `Get` returns what `Tree.lookup` returns on `A`; it changes nothing
  (also when a load fails);
* `C01_object_level_insert`: a successful `Insert` (locate, split, in-place commit along the path,
  growth loop) leaves objects that denote exactly `Tree.insert A k v`; every side condition is
  re-established, so the statement iterates along a history;
* `C01_object_level_delete` (+ `_last_entry`, `_absent`): the same for `Delete` (locate, merge of
  the neighbouring children, in-place commit with pruning, height reduction);
* `C01_object_level_other_trees`: every other tree over the same heap, store and cache denotes
  what it denoted (whether the call succeeds or fails);
* `C01_object_level_persist / _load / _clone`: `MakeRoot`, `LoadMast`, `Clone`;
* `C01_object_level_iterate`: `Iter` (`node.iter` over the objects, every child loaded through the
  store / cache, any pattern of failing loads) hands to its callback exactly the entries of `A` in
  ascending position order, each once, and is an allocation-only step (every tree denotes what it
  denoted); `C01_object_level_iterate_is_the_history_step`: on the state it is the walk that
  `Sys.apply` performs for an `.iter` call;
* `C01_object_level_history` (+ `_from_empty`): the statement along a whole `Sys.run` history of any
  number of trees over one heap, store and cache;
* `C01_object_level_insert_then_lookup`: the consequences with
  `Props/C01.lean`: on a well-formed tree the object-level `Get` after an object-level `Insert`
  returns the value written, after a `Delete` not-found.
* `C01_driver_insert_is_insert` / `C01_driver_delete_is_delete`: the driver runs `insertGo` /
  `deleteGo` (the record Go leaves when the height loop fails part-way); they agree with `insert`
  / `delete` on the outcome, on the state whenever the call returns, and on the record whenever it
  succeeds.

Hypotheses: `Good s` (cache entries are decoded store nodes, shared objects and store nodes hold no
pointers, dirty objects are unshared — `goodB` decides it), `FpOwned` (the unshared objects under
the root carry the tree's owner tag), `Healthy t` / `Thresh t` (thresholds are consecutive powers
of a branch factor ≥ 2: what `LoadMast` sets and Insert / Delete keep).  Without `2 ≤ bf` the two
models DO differ (`Lemmas/RefExample.lean`: kernel-checked witness with bf = 1).  A `Delete` that
removes the last entry of a tree of height > 0 (a state no history from an empty root reaches)
ends with a nil root link at the object level: `C01_object_level_delete_last_entry`.
-/
namespace Mast.Ptr
open Mast.Heap

theorem C01_object_level_lookup (E : Env) (t : PTree) (fuel key g : Nat) (s : PS) (A : Tree)
    (hg : Good s) (hA : repTree s g t = some A) :
    match get E t fuel key s with
    | .ok r s' => r = Tree.lookup E.layer A key ∧ repTree s' g t = some A ∧ Good s'
    | .err s' => repTree s' g t = some A ∧ Good s'
    | _ => True :=
  get_refines E t fuel key g s A hg hA

theorem C01_object_level_insert (E : Env) (fuel g : Nat) (s s' : PS) (t t' : PTree) (k v : Nat) (A : Tree)
    (hg : Good s) (hown : FpOwned s.heap t.id (footprint s g t)) (hth : Thresh t)
    (hA : repTree s g t = some A) (h : insert E fuel s t k v = (s', t', .ok)) :
    ∃ g' A', repTree s' g' t' = some A' ∧ Tree.insert E.layer A k v = .ok A' ∧ Good s' ∧
      FpOwned s'.heap t'.id (footprint s' g' t') ∧ Thresh t' ∧ t'.id = t.id ∧ Step t.id s s' := by
  obtain ⟨g', A', h1, h2, h3, h4, _, h6, h7⟩ := insert_refines E fuel g s s' t t' k v A hg hown hth.healthy hA h
  exact ⟨g', A', h1, h2, h3, h4, insert_thresh E fuel g s s' t t' k v A hg hown hth hA h, h6, h7⟩

theorem C01_object_level_delete (E : Env) (fuel g : Nat) (s s' : PS) (t t' : PTree) (k v : Nat) (A : Tree)
    (hg : Good s) (hown : FpOwned s.heap t.id (footprint s g t)) (hth : Thresh t)
    (hA : repTree s g t = some A) (h : delete E fuel s t k v = (s', t', .ok)) (hroot : t'.root ≠ .nil) :
    ∃ g' A', repTree s' g' t' = some A' ∧ Tree.delete E.layer A k v = .ok A' ∧ Good s' ∧
      FpOwned s'.heap t'.id (footprint s' g' t') ∧ Thresh t' ∧ t'.id = t.id ∧ Step t.id s s' := by
  obtain ⟨g', A', h1, h2, h3, h4, h5, _, h7, h8⟩ := delete_refines_thresh E fuel g s s' t t' k v A hg hown hth hA h hroot
  exact ⟨g', A', h1, h2, h3, h4, h5, h7, h8⟩

/-- the remaining case: the call removed the last entry of a tree of height > 0 -/
theorem C01_object_level_delete_last_entry (E : Env) (fuel g : Nat) (s s' : PS) (t t' : PTree) (k v : Nat) (A : Tree)
    (hg : Good s) (hown : FpOwned s.heap t.id (footprint s g t))
    (hA : repTree s g t = some A) (h : delete E fuel s t k v = (s', t', .ok)) (hroot : t'.root = .nil) :
    ∃ g' A', repTree s' g' t' = some A' ∧ A'.root = T.last false T.nil ∧ t'.height < t.height ∧
      (t'.height = 0 → Tree.delete E.layer A k v = .ok { A' with dirty := true }) ∧ Good s' ∧
      FpOwned s'.heap t'.id (footprint s' g' t') ∧ Step t.id s s' := by
  obtain ⟨g', A', h1, h2, _, h4, _, _, h7, h8, h9, _, _, h12⟩ :=
    delete_refines_emptied E fuel g s s' t t' k v A hg hown hA h hroot
  exact ⟨g', A', h1, h2, h4, h7, h8, h9, h12⟩

/-- a delete of an absent key, or with another value: not `ok`, the functional model errs too, and
    an error leaves the tree as it was -/
theorem C01_object_level_delete_absent (E : Env) (fuel g : Nat) (s s' : PS) (t t' : PTree) (k v : Nat) (A : Tree)
    (o : Outcome) (hg : Good s) (hown : FpOwned s.heap t.id (footprint s g t))
    (hA : repTree s g t = some A) (hne : Tree.lookup E.layer A k ≠ some v) (h : delete E fuel s t k v = (s', t', o)) :
    o ≠ .ok ∧
    (Tree.delete E.layer A k v = .err "notpresent" ∨ Tree.delete E.layer A k v = .err "valuemismatch") ∧
    (o = .err → t' = t ∧ repTree s' g t = some A ∧ Good s') := by
  obtain ⟨h1, h2, h3⟩ := delete_absent E fuel g s s' t t' k v A o hg hown hA hne h
  exact ⟨h1, h2, fun ho => let ⟨a, b, c, _, _⟩ := h3 ho; ⟨a, b, c⟩⟩

/-- whatever a call on tree `t` does (success or error), every tree with another owner tag denotes
    what it denoted -/
theorem C01_object_level_other_trees (E : Env) (fuel g g2 : Nat) (s s' : PS) (t t' t2 : PTree) (k v : Nat) (A B : Tree)
    (hg : Good s) (hown : FpOwned s.heap t.id (footprint s g t)) (hth : Thresh t)
    (hA : repTree s g t = some A) (hne : t2.id ≠ t.id) (hB : repTree s g2 t2 = some B)
    (hown2 : FpOwned s.heap t2.id (footprint s g2 t2)) :
    (insert E fuel s t k v = (s', t', .ok) → repTree s' g2 t2 = some B ∧ FpOwned s'.heap t2.id (footprint s' g2 t2)) ∧
    (∀ o, (o = .ok ∨ o = .err) → delete E fuel s t k v = (s', t', o) →
      repTree s' g2 t2 = some B ∧ FpOwned s'.heap t2.id (footprint s' g2 t2)) :=
  ⟨fun h => insert_other_trees E fuel g g2 s s' t t' t2 k v A B hg hown hth.healthy hA h hne hB hown2,
   fun o ho h => delete_other_trees E fuel g g2 s s' t t' t2 k v A B o hg hown hA h ho hne hB hown2⟩

/-- with `Props/C01.lean`: on a well-formed tree, an object-level lookup after an object-level
    insert returns the value written -/
theorem C01_object_level_insert_then_lookup (E : Env) (fuel fuel2 g : Nat) (s s' : PS) (t t' : PTree) (k v : Nat) (A : Tree)
    (hg : Good s) (hown : FpOwned s.heap t.id (footprint s g t)) (hth : Thresh t)
    (hA : repTree s g t = some A) (hi : Tree.Inv E.layer A) (h : insert E fuel s t k v = (s', t', .ok)) :
    match get E t' fuel2 k s' with
    | .ok r _ => r = some v
    | _ => True := by
  obtain ⟨g', A', hA', hins, hg', _⟩ := insert_refines E fuel g s s' t t' k v A hg hown hth.healthy hA h
  obtain ⟨m', hm', hinv', hl', _⟩ := Tree.insert_spec E.layer A k v hi
  rw [hm'] at hins
  injection hins with hins
  subst hins
  have hget := get_refines E t' fuel2 k g' s' m' hg' hA'
  cases hr : get E t' fuel2 k s' with
  | ok r s2 =>
    rw [hr] at hget
    simp only
    rw [hget.1, Tree.lookup_eq E.layer m' k hinv', hl']
    exact T.getL_insL_same k v A.toList hi.sorted
  | _ => trivial

/-- `MakeRoot`: the tree afterwards denotes the same entries with every link a name, clean; the
    returned name denotes that root row in the (only grown) store; every other tree denotes what
    it denoted (`WStep.repTree_other`); the invariants are re-established -/
theorem C01_object_level_persist (E : Env) (t t' : PTree) (fuel g n : Nat) (s s' : PS) (A : Tree)
    (hg : Good s) (hsrc : SourceOK s) (hsd : StoreDen s.store) (hown : FpOwned s.heap t.id (footprint s g t))
    (hA : repTree s g t = some A) (h : flush E t fuel s = .ok (t', n) s') :
    Good s' ∧ SourceOK s' ∧ StoreDen s'.store ∧ WStep t.id s s' ∧ FlushOK t g A t' n s' ∧
    (flushedTree A).root.toList = A.root.toList :=
  let r := flush_refines E t t' fuel g n s s' A hg hsrc hsd hown hA h
  ⟨r.1, r.2.1, r.2.2.1, r.2.2.2.1, r.2.2.2.2, flushedTree_toList A⟩

/-- `LoadMast` of a name: the new tree denotes the row the name denotes, with the recorded size and
    height and the thresholds of that height; of the empty root: the empty tree -/
theorem C01_object_level_load (E : Env) (id link size height bf : Nat) (s s' : PS) (t : PTree) (hg : Good s)
    (h : loadMast E id link size height bf s = .ok t s') :
    Good s' ∧ t.id = id ∧ (t.bf = bf ∧ t.shrinkBelow = bf ^ height ∧ t.growAfter = bf ^ height * bf) ∧
    (link = 0 → repTree s' 1 t = some (loadedTree false (T.last false T.nil) size height bf)) ∧
    (link ≠ 0 → ∀ g x, repLink s.heap s.store g (.ref link) = some x →
        repTree s' g t = some (loadedTree true x.2.1 size height bf)) := by
  obtain ⟨_, h2, h3, _, h5, h6, h7⟩ := loadMast_refines E id link size height bf s s' t hg h
  exact ⟨h2, h3, h5, fun hl => (h6 hl).1, fun hl g x hx => ((h7 hl).2 g x hx).1⟩

/-- `Clone` (and so `Cursor()`): the clone denotes the same tree (the root link is a pointer), the
    source still denotes what it denoted, and the two share no unshared object -/
theorem C01_object_level_clone (E : Env) (t t' : PTree) (newId fuel g : Nat) (s s' : PS) (A : Tree)
    (hg : Good s) (hA : repTree s g t = some A) (h : clone E t newId fuel s = .ok t' s') :
    Good s' ∧ repTree s' g t' = some { A with rootP := false } ∧ repTree s' g t = some A ∧
    (∀ b ∈ footprint s' g t, b ∉ footprint s' g t') := by
  obtain ⟨_, h2, _, h4, h5, _, _, _, h9⟩ := clone_refines E t t' newId fuel g s s' A hg hA h
  exact ⟨h2, h4, h5, h9⟩

/-- `Iter`: the list of entries handed to the callback (`iterEntries`, Model/PtrIter.lean — the walk
    of `node.iter` over the objects, loading every child through the cache / store, with any
    pattern of failing loads and any fuel) is exactly the entry list of the functional tree the
    objects denote; failed or not, the call is an allocation-only step: every tree of the system
    (`t2`, in particular `t` itself) denotes what it denoted, with the same footprint -/
theorem C01_object_level_iterate (E : Env) (t : PTree) (fuel g : Nat) (s : PS) (A : Tree)
    (hg : Good s) (hA : repTree s g t = some A) :
    match iterEntries E fuel t.root s with
    | .ok es s' => es = A.toList ∧ Good s' ∧
        ∀ g2 t2 B, repTree s g2 t2 = some B → FpOwned s.heap t2.id (footprint s g2 t2) →
          repTree s' g2 t2 = some B ∧ FpOwned s'.heap t2.id (footprint s' g2 t2)
    | .err s' => Good s' ∧
        ∀ g2 t2 B, repTree s g2 t2 = some B → FpOwned s.heap t2.id (footprint s g2 t2) →
          repTree s' g2 t2 = some B ∧ FpOwned s'.heap t2.id (footprint s' g2 t2)
    | _ => True := by
  obtain ⟨x, hx, _, hAeq⟩ := repTree_eq_some.mp hA
  have h := iterEntries_spec (m := t.id) E fuel g t.root s hg x hx
  unfold Spec at h
  have htl : A.toList = x.2.1.toList := by
    rw [hAeq]; simp [Tree.toList, treeRec]
  cases hr : iterEntries E fuel t.root s with
  | ok es s' =>
    rw [hr] at h
    refine ⟨by rw [htl]; exact h.2, h.1.good hg, ?_⟩
    intro g2 t2 B hB hown
    exact ⟨(h.1.tree hB hown).1, (h.1.tree hB hown).2.1⟩
  | err s' =>
    rw [hr] at h
    refine ⟨h.good hg, ?_⟩
    intro g2 t2 B hB hown
    exact ⟨(h.tree hB hown).1, (h.tree hB hown).2.1⟩
  | stuck => trivial
  | panic => trivial
  | oof => trivial

/-- … and on the state it is the very walk `Sys.apply` runs for an `.iter` call (so
    `C01_object_level_history` speaks about it) -/
theorem C01_object_level_iterate_is_the_history_step (E : Env) (fuel : Nat) (l : HLink) (s : PS) :
    Erases (iterEntries E fuel l s) (iterAll E fuel l s) :=
  iterEntries_erase E fuel l s

/-- (`Erases r r'` unfolded: same outcome and same end state) -/
example (E : Env) (fuel : Nat) (l : HLink) (s s' : PS) (es : List (Nat × Nat))
    (h : iterEntries E fuel l s = .ok es s') : iterAll E fuel l s = .ok () s' := by
  have := iterEntries_erase E fuel l s
  rw [h] at this; exact this

/-- non-vacuity (kernel-checked): in the system reached by the history `hxOps` (growth, flush,
    clone, cached reload, delete — `Lemmas/RefHistExample.lean`) tree 2, whose nodes are partly names
    in the store and partly objects, is iterated: the walk loads what it needs and yields the entries
    that the tree denotes -/
def hxIter2 : Option (List (Nat × Nat)) :=
  hxSys.trees[2]?.bind fun t =>
    match iterEntries hxEnv 10 t.root hxSys.ps with
    | .ok es _ => some es
    | _ => none
example : hxIter2 = some [(3, 30), (4, 40), (5, 50), (7, 70), (8, 80)] ∧
    hxIter2 = hxSys.trees[2]?.bind fun t => (repTree hxSys.ps 10 t).map Tree.toList := by decide +kernel

/-- **the whole history**: from any system that satisfies the invariant `RSys` (in particular the
    empty one), along ANY history of loads of persisted roots (branch factor ≥ 2), inserts, deletes,
    lookups, iterations, persists and clones on any of its trees — with any layer function, any
    pattern of failing store loads, a node cache or none — that runs to its end (every call `.ok` or
    `.err`), the invariant holds at the end and the list of functional trees the system denotes has
    evolved by the functional operations (`FRun`: `Tree.insert` / `Tree.delete` / identity / flush /
    append a copy / append the loaded tree, per call and outcome; the trees a call does not target
    are untouched).  Every theorem about the functional model thereby speaks about the object-level
    transcription of the code. -/
theorem C01_object_level_history (E : Env) (fuel : Nat) (ops : List Op) (σ : Sys) (As : List Tree)
    (hR : RSys σ) (hD : Den σ As) (hc : ∀ op ∈ ops, OpCovered op) (hok : (Sys.run E fuel σ ops).2 = .ok) :
    RSys (Sys.run E fuel σ ops).1 ∧ ∃ As', Den (Sys.run E fuel σ ops).1 As' ∧
      FRun E.layer σ.ps.store As ops (Sys.run E fuel σ ops).1.ps.store As' :=
  Sys.run_refines E fuel ops σ As hR hD hc hok

theorem C01_object_level_history_from_empty (E : Env) (fuel : Nat) (ops : List Op)
    (hc : ∀ op ∈ ops, OpCovered op) (hok : (Sys.run E fuel {} ops).2 = .ok) :
    RSys (Sys.run E fuel {} ops).1 ∧ ∃ As', Den (Sys.run E fuel {} ops).1 As' ∧
      FRun E.layer [] [] ops (Sys.run E fuel {} ops).1.ps.store As' :=
  Sys.run_refines E fuel ops {} [] RSys.init (den_empty _ rfl) hc hok

/-- the driver's `Insert` / `Delete` are the proved ones -/
theorem C01_driver_insert_is_insert (E : Env) (fuel : Nat) (s : PS) (t : PTree) (k v : Nat) :
    (insertGo E fuel s t k v).2.2 = (insert E fuel s t k v).2.2 ∧
    (((insert E fuel s t k v).2.2 = .ok ∨ (insert E fuel s t k v).2.2 = .err) →
      (insertGo E fuel s t k v).1 = (insert E fuel s t k v).1) ∧
    ((insert E fuel s t k v).2.2 = .ok → (insertGo E fuel s t k v).2.1 = (insert E fuel s t k v).2.1) :=
  insertGo_insert E fuel s t k v

theorem C01_driver_delete_is_delete (E : Env) (fuel : Nat) (s : PS) (t : PTree) (k v : Nat) :
    (deleteGo E fuel s t k v).2.2 = (delete E fuel s t k v).2.2 ∧
    (((delete E fuel s t k v).2.2 = .ok ∨ (delete E fuel s t k v).2.2 = .err) →
      (deleteGo E fuel s t k v).1 = (delete E fuel s t k v).1) ∧
    ((delete E fuel s t k v).2.2 = .ok → (deleteGo E fuel s t k v).2.1 = (delete E fuel s t k v).2.1) :=
  deleteGo_delete E fuel s t k v

end Mast.Ptr
#print axioms Mast.Ptr.C01_object_level_lookup
#print axioms Mast.Ptr.C01_object_level_insert
#print axioms Mast.Ptr.C01_object_level_delete
#print axioms Mast.Ptr.C01_object_level_delete_last_entry
#print axioms Mast.Ptr.C01_object_level_delete_absent
#print axioms Mast.Ptr.C01_object_level_other_trees
#print axioms Mast.Ptr.C01_object_level_insert_then_lookup
#print axioms Mast.Ptr.C01_object_level_persist
#print axioms Mast.Ptr.C01_object_level_load
#print axioms Mast.Ptr.C01_object_level_clone
#print axioms Mast.Ptr.C01_object_level_iterate
#print axioms Mast.Ptr.C01_object_level_iterate_is_the_history_step
#print axioms Mast.Ptr.C01_object_level_history
#print axioms Mast.Ptr.C01_object_level_history_from_empty
#print axioms Mast.Ptr.C01_driver_insert_is_insert
#print axioms Mast.Ptr.C01_driver_delete_is_delete
